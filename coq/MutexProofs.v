(* MutexProofs.v — invariants of the coroutine-mutex model, for any number of contenders of any kind,
   any number of rounds and every schedule (induction over reachability).
   Part 1 works on a "view" of the state (memory, ghost lists, and per task kind/pc/flag): every protocol
   transition is a pure lemma there.  Part 2 shows that every case of MutexDefs.tstep is one of these
   transitions wrapped in scheduling bookkeeping (coro_queue, scenario counters) that does not change the view. *)
From Cocls Require Import Base BaseProofs MutexDefs.
Require Import ZifyBool.
Local Open Scope nat_scope.

(* ================================================================ part 1: the view *)
Definition tview := (kind * pc * bool)%type.
Definition dflt_tv : tview := (KPlain, PDone, false).

Inductive class := CNeutral | CWait | CBottom | CBqU | CUCas | CHold | CBad.

Definition cls (v : tview) : class :=
  match v with
  | (k, p, f) =>
      match p with
      | PPub0 | PBqS => CBottom
      | PBqU => CBqU
      | PCs | PUnlock => CHold
      | PUnlockCas => CUCas
      | PParked => match k with KCoro => CWait | KPlain => CBad end
      | PPubW | PFlag => match k with KPlain => if f then CHold else CWait | KCoro => CBad end
      | PStep | PTry | PSub _ | PDone => CNeutral
      end
  end.

Definition is_hold (c : class) : bool := match c with CBottom | CBqU | CUCas | CHold => true | _ => false end.

Record view := mkV {
  v_req : ptr; v_q : ptr; v_next : list ptr; v_dn : ptr; v_err : bool;
  v_own : option nat; v_gs : list nat; v_gq : list nat; v_al : list nat; v_gl : list nat;
  v_tv : nat -> tview
}.

(* the pointer p is the head of a chain through exactly the nodes l, ending in b *)
Fixpoint repr (nx : list ptr) (p : ptr) (l : list nat) (b : ptr) : Prop :=
  match l with
  | [] => p = b
  | w :: l' => p = PNode w /\ repr nx (nth w nx PNull) l' b
  end.

Definition bottom (V : view) (o : nat) : ptr :=
  match cls (v_tv V o) with CBottom => PNode o | _ => PDoor end.

Record Inv (V : view) : Prop := {
  i_dom : forall c, length (v_next V) <= c -> v_tv V c = dflt_tv;
  i_err : v_err V = false;
  i_bad : forall c, cls (v_tv V c) <> CBad;
  i_own : forall c, is_hold (cls (v_tv V c)) = true <-> v_own V = Some c;
  i_wait : forall w, cls (v_tv V w) = CWait <-> In w (v_gs V ++ v_gq V);
  i_nodup : NoDup (v_gs V ++ v_gq V);
  i_free : v_own V = None -> v_req V = PNull /\ v_gs V = [] /\ v_gq V = [];
  i_stack : forall o, v_own V = Some o -> repr (v_next V) (v_req V) (v_gs V) (bottom V o);
  i_bot : forall o, cls (v_tv V o) = CBottom -> nth o (v_next V) PNull = PNull /\ v_gq V = [];
  i_queue : repr (v_next V) (v_q V) (v_gq V) PNull;
  i_bqu : forall o, cls (v_tv V o) = CBqU -> v_gq V = [] /\ v_gs V <> [];
  i_dn : v_dn V = PNull;
  i_fifo : v_al V = v_gl V ++ v_gq V ++ rev (v_gs V);
  (* a requester between two attempts of its publishing CAS: aw->_next holds the value it expects *)
  i_sub : forall c e, snd (fst (v_tv V c)) = PSub e -> nth c (v_next V) PNull = e;
  (* the owner found its private queue empty and is about to CAS doorman -> null *)
  i_ucas : forall o, cls (v_tv V o) = CUCas -> v_gq V = []
}.

Definition upd (f : nat -> tview) (c : nat) (v : tview) : nat -> tview :=
  fun x => if Nat.eqb x c then v else f x.

Lemma upd_same f c v : upd f c v c = v.
Proof. unfold upd. now rewrite Nat.eqb_refl. Qed.
Lemma upd_other f c v x : x <> c -> upd f c v x = f x.
Proof. unfold upd. intros H. apply Nat.eqb_neq in H. now rewrite H. Qed.

(* ---------- list-memory lemmas ---------- *)
Lemma set_nth_len {A} (l : list A) i x : length (set_nth l i x) = length l.
Proof. revert i; induction l as [|y l IH]; intros [|i]; cbn; auto. Qed.

Lemma nth_set_nth_same {A} (l : list A) i x d : i < length l -> nth i (set_nth l i x) d = x.
Proof. revert i; induction l as [|y l IH]; intros [|i] H; cbn in *; try lia; auto. apply IH. lia. Qed.

Lemma nth_set_nth_other {A} (l : list A) i j x d : i <> j -> nth j (set_nth l i x) d = nth j l d.
Proof.
  revert i j; induction l as [|y l IH]; intros [|i] [|j] H; cbn; auto; try congruence.
Qed.

Lemma repr_frame nx p l b c v : ~ In c l -> repr (set_nth nx c v) p l b <-> repr nx p l b.
Proof.
  revert p. induction l as [|w l IH]; intros p H; cbn [repr]; [tauto|].
  assert (c <> w) by (intro; subst; apply H; left; reflexivity).
  rewrite nth_set_nth_other by assumption.
  rewrite IH; [tauto|]. intro Q. apply H. right. exact Q.
Qed.

Lemma repr_bottom nx p l b b' : repr nx p l b -> b = b' -> repr nx p l b'.
Proof. intros H <-. exact H. Qed.

Lemma repr_nil_inv nx p l b : repr nx p l b -> (forall w, p <> PNode w) -> l = [] /\ p = b.
Proof. destruct l as [|w l]; cbn [repr]; [auto|]. intros [E _] H. exfalso. eapply H. exact E. Qed.

Lemma repr_node_inv nx w l b : repr nx (PNode w) l b -> (forall x, b <> PNode x) ->
  exists r, l = w :: r /\ repr nx (nth w nx PNull) r b.
Proof.
  destruct l as [|x l]; cbn [repr].
  - intros E H. exfalso. eapply H. symmetry. exact E.
  - intros [E R] _. inversion E; subst. eauto.
Qed.

(* ---------- build_queue ---------- *)
Lemma ptr_eqb_eq a b : ptr_eqb a b = true <-> a = b.
Proof.
  destruct a, b; cbn; split; try congruence; try discriminate; auto.
  - intros H. apply Nat.eqb_eq in H. now subst.
  - intros H. inversion H. apply Nat.eqb_refl.
Qed.

Lemma bq_walk_repr l : forall fuel nx dn req stop q ql,
  repr nx req l stop -> NoDup (l ++ ql) -> (forall w, In w l -> w < length nx) ->
  (forall w, In w l -> stop <> PNode w) -> stop <> PNull ->
  repr nx q ql PNull -> length l < fuel ->
  exists nx', bq_walk fuel nx dn req stop q = (nx', dn, match rev l ++ ql with [] => q | x :: _ => PNode x end) /\
    repr nx' (match rev l ++ ql with [] => q | x :: _ => PNode x end) (rev l ++ ql) PNull /\
    length nx' = length nx /\ (forall x, ~ In x l -> nth x nx' PNull = nth x nx PNull).
Proof.
  induction l as [|w l IH]; intros fuel nx dn req stop q ql R ND LT NS SN RQ F.
  - cbn [repr] in R. subst req. destruct fuel as [|fuel]; [cbn in F; lia|].
    cbn [bq_walk]. assert (E : ptr_eqb stop stop = true) by (apply ptr_eqb_eq; reflexivity). rewrite E.
    exists nx. cbn [rev app].
    assert (Q : match ql with [] => q | x :: _ => PNode x end = q).
    { destruct ql as [|x ql]; [reflexivity|]. cbn [repr] in RQ. symmetry. apply RQ. }
    rewrite Q. auto.
  - cbn [repr] in R. destruct R as [-> R]. destruct fuel as [|fuel]; [cbn in F; lia|].
    cbn [bq_walk].
    assert (E : ptr_eqb (PNode w) stop = false).
    { destruct (ptr_eqb (PNode w) stop) eqn:Q; [|reflexivity]. apply ptr_eqb_eq in Q. exfalso.
      eapply NS; [left; reflexivity|]. symmetry. exact Q. }
    rewrite E.
    assert (Wl : ~ In w l) by (cbn in ND; inversion ND; subst; intro; apply H1; apply in_or_app; auto).
    assert (Wq : ~ In w ql) by (cbn in ND; inversion ND; subst; intro; apply H1; apply in_or_app; auto).
    assert (Wlt : w < length nx) by (apply LT; left; reflexivity).
    destruct (IH fuel (set_nth nx w q) dn (nth w nx PNull) stop (PNode w) (w :: ql)) as (nx' & E1 & R1 & L1 & O1).
    + apply repr_frame; assumption.
    + cbn in ND. inversion ND; subst.
      apply (NoDup_Add (Add_app w l ql)). split; assumption.
    + intros x Hx. rewrite set_nth_len. apply LT. right. exact Hx.
    + intros x Hx. apply NS. right. exact Hx.
    + exact SN.
    + cbn [repr]. split; [reflexivity|]. rewrite nth_set_nth_same by exact Wlt.
      apply repr_frame; assumption.
    + cbn [length] in F. lia.
    + assert (EQ : rev (w :: l) ++ ql = rev l ++ w :: ql) by (cbn [rev]; rewrite <- app_assoc; reflexivity).
      rewrite EQ.
      assert (M : match rev l ++ w :: ql with [] => PNode w | x :: _ => PNode x end =
                  match rev l ++ w :: ql with [] => q | x :: _ => PNode x end).
      { destruct (rev l ++ w :: ql) eqn:Z; [|reflexivity]. destruct (rev l); discriminate. }
      rewrite M in E1, R1.
      exists nx'. split; [exact E1|]. split; [exact R1|]. split.
      * rewrite L1. apply set_nth_len.
      * intros x Hx. rewrite O1.
        -- apply nth_set_nth_other. intro; subst. apply Hx. left. reflexivity.
        -- intro. apply Hx. right. assumption.
Qed.

(* ---------- consequences of the invariant ---------- *)
Ltac upd_case x c :=
  destruct (Nat.eq_dec x c) as [->|?N]; [rewrite ?upd_same in *|rewrite ?upd_other in * by assumption].

Lemma inv_req_null V : Inv V -> (v_req V = PNull <-> v_own V = None).
Proof.
  intros I. split.
  - intros E. destruct (v_own V) as [o|] eqn:O; [|reflexivity]. exfalso.
    pose proof (i_stack V I o O) as R. rewrite E in R. destruct (v_gs V) as [|w l]; cbn [repr] in R.
    + unfold bottom in R. destruct (cls (v_tv V o)); discriminate.
    + destruct R; discriminate.
  - intros O. apply (i_free V I O).
Qed.

Lemma inv_hold_own V c : Inv V -> is_hold (cls (v_tv V c)) = true -> v_own V = Some c.
Proof. intros I H. apply (i_own V I). exact H. Qed.

Lemma inv_lt V c : Inv V -> cls (v_tv V c) <> CNeutral \/ snd (fst (v_tv V c)) <> PDone -> c < length (v_next V).
Proof.
  intros I H. destruct (le_lt_dec (length (v_next V)) c) as [L|L]; [|exact L]. exfalso.
  rewrite (i_dom V I c L) in H. cbn in H. destruct H as [H|H]; apply H; reflexivity.
Qed.

Lemma inv_wait_lt V w : Inv V -> In w (v_gs V ++ v_gq V) -> w < length (v_next V).
Proof. intros I H. apply (i_wait V I) in H. apply inv_lt; [exact I|]. left. congruence. Qed.

Lemma psub_neutral v e : snd (fst v) = PSub e -> cls v = CNeutral.
Proof. destruct v as [[k p] f]. cbn. intros ->. reflexivity. Qed.

(* ---------- transitions that keep every task in its class ---------- *)
Lemma inv_cls V tv' : Inv V -> (forall x, cls (tv' x) = cls (v_tv V x)) ->
  (forall c, length (v_next V) <= c -> tv' c = dflt_tv) ->
  (forall c e, snd (fst (tv' c)) = PSub e -> snd (fst (v_tv V c)) = PSub e) ->
  Inv (mkV (v_req V) (v_q V) (v_next V) (v_dn V) (v_err V) (v_own V) (v_gs V) (v_gq V) (v_al V) (v_gl V) tv').
Proof.
  intros I H D HS. destruct I. constructor; cbn [v_req v_q v_next v_dn v_err v_own v_gs v_gq v_al v_gl v_tv]; auto.
  - intros c. rewrite H. auto.
  - intros c. rewrite H. auto.
  - intros w. rewrite H. auto.
  - intros o O. specialize (i_stack0 o O). unfold bottom in *. cbn [v_tv]. rewrite H. exact i_stack0.
  - intros o. rewrite H. apply i_bot0.
  - intros o. rewrite H. apply i_bqu0.
  - intros o. rewrite H. apply i_ucas0.
Qed.

(* ---------- mutex::ready(): CAS null -> doorman succeeded (mutex.h:185) ---------- *)
Lemma inv_try V c v' : Inv V -> v_req V = PNull -> cls (v_tv V c) = CNeutral -> c < length (v_next V) -> cls v' = CHold ->
  Inv (mkV PDoor (v_q V) (v_next V) (v_dn V) (v_err V) (Some c) (v_gs V) (v_gq V) (v_al V) (v_gl V) (upd (v_tv V) c v')).
Proof.
  intros I E N L H. pose proof (proj1 (inv_req_null V I) E) as O.
  destruct (i_free V I O) as (_ & GS & GQ).
  constructor; cbn [v_req v_q v_next v_dn v_err v_own v_gs v_gq v_al v_gl v_tv].
  - intros x Lx. rewrite upd_other by lia. apply (i_dom V I). exact Lx.
  - apply (i_err V I).
  - intros x. upd_case x c; [congruence|apply (i_bad V I)].
  - intros x. upd_case x c.
    + rewrite H. cbn. tauto.
    + split; [|congruence]. intros Q. apply (i_own V I) in Q. congruence.
  - intros x. rewrite GS, GQ. cbn [app In]. upd_case x c; [rewrite H; split; [discriminate|tauto]|].
    rewrite (i_wait V I x), GS, GQ. cbn. tauto.
  - apply (i_nodup V I).
  - discriminate.
  - intros o Q. inversion Q; subst o. rewrite GS. cbn [repr]. unfold bottom. cbn [v_tv]. rewrite upd_same, H. reflexivity.
  - intros o. upd_case o c; [rewrite H; discriminate|]. apply (i_bot V I).
  - apply (i_queue V I).
  - intros o. upd_case o c; [rewrite H; discriminate|]. apply (i_bqu V I).
  - apply (i_dn V I).
  - apply (i_fifo V I).
  - intros x e. upd_case x c; [intros Q; apply psub_neutral in Q; congruence|apply (i_sub V I)].
  - intros z. upd_case z c; [rewrite H; discriminate|]. apply (i_ucas V I).
Qed.

(* ---------- mutex::subscribe(): publishing CAS found null (mutex.h:198-203) ---------- *)
Lemma inv_sub0 V c v' : Inv V -> v_req V = PNull -> cls (v_tv V c) = CNeutral -> c < length (v_next V) -> cls v' = CBottom ->
  Inv (mkV (PNode c) (v_q V) (set_nth (v_next V) c PNull) (v_dn V) (v_err V) (Some c) (v_gs V) (v_gq V)
           (v_al V ++ [c]) (v_gl V ++ [c]) (upd (v_tv V) c v')).
Proof.
  intros I E N L H. pose proof (proj1 (inv_req_null V I) E) as O.
  destruct (i_free V I O) as (_ & GS & GQ).
  constructor; cbn [v_req v_q v_next v_dn v_err v_own v_gs v_gq v_al v_gl v_tv].
  - intros x Lx. rewrite set_nth_len in Lx. rewrite upd_other by lia. apply (i_dom V I). exact Lx.
  - apply (i_err V I).
  - intros x. upd_case x c; [congruence|apply (i_bad V I)].
  - intros x. upd_case x c.
    + rewrite H. cbn. tauto.
    + split; [|congruence]. intros Q. apply (i_own V I) in Q. congruence.
  - intros x. rewrite GS, GQ. cbn [app In]. upd_case x c; [rewrite H; split; [discriminate|tauto]|].
    rewrite (i_wait V I x), GS, GQ. cbn. tauto.
  - apply (i_nodup V I).
  - discriminate.
  - intros o Q. inversion Q; subst o. rewrite GS. cbn [repr]. unfold bottom. cbn [v_tv]. rewrite upd_same, H. reflexivity.
  - intros o. upd_case o c.
    + intros _. split; [apply nth_set_nth_same; exact L|exact GQ].
    + intros Q. exfalso. assert (B : is_hold (cls (v_tv V o)) = true) by (rewrite Q; reflexivity).
      apply (i_own V I) in B. congruence.
  - rewrite GQ. pose proof (i_queue V I) as R. rewrite GQ in R. exact R.
  - intros o. upd_case o c; [rewrite H; discriminate|]. apply (i_bqu V I).
  - apply (i_dn V I).
  - rewrite (i_fifo V I), GS, GQ. cbn [app rev]. rewrite !app_nil_r. reflexivity.
  - intros x e. upd_case x c; [intros Q; apply psub_neutral in Q; congruence|]. rewrite nth_set_nth_other by auto. apply (i_sub V I).
  - intros z. upd_case z c; [rewrite H; discriminate|]. apply (i_ucas V I).
Qed.

(* ---------- mutex::subscribe(): published behind an owner (mutex.h:198-200, 212-214) ---------- *)
Lemma inv_subw V c v' : Inv V -> v_req V <> PNull -> cls (v_tv V c) = CNeutral -> c < length (v_next V) -> cls v' = CWait ->
  Inv (mkV (PNode c) (v_q V) (set_nth (v_next V) c (v_req V)) (v_dn V) (v_err V) (v_own V) (c :: v_gs V) (v_gq V)
           (v_al V ++ [c]) (v_gl V) (upd (v_tv V) c v')).
Proof.
  intros I E N L H.
  destruct (v_own V) as [o|] eqn:O; [|exfalso; apply E; apply (inv_req_null V I); exact O].
  assert (Nc : ~ In c (v_gs V ++ v_gq V)) by (intro Q; apply (i_wait V I) in Q; congruence).
  assert (Noc : o <> c).
  { intro; subst o. apply (i_own V I) in O. rewrite N in O. discriminate. }
  constructor; cbn [v_req v_q v_next v_dn v_err v_own v_gs v_gq v_al v_gl v_tv].
  - intros x Lx. rewrite set_nth_len in Lx. rewrite upd_other by lia. apply (i_dom V I). exact Lx.
  - apply (i_err V I).
  - intros x. upd_case x c; [congruence|apply (i_bad V I)].
  - intros x. upd_case x c.
    + rewrite H. cbn. split; [discriminate|]. intros Q. inversion Q. congruence.
    + rewrite <- O. apply (i_own V I).
  - intros x. cbn [app In]. upd_case x c; [rewrite H; tauto|].
    rewrite (i_wait V I x). split; [tauto|]. intros [Q|Q]; [congruence|exact Q].
  - cbn [app]. constructor; [exact Nc|apply (i_nodup V I)].
  - discriminate.
  - intros o' Q. inversion Q; subst o'. cbn [repr]. split; [reflexivity|].
    rewrite nth_set_nth_same by exact L.
    assert (B : bottom (mkV (PNode c) (v_q V) (set_nth (v_next V) c (v_req V)) (v_dn V) (v_err V) (Some o) (c :: v_gs V) (v_gq V)
                  (v_al V ++ [c]) (v_gl V) (upd (v_tv V) c v')) o = bottom V o).
    { unfold bottom. cbn [v_tv]. rewrite upd_other by exact Noc. reflexivity. }
    rewrite B. apply repr_frame; [intro Q'; apply Nc; apply in_or_app; auto|]. apply (i_stack V I). exact O.
  - intros x. upd_case x c; [rewrite H; discriminate|]. intros Q. destruct (i_bot V I x Q) as [A B]. split; [|exact B].
    rewrite nth_set_nth_other by auto. exact A.
  - apply repr_frame; [intro Q'; apply Nc; apply in_or_app; auto|]. apply (i_queue V I).
  - intros x. upd_case x c; [rewrite H; discriminate|]. intros Q. destruct (i_bqu V I x Q) as [A B]. split; [exact A|discriminate].
  - apply (i_dn V I).
  - rewrite (i_fifo V I). cbn [rev]. rewrite !app_assoc. reflexivity.
  - intros x e. upd_case x c; [intros Q; apply psub_neutral in Q; congruence|]. rewrite nth_set_nth_other by auto. apply (i_sub V I).
  - intros z. upd_case z c; [rewrite H; discriminate|]. apply (i_ucas V I).
Qed.

(* ---------- subscribe(): aw->_next = prev before an attempt of the publishing CAS (mutex.h:199) ---------- *)
Lemma inv_sub_set V c v' e : Inv V -> cls (v_tv V c) = CNeutral -> c < length (v_next V) ->
  cls v' = CNeutral -> snd (fst v') = PSub e ->
  Inv (mkV (v_req V) (v_q V) (set_nth (v_next V) c e) (v_dn V) (v_err V) (v_own V) (v_gs V) (v_gq V)
           (v_al V) (v_gl V) (upd (v_tv V) c v')).
Proof.
  intros I N L H P.
  assert (Nc : ~ In c (v_gs V ++ v_gq V)) by (intro Q; apply (i_wait V I) in Q; congruence).
  assert (Noc : forall o, is_hold (cls (v_tv V o)) = true -> o <> c) by (intros o Q E; subst o; rewrite N in Q; discriminate).
  constructor; cbn [v_req v_q v_next v_dn v_err v_own v_gs v_gq v_al v_gl v_tv].
  - intros x Lx. rewrite set_nth_len in Lx. rewrite upd_other by lia. apply (i_dom V I). exact Lx.
  - apply (i_err V I).
  - intros x. upd_case x c; [congruence|apply (i_bad V I)].
  - intros x. upd_case x c; [|apply (i_own V I)]. rewrite H. rewrite <- (i_own V I c), N. tauto.
  - intros x. upd_case x c; [|apply (i_wait V I)]. rewrite H. split; [discriminate|]. intros Q. contradiction.
  - apply (i_nodup V I).
  - apply (i_free V I).
  - intros o O. assert (Oc : o <> c) by (apply Noc; apply (i_own V I); exact O).
    assert (B : bottom (mkV (v_req V) (v_q V) (set_nth (v_next V) c e) (v_dn V) (v_err V) (v_own V) (v_gs V) (v_gq V)
                  (v_al V) (v_gl V) (upd (v_tv V) c v')) o = bottom V o).
    { unfold bottom. cbn [v_tv]. rewrite upd_other by exact Oc. reflexivity. }
    rewrite B. apply repr_frame; [intro Q'; apply Nc; apply in_or_app; auto|]. apply (i_stack V I). exact O.
  - intros x. upd_case x c; [rewrite H; discriminate|]. intros Q. destruct (i_bot V I x Q) as [A B]. split; [|exact B].
    rewrite nth_set_nth_other by auto. exact A.
  - apply repr_frame; [intro Q'; apply Nc; apply in_or_app; auto|]. apply (i_queue V I).
  - intros x. upd_case x c; [rewrite H; discriminate|]. apply (i_bqu V I).
  - apply (i_dn V I).
  - apply (i_fifo V I).
  - intros x e'. upd_case x c.
    + intros Q. rewrite nth_set_nth_same by exact L. congruence.
    + rewrite nth_set_nth_other by auto. apply (i_sub V I).
  - intros z. upd_case z c; [rewrite H; discriminate|]. apply (i_ucas V I).
Qed.

Lemma nodup_bound l n : NoDup l -> (forall x, In x l -> x < n) -> length l <= n.
Proof.
  intros ND H. rewrite <- (seq_length n 0). apply NoDup_incl_length; [exact ND|].
  intros x Hx. apply in_seq. specialize (H x Hx). lia.
Qed.

Lemma only_owner V c o : Inv V -> v_own V = Some c -> is_hold (cls (v_tv V o)) = true -> o = c.
Proof. intros I O H. apply (i_own V I) in H. congruence. Qed.

(* ---------- build_queue(stop) by the owner (mutex.h:218-233) ---------- *)
Lemma inv_bq V c stop fuel v' : Inv V ->
  (cls (v_tv V c) = CBottom /\ stop = PNode c \/ cls (v_tv V c) = CBqU /\ stop = PDoor) ->
  cls v' = CHold -> length (v_next V) < fuel ->
  exists nx q', bq_walk fuel (v_next V) (v_dn V) (v_req V) stop (v_q V) = (nx, v_dn V, q') /\
    Inv (mkV PDoor q' nx (v_dn V) (v_err V) (v_own V) [] (rev (v_gs V) ++ v_gq V) (v_al V) (v_gl V) (upd (v_tv V) c v')) /\
    (v_gs V <> [] -> exists w, q' = PNode w) /\ length nx = length (v_next V).
Proof.
  intros I C H F.
  assert (Hc : is_hold (cls (v_tv V c)) = true) by (destruct C as [[-> _]|[-> _]]; reflexivity).
  pose proof (inv_hold_own V c I Hc) as O.
  assert (GQ : v_gq V = []) by (destruct C as [[C _]|[C _]]; [apply (i_bot V I c C)|apply (i_bqu V I c C)]).
  assert (B : bottom V c = stop) by (unfold bottom; destruct C as [[-> ->]|[-> ->]]; reflexivity).
  pose proof (i_stack V I c O) as R. rewrite B in R.
  pose proof (i_queue V I) as RQ. rewrite GQ in RQ.
  pose proof (i_nodup V I) as ND. rewrite GQ in ND.
  assert (LT : forall w, In w (v_gs V) -> w < length (v_next V)).
  { intros w Hw. apply inv_wait_lt; [exact I|]. apply in_or_app. auto. }
  assert (Ncg : ~ In c (v_gs V)).
  { intro Q. assert (W : cls (v_tv V c) = CWait) by (apply (i_wait V I); apply in_or_app; auto).
    destruct C as [[C _]|[C _]]; congruence. }
  destruct (bq_walk_repr (v_gs V) fuel (v_next V) (v_dn V) (v_req V) stop (v_q V) []) as (nx & E & R1 & L1 & O1);
    try assumption.
  - intros w Hw Q. destruct C as [[_ ->]|[_ ->]]; [|discriminate]. inversion Q; subst. contradiction.
  - destruct C as [[_ ->]|[_ ->]]; discriminate.
  - rewrite app_nil_r in ND. pose proof (nodup_bound _ _ ND LT). lia.
  - rewrite !app_nil_r in *. exists nx. eexists. split; [exact E|]. split.
    + rewrite GQ, app_nil_r.
      constructor; cbn [v_req v_q v_next v_dn v_err v_own v_gs v_gq v_al v_gl v_tv].
      * intros x Lx. rewrite L1 in Lx. rewrite upd_other; [apply (i_dom V I); exact Lx|].
        pose proof (inv_lt V c I) as Q. intro; subst x. assert (c < length (v_next V)); [|lia].
        apply Q. left. destruct C as [[-> _]|[-> _]]; discriminate.
      * apply (i_err V I).
      * intros x. upd_case x c; [congruence|apply (i_bad V I)].
      * intros x. upd_case x c; [rewrite H; cbn; tauto|]. apply (i_own V I).
      * intros x. cbn [app]. upd_case x c.
        -- rewrite H. split; [discriminate|]. intros Q. apply in_rev in Q. contradiction.
        -- rewrite (i_wait V I x), GQ, app_nil_r. apply in_rev.
      * cbn [app]. apply NoDup_rev. exact ND.
      * rewrite O. discriminate.
      * intros o Q. cbn [repr]. unfold bottom. cbn [v_tv]. rewrite O in Q. inversion Q; subst o.
        rewrite upd_same, H. reflexivity.
      * intros o. upd_case o c; [rewrite H; discriminate|]. intros Q. exfalso. apply N.
        eapply only_owner; [exact I|exact O|rewrite Q; reflexivity].
      * exact R1.
      * intros o. upd_case o c; [rewrite H; discriminate|]. intros Q. exfalso. apply N.
        eapply only_owner; [exact I|exact O|rewrite Q; reflexivity].
      * apply (i_dn V I).
      * rewrite (i_fifo V I), GQ. cbn [app rev]. rewrite app_nil_r. reflexivity.
      * intros x e. upd_case x c; [intros Q; apply psub_neutral in Q; congruence|]. intros Q.
        rewrite O1; [apply (i_sub V I); exact Q|]. intro Z.
        assert (W : cls (v_tv V x) = CWait) by (apply (i_wait V I); apply in_or_app; auto).
        apply psub_neutral in Q. congruence.
      * intros o. upd_case o c; [rewrite H; discriminate|]. intros Q. exfalso. apply N.
        eapply only_owner; [exact I|exact O|rewrite Q; reflexivity].
    + split; [|exact L1]. intros NE. destruct (rev (v_gs V)) as [|x r] eqn:Z.
      * exfalso. apply NE. apply (f_equal (@rev nat)) in Z. rewrite rev_involutive in Z. exact Z.
      * eauto.
Qed.

(* ---------- unlock(): queue empty and CAS doorman -> null succeeded (mutex.h:154-160) ---------- *)
Lemma inv_unlock_free V c v' : Inv V -> cls (v_tv V c) = CUCas -> v_req V = PDoor -> cls v' = CNeutral ->
  (forall e, snd (fst v') <> PSub e) ->
  Inv (mkV PNull (v_q V) (v_next V) (v_dn V) (v_err V) None (v_gs V) (v_gq V) (v_al V) (v_gl V) (upd (v_tv V) c v')).
Proof.
  intros I C E H NS.
  assert (Hc : is_hold (cls (v_tv V c)) = true) by (rewrite C; reflexivity).
  pose proof (inv_hold_own V c I Hc) as O.
  pose proof (i_stack V I c O) as R. unfold bottom in R. rewrite C, E in R.
  destruct (repr_nil_inv _ _ _ _ R) as [GS _]; [discriminate|].
  pose proof (i_ucas V I c C) as GQ.
  assert (Lc : c < length (v_next V)) by (apply inv_lt; [exact I|left; congruence]).
  constructor; cbn [v_req v_q v_next v_dn v_err v_own v_gs v_gq v_al v_gl v_tv].
  - intros x Lx. rewrite upd_other by lia. apply (i_dom V I). exact Lx.
  - apply (i_err V I).
  - intros x. upd_case x c; [congruence|apply (i_bad V I)].
  - intros x. upd_case x c; [rewrite H; cbn; split; discriminate|].
    split; [|discriminate]. intros Z. exfalso. apply N. eapply only_owner; eassumption.
  - intros x. upd_case x c; [|apply (i_wait V I)]. rewrite H, GS, GQ. cbn. split; [discriminate|tauto].
  - apply (i_nodup V I).
  - auto.
  - discriminate.
  - intros o. upd_case o c; [rewrite H; discriminate|]. apply (i_bot V I).
  - apply (i_queue V I).
  - intros o. upd_case o c; [rewrite H; discriminate|]. apply (i_bqu V I).
  - apply (i_dn V I).
  - apply (i_fifo V I).
  - intros x e. upd_case x c; [intros Z; exfalso; eapply NS; exact Z|apply (i_sub V I)].
  - intros z. upd_case z c; [rewrite H; discriminate|]. apply (i_ucas V I).
Qed.

(* ---------- unlock(): queue empty, CAS failed: requests were published (mutex.h:161-165) ---------- *)
Lemma inv_unlock_bqu V c v' : Inv V -> cls (v_tv V c) = CUCas -> v_req V <> PDoor -> cls v' = CBqU ->
  Inv (mkV (v_req V) (v_q V) (v_next V) (v_dn V) (v_err V) (v_own V) (v_gs V) (v_gq V) (v_al V) (v_gl V) (upd (v_tv V) c v')).
Proof.
  intros I C E H.
  assert (Hc : is_hold (cls (v_tv V c)) = true) by (rewrite C; reflexivity).
  pose proof (inv_hold_own V c I Hc) as O.
  pose proof (i_stack V I c O) as R. unfold bottom in R. rewrite C in R.
  pose proof (i_ucas V I c C) as GQ.
  assert (GS : v_gs V <> []) by (intro Z; rewrite Z in R; cbn [repr] in R; contradiction).
  assert (Lc : c < length (v_next V)) by (apply inv_lt; [exact I|left; congruence]).
  constructor; cbn [v_req v_q v_next v_dn v_err v_own v_gs v_gq v_al v_gl v_tv].
  - intros x Lx. rewrite upd_other by lia. apply (i_dom V I). exact Lx.
  - apply (i_err V I).
  - intros x. upd_case x c; [congruence|apply (i_bad V I)].
  - intros x. upd_case x c; [rewrite H; cbn; tauto|]. apply (i_own V I).
  - intros x. upd_case x c; [|apply (i_wait V I)]. rewrite H. split; [discriminate|].
    intros Z. apply (i_wait V I) in Z. congruence.
  - apply (i_nodup V I).
  - apply (i_free V I).
  - intros o Z. rewrite O in Z. inversion Z; subst o. unfold bottom. cbn [v_tv]. rewrite upd_same, H. exact R.
  - intros o. upd_case o c; [rewrite H; discriminate|]. apply (i_bot V I).
  - apply (i_queue V I).
  - intros o. upd_case o c; [auto|]. apply (i_bqu V I).
  - apply (i_dn V I).
  - apply (i_fifo V I).
  - intros x e. upd_case x c; [intros Z; apply psub_neutral in Z; congruence|apply (i_sub V I)].
  - intros z. upd_case z c; [rewrite H; discriminate|]. apply (i_ucas V I).
Qed.

(* ---------- unlock(): the private queue is empty, the fast path will be tried (mutex.h:154-157) ---------- *)
Lemma inv_unlock_ucas V c v' : Inv V -> cls (v_tv V c) = CHold -> v_q V = PNull -> cls v' = CUCas ->
  Inv (mkV (v_req V) (v_q V) (v_next V) (v_dn V) (v_err V) (v_own V) (v_gs V) (v_gq V) (v_al V) (v_gl V) (upd (v_tv V) c v')).
Proof.
  intros I C Q H.
  assert (Hc : is_hold (cls (v_tv V c)) = true) by (rewrite C; reflexivity).
  pose proof (inv_hold_own V c I Hc) as O.
  pose proof (i_stack V I c O) as R. unfold bottom in R. rewrite C in R.
  pose proof (i_queue V I) as RQ. rewrite Q in RQ.
  destruct (repr_nil_inv _ _ _ _ RQ) as [GQ _]; [discriminate|].
  assert (Lc : c < length (v_next V)) by (apply inv_lt; [exact I|left; congruence]).
  constructor; cbn [v_req v_q v_next v_dn v_err v_own v_gs v_gq v_al v_gl v_tv].
  - intros x Lx. rewrite upd_other by lia. apply (i_dom V I). exact Lx.
  - apply (i_err V I).
  - intros x. upd_case x c; [congruence|apply (i_bad V I)].
  - intros x. upd_case x c; [rewrite H; cbn; tauto|]. apply (i_own V I).
  - intros x. upd_case x c; [|apply (i_wait V I)]. rewrite H. split; [discriminate|].
    intros Z. apply (i_wait V I) in Z. congruence.
  - apply (i_nodup V I).
  - apply (i_free V I).
  - intros o Z. rewrite O in Z. inversion Z; subst o. unfold bottom. cbn [v_tv]. rewrite upd_same, H. exact R.
  - intros o. upd_case o c; [rewrite H; discriminate|]. apply (i_bot V I).
  - apply (i_queue V I).
  - intros o. upd_case o c; [rewrite H; discriminate|]. apply (i_bqu V I).
  - apply (i_dn V I).
  - apply (i_fifo V I).
  - intros x e. upd_case x c; [intros Z; apply psub_neutral in Z; congruence|apply (i_sub V I)].
  - intros o. upd_case o c; [auto|]. apply (i_ucas V I).
Qed.

(* ---------- unlock(): hand-over to the head of the queue (mutex.h:170-176) ---------- *)
Lemma inv_handover V c w v' vw' : Inv V -> cls (v_tv V c) = CHold -> v_q V = PNode w ->
  cls v' = CNeutral -> cls vw' = CHold -> (forall e, snd (fst v') <> PSub e) ->
  cls (v_tv V w) = CWait /\ w <> c /\ (exists r, v_gq V = w :: r) /\
  Inv (mkV (v_req V) (nth w (v_next V) PNull) (set_nth (v_next V) w PNull) (v_dn V) (v_err V) (Some w)
           (v_gs V) (tl (v_gq V)) (v_al V) (v_gl V ++ [w]) (upd (upd (v_tv V) c v') w vw')).
Proof.
  intros I C Q H HW NS.
  assert (Hc : is_hold (cls (v_tv V c)) = true) by (rewrite C; reflexivity).
  pose proof (inv_hold_own V c I Hc) as O.
  pose proof (i_stack V I c O) as R. unfold bottom in R. rewrite C in R.
  pose proof (i_queue V I) as RQ. rewrite Q in RQ.
  destruct (repr_node_inv _ _ _ _ RQ) as (r & GQ & RR); [discriminate|].
  assert (Ww : cls (v_tv V w) = CWait).
  { apply (i_wait V I). rewrite GQ. apply in_or_app. right. left. reflexivity. }
  assert (Nwc : w <> c) by (intro; subst; congruence).
  pose proof (i_nodup V I) as ND. rewrite GQ in ND.
  pose proof (NoDup_remove_1 _ _ _ ND) as ND1. pose proof (NoDup_remove_2 _ _ _ ND) as ND2.
  assert (Lc : c < length (v_next V)) by (apply inv_lt; [exact I|left; congruence]).
  assert (Lw : w < length (v_next V)) by (apply inv_lt; [exact I|left; congruence]).
  split; [exact Ww|]. split; [exact Nwc|]. split; [eauto|]. rewrite GQ. cbn [tl].
  constructor; cbn [v_req v_q v_next v_dn v_err v_own v_gs v_gq v_al v_gl v_tv].
  - intros x Lx. rewrite set_nth_len in Lx. rewrite !upd_other by lia. apply (i_dom V I). exact Lx.
  - apply (i_err V I).
  - intros x. upd_case x w; [congruence|]. upd_case x c; [congruence|apply (i_bad V I)].
  - intros x. upd_case x w; [rewrite HW; cbn; tauto|]. upd_case x c.
    + rewrite H. cbn. split; [discriminate|]. intros Z. inversion Z. congruence.
    + split; [|intros Z; inversion Z; congruence]. intros Z. exfalso. apply N0. eapply only_owner; eassumption.
  - intros x. upd_case x w; [rewrite HW; split; [discriminate|]; intros Z; contradiction|].
    upd_case x c.
    + rewrite H. split; [discriminate|]. intros Z. exfalso.
      assert (In c (v_gs V ++ v_gq V)) by (rewrite GQ; apply in_app_or in Z; apply in_or_app; destruct Z; [left|right; right]; assumption).
      apply (i_wait V I) in H0. congruence.
    + rewrite (i_wait V I x), GQ. split; intros Z; apply in_app_or in Z; apply in_or_app; destruct Z as [Z|Z]; auto.
      * destruct Z as [Z|Z]; [congruence|auto].
      * right. right. exact Z.
  - exact ND1.
  - discriminate.
  - intros o Z. inversion Z; subst o. unfold bottom. cbn [v_tv]. rewrite upd_same, HW.
    apply repr_frame; [intro Y; apply ND2; apply in_or_app; auto|exact R].
  - intros o. upd_case o w; [rewrite HW; discriminate|]. upd_case o c; [rewrite H; discriminate|].
    intros Z. exfalso. apply N0. eapply only_owner; [exact I|exact O|rewrite Z; reflexivity].
  - apply repr_frame; [intro Y; apply ND2; apply in_or_app; auto|exact RR].
  - intros o. upd_case o w; [rewrite HW; discriminate|]. upd_case o c; [rewrite H; discriminate|].
    intros Z. exfalso. apply N0. eapply only_owner; [exact I|exact O|rewrite Z; reflexivity].
  - apply (i_dn V I).
  - rewrite (i_fifo V I), GQ. cbn [app]. rewrite <- !app_assoc. reflexivity.
  - intros x e. upd_case x w; [intros Z; apply psub_neutral in Z; congruence|].
    upd_case x c; [intros Z; exfalso; eapply NS; exact Z|]. rewrite nth_set_nth_other by auto. apply (i_sub V I).
  - intros o. upd_case o w; [rewrite HW; discriminate|]. upd_case o c; [rewrite H; discriminate|].
    intros Z. exfalso. apply N0. eapply only_owner; [exact I|exact O|rewrite Z; reflexivity].
Qed.

(* ================================================================ part 2: the model state *)
Definition tvw (x : task) : tview := (tk x, tpc x, flag x).
Definition tvs (s : st) : nat -> tview := fun c => tvw (gtask s c).
Definition vw (s : st) : view :=
  mkV (requests s) (queue s) (next s) (dnext s) (err s) (owner s) (gstack s) (gqueue s) (alog s) (glog s) (tvs s).

Definition SInv (s : st) : Prop := length (next s) = length (tasks s) /\ Inv (vw s).

Definition veq (V V' : view) : Prop :=
  v_req V = v_req V' /\ v_q V = v_q V' /\ v_next V = v_next V' /\ v_dn V = v_dn V' /\ v_err V = v_err V' /\
  v_own V = v_own V' /\ v_gs V = v_gs V' /\ v_gq V = v_gq V' /\ v_al V = v_al V' /\ v_gl V = v_gl V' /\
  forall x, v_tv V x = v_tv V' x.

Lemma inv_veq V V' : veq V V' -> Inv V -> Inv V'.
Proof.
  intros (E1 & E2 & E3 & E4 & E5 & E6 & E7 & E8 & E9 & E10 & E11) I.
  pose proof (inv_cls V (v_tv V') I) as Q.
  destruct V, V'. cbn [v_req v_q v_next v_dn v_err v_own v_gs v_gq v_al v_gl v_tv] in *. subst.
  apply Q.
  - intros x. rewrite E11. reflexivity.
  - intros c L. rewrite <- E11. apply (i_dom _ I). exact L.
  - intros c e Z. rewrite E11. exact Z.
Qed.

Lemma veq_refl V : veq V V.
Proof. unfold veq. repeat split; reflexivity. Qed.

Lemma nth_set_nth_gen {A} (l : list A) i j x d :
  nth j (set_nth l i x) d = if Nat.eqb j i && Nat.ltb i (length l) then x else nth j l d.
Proof.
  revert i j; induction l as [|y l IH]; intros i j.
  - assert (Q : Nat.ltb i (length (@nil A)) = false) by (apply Nat.ltb_ge; cbn; lia).
    rewrite Q, andb_false_r. destruct i; reflexivity.
  - destruct i as [|i], j as [|j]; cbn [set_nth nth]; try reflexivity.
    rewrite IH. cbn [Nat.eqb].
    assert (Q : Nat.ltb (S i) (length (y :: l)) = Nat.ltb i (length l)).
    { cbn [length]. destruct (Nat.ltb_spec i (length l)), (Nat.ltb_spec (S i) (S (length l))); auto; lia. }
    rewrite Q. reflexivity.
Qed.

Lemma gtask_set_task s c y x : c < length (tasks s) ->
  gtask (set_task s c y) x = if Nat.eqb x c then y else gtask s x.
Proof.
  intros L. unfold gtask, set_task, s_tasks. cbn [tasks]. rewrite nth_set_nth_gen.
  assert (Q : Nat.ltb c (length (tasks s)) = true) by (apply Nat.ltb_lt; exact L).
  rewrite Q, andb_true_r. reflexivity.
Qed.

Lemma tvs_set_task s c y : c < length (tasks s) -> forall x, tvs (set_task s c y) x = upd (tvs s) c (tvw y) x.
Proof. intros L x. unfold tvs, upd. rewrite gtask_set_task by exact L. destruct (Nat.eqb x c); reflexivity. Qed.

(* set_task with a task of the same kind/pc/flag does not change the view (any index) *)
Lemma tvs_set_task_same s c y : tvw y = tvw (gtask s c) -> forall x, tvs (set_task s c y) x = tvs s x.
Proof.
  intros E x. unfold tvs, gtask, set_task, s_tasks. cbn [tasks]. rewrite nth_set_nth_gen.
  destruct (Nat.eqb x c) eqn:Q; cbn [andb]; [|reflexivity].
  apply Nat.eqb_eq in Q. subst x. destruct (Nat.ltb c (length (tasks s))); [|reflexivity]. exact E.
Qed.

(* ---------- bookkeeping that leaves the view alone ---------- *)
Definition same (s s' : st) : Prop :=
  veq (vw s) (vw s') /\ length (next s') = length (next s) /\ length (tasks s') = length (tasks s).

Lemma same_refl s : same s s.
Proof. split; [apply veq_refl|auto]. Qed.

Lemma same_trans a b c : same a b -> same b c -> same a c.
Proof.
  intros (V1 & N1 & T1) (V2 & N2 & T2). split; [|split; congruence].
  unfold veq in *. repeat match goal with H : _ /\ _ |- _ => destruct H end.
  repeat split; try congruence.
Qed.

Lemma sinv_same s s' : same s s' -> SInv s -> SInv s'.
Proof. intros (V & N & T) [L I]. split; [congruence|]. eapply inv_veq; eassumption. Qed.

Lemma same_set_run s t r : same s (set_run s t r).
Proof. split; [apply veq_refl|auto]. Qed.
Lemma same_set_tq s t q : same s (set_tq s t q).
Proof. split; [apply veq_refl|auto]. Qed.

Lemma same_enter s w : same s (enter s w).
Proof.
  unfold enter. split; [|split].
  - unfold veq, vw. cbn [v_req v_q v_next v_dn v_err v_own v_gs v_gq v_al v_gl v_tv].
    repeat split; try reflexivity. intros x. symmetry.
    rewrite tvs_set_task_same; reflexivity.
  - reflexivity.
  - unfold set_task, s_tasks, s_scn. cbn [tasks]. apply set_nth_len.
Qed.

Lemma same_yield s t : same s (yield s t).
Proof.
  unfold yield. destruct (tq (gthr s t)) as [|w r].
  - destruct (tk (gtask s t)); [apply same_set_run|]. destruct (tpc (gtask s t)); apply same_set_run.
  - match goal with |- same s (match ?p with _ => _ end) => destruct p end;
      try (eapply same_trans; [apply same_set_tq|apply same_set_run]).
    eapply same_trans; [eapply same_trans; [apply same_set_tq|apply same_set_run]|apply same_enter].
Qed.

(* ---------- a task changes pc inside its class ---------- *)
Lemma sinv_set_task_cls s c y : SInv s -> c < length (tasks s) -> cls (tvw y) = cls (tvs s c) ->
  (forall e, tpc y <> PSub e) -> SInv (set_task s c y).
Proof.
  intros [L I] Lc E NS. split.
  - unfold set_task, s_tasks. cbn [next tasks]. rewrite set_nth_len. exact L.
  - eapply inv_veq; [|apply (inv_cls (vw s) (upd (tvs s) c (tvw y)) I)].
    + unfold veq, vw. cbn [v_req v_q v_next v_dn v_err v_own v_gs v_gq v_al v_gl v_tv].
      repeat split; try reflexivity. intros x. symmetry. apply tvs_set_task. exact Lc.
    + intros x. cbn [vw v_tv]. unfold upd. destruct (Nat.eqb_spec x c); [subst; exact E|reflexivity].
    + intros x Lx. cbn [vw v_next] in Lx. rewrite upd_other by lia. apply (i_dom _ I). exact Lx.
    + intros x e. cbn [vw v_tv]. unfold upd. destruct (Nat.eqb_spec x c); [|auto].
      intros Z. exfalso. apply (NS e). exact Z.
Qed.

(* a task that is not PDone is a declared task *)
Lemma task_lt s c : tpc (gtask s c) <> PDone -> c < length (tasks s).
Proof.
  intros H. destruct (le_lt_dec (length (tasks s)) c) as [L|L]; [|exact L]. exfalso. apply H.
  unfold gtask. rewrite nth_overflow by exact L. reflexivity.
Qed.

Lemma upd_upd_same f c a b x : upd (upd f c a) c b x = upd f c b x.
Proof. unfold upd. destruct (Nat.eqb x c); reflexivity. Qed.

Lemma upd_id f c x : upd f c (f c) x = f x.
Proof. unfold upd. destruct (Nat.eqb_spec x c); [subst|]; reflexivity. Qed.

Lemma gtask_set_task_other s c y w : w <> c -> gtask (set_task s c y) w = gtask s w.
Proof.
  intros N. unfold gtask, set_task, s_tasks. cbn [tasks]. rewrite nth_set_nth_gen.
  apply Nat.eqb_neq in N. rewrite N. reflexivity.
Qed.

Lemma set_task_len s c y : length (tasks (set_task s c y)) = length (tasks s).
Proof. unfold set_task, s_tasks. cbn [tasks]. apply set_nth_len. Qed.

Ltac veq_fields := unfold veq, vw; cbn [v_req v_q v_next v_dn v_err v_own v_gs v_gq v_al v_gl v_tv];
  repeat match goal with |- _ /\ _ => split end; try reflexivity.

(* ---------- the hand-over (mutex.h:170-176) with every release flavour ---------- *)
Lemma handover_inv s t c vh : length (next s) = length (tasks s) -> c < length (tasks s) ->
  Inv (mkV (requests s) (queue s) (next s) (dnext s) (err s) (owner s) (gstack s) (gqueue s) (alog s) (glog s)
           (upd (tvs s) c vh)) ->
  cls vh = CHold -> queue s <> PNull -> SInv (handover s t c).
Proof.
  intros L Lc I Hh Q.
  destruct (queue s) as [| |w] eqn:EQ; [contradiction| |].
  - exfalso. pose proof (i_queue _ I) as R. cbn [v_next v_q v_gq] in R.
    destruct (repr_nil_inv _ _ _ _ R); [discriminate|discriminate].
  - set (yc := t_endround (gtask s c) false).
    assert (Hn : cls (tvw yc) = CNeutral) by reflexivity.
    assert (Kw : exists vw', cls vw' = CHold /\
              vw' = match tk (gtask s w) with KPlain => tvw (t_flag (gtask s w) true) | KCoro => tvw (t_pc (gtask s w) PCs) end /\
              w <> c /\ w < length (tasks s)).
    { destruct (inv_handover _ c w (tvw yc) (KCoro, PCs, false) I) as (Ww & Nwc & _ & _);
        [cbn [v_tv]; rewrite upd_same; exact Hh|reflexivity|exact Hn|reflexivity|intros e; discriminate|].
      cbn [v_tv] in Ww. rewrite upd_other in Ww by exact Nwc.
      assert (Lw : w < length (tasks s)).
      { apply task_lt. intro Z. unfold tvs, tvw in Ww. rewrite Z in Ww. cbn in Ww. discriminate. }
      eexists. split; [|split; [reflexivity|split; assumption]].
      unfold tvs, tvw in Ww. cbn [cls] in Ww. unfold tvw. cbn [t_flag t_pc tk tpc flag].
      destruct (tk (gtask s w)), (tpc (gtask s w)); try discriminate; try reflexivity;
        destruct (flag (gtask s w)); try discriminate; reflexivity. }
    destruct Kw as (vw' & Hw & Evw & Nwc & Lw).
    destruct (inv_handover _ c w (tvw yc) vw' I) as (_ & _ & _ & I2);
      [cbn [v_tv]; rewrite upd_same; exact Hh|reflexivity|exact Hn|exact Hw|intros e; discriminate|].
    cbn [v_req v_q v_next v_dn v_err v_own v_gs v_gq v_al v_gl v_tv] in I2.
    unfold handover. rewrite EQ.
    cbv zeta.
    set (s1 := s_mem s (requests s) (gnext s w) (set_nth (next s) w PNull) (dnext s)).
    set (s2 := s_ghost s1 (Some w) (gstack s1) (tl (gqueue s1)) (alog s1) (glog s1 ++ [w])).
    set (s3 := set_task s2 c (t_endround (gtask s2 c) false)).
    assert (G3 : gtask s3 w = gtask s w) by (unfold s3; rewrite gtask_set_task_other by exact Nwc; reflexivity).
    assert (G3c : gtask s3 c = yc) by (unfold s3; rewrite gtask_set_task by exact Lc; rewrite Nat.eqb_refl; reflexivity).
    assert (L3 : length (tasks s3) = length (tasks s)) by (unfold s3; rewrite set_task_len; reflexivity).
    assert (T3 : forall x, tvs s3 x = upd (tvs s) c (tvw yc) x).
    { intros x. unfold s3. rewrite tvs_set_task by exact Lc. reflexivity. }
    rewrite G3.
    assert (Base : forall y, tvw y = vw' -> SInv (set_task s3 w y)).
    { intros y Ey. split.
      - rewrite set_task_len, L3. cbn. rewrite set_nth_len. exact L.
      - eapply inv_veq; [|exact I2]. veq_fields. intros x. rewrite tvs_set_task by (rewrite L3; exact Lw).
        destruct (Nat.eq_dec x w) as [->|Nx]; [rewrite !upd_same; symmetry; exact Ey|].
        rewrite (upd_other _ w vw' x Nx), (upd_other _ w (tvw y) x Nx), T3, upd_upd_same. reflexivity. }
    destruct (tk (gtask s w)) eqn:Kw.
    + (* coroutine waiter *)
      assert (B4 : SInv (set_pc s3 w PCs)).
      { unfold set_pc. apply Base. rewrite G3. exact (eq_sym Evw). }
      destruct (tk (gtask (set_pc s3 w PCs) c)); [destruct (crel (gtask (set_pc s3 w PCs) c))|].
      * eapply sinv_same; [apply same_set_tq|exact B4].
      * eapply sinv_same; [apply same_set_tq|exact B4].
      * eapply sinv_same; [|exact B4].
        eapply same_trans; [eapply same_trans; [apply same_set_tq|apply same_set_run]|apply same_enter].
      * eapply sinv_same; [|exact B4]. eapply same_trans; [apply same_set_run|apply same_enter].
    + apply Base. exact (eq_sym Evw).
Qed.

Lemma enabled_flag s t c : enabled s t = true -> run (gthr s t) = TRun c -> tpc (gtask s c) = PFlag ->
  flag (gtask s c) = true.
Proof.
  unfold enabled, gthr. intros E R P. apply andb_true_iff in E. destruct E as [_ E].
  destruct (nth_error (thrs s) t) as [th|] eqn:N; [|discriminate].
  rewrite (nth_error_nth _ _ dflt_thr N) in R. destruct th as [r q]. cbn [run] in R. subst r.
  rewrite P in E. exact E.
Qed.

Lemma build_queue_eq s stop nx q :
  bq_walk (length (tasks s) + 2) (next s) (dnext s) (requests s) stop (queue s) = (nx, dnext s, q) ->
  build_queue s stop =
  s_ghost (s_mem s PDoor q nx (dnext s)) (owner s) [] (rev (gstack s) ++ gqueue s) (alog s) (glog s).
Proof. intros E. unfold build_queue. rewrite E. reflexivity. Qed.

Ltac cls_case SI P :=
  apply sinv_set_task_cls;
  [exact SI | apply task_lt; rewrite P; discriminate
  | unfold tvs, tvw; cbn [tk tpc flag t_pc t_begin t_endround t_leave t_flag]; rewrite P; reflexivity
  | intros e; cbn [tk tpc flag t_pc t_begin t_endround t_leave t_flag]; discriminate].

Lemma set_nth_nth_id {A} (l : list A) i d e : nth i l d = e -> set_nth l i e = l.
Proof. intros <-. revert i. induction l as [|y l IH]; intros [|i]; cbn; auto. now rewrite IH. Qed.

(* subscribe(): aw->_next = e, next attempt of the publishing CAS with expected value e *)
Lemma sub_set_inv s c e : SInv s -> c < length (tasks s) -> cls (tvs s c) = CNeutral ->
  SInv (set_pc (s_mem s (requests s) (queue s) (set_nth (next s) c e) (dnext s)) c (PSub e)).
Proof.
  intros [L I] Lc Nc. split.
  - unfold set_pc. rewrite set_task_len. cbn. rewrite set_nth_len. exact L.
  - refine (inv_veq _ _ _ (inv_sub_set (vw s) c (tvw (t_pc (gtask s c) (PSub e))) e I Nc _ _ _)).
    + veq_fields. intros x. unfold set_pc. rewrite tvs_set_task by exact Lc. reflexivity.
    + cbn [vw v_next]. lia.
    + reflexivity.
    + reflexivity.
Qed.

(* ---------- every step of every thread preserves the invariant ---------- *)
Lemma step_inv s t : SInv s -> enabled s t = true -> SInv (fst (fst (tstep s t))).
Proof.
  intros SI En. unfold tstep.
  destruct (run (gthr s t)) as [|c|c] eqn:R; cbn [fst].
  - exact SI.
  - pose proof SI as [L I].
    destruct (tpc (gtask s c)) eqn:P; cbn [fst].
    + (* PStep *)
      destruct (prog (gtask s c)) as [|[a r] p]; cbn [fst].
      * assert (B : SInv (set_pc s c PDone)) by (unfold set_pc; cls_case SI P).
        destruct (tk (gtask s c)); (eapply sinv_same; [|exact B]); [apply same_yield|apply same_set_run].
      * cls_case SI P.
    + (* PTry *)
      assert (Lc : c < length (tasks s)) by (apply task_lt; rewrite P; discriminate).
      assert (Nc : cls (tvs s c) = CNeutral) by (unfold tvs, tvw; rewrite P; reflexivity).
      pose proof (sub_set_inv s c PNull SI Lc Nc) as SubSet.
      destruct (requests s) eqn:Rq; cbn [fst].
      * eapply sinv_same; [apply same_enter|]. split.
        -- unfold set_pc. rewrite set_task_len. exact L.
        -- refine (inv_veq _ _ _ (inv_try (vw s) c (tvw (t_pc (gtask s c) PCs)) I Rq Nc _ _)).
           ++ veq_fields. intros x. unfold set_pc. rewrite tvs_set_task by exact Lc. reflexivity.
           ++ cbn [vw v_next]. lia.
           ++ reflexivity.
      * destruct (cacq (gtask s c)); [exact SubSet|cls_case SI P].
      * destruct (cacq (gtask s c)); [exact SubSet|cls_case SI P].
    + (* PSub e *)
      assert (Lc : c < length (tasks s)) by (apply task_lt; rewrite P; discriminate).
      assert (Nc : cls (tvs s c) = CNeutral) by (unfold tvs, tvw; rewrite P; reflexivity).
      destruct (ptr_eqb (requests s) e) eqn:EQ; cbn [fst]; [|exact (sub_set_inv s c (requests s) SI Lc Nc)].
      apply ptr_eqb_eq in EQ. subst e.
      assert (SN : set_nth (next s) c (requests s) = next s).
      { apply (set_nth_nth_id (next s) c PNull). apply (i_sub _ I c). cbn [vw v_tv]. unfold tvs, tvw. cbn [fst snd]. exact P. }
      assert (Sub : forall y, cls (tvw y) = CWait -> requests s <> PNull ->
                SInv (set_task (s_ghost (s_ev (s_mem s (PNode c) (queue s) (next s) (dnext s)) 5 c)
                                        (owner s) (c :: gstack s) (gqueue s) (alog s ++ [c]) (glog s)) c y)).
      { intros y Cy Rq. split.
        - rewrite set_task_len. exact L.
        - refine (inv_veq _ _ _ (inv_subw (vw s) c (tvw y) I Rq Nc _ Cy)).
          + veq_fields; [exact SN|]. intros x. rewrite tvs_set_task by exact Lc. reflexivity.
          + cbn [vw v_next]. lia. }
      cbv zeta.
      destruct (requests s) eqn:Rq; cbn [fst].
      * split.
        -- unfold set_pc. rewrite set_task_len. exact L.
        -- refine (inv_veq _ _ _ (inv_sub0 (vw s) c (tvw (t_pc (gtask s c) PPub0)) I Rq Nc _ _)).
           ++ veq_fields; [exact SN|]. intros x. unfold set_pc. rewrite tvs_set_task by exact Lc. reflexivity.
           ++ cbn [vw v_next]. lia.
           ++ reflexivity.
      * destruct (tk (gtask s c)) eqn:K; cbn [fst].
        -- eapply sinv_same; [apply same_set_run|]. unfold set_pc. apply Sub; [|discriminate].
           change (cls (tvw (t_pc (gtask s c) PParked)) = CWait).
           unfold tvw, t_pc. cbn [tk tpc flag cls]. rewrite K. reflexivity.
        -- apply Sub; [|discriminate]. unfold tvw, t_pc, t_flag. cbn [tk tpc flag cls]. rewrite K. reflexivity.
      * destruct (tk (gtask s c)) eqn:K; cbn [fst].
        -- eapply sinv_same; [apply same_set_run|]. unfold set_pc. apply Sub; [|discriminate].
           change (cls (tvw (t_pc (gtask s c) PParked)) = CWait).
           unfold tvw, t_pc. cbn [tk tpc flag cls]. rewrite K. reflexivity.
        -- apply Sub; [|discriminate]. unfold tvw, t_pc, t_flag. cbn [tk tpc flag cls]. rewrite K. reflexivity.
    + unfold set_pc. cls_case SI P.
    + unfold set_pc. cls_case SI P.
    + (* PBqS *)
      assert (Lc : c < length (tasks s)) by (apply task_lt; rewrite P; discriminate).
      destruct (inv_bq (vw s) c (PNode c) (length (tasks s) + 2) (tvw (t_pc (gtask s c) PCs)) I) as (nx & q' & E & I2 & _ & Lnx).
      { left. split; [|reflexivity]. cbn [vw v_tv]. unfold tvs, tvw. rewrite P. reflexivity. }
      { reflexivity. }
      { cbn [vw v_next]. lia. }
      cbn [vw v_req v_q v_next v_dn v_err v_own v_gs v_gq v_al v_gl v_tv] in E, I2.
      rewrite (build_queue_eq s (PNode c) nx q' E).
      eapply sinv_same; [apply same_enter|]. split.
      * unfold set_pc. rewrite set_task_len. cbn. cbn [vw v_next] in Lnx. congruence.
      * eapply inv_veq; [|exact I2]. veq_fields. intros x. unfold set_pc. rewrite tvs_set_task by exact Lc. reflexivity.
    + exact SI.
    + (* PFlag *)
      pose proof (enabled_flag s t c En R P) as F.
      eapply sinv_same; [apply same_enter|].
      apply sinv_set_task_cls; [exact SI|apply task_lt; rewrite P; discriminate| |intros e; discriminate].
      pose proof (i_bad _ I c) as B. cbn [vw v_tv] in B. unfold tvs, tvw in *. unfold t_pc, t_flag.
      cbn [tk tpc flag]. rewrite P, F in *. cbn [cls] in *.
      destruct (tk (gtask s c)); [exfalso; apply B; reflexivity|reflexivity].
    + (* PCs: leave the critical section *)
      apply sinv_set_task_cls; [exact SI| | |intros e; discriminate].
      * change (c < length (tasks s)). apply task_lt. rewrite P. discriminate.
      * change (cls (tvw (t_leave (gtask s c))) = cls (tvs s c)). unfold tvs, tvw. cbn [tk tpc flag t_leave]. rewrite P. reflexivity.
    + (* PUnlock *)
      assert (Lc : c < length (tasks s)) by (apply task_lt; rewrite P; discriminate).
      assert (Hc : cls (v_tv (vw s) c) = CHold) by (cbn [vw v_tv]; unfold tvs, tvw; rewrite P; reflexivity).
      assert (Hand : queue s <> PNull -> SInv (handover s t c)).
      { intros Q. apply handover_inv with (vh := tvs s c); try assumption.
        eapply inv_veq; [|exact I]. veq_fields. intros x. symmetry. apply upd_id. }
      assert (UC : queue s = PNull -> SInv (set_pc s c PUnlockCas)).
      { intros Q. split.
        - unfold set_pc. rewrite set_task_len. exact L.
        - refine (inv_veq _ _ _ (inv_unlock_ucas (vw s) c (tvw (t_pc (gtask s c) PUnlockCas)) I Hc Q _)).
          + veq_fields. intros x. unfold set_pc. rewrite tvs_set_task by exact Lc. reflexivity.
          + reflexivity. }
      assert (RN : requests s <> PNull).
      { intro Z. apply (inv_req_null _ I) in Z. cbn [vw v_own] in Z.
        assert (O : v_own (vw s) = Some c) by (apply inv_hold_own; [exact I|rewrite Hc; reflexivity]).
        cbn [vw v_own] in O. congruence. }
      destruct (requests s) eqn:Rq; cbn [fst]; [contradiction| |];
        (destruct (queue s) eqn:Q; cbn [fst]; [apply UC; reflexivity|apply Hand; discriminate|apply Hand; discriminate]).
    + (* PUnlockCas *)
      assert (Lc : c < length (tasks s)) by (apply task_lt; rewrite P; discriminate).
      assert (Hc : cls (v_tv (vw s) c) = CUCas) by (cbn [vw v_tv]; unfold tvs, tvw; rewrite P; reflexivity).
      assert (Bqu : requests s <> PDoor -> SInv (set_pc s c PBqU)).
      { intros Rq. split.
        - unfold set_pc. rewrite set_task_len. exact L.
        - refine (inv_veq _ _ _ (inv_unlock_bqu (vw s) c (tvw (t_pc (gtask s c) PBqU)) I Hc Rq _)).
          + veq_fields. intros x. unfold set_pc. rewrite tvs_set_task by exact Lc. reflexivity.
          + reflexivity. }
      destruct (requests s) eqn:Rq; cbn [fst].
      * apply Bqu. discriminate.
      * split.
        -- rewrite set_task_len. exact L.
        -- refine (inv_veq _ _ _ (inv_unlock_free (vw s) c (tvw (t_endround (gtask s c) false)) I Hc Rq _ _)).
           ++ veq_fields; try assumption; try (symmetry; assumption). intros x. rewrite tvs_set_task by exact Lc. reflexivity.
           ++ reflexivity.
           ++ intros e. discriminate.
      * apply Bqu. discriminate.
    + (* PBqU *)
      assert (Lc : c < length (tasks s)) by (apply task_lt; rewrite P; discriminate).
      assert (Cc : cls (v_tv (vw s) c) = CBqU) by (cbn [vw v_tv]; unfold tvs, tvw; rewrite P; reflexivity).
      destruct (inv_bq (vw s) c PDoor (length (tasks s) + 2) (tk (gtask s c), PUnlock, flag (gtask s c)) I)
        as (nx & q' & E & I2 & NE & Lnx).
      { right. split; [exact Cc|reflexivity]. }
      { reflexivity. }
      { cbn [vw v_next]. lia. }
      cbn [vw v_req v_q v_next v_dn v_err v_own v_gs v_gq v_al v_gl v_tv] in E, I2, NE, Lnx.
      rewrite (build_queue_eq s PDoor nx q' E).
      apply handover_inv with (vh := (tk (gtask s c), PUnlock, flag (gtask s c))).
      * cbn. congruence.
      * exact Lc.
      * exact I2.
      * reflexivity.
      * cbn. destruct NE as (w & ->); [|discriminate]. apply (i_bqu _ I c Cc).
    + exact SI.
  - eapply sinv_same; [apply same_yield|exact SI].
Qed.

Lemma NoDup_app_comm_local (a b : list nat) : NoDup (a ++ b) -> NoDup (b ++ a).
Proof. intros H. apply (Permutation_NoDup (l := a ++ b)); [apply Permutation_app_comm|exact H]. Qed.

Lemma NoDup_app_swap_rev (a b : list nat) : NoDup (a ++ b) -> NoDup (b ++ rev a).
Proof.
  intros H. apply NoDup_app_comm_local in H. revert H.
  intros H. apply (Permutation_NoDup (l := b ++ a)); [|exact H].
  apply Permutation_app_head. apply Permutation_rev.
Qed.

(* ================================================================ part 3: reachability and the property lemmas *)
Inductive reachable (ops : list (list Z)) : st -> Prop :=
| r_init : reachable ops (init ops)
| r_step s t : reachable ops s -> enabled s t = true -> reachable ops (fst (fst (tstep s t))).

Lemma decode_task_pc l x : In x (decode_task l) -> tpc x = PStep.
Proof.
  unfold decode_task. intros H.
  repeat match type of H with
  | In _ (match ?e with _ => _ end) => destruct e; cbn [In] in H; try contradiction
  end.
  destruct H as [<-|[]]. reflexivity.
Qed.

Lemma init_pc ops c : tpc (gtask (init ops) c) = PStep \/ tpc (gtask (init ops) c) = PDone.
Proof.
  unfold gtask, init. cbn [tasks].
  destruct (nth_in_or_default c (flat_map decode_task ops) dflt_task) as [H|H].
  - left. apply in_flat_map in H. destruct H as (l & _ & H). eapply decode_task_pc. exact H.
  - right. rewrite H. reflexivity.
Qed.

Lemma init_cls ops c : cls (tvs (init ops) c) = CNeutral.
Proof. unfold tvs, tvw. destruct (init_pc ops c) as [-> | ->]; reflexivity. Qed.

Lemma init_inv ops : SInv (init ops).
Proof.
  split.
  - unfold init. cbn [next tasks]. apply repeat_length.
  - constructor; cbn [vw v_req v_q v_next v_dn v_err v_own v_gs v_gq v_al v_gl v_tv].
    + intros c L. unfold init in L. cbn [next] in L. rewrite repeat_length in L.
      unfold tvs, gtask, init. cbn [tasks]. rewrite nth_overflow by exact L. reflexivity.
    + reflexivity.
    + intros c. rewrite init_cls. discriminate.
    + intros c. rewrite init_cls. cbn. split; discriminate.
    + intros c. rewrite init_cls. cbn. split; [discriminate|tauto].
    + constructor.
    + auto.
    + discriminate.
    + intros o. rewrite init_cls. discriminate.
    + reflexivity.
    + intros o. rewrite init_cls. discriminate.
    + reflexivity.
    + reflexivity.
    + intros c e Q. exfalso. unfold tvs, tvw in Q. cbn [fst snd] in Q.
      destruct (init_pc ops c) as [E|E]; rewrite E in Q; discriminate.
    + intros o. rewrite init_cls. discriminate.
Qed.

Lemma reachable_inv ops s : reachable ops s -> SInv s.
Proof. induction 1 as [|s t _ IH En]; [apply init_inv|apply step_inv; assumption]. Qed.

(* ---------- the vocabulary of the property statements, in terms of program counters ---------- *)
(* c owns the mutex: from the successful CAS / the hand-over up to the end of its unlock *)
Definition holds (s : st) (c : nat) : Prop :=
  match tpc (gtask s c) with
  | PPub0 | PBqS | PCs | PUnlock | PUnlockCas | PBqU => True
  | PPubW | PFlag => flag (gtask s c) = true
  | _ => False
  end.
(* c has published a request that has not been granted *)
Definition waiting (s : st) (c : nat) : Prop :=
  match tpc (gtask s c) with
  | PParked => True
  | PPubW | PFlag => flag (gtask s c) = false
  | _ => False
  end.

Lemma holds_cls s c : Inv (vw s) -> (holds s c <-> is_hold (cls (tvs s c)) = true).
Proof.
  intros I. pose proof (i_bad _ I c) as B. cbn [vw v_tv] in B. unfold holds, tvs, tvw in *.
  destruct (tpc (gtask s c)), (tk (gtask s c)), (flag (gtask s c)); cbn in *;
    try tauto; try (split; [tauto|discriminate]); try (split; [discriminate|discriminate]).
Qed.

Lemma waiting_cls s c : Inv (vw s) -> (waiting s c <-> cls (tvs s c) = CWait).
Proof.
  intros I. pose proof (i_bad _ I c) as B. cbn [vw v_tv] in B. unfold waiting, tvs, tvw in *.
  destruct (tpc (gtask s c)), (tk (gtask s c)), (flag (gtask s c)); cbn in *;
    try tauto; try (split; [tauto|discriminate]); try (split; [discriminate|discriminate]);
    try (split; [contradiction|discriminate]).
Qed.

(* C07 *)
Lemma mutual_exclusion ops s i j : reachable ops s -> holds s i -> holds s j -> i = j.
Proof.
  intros R Hi Hj. destruct (reachable_inv _ _ R) as [_ I].
  apply (holds_cls s i I) in Hi. apply (holds_cls s j I) in Hj.
  apply (i_own _ I) in Hi. apply (i_own _ I) in Hj. cbn [vw v_own] in *. congruence.
Qed.

Lemma grant_once ops s : reachable ops s ->
  exists pending, alog s = glog s ++ pending /\ NoDup pending /\
    (forall w, In w pending <-> waiting s w) /\ (forall w, waiting s w -> ~ holds s w).
Proof.
  intros R. destruct (reachable_inv _ _ R) as [_ I].
  exists (gqueue s ++ rev (gstack s)). split; [apply (i_fifo _ I)|]. split; [|split].
  - pose proof (i_nodup _ I) as ND. cbn [vw v_gs v_gq] in ND.
    apply NoDup_app_swap_rev. exact ND.
  - intros w. rewrite (waiting_cls s w I). pose proof (i_wait _ I w) as W. cbn [vw v_gs v_gq v_tv] in W.
    rewrite W. rewrite !in_app_iff, <- in_rev. tauto.
  - intros w Ww Hw. apply (waiting_cls s w I) in Ww. apply (holds_cls s w I) in Hw. rewrite Ww in Hw. discriminate.
Qed.

(* the tail of await_suspend after the publishing CAS (thread at "m_pub" on behalf of coroutine c) touches
   neither the mutex nor any task's kind/pc/flag — whatever happened to c in between (c may already have been
   granted the mutex and be running on another thread); and the other two continuations after the publishing
   CAS only move the publisher's own pc: the decision was taken from the value the CAS returned *)
Lemma not_while_suspending s t c : run (gthr s t) = TSusp c ->
  let s' := fst (fst (tstep s t)) in
  requests s' = requests s /\ queue s' = queue s /\ next s' = next s /\ dnext s' = dnext s /\
  owner s' = owner s /\ alog s' = alog s /\ glog s' = glog s /\
  (forall x, tk (gtask s' x) = tk (gtask s x) /\ tpc (gtask s' x) = tpc (gtask s x) /\ flag (gtask s' x) = flag (gtask s x)).
Proof.
  intros R. unfold tstep. rewrite R. cbn [fst].
  destruct (same_yield s t) as ((E1 & E2 & E3 & E4 & _ & E6 & _ & _ & E9 & E10 & E11) & _).
  cbn [vw v_req v_q v_next v_dn v_err v_own v_gs v_gq v_al v_gl v_tv] in *.
  repeat split; try (symmetry; assumption); specialize (E11 x); unfold tvs, tvw in E11; inversion E11; reflexivity.
Qed.

Lemma after_publish_local s t c : run (gthr s t) = TRun c ->
  (tpc (gtask s c) = PPub0 -> fst (fst (tstep s t)) = set_pc s c PBqS) /\
  (tpc (gtask s c) = PPubW -> fst (fst (tstep s t)) = set_pc s c PFlag).
Proof. intros R. unfold tstep. rewrite R. split; intros ->; reflexivity. Qed.

(* a parked coroutine is resumed only by a hand-over, and only coroutines are ever parked *)
Lemma suspended_is_coroutine ops s c : reachable ops s -> tpc (gtask s c) = PParked -> tk (gtask s c) = KCoro /\ waiting s c.
Proof.
  intros R P. destruct (reachable_inv _ _ R) as [_ I]. pose proof (i_bad _ I c) as B.
  cbn [vw v_tv] in B. unfold tvs, tvw in B. rewrite P in B. unfold waiting. rewrite P.
  destruct (tk (gtask s c)); [tauto|]. exfalso. apply B. reflexivity.
Qed.

Lemma sentinel_never_queued ops s : reachable ops s ->
  err s = false /\ dnext s = PNull /\ (queue s = PNull \/ exists w, queue s = PNode w /\ waiting s w).
Proof.
  intros R. destruct (reachable_inv _ _ R) as [_ I].
  split; [apply (i_err _ I)|]. split; [apply (i_dn _ I)|].
  pose proof (i_queue _ I) as Q. cbn [vw v_next v_q v_gq] in Q.
  destruct (gqueue s) as [|w r] eqn:G; cbn [repr] in Q; [left; exact Q|].
  right. exists w. split; [apply Q|]. apply (waiting_cls s w I). apply (i_wait _ I).
  cbn [vw v_gs v_gq]. rewrite G. apply in_or_app. right. left. reflexivity.
Qed.

(* C08 *)
(* grants are a prefix of the publishing CASes; what is pending is, in order, the owner-private queue
   followed by the reversed request stack — both are the chains actually present in memory *)
Lemma fifo ops s : reachable ops s ->
  exists stack fifo_q b,
    repr (next s) (requests s) stack b /\ repr (next s) (queue s) fifo_q PNull /\
    (b = PNull /\ stack = [] \/ b = PDoor \/ exists o, b = PNode o /\ holds s o /\ gnext s o = PNull /\ fifo_q = []) /\
    alog s = glog s ++ fifo_q ++ rev stack.
Proof.
  intros R. destruct (reachable_inv _ _ R) as [_ I].
  exists (gstack s), (gqueue s).
  destruct (owner s) as [o|] eqn:O.
  - exists (bottom (vw s) o). split; [apply (i_stack _ I); exact O|]. split; [apply (i_queue _ I)|].
    split; [|apply (i_fifo _ I)].
    unfold bottom. destruct (cls (v_tv (vw s) o)) eqn:C; auto.
    right. right. exists o. split; [reflexivity|].
    split; [apply (holds_cls s o I); cbn [vw v_tv] in C; rewrite C; reflexivity|].
    apply (i_bot _ I o C).
  - exists PNull. destruct (i_free _ I O) as (A & B & C). cbn [vw v_req v_gs v_gq] in A, B, C.
    split; [rewrite A, B; reflexivity|]. split; [apply (i_queue _ I)|]. split; [auto|apply (i_fifo _ I)].
Qed.

(* whenever a request is pending the mutex is not free and has an owner: in particular the state right after
   a release with waiters (unlock never stores null then; ownership went to a waiter or is still being passed) *)
Lemma direct_handoff ops s w : reachable ops s -> waiting s w -> requests s <> PNull /\ exists o, holds s o /\ o <> w.
Proof.
  intros R W. destruct (reachable_inv _ _ R) as [_ I].
  apply (waiting_cls s w I) in W. pose proof (proj1 (i_wait _ I w) W) as M. cbn [vw v_gs v_gq] in M.
  destruct (owner s) as [o|] eqn:O.
  - split.
    + intro E. apply (inv_req_null _ I) in E. cbn [vw v_own] in E. congruence.
    + exists o. assert (H : is_hold (cls (tvs s o)) = true) by (apply (i_own _ I); exact O).
      split; [apply (holds_cls s o I); exact H|]. intro; subst o. rewrite W in H. discriminate.
  - exfalso. destruct (i_free _ I O) as (_ & B & C). cbn [vw v_gs v_gq] in B, C. rewrite B, C in M. contradiction.
Qed.

(* when nobody owns the mutex, nothing is pending, every published request was granted and it is free again *)
Lemma no_lost_request ops s : reachable ops s -> (forall c, ~ holds s c) ->
  requests s = PNull /\ queue s = PNull /\ alog s = glog s /\ forall w, ~ waiting s w.
Proof.
  intros R H. destruct (reachable_inv _ _ R) as [_ I].
  assert (O : owner s = None).
  { destruct (owner s) as [o|] eqn:O; [|reflexivity]. exfalso. apply (H o). apply (holds_cls s o I).
    apply (i_own _ I). exact O. }
  destruct (i_free _ I O) as (A & B & C). cbn [vw v_req v_gs v_gq] in A, B, C.
  split; [exact A|]. split; [|split].
  - pose proof (i_queue _ I) as Q. cbn [vw v_next v_q v_gq] in Q. rewrite C in Q. exact Q.
  - pose proof (i_fifo _ I) as F. cbn [vw v_al v_gl v_gq v_gs] in F. rewrite F, B, C. cbn. rewrite app_nil_r. reflexivity.
  - intros w W. apply (waiting_cls s w I) in W. apply (i_wait _ I) in W. cbn [vw v_gs v_gq] in W. rewrite B, C in W. contradiction.
Qed.

Lemma holds_same s s' c : same s s' -> (holds s c <-> holds s' c).
Proof.
  intros ((_ & _ & _ & _ & _ & _ & _ & _ & _ & _ & E) & _). specialize (E c). cbn [vw v_tv] in E.
  unfold tvs, tvw in E. inversion E as [[E1 E2 E3]]. unfold holds. rewrite E2, E3. tauto.
Qed.

(* try_lock is one step; it succeeds exactly when nobody owns the mutex; a failed try changes nothing but the
   caller's own bookkeeping (no request is published) *)
Lemma try_lock ops s t c : reachable ops s -> run (gthr s t) = TRun c -> tpc (gtask s c) = PTry -> cacq (gtask s c) = ATry ->
  let s' := fst (fst (tstep s t)) in
  ((forall o, ~ holds s o) -> holds s' c /\ requests s' = PDoor /\ alog s' = alog s) /\
  ((exists o, holds s o) -> s' = set_task s c (t_endround (gtask s c) true) /\ ~ holds s' c /\ ~ waiting s' c).
Proof.
  intros R Ru P A. destruct (reachable_inv _ _ R) as [L I].
  assert (Lc : c < length (tasks s)) by (apply task_lt; rewrite P; discriminate).
  unfold tstep. rewrite Ru, P. cbn zeta. split.
  - intros F. assert (O : owner s = None).
    { destruct (owner s) as [o|] eqn:O; [|reflexivity]. exfalso. apply (F o). apply (holds_cls s o I).
      apply (i_own _ I). exact O. }
    destruct (i_free _ I O) as (E & _ & _). cbn [vw v_req] in E. rewrite E. cbn [fst].
    split; [|split; reflexivity].
    apply (proj1 (holds_same _ _ c (same_enter _ c))).
    unfold holds, set_pc. rewrite gtask_set_task by exact Lc. rewrite Nat.eqb_refl. reflexivity.
  - intros (o & Ho). apply (holds_cls s o I) in Ho. apply (i_own _ I) in Ho. cbn [vw v_own] in Ho.
    assert (E : requests s <> PNull).
    { intro E. apply (inv_req_null _ I) in E. cbn [vw v_own] in E. congruence. }
    destruct (requests s) eqn:Rq; [contradiction| |]; rewrite A; cbn [fst];
      (split; [reflexivity|]); unfold holds, waiting; rewrite gtask_set_task by exact Lc; rewrite Nat.eqb_refl;
      cbn [t_endround tpc]; tauto.
Qed.

(* ---------- every state visited by the executable scheduler is reachable ---------- *)
Lemma enabled_list_sound s n : forall from i, In i (enabled_list s n from) -> enabled s i = true.
Proof.
  induction n as [|n IH]; intros from i H; cbn [enabled_list] in H; [contradiction|].
  apply in_app_or in H. destruct H as [H|H]; [|eapply IH; exact H].
  destruct (enabled s from) eqn:E; [|contradiction]. destruct H as [<-|[]]. exact E.
Qed.

Lemma run_sched_reachable ops fuel : forall s sched tr, reachable ops s -> reachable ops (fst (run_sched fuel s sched tr)).
Proof.
  induction fuel as [|fuel IH]; intros s sched tr R; cbn [run_sched]; [exact R|].
  destruct (all_enabled s) as [|e en] eqn:A; [exact R|].
  set (i := nth _ (e :: en) 0).
  assert (In i (e :: en)).
  { unfold i. apply nth_In. unfold zlen.
    match goal with |- context [Z.to_nat (?k mod ?m)] => assert (0 <= k mod m < m)%Z by (apply Z.mod_pos_bound; cbn [length]; lia) end.
    lia. }
  assert (En : enabled s i = true) by (rewrite <- A in H; eapply enabled_list_sound; exact H).
  destruct (tstep s i) as [[s1 p] c] eqn:T.
  apply IH. replace s1 with (fst (fst (tstep s i))) by (rewrite T; reflexivity).
  apply r_step; assumption.
Qed.
