(* MutexProofs.v — invariants of the coroutine-mutex model, for any number of contenders of any kind,
   any number of rounds and every schedule (induction over reachability).
   Part 1 works on a "view" of the state (memory, ghost lists, and per task kind/pc/flag): every protocol
   transition is a pure lemma there.  Part 2 shows that every case of MutexDefs.tstep is one of these
   transitions wrapped in scheduling bookkeeping (coro_queue, scenario counters) that does not change the view. *)
From Cocls Require Import Base BaseProofs MutexDefs.
Require Import ZifyBool.
Local Open Scope nat_scope.

(* ================================================================ part 1: the view *)
Definition tview := (kind * pc * bool)%type.
Definition dflt_tv : tview := (KPlain, PDone, false).

Inductive class := CNeutral | CWait | CBottom | CBqU | CHold | CBad.

Definition cls (v : tview) : class :=
  match v with
  | (k, p, f) =>
      match p with
      | PPub0 | PBqS => CBottom
      | PBqU => CBqU
      | PCs | PUnlock => CHold
      | PParked => match k with KCoro => CWait | KPlain => CBad end
      | PPubW | PFlag => match k with KPlain => if f then CHold else CWait | KCoro => CBad end
      | PStep | PTry | PSub | PDone => CNeutral
      end
  end.

Definition is_hold (c : class) : bool := match c with CBottom | CBqU | CHold => true | _ => false end.

Record view := mkV {
  v_req : ptr; v_q : ptr; v_next : list ptr; v_dn : ptr; v_err : bool;
  v_own : option nat; v_gs : list nat; v_gq : list nat; v_al : list nat; v_gl : list nat;
  v_tv : nat -> tview
}.

(* the pointer p is the head of a chain through exactly the nodes l, ending in b *)
Fixpoint repr (nx : list ptr) (p : ptr) (l : list nat) (b : ptr) : Prop :=
  match l with
  | [] => p = b
  | w :: l' => p = PNode w /\ repr nx (nth w nx PNull) l' b
  end.

Definition bottom (V : view) (o : nat) : ptr :=
  match cls (v_tv V o) with CBottom => PNode o | _ => PDoor end.

Record Inv (V : view) : Prop := {
  i_dom : forall c, length (v_next V) <= c -> v_tv V c = dflt_tv;
  i_err : v_err V = false;
  i_bad : forall c, cls (v_tv V c) <> CBad;
  i_own : forall c, is_hold (cls (v_tv V c)) = true <-> v_own V = Some c;
  i_wait : forall w, cls (v_tv V w) = CWait <-> In w (v_gs V ++ v_gq V);
  i_nodup : NoDup (v_gs V ++ v_gq V);
  i_free : v_own V = None -> v_req V = PNull /\ v_gs V = [] /\ v_gq V = [];
  i_stack : forall o, v_own V = Some o -> repr (v_next V) (v_req V) (v_gs V) (bottom V o);
  i_bot : forall o, cls (v_tv V o) = CBottom -> nth o (v_next V) PNull = PNull /\ v_gq V = [];
  i_queue : repr (v_next V) (v_q V) (v_gq V) PNull;
  i_bqu : forall o, cls (v_tv V o) = CBqU -> v_gq V = [] /\ v_gs V <> [];
  i_dn : v_dn V = PNull;
  i_fifo : v_al V = v_gl V ++ v_gq V ++ rev (v_gs V)
}.

Definition upd (f : nat -> tview) (c : nat) (v : tview) : nat -> tview :=
  fun x => if Nat.eqb x c then v else f x.

Lemma upd_same f c v : upd f c v c = v.
Proof. unfold upd. now rewrite Nat.eqb_refl. Qed.
Lemma upd_other f c v x : x <> c -> upd f c v x = f x.
Proof. unfold upd. intros H. apply Nat.eqb_neq in H. now rewrite H. Qed.

(* ---------- list-memory lemmas ---------- *)
Lemma set_nth_len {A} (l : list A) i x : length (set_nth l i x) = length l.
Proof. revert i; induction l as [|y l IH]; intros [|i]; cbn; auto. Qed.

Lemma nth_set_nth_same {A} (l : list A) i x d : i < length l -> nth i (set_nth l i x) d = x.
Proof. revert i; induction l as [|y l IH]; intros [|i] H; cbn in *; try lia; auto. apply IH. lia. Qed.

Lemma nth_set_nth_other {A} (l : list A) i j x d : i <> j -> nth j (set_nth l i x) d = nth j l d.
Proof.
  revert i j; induction l as [|y l IH]; intros [|i] [|j] H; cbn; auto; try congruence.
Qed.

Lemma repr_frame nx p l b c v : ~ In c l -> repr (set_nth nx c v) p l b <-> repr nx p l b.
Proof.
  revert p. induction l as [|w l IH]; intros p H; cbn [repr]; [tauto|].
  assert (c <> w) by (intro; subst; apply H; left; reflexivity).
  rewrite nth_set_nth_other by assumption.
  rewrite IH; [tauto|]. intro Q. apply H. right. exact Q.
Qed.

Lemma repr_bottom nx p l b b' : repr nx p l b -> b = b' -> repr nx p l b'.
Proof. intros H <-. exact H. Qed.

Lemma repr_nil_inv nx p l b : repr nx p l b -> (forall w, p <> PNode w) -> l = [] /\ p = b.
Proof. destruct l as [|w l]; cbn [repr]; [auto|]. intros [E _] H. exfalso. eapply H. exact E. Qed.

Lemma repr_node_inv nx w l b : repr nx (PNode w) l b -> (forall x, b <> PNode x) ->
  exists r, l = w :: r /\ repr nx (nth w nx PNull) r b.
Proof.
  destruct l as [|x l]; cbn [repr].
  - intros E H. exfalso. eapply H. symmetry. exact E.
  - intros [E R] _. inversion E; subst. eauto.
Qed.

(* ---------- build_queue ---------- *)
Lemma ptr_eqb_eq a b : ptr_eqb a b = true <-> a = b.
Proof.
  destruct a, b; cbn; split; try congruence; try discriminate; auto.
  - intros H. apply Nat.eqb_eq in H. now subst.
  - intros H. inversion H. apply Nat.eqb_refl.
Qed.

Lemma bq_walk_repr l : forall fuel nx dn req stop q ql,
  repr nx req l stop -> NoDup (l ++ ql) -> (forall w, In w l -> w < length nx) ->
  (forall w, In w l -> stop <> PNode w) -> stop <> PNull ->
  repr nx q ql PNull -> length l < fuel ->
  exists nx', bq_walk fuel nx dn req stop q = (nx', dn, match rev l ++ ql with [] => q | x :: _ => PNode x end) /\
    repr nx' (match rev l ++ ql with [] => q | x :: _ => PNode x end) (rev l ++ ql) PNull /\
    length nx' = length nx /\ (forall x, ~ In x l -> nth x nx' PNull = nth x nx PNull).
Proof.
  induction l as [|w l IH]; intros fuel nx dn req stop q ql R ND LT NS SN RQ F.
  - cbn [repr] in R. subst req. destruct fuel as [|fuel]; [cbn in F; lia|].
    cbn [bq_walk]. assert (E : ptr_eqb stop stop = true) by (apply ptr_eqb_eq; reflexivity). rewrite E.
    exists nx. cbn [rev app].
    assert (Q : match ql with [] => q | x :: _ => PNode x end = q).
    { destruct ql as [|x ql]; [reflexivity|]. cbn [repr] in RQ. symmetry. apply RQ. }
    rewrite Q. auto.
  - cbn [repr] in R. destruct R as [-> R]. destruct fuel as [|fuel]; [cbn in F; lia|].
    cbn [bq_walk].
    assert (E : ptr_eqb (PNode w) stop = false).
    { destruct (ptr_eqb (PNode w) stop) eqn:Q; [|reflexivity]. apply ptr_eqb_eq in Q. exfalso.
      eapply NS; [left; reflexivity|]. symmetry. exact Q. }
    rewrite E.
    assert (Wl : ~ In w l) by (cbn in ND; inversion ND; subst; intro; apply H1; apply in_or_app; auto).
    assert (Wq : ~ In w ql) by (cbn in ND; inversion ND; subst; intro; apply H1; apply in_or_app; auto).
    assert (Wlt : w < length nx) by (apply LT; left; reflexivity).
    destruct (IH fuel (set_nth nx w q) dn (nth w nx PNull) stop (PNode w) (w :: ql)) as (nx' & E1 & R1 & L1 & O1).
    + apply repr_frame; assumption.
    + cbn in ND. inversion ND; subst.
      apply (NoDup_Add (Add_app w l ql)). split; assumption.
    + intros x Hx. rewrite set_nth_len. apply LT. right. exact Hx.
    + intros x Hx. apply NS. right. exact Hx.
    + exact SN.
    + cbn [repr]. split; [reflexivity|]. rewrite nth_set_nth_same by exact Wlt.
      apply repr_frame; assumption.
    + cbn [length] in F. lia.
    + assert (EQ : rev (w :: l) ++ ql = rev l ++ w :: ql) by (cbn [rev]; rewrite <- app_assoc; reflexivity).
      rewrite EQ.
      assert (M : match rev l ++ w :: ql with [] => PNode w | x :: _ => PNode x end =
                  match rev l ++ w :: ql with [] => q | x :: _ => PNode x end).
      { destruct (rev l ++ w :: ql) eqn:Z; [|reflexivity]. destruct (rev l); discriminate. }
      rewrite M in E1, R1.
      exists nx'. split; [exact E1|]. split; [exact R1|]. split.
      * rewrite L1. apply set_nth_len.
      * intros x Hx. rewrite O1.
        -- apply nth_set_nth_other. intro; subst. apply Hx. left. reflexivity.
        -- intro. apply Hx. right. assumption.
Qed.

(* ---------- consequences of the invariant ---------- *)
Ltac upd_case x c :=
  destruct (Nat.eq_dec x c) as [->|?N]; [rewrite ?upd_same in *|rewrite ?upd_other in * by assumption].

Lemma inv_req_null V : Inv V -> (v_req V = PNull <-> v_own V = None).
Proof.
  intros I. split.
  - intros E. destruct (v_own V) as [o|] eqn:O; [|reflexivity]. exfalso.
    pose proof (i_stack V I o O) as R. rewrite E in R. destruct (v_gs V) as [|w l]; cbn [repr] in R.
    + unfold bottom in R. destruct (cls (v_tv V o)); discriminate.
    + destruct R; discriminate.
  - intros O. apply (i_free V I O).
Qed.

Lemma inv_hold_own V c : Inv V -> is_hold (cls (v_tv V c)) = true -> v_own V = Some c.
Proof. intros I H. apply (i_own V I). exact H. Qed.

Lemma inv_lt V c : Inv V -> cls (v_tv V c) <> CNeutral \/ snd (fst (v_tv V c)) <> PDone -> c < length (v_next V).
Proof.
  intros I H. destruct (le_lt_dec (length (v_next V)) c) as [L|L]; [|exact L]. exfalso.
  rewrite (i_dom V I c L) in H. cbn in H. destruct H as [H|H]; apply H; reflexivity.
Qed.

Lemma inv_wait_lt V w : Inv V -> In w (v_gs V ++ v_gq V) -> w < length (v_next V).
Proof. intros I H. apply (i_wait V I) in H. apply inv_lt; [exact I|]. left. congruence. Qed.

(* ---------- transitions that keep every task in its class ---------- *)
Lemma inv_cls V tv' : Inv V -> (forall x, cls (tv' x) = cls (v_tv V x)) ->
  (forall c, length (v_next V) <= c -> tv' c = dflt_tv) ->
  Inv (mkV (v_req V) (v_q V) (v_next V) (v_dn V) (v_err V) (v_own V) (v_gs V) (v_gq V) (v_al V) (v_gl V) tv').
Proof.
  intros I H D. destruct I. constructor; cbn [v_req v_q v_next v_dn v_err v_own v_gs v_gq v_al v_gl v_tv]; auto.
  - intros c. rewrite H. auto.
  - intros c. rewrite H. auto.
  - intros w. rewrite H. auto.
  - intros o O. specialize (i_stack0 o O). unfold bottom in *. cbn [v_tv]. rewrite H. exact i_stack0.
  - intros o. rewrite H. apply i_bot0.
  - intros o. rewrite H. apply i_bqu0.
Qed.

(* ---------- mutex::ready(): CAS null -> doorman succeeded (mutex.h:185) ---------- *)
Lemma inv_try V c v' : Inv V -> v_req V = PNull -> cls (v_tv V c) = CNeutral -> c < length (v_next V) -> cls v' = CHold ->
  Inv (mkV PDoor (v_q V) (v_next V) (v_dn V) (v_err V) (Some c) (v_gs V) (v_gq V) (v_al V) (v_gl V) (upd (v_tv V) c v')).
Proof.
  intros I E N L H. pose proof (proj1 (inv_req_null V I) E) as O.
  destruct (i_free V I O) as (_ & GS & GQ).
  constructor; cbn [v_req v_q v_next v_dn v_err v_own v_gs v_gq v_al v_gl v_tv].
  - intros x Lx. rewrite upd_other by lia. apply (i_dom V I). exact Lx.
  - apply (i_err V I).
  - intros x. upd_case x c; [congruence|apply (i_bad V I)].
  - intros x. upd_case x c.
    + rewrite H. cbn. tauto.
    + split; [|congruence]. intros Q. apply (i_own V I) in Q. congruence.
  - intros x. rewrite GS, GQ. cbn [app In]. upd_case x c; [rewrite H; split; [discriminate|tauto]|].
    rewrite (i_wait V I x), GS, GQ. cbn. tauto.
  - apply (i_nodup V I).
  - discriminate.
  - intros o Q. inversion Q; subst o. rewrite GS. cbn [repr]. unfold bottom. cbn [v_tv]. rewrite upd_same, H. reflexivity.
  - intros o. upd_case o c; [rewrite H; discriminate|]. apply (i_bot V I).
  - apply (i_queue V I).
  - intros o. upd_case o c; [rewrite H; discriminate|]. apply (i_bqu V I).
  - apply (i_dn V I).
  - apply (i_fifo V I).
Qed.

(* ---------- mutex::subscribe(): publishing CAS found null (mutex.h:198-203) ---------- *)
Lemma inv_sub0 V c v' : Inv V -> v_req V = PNull -> cls (v_tv V c) = CNeutral -> c < length (v_next V) -> cls v' = CBottom ->
  Inv (mkV (PNode c) (v_q V) (set_nth (v_next V) c PNull) (v_dn V) (v_err V) (Some c) (v_gs V) (v_gq V)
           (v_al V ++ [c]) (v_gl V ++ [c]) (upd (v_tv V) c v')).
Proof.
  intros I E N L H. pose proof (proj1 (inv_req_null V I) E) as O.
  destruct (i_free V I O) as (_ & GS & GQ).
  constructor; cbn [v_req v_q v_next v_dn v_err v_own v_gs v_gq v_al v_gl v_tv].
  - intros x Lx. rewrite set_nth_len in Lx. rewrite upd_other by lia. apply (i_dom V I). exact Lx.
  - apply (i_err V I).
  - intros x. upd_case x c; [congruence|apply (i_bad V I)].
  - intros x. upd_case x c.
    + rewrite H. cbn. tauto.
    + split; [|congruence]. intros Q. apply (i_own V I) in Q. congruence.
  - intros x. rewrite GS, GQ. cbn [app In]. upd_case x c; [rewrite H; split; [discriminate|tauto]|].
    rewrite (i_wait V I x), GS, GQ. cbn. tauto.
  - apply (i_nodup V I).
  - discriminate.
  - intros o Q. inversion Q; subst o. rewrite GS. cbn [repr]. unfold bottom. cbn [v_tv]. rewrite upd_same, H. reflexivity.
  - intros o. upd_case o c.
    + intros _. split; [apply nth_set_nth_same; exact L|exact GQ].
    + intros Q. exfalso. assert (B : is_hold (cls (v_tv V o)) = true) by (rewrite Q; reflexivity).
      apply (i_own V I) in B. congruence.
  - rewrite GQ. pose proof (i_queue V I) as R. rewrite GQ in R. exact R.
  - intros o. upd_case o c; [rewrite H; discriminate|]. apply (i_bqu V I).
  - apply (i_dn V I).
  - rewrite (i_fifo V I), GS, GQ. cbn [app rev]. rewrite !app_nil_r. reflexivity.
Qed.

(* ---------- mutex::subscribe(): published behind an owner (mutex.h:198-200, 212-214) ---------- *)
Lemma inv_subw V c v' : Inv V -> v_req V <> PNull -> cls (v_tv V c) = CNeutral -> c < length (v_next V) -> cls v' = CWait ->
  Inv (mkV (PNode c) (v_q V) (set_nth (v_next V) c (v_req V)) (v_dn V) (v_err V) (v_own V) (c :: v_gs V) (v_gq V)
           (v_al V ++ [c]) (v_gl V) (upd (v_tv V) c v')).
Proof.
  intros I E N L H.
  destruct (v_own V) as [o|] eqn:O; [|exfalso; apply E; apply (inv_req_null V I); exact O].
  assert (Nc : ~ In c (v_gs V ++ v_gq V)) by (intro Q; apply (i_wait V I) in Q; congruence).
  assert (Noc : o <> c).
  { intro; subst o. apply (i_own V I) in O. rewrite N in O. discriminate. }
  constructor; cbn [v_req v_q v_next v_dn v_err v_own v_gs v_gq v_al v_gl v_tv].
  - intros x Lx. rewrite set_nth_len in Lx. rewrite upd_other by lia. apply (i_dom V I). exact Lx.
  - apply (i_err V I).
  - intros x. upd_case x c; [congruence|apply (i_bad V I)].
  - intros x. upd_case x c.
    + rewrite H. cbn. split; [discriminate|]. intros Q. inversion Q. congruence.
    + rewrite <- O. apply (i_own V I).
  - intros x. cbn [app In]. upd_case x c; [rewrite H; tauto|].
    rewrite (i_wait V I x). split; [tauto|]. intros [Q|Q]; [congruence|exact Q].
  - cbn [app]. constructor; [exact Nc|apply (i_nodup V I)].
  - discriminate.
  - intros o' Q. inversion Q; subst o'. cbn [repr]. split; [reflexivity|].
    rewrite nth_set_nth_same by exact L.
    assert (B : bottom (mkV (PNode c) (v_q V) (set_nth (v_next V) c (v_req V)) (v_dn V) (v_err V) (Some o) (c :: v_gs V) (v_gq V)
                  (v_al V ++ [c]) (v_gl V) (upd (v_tv V) c v')) o = bottom V o).
    { unfold bottom. cbn [v_tv]. rewrite upd_other by exact Noc. reflexivity. }
    rewrite B. apply repr_frame; [intro Q'; apply Nc; apply in_or_app; auto|]. apply (i_stack V I). exact O.
  - intros x. upd_case x c; [rewrite H; discriminate|]. intros Q. destruct (i_bot V I x Q) as [A B]. split; [|exact B].
    rewrite nth_set_nth_other by auto. exact A.
  - apply repr_frame; [intro Q'; apply Nc; apply in_or_app; auto|]. apply (i_queue V I).
  - intros x. upd_case x c; [rewrite H; discriminate|]. intros Q. destruct (i_bqu V I x Q) as [A B]. split; [exact A|discriminate].
  - apply (i_dn V I).
  - rewrite (i_fifo V I). cbn [rev]. rewrite !app_assoc. reflexivity.
Qed.

Lemma nodup_bound l n : NoDup l -> (forall x, In x l -> x < n) -> length l <= n.
Proof.
  intros ND H. rewrite <- (seq_length n 0). apply NoDup_incl_length; [exact ND|].
  intros x Hx. apply in_seq. specialize (H x Hx). lia.
Qed.

Lemma only_owner V c o : Inv V -> v_own V = Some c -> is_hold (cls (v_tv V o)) = true -> o = c.
Proof. intros I O H. apply (i_own V I) in H. congruence. Qed.

(* ---------- build_queue(stop) by the owner (mutex.h:218-233) ---------- *)
Lemma inv_bq V c stop fuel v' : Inv V ->
  (cls (v_tv V c) = CBottom /\ stop = PNode c \/ cls (v_tv V c) = CBqU /\ stop = PDoor) ->
  cls v' = CHold -> length (v_next V) < fuel ->
  exists nx q', bq_walk fuel (v_next V) (v_dn V) (v_req V) stop (v_q V) = (nx, v_dn V, q') /\
    Inv (mkV PDoor q' nx (v_dn V) (v_err V) (v_own V) [] (rev (v_gs V) ++ v_gq V) (v_al V) (v_gl V) (upd (v_tv V) c v')) /\
    (v_gs V <> [] -> exists w, q' = PNode w).
Proof.
  intros I C H F.
  assert (Hc : is_hold (cls (v_tv V c)) = true) by (destruct C as [[-> _]|[-> _]]; reflexivity).
  pose proof (inv_hold_own V c I Hc) as O.
  assert (GQ : v_gq V = []) by (destruct C as [[C _]|[C _]]; [apply (i_bot V I c C)|apply (i_bqu V I c C)]).
  assert (B : bottom V c = stop) by (unfold bottom; destruct C as [[-> ->]|[-> ->]]; reflexivity).
  pose proof (i_stack V I c O) as R. rewrite B in R.
  pose proof (i_queue V I) as RQ. rewrite GQ in RQ.
  pose proof (i_nodup V I) as ND. rewrite GQ in ND.
  assert (LT : forall w, In w (v_gs V) -> w < length (v_next V)).
  { intros w Hw. apply inv_wait_lt; [exact I|]. apply in_or_app. auto. }
  assert (Ncg : ~ In c (v_gs V)).
  { intro Q. assert (W : cls (v_tv V c) = CWait) by (apply (i_wait V I); apply in_or_app; auto).
    destruct C as [[C _]|[C _]]; congruence. }
  destruct (bq_walk_repr (v_gs V) fuel (v_next V) (v_dn V) (v_req V) stop (v_q V) []) as (nx & E & R1 & L1 & O1);
    try assumption.
  - intros w Hw Q. destruct C as [[_ ->]|[_ ->]]; [|discriminate]. inversion Q; subst. contradiction.
  - destruct C as [[_ ->]|[_ ->]]; discriminate.
  - rewrite app_nil_r in ND. pose proof (nodup_bound _ _ ND LT). lia.
  - rewrite !app_nil_r in *. exists nx. eexists. split; [exact E|]. split.
    + rewrite GQ, app_nil_r.
      constructor; cbn [v_req v_q v_next v_dn v_err v_own v_gs v_gq v_al v_gl v_tv].
      * intros x Lx. rewrite L1 in Lx. rewrite upd_other; [apply (i_dom V I); exact Lx|].
        pose proof (inv_lt V c I) as Q. intro; subst x. assert (c < length (v_next V)); [|lia].
        apply Q. left. destruct C as [[-> _]|[-> _]]; discriminate.
      * apply (i_err V I).
      * intros x. upd_case x c; [congruence|apply (i_bad V I)].
      * intros x. upd_case x c; [rewrite H; cbn; tauto|]. apply (i_own V I).
      * intros x. cbn [app]. upd_case x c.
        -- rewrite H. split; [discriminate|]. intros Q. apply in_rev in Q. contradiction.
        -- rewrite (i_wait V I x), GQ, app_nil_r. apply in_rev.
      * cbn [app]. apply NoDup_rev. exact ND.
      * rewrite O. discriminate.
      * intros o Q. cbn [repr]. unfold bottom. cbn [v_tv]. rewrite O in Q. inversion Q; subst o.
        rewrite upd_same, H. reflexivity.
      * intros o. upd_case o c; [rewrite H; discriminate|]. intros Q. exfalso. apply N.
        eapply only_owner; [exact I|exact O|rewrite Q; reflexivity].
      * exact R1.
      * intros o. upd_case o c; [rewrite H; discriminate|]. intros Q. exfalso. apply N.
        eapply only_owner; [exact I|exact O|rewrite Q; reflexivity].
      * apply (i_dn V I).
      * rewrite (i_fifo V I), GQ. cbn [app rev]. rewrite app_nil_r. reflexivity.
    + intros NE. destruct (rev (v_gs V)) as [|x r] eqn:Z.
      * exfalso. apply NE. apply (f_equal (@rev nat)) in Z. rewrite rev_involutive in Z. exact Z.
      * eauto.
Qed.

(* ---------- unlock(): queue empty and CAS doorman -> null succeeded (mutex.h:154-160) ---------- *)
Lemma inv_unlock_free V c v' : Inv V -> cls (v_tv V c) = CHold -> v_q V = PNull -> v_req V = PDoor -> cls v' = CNeutral ->
  Inv (mkV PNull (v_q V) (v_next V) (v_dn V) (v_err V) None (v_gs V) (v_gq V) (v_al V) (v_gl V) (upd (v_tv V) c v')).
Proof.
  intros I C Q E H.
  assert (Hc : is_hold (cls (v_tv V c)) = true) by (rewrite C; reflexivity).
  pose proof (inv_hold_own V c I Hc) as O.
  pose proof (i_stack V I c O) as R. unfold bottom in R. rewrite C, E in R.
  destruct (repr_nil_inv _ _ _ _ R) as [GS _]; [discriminate|].
  pose proof (i_queue V I) as RQ. rewrite Q in RQ.
  destruct (repr_nil_inv _ _ _ _ RQ) as [GQ _]; [discriminate|].
  assert (Lc : c < length (v_next V)) by (apply inv_lt; [exact I|left; congruence]).
  constructor; cbn [v_req v_q v_next v_dn v_err v_own v_gs v_gq v_al v_gl v_tv].
  - intros x Lx. rewrite upd_other by lia. apply (i_dom V I). exact Lx.
  - apply (i_err V I).
  - intros x. upd_case x c; [congruence|apply (i_bad V I)].
  - intros x. upd_case x c; [rewrite H; cbn; split; discriminate|].
    split; [|discriminate]. intros Z. exfalso. apply N. eapply only_owner; eassumption.
  - intros x. upd_case x c; [|apply (i_wait V I)]. rewrite H, GS, GQ. cbn. split; [discriminate|tauto].
  - apply (i_nodup V I).
  - auto.
  - discriminate.
  - intros o. upd_case o c; [rewrite H; discriminate|]. apply (i_bot V I).
  - apply (i_queue V I).
  - intros o. upd_case o c; [rewrite H; discriminate|]. apply (i_bqu V I).
  - apply (i_dn V I).
  - apply (i_fifo V I).
Qed.

(* ---------- unlock(): queue empty, CAS failed: requests were published (mutex.h:161-165) ---------- *)
Lemma inv_unlock_bqu V c v' : Inv V -> cls (v_tv V c) = CHold -> v_q V = PNull -> v_req V <> PDoor -> cls v' = CBqU ->
  Inv (mkV (v_req V) (v_q V) (v_next V) (v_dn V) (v_err V) (v_own V) (v_gs V) (v_gq V) (v_al V) (v_gl V) (upd (v_tv V) c v')).
Proof.
  intros I C Q E H.
  assert (Hc : is_hold (cls (v_tv V c)) = true) by (rewrite C; reflexivity).
  pose proof (inv_hold_own V c I Hc) as O.
  pose proof (i_stack V I c O) as R. unfold bottom in R. rewrite C in R.
  pose proof (i_queue V I) as RQ. rewrite Q in RQ.
  destruct (repr_nil_inv _ _ _ _ RQ) as [GQ _]; [discriminate|].
  assert (GS : v_gs V <> []) by (intro Z; rewrite Z in R; cbn [repr] in R; contradiction).
  assert (Lc : c < length (v_next V)) by (apply inv_lt; [exact I|left; congruence]).
  constructor; cbn [v_req v_q v_next v_dn v_err v_own v_gs v_gq v_al v_gl v_tv].
  - intros x Lx. rewrite upd_other by lia. apply (i_dom V I). exact Lx.
  - apply (i_err V I).
  - intros x. upd_case x c; [congruence|apply (i_bad V I)].
  - intros x. upd_case x c; [rewrite H; cbn; tauto|]. apply (i_own V I).
  - intros x. upd_case x c; [|apply (i_wait V I)]. rewrite H. split; [discriminate|].
    intros Z. apply (i_wait V I) in Z. congruence.
  - apply (i_nodup V I).
  - apply (i_free V I).
  - intros o Z. rewrite O in Z. inversion Z; subst o. unfold bottom. cbn [v_tv]. rewrite upd_same, H. exact R.
  - intros o. upd_case o c; [rewrite H; discriminate|]. apply (i_bot V I).
  - apply (i_queue V I).
  - intros o. upd_case o c; [auto|]. apply (i_bqu V I).
  - apply (i_dn V I).
  - apply (i_fifo V I).
Qed.

(* ---------- unlock(): hand-over to the head of the queue (mutex.h:170-176) ---------- *)
Lemma inv_handover V c w v' vw' : Inv V -> cls (v_tv V c) = CHold -> v_q V = PNode w ->
  cls v' = CNeutral -> cls vw' = CHold ->
  cls (v_tv V w) = CWait /\ w <> c /\ (exists r, v_gq V = w :: r) /\
  Inv (mkV (v_req V) (nth w (v_next V) PNull) (set_nth (v_next V) w PNull) (v_dn V) (v_err V) (Some w)
           (v_gs V) (tl (v_gq V)) (v_al V) (v_gl V ++ [w]) (upd (upd (v_tv V) c v') w vw')).
Proof.
  intros I C Q H HW.
  assert (Hc : is_hold (cls (v_tv V c)) = true) by (rewrite C; reflexivity).
  pose proof (inv_hold_own V c I Hc) as O.
  pose proof (i_stack V I c O) as R. unfold bottom in R. rewrite C in R.
  pose proof (i_queue V I) as RQ. rewrite Q in RQ.
  destruct (repr_node_inv _ _ _ _ RQ) as (r & GQ & RR); [discriminate|].
  assert (Ww : cls (v_tv V w) = CWait).
  { apply (i_wait V I). rewrite GQ. apply in_or_app. right. left. reflexivity. }
  assert (Nwc : w <> c) by (intro; subst; congruence).
  pose proof (i_nodup V I) as ND. rewrite GQ in ND.
  pose proof (NoDup_remove_1 _ _ _ ND) as ND1. pose proof (NoDup_remove_2 _ _ _ ND) as ND2.
  assert (Lc : c < length (v_next V)) by (apply inv_lt; [exact I|left; congruence]).
  assert (Lw : w < length (v_next V)) by (apply inv_lt; [exact I|left; congruence]).
  split; [exact Ww|]. split; [exact Nwc|]. split; [eauto|]. rewrite GQ. cbn [tl].
  constructor; cbn [v_req v_q v_next v_dn v_err v_own v_gs v_gq v_al v_gl v_tv].
  - intros x Lx. rewrite set_nth_len in Lx. rewrite !upd_other by lia. apply (i_dom V I). exact Lx.
  - apply (i_err V I).
  - intros x. upd_case x w; [congruence|]. upd_case x c; [congruence|apply (i_bad V I)].
  - intros x. upd_case x w; [rewrite HW; cbn; tauto|]. upd_case x c.
    + rewrite H. cbn. split; [discriminate|]. intros Z. inversion Z. congruence.
    + split; [|intros Z; inversion Z; congruence]. intros Z. exfalso. apply N0. eapply only_owner; eassumption.
  - intros x. upd_case x w; [rewrite HW; split; [discriminate|]; intros Z; contradiction|].
    upd_case x c.
    + rewrite H. split; [discriminate|]. intros Z. exfalso.
      assert (In c (v_gs V ++ v_gq V)) by (rewrite GQ; apply in_app_or in Z; apply in_or_app; destruct Z; [left|right; right]; assumption).
      apply (i_wait V I) in H0. congruence.
    + rewrite (i_wait V I x), GQ. split; intros Z; apply in_app_or in Z; apply in_or_app; destruct Z as [Z|Z]; auto.
      * destruct Z as [Z|Z]; [congruence|auto].
      * right. right. exact Z.
  - exact ND1.
  - discriminate.
  - intros o Z. inversion Z; subst o. unfold bottom. cbn [v_tv]. rewrite upd_same, HW.
    apply repr_frame; [intro Y; apply ND2; apply in_or_app; auto|exact R].
  - intros o. upd_case o w; [rewrite HW; discriminate|]. upd_case o c; [rewrite H; discriminate|].
    intros Z. exfalso. apply N0. eapply only_owner; [exact I|exact O|rewrite Z; reflexivity].
  - apply repr_frame; [intro Y; apply ND2; apply in_or_app; auto|exact RR].
  - intros o. upd_case o w; [rewrite HW; discriminate|]. upd_case o c; [rewrite H; discriminate|].
    intros Z. exfalso. apply N0. eapply only_owner; [exact I|exact O|rewrite Z; reflexivity].
  - apply (i_dn V I).
  - rewrite (i_fifo V I), GQ. cbn [app]. rewrite <- !app_assoc. reflexivity.
Qed.
