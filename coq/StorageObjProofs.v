(* StorageObjProofs.v — invariants of the object-level storage model (StorageObjDefs.v), for every history of
   new / create / finish / move-assign / move-construct / drop over any number of storage objects:
   every live frame sits in memory that is still allocated (or in the area reserved for its object) and that is large enough
   for the frame and the policy's trailer, and nothing is ever deleted that is not a live block. *)
From Cocls Require Import Base BaseProofs StorageDefs StorageProofs StorageObjDefs.
Require Import ZifyBool.
Local Open Scope Z_scope.

(* ---------- association lists ---------- *)
Lemma aget_adel_same {A} (l : list (nat * A)) i : aget (adel l i) i = None.
Proof.
  induction l as [|[k x] l IH]; cbn [adel aget]; [reflexivity|].
  destruct (Nat.eqb_spec i k) as [E|E]; [exact IH|]. cbn [aget]. destruct (Nat.eqb_spec i k); [congruence|exact IH].
Qed.
Lemma aget_adel_other {A} (l : list (nat * A)) i k : k <> i -> aget (adel l i) k = aget l k.
Proof.
  intros N. induction l as [|[k' x] l IH]; cbn [adel aget]; [reflexivity|].
  destruct (Nat.eqb_spec i k') as [E|E].
  - subst. destruct (Nat.eqb_spec k k'); [congruence|exact IH].
  - cbn [aget]. destruct (Nat.eqb_spec k k'); [reflexivity|exact IH].
Qed.
Lemma aget_aput {A} (l : list (nat * A)) i x k : aget (aput l i x) k = if Nat.eqb k i then Some x else aget l k.
Proof.
  unfold aput. cbn [aget]. destruct (Nat.eqb_spec k i) as [E|E]; [reflexivity|]. apply aget_adel_other. exact E.
Qed.
Lemma aget_cons {A} (l : list (nat * A)) i x k : aget ((i, x) :: l) k = if Nat.eqb k i then Some x else aget l k.
Proof. reflexivity. Qed.
Lemma aget_In {A} (l : list (nat * A)) i x : aget l i = Some x -> In (i, x) l.
Proof.
  induction l as [|[k y] l IH]; cbn [aget]; [discriminate|].
  destruct (Nat.eqb_spec i k) as [E|E]; intros H; [inversion H; subst; left; reflexivity|right; exact (IH H)].
Qed.
Lemma uses_false j l slot f : uses j l = false -> aget l slot = Some f -> of_obj f <> j.
Proof.
  intros U G. apply aget_In in G. induction l as [|[k g] l IH]; [contradiction|].
  cbn [uses] in U. apply orb_false_iff in U. destruct U as [U1 U2]. destruct G as [G|G].
  - inversion G; subst. apply Nat.eqb_neq in U1. congruence.
  - exact (IH U2 G).
Qed.

(* what the theorems say about one live frame *)
Definition frame_valid (stk : bool) (s : ost2) (f : ofr) : Prop :=
  0 < of_sz f /\ of_sz f + (if stk then 1 else 0) <= of_room f /\
  match of_blk f with
  | BHeap b => In (b, of_room f) (h_live (o2_hp s))
  | BOwn a => stk = true /\ exists ob, aget (o2_objs s) (of_obj f) = Some ob /\ ob_area ob = a /\ ob_asz ob = of_room f
  | BNull => False
  end.

(* ====================================================================================================
   stack_storage objects sharing one learned-size state *)
Record JS (s : ost2) : Prop := {
  js_heap : heap_ok (o2_hp s);
  js_fr : forall slot f, aget (o2_frs s) slot = Some f ->
          0 < of_sz f /\
          if of_del f then exists b, of_blk f = BHeap b /\ In (b, of_room f) (h_live (o2_hp s)) /\ of_sz f + 1 <= of_room f
          else exists ob, aget (o2_objs s) (of_obj f) = Some ob /\ of_blk f = BOwn (ob_area ob) /\ of_room f = ob_asz ob /\
                          of_sz f + 1 <= ob_asz ob;
  js_dist : forall s1 s2 f1 f2, aget (o2_frs s) s1 = Some f1 -> aget (o2_frs s) s2 = Some f2 ->
            of_del f1 = true -> of_del f2 = true -> of_blk f1 = of_blk f2 -> s1 = s2
}.

Lemma JS_step s o : JS s -> JS (fst (step2 true s o)).
Proof.
  intros [H F D]. unfold step2. destruct (ok2 true s o) eqn:OK; [|cbn [fst]; constructor; assumption].
  destruct o as [a|j|slot j sz|slot|j i|j i|j|]; cbn [ok2 negb andb] in OK; try discriminate; cbn [exec2].
  - (* Init *) cbn [fst]. constructor; cbn [o2_hp o2_frs o2_objs]; assumption.
  - (* New *)
    apply andb_prop in OK. destruct OK as [_ OK]. destruct (aget (o2_objs s) j) eqn:GJ; [discriminate|].
    cbn [fst]. constructor; cbn [o2_hp o2_frs o2_objs]; try assumption.
    intros slot f G. destruct (F _ _ G) as [P R]. split; [exact P|]. destruct (of_del f); [exact R|].
    destruct R as (ob & G1 & R). exists ob. split; [|exact R]. rewrite aget_aput.
    destruct (Nat.eqb_spec (of_obj f) j) as [E|E]; [congruence|exact G1].
  - (* Create *)
    repeat (apply andb_prop in OK; destruct OK as [OK ?]).
    destruct (aget (o2_frs s) slot) eqn:GS; [discriminate|].
    destruct (aget (o2_objs s) j) as [ob|] eqn:GJ; [|discriminate].
    destruct (sz + 1 <=? ob_asz ob) eqn:FIT.
    + cbn [fst]. constructor; cbn [o2_hp o2_frs o2_objs]; try assumption.
      * intros k f. rewrite aget_cons. destruct (Nat.eqb_spec k slot) as [E|E]; [|apply F].
        intros X. inversion X; subst. cbn [of_sz of_del of_obj of_blk of_room]. split; [lia|]. exists ob. repeat split; auto. lia.
      * intros s1 s2 f1 f2. rewrite !aget_cons.
        destruct (Nat.eqb_spec s1 slot); destruct (Nat.eqb_spec s2 slot); intros G1 G2 D1 D2 E; try congruence.
        -- inversion G1; subst. discriminate.
        -- inversion G2; subst. discriminate.
        -- exact (D _ _ _ _ G1 G2 D1 D2 E).
    + unfold hnew. cbn [fst]. constructor; cbn [o2_hp o2_frs o2_objs].
      * exact (hnew_ok (o2_hp s) (sz + 1) H).
      * intros k f. rewrite aget_cons. destruct (Nat.eqb_spec k slot) as [E|E].
        -- intros X. inversion X; subst. cbn [of_sz of_del of_obj of_blk of_room h_live]. split; [lia|].
           exists (h_next (o2_hp s)). repeat split; [apply in_eq|lia].
        -- intros G. destruct (F _ _ G) as [P R]. split; [exact P|]. destruct (of_del f); [|exact R].
           destruct R as (b & E1 & I & L). exists b. repeat split; auto. cbn [h_live]. right. exact I.
      * intros s1 s2 f1 f2. rewrite !aget_cons.
        destruct (Nat.eqb_spec s1 slot); destruct (Nat.eqb_spec s2 slot); intros G1 G2 D1 D2 E; try congruence.
        -- inversion G1; subst. cbn [of_blk] in E. destruct (F _ _ G2) as [_ R]. rewrite D2 in R.
           destruct R as (b & E1 & I & _). rewrite E1 in E. inversion E; subst. pose proof (hk_lt _ H _ _ I). lia.
        -- inversion G2; subst. cbn [of_blk] in E. destruct (F _ _ G1) as [_ R]. rewrite D1 in R.
           destruct R as (b & E1 & I & _). rewrite E1 in E. inversion E; subst. pose proof (hk_lt _ H _ _ I). lia.
        -- exact (D _ _ _ _ G1 G2 D1 D2 E).
  - (* Finish *)
    destruct (aget (o2_frs s) slot) as [f|] eqn:GS; [|discriminate].
    destruct (F _ _ GS) as [P R].
    destruct (of_del f) eqn:DF.
    + destruct R as (b & E1 & I & L). rewrite E1. cbn [hdel_blk fst]. destruct (hdel_live _ _ _ I) as (L1 & _).
      constructor; cbn [o2_hp o2_frs o2_objs].
      * exact (hdel_ok _ _ _ H I).
      * intros k g G. destruct (Nat.eqb_spec k slot) as [E|E]; [subst; rewrite aget_adel_same in G; discriminate|].
        rewrite aget_adel_other in G by exact E. destruct (F _ _ G) as [P' R']. split; [exact P'|].
        destruct (of_del g) eqn:DG; [|exact R']. destruct R' as (b' & E2 & I' & L'). exists b'. repeat split; auto.
        rewrite L1. apply hrem_In; [exact I'|]. intros X. subst b'. apply E. apply (D k slot g f G GS DG DF). congruence.
      * intros s1 s2 f1 f2 G1 G2.
        destruct (Nat.eqb_spec s1 slot) as [X|X]; [subst; rewrite aget_adel_same in G1; discriminate|].
        destruct (Nat.eqb_spec s2 slot) as [Y|Y]; [subst; rewrite aget_adel_same in G2; discriminate|].
        rewrite aget_adel_other in G1, G2 by assumption. exact (D _ _ _ _ G1 G2).
    + cbn [fst]. constructor; cbn [o2_hp o2_frs o2_objs]; try assumption.
      * intros k g G. destruct (Nat.eqb_spec k slot) as [E|E]; [subst; rewrite aget_adel_same in G; discriminate|].
        rewrite aget_adel_other in G by exact E. exact (F _ _ G).
      * intros s1 s2 f1 f2 G1 G2.
        destruct (Nat.eqb_spec s1 slot) as [X|X]; [subst; rewrite aget_adel_same in G1; discriminate|].
        destruct (Nat.eqb_spec s2 slot) as [Y|Y]; [subst; rewrite aget_adel_same in G2; discriminate|].
        rewrite aget_adel_other in G1, G2 by assumption. exact (D _ _ _ _ G1 G2).
  - (* Drop *)
    apply andb_prop in OK. destruct OK as [OK U]. apply negb_true_iff in U.
    destruct (aget (o2_objs s) j) as [ob|] eqn:GJ; [|discriminate].
    cbn [fst]. constructor; cbn [o2_hp o2_frs o2_objs]; try assumption.
    intros slot f G. destruct (F _ _ G) as [P R]. split; [exact P|]. destruct (of_del f); [exact R|].
    destruct R as (ob' & G1 & R). exists ob'. split; [|exact R].
    rewrite aget_adel_other; [exact G1|]. exact (uses_false _ _ _ _ U G).
Qed.

Lemma JS_run : forall l s, JS s -> JS (snd (run2 true s l)).
Proof.
  induction l as [|o l IH]; intros s J; cbn [run2]; [exact J|].
  pose proof (JS_step s o J) as J1. destruct (step2 true s o) as [s1 ob]. cbn [fst] in J1.
  specialize (IH _ J1). destruct (run2 true s1 l) as [obs s2]. exact IH.
Qed.

Lemma JS0 : JS s2_0.
Proof. constructor; cbn; [exact heap0_ok|intros ? ? X; discriminate|intros ? ? ? ? X; discriminate]. Qed.

Lemma stk_valid l slot f : aget (o2_frs (snd (run2 true s2_0 l))) slot = Some f ->
  frame_valid true (snd (run2 true s2_0 l)) f /\ h_bad (o2_hp (snd (run2 true s2_0 l))) = 0.
Proof.
  intros G. destruct (JS_run l s2_0 JS0) as [H F D]. split; [|exact (hk_bad _ H)].
  destruct (F _ _ G) as [P R]. unfold frame_valid. split; [exact P|].
  destruct (of_del f).
  - destruct R as (b & E & I & L). rewrite E. split; [lia|exact I].
  - destruct R as (ob & G1 & E & RM & L). rewrite E. split; [lia|]. split; [reflexivity|]. exists ob. auto.
Qed.

(* ====================================================================================================
   reusable_storage objects that are moved around *)
Record JR (s : ost2) : Prop := {
  jr_heap : heap_ok (o2_hp s);
  jr_obj : forall j ob, aget (o2_objs s) j = Some ob ->
           0 <= ob_cap ob /\ match ob_ptr ob with Some b => In (b, ob_cap ob) (h_live (o2_hp s)) | None => ob_cap ob = 0 end;
  jr_dist : forall j1 j2 o1 o2 b, aget (o2_objs s) j1 = Some o1 -> aget (o2_objs s) j2 = Some o2 ->
            ob_ptr o1 = Some b -> ob_ptr o2 = Some b -> j1 = j2;
  jr_fr : forall slot f, aget (o2_frs s) slot = Some f ->
          of_del f = false /\ 0 < of_sz f /\
          exists ob, aget (o2_objs s) (of_obj f) = Some ob /\ of_blk f = optblk (ob_ptr ob) /\ of_room f = ob_cap ob /\ of_sz f <= ob_cap ob
}.

(* deleting the block of object j leaves the blocks of all other objects alone *)
Lemma others_survive s j oj : JR s -> aget (o2_objs s) j = Some oj ->
  heap_ok (hdel_opt (o2_hp s) (ob_ptr oj)) /\ h_next (hdel_opt (o2_hp s) (ob_ptr oj)) = h_next (o2_hp s) /\
  forall k ok b, k <> j -> aget (o2_objs s) k = Some ok -> ob_ptr ok = Some b ->
    In (b, ob_cap ok) (h_live (hdel_opt (o2_hp s) (ob_ptr oj))).
Proof.
  intros [H O D F] GJ. destruct (O _ _ GJ) as [_ PJ]. unfold hdel_opt.
  destruct (ob_ptr oj) as [bj|] eqn:EJ.
  - destruct (hdel_live _ _ _ PJ) as (L1 & L2 & _). refine (conj (hdel_ok _ _ _ H PJ) (conj L2 _)).
    intros k ok b N GK EK. destruct (O _ _ GK) as [_ PK]. rewrite EK in PK. rewrite L1. apply hrem_In; [exact PK|].
    intros X. subst b. apply N. exact (D _ _ _ _ _ GK GJ EK EJ).
  - refine (conj H (conj eq_refl _)). intros k ok b N GK EK. destruct (O _ _ GK) as [_ PK]. rewrite EK in PK. exact PK.
Qed.

Lemma JR_step s o : JR s -> JR (fst (step2 false s o)).
Proof.
  intros J. pose proof J as [H O D F]. unfold step2. destruct (ok2 false s o) eqn:OK; [|cbn [fst]; exact J].
  destruct o as [a|j|slot j sz|slot|j i|j i|j|]; cbn [ok2 negb andb] in OK; try discriminate; cbn [exec2].
  - cbn [fst]. constructor; cbn [o2_hp o2_frs o2_objs]; assumption.
  - (* New *)
    apply andb_prop in OK. destruct OK as [_ OK]. destruct (aget (o2_objs s) j) eqn:GJ; [discriminate|].
    cbn [fst]. constructor; cbn [o2_hp o2_frs o2_objs]; try assumption.
    + intros k ob. rewrite aget_aput. destruct (Nat.eqb_spec k j); [|apply O]. intros X. inversion X; subst. cbn. split; [lia|reflexivity].
    + intros j1 j2 o1 o2 b. rewrite !aget_aput.
      destruct (Nat.eqb_spec j1 j); destruct (Nat.eqb_spec j2 j); intros G1 G2 E1 E2; try congruence.
      * inversion G1; subst. discriminate.
      * inversion G2; subst. discriminate.
      * exact (D _ _ _ _ _ G1 G2 E1 E2).
    + intros slot f G. destruct (F _ _ G) as (A & B & ob & G1 & R). refine (conj A (conj B _)). exists ob. split; [|exact R].
      rewrite aget_aput. destruct (Nat.eqb_spec (of_obj f) j); [congruence|exact G1].
  - (* Create *)
    repeat (apply andb_prop in OK; destruct OK as [OK ?]).
    destruct (aget (o2_frs s) slot) eqn:GS; [discriminate|].
    destruct (aget (o2_objs s) j) as [ob|] eqn:GJ; [|discriminate].
    match goal with U : negb (uses j (o2_frs s)) = true |- _ => apply negb_true_iff in U; rename U into UJ end.
    destruct (sz >? ob_cap ob) eqn:GR.
    + destruct (others_survive s j ob J GJ) as (HH & NN & SV).
      unfold hnew. rewrite NN. cbn [fst]. constructor; cbn [o2_hp o2_frs o2_objs].
      * pose proof (hnew_ok _ sz HH) as X. unfold hnew in X. cbn [fst] in X. rewrite NN in X. exact X.
      * intros k ok. rewrite aget_aput. destruct (Nat.eqb_spec k j) as [E|E].
        -- intros X. inversion X; subst. cbn [ob_cap ob_ptr h_live]. split; [lia|apply in_eq].
        -- intros GK. destruct (O _ _ GK) as [C PK]. split; [exact C|]. destruct (ob_ptr ok) as [b|] eqn:EK; [|exact PK].
           cbn [h_live]. right. exact (SV _ _ _ E GK EK).
      * intros j1 j2 o1 o2 b. rewrite !aget_aput.
        assert (FRESH : forall k ok, aget (o2_objs s) k = Some ok -> ob_ptr ok = Some (h_next (o2_hp s)) -> False).
        { intros k ok GK EK. destruct (O _ _ GK) as [_ PK]. rewrite EK in PK. pose proof (hk_lt _ H _ _ PK). lia. }
        destruct (Nat.eqb_spec j1 j); destruct (Nat.eqb_spec j2 j); intros G1 G2 E1 E2; try congruence.
        -- inversion G1; subst. cbn [ob_ptr] in E1. inversion E1; subst. exfalso. exact (FRESH _ _ G2 E2).
        -- inversion G2; subst. cbn [ob_ptr] in E2. inversion E2; subst. exfalso. exact (FRESH _ _ G1 E1).
        -- exact (D _ _ _ _ _ G1 G2 E1 E2).
      * intros k f. rewrite aget_cons. destruct (Nat.eqb_spec k slot) as [E|E].
        -- intros X. inversion X; subst. cbn [of_del of_sz of_obj of_blk of_room]. split; [reflexivity|split; [lia|]].
           eexists. rewrite aget_aput, Nat.eqb_refl. split; [reflexivity|]. cbn [ob_ptr ob_cap optblk]. repeat split; lia.
        -- intros G. destruct (F _ _ G) as (A & B & ob' & G1 & R). refine (conj A (conj B _)). exists ob'. split; [|exact R].
           rewrite aget_aput. destruct (Nat.eqb_spec (of_obj f) j) as [X|X]; [|exact G1].
           exfalso. exact (uses_false _ _ _ _ UJ G X).
    + cbn [fst]. constructor; cbn [o2_hp o2_frs o2_objs]; try assumption.
      intros k f. rewrite aget_cons. destruct (Nat.eqb_spec k slot) as [E|E]; [|apply F].
      intros X. inversion X; subst. cbn [of_del of_sz of_obj of_blk of_room]. split; [reflexivity|split; [lia|]].
      exists ob. repeat split; auto. lia.
  - (* Finish *)
    destruct (aget (o2_frs s) slot) as [f|] eqn:GS; [|discriminate].
    destruct (F _ _ GS) as (A & _). rewrite A. cbn [fst]. constructor; cbn [o2_hp o2_frs o2_objs]; try assumption.
    intros k g G. destruct (Nat.eqb_spec k slot) as [E|E]; [subst; rewrite aget_adel_same in G; discriminate|].
    rewrite aget_adel_other in G by exact E. exact (F _ _ G).
  - (* MoveAssign j <- i *)
    repeat (apply andb_prop in OK; destruct OK as [OK ?]).
    destruct (aget (o2_objs s) j) as [oj|] eqn:GJ; [|discriminate].
    destruct (aget (o2_objs s) i) as [oi|] eqn:GI; [|discriminate].
    apply negb_true_iff in OK. apply Nat.eqb_neq in OK.
    repeat match goal with U : negb (uses _ (o2_frs s)) = true |- _ => apply negb_true_iff in U end.
    destruct (others_survive s j oj J GJ) as (HH & NN & SV).
    cbn [fst]. constructor; cbn [o2_hp o2_frs o2_objs].
    + exact HH.
    + intros k ok. rewrite !aget_aput. destruct (Nat.eqb_spec k i) as [E|E].
      * intros X. inversion X; subst. cbn. split; [lia|reflexivity].
      * destruct (Nat.eqb_spec k j) as [E2|E2].
        -- intros X. inversion X; subst. cbn [ob_cap ob_ptr]. destruct (O _ _ GI) as [C PI]. split; [exact C|].
           destruct (ob_ptr oi) as [b|] eqn:EI; [|exact PI]. exact (SV i oi b ltac:(congruence) GI EI).
        -- intros GK. destruct (O _ _ GK) as [C PK]. split; [exact C|]. destruct (ob_ptr ok) as [b|] eqn:EK; [|exact PK].
           exact (SV _ _ _ E2 GK EK).
    + intros j1 j2 o1 o2 b. rewrite !aget_aput.
      assert (VIA : forall k ok, k <> i -> k <> j -> aget (o2_objs s) k = Some ok -> ob_ptr ok = Some b -> ob_ptr oi = Some b -> False).
      { intros k ok N1' N2' GK EK EI. apply N1'. exact (D _ _ _ _ _ GK GI EK EI). }
      destruct (Nat.eqb_spec j1 i) as [A1|A1]; destruct (Nat.eqb_spec j2 i) as [A2|A2]; intros G1 G2 E1 E2; try congruence;
        try (inversion G1; subst; discriminate); try (inversion G2; subst; discriminate).
      destruct (Nat.eqb_spec j1 j) as [B1|B1]; destruct (Nat.eqb_spec j2 j) as [B2|B2]; try congruence.
      * inversion G1; subst. cbn [ob_ptr] in E1. exfalso. exact (VIA _ _ A2 B2 G2 E2 E1).
      * inversion G2; subst. cbn [ob_ptr] in E2. exfalso. exact (VIA _ _ A1 B1 G1 E1 E2).
      * exact (D _ _ _ _ _ G1 G2 E1 E2).
    + intros slot f G. destruct (F _ _ G) as (A & B & ob' & G1 & R). refine (conj A (conj B _)). exists ob'. split; [|exact R].
      rewrite !aget_aput.
      destruct (Nat.eqb_spec (of_obj f) i) as [X|X]; [exfalso; match goal with U : uses i (o2_frs s) = false |- _ => exact (uses_false _ _ _ _ U G X) end|].
      destruct (Nat.eqb_spec (of_obj f) j) as [Y|Y]; [exfalso; match goal with U : uses j (o2_frs s) = false |- _ => exact (uses_false _ _ _ _ U G Y) end|exact G1].
  - (* MoveCtor j <- i, j new *)
    repeat (apply andb_prop in OK; destruct OK as [OK ?]).
    destruct (aget (o2_objs s) j) as [oj|] eqn:GJ; [discriminate|].
    destruct (aget (o2_objs s) i) as [oi|] eqn:GI; [|discriminate].
    repeat match goal with U : negb (uses _ (o2_frs s)) = true |- _ => apply negb_true_iff in U end.
    assert (NE : j <> i) by congruence.
    cbn [fst]. constructor; cbn [o2_hp o2_frs o2_objs].
    + exact H.
    + intros k ok. rewrite !aget_aput. destruct (Nat.eqb_spec k i) as [E|E].
      * intros X. inversion X; subst. cbn. split; [lia|reflexivity].
      * destruct (Nat.eqb_spec k j) as [E2|E2]; [|apply O].
        intros X. inversion X; subst. cbn [ob_cap ob_ptr]. exact (O _ _ GI).
    + intros j1 j2 o1 o2 b. rewrite !aget_aput.
      destruct (Nat.eqb_spec j1 i) as [A1|A1]; destruct (Nat.eqb_spec j2 i) as [A2|A2]; intros G1 G2 E1 E2; try congruence;
        try (inversion G1; subst; discriminate); try (inversion G2; subst; discriminate).
      destruct (Nat.eqb_spec j1 j) as [B1|B1]; destruct (Nat.eqb_spec j2 j) as [B2|B2]; try congruence.
      * inversion G1; subst. cbn [ob_ptr] in E1. exfalso. apply A2. exact (D _ _ _ _ _ G2 GI E2 E1).
      * inversion G2; subst. cbn [ob_ptr] in E2. exfalso. apply A1. exact (D _ _ _ _ _ G1 GI E1 E2).
      * exact (D _ _ _ _ _ G1 G2 E1 E2).
    + intros slot f G. destruct (F _ _ G) as (A & B & ob' & G1 & R). refine (conj A (conj B _)). exists ob'. split; [|exact R].
      rewrite !aget_aput.
      destruct (Nat.eqb_spec (of_obj f) i) as [X|X]; [exfalso; match goal with U : uses i (o2_frs s) = false |- _ => exact (uses_false _ _ _ _ U G X) end|].
      destruct (Nat.eqb_spec (of_obj f) j) as [Y|Y]; [congruence|exact G1].
  - (* Drop *)
    apply andb_prop in OK. destruct OK as [OK U]. apply negb_true_iff in U.
    destruct (aget (o2_objs s) j) as [ob|] eqn:GJ; [|discriminate].
    destruct (others_survive s j ob J GJ) as (HH & NN & SV).
    cbn [fst]. constructor; cbn [o2_hp o2_frs o2_objs].
    + exact HH.
    + intros k ok GK. destruct (Nat.eqb_spec k j) as [E|E]; [subst; rewrite aget_adel_same in GK; discriminate|].
      rewrite aget_adel_other in GK by exact E. destruct (O _ _ GK) as [C PK]. split; [exact C|].
      destruct (ob_ptr ok) as [b|] eqn:EK; [|exact PK]. exact (SV _ _ _ E GK EK).
    + intros j1 j2 o1 o2 b G1 G2.
      destruct (Nat.eqb_spec j1 j) as [X|X]; [subst; rewrite aget_adel_same in G1; discriminate|].
      destruct (Nat.eqb_spec j2 j) as [Y|Y]; [subst; rewrite aget_adel_same in G2; discriminate|].
      rewrite aget_adel_other in G1, G2 by assumption. exact (D _ _ _ _ _ G1 G2).
    + intros slot f G. destruct (F _ _ G) as (A & B & ob' & G1 & R). refine (conj A (conj B _)). exists ob'. split; [|exact R].
      rewrite aget_adel_other; [exact G1|]. exact (uses_false _ _ _ _ U G).
Qed.

Lemma JR_run : forall l s, JR s -> JR (snd (run2 false s l)).
Proof.
  induction l as [|o l IH]; intros s J; cbn [run2]; [exact J|].
  pose proof (JR_step s o J) as J1. destruct (step2 false s o) as [s1 ob]. cbn [fst] in J1.
  specialize (IH _ J1). destruct (run2 false s1 l) as [obs s2]. exact IH.
Qed.

Lemma JR0 : JR s2_0.
Proof.
  constructor; cbn; [exact heap0_ok|intros ? ? X; discriminate|intros ? ? ? ? ? X; discriminate|intros ? ? X; discriminate].
Qed.

Lemma reu_valid l slot f : aget (o2_frs (snd (run2 false s2_0 l))) slot = Some f ->
  frame_valid false (snd (run2 false s2_0 l)) f /\ h_bad (o2_hp (snd (run2 false s2_0 l))) = 0.
Proof.
  intros G. destruct (JR_run l s2_0 JR0) as [H O D F]. split; [|exact (hk_bad _ H)].
  destruct (F _ _ G) as (A & P & ob & G1 & E & RM & L). unfold frame_valid. split; [exact P|]. split; [lia|].
  destruct (O _ _ G1) as [C PK]. rewrite E. destruct (ob_ptr ob) as [b|]; cbn [optblk]; [rewrite RM; exact PK|lia].
Qed.

(* both policies at once *)
Lemma obj_valid stk l slot f : aget (o2_frs (snd (run2 stk s2_0 l))) slot = Some f ->
  frame_valid stk (snd (run2 stk s2_0 l)) f /\ h_bad (o2_hp (snd (run2 stk s2_0 l))) = 0.
Proof. destruct stk; [apply stk_valid|apply reu_valid]. Qed.
