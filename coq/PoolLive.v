(* PoolLive.v — deadlock freedom of the thread-pool model (C11: stop() and the destructor terminate and join all
   workers for every timing, including stop() from a worker): every reachable state in which some thread has
   not finished has an enabled step.  Part of the Pool component's proofs (kept in its own file for build time). *)
From Cocls Require Import Base BaseProofs PoolDefs PoolProofs.
Require Import Lia.
Local Open Scope nat_scope.

Definition awake (p : pc) : bool := match p with WIdle | WSub _ _ | WStop => true | _ => false end.
Definition wpc_ok (p : pc) : bool := match p with WIdle | WSleep | WSub _ _ | WStop => true | _ => false end.
Definition b2n (b : bool) : nat := if b then 1 else 0.

Definition Wake (s : st) : Prop :=
  exit_ s = false -> queue s <> [] -> 0 < tokens s \/ exists i p, T s i = Some p /\ awake p = true.

Record InvC (s : st) : Prop := {
  c_le : tokens s <= sleepers s;
  c_ex : exit_ s = true -> sleepers s <= tokens s;
  c_wake : Wake s;
  c_wpc : exit_ s = false -> forall i p, T s i = Some p -> nclients s <= i -> wpc_ok p = true;
  c_hasw : nclients s < length (thrs s);
  c_uniq : forall i j l q a l' q' a', T s i = Some (Join l q a) -> T s j = Some (Join l' q' a') -> i = j;
  c_jw : forall i l q a w, T s i = Some (Join l q a) -> In w l -> w <> i /\ nclients s <= w < length (thrs s);
  c_thr : forall w, In w (threads s) -> nclients s <= w < length (thrs s)
}.

Lemma filter_set_nth (l : list pc) : forall i p old, nth_error l i = Some old ->
  length (filter is_sleep (set_nth l i p)) + b2n (is_sleep old) = length (filter is_sleep l) + b2n (is_sleep p).
Proof.
  induction l as [|x l IH]; intros [|i] p old H; cbn [nth_error] in H; try discriminate.
  - inversion H; subst. cbn [set_nth filter]. destruct (is_sleep old), (is_sleep p); cbn [length b2n]; lia.
  - cbn [set_nth filter]. specialize (IH i p old H). destruct (is_sleep x); cbn [length]; lia.
Qed.

Lemma sleepers_set s s' i p old : T s i = Some old -> thrs s' = set_nth (thrs s) i p ->
  sleepers s' + b2n (is_sleep old) = sleepers s + b2n (is_sleep p).
Proof. intros H E. unfold sleepers. rewrite E. apply filter_set_nth. exact H. Qed.

Lemma sleepers_pos s i : T s i = Some WSleep -> 1 <= sleepers s.
Proof.
  intros H. unfold sleepers. apply nth_error_In in H.
  assert (X : In WSleep (filter is_sleep (thrs s))) by (apply filter_In; split; [exact H|reflexivity]).
  destruct (filter is_sleep (thrs s)); [contradiction|cbn; lia].
Qed.

Lemma sleepers_zero s i : sleepers s = 0 -> T s i <> Some WSleep.
Proof. intros Z H. pose proof (sleepers_pos s i H). lia. Qed.

Lemma TT_set s s' i p old : T s i = Some old -> thrs s' = set_nth (thrs s) i p ->
  forall j, T s' j = if Nat.eqb i j then Some p else T s j.
Proof.
  intros H Et j. pose proof (T_lt s i old H) as L. unfold T. rewrite Et. destruct (Nat.eqb_spec i j) as [E|E].
  - subst. apply nth_error_set_nth_same. exact L.
  - apply nth_error_set_nth_other. exact E.
Qed.

Lemma invc_frame s s' i p old : InvB s -> InvC s -> T s i = Some old ->
  thrs s' = set_nth (thrs s) i p -> nclients s' = nclients s ->
  tokens s' <= sleepers s' ->
  (exit_ s' = true -> sleepers s' <= tokens s') ->
  Wake s' ->
  (exit_ s' = false -> exit_ s = false /\ (nclients s <= i -> wpc_ok p = true)) ->
  (forall l q a, p = Join l q a ->
     (forall j l' q' a', T s j = Some (Join l' q' a') -> j = i) /\
     (forall w, In w l -> w <> i /\ nclients s <= w < length (thrs s))) ->
  (threads s' = threads s \/ threads s' = []) ->
  InvC s'.
Proof.
  intros B [C1 C2 C3 C4 C5 C6 C7 C8] H Et En F1 F2 F3 F4 F5 F6.
  pose proof (TT_set s s' i p old H Et) as TT.
  assert (LEN : length (thrs s') = length (thrs s)) by (rewrite Et; apply set_nth_length).
  constructor; auto.
  - intros X j pj. rewrite TT, En. destruct (F4 X) as [X0 Xp]. destruct (Nat.eqb_spec i j) as [E|E].
    + intros Q L. inversion Q; subst. apply Xp, L.
    + apply C4, X0.
  - rewrite En, LEN. exact C5.
  - intros j k l q a l' q' a'. rewrite !TT.
    destruct (Nat.eqb_spec i j) as [E1|E1]; destruct (Nat.eqb_spec i k) as [E2|E2]; intros Q1 Q2.
    + congruence.
    + inversion Q1. destruct (F5 _ _ _ H1) as [U _]. symmetry. rewrite <- E1. eapply U, Q2.
    + inversion Q2. destruct (F5 _ _ _ H1) as [U _]. rewrite <- E2. eapply U, Q1.
    + eapply C6; eassumption.
  - intros j l q a w. rewrite TT, En, LEN. destruct (Nat.eqb_spec i j) as [E|E].
    + intros Q Hin. inversion Q. destruct (F5 _ _ _ H1) as [_ V]. subst j. apply V, Hin.
    + apply C7.
  - intros w Hin. rewrite En, LEN. destruct F6 as [F6|F6]; rewrite F6 in Hin; [apply C8, Hin|contradiction].
Qed.

(* ways to re-establish Wake *)
Lemma wake_self s' i p : T s' i = Some p -> awake p = true -> Wake s'.
Proof. intros H A _ _. right. exists i, p. split; assumption. Qed.
Lemma wake_exit s' : exit_ s' = true -> Wake s'.
Proof. intros E X. congruence. Qed.
Lemma wake_empty s' : queue s' = [] -> Wake s'.
Proof. intros E _ X. congruence. Qed.
Lemma wake_keep s s' i p old : Wake s -> T s i = Some old -> thrs s' = set_nth (thrs s) i p ->
  awake old = false \/ awake p = true ->
  exit_ s' = exit_ s -> queue s' = queue s -> tokens s <= tokens s' -> Wake s'.
Proof.
  intros W H Et A Ee Eq Ek X Q. rewrite Ee in X. rewrite Eq in Q. destruct (W X Q) as [Wt|(j & pj & Hj & Aj)].
  - left. lia.
  - right. pose proof (TT_set s s' i p old H Et) as TT. destruct (Nat.eqb_spec i j) as [E|E].
    + subst j. destruct A as [A|A]; [congruence|]. exists i, p. rewrite TT, Nat.eqb_refl. auto.
    + exists j, pj. rewrite TT. apply Nat.eqb_neq in E. rewrite E. auto.
Qed.

Lemma next_client_props i r : is_sleep (next_client i r) = false /\ awake (next_client i r) = false /\
  (forall l q a, next_client i r <> Join l q a) /\ wpc_ok (next_client i r) = false.
Proof. unfold next_client. destruct r; [destruct (Nat.eqb i 0)|]; repeat split; discriminate. Qed.

Lemma client_not_worker s i p : InvB s -> T s i = Some p -> is_client p = true -> ~ nclients s <= i.
Proof. intros B H C. pose proof (b_class s B i p H) as [X _]. specialize (X C). lia. Qed.

(* a thread that neither sleeps before nor after, and changes only its own pc *)
Lemma invc_same s i p old : InvB s -> InvC s -> T s i = Some old ->
  is_sleep old = false -> is_sleep p = false -> (awake old = false \/ awake p = true) ->
  (exit_ s = false -> nclients s <= i -> wpc_ok p = true) ->
  (forall l q a, p = Join l q a -> exists l0, old = Join l0 q a /\ forall w, In w l -> In w l0) ->
  InvC (with_thr s i p).
Proof.
  intros B C H So Sp A Wp J.
  pose proof (sleepers_set s (with_thr s i p) i p old H eq_refl) as SL. rewrite So, Sp in SL. cbn [b2n] in SL.
  apply (invc_frame s _ i p old B C H).
  - reflexivity.
  - reflexivity.
  - change (tokens (with_thr s i p)) with (tokens s). pose proof (c_le s C). lia.
  - change (tokens (with_thr s i p)) with (tokens s). change (exit_ (with_thr s i p)) with (exit_ s).
    intros X. pose proof (c_ex s C X). lia.
  - apply (wake_keep s _ i p old (c_wake s C) H); auto.
  - change (exit_ (with_thr s i p)) with (exit_ s). auto.
  - intros l q a E. destruct (J l q a E) as (l0 & -> & Sub). split.
    + intros j l' q' a' Hj. eapply (c_uniq s C); eassumption.
    + intros w Hin. eapply (c_jw s C); [exact H|apply Sub, Hin].
  - left. reflexivity.
Qed.

Lemma wpc_awake p : wpc_ok p = true -> is_sleep p = false -> awake p = true.
Proof. destruct p; cbn; congruence. Qed.

Lemma some_worker_awake s : InvC s -> exit_ s = false -> sleepers s = 0 ->
  exists w pw, T s w = Some pw /\ nclients s <= w /\ awake pw = true.
Proof.
  intros C X Z. pose proof (c_hasw s C) as HW.
  destruct (nth_error (thrs s) (nclients s)) as [pw|] eqn:E; [|apply nth_error_None in E; lia].
  exists (nclients s), pw. split; [exact E|]. split; [lia|].
  apply wpc_awake; [apply (c_wpc s C X _ _ E); lia|].
  destruct pw; try reflexivity. exfalso. eapply sleepers_zero; eauto.
Qed.

Lemma invc_enqueue s i l k b p old : InvB s -> InvC s -> T s i = Some old ->
  is_sleep old = false -> is_sleep p = false -> (awake old = false \/ awake p = true) ->
  (nclients s <= i -> wpc_ok p = true) -> (forall l0 q a, p <> Join l0 q a) ->
  InvC (with_thr (fst (enqueue s i l k b)) i p).
Proof.
  intros B C H So Sp A Wp NJ.
  pose proof (enqueue_shell s i l k b _ eq_refl) as (hq & he & ht & hk & hd & hn & hth & _).
  set (s1 := fst (enqueue s i l k b)) in *.
  assert (Et : thrs (with_thr s1 i p) = set_nth (thrs s) i p) by (unfold with_thr; cbn [thrs]; rewrite hth; reflexivity).
  pose proof (sleepers_set s (with_thr s1 i p) i p old H Et) as SL. rewrite So, Sp in SL. cbn [b2n] in SL.
  pose proof (c_le s C) as LE.
  apply (invc_frame s _ i p old B C H).
  - exact Et.
  - exact hn.
  - change (tokens (with_thr s1 i p)) with (tokens s1). rewrite hk.
    destruct (exit_ s); [lia|]. destruct (Nat.ltb_spec (tokens s) (sleepers s)); lia.
  - change (tokens (with_thr s1 i p)) with (tokens s1). change (exit_ (with_thr s1 i p)) with (exit_ s1).
    rewrite hk, he. intros X. rewrite X. pose proof (c_ex s C X). lia.
  - intros X Q. change (exit_ (with_thr s1 i p)) with (exit_ s1) in X. rewrite he in X.
    change (tokens (with_thr s1 i p)) with (tokens s1). rewrite hk, X.
    destruct (Nat.ltb_spec (tokens s) (sleepers s)) as [L|L]; [left; lia|].
    destruct (Nat.eq_dec (tokens s) 0) as [Z|Z]; [|left; lia].
    right. destruct (some_worker_awake s C X) as (w & pw & Hw & Lw & Aw); [lia|].
    pose proof (TT_set s (with_thr s1 i p) i p old H Et) as TT.
    destruct (Nat.eqb_spec i w) as [E|E].
    + subst w. exists i, p. rewrite TT, Nat.eqb_refl. split; [reflexivity|]. apply wpc_awake; auto.
    + exists w, pw. rewrite TT. apply Nat.eqb_neq in E. rewrite E. auto.
  - change (exit_ (with_thr s1 i p)) with (exit_ s1). rewrite he. auto.
  - intros l0 q a E. exfalso. eapply NJ, E.
  - left. exact ht.
Qed.

Lemma pc_after_props t a : is_sleep (pc_after t a) = false /\ (forall l q a0, pc_after t a <> Join l q a0).
Proof.
  destruct a as [r| |[|]]; cbn [pc_after]; try (split; [reflexivity|discriminate]).
  destruct (next_client_props t r) as (X & _ & Y & _). auto.
Qed.

Lemma invc_stop_end s s0 i q a old : InvB s -> InvC s -> T s i = Some old -> is_sleep old = false ->
  thrs s0 = thrs s -> nclients s0 = nclients s -> exit_ s0 = true -> tokens s0 <= sleepers s -> sleepers s <= tokens s0 ->
  (threads s0 = threads s \/ threads s0 = []) ->
  InvC (fst (stop_end s0 i q a)).
Proof.
  intros B C H So Et En Ex K1 K2 Th.
  pose proof (stop_end_shell s0 i q a _ eq_refl) as (hq & he & ht & hk & hd & hn & hth & _).
  set (s' := fst (stop_end s0 i q a)) in *.
  destruct (pc_after_props i a) as [Sp NJ].
  assert (Et' : thrs s' = set_nth (thrs s) i (pc_after i a)) by (rewrite hth, Et; reflexivity).
  pose proof (sleepers_set s s' i _ old H Et') as SL. rewrite So, Sp in SL. cbn [b2n] in SL.
  apply (invc_frame s _ i (pc_after i a) old B C H).
  - exact Et'.
  - congruence.
  - rewrite hk. lia.
  - rewrite hk. intros _. lia.
  - apply wake_exit. congruence.
  - rewrite he, Ex. discriminate.
  - intros l0 q0 a0 E. exfalso. eapply NJ, E.
  - rewrite ht. exact Th.
Qed.

Lemma filter_ne_in (t : nat) (l : list nat) w : In w (filter (fun x => negb (Nat.eqb x t)) l) -> w <> t /\ In w l.
Proof.
  intros H. apply filter_In in H. destruct H as [H1 H2]. split; [|exact H1].
  intros ->. rewrite Nat.eqb_refl in H2. discriminate.
Qed.

Lemma invc_stop_mark s i a old : InvB s -> InvC s -> T s i = Some old -> is_sleep old = false ->
  InvC (fst (stop_mark s i a)).
Proof.
  intros B C H So. unfold stop_mark.
  set (s1 := mkSt [] true [] (sleepers s) (destroyed s) (nclients s) (clos s) (thrs s)).
  set (a' := match a with AWorker _ => AWorker (existsb (Nat.eqb i) (threads s)) | _ => a end).
  destruct (filter (fun w => negb (Nat.eqb w i)) (threads s)) as [|w l] eqn:F.
  - apply (invc_stop_end s s1 i (queue s) a' old B C H So); try reflexivity; unfold s1; cbn [tokens threads]; auto.
  - cbn [fst].
    assert (Et : thrs (with_thr s1 i (Join (w :: l) (queue s) a')) = set_nth (thrs s) i (Join (w :: l) (queue s) a')) by reflexivity.
    pose proof (sleepers_set s _ i (Join (w :: l) (queue s) a') old H Et) as SL. rewrite So in SL. cbn [b2n is_sleep] in SL.
    apply (invc_frame s _ i (Join (w :: l) (queue s) a') old B C H).
    + exact Et.
    + reflexivity.
    + change (tokens (with_thr s1 i (Join (w :: l) (queue s) a'))) with (sleepers s). lia.
    + intros _. change (tokens (with_thr s1 i (Join (w :: l) (queue s) a'))) with (sleepers s). lia.
    + apply wake_exit. reflexivity.
    + unfold with_thr, s1. cbn [exit_]. discriminate.
    + intros l0 q0 a0 E. inversion E; subst l0 q0 a0. split.
      * intros j l' q' a'' Hj. exfalso.
        pose proof (b_join s B _ _ _ _ Hj) as X. destruct (b_exit s B X) as [_ Th]. rewrite Th in F. discriminate.
      * intros w0 Hin. rewrite <- F in Hin. apply filter_ne_in in Hin. destruct Hin as [N Hin].
        split; [exact N|apply (c_thr s C), Hin].
    + right. reflexivity.
Qed.

Lemma invc_worker_cs s s0 w old : InvB s -> InvC s -> T s w = Some old ->
  ((old = WIdle /\ tokens s0 = tokens s) \/ (old = WSleep /\ tokens s0 = pred (tokens s) /\ 0 < tokens s)) ->
  clos s0 = clos s -> queue s0 = queue s -> thrs s0 = thrs s -> exit_ s0 = exit_ s -> threads s0 = threads s ->
  nclients s0 = nclients s ->
  InvC (fst (worker_cs s0 w)).
Proof.
  intros B C H OLD Ecl Eq Et Ee Eth En.
  pose proof (c_le s C) as LE.
  assert (SP : is_sleep old = true -> 1 <= sleepers s).
  { intros X. destruct OLD as [[-> _]|[-> _]]; [discriminate|]. eapply sleepers_pos, H. }
  assert (FR : forall p s2, thrs s2 = thrs s0 -> nclients s2 = nclients s0 -> tokens s2 = tokens s0 ->
             exit_ s2 = exit_ s0 -> threads s2 = threads s0 ->
             (forall l q a, p <> Join l q a) ->
             (exit_ s0 = true -> p = WExit) ->
             (exit_ s0 = false -> wpc_ok p = true /\ (awake p = true \/ queue s2 = [])) ->
             (is_sleep p = true -> exit_ s0 = false) ->
             InvC (with_thr s2 w p)).
  { intros p s2 E1 E2 E3 E4 E5 NJ PX PN PS.
    assert (Et2 : thrs (with_thr s2 w p) = set_nth (thrs s) w p) by (unfold with_thr; cbn [thrs]; rewrite E1, Et; reflexivity).
    pose proof (sleepers_set s _ w p old H Et2) as SL.
    assert (TK : tokens (with_thr s2 w p) = tokens s0) by (unfold with_thr; cbn [tokens]; exact E3).
    assert (EX : exit_ (with_thr s2 w p) = exit_ s) by (unfold with_thr; cbn [exit_]; congruence).
    apply (invc_frame s _ w p old B C H).
    - exact Et2.
    - unfold with_thr; cbn [nclients]. congruence.
    - rewrite TK. destruct OLD as [[-> K]|[-> [K P]]]; cbn [is_sleep b2n] in SL.
      + destruct (is_sleep p); cbn [b2n] in SL; lia.
      + pose proof (SP eq_refl). destruct (is_sleep p); cbn [b2n] in SL; lia.
    - rewrite TK, EX. intros X. pose proof (c_ex s C X) as K2. rewrite Ee in PX. pose proof (PX X) as EP. subst p. cbn [is_sleep b2n] in SL.
      destruct OLD as [[-> K]|[-> [K P]]]; cbn [is_sleep b2n] in SL; lia.
    - intros X Q. rewrite EX in X. rewrite Ee in PN. destruct (PN X) as [_ [A|A]].
      + right. exists w, p. split; [|exact A]. rewrite (TT_set s _ w p old H Et2), Nat.eqb_refl. reflexivity.
      + exfalso. apply Q. unfold with_thr. cbn [queue]. exact A.
    - rewrite EX. intros X. split; [exact X|]. intros _. rewrite Ee in PN. apply (PN X).
    - intros l q a E. exfalso. eapply NJ, E.
    - left. unfold with_thr; cbn [threads]. congruence. }
  unfold worker_cs. destruct (exit_ s0) eqn:EX.
  - cbn [fst]. apply FR; auto; try discriminate.
  - destruct (queue s0) as [|c0 r] eqn:QQ.
    + cbn [fst]. apply FR; auto; try discriminate.
    + unfold run_job. replace (clos (with_queue s0 r)) with (clos s0) by reflexivity.
      destruct (nth_error (clos s0) c0) as [x|] eqn:E.
      * cbn [fst]. apply FR.
        -- reflexivity.
        -- reflexivity.
        -- reflexivity.
        -- exact EX.
        -- reflexivity.
        -- intros l q a. destruct (cb x); discriminate.
        -- discriminate.
        -- intros _. destruct (cb x); cbn; auto.
        -- destruct (cb x); discriminate.
      * cbn [fst]. apply FR.
        -- reflexivity.
        -- reflexivity.
        -- reflexivity.
        -- exact EX.
        -- reflexivity.
        -- discriminate.
        -- discriminate.
        -- intros _. cbn. auto.
        -- discriminate.
Qed.

Theorem invc_step s i : InvB s -> InvC s -> enabled s i = true -> InvC (step s i).
Proof.
  intros B C EN. unfold step, tstep. unfold enabled in EN.
  destruct (nth_error (thrs s) i) as [p|] eqn:H; [|discriminate].
  destruct p as [prog| | | | | |l k| | |l q a].
  - assert (NW : ~ nclients s <= i) by (apply (client_not_worker s i _ B H); reflexivity).
    destruct prog as [|[l k b|] r].
    + cbn [fst]. destruct (next_client_props i []) as (X1 & X2 & X3 & X4).
      apply (invc_same s i _ (CAt []) B C H); auto. intros l q a E. exfalso. eapply X3, E.
    + pose proof (invc_enqueue s i l k b (next_client i r) _ B C H) as E.
      destruct (enqueue s i l k b) as [s1 e]. cbn [fst] in *.
      destruct (next_client_props i r) as (X1 & X2 & X3 & X4). apply E; auto; intros; lia.
    + pose proof (invc_stop_mark s i (AClient r) _ B C H) as E.
      destruct (stop_mark s i (AClient r)) as [s1 e]. cbn [fst] in *. apply E. reflexivity.
  - assert (NW : ~ nclients s <= i) by (apply (client_not_worker s i _ B H); reflexivity).
    cbn [fst]. apply (invc_same s i CDtor CXWait B C H); auto; try discriminate; intros; lia.
  - pose proof (invc_stop_mark s i ADtor _ B C H) as E.
    destruct (stop_mark s i ADtor) as [s1 e]. cbn [fst] in *. apply E. reflexivity.
  - discriminate.
  - pose proof (invc_worker_cs s s i WIdle B C H) as E.
    destruct (worker_cs s i) as [s1 e]. cbn [fst] in *. apply E; auto.
  - pose proof (invc_worker_cs s (with_tokens s (pred (tokens s))) i WSleep B C H) as E.
    destruct (worker_cs (with_tokens s (pred (tokens s))) i) as [s1 e]. cbn [fst] in *. apply E; auto.
    right. repeat split. apply Nat.ltb_lt. exact EN.
  - pose proof (invc_enqueue s i l k BNone WIdle _ B C H) as E.
    destruct (enqueue s i l k BNone) as [s1 e]. cbn [fst] in *. apply E; auto; discriminate.
  - pose proof (invc_stop_mark s i (AWorker false) _ B C H) as E.
    destruct (stop_mark s i (AWorker false)) as [s1 e]. cbn [fst] in *. apply E. reflexivity.
  - discriminate.
  - assert (EXT : exit_ s = true) by (eapply (b_join s B); exact H).
    assert (SE : InvC (fst (stop_end s i q a))).
    { apply (invc_stop_end s s i q a _ B C H); auto. - apply (c_le s C). - apply (c_ex s C EXT). }
    destruct l as [|w0 [|w1 l]].
    + destruct (stop_end s i q a) as [s1 e]. exact SE.
    + destruct (stop_end s i q a) as [s1 e]. exact SE.
    + cbn [fst]. apply (invc_same s i _ (Join (w0 :: w1 :: l) q a) B C H); auto.
      * intros X. congruence.
      * intros l0 q0 a0 E. inversion E; subst. exists (w0 :: w1 :: l). split; [reflexivity|]. intros w Hin. right. exact Hin.
Qed.

Lemma init_shape2 ops : exists m cl n, 0 < m /\ 1 <= n /\ length cl = m /\ nclients (init ops) = m /\
  thrs (init ops) = cl ++ repeat WIdle n /\ threads (init ops) = seq m n /\
  queue (init ops) = [] /\ exit_ (init ops) = false /\ tokens (init ops) = 0 /\
  (forall p, In p cl -> exists i r, p = next_client i r).
Proof.
  unfold init. set (d := decode ops). set (m := Nat.min (S (dmax d)) 3).
  exists m, (map (fun ip => next_client (fst ip) (snd ip)) (combine (seq 0 m) (firstn m [dp0 d; dp1 d; dp2 d]))), (Nat.max 1 (dn d)).
  assert (M : 0 < m <= 3) by (unfold m; lia).
  repeat split; try reflexivity; try lia.
  - rewrite map_length, combine_length, seq_length, firstn_length. cbn [length]. lia.
  - intros p Hin. apply in_map_iff in Hin. destruct Hin as ([i r] & <- & _). exists i, r. reflexivity.
Qed.

Lemma invc_init ops : InvC (init ops).
Proof.
  destruct (init_shape2 ops) as (m & cl & n & M & N & LC & NC & TH & THR & Q & EX & TK & SH).
  assert (CLS : forall i p, T (init ops) i = Some p -> (exists j r, p = next_client j r) \/ p = WIdle).
  { intros i p H. unfold T in H. rewrite TH in H. apply nth_error_In, in_app_or in H. destruct H as [H|H].
    - left. apply SH, H.
    - right. apply repeat_spec in H. exact H. }
  assert (NOJ : forall i l q a, T (init ops) i <> Some (Join l q a)).
  { intros i l q a H. destruct (CLS i _ H) as [(j & r & E)|E]; [|discriminate].
    destruct (next_client_props j r) as (_ & _ & X & _). eapply X. symmetry. exact E. }
  constructor.
  - rewrite TK. lia.
  - rewrite EX. discriminate.
  - apply wake_empty. exact Q.
  - intros _ i p H L. unfold T in H. rewrite TH in H. rewrite NC in L.
    rewrite nth_error_app2 in H by lia. apply nth_error_In, repeat_spec in H. subst. reflexivity.
  - rewrite NC, TH, app_length, repeat_length. lia.
  - intros i j l q a l' q' a' H. exfalso. eapply NOJ, H.
  - intros i l q a w H. exfalso. eapply NOJ, H.
  - intros w Hin. rewrite THR in Hin. apply in_seq in Hin. rewrite NC, TH, app_length, repeat_length. lia.
Qed.

Theorem invc_reachable ops s : reachable ops s -> InvC s.
Proof.
  induction 1; [apply invc_init|]. apply invc_step; auto. eapply invb_reachable; eassumption.
Qed.

(* ---------- deadlock freedom ---------- *)
Definition at_point (p : pc) : bool :=
  match p with CAt _ | CDtor | WIdle | WSub _ _ | WStop | Join [] _ _ => true | _ => false end.

Lemma at_point_enabled s i p : T s i = Some p -> at_point p = true -> enabled s i = true.
Proof. unfold T, enabled. intros -> A. destruct p as [| | | | | | | | |[|w l] q a]; try discriminate; reflexivity. Qed.

Lemma existsb_false_all {A} (f : A -> bool) l : (forall x, In x l -> f x = false) -> existsb f l = false.
Proof. induction l as [|x l IH]; intros F; [reflexivity|]. cbn. rewrite F, IH; auto. - intros; apply F; right; auto. - left; auto. Qed.

Lemma sleeper_exists s : 1 <= sleepers s -> exists i, T s i = Some WSleep.
Proof.
  unfold sleepers. intros H. destruct (filter is_sleep (thrs s)) as [|p l] eqn:E; [cbn in H; lia|].
  assert (X : In p (filter is_sleep (thrs s))) by (rewrite E; left; reflexivity).
  apply filter_In in X. destruct X as [X1 X2]. destruct p; try discriminate.
  apply In_nth_error in X1. exact X1.
Qed.

Lemma dec_thr s (f : pc -> bool) :
  (exists i p, T s i = Some p /\ f p = true) \/ (forall i p, T s i = Some p -> f p = false).
Proof.
  destruct (existsb f (thrs s)) eqn:E.
  - left. apply existsb_exists in E. destruct E as (p & Hin & A). apply In_nth_error in Hin. destruct Hin as [i Hi].
    exists i, p. split; assumption.
  - right. intros i p H. destruct (f p) eqn:A; [|reflexivity].
    assert (X : existsb f (thrs s) = true) by (apply existsb_exists; exists p; split; [eapply nth_error_In, H|exact A]).
    congruence.
Qed.

Lemma classic_join s : (exists i w l q a, T s i = Some (Join (w :: l) q a)) \/
                       ~ (exists i w l q a, T s i = Some (Join (w :: l) q a)).
Proof.
  destruct (dec_thr s (fun p => match p with Join (_ :: _) _ _ => true | _ => false end)) as [(i & p & H & A)|N].
  - left. destruct p as [| | | | | | | | |[|w l] q a]; try discriminate. exists i, w, l, q, a. exact H.
  - right. intros (i & w & l & q & a & H). specialize (N i _ H). discriminate.
Qed.
Lemma classic_xw s : (exists i, T s i = Some CXWait) \/ ~ (exists i, T s i = Some CXWait).
Proof.
  destruct (dec_thr s (fun p => match p with CXWait => true | _ => false end)) as [(i & p & H & A)|N].
  - left. destruct p; try discriminate. exists i. exact H.
  - right. intros (i & H). specialize (N i _ H). discriminate.
Qed.
Lemma classic_sl s : (exists i, T s i = Some WSleep) \/ ~ (exists i, T s i = Some WSleep).
Proof.
  destruct (dec_thr s is_sleep) as [(i & p & H & A)|N].
  - left. destruct p; try discriminate. exists i. exact H.
  - right. intros (i & H). specialize (N i _ H). discriminate.
Qed.

Theorem stop_no_deadlock ops s : reachable ops s -> ~ terminal s -> exists i, enabled s i = true.
Proof.
  intros R NT. pose proof (invb_reachable ops s R) as B. pose proof (invc_reachable ops s R) as C.
  (* 1. some thread stands at a lock-acquisition point *)
  destruct (existsb at_point (thrs s)) eqn:AP.
  { apply existsb_exists in AP. destruct AP as (p & Hin & A). apply In_nth_error in Hin. destruct Hin as [i Hi].
    exists i. eapply at_point_enabled; eassumption. }
  assert (NP : forall i p, T s i = Some p -> at_point p = false).
  { intros i p H. destruct (at_point p) eqn:A; [|reflexivity].
    assert (X : existsb at_point (thrs s) = true) by (apply existsb_exists; exists p; split; [eapply nth_error_In, H|exact A]).
    congruence. }
  (* a sleeping worker can always be woken once exit is set *)
  assert (SLEEP_EXIT : exit_ s = true -> forall w, T s w = Some WSleep -> enabled s w = true).
  { intros X w H. unfold enabled. unfold T in H. rewrite H. apply Nat.ltb_lt.
    pose proof (c_ex s C X). pose proof (sleepers_pos s w H). lia. }
  (* 2. a thread is joining *)
  destruct (classic_join s) as [(i & w & l & q & a & H)|NJ].
  { pose proof (b_join s B _ _ _ _ H) as X.
    destruct (c_jw s C i _ q a w H (or_introl eq_refl)) as (NE & L1 & L2).
    destruct (nth_error (thrs s) w) as [pw|] eqn:E; [|apply nth_error_None in E; lia].
    destruct pw as [pr| | | | | |l0 k0| | |l0 q0 a0].
    - exists w. eapply at_point_enabled; [exact E|reflexivity].
    - exfalso. pose proof (b_class s B w CXWait E) as [Y _]. specialize (Y eq_refl). lia.
    - exists w. eapply at_point_enabled; [exact E|reflexivity].
    - exfalso. pose proof (b_class s B w CDone E) as [Y _]. specialize (Y eq_refl). lia.
    - exists w. eapply at_point_enabled; [exact E|reflexivity].
    - exists w. apply SLEEP_EXIT; assumption.
    - exists w. eapply at_point_enabled; [exact E|reflexivity].
    - exists w. eapply at_point_enabled; [exact E|reflexivity].
    - exists i. unfold enabled. unfold T in H. rewrite H. unfold is_wexit. rewrite E. reflexivity.
    - exfalso. apply NE. eapply (c_uniq s C); [exact E|exact H]. }
  (* 3. nobody at a point, nobody joining: only CXWait, CDone, WSleep, WExit are left *)
  assert (CL : forall i p, T s i = Some p -> p = CXWait \/ p = CDone \/ p = WSleep \/ p = WExit).
  { intros i p H. pose proof (NP i p H) as A. destruct p as [| | | | | | | | |[|w l] q a]; try discriminate; auto.
    exfalso. apply NJ. exists i, w, l, q, a. exact H. }
  destruct (classic_xw s) as [(i & H)|NX].
  - (* the destructor's lifetime wait *)
    destruct (queue s) as [|c0 r] eqn:Q.
    + exists i. unfold enabled. unfold T in H. rewrite H. unfold xwait_ok. rewrite Q. cbn [existsb negb andb].
      rewrite !existsb_false_all; [reflexivity| |].
      * intros p Hin. apply In_nth_error in Hin. destruct Hin as [j Hj]. destruct (CL j p Hj) as [->|[->|[->| ->]]]; reflexivity.
      * intros p Hin. apply In_nth_error in Hin. destruct Hin as [j Hj]. destruct (CL j p Hj) as [->|[->|[->| ->]]]; reflexivity.
    + assert (X : exit_ s = false).
      { destruct (exit_ s) eqn:X; [|reflexivity]. destruct (b_exit s B X) as [Y _]. congruence. }
      destruct (c_wake s C X) as [TK|(j & pj & Hj & Aj)]; [rewrite Q; discriminate| |].
      * pose proof (c_le s C). destruct (sleeper_exists s) as [j Hj]; [lia|].
        exists j. unfold enabled. unfold T in Hj. rewrite Hj. apply Nat.ltb_lt. exact TK.
      * exfalso. destruct (CL j pj Hj) as [->|[->|[->| ->]]]; discriminate.
  - (* no CXWait: client 0 is done, so the pool is destroyed and exit is set *)
    assert (D : destroyed s = true).
    { apply (b_done0 s B). pose proof (b_ncl s B) as [N1 N2].
      destruct (nth_error (thrs s) 0) as [p|] eqn:E; [|apply nth_error_None in E; lia].
      pose proof (b_class s B 0 p E) as [_ Y]. specialize (Y N1).
      destruct (CL 0 p E) as [->|[->|[->| ->]]]; try discriminate; [|exact E].
      exfalso. apply NX. exists 0. exact E. }
    pose proof (b_destr s B D) as X.
    destruct (classic_sl s) as [(j & Hj)|NS].
    + exists j. apply SLEEP_EXIT; assumption.
    + exfalso. apply NT. intros i p H. destruct (CL i p H) as [->|[->|[->| ->]]]; auto.
      * exfalso. apply NX. exists i. exact H.
      * exfalso. apply NS. exists i. exact H.
Qed.
