(* PoolLive.v — deadlock freedom of the thread-pool model (C11: stop() and the destructor terminate and join all
   workers for every timing, including stop() from a worker and concurrent stops): every reachable state in which
   some thread has not finished has an enabled step — except when a client thread sits in worker() of an idle pool
   that nobody stops (a deadlock of the client program, not of the pool). *)
From Cocls Require Import Base BaseProofs PoolDefs PoolProofs.
Require Import Lia.
Local Open Scope nat_scope.

Definition awake (p : pc) : bool :=
  match p with WIdle | WSub _ _ _ | WHop _ _ | WPeek _ _ | WStop _ | WQry _ _ | WWait _ _ => true | _ => false end.
Definition wpc_ok (p : pc) : bool := match p with WSleep => true | _ => awake p end.

Definition Wake (s : st) : Prop :=
  exit_ s = false -> queue s <> [] -> 0 < tokens s \/ exists i p, T s i = Some p /\ awake p = true.

Record InvC (s : st) : Prop := {
  c_ex : exit_ s = true -> forall i, T s i = Some WSleep -> is_woken s i = true;
  c_st : stopped s = true -> forall i l q a, T s i = Some (SWait l q a) -> is_woken s i = true;
  c_first : exit_ s = true -> stopped s = false -> exists t p, T s t = Some p /\ stopper p = true;
  c_wake : Wake s;
  c_wpc : exit_ s = false -> forall i p, T s i = Some p -> nclients s <= i -> wpc_ok p = true;
  c_hasw : nclients s < length (thrs s);
  c_jw : forall t l q f a w, T s t = Some (Join l q f a) -> In w l -> poolw s w /\ w <> t;
  c_wk0 : exit_ s = false -> woken s = [];
  c_tokq : exit_ s = false -> Nat.min (length (queue s)) (sleepers s) <= tokens s
}.

Lemma invc_frame s s' i p old : InvC s -> T s i = Some old ->
  thrs s' = set_nth (thrs s) i p -> nclients s' = nclients s ->
  (exit_ s' = true -> (forall j, j <> i -> T s j = Some WSleep -> is_woken s' j = true) /\
                      (p = WSleep -> is_woken s' i = true)) ->
  (stopped s' = true -> (forall j l q a, j <> i -> T s j = Some (SWait l q a) -> is_woken s' j = true) /\
                         (forall l q a, p = SWait l q a -> is_woken s' i = true)) ->
  (exit_ s' = true -> stopped s' = false -> stopper p = true \/ exists t pt, t <> i /\ T s t = Some pt /\ stopper pt = true) ->
  Wake s' ->
  (exit_ s' = false -> exit_ s = false /\ (nclients s <= i -> wpc_ok p = true)) ->
  (forall l q f a w, p = Join l q f a -> In w l -> poolw s w /\ w <> i) ->
  (exit_ s' = false -> woken s' = []) ->
  (exit_ s' = false -> Nat.min (length (queue s')) (sleepers s') <= tokens s') ->
  InvC s'.
Proof.
  intros [C1 C2 C3 C4 C5 C6 C7 C8 C9] H Et En Y1 Y2 Y3 Y4 Y5 Y6 Y7 Y8.
  pose proof (TT_set s s' i p old H Et) as TT.
  assert (LEN : length (thrs s') = length (thrs s)) by (rewrite Et; apply set_nth_length).
  constructor; auto.
  - intros X j. rewrite TT. destruct (Y1 X) as [A Bq]. destruct (Nat.eqb_spec i j) as [E|E].
    + intros Q. inversion Q. subst j. apply Bq. assumption.
    + apply A. auto.
  - intros X j l q a. rewrite TT. destruct (Y2 X) as [A Bq]. destruct (Nat.eqb_spec i j) as [E|E].
    + intros Q. inversion Q. subst j. eapply Bq. eassumption.
    + apply A. auto.
  - intros X Sf. destruct (Y3 X Sf) as [Sp|(t & pt & Nt & Ht & St)].
    + exists i, p. rewrite TT, Nat.eqb_refl. auto.
    + exists t, pt. rewrite TT. assert (Nat.eqb i t = false) by (apply Nat.eqb_neq; auto). rewrite H0. auto.
  - intros X j pj. rewrite TT, En. destruct (Y5 X) as [X0 Xp]. destruct (Nat.eqb_spec i j) as [E|E].
    + intros Q L. inversion Q; subst. apply Xp, L.
    + apply C5, X0.
  - rewrite En, LEN. exact C6.
  - intros t l q f a w. rewrite TT. unfold poolw. rewrite En, LEN. destruct (Nat.eqb_spec i t) as [E|E].
    + intros Q Hin. inversion Q. subst t. eapply Y6; eassumption.
    + apply C7.
Qed.

Definition b2n (b : bool) : nat := if b then 1 else 0.
Lemma filter_set_nth (l : list pc) : forall i p old, nth_error l i = Some old ->
  length (filter is_sleep (set_nth l i p)) + b2n (is_sleep old) = length (filter is_sleep l) + b2n (is_sleep p).
Proof.
  induction l as [|x l IH]; intros [|i] p old H; cbn [nth_error] in H; try discriminate.
  - inversion H; subst. cbn [set_nth filter]. destruct (is_sleep old), (is_sleep p); cbn [length b2n]; lia.
  - cbn [set_nth filter]. specialize (IH i p old H). destruct (is_sleep x); cbn [length]; lia.
Qed.
Lemma sleepers_set s s' i p old : T s i = Some old -> thrs s' = set_nth (thrs s) i p ->
  sleepers s' + b2n (is_sleep old) = sleepers s + b2n (is_sleep p).
Proof. intros H E. unfold sleepers. rewrite E. apply filter_set_nth. exact H. Qed.

(* ways to re-establish Wake *)
Lemma wake_self s' i p : T s' i = Some p -> awake p = true -> Wake s'.
Proof. intros H A _ _. right. exists i, p. split; assumption. Qed.
Lemma wake_exit s' : exit_ s' = true -> Wake s'.
Proof. intros E X. congruence. Qed.
Lemma wake_empty s' : queue s' = [] -> Wake s'.
Proof. intros E _ X. congruence. Qed.
Lemma wake_keep s s' i p old : Wake s -> T s i = Some old -> thrs s' = set_nth (thrs s) i p ->
  awake old = false \/ awake p = true ->
  exit_ s' = exit_ s -> queue s' = queue s -> tokens s <= tokens s' -> Wake s'.
Proof.
  intros W H Et A Ee Eq Ek X Q. rewrite Ee in X. rewrite Eq in Q. destruct (W X Q) as [Wt|(j & pj & Hj & Aj)].
  - left. lia.
  - right. pose proof (TT_set s s' i p old H Et) as TT. destruct (Nat.eqb_spec i j) as [E|E].
    + subst j. destruct A as [A|A]; [unfold T in *; congruence|]. exists i, p. rewrite TT, Nat.eqb_refl. auto.
    + exists j, pj. rewrite TT. apply Nat.eqb_neq in E. rewrite E. auto.
Qed.

(* flags of other threads survive a wake-up of thread i *)
Lemma is_woken_wake s i j : j <> i -> is_woken (wake s i) j = is_woken s j.
Proof.
  intros N. unfold wake. destruct (is_woken s i); [|reflexivity].
  unfold is_woken, with_woken. cbn [woken].
  induction (woken s) as [|x l IH]; [reflexivity|]. cbn [filter existsb].
  destruct (Nat.eqb_spec x i) as [E|E]; cbn [negb].
  - subst x. assert (Nat.eqb j i = false) by (apply Nat.eqb_neq; auto). rewrite H. cbn. exact IH.
  - cbn [existsb]. rewrite IH. reflexivity.
Qed.

(* notify_all flags every thread that sleeps *)
Lemma sleeper_ids_in s j p : T s j = Some p -> is_sleep p = true -> existsb (Nat.eqb j) (sleeper_ids s) = true.
Proof.
  intros H S. apply existsb_exists. exists j. split; [|apply Nat.eqb_refl].
  unfold sleeper_ids. apply filter_In. split.
  - apply in_seq. pose proof (T_lt s j p H). lia.
  - unfold sleeps. unfold T in H. rewrite H. exact S.
Qed.

Lemma sleepers_pos s i p : T s i = Some p -> is_sleep p = true -> 1 <= sleepers s.
Proof.
  intros H S. unfold sleepers. apply nth_error_In in H.
  assert (X : In p (filter is_sleep (thrs s))) by (apply filter_In; split; assumption).
  destruct (filter is_sleep (thrs s)); [contradiction|cbn; lia].
Qed.

Lemma wpc_awake p : wpc_ok p = true -> p <> WSleep -> awake p = true.
Proof. destruct p; cbn; try congruence; intros _ X; exfalso; apply X; reflexivity. Qed.

Lemma some_worker_awake s : InvC s -> exit_ s = false -> sleepers s = 0 ->
  exists w pw, T s w = Some pw /\ nclients s <= w /\ awake pw = true.
Proof.
  intros C X Z. pose proof (c_hasw s C) as HW.
  destruct (nth_error (thrs s) (nclients s)) as [pw|] eqn:E; [|apply nth_error_None in E; lia].
  exists (nclients s), pw. split; [exact E|]. split; [lia|].
  apply wpc_awake; [apply (c_wpc s C X _ _ E); lia|].
  intros ->. pose proof (sleepers_pos s _ _ E eq_refl). lia.
Qed.

(* a thread moves between pcs that do not sleep; flags, tokens and queue stay *)
Lemma invc_move s i p old : InvC s -> T s i = Some old -> is_sleep old = false ->
  is_sleep p = false -> (awake old = false \/ awake p = true) ->
  (exit_ s = false -> nclients s <= i -> wpc_ok p = true) ->
  (stopper old = true -> stopper p = true) ->
  (forall l q f a w, p = Join l q f a -> In w l -> exists l0, old = Join l0 q f a /\ In w l0) ->
  InvC (with_thr s i p).
Proof.
  intros C H So Sp A Wp St J.
  set (s' := with_thr s i p).
  pose proof (sleepers_set s s' i p old H eq_refl) as SL. rewrite So, Sp in SL. cbn [b2n] in SL.
  assert (W' : forall j, is_woken s' j = is_woken s j) by reflexivity.
  apply (invc_frame s s' i p old C H); try reflexivity.
  - change (exit_ s') with (exit_ s). intros X. split; [intros j _; rewrite W'; apply (c_ex s C X)|]. intros ->. discriminate.
  - change (stopped s') with (stopped s). intros X. split; [intros j l q a _; rewrite W'; apply (c_st s C X)|]. intros l q a ->. discriminate.
  - change (exit_ s') with (exit_ s). change (stopped s') with (stopped s).
    intros X Sf. destruct (c_first s C X Sf) as (t & pt & Ht & Spt). destruct (Nat.eq_dec t i) as [->|N].
    + left. apply St. unfold T in *. congruence.
    + right. exists t, pt. auto.
  - apply (wake_keep s s' i p old (c_wake s C) H); auto.
  - change (exit_ s') with (exit_ s). auto.
  - intros l q f a w E Hin. destruct (J l q f a w E Hin) as (l0 & -> & I0). eapply (c_jw s C); eassumption.
  - apply (c_wk0 s C).
  - change (exit_ s') with (exit_ s). change (queue s') with (queue s). change (tokens s') with (tokens s).
    intros X. pose proof (c_tokq s C X). lia.
Qed.

Lemma invc_enqueue s i l k b p old : InvB s -> InvC s -> T s i = Some old ->
  is_sleep old = false -> is_sleep p = false -> (awake old = false \/ awake p = true) ->
  (nclients s <= i -> wpc_ok p = true) -> stopper p = false -> stopper old = false ->
  InvC (with_thr (fst (enqueue s i l k b)) i p).
Proof.
  intros B C H So Sp A Wp NSp NSo.
  destruct (enqueue_shell s i l k b _ eq_refl) as (hq & he & hs & ht & hk & hw & hd & hn & hth & hc & hx & hu & _).
  set (s1 := fst (enqueue s i l k b)) in *.
  set (s' := with_thr s1 i p).
  assert (Et : thrs s' = set_nth (thrs s) i p) by (unfold s', with_thr; cbn [thrs]; rewrite hth; reflexivity).
  assert (E1 : exit_ s' = exit_ s) by exact he.
  assert (E2 : stopped s' = stopped s) by exact hs.
  assert (E3 : forall j, is_woken s' j = is_woken s j) by (intros j; unfold is_woken, s', with_thr; cbn [woken]; rewrite hw; reflexivity).
  assert (E4 : woken s' = woken s) by exact hw.
  assert (E5 : tokens s' = tokens s1) by reflexivity.
  assert (E6 : queue s' = queue s1) by reflexivity.
  apply (invc_frame s s' i p old C H Et).
  - exact hn.
  - rewrite E1. intros X. split; [intros j _; rewrite E3; apply (c_ex s C X)|]. intros ->. discriminate.
  - rewrite E2. intros X. split; [intros j l0 q a _; rewrite E3; apply (c_st s C X)|]. intros l0 q a ->. discriminate.
  - rewrite E1, E2. intros X Sf. destruct (c_first s C X Sf) as (t & pt & Ht & Spt). right. exists t, pt.
    repeat split; auto. intros ->. unfold T in *. congruence.
  - destruct (throws k) eqn:TK.
    { apply (wake_keep s s' i p old (c_wake s C) H Et A E1).
      - rewrite E6, hq, Bool.orb_true_r. reflexivity.
      - rewrite E5, hk, Bool.orb_true_r. lia. }
    intros X Q. rewrite E1 in X. rewrite E5, hk, X, (c_wk0 s C X). cbn [length orb]. rewrite Nat.add_0_r.
    destruct (Nat.ltb_spec (tokens s) (sleepers s)) as [L|L]; [left; lia|].
    destruct (Nat.eq_dec (tokens s) 0) as [Z|Z]; [|left; lia].
    right. destruct (some_worker_awake s C X) as (w & pw & Hw & Lw & Aw); [lia|].
    pose proof (TT_set s s' i p old H Et) as TT.
    destruct (Nat.eqb_spec i w) as [E|E].
    + subst w. exists i, p. rewrite TT, Nat.eqb_refl. split; [reflexivity|]. apply wpc_awake; auto. intros ->. discriminate.
    + exists w, pw. rewrite TT. apply Nat.eqb_neq in E. rewrite E. auto.
  - rewrite E1. auto.
  - intros l0 q f a w E. subst p. discriminate.
  - rewrite E1, E4. apply (c_wk0 s C).
  - rewrite E1, E5, E6, hq, hk. intros X. rewrite X, (c_wk0 s C X). cbn [length orb]. rewrite Nat.add_0_r.
    pose proof (sleepers_set s s' i p old H Et) as SL. rewrite So, Sp in SL. cbn [b2n] in SL.
    pose proof (c_tokq s C X) as TQ. destruct (throws k); [lia|]. rewrite app_length. cbn [length].
    destruct (Nat.ltb_spec (tokens s) (sleepers s)); lia.
Qed.

Lemma fin_pc_props t first a : is_sleep (fin_pc t first a) = false /\ (first = true -> stopper (fin_pc t first a) = true) /\
  (forall l q f a0, fin_pc t first a <> Join l q f a0).
Proof.
  destruct first; cbn [fin_pc].
  - repeat split; auto. discriminate.
  - pose proof (pc_after_plain t a) as X. repeat split.
    + destruct a as [r| |[|] r]; cbn [pc_after]; try reflexivity.
      * unfold next_client. destruct r; [destruct (Nat.eqb t 0)|]; reflexivity.
      * destruct r as [|[] r]; reflexivity.
    + discriminate.
    + intros l q f a0 E. rewrite E in X. discriminate.
Qed.

(* the join loop of a stop(): from the state s0 right after the critical section / wake-up *)
Lemma invc_aw s s0 t l q first a old : InvC s -> T s t = Some old ->
  thrs s0 = thrs s -> nclients s0 = nclients s -> exit_ s0 = true ->
  (forall j p, j <> t -> T s j = Some p -> is_sleep p = true -> (p = WSleep \/ stopped s0 = true) -> existsb (Nat.eqb j) (woken s0) = true) ->
  (stopped s0 = false -> first = true \/ (l = [] /\ exists t' pt, t' <> t /\ T s t' = Some pt /\ stopper pt = true)) ->
  (forall w, In w l -> poolw s w /\ w <> t) ->
  InvC (fst (after_wait s0 t l q first a)).
Proof.
  intros C H Et En EX HW HF HJ.
  destruct (after_wait_shell s0 t l q first a _ eq_refl) as (E & K & Q & D & Th).
  set (s' := fst (after_wait s0 t l q first a)) in *.
  destruct E as (e1 & e2 & e3 & e4 & e5 & e6 & e7 & e8 & e9).
  set (p := match l with [] => fin_pc t first a | _ => Join l q first a end) in *.
  destruct (fin_pc_props t first a) as (F1 & F2 & F3).
  assert (SL : is_sleep p = false) by (unfold p; destruct l; [exact F1|reflexivity]).
  assert (Et' : thrs s' = set_nth (thrs s) t p) by (rewrite Th, Et; reflexivity).
  apply (invc_frame s s' t p old C H Et').
  - congruence.
  - intros _. split.
    + intros j Nj Hj. unfold is_woken. rewrite e5. apply (HW j WSleep Nj Hj); auto.
    + intros ->. discriminate.
  - rewrite e2. intros ST. split.
    + intros j l0 q0 a0 Nj Hj. unfold is_woken. rewrite e5. apply (HW j _ Nj Hj); auto.
    + intros l0 q0 a0 ->. discriminate.
  - rewrite e2. intros _ ST. destruct (HF ST) as [->|(-> & t' & pt & N & Ht & Sp)].
    + left. unfold p. destruct l; [apply F2; reflexivity|reflexivity].
    + right. exists t', pt. auto.
  - apply wake_exit. congruence.
  - rewrite e1, EX. discriminate.
  - intros l0 q0 f0 a0 w E0. unfold p in E0. destruct l as [|w0 l]; [exfalso; eapply F3, E0|].
    inversion E0; subst. apply HJ.
  - rewrite e1, EX. discriminate.
  - rewrite e1, EX. discriminate.
Qed.

Lemma returned_as_aw s0 t a : fst (returned s0 t a) = fst (after_wait s0 t [] [] false a).
Proof. unfold after_wait, stop_end, drop_all. cbn [fold_left]. destruct (returned s0 t a). reflexivity. Qed.

Lemma invc_stop_mark s t a old : InvB s -> InvC s -> T s t = Some old -> stopper old = false -> is_sleep old = false ->
  InvC (fst (stop_mark s t a)).
Proof.
  intros B C H NSo So. unfold stop_mark.
  set (s1 := marked s (sleeper_ids s)).
  set (a' := match a with AWorker _ r => AWorker (existsb (Nat.eqb t) (threads s)) r | _ => a end).
  set (l := filter (fun w => negb (Nat.eqb w t)) (threads s)).
  assert (HW : forall j p, j <> t -> T s j = Some p -> is_sleep p = true -> (p = WSleep \/ stopped s1 = true) ->
               existsb (Nat.eqb j) (woken s1) = true).
  { intros j p _ Hj S _. apply (sleeper_ids_in s j p Hj S). }
  assert (OTHER : exit_ s = true -> stopped s = false -> exists t' pt, t' <> t /\ T s t' = Some pt /\ stopper pt = true).
  { intros X Sf. destruct (c_first s C X Sf) as (t' & pt & Ht & Sp). exists t', pt. repeat split; auto.
    intros ->. unfold T in *. congruence. }
  destruct (negb (negb (exit_ s)) && negb (is_cur a) && negb (stopped s)) eqn:COND.
  - apply andb_prop in COND. destruct COND as [COND C3]. apply andb_prop in COND. destruct COND as [C1 C2].
    assert (X : exit_ s = true) by (destruct (exit_ s); [reflexivity|discriminate]).
    assert (Sf : stopped s = false) by (destruct (stopped s); [discriminate|reflexivity]).
    cbn [fst]. set (s' := with_thr s1 t (SWait l (queue s) a')).
    apply (invc_frame s s' t (SWait l (queue s) a') old C H); try reflexivity.
    + intros _. split; [|discriminate]. intros j Nj Hj. apply (HW j WSleep Nj Hj); auto.
    + unfold s', with_thr, s1, marked. cbn [stopped]. rewrite Sf. discriminate.
    + intros _ _. right. apply OTHER; assumption.
    + apply wake_exit. reflexivity.
    + discriminate.
    + intros l0 q0 f0 a0 w E0. discriminate.
    + discriminate.
  - apply (invc_aw s s1 t l (queue s) (negb (exit_ s)) a' old C H); try reflexivity.
    + exact HW.
    + intros Sf. change (stopped s1) with (stopped s) in Sf. destruct (exit_ s) eqn:X; [|left; reflexivity].
      right. destruct (b_exit s B X) as [_ Th]. split; [unfold l; rewrite Th; reflexivity|]. apply OTHER; auto.
    + intros w Hin. apply filter_ne_in in Hin. destruct Hin as [N Hin]. split; [apply (b_thr s B w Hin)|exact N].
Qed.

Lemma invc_worker_cs s s0 w old : InvC s -> T s w = Some old -> stopper old = false ->
  thrs s0 = thrs s -> nclients s0 = nclients s -> exit_ s0 = exit_ s -> stopped s0 = stopped s -> queue s0 = queue s ->
  (forall j, j <> w -> is_woken s0 j = is_woken s j) -> (exit_ s0 = false -> woken s0 = []) ->
  (exit_ s0 = false -> (is_sleep old = false /\ tokens s0 = tokens s) \/ (is_sleep old = true /\ S (tokens s0) = tokens s)) ->
  InvC (fst (worker_cs s0 w)).
Proof.
  intros C H NSo Et En Ee Es Eq Ew Ew0 HT.
  assert (FR : forall p s2, thrs s2 = thrs s0 -> nclients s2 = nclients s0 -> exit_ s2 = exit_ s0 ->
             stopped s2 = stopped s0 -> woken s2 = woken s0 -> stopper p = false ->
             (forall l q a, p <> SWait l q a) ->
             (exit_ s0 = true -> p <> WSleep) ->
             (exit_ s0 = false -> wpc_ok p = true /\ (awake p = true \/ queue s2 = [])) ->
             tokens s2 = tokens s0 ->
             (exit_ s0 = false -> queue s2 = [] \/ (is_sleep p = false /\ S (length (queue s2)) = length (queue s))) ->
             InvC (with_thr s2 w p)).
  { intros p s2 E1 E2 E3 E4 E5 NSp NSW PX PN E6 PQ.
    set (s' := with_thr s2 w p).
    assert (Et2 : thrs s' = set_nth (thrs s) w p) by (unfold s', with_thr; cbn [thrs]; rewrite E1, Et; reflexivity).
    assert (W' : forall j, is_woken s' j = is_woken s0 j) by (intros j; unfold is_woken, s', with_thr; cbn [woken]; rewrite E5; reflexivity).
    apply (invc_frame s s' w p old C H Et2).
    - unfold s', with_thr; cbn [nclients]. congruence.
    - change (exit_ s') with (exit_ s2). rewrite E3. intros X. split.
      + intros j Nj Hj. rewrite W', Ew by exact Nj. apply (c_ex s C); [congruence|exact Hj].
      + intros Q. exfalso. apply (PX X Q).
    - change (stopped s') with (stopped s2). rewrite E4, Es. intros X. split.
      + intros j l q a Nj Hj. rewrite W', Ew by exact Nj. apply (c_st s C X j l q a Hj).
      + intros l q a Q. exfalso. apply (NSW l q a Q).
    - change (exit_ s') with (exit_ s2). change (stopped s') with (stopped s2). rewrite E3, E4, Ee, Es. intros X Sf.
      destruct (c_first s C X Sf) as (t & pt & Ht & Sp). right. exists t, pt. repeat split; auto.
      intros ->. unfold T in *. congruence.
    - intros X Q. change (exit_ s') with (exit_ s2) in X. rewrite E3 in X. destruct (PN X) as [_ [A|A]].
      + right. exists w, p. split; [|exact A]. rewrite (TT_set s s' w p old H Et2), Nat.eqb_refl. reflexivity.
      + exfalso. apply Q. exact A.
    - change (exit_ s') with (exit_ s2). rewrite E3. intros X. split; [congruence|]. intros _. apply (PN X).
    - intros l q f a w0 E. subst p. discriminate.
    - change (exit_ s') with (exit_ s2). change (woken s') with (woken s2). rewrite E3, E5. exact Ew0.
    - change (exit_ s') with (exit_ s2). change (queue s') with (queue s2). change (tokens s') with (tokens s2).
      rewrite E3, E6. intros X. destruct (PQ X) as [Q0|[Sp Q1]]; [rewrite Q0; cbn [length]; lia|].
      pose proof (sleepers_set s s' w p old H Et2) as SL. rewrite Sp in SL. cbn [b2n] in SL.
      assert (X0 : exit_ s = false) by congruence. pose proof (c_tokq s C X0) as TQ.
      destruct (HT X) as [[So Tk]|[So Tk]]; rewrite So in SL; cbn [b2n] in SL; lia. }
  unfold worker_cs. destruct (exit_ s0) eqn:EX.
  - cbn [fst]. destruct (exit_pc_dtor s0 w) as (X1 & _).
    apply FR; auto; try discriminate.
    + intros l q a E. unfold exit_pc in E. destruct (Nat.ltb w (nclients s0)); [|discriminate].
      destruct (next_client_plain w (nth w (cont s0) [])) as (Y & _). rewrite E in Y. discriminate.
    + intros _ E. unfold exit_pc in E. destruct (Nat.ltb w (nclients s0)); [|discriminate].
      unfold next_client in E. destruct (nth w (cont s0) []); [destruct (Nat.eqb w 0)|]; discriminate.
  - destruct (queue s0) as [|c0 r] eqn:QQ.
    + cbn [fst]. apply FR; auto; try discriminate.
    + unfold run_job. destruct (nth_error (clos (with_queue s0 r)) c0) as [x|].
      * cbn [fst]. assert (A : awake (job_next (cb x)) = true) by (destruct (cb x) as [|[] ?]; reflexivity).
        apply FR; try reflexivity; try discriminate; try exact EX.
        -- destruct (job_next_dtor (cb x)); auto.
        -- intros l q a E. rewrite E in A. discriminate.
        -- intros _. split; [unfold wpc_ok; destruct (job_next (cb x)); auto|left; exact A].
        -- intros _. right. split; [destruct (cb x) as [|[] ?]; reflexivity|]. rewrite <- Eq. reflexivity.
      * cbn [fst]. apply FR; try reflexivity; try discriminate; try exact EX.
        -- intros _. split; [reflexivity|left; reflexivity].
        -- intros _. right. split; [reflexivity|]. rewrite <- Eq. reflexivity.
Qed.

Lemma invc_wake_same s i : InvC s -> (exists p, T s i = Some p /\ is_sleep p = true /\ p <> WSleep) ->
  stopped s = false -> exit_ s = true -> InvC (wake s i).
Proof.
  intros C (p & H & S & NW) Sf X.
  assert (TH : thrs (wake s i) = thrs s) by (unfold wake; destruct (is_woken s i); reflexivity).
  assert (EXq : exit_ (wake s i) = exit_ s) by (unfold wake; destruct (is_woken s i); reflexivity).
  assert (STq : stopped (wake s i) = stopped s) by (unfold wake; destruct (is_woken s i); reflexivity).
  assert (NC : nclients (wake s i) = nclients s) by (unfold wake; destruct (is_woken s i); reflexivity).
  assert (TT : forall j, T (wake s i) j = T s j) by (intros j; unfold T; rewrite TH; reflexivity).
  destruct C as [C1 C2 C3 C4 C5 C6 C7 C8 C9].
  constructor.
  - intros _ j Hj. rewrite TT in Hj. rewrite is_woken_wake; [apply C1; auto|].
    intros ->. unfold T in *. rewrite H in Hj. inversion Hj. subst p. apply NW. reflexivity.
  - rewrite STq, Sf. discriminate.
  - rewrite EXq, STq. intros A Bq. destruct (C3 A Bq) as (t & pt & Ht & Sp). exists t, pt. rewrite TT. auto.
  - apply wake_exit. congruence.
  - rewrite EXq, X. discriminate.
  - rewrite NC. unfold wake. destruct (is_woken s i); exact C6.
  - intros t l q f a w. rewrite TT. unfold poolw. rewrite NC, TH. apply C7.
  - rewrite EXq, X. discriminate.
  - rewrite EXq, X. discriminate.
Qed.

Theorem invc_core s i : InvB s -> InvC s -> enabled s i = true -> InvC (cstep s i).
Proof.
  intros B C EN. unfold cstep, core. unfold enabled in EN.
  destruct (nth_error (thrs s) i) as [p|] eqn:H; [|discriminate].
  assert (HT : T s i = Some p) by exact H.
  pose proof (b_class s B i p HT) as [CL1 CL2].
  destruct p as [prog| | | | | |l k r|l r|l r|r|q r|wl r| |l q f a|l q a|a].
  - assert (NW : ~ nclients s <= i).
    { intros L. specialize (CL1 L). discriminate. }
    destruct prog as [|[l k b| | |wl] r].
    + cbn [fst]. destruct (next_client_plain i []) as (X1 & _).
      apply (invc_move s i _ (CAt []) C HT); auto; try (intros; lia); try discriminate.
      * unfold next_client. destruct (Nat.eqb i 0); reflexivity.
      * intros l q f a w E. rewrite E in X1. discriminate.
    + pose proof (invc_enqueue s i l k b (next_client i r) _ B C HT) as E.
      destruct (enqueue s i l k b) as [s1 e]. cbn [fst] in *. destruct (next_client_dtor i r) as (X1 & _).
      apply E; auto; try (intros; lia). unfold next_client. destruct r; [destruct (Nat.eqb i 0)|]; reflexivity.
    + pose proof (invc_stop_mark s i (AClient r) _ B C HT) as E.
      destruct (stop_mark s i (AClient r)) as [s1 e]. cbn [fst] in *. apply E; reflexivity.
    + pose proof (invc_worker_cs s (with_ext s i r) i _ C HT) as E.
      destruct (worker_cs (with_ext s i r) i) as [s1 e]. cbn [fst] in *. apply E; auto. apply (c_wk0 s C).
    + cbn [fst]. destruct (next_client_plain i r) as (X1 & _).
      apply (invc_move s i _ (CAt (OWait wl :: r)) C HT); auto; try (intros; lia); try discriminate.
      * unfold next_client. destruct r; [destruct (Nat.eqb i 0)|]; reflexivity.
      * intros l q f a w E. rewrite E in X1. discriminate.
  - cbn [fst]. apply (invc_move s i CDtor CXWait C HT); auto; try discriminate.
    intros _ L. specialize (CL1 L). discriminate.
  - pose proof (invc_stop_mark s i ADtor _ B C HT) as E.
    destruct (stop_mark s i ADtor) as [s1 e]. cbn [fst] in *. apply E; reflexivity.
  - discriminate.
  - pose proof (invc_worker_cs s s i _ C HT) as E.
    destruct (worker_cs s i) as [s1 e]. cbn [fst] in *. apply E; auto. apply (c_wk0 s C).
  - pose proof (invc_worker_cs s (wake s i) i _ C HT) as E.
    destruct (worker_cs (wake s i) i) as [s1 e]. cbn [fst] in *.
    apply E; auto; try (unfold wake; destruct (is_woken s i); reflexivity).
    + intros j Nj. apply is_woken_wake, Nj.
    + intros X. assert (X0 : exit_ s = false) by (unfold wake in X; destruct (is_woken s i); exact X).
      pose proof (c_wk0 s C X0) as W0. unfold wake, is_woken. rewrite W0. cbn [existsb]. exact W0.
    + intros X. right. split; [reflexivity|].
      assert (X0 : exit_ s = false) by (unfold wake in X; destruct (is_woken s i); exact X).
      pose proof (c_wk0 s C X0) as W0. unfold wake, is_woken. rewrite W0. cbn [existsb with_tokens tokens].
      unfold is_woken in EN. rewrite W0 in EN. cbn [existsb] in EN. rewrite Bool.orb_false_r in EN. apply Nat.ltb_lt in EN. lia.
  - pose proof (invc_enqueue s i l k [] (job_next r) _ B C HT) as E.
    destruct (enqueue s i l k []) as [s1 e]. cbn [fst] in *. destruct (job_next_dtor r) as (X1 & _).
    assert (A : awake (job_next r) = true) by (destruct r as [|[] ?]; reflexivity).
    apply E; auto.
    + destruct r as [|[] ?]; reflexivity.
    + intros _. destruct r as [|[] ?]; reflexivity.
  - pose proof (invc_enqueue s i l KHop r WIdle _ B C HT) as E.
    destruct (enqueue s i l KHop r) as [s1 e]. cbn [fst] in *. apply E; auto.
  - cbn [fst]. assert (A : awake (job_next r) = true) by (destruct r as [|[] ?]; reflexivity).
    assert (W : wpc_ok (job_next r) = true) by (destruct r as [|[] ?]; reflexivity).
    assert (S : is_sleep (job_next r) = false) by (destruct r as [|[] ?]; reflexivity).
    assert (NJ : forall l0 q f a, job_next r <> Join l0 q f a) by (intros; destruct r as [|[] ?]; discriminate).
    apply (invc_move s i _ (WPeek l r) C HT); destruct (exit_ s); auto; try discriminate;
      intros l0 q f a w E; exfalso; eapply NJ, E.
  - pose proof (invc_stop_mark s i (AWorker false r) _ B C HT) as E.
    destruct (stop_mark s i (AWorker false r)) as [s1 e]. cbn [fst] in *. apply E; reflexivity.
  - cbn [fst]. assert (A : awake (job_next r) = true) by (destruct r as [|[] ?]; reflexivity).
    assert (W : wpc_ok (job_next r) = true) by (destruct r as [|[] ?]; reflexivity).
    assert (S : is_sleep (job_next r) = false) by (destruct r as [|[] ?]; reflexivity).
    assert (NJ : forall l0 q f a, job_next r <> Join l0 q f a) by (intros; destruct r as [|[] ?]; discriminate).
    apply (invc_move s i _ (WQry q r) C HT); auto; try discriminate;
      intros l0 q0 f a w E; exfalso; eapply NJ, E.
  - cbn [fst]. assert (A : awake (job_next r) = true) by (destruct r as [|[] ?]; reflexivity).
    assert (W : wpc_ok (job_next r) = true) by (destruct r as [|[] ?]; reflexivity).
    assert (S : is_sleep (job_next r) = false) by (destruct r as [|[] ?]; reflexivity).
    assert (NJ : forall l0 q f a, job_next r <> Join l0 q f a) by (intros; destruct r as [|[] ?]; discriminate).
    apply (invc_move s i _ (WWait wl r) C HT); auto; try discriminate;
      intros l0 q0 f a w E; exfalso; eapply NJ, E.
  - discriminate.
  - (* join loop *)
    assert (F : f = true) by (eapply (b_first s B); exact HT). subst f.
    assert (EXT : exit_ s = true) by (apply (b_join s B i _ HT); reflexivity).
    assert (AW : InvC (fst (after_wait s i [] q true a))).
    { apply (invc_aw s s i [] q true a _ C HT); auto.
      - intros j p _ Hj S [->|ST]; [apply (c_ex s C EXT j Hj)|].
        destruct p; try discriminate; [apply (c_ex s C EXT j Hj)|apply (c_st s C ST j _ _ _ Hj)].
      - intros w []. }
    destruct l as [|w0 [|w1 l]].
    + unfold after_wait in AW. destruct (stop_end s i q true a) as [s1 e]. exact AW.
    + unfold after_wait in AW. destruct (stop_end s i q true a) as [s1 e]. exact AW.
    + cbn [fst]. apply (invc_move s i _ (Join (w0 :: w1 :: l) q true a) C HT); auto.
      * rewrite EXT. discriminate.
      * intros l0 q0 f a0 w E Hin. inversion E; subst. eexists. split; [reflexivity|right; exact Hin].
  - (* woken inside stop() *)
    destruct (b_swait s B i l q a HT) as (L0 & Q1 & CU). subst l q.
    assert (EXT : exit_ s = true) by (apply (b_join s B i _ HT); reflexivity).
    destruct (stopped s) eqn:ST.
    + assert (AW : InvC (fst (after_wait (wake s i) i [] [] false a))).
      { apply (invc_aw s (wake s i) i [] [] false a _ C HT); try (unfold wake; destruct (is_woken s i); auto; fail).
        - intros j p Nj Hj S _. change (existsb (Nat.eqb j) (woken (wake s i))) with (is_woken (wake s i) j).
          rewrite is_woken_wake by exact Nj. destruct p; try discriminate; [apply (c_ex s C EXT j Hj)|apply (c_st s C ST j _ _ _ Hj)].
        - intros X. exfalso. unfold wake in X. destruct (is_woken s i); cbn in X; congruence.
        - intros w []. }
      destruct (after_wait (wake s i) i [] [] false a) as [s1 e]. exact AW.
    + cbn [fst]. apply invc_wake_same; auto. exists (SWait [] [] a). repeat split; auto. discriminate.
  - (* the first stop sets _stopped *)
    assert (EXT : exit_ s = true) by (apply (b_join s B i _ HT); reflexivity).
    assert (AW : InvC (fst (after_wait (finished s (sleeper_ids s)) i [] [] false a))).
    { apply (invc_aw s (finished s (sleeper_ids s)) i [] [] false a _ C HT); auto.
      - intros j p _ Hj S _. apply (sleeper_ids_in s j p Hj S).
      - intros w []. }
    rewrite <- returned_as_aw in AW. destruct (returned (finished s (sleeper_ids s)) i a) as [s1 e]. exact AW.
Qed.

Lemma invc_uad s b : InvC s -> InvC (with_uad s b).
Proof. intros [C1 C2 C3 C4 C5 C6 C7 C8 C9]. constructor; auto. Qed.

Theorem invc_step s i : InvB s -> InvC s -> enabled s i = true -> InvC (step s i).
Proof.
  intros B C EN. pose proof (invc_core s i B C EN) as X.
  destruct (step_core s i) as [-> | ->]; [exact X|apply invc_uad, X].
Qed.

Lemma invc_init ops : InvC (init ops).
Proof.
  destruct (init_shape ops) as (m & cl & n & M & N & LC & NC & TH & THR & Q & EX & ST & DE & TK & WK & CLO & XW & UA & SH).
  pose proof (init_cls ops) as CLS.
  assert (PL : forall i p, T (init ops) i = Some p -> in_stop p = false /\ p <> WSleep).
  { intros i p H. destruct (CLS i p H) as [(L & r & ->)|(L & ->)]; [|split; [reflexivity|discriminate]].
    destruct (next_client_plain i r) as (X & _). split; [exact X|].
    unfold next_client. destruct r; [destruct (Nat.eqb i 0)|]; discriminate. }
  constructor.
  - rewrite EX. discriminate.
  - rewrite ST. discriminate.
  - rewrite EX. discriminate.
  - apply wake_empty, Q.
  - intros _ i p H L. destruct (CLS i p H) as [(L2 & _)|(_ & ->)]; [lia|reflexivity].
  - rewrite NC, TH, app_length, repeat_length. lia.
  - intros t l q f a w H. destruct (PL t _ H) as [X _]. discriminate.
  - intros _. exact WK.
  - intros _. rewrite Q. cbn [length]. lia.
Qed.

Theorem invc_reachable ops s : reachable ops s -> InvC s.
Proof.
  induction 1; [apply invc_init|]. apply invc_step; auto. eapply invb_reachable; eassumption.
Qed.

(* ---------- deadlock freedom ---------- *)
Definition at_point (p : pc) : bool :=
  match p with
  | CAt (OWait _ :: _) => false
  | CAt _ | CDtor | WIdle | WSub _ _ _ | WHop _ _ | WPeek _ _ | WStop _ | WQry _ _ | SFin _ | Join [] _ _ _ => true
  | _ => false
  end.

(* a deadlock of the client program, not of the pool: a client thread sits in worker() of an idle pool that nobody stops *)
Definition user_stuck (s : st) : Prop :=
  exit_ s = false /\ queue s = [] /\ exists j, j < nclients s /\ T s j = Some WSleep.

Lemma at_point_enabled s i p : T s i = Some p -> at_point p = true -> enabled s i = true.
Proof.
  unfold T, enabled. intros -> A. destruct p as [[|[] ?]| | | | | | | | | | | | |[|w l] q f a| |]; try discriminate; reflexivity.
Qed.

Lemma dec_thr s (f : pc -> bool) :
  (exists i p, T s i = Some p /\ f p = true) \/ (forall i p, T s i = Some p -> f p = false).
Proof.
  destruct (existsb f (thrs s)) eqn:E.
  - left. apply existsb_exists in E. destruct E as (p & Hin & A). apply In_nth_error in Hin. destruct Hin as [i Hi].
    exists i, p. split; assumption.
  - right. intros i p H. destruct (f p) eqn:A; [|reflexivity].
    assert (X : existsb f (thrs s) = true) by (apply existsb_exists; exists p; split; [eapply nth_error_In, H|exact A]).
    congruence.
Qed.

Lemma sleeper_enabled s i p : T s i = Some p -> is_sleep p = true -> (0 < tokens s \/ is_woken s i = true) -> enabled s i = true.
Proof.
  unfold T, enabled. intros -> S W. destruct p; try discriminate;
    (destruct W as [W|W]; [apply Bool.orb_true_iff; left; apply Nat.ltb_lt; exact W|apply Bool.orb_true_iff; right; exact W]).
Qed.

Lemma nth_error_firstn_some {A} (l : list A) : forall n j x, nth_error (firstn n l) j = Some x -> nth_error l j = Some x /\ j < n.
Proof.
  induction l as [|y l IH]; intros [|n] [|j] x H; cbn in *; try discriminate.
  - split; [exact H|lia].
  - destruct (IH n j x H). split; [assumption|lia].
Qed.

(* a thread waits for the outcome of a submission (the client program / a job made itself depend on it) *)
Definition is_wait (p : pc) : bool := match p with WWait _ _ | CAt (OWait _ :: _) => true | _ => false end.
Definition waits_for_submission (s : st) : Prop := exists i p, T s i = Some p /\ is_wait p = true.

Theorem stop_no_deadlock ops s : reachable ops s -> ~ terminal s ->
  (exists i, enabled s i = true) \/ user_stuck s \/ waits_for_submission s.
Proof.
  intros R NT. pose proof (invb_reachable ops s R) as B. pose proof (invu_reachable ops s R) as U.
  pose proof (invc_reachable ops s R) as C.
  (* 1. some thread stands at a lock acquisition *)
  destruct (dec_thr s at_point) as [(i & p & H & A)|NP].
  { left. exists i. eapply at_point_enabled; eassumption. }
  (* 1b. a thread waits for a submission *)
  destruct (dec_thr s is_wait) as [(i & p & H & A)|NWT].
  { right. right. exists i, p. auto. }
  (* 2. a thread is joining *)
  destruct (dec_thr s (fun p => match p with Join (_ :: _) _ _ _ => true | _ => false end)) as [(i & p & H & A)|NJ].
  { left. destruct p as [| | | | | | | | | | | | |[|w l] q f a| |]; try discriminate.
    pose proof (b_join s B i _ H eq_refl) as X.
    destruct (c_jw s C i _ q f a w H (or_introl eq_refl)) as ([L1 L2] & NE).
    destruct (nth_error (thrs s) w) as [pw|] eqn:E; [|apply nth_error_None in E; lia].
    destruct (at_point pw) eqn:AP; [exists w; eapply at_point_enabled; eassumption|].
    pose proof (NWT w pw E) as NWw.
    destruct pw as [[|[] ?]| | | | | | | | | | | | |l0 q0 f0 a0|l0 q0 a0|]; try discriminate AP; try discriminate NWw.
    - exfalso. pose proof (proj1 (b_class s B w _ E) L1). discriminate.
    - exfalso. pose proof (proj1 (b_class s B w _ E) L1). discriminate.
    - exists w. apply (sleeper_enabled s w WSleep E eq_refl). right. apply (c_ex s C X w E).
    - exists i. unfold enabled. unfold T in H. rewrite H. unfold is_wexit. rewrite E. reflexivity.
    - exfalso. apply NE. eapply (u_uniq s U); [exact E|exact H|reflexivity|reflexivity].
    - exfalso. destruct (b_swait s B w _ _ _ E) as (_ & _ & CU).
      pose proof (proj1 (b_class s B w _ E) L1) as Q. cbn [is_client] in Q. destruct a0; discriminate. }
  (* 3. nobody at a lock, nobody joining: CXWait, CDone, WSleep, WExit and stops waiting for another stop *)
  assert (CL : forall i p, T s i = Some p -> p = CXWait \/ p = CDone \/ p = WSleep \/ p = WExit \/ exists l q a, p = SWait l q a).
  { intros i p H. pose proof (NP i p H) as A. pose proof (NJ i p H) as J. pose proof (NWT i p H) as Wt.
    destruct p as [[|[] ?]| | | | | | | | | | | | |[|w l] q f a|l q a|]; try discriminate; auto 6.
    right. right. right. right. eauto. }
  destruct (dec_thr s (fun p => match p with SWait _ _ _ => true | _ => false end)) as [(i & p & H & A)|NS].
  { destruct p; try discriminate. pose proof (b_join s B i _ H eq_refl) as X.
    destruct (stopped s) eqn:ST.
    - left. exists i. apply (sleeper_enabled s i _ H eq_refl). right. eapply (c_st s C ST); exact H.
    - exfalso. destruct (c_first s C X ST) as (t & pt & Ht & Sp).
      pose proof (NP t pt Ht) as A1. pose proof (NJ t pt Ht) as A2.
      destruct pt as [| | | | | | | | | | | | |[|w0 l0] q0 f0 a0| |]; discriminate. }
  assert (CL2 : forall i p, T s i = Some p -> p = CXWait \/ p = CDone \/ p = WSleep \/ p = WExit).
  { intros i p H. destruct (CL i p H) as [X|[X|[X|[X|(l & q & a & X)]]]]; auto. subst p. specialize (NS i _ H). discriminate. }
  assert (XW : forall i, T s i = Some CXWait -> (forall j p, j < nclients s -> T s j = Some p -> p <> WSleep) -> enabled s i = true).
  { intros i H NSL. unfold enabled. unfold T in H. rewrite H. unfold xwait_ok. apply forallb_forall. intros p Hin.
    apply In_nth_error in Hin. destruct Hin as [j Hj].
    destruct (nth_error_firstn_some _ _ _ _ Hj) as [Hj' Lj].
    destruct (CL2 j p Hj') as [->|[->|[->| ->]]]; try reflexivity.
    - exfalso. eapply NSL; eauto.
    - exfalso. apply (proj2 (b_class s B j WExit Hj') Lj). reflexivity. }
  destruct (exit_ s) eqn:X.
  - left. destruct (dec_thr s is_sleep) as [(i & p & H & S)|NSL].
    + exists i. apply (sleeper_enabled s i p H S). right.
      destruct (CL2 i p H) as [->|[->|[->| ->]]]; try discriminate. apply (c_ex s C X i H).
    + destruct (dec_thr s (fun p => match p with CXWait => true | _ => false end)) as [(i & p & H & A)|NX].
      * exists i. destruct p; try discriminate. apply XW; [exact H|].
        intros j p Lj Hj ->. specialize (NSL j _ Hj). discriminate.
      * exfalso. apply NT. intros i p H. destruct (CL2 i p H) as [->|[->|[->| ->]]]; auto.
        -- specialize (NX i _ H). discriminate.
        -- specialize (NSL i _ H). discriminate.
  - destruct (queue s) as [|c0 r] eqn:Q.
    + (* idle pool: does a client thread sleep in worker()? *)
      destruct (existsb (fun j => match nth_error (thrs s) j with Some WSleep => true | _ => false end) (seq 0 (nclients s))) eqn:EB.
      * right. left. apply existsb_exists in EB. destruct EB as (k & Hk & Ek). apply in_seq in Hk.
        repeat split; auto. exists k. split; [lia|]. unfold T. destruct (nth_error (thrs s) k) as [[]|]; try discriminate. reflexivity.
      * left.
        assert (NSL : forall k p, k < nclients s -> T s k = Some p -> p <> WSleep).
        { intros k p Lk Hk ->.
          assert (existsb (fun j => match nth_error (thrs s) j with Some WSleep => true | _ => false end) (seq 0 (nclients s)) = true).
          { apply existsb_exists. exists k. split; [apply in_seq; lia|]. unfold T in Hk. rewrite Hk. reflexivity. }
          congruence. }
        pose proof (b_ncl s B) as [N1 N2].
        destruct (nth_error (thrs s) 0) as [p0|] eqn:E0; [|apply nth_error_None in E0; lia].
        destruct (CL2 0 p0 E0) as [->|[->|[->| ->]]].
        -- exists 0. apply XW; [exact E0|exact NSL].
        -- exfalso. pose proof (b_done0 s B E0) as D. destruct (b_destr s B D). congruence.
        -- exfalso. apply (NSL 0 WSleep N1 E0). reflexivity.
        -- exfalso. apply (proj2 (b_class s B 0 WExit E0) N1). reflexivity.
    + (* work is queued: a notification is pending or a worker is awake *)
      left. destruct (c_wake s C X) as [TK|(j & pj & Hj & Aj)]; [rewrite Q; discriminate| |].
      * pose proof (c_hasw s C) as HW.
        destruct (nth_error (thrs s) (nclients s)) as [pw|] eqn:E; [|apply nth_error_None in E; lia].
        pose proof (c_wpc s C X _ _ E (le_n _)) as W.
        destruct (CL2 _ pw E) as [->|[->|[->| ->]]]; try discriminate.
        exists (nclients s). apply (sleeper_enabled s _ WSleep E eq_refl). left. exact TK.
      * exfalso. destruct (CL2 j pj Hj) as [->|[->|[->| ->]]]; discriminate.
Qed.

(* no lost wake-up: a worker that sleeps while work is queued always has a wake-up pending, so it can take the work
   (this is what makes "a job waits for another submission" safe on a pool with a free worker) *)
Theorem no_lost_wakeup ops s i : reachable ops s -> exit_ s = false -> queue s <> [] -> T s i = Some WSleep ->
  enabled s i = true.
Proof.
  intros R X Q H. pose proof (invc_reachable ops s R) as C. pose proof (c_tokq s C X) as TQ.
  pose proof (sleepers_pos s i WSleep H eq_refl) as SP.
  apply (sleeper_enabled s i WSleep H eq_refl). left. destruct (queue s); [congruence|]. cbn [length] in TQ. lia.
Qed.
