(* PubThreadDefs.v — C16, threaded engine `pubt`: a publisher thread against subscriber threads, scheduled at lock
   granularity.  Model only; the proof that the property oracle accepts every threaded trace is in PubThreadProofs.v.

   Threads: 0 runs the publisher program (publish / batch / close / ~publisher / kick / copy / leave); thread i+1 drives
   subscriber i in one of three styles: 0 blocking `bool(next())`, 1 a coroutine doing `co_await next()`, 2 polling
   `next_ready()`.  Every acquisition of the queue mutex is a scheduling point: a schedule is a list of naturals, choice k
   picks the (k mod |enabled|)-th enabled thread (ascending tid), exactly as harness/ctl.h does with the real threads.
   A coroutine parked in co_await leaves its thread; it is resumed by the thread that wakes it (the publisher, inside
   publish()/close()/kick(), after the unlock) and its following locked steps run on that thread, nested, before the
   waker continues.  Two scheduling points take no locked step of the model and print no line: the publisher's second
   acquisition at the end of push_lk (`lk.lock(); std::swap(wk,_wakeup_buffer)`, line 280) and a blocked thread leaving
   its flag wait.  Each locked step is PublisherDefs.step; the trace is the list of (thread, tag, observation). *)
From Cocls Require Import Base PublisherDefs.
Local Open Scope Z_scope.

Inductive tag := TSetup (i : nat) | TPub (j : nat) | TSkip (j : nat) | TStep (code : Z) (s : nat).

(* subscriber thread state.  pc: 0 idle, 1 after the first await_ready=false of a blocking call, 2 after await_ready=false
   (next step: subscribe), 3 advanced (next step: await_resume), 4 parked, 5 done, 6 blocked thread woken (next: leave the wait) *)
Record sthr := mkSt { st_mode : Z; st_style : Z; st_cnt : nat; st_pc : Z; st_aw : Z }.

(* items of a thread's work stack *)
(* IWake w: awaiters the thread has still to resume (after the unlock), in order *)
Inductive item := IPub | IRelock | ISub (i : nat) | IWake (w : list Z).

Record tstate := mkTs { ts_pub : nat; ts_subs : list sthr; ts_stacks : list (list item) }.

Definition sthr0 : sthr := mkSt 0 0 0 5 (-1).
Definition sget (l : list sthr) (i : nat) : sthr := nth i l sthr0.

Definition op_of_tag (subs : list sthr) (prog : list op) (t : tag) : op :=
  match t with
  | TSetup i => OSubRecent i (st_mode (sget subs i))
  | TPub j => nth j prog OBad
  | TSkip _ => OBad
  | TStep c s => if c =? 5 then OReady s else if c =? 6 then OSuspend s else if c =? 7 then OGet s else OBad
  end.

(* which publisher-program ops are executed as they are; everything else is skipped (a rejected line).
   ~subscriber of a thread-driven subscriber only while its coroutine is parked (frame and subscriber destroyed together) *)
Definition pub_tag (ts : tstate) (prog : list op) (j : nat) : tag :=
  match nth j prog OBad with
  | OPub _ | OBatch _ | OClose | ODestroyPub | OKick _ => TPub j
  | OSubCopy s _ => if (length (ts_subs ts) <=? s)%nat then TPub j else TSkip j
  | OLeave s => if (length (ts_subs ts) <=? s)%nat then TPub j
                else if (st_style (sget (ts_subs ts) s) =? 1) && (st_pc (sget (ts_subs ts) s) =? 4) then TPub j else TSkip j
  | _ => TSkip j
  end.

(* does the executed op end with push_lk's second lock acquisition? *)
Definition relocks (e : tst) (x : op) (o : obs) : bool :=
  (o_st o =? 0) &&
  match x with
  | OPub _ => true
  | OBatch vs => match vs with [] => false | _ => true end
  | OClose | ODestroyPub => negb (closed (pq e))
  | _ => false
  end.

Definition set_sthr (ts : tstate) (i : nat) (x : sthr) : tstate :=
  mkTs (ts_pub ts) (set_nth (ts_subs ts) i x) (ts_stacks ts).
Definition set_stack (ts : tstate) (t : nat) (st : list item) : tstate :=
  mkTs (ts_pub ts) (ts_subs ts) (set_nth (ts_stacks ts) t st).
Definition stack_of (ts : tstate) (t : nat) : list item := nth t (ts_stacks ts) [].

(* a wake-up list: every parked subscriber whose awaiter is in it is woken; coroutines are returned (in list order) to
   be run by the waking thread *)
Fixpoint find_aw (l : list sthr) (a : Z) (i : nat) : option nat :=
  match l with
  | [] => None
  | x :: t => if (st_pc x =? 4) && (st_aw x =? a) then Some i else find_aw t a (S i)
  end.
(* resuming the awaiters of a wake-up list is not a scheduling point, but resuming a coroutine runs it up to its next
   lock acquisition, which is one: the blocked threads in front of the first coroutine become enabled at once, the
   awaiters behind it are resumed only when that coroutine has parked again or finished *)
Fixpoint wake_prefix (subs : list sthr) (w : list Z) : list sthr * option nat * list Z :=
  match w with
  | [] => (subs, None, [])
  | a :: t =>
      match find_aw subs a 0 with
      | Some i => let x := sget subs i in
                  if st_style x =? 1
                  then (set_nth subs i (mkSt (st_mode x) (st_style x) (st_cnt x) 3 (st_aw x)), Some i, t)
                  else wake_prefix (set_nth subs i (mkSt (st_mode x) (st_style x) (st_cnt x) 6 (st_aw x))) t
      | None => wake_prefix subs t
      end
  end.
Fixpoint settle (subs : list sthr) (st : list item) : list sthr * list item :=
  match st with
  | IWake w :: rest =>
      match wake_prefix subs w with
      | (subs1, Some i, w1) => (subs1, ISub i :: match w1 with [] => rest | _ => IWake w1 :: rest end)
      | (subs1, None, _) => settle subs1 rest
      end
  | _ => (subs, st)
  end.

Definition with_pc (x : sthr) (p : Z) : sthr := mkSt (st_mode x) (st_style x) (st_cnt x) p (st_aw x).
Definition dec_cnt (x : sthr) : sthr :=
  mkSt (st_mode x) (st_style x) (pred (st_cnt x)) (if (st_cnt x <=? 1)%nat then 5 else 0) (st_aw x).

(* the next locked step of subscriber thread state x (None: a silent scheduling point) *)
Definition sub_code (x : sthr) : option Z :=
  if st_pc x =? 0 then Some 5 else if st_pc x =? 1 then Some 5 else if st_pc x =? 2 then Some 6
  else if st_pc x =? 3 then Some 7 else None.

(* new thread state after the step with observation o *)
Definition sub_next (x : sthr) (o : obs) : sthr :=
  let ok := o_st o =? 0 in
  let yes := o_a o =? 1 in
  if negb ok then with_pc x 5 else
  if st_pc x =? 0 then
    if yes then with_pc x 3
    else if st_style x =? 0 then with_pc x 1
    else if st_style x =? 1 then with_pc x 2
    else dec_cnt x                                   (* polled: next_ready() returned false *)
  else if st_pc x =? 1 then (if yes then with_pc x 3 else with_pc x 2)
  else if st_pc x =? 2 then
    (if yes then mkSt (st_mode x) (st_style x) (st_cnt x) 4 (o_c o) else with_pc x 3)
  else (* pc 3: await_resume *)
    if (st_style x =? 2) || yes then dec_cnt x else with_pc x 5.   (* end of stream ends a blocking / awaiting loop *)

(* does the item stay on the stack of the thread that ran it? *)
Definition stays (x : sthr) : bool :=
  negb (st_pc x =? 5) && negb ((st_pc x =? 4) && (st_style x =? 1)).

Definition runnable (ts : tstate) (st : list item) : bool :=
  match st with
  | [] => false
  | ISub i :: _ => negb (st_pc (sget (ts_subs ts) i) =? 4)
  | _ => true
  end.

Fixpoint enabled_from (ts : tstate) (l : list (list item)) (t : nat) : list nat :=
  match l with
  | [] => []
  | st :: r => (if runnable ts st then [t] else []) ++ enabled_from ts r (S t)
  end.
Definition enabled (ts : tstate) : list nat := enabled_from ts (ts_stacks ts) 0.

Definition pick (ts : tstate) (k : Z) : option nat :=
  match enabled ts with
  | [] => None
  | en => Some (nth (Z.to_nat (Z.abs k mod zlen en)) en 0%nat)
  end.

Definition pub_rest (ts : tstate) (prog : list op) (j : nat) : list item :=
  if (S j <? length prog)%nat then [IPub] else [].

(* one scheduling step of thread t; returns the new states and the trace line, if the step is a locked step *)
Definition tstep (prog : list op) (e : tst) (ts : tstate) (t : nat) : tst * tstate * option (tag * obs) :=
  match stack_of ts t with
  | [] => (e, ts, None)
  | IRelock :: rest => (e, set_stack ts t rest, None)
  | IWake w :: rest => let k := settle (ts_subs ts) (IWake w :: rest) in   (* not reachable: stacks are settled *)
                       (e, mkTs (ts_pub ts) (fst k) (set_nth (ts_stacks ts) t (snd k)), None)
  | IPub :: rest =>
      let j := ts_pub ts in
      let tg := pub_tag ts prog j in
      let x := op_of_tag (ts_subs ts) prog tg in
      let r := step e x in
      let subs0 := match tg, nth j prog OBad with
                   | TPub _, OLeave s => if (s <? length (ts_subs ts))%nat
                                         then set_nth (ts_subs ts) s (with_pc (sget (ts_subs ts) s) 5) else ts_subs ts
                   | _, _ => ts_subs ts
                   end in
      let w := settle subs0 (IWake (o_wk (snd r)) :: (if relocks e x (snd r) then [IRelock] else [])
                                                   ++ pub_rest ts prog j ++ rest) in
      (fst r, mkTs (S j) (fst w) (set_nth (ts_stacks ts) t (snd w)), Some (tg, snd r))
  | ISub i :: rest =>
      let x := sget (ts_subs ts) i in
      match sub_code x with
      | None => (e, set_sthr ts i (with_pc x 3), None)          (* pc 6: the blocked thread leaves its wait *)
      | Some c =>
          let r := step e (op_of_tag (ts_subs ts) prog (TStep c i)) in
          let x' := sub_next x (snd r) in
          let w := if stays x' then (set_nth (ts_subs ts) i x', ISub i :: rest)
                   else settle (set_nth (ts_subs ts) i x') rest in
          (fst r, mkTs (ts_pub ts) (fst w) (set_nth (ts_stacks ts) t (snd w)), Some (TStep c i, snd r))
      end
  end.

Fixpoint trun (fuel : nat) (prog : list op) (e : tst) (ts : tstate) (sched : list Z) : list (nat * tag * obs) :=
  match fuel with
  | O => []
  | S f =>
      match pick ts (hd 0 sched) with
      | None => []
      | Some t =>
          let r := tstep prog e ts t in
          match snd r with
          | Some (tg, o) => (t, tg, o) :: trun f prog (fst (fst r)) (snd (fst r)) (tl sched)
          | None => trun f prog (fst (fst r)) (snd (fst r)) (tl sched)
          end
      end
  end.

(* setup: the subscribers are constructed (most recent position) before the threads start *)
Fixpoint setup (subs : list sthr) (e : tst) (i : nat) (n : nat) : list (nat * tag * obs) * tst :=
  match n with
  | O => ([], e)
  | S m => let r := step e (op_of_tag subs [] (TSetup i)) in
           let k := setup subs (fst r) (S i) m in
           ((0%nat, TSetup i, snd r) :: fst k, snd k)
  end.

(* ---------- wire format ----------
   case:  [min max] / [100 mode style count ...] / publisher program, one op per line (PublisherDefs.decode) / [102 k1 k2 ...]
   trace: first line as in engine pub; then [tid code arg st a b c wk...] with code 201 setup, 200 program op, 202 skipped
          program op, 5/6/7 locked step of subscriber arg *)
Fixpoint parse_subs (l : list Z) : option (list sthr) :=
  match l with
  | [] => Some []
  | m :: s :: c :: t =>
      if valid_mode m && (0 <=? s) && (s <=? 2) && (0 <=? c) && (c <? 1000)
      then match parse_subs t with
           | Some r => Some (mkSt m s (Z.to_nat c) (if c =? 0 then 5 else 0) (-1) :: r)
           | None => None
           end
      else None
  | _ => None
  end.

Record tcase := mkTc { tc_mn : Z; tc_mx : Z; tc_subs : list sthr; tc_prog : list op; tc_sched : list Z }.

Fixpoint split_sched (l : list (list Z)) : option (list (list Z) * list Z) :=
  match l with
  | [] => None
  | [x] => match x with 102 :: s => Some ([], s) | _ => None end
  | x :: t => match split_sched t with Some (p, s) => Some (x :: p, s) | None => None end
  end.

Definition parse_case (ops : list (list Z)) : option tcase :=
  match ops with
  | c :: (100 :: sl) :: rest =>
      match cfg_of c, parse_subs sl, split_sched rest with
      | Some (mn, mx), Some subs, Some (p, s) =>
          if (length subs <=? 3)%nat then Some (mkTc mn mx subs (map decode p) s) else None
      | _, _, _ => None
      end
  | _ => None
  end.

Definition init_ts (subs : list sthr) (prog : list op) : tstate :=
  mkTs 0 subs ((match prog with [] => [] | _ => [IPub] end)
               :: map (fun i => if st_pc (sget subs i) =? 5 then [] else [ISub i]) (seq 0 (length subs))).

Definition fuel_of (c : tcase) : nat :=
  (2 * length (tc_prog c) + 6 * fold_right (fun x a => st_cnt x + a) 0 (tc_subs c) + 16)%nat.

Definition thr_trace (c : tcase) : list (nat * tag * obs) :=
  let s := setup (tc_subs c) (tst0 (tc_mn c) (tc_mx c)) 0 (length (tc_subs c)) in
  fst s ++ trun (fuel_of c) (tc_prog c) (snd s) (init_ts (tc_subs c) (tc_prog c)) (tc_sched c).

Definition enc_tag (t : tag) : list Z :=
  match t with
  | TSetup i => [201; Z.of_nat i]
  | TPub j => [200; Z.of_nat j]
  | TSkip j => [202; Z.of_nat j]
  | TStep c s => [c; Z.of_nat s]
  end.
Definition enc_line (x : nat * tag * obs) : list Z :=
  Z.of_nat (fst (fst x)) :: enc_tag (snd (fst x)) ++ encode_obs (snd x).

Definition pubt_run (ops : list (list Z)) : list (list Z) :=
  match parse_case ops with
  | Some c => encode_obs (ok3 (tc_mn c) (nth 1 (hd [] ops) 0) 0) :: map enc_line (thr_trace c)
  | None => [encode_obs rejected]
  end.

(* the oracle: the reference monitor of PublisherDefs run over the locked steps in the order they happened *)
Definition dec_tag (code arg : Z) : option tag :=
  if arg <? 0 then None else
  if code =? 201 then Some (TSetup (Z.to_nat arg)) else if code =? 200 then Some (TPub (Z.to_nat arg))
  else if code =? 202 then Some (TSkip (Z.to_nat arg))
  else if (code =? 5) || (code =? 6) || (code =? 7) then Some (TStep code (Z.to_nat arg)) else None.

Fixpoint mon_lines (subs : list sthr) (prog : list op) (m : mon) (l : list (list Z)) : mon :=
  match l with
  | [] => m
  | (_ :: code :: arg :: o) :: t =>
      match dec_tag code arg with
      | Some tg => mon_lines subs prog (mon_step m (op_of_tag subs prog tg) (dec_obs o)) t
      | None => short m
      end
  | _ :: _ => short m
  end.

Definition pubt_oracle (ops obsl : list (list Z)) : bool :=
  match parse_case ops with
  | Some c => match obsl with
              | _ :: t => good_b (mon_lines (tc_subs c) (tc_prog c) (mon0 (tc_mn c) (tc_mx c)) t)
              | [] => false
              end
  | None => match obsl with [_] => true | _ => false end
  end.
