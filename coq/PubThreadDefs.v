(* PubThreadDefs.v — C16, threaded engine `pubt`: a publisher thread against subscriber threads, scheduled at lock
   granularity.  Model only; the proof that the property oracle accepts every threaded trace is in PubThreadProofs.v.

   Threads: 0 runs the publisher program A (publish / batch / close / ~publisher / kick / copy / leave); thread i+1 drives
   subscriber i in one of three styles: 0 blocking `bool(next())`, 1 a coroutine doing `co_await next()`, 2 polling
   `next_ready()`; the last thread runs a second publisher program B against the same publisher.  A subscriber may be
   RE-ENTRANT: after every value it receives it performs an action on the same publisher (publish / close / kick the next
   subscriber / kick itself / destroy itself) — for a coroutine resumed inside publish() that action is nested in the
   waker's wake-up loop.  Every acquisition of the queue mutex is a scheduling point: a schedule is a list of naturals, choice k
   picks the (k mod |enabled|)-th enabled thread (ascending tid), exactly as harness/ctl.h does with the real threads.
   A coroutine parked in co_await leaves its thread; it is resumed by the thread that wakes it (the publisher, inside
   publish()/close()/kick(), after the unlock) and its following locked steps run on that thread, nested, before the
   waker continues.  Two scheduling points take no locked step of the model and print no line: the publisher's second
   acquisition at the end of push_lk (`lk.lock(); std::swap(wk,_wakeup_buffer)`, line 280) and a blocked thread leaving
   its flag wait.  Each locked step is PublisherDefs.step; the trace is the list of (thread, tag, observation). *)
From Cocls Require Import Base PublisherDefs.
Local Open Scope Z_scope.

(* TPub k j / TSkip k j: op j of program k (0 = A, 1 = B); TAct i: the action of re-entrant subscriber i *)
Inductive tag := TSetup (i : nat) | TPub (k j : nat) | TSkip (k j : nat) | TStep (code : Z) (s : nat) | TAct (i : nat).

(* subscriber thread state.  pc: 0 idle, 1 after the first await_ready=false of a blocking call, 2 after await_ready=false
   (next step: subscribe), 3 advanced (next step: await_resume), 4 parked, 5 done, 6 blocked thread woken (next: leave the
   wait), 7 a value was received (next step: the action), 8 awaiter taken out of the registration, resumption pending.  st_act: 0 none, 1 publish, 2 close, 3 kick the next subscriber,
   4 kick itself, 5 destroy itself *)
Record sthr := mkSt { st_mode : Z; st_style : Z; st_cnt : nat; st_pc : Z; st_aw : Z; st_act : Z }.

(* items of a thread's work stack *)
(* IWake w: awaiters the thread has still to resume (after the unlock), in order *)
(* IQ l: the thread runs coroutines under cocls's thread-local coro_queue; l = the coroutines made ready meanwhile (FIFO) *)
Inductive item := IPub (k : nat) | IRelock | ISub (i : nat) | IWake (w : list Z) | IQ (l : list nat).

Record tstate := mkTs { ts_pa : nat; ts_pb : nat; ts_subs : list sthr; ts_stacks : list (list item) }.

Definition sthr0 : sthr := mkSt 0 0 0 5 (-1) 0.
Definition sget (l : list sthr) (i : nat) : sthr := nth i l sthr0.

(* sp = the subscriber table of the case (static: modes, styles, actions); pa / pb = the two publisher programs *)
Definition act_op (sp : list sthr) (i : nat) : op :=
  let a := st_act (sget sp i) in
  if a =? 1 then OPub (9000 + Z.of_nat i) else if a =? 2 then OClose
  else if a =? 3 then OKick (Nat.modulo (S i) (length sp)) else if a =? 4 then OKick i
  else if a =? 5 then OLeave i else OBad.

Definition prog_of (pa pb : list op) (k : nat) : list op := match k with O => pa | _ => pb end.

Definition op_of_tag (sp : list sthr) (pa pb : list op) (t : tag) : op :=
  match t with
  | TSetup i => OSubRecent i (st_mode (sget sp i))
  | TPub k j => nth j (prog_of pa pb k) OBad
  | TSkip _ _ => OBad
  | TStep c s => if c =? 5 then OReady s else if c =? 6 then OSuspend s else if c =? 7 then OGet s else OBad
  | TAct i => act_op sp i
  end.

(* which publisher-program ops are executed as they are; everything else is skipped (a rejected line).
   ~subscriber of a thread-driven subscriber only while its coroutine is parked (frame and subscriber destroyed together) *)
Definition pub_tag (ts : tstate) (prog : list op) (k j : nat) : tag :=
  match nth j prog OBad with
  | OPub _ | OBatch _ | OClose | ODestroyPub | OKick _ => TPub k j
  | OSubCopy s _ => if (length (ts_subs ts) <=? s)%nat then TPub k j else TSkip k j
  | OLeave s => if (length (ts_subs ts) <=? s)%nat then TPub k j
                else if (st_style (sget (ts_subs ts) s) =? 1) && (st_pc (sget (ts_subs ts) s) =? 4) then TPub k j
                else TSkip k j
  | _ => TSkip k j
  end.

(* does the executed op end with push_lk's second lock acquisition? *)
Definition relocks (e : tst) (x : op) (o : obs) : bool :=
  (o_st o =? 0) &&
  match x with
  | OPub _ => true
  | OBatch vs => match vs with [] => false | _ => true end
  | OClose | ODestroyPub => negb (closed (pq e))
  | _ => false
  end.

Definition set_sthr (ts : tstate) (i : nat) (x : sthr) : tstate :=
  mkTs (ts_pa ts) (ts_pb ts) (set_nth (ts_subs ts) i x) (ts_stacks ts).
Definition set_stack (ts : tstate) (t : nat) (st : list item) : tstate :=
  mkTs (ts_pa ts) (ts_pb ts) (ts_subs ts) (set_nth (ts_stacks ts) t st).
Definition stack_of (ts : tstate) (t : nat) : list item := nth t (ts_stacks ts) [].

(* a wake-up list: every parked subscriber whose awaiter is in it is woken; coroutines are returned (in list order) to
   be run by the waking thread *)
Fixpoint find_aw (p : Z) (l : list sthr) (a : Z) (i : nat) : option nat :=
  match l with
  | [] => None
  | x :: t => if (st_pc x =? p) && (st_aw x =? a) then Some i else find_aw p t a (S i)
  end.
(* the critical section that produced wake-up list w removed those awaiters from the registrations: from now on their
   subscribers are no longer "parked" (pc 8: resumption pending) although they have not been resumed yet *)
Fixpoint mark_pending (subs : list sthr) (w : list Z) : list sthr :=
  match w with
  | [] => subs
  | a :: t => match find_aw 4 subs a 0 with
              | Some i => let x := sget subs i in
                          mark_pending (set_nth subs i (mkSt (st_mode x) (st_style x) (st_cnt x) 8 (st_aw x) (st_act x))) t
              | None => mark_pending subs t
              end
  end.
(* resuming the awaiters of a wake-up list is not a scheduling point, but resuming a coroutine runs it up to its next
   lock acquisition, which is one.  cocls resumes coroutines through the thread-local coro_queue:
   - outside a coroutine (publisher program, blocking thread): the coroutine is run at once under a freshly installed
     queue; the blocked threads in front of it in the list become enabled at once, the awaiters behind it are resumed
     only when it has parked again or finished and the queue has been drained;
   - inside a running coroutine (a re-entrant subscriber): resumed coroutines are only appended to the queue and run,
     in FIFO order, when the running coroutine parks or finishes. *)
Fixpoint wake_prefix (subs : list sthr) (w : list Z) : list sthr * option nat * list Z :=
  match w with
  | [] => (subs, None, [])
  | a :: t =>
      match find_aw 8 subs a 0 with
      | Some i => let x := sget subs i in
                  if st_style x =? 1
                  then (set_nth subs i (mkSt (st_mode x) (st_style x) (st_cnt x) 3 (st_aw x) (st_act x)), Some i, t)
                  else wake_prefix (set_nth subs i (mkSt (st_mode x) (st_style x) (st_cnt x) 6 (st_aw x) (st_act x))) t
      | None => wake_prefix subs t
      end
  end.
Fixpoint wake_all (subs : list sthr) (w : list Z) : list sthr * list nat :=
  match w with
  | [] => (subs, [])
  | a :: t =>
      match find_aw 8 subs a 0 with
      | Some i => let x := sget subs i in
                  let coro := st_style x =? 1 in
                  let r := wake_all (set_nth subs i (mkSt (st_mode x) (st_style x) (st_cnt x) (if coro then 3 else 6)
                                                          (st_aw x) (st_act x))) t in
                  (fst r, if coro then i :: snd r else snd r)
      | None => wake_all subs t
      end
  end.
Fixpoint has_q (st : list item) : bool :=
  match st with [] => false | IQ _ :: _ => true | _ :: t => has_q t end.
Fixpoint enqueue (cs : list nat) (st : list item) : list item :=
  match st with [] => [] | IQ l :: t => IQ (l ++ cs) :: t | x :: t => x :: enqueue cs t end.

Fixpoint settle_f (fuel : nat) (subs : list sthr) (st : list item) : list sthr * list item :=
  match fuel with
  | O => (subs, st)
  | S f =>
      match st with
      | IWake w :: rest =>
          if has_q rest then let r := wake_all subs w in settle_f f (fst r) (enqueue (snd r) rest)
          else match wake_prefix subs w with
               | (subs1, Some i, w1) => (subs1, ISub i :: IQ [] :: match w1 with [] => rest | _ => IWake w1 :: rest end)
               | (subs1, None, _) => settle_f f subs1 rest
               end
      | IQ [] :: rest => settle_f f subs rest
      | IQ (i :: l) :: rest => (subs, ISub i :: IQ l :: rest)
      | _ => (subs, st)
      end
  end.
Definition settle (subs : list sthr) (st : list item) : list sthr * list item :=
  settle_f (2 * length st + 4) subs st.

Definition with_pc (x : sthr) (p : Z) : sthr := mkSt (st_mode x) (st_style x) (st_cnt x) p (st_aw x) (st_act x).
Definition dec_cnt (x : sthr) : sthr :=
  mkSt (st_mode x) (st_style x) (pred (st_cnt x)) (if (st_cnt x <=? 1)%nat then 5 else 0) (st_aw x) (st_act x).

(* the next locked step of subscriber thread state x (None: a silent scheduling point) *)
Definition sub_code (x : sthr) : option Z :=
  if st_pc x =? 0 then Some 5 else if st_pc x =? 1 then Some 5 else if st_pc x =? 2 then Some 6
  else if st_pc x =? 3 then Some 7 else None.

(* new thread state after the step with observation o *)
Definition sub_next (x : sthr) (o : obs) : sthr :=
  let ok := o_st o =? 0 in
  let yes := o_a o =? 1 in
  if negb ok then with_pc x 5 else
  if st_pc x =? 0 then
    if yes then with_pc x 3
    else if st_style x =? 0 then with_pc x 1
    else if st_style x =? 1 then with_pc x 2
    else dec_cnt x                                   (* polled: next_ready() returned false *)
  else if st_pc x =? 1 then (if yes then with_pc x 3 else with_pc x 2)
  else if st_pc x =? 2 then
    (if yes then mkSt (st_mode x) (st_style x) (st_cnt x) 4 (o_c o) (st_act x) else with_pc x 3)
  else (* pc 3: await_resume *)
    if yes && negb (st_act x =? 0) then with_pc x 7                (* a re-entrant subscriber acts on the value *)
    else if (st_style x =? 2) || yes then dec_cnt x else with_pc x 5.   (* end of stream ends a blocking / awaiting loop *)

(* does the item stay on the stack of the thread that ran it? *)
Definition stays (x : sthr) : bool :=
  negb (st_pc x =? 5) && negb ((st_pc x =? 4) && (st_style x =? 1)).

Definition runnable (ts : tstate) (st : list item) : bool :=
  match st with
  | [] => false
  | ISub i :: _ => negb (st_pc (sget (ts_subs ts) i) =? 4) && negb (st_pc (sget (ts_subs ts) i) =? 8)
  | _ => true
  end.

Fixpoint enabled_from (ts : tstate) (l : list (list item)) (t : nat) : list nat :=
  match l with
  | [] => []
  | st :: r => (if runnable ts st then [t] else []) ++ enabled_from ts r (S t)
  end.
Definition enabled (ts : tstate) : list nat := enabled_from ts (ts_stacks ts) 0.

Definition pick (ts : tstate) (k : Z) : option nat :=
  match enabled ts with
  | [] => None
  | en => Some (nth (Z.to_nat (Z.abs k mod zlen en)) en 0%nat)
  end.

Definition pub_rest (prog : list op) (k j : nat) : list item :=
  if (S j <? length prog)%nat then [IPub k] else [].

(* one scheduling step of thread t; returns the new states and the trace line, if the step is a locked step *)
Definition tstep (sp : list sthr) (pa pb : list op) (e : tst) (ts : tstate) (t : nat) : tst * tstate * option (tag * obs) :=
  match stack_of ts t with
  | [] => (e, ts, None)
  | IRelock :: rest => let k := settle (ts_subs ts) rest in
                       (e, mkTs (ts_pa ts) (ts_pb ts) (fst k) (set_nth (ts_stacks ts) t (snd k)), None)
  | IWake w :: rest => let k := settle (ts_subs ts) (IWake w :: rest) in   (* not reachable: stacks are settled *)
                       (e, mkTs (ts_pa ts) (ts_pb ts) (fst k) (set_nth (ts_stacks ts) t (snd k)), None)
  | IQ l :: rest => let k := settle (ts_subs ts) (IQ l :: rest) in         (* not reachable either *)
                    (e, mkTs (ts_pa ts) (ts_pb ts) (fst k) (set_nth (ts_stacks ts) t (snd k)), None)
  | IPub k :: rest =>
      let prog := prog_of pa pb k in
      let j := match k with O => ts_pa ts | _ => ts_pb ts end in
      let tg := pub_tag ts prog k j in
      let x := op_of_tag sp pa pb tg in
      let r := step e x in
      let subs0 := match tg, nth j prog OBad with
                   | TPub _ _, OLeave s => if (s <? length (ts_subs ts))%nat
                                           then set_nth (ts_subs ts) s (with_pc (sget (ts_subs ts) s) 5) else ts_subs ts
                   | _, _ => ts_subs ts
                   end in
      let w := settle (mark_pending subs0 (o_wk (snd r)))
                      (IWake (o_wk (snd r)) :: (if relocks e x (snd r) then [IRelock] else [])
                                             ++ pub_rest prog k j ++ rest) in
      (fst r, mkTs (match k with O => S j | _ => ts_pa ts end) (match k with O => ts_pb ts | _ => S j end)
                   (fst w) (set_nth (ts_stacks ts) t (snd w)), Some (tg, snd r))
  | ISub i :: rest =>
      let x := sget (ts_subs ts) i in
      if st_pc x =? 7 then
        (* the action of a re-entrant subscriber: a publisher-side op run by whoever runs the subscriber *)
        let ao := op_of_tag sp pa pb (TAct i) in
        let r := step e ao in
        let x' := match ao with OLeave _ => with_pc x 5 | _ => dec_cnt x end in
        let w := settle (mark_pending (set_nth (ts_subs ts) i x') (o_wk (snd r)))
                        (IWake (o_wk (snd r)) :: (if relocks e ao (snd r) then [IRelock] else [])
                                               ++ (if stays x' then ISub i :: rest else rest)) in
        (fst r, mkTs (ts_pa ts) (ts_pb ts) (fst w) (set_nth (ts_stacks ts) t (snd w)), Some (TAct i, snd r))
      else
      match sub_code x with
      | None => (e, set_sthr ts i (with_pc x 3), None)          (* pc 6: the blocked thread leaves its wait *)
      | Some c =>
          let r := step e (op_of_tag sp pa pb (TStep c i)) in
          let x' := sub_next x (snd r) in
          let w := if stays x' then (set_nth (ts_subs ts) i x', ISub i :: rest)
                   else settle (set_nth (ts_subs ts) i x') rest in
          (fst r, mkTs (ts_pa ts) (ts_pb ts) (fst w) (set_nth (ts_stacks ts) t (snd w)), Some (TStep c i, snd r))
      end
  end.

Fixpoint trun (fuel : nat) (sp : list sthr) (pa pb : list op) (e : tst) (ts : tstate) (sched : list Z)
  : list (nat * tag * obs) :=
  match fuel with
  | O => []
  | S f =>
      match pick ts (hd 0 sched) with
      | None => []
      | Some t =>
          let r := tstep sp pa pb e ts t in
          match snd r with
          | Some (tg, o) => (t, tg, o) :: trun f sp pa pb (fst (fst r)) (snd (fst r)) (tl sched)
          | None => trun f sp pa pb (fst (fst r)) (snd (fst r)) (tl sched)
          end
      end
  end.

(* setup: the subscribers are constructed (most recent position) before the threads start *)
Fixpoint setup (sp : list sthr) (e : tst) (i : nat) (n : nat) : list (nat * tag * obs) * tst :=
  match n with
  | O => ([], e)
  | S m => let r := step e (op_of_tag sp [] [] (TSetup i)) in
           let k := setup sp (fst r) (S i) m in
           ((0%nat, TSetup i, snd r) :: fst k, snd k)
  end.

(* ---------- wire format ----------
   case:  [min max] / [100 mode style count act ...] / publisher programs, one op per line (PublisherDefs.decode; a line
          starting with 103 belongs to program B) / [102 k1 k2 ...]
   trace: first line as in engine pub; then [tid code arg st a b c wk...] with code 201 setup, 200 / 203 op of program A / B,
          202 / 204 skipped op of program A / B, 205 action of subscriber arg, 5/6/7 locked step of subscriber arg *)
Fixpoint parse_subs (l : list Z) : option (list sthr) :=
  match l with
  | [] => Some []
  | m :: s :: c :: a :: t =>
      if valid_mode m && (0 <=? s) && (s <=? 2) && (0 <=? c) && (c <? 1000) && (0 <=? a) && (a <=? 5)
      then match parse_subs t with
           | Some r => Some (mkSt m s (Z.to_nat c) (if c =? 0 then 5 else 0) (-1) a :: r)
           | None => None
           end
      else None
  | _ => None
  end.

Record tcase := mkTc { tc_mn : Z; tc_mx : Z; tc_subs : list sthr; tc_pa : list op; tc_pb : list op; tc_sched : list Z }.

Fixpoint split_sched (l : list (list Z)) : option (list (list Z) * list Z) :=
  match l with
  | [] => None
  | [x] => match x with 102 :: s => Some ([], s) | _ => None end
  | x :: t => match split_sched t with Some (p, s) => Some (x :: p, s) | None => None end
  end.

Definition is_b (l : list Z) : bool := match l with 103 :: _ => true | _ => false end.
Definition prog_a (p : list (list Z)) : list op := map decode (filter (fun l => negb (is_b l)) p).
Definition prog_b (p : list (list Z)) : list op := map (fun l => decode (tl l)) (filter is_b p).

Definition parse_case (ops : list (list Z)) : option tcase :=
  match ops with
  | c :: (100 :: sl) :: rest =>
      match cfg_of c, parse_subs sl, split_sched rest with
      | Some (mn, mx), Some subs, Some (p, s) =>
          if (length subs <=? 3)%nat then Some (mkTc mn mx subs (prog_a p) (prog_b p) s) else None
      | _, _, _ => None
      end
  | _ => None
  end.

Definition init_ts (subs : list sthr) (pa pb : list op) : tstate :=
  mkTs 0 0 subs (((match pa with [] => [] | _ => [IPub 0] end)
                  :: map (fun i => if st_pc (sget subs i) =? 5 then []
                                   else if st_style (sget subs i) =? 1 then [ISub i; IQ []] else [ISub i])
                         (seq 0 (length subs)))
                 ++ [match pb with [] => [] | _ => [IPub 1] end]).

Definition fuel_of (c : tcase) : nat :=
  (2 * length (tc_pa c) + 2 * length (tc_pb c) + 8 * fold_right (fun x a => st_cnt x + a) 0 (tc_subs c) + 16)%nat.

Definition thr_trace (c : tcase) : list (nat * tag * obs) :=
  let s := setup (tc_subs c) (tst0 (tc_mn c) (tc_mx c)) 0 (length (tc_subs c)) in
  fst s ++ trun (fuel_of c) (tc_subs c) (tc_pa c) (tc_pb c) (snd s) (init_ts (tc_subs c) (tc_pa c) (tc_pb c)) (tc_sched c).

Definition enc_tag (t : tag) : list Z :=
  match t with
  | TSetup i => [201; Z.of_nat i]
  | TPub k j => [match k with O => 200 | _ => 203 end; Z.of_nat j]
  | TSkip k j => [match k with O => 202 | _ => 204 end; Z.of_nat j]
  | TStep c s => [c; Z.of_nat s]
  | TAct i => [205; Z.of_nat i]
  end.
Definition enc_line (x : nat * tag * obs) : list Z :=
  Z.of_nat (fst (fst x)) :: enc_tag (snd (fst x)) ++ encode_obs (snd x).

Definition pubt_run (ops : list (list Z)) : list (list Z) :=
  match parse_case ops with
  | Some c => encode_obs (ok3 (tc_mn c) (nth 1 (hd [] ops) 0) 0) :: map enc_line (thr_trace c)
  | None => [encode_obs rejected]
  end.

(* the oracle: the reference monitor of PublisherDefs run over the locked steps in the order they happened *)
Definition dec_tag (code arg : Z) : option tag :=
  if arg <? 0 then None else
  if code =? 201 then Some (TSetup (Z.to_nat arg)) else if code =? 200 then Some (TPub 0 (Z.to_nat arg))
  else if code =? 203 then Some (TPub 1 (Z.to_nat arg))
  else if code =? 202 then Some (TSkip 0 (Z.to_nat arg)) else if code =? 204 then Some (TSkip 1 (Z.to_nat arg))
  else if code =? 205 then Some (TAct (Z.to_nat arg))
  else if (code =? 5) || (code =? 6) || (code =? 7) then Some (TStep code (Z.to_nat arg)) else None.

Fixpoint mon_lines (sp : list sthr) (pa pb : list op) (m : mon) (l : list (list Z)) : mon :=
  match l with
  | [] => m
  | (_ :: code :: arg :: o) :: t =>
      match dec_tag code arg with
      | Some tg => mon_lines sp pa pb (mon_step m (op_of_tag sp pa pb tg) (dec_obs o)) t
      | None => short m
      end
  | _ :: _ => short m
  end.

Definition pubt_oracle (ops obsl : list (list Z)) : bool :=
  match parse_case ops with
  | Some c => match obsl with
              | _ :: t => good_b (mon_lines (tc_subs c) (tc_pa c) (tc_pb c) (mon0 (tc_mn c) (tc_mx c)) t)
              | [] => false
              end
  | None => match obsl with [_] => true | _ => false end
  end.
