(* Properties_C04.v — C04: an async coroutine runs once, delivers to its bound party, frees once.
   Statements only; proofs are `exact <lemma of CoroVMProofs>`.  The machine state s is arbitrary in the step-level theorems
   (any number of coroutines, any scripts, any nesting depth of co_await chains, any start mode that led to s). *)
From Cocls Require Import Base CoroVMDefs CoroVMProofs CoroVMOnce CoroVMLife CoroVMRuns.
Local Open Scope nat_scope.

(* delivery + frame: when the body of c ends with r (value or exception), r is stored in exactly the cell c was bound to
   (the future of start()/start(promise), the co_awaiting parent's awaiter, nothing when detached), no other future or
   coroutine changes, the frame is destroyed (status Done, empty script: it can never execute again), and control goes to
   the last waiter of that cell / the parent / back to the resumer when detached *)
Theorem c04_delivery : forall s c r,
  let s' := finish s c r in
  stat (cs s' c) = Done /\ result (cs s' c) = r /\ script (cs s' c) = [] /\
  (forall k, k <> c -> cs s' k = cs s k) /\
  match bound (cs s c) with
  | BNone => fs s' = fs s /\ queue s' = queue s /\ cur s' = CRet /\ log s' = EFree c :: EFin c r :: log s
  | BFut f =>
      fstt (fs s' f) = FReady r /\ (forall g, g <> f -> fs s' g = fs s g) /\
      queue s' = queue s ++ removelast (chain_of (fs s f)) /\
      cur s' = match chain_of (fs s f) with [] => CRet | ch => CRun (last ch 0) end
  | BParent p =>
      fs s' = fs s /\ queue s' = queue s /\ cur s' = CRun p /\ log s' = ERun p :: EFree c :: EFin c r :: log s
  end.
Proof. exact finish_delivery. Qed.
Print Assumptions c04_delivery.

(* the co_awaiting parent reads exactly what its child finished with *)
Theorem c04_coawait_delivery : forall s p c rest,
  cur s = CRun p -> script (cs s p) = IGotC c :: rest ->
  log (step s) = EGot p (2 * c + 1) (result (cs s c)) :: log s /\ cur (step s) = CRun p.
Proof. exact coawait_delivery. Qed.
Print Assumptions c04_coawait_delivery.

(* start(promise) on an already claimed promise returns false and leaves the coroutine unstarted: nothing bound, nothing
   queued, nothing run, the handle stays in the async<T> object *)
Theorem c04_start_claimed_promise : forall s me c f aw,
  is_created s c = true -> fstt (fs s f) <> FNone -> claimed (fs s f) = true -> (aw && Nat.eqb me 0 = false) ->
  let s' := exec s me (IStartP c f aw) in
  log s' = ERetB me false :: log s /\ cs s' = cs s /\ fs s' = fs s /\ queue s' = queue s /\ cur s' = cur s /\
  stack s' = stack s /\ is_created s' c = true.
Proof. exact start_claimed_promise. Qed.
Print Assumptions c04_start_claimed_promise.

(* a never-started coroutine object that is destroyed frees its frame (and with it the captured arguments) exactly then,
   and nothing runs *)
Theorem c04_unstarted : forall s me c,
  is_created s c = true ->
  let s' := exec s me (IDrop c) in
  log s' = EFree c :: log s /\ stat (cs s' c) = Done /\ cur s' = cur s /\ queue s' = queue s /\ fs s' = fs s /\
  is_created s' c = false.
Proof. exact drop_unstarted. Qed.
Print Assumptions c04_unstarted.

(* start(promise) on a free promise claims it and binds the coroutine to exactly that future *)
Theorem c04_start_free_promise : forall s me c f,
  is_created s c = true -> fstt (fs s f) <> FNone -> claimed (fs s f) = false -> active s = true ->
  let s' := exec s me (IStartP c f false) in
  bound (cs s' c) = BFut f /\ stat (cs s' c) = Started /\ claimed (fs s' f) = true /\ fstt (fs s' f) = fstt (fs s f) /\
  queue s' = queue s ++ [c] /\ cur s' = cur s /\
  log s' = EEnq c me why_discard :: ERetB me true :: EBind c (BFut f) :: log s.
Proof. exact start_free_promise. Qed.
Print Assumptions c04_start_free_promise.

(* ---------- run level: any main script, any coroutine scripts, any run prefix ---------- *)
(* frame_once: a frame is allocated at most once and freed at most once, never freed without having been allocated, and it has
   been freed exactly when the coroutine is Done *)
Theorem c04_frame_once : forall p m n c,
  let s := steps n (init p m) in
  nev (is_mk c) (log s) <= 1 /\ nev (is_free c) (log s) <= nev (is_mk c) (log s) /\
  (nev (is_mk c) (log s) = 1 <-> stat (cs s c) <> Unmade) /\
  (nev (is_free c) (log s) = 1 <-> stat (cs s c) = Done).
Proof. exact frame_once. Qed.
Print Assumptions c04_frame_once.

(* body_once: the body finishes at most once, only if the coroutine was started (bound) exactly once, and then its frame is
   freed; a started unfinished coroutine is not freed; a created-but-unstarted one has no Bind, no Fin, no Free *)
Theorem c04_body_once : forall p m n c,
  let s := steps n (init p m) in
  nev (is_fin c) (log s) <= 1 /\ nev (is_bind c) (log s) <= 1 /\
  nev (is_fin c) (log s) <= nev (is_bind c) (log s) /\ nev (is_fin c) (log s) <= nev (is_free c) (log s) /\
  (stat (cs s c) = Started -> nev (is_bind c) (log s) = 1 /\ nev (is_fin c) (log s) = 0 /\ nev (is_free c) (log s) = 0) /\
  (stat (cs s c) = Created -> nev (is_bind c) (log s) = 0 /\ nev (is_fin c) (log s) = 0 /\ nev (is_free c) (log s) = 0).
Proof. exact body_once. Qed.
Print Assumptions c04_body_once.

(* the body never executes before the coroutine is started nor after it finished, and is never re-entered while running *)
Theorem c04_body_not_reentered : forall p m n later c earlier,
  log (steps n (init p m)) = later ++ ERun c :: earlier ->
  rlc c earlier = 0 /\ nev (is_fin c) earlier = 0.
Proof. exact never_resumed_while_running. Qed.
Print Assumptions c04_body_not_reentered.

(* terminal states (main script over, nobody stuck, nothing left unstarted = `EEnd 0 0`): every frame ever allocated was
   freed exactly once and every started coroutine finished its body exactly once *)
Theorem c04_terminal_all_freed : forall p m n c,
  let s := steps n (init p m) in
  count_stat s true = 0 -> count_stat s false = 0 ->
  nev (is_free c) (log s) = nev (is_mk c) (log s) /\ nev (is_fin c) (log s) = nev (is_bind c) (log s).
Proof. exact terminal_all_freed. Qed.
Print Assumptions c04_terminal_all_freed.

(* non-vacuity: a co_await chain of depth 2 ending in a throw, started to a future from normal code: the exception reaches
   each parent and finally the future; all three frames are freed; the trace satisfies the decidable form of C04 *)
Example c04_nonvacuous :
  let ops := [[0;6;1;9]; [1;8;2]; [2;8;3]; [3;13;77]; [0;9;0]; [0;5;4;0]; [4;11;9]]%Z in
  let s := steps (fuel_of ops) (load ops) in
  fstt (fs s 9) = FReady (RVal 0) /\ result (cs s 3) = RExc 77 /\
  stat (cs s 1) = Done /\ stat (cs s 2) = Done /\ stat (cs s 3) = Done /\ stat (cs s 4) = Done /\
  c04_ok (trace s) = true /\ cur s = CEnd.
Proof. vm_compute. repeat split; reflexivity. Qed.
