(* AdaptersOracle.v — the decidable form of C18 used on the implementation's traces (adapt_oracle) accepts every
   trace the model produces: forall ops, adapt_oracle (adapt_run ops) = true.  So the oracle is not stricter than the
   proved property, and whatever it rejects on the implementation is a behaviour no schedule of the model has. *)
From Cocls Require Import Base BaseProofs AdaptersDefs AdaptersInv AdaptersProofs.
Require Import ZifyBool.
Local Open Scope nat_scope.

(* ---------- every step appends its events with the new clock value ---------- *)
Lemma step_log c s i : enabled s i = true ->
  exists l, log (fst (tstep c s i)) = log s ++ map (fun e => (S (clk s), e)) l /\ clk (fst (tstep c s i)) = S (clk s).
Proof.
  intros E. unfold tstep, enabled in *.
  destruct i as [|[|[|i]]]; cbn [thr] in *; [| | |discriminate].
  all: dth s.
  all: destruct ins; unfold exec, fire, fire2, deliver.
  all: red1; dflags s; red1.
  all: try (dpay s; red1).
  all: try match goal with g : bool |- _ => destruct g; red1 end.
  all: try (exists []; cbn [map]; rewrite app_nil_r; split; reflexivity).
  all: try (eexists; split; reflexivity).
Qed.

Fixpoint mono (p : nat) (l : list (nat * ev)) : Prop :=
  match l with [] => True | e :: r => p <= fst e /\ mono (fst e) r end.

Lemma mono_app_new p a t b :
  mono p a -> Forall (fun e => fst e <= t) a -> p <= t -> mono p (a ++ map (fun e => (t, e)) b).
Proof.
  revert p. induction a as [|x a IH]; intros p M F P; cbn [app].
  - clear M F. revert p P. induction b as [|y b IHb]; intros p P; cbn [map mono]; [exact I|].
    split; [exact P|]. apply IHb. cbn [fst]. lia.
  - cbn [mono] in *. destruct M as [M1 M2]. inversion F; subst. split; [exact M1|]. apply IH; assumption.
Qed.

Definition TInv (s : st) : Prop := mono 0 (log s) /\ Forall (fun e => fst e <= clk s) (log s).

Lemma tinv_step c s i : TInv s -> enabled s i = true -> TInv (fst (tstep c s i)).
Proof.
  intros [M F] E. destruct (step_log c s i E) as (l & L & K). unfold TInv. rewrite L, K. split.
  - apply mono_app_new; [exact M| |lia]. eapply Forall_impl; [|exact F]. cbn. intros; lia.
  - apply Forall_app. split.
    + eapply Forall_impl; [|exact F]. cbn. intros; lia.
    + apply Forall_forall. intros x H. apply in_map_iff in H. destruct H as (e & <- & _). cbn [fst]. lia.
Qed.

Lemma tinv_reachable c s : reachable c s -> TInv s.
Proof.
  induction 1; [|apply tinv_step; assumption].
  unfold TInv, init. cbn [log clk mono]. split; [exact I|constructor].
Qed.


(* ---------- the trace only names the three threads ---------- *)
Lemma all_enabled_lt3 s i : In i (all_enabled s) -> i < 3.
Proof.
  unfold all_enabled. intros H.
  repeat (apply in_app_or in H; destruct H as [H|H]);
    match type of H with In _ (if ?b then _ else _) => destruct b end; cbn [In] in H; try contradiction;
    destruct H as [<-|[]]; lia.
Qed.

Lemma run_sched_trace c fuel : forall s sched tr,
  Forall (fun p => fst p < 3) tr -> Forall (fun p => fst p < 3) (snd (run_sched c fuel s sched tr)).
Proof.
  induction fuel as [|f IH]; intros s sched tr F; cbn [run_sched]; [exact F|].
  destruct (all_enabled s) as [|e en] eqn:EN; [exact F|].
  set (i := nth _ (e :: en) 0).
  assert (L : i < 3).
  { apply (all_enabled_lt3 s). rewrite EN. apply nth_In.
    set (k := match sched with [] => 0%Z | x :: _ => Z.abs x end).
    assert (0 <= k)%Z by (unfold k; destruct sched; lia).
    unfold zlen. cbn [length].
    pose proof (Z.mod_pos_bound k (Z.of_nat (S (length en))) ltac:(lia)). lia. }
  destruct (tstep c s i) as [s1 p] eqn:TS.
  apply IH. apply Forall_app. split; [exact F|]. constructor; [exact L|constructor].
Qed.

(* ---------- classification of the output lines ---------- *)
Definition trace_line (p : nat * Z) : list Z := [Z.of_nat (fst p); snd p].

Lemma trace_line_class p : fst p < 3 ->
  is_event_line (trace_line p) = false /\ is_final_line (trace_line p) = false /\
  Z.eqb (headz (trace_line p)) 44 = false /\ Z.eqb (headz (trace_line p)) 777 = false.
Proof.
  intros L. unfold trace_line, is_event_line, is_final_line, headz.
  destruct (fst p) as [|[|[|n]]]; [| | |lia]; cbn; repeat split; reflexivity.
Qed.

Lemma ev_line_class c seq e :
  is_event_line (ev_line c seq e) = true /\ is_final_line (ev_line c seq e) = false /\
  Z.eqb (headz (ev_line c seq e)) 44 = false /\ Z.eqb (headz (ev_line c seq e)) 777 = false.
Proof. unfold ev_line. destruct (snd e); cbn; repeat split; reflexivity. Qed.

Lemma filter_none {A} (f : A -> bool) l : Forall (fun x => f x = false) l -> filter f l = [].
Proof. induction 1 as [|x l H _ IH]; cbn [filter]; [reflexivity|rewrite H; exact IH]. Qed.
Lemma filter_all {A} (f : A -> bool) l : Forall (fun x => f x = true) l -> filter f l = l.
Proof. induction 1 as [|x l H _ IH]; cbn [filter]; [reflexivity|rewrite H, IH; reflexivity]. Qed.

Lemma existsb_none {A} (f : A -> bool) l : Forall (fun x => f x = false) l -> existsb f l = false.
Proof. induction 1 as [|x l H _ IH]; cbn [existsb]; [reflexivity|rewrite H; exact IH]. Qed.

Lemma find_line_skip h l r : Forall (fun x => Z.eqb (headz x) h = false) l -> find_line h (l ++ r) = find_line h r.
Proof. induction 1 as [|x l H _ IH]; cbn [app find_line]; [reflexivity|rewrite H; exact IH]. Qed.

Lemma list_eqb_refl a : list_eqb a a = true.
Proof.
  unfold list_eqb. rewrite Nat.eqb_refl. cbn [andb].
  induction a as [|x a IH]; cbn [combine forallb fst snd]; [reflexivity|]. rewrite Z.eqb_refl. exact IH.
Qed.
Lemma lists_eqb_refl a : lists_eqb a a = true.
Proof. induction a as [|x a IH]; cbn [lists_eqb]; [reflexivity|]. rewrite list_eqb_refl. exact IH. Qed.

(* steps of the event lines *)
Lemma steps_mono_seq c l : steps_mono 0 (map (ev_line c true) l) = true.
Proof.
  induction l as [|e l IH]; cbn [map steps_mono]; [reflexivity|].
  unfold ev_line at 1. destruct (snd e); cbn [app okind]; try (destruct o); try (destruct r); cbn; exact IH.
Qed.

Lemma steps_mono_ctl c l : forall p, mono p l -> steps_mono (Z.of_nat p) (map (ev_line c false) l) = true.
Proof.
  induction l as [|e l IH]; intros p M; cbn [map steps_mono]; [reflexivity|].
  cbn [mono] in M. destruct M as [M1 M2]. specialize (IH _ M2).
  unfold ev_line at 1. destruct (snd e); cbn [app okind]; try (destruct o); try (destruct r); cbn [app];
    (replace (Z.of_nat p <=? Z.of_nat (fst e))%Z with true by (symmetry; apply Z.leb_le; lia)); cbn [andb]; exact IH.
Qed.


(* ---------- the event lines of a completed run are exactly the ones the property allows ---------- *)
Lemma final_events c s seq : valid c = true -> reachable c s -> terminal s ->
  map strip (map (ev_line c seq) (log s)) = expected_events c (payload s).
Proof.
  intros V R T. pose proof (terminal_final c s V R T) as FF.
  pose proof (f_fired c s FF) as F. pose proof (f_ndeliv c s FF) as ND. pose proof (f_nconv c s FF) as NC.
  pose proof (f_fired2 c s FF) as F2. pose proof (f_payload2 c s FF) as P2.
  pose proof (j_cfg c s (inv_reachable c s V R)) as Jcfg.
  destruct (loginv_reachable c s V R) as (t1 & t2 & t3 & t4 & L).
  rewrite L, F, ND, NC, F2, P2. unfold atomic_cb, cv, is_conv, expected, expected_events, cb_log, cb2_log, conv_log, hb, hbn, re, kind_re in *.
  destruct (c_ad c) eqn:AD; destruct (c_re c) as [kr|] eqn:RE;
    try (specialize (Jcfg eq_refl); discriminate Jcfg);
    cbn [has_cb has_helper has_functor b2n andb Nat.eqb app map];
    rewrite ?app_nil_r;
    try (destruct (payload s); cbn [isv Nat.eqb app map ev_line snd fst strip okind conv_result]; reflexivity);
    try (rewrite !map_app; cbn [map ev_line snd fst strip app]; destruct (has_sd (c_stor c)); cbn [map ev_line snd fst strip app]; reflexivity).
  all: destruct (isv (payload s)); cbn [Nat.eqb app]; try (destruct (has_sd (c_stor c))); cbn [map ev_line snd fst strip app]; reflexivity.
Qed.

(* ... and so are the summary lines *)
Lemma final_summary c s : valid c = true -> reachable c s -> terminal s ->
  final_lines c s = expected_final c (payload s) (retz (ret1 s)) (retz (ret2 s)).
Proof.
  intros V R T. pose proof (terminal_final c s V R T) as [_ _ _ _ F FR AL NR ND NC O _].
  pose proof (fires_exactly_once c s V R T) as NCB. unfold ncb, re in NCB.
  pose proof (i_nores c s (inv_reachable c s V R)) as I14.
  unfold final_lines, expected_final, zlen. rewrite NCB, FR, AL. unfold hb, hbn, expected in *.
  replace (Z.of_nat (b2n (has_helper (c_ad c))) - Z.of_nat (b2n (has_helper (c_ad c))))%Z with 0%Z by lia.
  assert (X : (match oslot s with SReady => 42%Z :: 1%Z :: okind (opayload s) | _ => [42; 0; 0; 0]%Z end) =
              (if is_conv c then 42%Z :: 1%Z :: okind (conv_result c (payload s)) else [42; 0; 0; 0]%Z)).
  { destruct (is_conv c) eqn:C.
    - destruct (O eq_refl) as [O1 O2]. rewrite O1, O2. reflexivity.
    - unfold cv in NR. rewrite C in NR. cbn [b2n] in NR. rewrite NR in I14. destruct (oslot s); cbn [rdy] in I14; try reflexivity; discriminate. }
  rewrite X.
  destruct (has_helper (c_ad c)), (has_cb (c_ad c)), (c_re c); cbn [b2n Z.of_nat Nat.add]; reflexivity.
Qed.


(* what the calls returned identifies the winner, and exactly one call that was made returned true *)
Lemma final_rets c s : valid c = true -> reachable c s -> terminal s ->
  rets_ok c (retz (ret1 s)) (retz (ret2 s)) = true /\
  out_of (kind_of c (if Z.eqb (retz (ret2 s)) 1 then 2 else 1)) = payload s.
Proof.
  intros V R T. destruct (terminal_done c s V R T) as (A & B & C).
  pose proof (terminal_final c s V R T) as [_ O P W _ _ _ _ _ _ _ _].
  pose proof (inv_reachable c s V R) as I.
  pose proof (i_ret2 c s I) as I25. pose proof (i_t1 c s I) as I32. pose proof (i_t2 c s I) as I33.
  pose proof (i_pw c s I) as I35.
  destruct (winner_facts c s V R) as (W1 & W2 & W3 & W4 & W5).
  unfold N in *. rewrite A, B, C in *. cbn [cnt Nat.add] in *.
  split.
  - unfold rets_ok, has_k2 in *. destruct (c_k2 c) as [k2|] eqn:K2.
    + cbn [b2n] in I33.
      assert (PC : prim_calls c = true).
      { unfold prim_calls. unfold valid in V. rewrite K2 in *. apply andb_prop in V. destruct V as [V _]. apply andb_prop in V. destruct V as [V _].
        apply andb_prop in V. destruct V as [_ V]. apply andb_prop in V. destruct V as [V _]. rewrite V.
        cbn [orb andb]. destruct (c_k c); reflexivity. }
      rewrite PC in I32. cbn [b2n] in I32.
      destruct (W5 ltac:(discriminate) O) as [[X Y]|[X Y]].
      * rewrite X. destruct (ret2 s) as [[|]|]; cbn [rn] in I33; try lia; [congruence|reflexivity].
      * rewrite X. destruct (ret1 s) as [[|]|]; cbn [rn] in I32; try lia; [congruence|reflexivity].
    + destruct (W4 eq_refl) as [_ R2]. rewrite R2. cbn [retz Z.eqb andb].
      destruct (prim_calls c) eqn:PC; cbn [b2n] in I32.
      * destruct (I35 eq_refl) as [X|[X|X]]; [congruence| |rewrite X; reflexivity].
        apply I25 in X. congruence.
      * destruct (ret1 s); cbn [rn] in I32; [lia|reflexivity].
  - rewrite P. unfold wout.
    destruct (ret2 s) as [[|]|] eqn:R2; cbn [retz b2z Z.eqb].
    + assert (won s = 2) as -> by (apply I25; reflexivity). reflexivity.
    + destruct W as [->| W]; [reflexivity|]. apply I25 in W. discriminate.
    + destruct W as [->| W]; [reflexivity|]. apply I25 in W. discriminate.
Qed.

(* ---------- the oracle accepts every trace of the model ---------- *)
Theorem oracle_accepts_model : forall seq isvoid ops,
  adapt_oracle seq isvoid ops (adapt_run seq isvoid ops) = true.
Proof.
  intros seq isvoid ops. unfold adapt_oracle, adapt_run.
  destruct (decode_valid isvoid ops) as [c|] eqn:D; [|reflexivity].
  assert (V : valid c = true).
  { unfold decode_valid in D. destruct (decode isvoid ops) as [c'|]; [|discriminate].
    destruct (valid c' && flag_ok ops) eqn:Q; [|discriminate]. inversion D; subst. apply andb_prop in Q. tauto. }
  set (sched := if seq then [] else flat_map decode_sched ops).
  destruct (run_sched c (length sched + 200) (init c) sched []) as [s tr] eqn:RS.
  assert (R : reachable c s).
  { replace s with (fst (run_sched c (length sched + 200) (init c) sched [])) by (rewrite RS; reflexivity).
    apply run_sched_reachable. apply r_init. }
  assert (T : terminal s).
  { replace s with (fst (run_sched c (length sched + 200) (init c) sched [])) by (rewrite RS; reflexivity).
    apply every_schedule_terminates; [exact V|lia]. }
  assert (TR : Forall (fun p => fst p < 3) tr).
  { replace tr with (snd (run_sched c (length sched + 200) (init c) sched [])) by (rewrite RS; reflexivity).
    apply run_sched_trace. constructor. }
  destruct (terminal_done c s V R T) as (A & B & C).
  unfold stuck_list. rewrite A, B, C. cbn [app].
  set (TL := if seq then [] else map (fun p => [Z.of_nat (fst p); snd p]) tr).
  assert (TC : Forall (fun x => is_event_line x = false /\ is_final_line x = false /\
                               Z.eqb (headz x) 44 = false /\ Z.eqb (headz x) 777 = false) TL).
  { unfold TL. destruct seq; [constructor|]. apply Forall_forall. intros x H. apply in_map_iff in H.
    destruct H as (p & <- & H). apply (trace_line_class p). rewrite Forall_forall in TR. apply TR. exact H. }
  set (EL := map (ev_line c seq) (log s)).
  assert (EC : Forall (fun x => is_event_line x = true /\ is_final_line x = false /\
                               Z.eqb (headz x) 44 = false /\ Z.eqb (headz x) 777 = false) EL).
  { unfold EL. apply Forall_forall. intros x H. apply in_map_iff in H. destruct H as (e & <- & _). apply ev_line_class. }
  rewrite (final_summary c s V R T).
  destruct (final_rets c s V R T) as [RO WO].
  set (r1 := retz (ret1 s)) in *. set (r2 := retz (ret2 s)) in *.
  set (FL := expected_final c (payload s) r1 r2).
  (* line 44 *)
  assert (F44 : find_line 44 (TL ++ EL ++ FL) = Some [44%Z; r1; r2]).
  { rewrite find_line_skip by (eapply Forall_impl; [|exact TC]; cbn; tauto).
    rewrite find_line_skip by (eapply Forall_impl; [|exact EC]; cbn; tauto).
    unfold FL, expected_final. cbn [find_line]. unfold headz at 1. cbn [Z.eqb]. 
    destruct (c_stor c) as [|[|[|[|n]]]]; unfold headz at 1; cbn [Z.eqb];
      (destruct (is_conv c); unfold headz at 1; cbn [Z.eqb]; unfold headz at 1; cbn [Z.eqb]; reflexivity). }
  rewrite F44. rewrite WO. rewrite RO. cbn [andb].
  (* event lines *)
  rewrite !filter_app.
  rewrite (filter_none is_event_line TL) by (eapply Forall_impl; [|exact TC]; cbn; tauto).
  rewrite (filter_all is_event_line EL) by (eapply Forall_impl; [|exact EC]; cbn; tauto).
  assert (FE : filter is_event_line FL = []).
  { unfold FL, expected_final. cbn [filter]. unfold is_event_line, headz.
    destruct (c_stor c) as [|[|[|[|n]]]]; cbn; destruct (is_conv c); reflexivity. }
  rewrite FE. cbn [app]. rewrite app_nil_r.
  unfold EL at 1. rewrite (final_events c s seq V R T). rewrite lists_eqb_refl. cbn [andb].
  (* step numbers *)
  assert (SM : steps_mono 0 EL = true).
  { unfold EL. destruct seq; [apply steps_mono_seq|]. apply (steps_mono_ctl c (log s) 0). apply (tinv_reachable c s R). }
  rewrite SM. cbn [andb].
  (* summary lines *)
  rewrite (filter_none is_final_line TL) by (eapply Forall_impl; [|exact TC]; cbn; tauto).
  rewrite (filter_none is_final_line EL) by (eapply Forall_impl; [|exact EC]; cbn; tauto).
  assert (FF : filter is_final_line FL = FL).
  { unfold FL, expected_final. cbn [filter]. unfold is_final_line, headz.
    destruct (c_stor c) as [|[|[|[|n]]]]; cbn; destruct (is_conv c); reflexivity. }
  cbn [app]. rewrite FF, lists_eqb_refl. cbn [andb].
  (* no deadlock line *)
  rewrite !existsb_app.
  rewrite (existsb_none _ TL) by (eapply Forall_impl; [|exact TC]; cbn; tauto).
  rewrite (existsb_none _ EL) by (eapply Forall_impl; [|exact EC]; cbn; tauto).
  unfold FL, expected_final. cbn [existsb]. unfold headz.
  destruct (c_stor c) as [|[|[|[|n]]]]; cbn; destruct (is_conv c); reflexivity.
Qed.

(* ---------- the statements of Properties_C18.v, bundled (each Print Assumptions there walks the whole development) ---------- *)
Theorem progress_all c :
  valid c = true ->
  (forall s, reachable c s -> terminal s -> th0 s = [] /\ th1 s = [] /\ th2 s = []) /\
  (forall sched fuel, 90 <= fuel -> terminal (fst (run_sched c fuel (init c) sched []))) /\
  (forall fuel s sched tr, reachable c s -> reachable c (fst (run_sched c fuel s sched tr))).
Proof.
  intros V. split; [|split].
  - intros s R T. apply (terminal_done c); assumption.
  - intros sched fuel F. apply every_schedule_terminates; assumption.
  - intros fuel s sched tr R. apply run_sched_reachable. exact R.
Qed.

Theorem fires_once_all c s : valid c = true -> reachable c s ->
  (ncb s <= 1 + re c /\ nfire s <= 1 /\ nfire2 s <= re c) /\ (terminal s -> ncb s = b2n (has_cb (c_ad c)) + re c).
Proof. intros V R. split; [apply (fires_at_most_once c); assumption|intros T; apply fires_exactly_once; assumption]. Qed.

Theorem conv_all c s : valid c = true -> reachable c s ->
  (nores s <= 1 /\ nconv s <= b2n (isv (payload s)) /\ ndeliv s <= nores s /\
   (oslot s = SReady -> opayload s = conv_result c (payload s))) /\
  (is_conv c = true -> terminal s ->
   oslot s = SReady /\ opayload s = conv_result c (wout c s) /\ nores s = 1 /\ ndeliv s = 1 /\
   nconv s = b2n (isv (wout c s)) /\
   exists t1 t2, log s = conv_log c (wout c s) t1 ++ [(t2, EODeliv (conv_result c (wout c s)))]).
Proof. intros V R. split; [apply (conv_safe c); assumption|intros C T; apply conv_final; assumption]. Qed.

Theorem callbacks_all c s : valid c = true -> reachable c s ->
  ((ncb s <= 1 + re c /\ nfire s <= 1 /\ nfire2 s <= re c) /\ (terminal s -> ncb s = b2n (has_cb (c_ad c)) + re c)) /\
  (forall t o al fr, In (t, ECb o al fr) (log s) ->
     ((o = payload s /\ o = wout c s) \/ (re c = 1 /\ o = payload2 s /\ o = out_of (kind_re c))) /\ al = hb c /\ fr = 0).
Proof.
  intros V R. split; [apply fires_once_all; assumption|]. intros t o al fr H. apply (right_outcome c s t); assumption.
Qed.

Theorem release_all c s : valid c = true -> reachable c s ->
  (frees s <= allocs s /\ allocs s = hb c /\
   (frees s >= 1 -> atomic_cb c = true -> exists pre post t, log s = pre ++ cb_log c (payload s) t ++ post) /\
   (terminal s -> frees s = allocs s)) /\
  (terminal s -> Final c s).
Proof. intros V R. split; [apply released_once; assumption|intros T; apply terminal_final; assumption]. Qed.
