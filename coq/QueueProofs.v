(* QueueProofs.v — invariants, refinement and conservation/order theorems for the queue models of
   QueueDefs.v.  Everything is for op sequences of any length, any number of parked / blocked parties,
   any limit >= 1. *)
From Cocls Require Import Base BaseProofs QueueDefs.
Require Import ZifyBool.
Local Open Scope Z_scope.
Ltac Zify.zify_post_hook ::= Z.div_mod_to_equations.

(* =====================================================================================
   Part 0 — lists, stores, parked-promise shape
   ===================================================================================== *)
Lemma zlen_app {A} (a b : list A) : zlen (a ++ b) = zlen a + zlen b.
Proof. unfold zlen. rewrite app_length. lia. Qed.
Lemma zlen_cons {A} (x : A) l : zlen (x :: l) = zlen l + 1.
Proof. unfold zlen. cbn [length]. lia. Qed.
Lemma zlen_nil {A} : zlen (@nil A) = 0. Proof. reflexivity. Qed.
Lemma zlen_nonneg {A} (l : list A) : 0 <= zlen l. Proof. unfold zlen. lia. Qed.
Lemma zlen_zero {A} (l : list A) : zlen l = 0 -> l = [].
Proof. destruct l; [reflexivity|]. rewrite zlen_cons. pose proof (zlen_nonneg l). lia. Qed.

Lemma set_nth_app_here {A} (a : list A) y b x : set_nth (a ++ y :: b) (length a) x = a ++ x :: b.
Proof. induction a as [|z a IH]; cbn [app length set_nth]; [reflexivity|]. rewrite IH. reflexivity. Qed.

Lemma set_nth_app_left {A} (a b : list A) p x : (p < length a)%nat -> set_nth (a ++ b) p x = set_nth a p x ++ b.
Proof.
  revert p; induction a as [|z a IH]; intros [|p] H; cbn [length] in H; try lia; cbn [app set_nth]; [reflexivity|].
  rewrite IH by lia. reflexivity.
Qed.

Lemma set_nth_length {A} (l : list A) p x : length (set_nth l p x) = length l.
Proof. revert p; induction l as [|z l IH]; intros [|p]; cbn [set_nth length]; auto. Qed.

Lemma fget_app_left a b i : (i < length a)%nat -> fget (a ++ b) i = fget a i.
Proof. intros H. unfold fget. apply app_nth1. exact H. Qed.

Lemma fget_app_here a x b : fget (a ++ x :: b) (length a) = x.
Proof. unfold fget. rewrite app_nth2 by lia. rewrite Nat.sub_diag. reflexivity. Qed.

Lemma fget_set_same l p x : (p < length l)%nat -> fget (set_nth l p x) p = x.
Proof.
  unfold fget. revert p; induction l as [|z l IH]; intros [|p] H; cbn [length] in H; try lia; cbn [set_nth nth]; [reflexivity|].
  apply IH. lia.
Qed.

Lemma fget_set_other l p q x : p <> q -> fget (set_nth l p x) q = fget l q.
Proof.
  unfold fget. revert p q; induction l as [|z l IH]; intros [|p] [|q] H; cbn [set_nth nth]; try reflexivity; try congruence.
  apply IH. congruence.
Qed.

Lemma repeat_snoc {A} (x : A) n : repeat x n ++ [x] = repeat x (S n).
Proof. induction n as [|n IH]; cbn [repeat app]; [reflexivity|]. rewrite IH. reflexivity. Qed.

(* The parked pops are always the newest futures, all still pending, in creation order:
   futs = done ++ [Pending; ..; Pending],  waiters = [|done|; |done|+1; ..]. *)
Definition shape (fs : list fstate) (ws : list nat) (done : list fstate) : Prop :=
  fs = done ++ repeat FPending (length ws) /\ ws = seq (length done) (length ws).

Lemma shape_nil : shape [] [] [].
Proof. split; reflexivity. Qed.

Lemma shape_park fs ws done : shape fs ws done -> shape (fs ++ [FPending]) (ws ++ [length fs]) done.
Proof.
  intros [F W]. split.
  - rewrite app_length. cbn [length]. rewrite Nat.add_1_r. rewrite <- repeat_snoc. rewrite app_assoc. congruence.
  - rewrite app_length. cbn [length]. rewrite Nat.add_1_r. rewrite seq_S. rewrite <- W.
    f_equal. f_equal. rewrite F at 1. rewrite app_length, repeat_length. reflexivity.
Qed.

Lemma shape_ready fs done x : shape fs [] done -> shape (fs ++ [x]) [] (fs ++ [x]) /\ fs = done.
Proof.
  intros [F _]. cbn [length repeat] in F. rewrite app_nil_r in F. split; [|exact F].
  split; cbn [length repeat seq]; [rewrite app_nil_r; reflexivity|reflexivity].
Qed.

(* the oldest waiter is the first pending slot; resolving it moves it into the `done` part *)
Lemma shape_take fs p w done x : shape fs (p :: w) done ->
  p = length done /\ fs = done ++ FPending :: repeat FPending (length w) /\
  set_nth fs p x = (done ++ [x]) ++ repeat FPending (length w) /\
  shape (set_nth fs p x) w (done ++ [x]).
Proof.
  intros [F W]. cbn [length repeat seq] in *. injection W as Wp Ww.
  assert (set_nth fs p x = (done ++ [x]) ++ repeat FPending (length w)) as S.
  { rewrite F, Wp. rewrite set_nth_app_here. rewrite <- app_assoc. reflexivity. }
  refine (conj Wp (conj F (conj S _))). split; [exact S|].
  rewrite app_length. cbn [length]. rewrite Nat.add_1_r. exact Ww.
Qed.

Lemma cancel_all_seq done m : cancel_all (done ++ repeat FPending m) (seq (length done) m) = done ++ repeat FCanceled m.
Proof.
  revert done; induction m as [|m IH]; intros done; cbn [repeat seq cancel_all]; [reflexivity|].
  rewrite set_nth_app_here.
  change (done ++ FCanceled :: repeat FPending m) with (done ++ [FCanceled] ++ repeat FPending m).
  rewrite app_assoc. specialize (IH (done ++ [FCanceled])).
  rewrite app_length in IH. cbn [length] in IH. rewrite Nat.add_1_r in IH. rewrite IH.
  rewrite <- app_assoc. reflexivity.
Qed.

Lemma shape_cancel fs ws done : shape fs ws done ->
  cancel_all fs ws = done ++ repeat FCanceled (length ws) /\
  shape (cancel_all fs ws) [] (done ++ repeat FCanceled (length ws)).
Proof.
  intros [F W]. assert (cancel_all fs ws = done ++ repeat FCanceled (length ws)) as C.
  { rewrite F at 1. rewrite W at 2. apply cancel_all_seq. }
  split; [exact C|]. split; cbn [length repeat seq]; [rewrite app_nil_r; exact C|reflexivity].
Qed.

(* traces *)
Lemma zlist_eqb_refl l : zlist_eqb l l = true.
Proof. induction l as [|x l IH]; cbn [zlist_eqb]; [reflexivity|]. rewrite Z.eqb_refl, IH. reflexivity. Qed.
Lemma trace_eqb_refl l : trace_eqb l l = true.
Proof. induction l as [|x l IH]; cbn [trace_eqb]; [reflexivity|]. rewrite zlist_eqb_refl, IH. reflexivity. Qed.
Lemma zlist_eqb_eq a : forall b, zlist_eqb a b = true -> a = b.
Proof.
  induction a as [|x a IH]; intros [|y b] H; cbn [zlist_eqb] in H; try discriminate; [reflexivity|].
  apply andb_true_iff in H as [E H]. apply Z.eqb_eq in E. f_equal; auto.
Qed.
Lemma trace_eqb_eq a : forall b, trace_eqb a b = true -> a = b.
Proof.
  induction a as [|x a IH]; intros [|y b] H; cbn [trace_eqb] in H; try discriminate; [reflexivity|].
  apply andb_true_iff in H as [E H]. apply zlist_eqb_eq in E. f_equal; auto.
Qed.

(* values held by pop futures, in creation (= pop arrival) order *)
Definition val_of (f : fstate) : list Z := match f with FValue v => [v] | _ => [] end.
Definition delivered (fs : list fstate) : list Z := flat_map val_of fs.

Lemma delivered_app a b : delivered (a ++ b) = delivered a ++ delivered b.
Proof. unfold delivered. apply flat_map_app. Qed.
Lemma delivered_repeat_pending m : delivered (repeat FPending m) = [].
Proof. induction m as [|m IH]; cbn; [reflexivity|exact IH]. Qed.
Lemma delivered_repeat_canceled m : delivered (repeat FCanceled m) = [].
Proof. induction m as [|m IH]; cbn; [reflexivity|exact IH]. Qed.

(* =====================================================================================
   Part 1 — queue<T>, sequential engine: refinement to the FIFO specification
   ===================================================================================== *)
Definition qrel (q : queue) (s : qspec) : Prop :=
  s_futs s = futs q /\ s_alive s = alive q /\
  match bal s with
  | BItems l => items q = l /\ waiters q = []
  | BWait w => waiters q = w /\ items q = []
  end.

Lemma q_refines_step q s x : qrel q s ->
  qrel (fst (q_step q x)) (fst (qs_step s x)) /\ snd (q_step q x) = snd (qs_step s x).
Proof.
  intros (F & A & B). unfold q_step, qs_step. rewrite A.
  destruct q as [it ws fs al]; destruct s as [b sf sa]; cbn [items waiters futs alive bal s_futs s_alive] in *.
  subst sf sa.
  destruct al; cbn [negb]; [|split; [repeat split; assumption|reflexivity]].
  destruct x as [v| |e| | |k v|k| ];
    try (split; [repeat split; assumption|reflexivity]);
    destruct b as [l|w]; destruct B as [B1 B2]; subst;
    unfold q_push, q_push_lock, q_resolve, q_pop, q_unblock_pop, q_destroy, q_obs, qs_obs, qrel;
    cbn [items waiters futs alive bal s_futs s_alive fst snd bal_size].
  - (* push, items *) split; [repeat split|reflexivity].
  - (* push, waiters *) destruct w as [|p w]; cbn [fst snd items waiters futs alive app];
      (split; [repeat split|reflexivity]).
  - (* pop, items *) destruct l as [|x t]; cbn [fst snd items waiters futs alive app];
      (split; [repeat split|reflexivity]).
  - (* pop, waiters *) cbn [fst snd]. split; [repeat split|reflexivity].
  - (* unblock, items *) cbn [fst snd]. split; [repeat split|reflexivity].
  - (* unblock, waiters *) destruct w as [|p w]; cbn [fst snd items waiters futs alive];
      (split; [repeat split|reflexivity]).
  - (* size *) split; [repeat split|reflexivity].
  - split; [repeat split|reflexivity].
  - (* destroy *) split; [repeat split|]. cbn [cancel_all]. reflexivity.
  - split; [repeat split|reflexivity].
Qed.

Lemma q_refines_run ops : forall q s, qrel q s ->
  fst (q_run_from q ops) = fst (qs_run_from s ops) /\ qrel (snd (q_run_from q ops)) (snd (qs_run_from s ops)).
Proof.
  induction ops as [|x ops IH]; intros q s R; cbn [q_run_from qs_run_from]; [split; [reflexivity|exact R]|].
  pose proof (q_refines_step q s x R) as [R1 O].
  destruct (q_step q x) as [q1 o]. destruct (qs_step s x) as [s1 o']. cbn [fst snd] in *. subst o'.
  specialize (IH q1 s1 R1). destruct (q_run_from q1 ops) as [os q2]. destruct (qs_run_from s1 ops) as [os' s2].
  cbn [fst snd] in *. destruct IH as [E R2]. subst os'. split; [reflexivity|exact R2].
Qed.

Lemma qrel0 : qrel q0 qs0.
Proof. repeat split. Qed.

(* every observation the model makes is the observation the FIFO specification makes *)
Theorem q_refines_fifo ops : q_run ops = qs_run ops.
Proof. unfold q_run, qs_run. apply q_refines_run. exact qrel0. Qed.

Theorem q_oracle_accepts_model ops : q_oracle ops (q_run ops) = true.
Proof. unfold q_oracle. rewrite q_refines_fifo. apply trace_eqb_refl. Qed.

(* =====================================================================================
   Part 2 — conservation, order and completion of pops, proved once on the FIFO specification and
   transported to queue<T> (qrel) and queue<void> (vrel)
   ===================================================================================== *)
Definition nopend (l : list fstate) : Prop := Forall (fun f => f <> FPending) l.
Definition itemlist (b : balance) : list Z := match b with BItems l => l | BWait _ => [] end.
Definition waitlist (b : balance) : list nat := match b with BItems _ => [] | BWait w => w end.
Definition is_destroy (x : qop) : bool := match x with QDestroy => true | _ => false end.
Definition push_val (x : qop) : list Z := match x with QPush v => [v] | _ => [] end.
Definition pushed_vals (l : list qop) : list Z := flat_map push_val l.
Definition no_destroy (l : list qop) : Prop := Forall (fun x => is_destroy x = false) l.

(* the i-th pop is the oldest one still waiting *)
Definition oldest_pending (fs : list fstate) (i : nat) : Prop :=
  fget fs i = FPending /\ forall j, (j < i)%nat -> fget fs j <> FPending.

Lemma nopend_app a b : nopend a -> nopend b -> nopend (a ++ b).
Proof. intros A B. apply Forall_app. split; assumption. Qed.
Lemma nopend_one f : f <> FPending -> nopend [f].
Proof. intros H. constructor; [exact H|constructor]. Qed.

Lemma fget_app_right a b i : (length a <= i)%nat -> fget (a ++ b) i = fget b (i - length a).
Proof. intros H. unfold fget. apply app_nth2. lia. Qed.
Lemma fget_repeat x n j : (j < n)%nat -> fget (repeat x n) j = x.
Proof. revert j; induction n as [|n IH]; intros [|j] H; cbn [repeat]; unfold fget in *; cbn [nth]; try lia; [reflexivity|]. apply IH. lia. Qed.
Lemma fget_beyond l i : (length l <= i)%nat -> fget l i = FCanceled.
Proof. intros H. unfold fget. apply nth_overflow. exact H. Qed.
Lemma nopend_fget done i : nopend done -> (i < length done)%nat -> fget done i <> FPending.
Proof.
  intros N H. unfold nopend in N. rewrite Forall_forall in N. apply N. unfold fget. apply nth_In. exact H.
Qed.

(* in a store of the form done ++ Pending^n the pending futures are exactly the ids |done| .. |done|+n-1 *)
Lemma pending_range done n i : nopend done -> fget (done ++ repeat FPending n) i = FPending ->
  (length done <= i < length done + n)%nat.
Proof.
  intros N H. destruct (Nat.lt_ge_cases i (length done)) as [L|L].
  - rewrite fget_app_left in H by exact L. exfalso. exact (nopend_fget done i N L H).
  - split; [exact L|]. destruct (Nat.lt_ge_cases i (length done + n)) as [L2|L2]; [exact L2|].
    rewrite fget_beyond in H; [discriminate|]. rewrite app_length, repeat_length. exact L2.
Qed.
Lemma oldest_is_first done n : nopend done -> (0 < n)%nat -> oldest_pending (done ++ repeat FPending n) (length done).
Proof.
  intros N H. split.
  - rewrite fget_app_right by lia. rewrite Nat.sub_diag. apply fget_repeat. exact H.
  - intros j L. rewrite fget_app_left by exact L. apply nopend_fget; assumption.
Qed.
Lemma oldest_unique fs i j : oldest_pending fs i -> oldest_pending fs j -> i = j.
Proof.
  intros [A1 A2] [B1 B2]. destruct (Nat.lt_trichotomy i j) as [L|[L|L]]; [|exact L|].
  - exfalso. exact (B2 i L A1).
  - exfalso. exact (A2 j L B1).
Qed.

Lemma delivered_nopend_tail done n : delivered (done ++ repeat FPending n) = delivered done.
Proof. rewrite delivered_app, delivered_repeat_pending, app_nil_r. reflexivity. Qed.

Record sinv (pv : list Z) (s : qspec) (done : list fstate) : Prop := mkSinv {
  si_alive : s_alive s = true;
  si_shape : shape (s_futs s) (waitlist (bal s)) done;
  si_nopend : nopend done;
  si_cons : pv = delivered (s_futs s) ++ itemlist (bal s)
}.

Lemma sinv0 : sinv [] qs0 [].
Proof. split; cbn; try reflexivity; [exact shape_nil|constructor]. Qed.

Lemma sinv_step pv s done x : sinv pv s done -> is_destroy x = false ->
  exists done', sinv (pv ++ push_val x) (fst (qs_step s x)) done'.
Proof.
  intros [A Sh N C] ND. unfold qs_step. rewrite A. cbn [negb].
  destruct s as [b sf sa]; cbn [bal s_futs s_alive] in *. subst sa.
  destruct x as [v| |e| | |k v|k| ]; cbn [push_val is_destroy] in *; try discriminate;
    try (exists done; rewrite app_nil_r; split; cbn [fst bal s_futs s_alive]; (assumption || reflexivity)).
  - (* push *)
    destruct b as [l|[|p w]]; cbn [waitlist itemlist fst bal s_futs s_alive] in *.
    + exists done. split; cbn [bal s_futs s_alive waitlist itemlist]; try assumption; try reflexivity.
      rewrite C. rewrite app_assoc. reflexivity.
    + exists done. split; cbn [bal s_futs s_alive waitlist itemlist]; try assumption; try reflexivity.
      rewrite C. rewrite app_nil_r. reflexivity.
    + pose proof (shape_take sf p w done (FValue v) Sh) as (Hp & Hf & Hs & Hsh).
      exists (done ++ [FValue v]). split; cbn [bal s_futs s_alive waitlist itemlist]; try assumption; try reflexivity.
      * apply nopend_app; [exact N|apply nopend_one; discriminate].
      * rewrite C, Hs. rewrite Hf. rewrite !delivered_app. cbn [delivered flat_map val_of app].
        rewrite !delivered_repeat_pending. rewrite !app_nil_r. reflexivity.
  - (* pop *)
    rewrite app_nil_r.
    destruct b as [[|y t]|w]; cbn [waitlist itemlist fst bal s_futs s_alive] in *.
    + exists done. split; cbn [bal s_futs s_alive waitlist itemlist]; try assumption; try reflexivity.
      * apply (shape_park sf [] done Sh).
      * rewrite C. rewrite delivered_app. cbn. rewrite !app_nil_r. reflexivity.
    + pose proof (shape_ready sf done (FValue y) Sh) as [Sh' E].
      exists (sf ++ [FValue y]). split; cbn [bal s_futs s_alive waitlist itemlist]; try assumption; try reflexivity.
      * apply nopend_app; [rewrite E; exact N|apply nopend_one; discriminate].
      * rewrite C. rewrite delivered_app. cbn [delivered flat_map val_of app]. rewrite <- app_assoc. reflexivity.
    + exists done. split; cbn [bal s_futs s_alive waitlist itemlist]; try assumption; try reflexivity.
      * apply (shape_park sf w done Sh).
      * rewrite C. rewrite delivered_app. cbn. rewrite !app_nil_r. reflexivity.
  - (* unblock_pop *)
    rewrite app_nil_r.
    destruct b as [l|[|p w]]; cbn [waitlist itemlist fst bal s_futs s_alive] in *;
      try (exists done; split; cbn [bal s_futs s_alive waitlist itemlist]; (assumption || reflexivity)).
    pose proof (shape_take sf p w done (FExc e) Sh) as (Hp & Hf & Hs & Hsh).
    exists (done ++ [FExc e]). split; cbn [bal s_futs s_alive waitlist itemlist]; try assumption; try reflexivity.
    + apply nopend_app; [exact N|apply nopend_one; discriminate].
    + rewrite C, Hs. rewrite Hf. rewrite !delivered_app. cbn [delivered flat_map val_of app].
      rewrite !delivered_repeat_pending. rewrite !app_nil_r. reflexivity.
Qed.

Lemma sinv_run ops : forall pv s done, sinv pv s done -> no_destroy ops ->
  exists done', sinv (pv ++ pushed_vals ops) (snd (qs_run_from s ops)) done'.
Proof.
  induction ops as [|x ops IH]; intros pv s done I ND; cbn [qs_run_from pushed_vals flat_map].
  - exists done. rewrite app_nil_r. exact I.
  - inversion ND as [|x' l' Hx Hl]; subst.
    destruct (sinv_step pv s done x I Hx) as [d1 I1].
    destruct (qs_step s x) as [s1 o] eqn:E. cbn [fst] in I1.
    destruct (IH _ _ _ I1 Hl) as [d2 I2].
    destruct (qs_run_from s1 ops) as [os s2]. cbn [snd] in *.
    exists d2. rewrite app_assoc. exact I2.
Qed.

(* ---- transport to queue<T> ---- *)
Definition q_final (ops : list qop) : queue := snd (q_run_from q0 ops).
Definition qs_final (ops : list qop) : qspec := snd (qs_run_from qs0 ops).

Lemma qrel_final ops : qrel (q_final ops) (qs_final ops).
Proof. apply q_refines_run. exact qrel0. Qed.

Lemma qrel_items q s : qrel q s -> items q = itemlist (bal s) /\ waiters q = waitlist (bal s).
Proof. intros (_ & _ & B). destruct (bal s); cbn; destruct B; split; congruence. Qed.

Theorem q_not_both_nonempty ops : items (q_final ops) = [] \/ waiters (q_final ops) = [].
Proof.
  pose proof (qrel_final ops) as (_ & _ & B). destruct (bal (qs_final ops)); destruct B; [right|left]; assumption.
Qed.

(* the state reached by a history without destruction *)
Record q_good (pv : list Z) (q : queue) (done : list fstate) : Prop := mkQGood {
  qg_alive : alive q = true;
  qg_futs : futs q = done ++ repeat FPending (length (waiters q));
  qg_waiters : waiters q = seq (length done) (length (waiters q));
  qg_nopend : nopend done;
  qg_excl : items q = [] \/ waiters q = [];
  qg_cons : pv = delivered (futs q) ++ items q
}.

Lemma q_good_run ops : no_destroy ops -> exists done, q_good (pushed_vals ops) (q_final ops) done.
Proof.
  intros ND. destruct (sinv_run ops [] qs0 [] sinv0 ND) as [done [A Sh N C]].
  pose proof (qrel_final ops) as R. pose proof (qrel_items _ _ R) as [EI EW]. destruct R as (F & AL & B).
  fold (qs_final ops) in A, Sh, C. exists done. destruct Sh as [S1 S2]. rewrite <- EW in S1, S2. rewrite F in S1.
  split; try assumption.
  - congruence.
  - apply q_not_both_nonempty.
  - cbn [app] in C. rewrite C, F, EI. reflexivity.
Qed.

(* conservation + order: the values pushed, in push order, are exactly the values held by the pop futures read
   in pop-arrival order, followed by the items still queued.  (List equality: no loss, no duplicate, no swap.) *)
Theorem q_conservation_order ops : no_destroy ops ->
  pushed_vals ops = delivered (futs (q_final ops)) ++ items (q_final ops).
Proof. intros ND. destruct (q_good_run ops ND) as [done G]. exact (qg_cons _ _ _ G). Qed.

(* pending pops are exactly the parked promises, in arrival order *)
Theorem q_pending_are_waiters ops : no_destroy ops ->
  forall i, fget (futs (q_final ops)) i = FPending <-> In i (waiters (q_final ops)).
Proof.
  intros ND i. destruct (q_good_run ops ND) as [done [A F W N X C]].
  set (q := q_final ops) in *. rewrite W, F. rewrite in_seq. split.
  - intros H. apply pending_range in H; [lia|exact N].
  - intros H. rewrite fget_app_right by lia. apply fget_repeat. lia.
Qed.

(* a pending pop changes state only in three ways; in the first two it is the OLDEST pending pop *)
Theorem q_pop_completes_only_by pv q done x i :
  q_good pv q done -> fget (futs q) i = FPending -> fget (futs (fst (q_step q x))) i <> FPending ->
  (exists v, x = QPush v /\ oldest_pending (futs q) i /\ fget (futs (fst (q_step q x))) i = FValue v) \/
  (exists e, x = QUnblockPop e /\ oldest_pending (futs q) i /\ fget (futs (fst (q_step q x))) i = FExc e) \/
  (x = QDestroy /\ fget (futs (fst (q_step q x))) i = FCanceled).
Proof.
  intros [A F W N X C] P. unfold q_step. rewrite A. cbn [negb].
  pose proof P as R. rewrite F in R. apply pending_range in R; [|exact N].
  destruct q as [it ws fs al]; cbn [items waiters futs alive] in *.
  destruct x as [v| |e| | |k v|k| ]; cbn [fst futs]; try (intros H; exfalso; exact (H P)).
  - (* push *)
    unfold q_push, q_push_lock. cbn [waiters items futs alive]. destruct ws as [|p w]; cbn [fst futs q_resolve items waiters alive].
    + intros H; exfalso; exact (H P).
    + cbn [length seq] in W. injection W as Wp Ww. intros H. left. exists v. split; [reflexivity|].
      destruct (Nat.eq_dec p i) as [E|E].
      * subst i. split; [|apply fget_set_same; rewrite F, app_length, repeat_length; cbn [length]; lia].
        rewrite Wp, F. apply oldest_is_first; [exact N|cbn [length]; lia].
      * exfalso. apply H. rewrite fget_set_other by exact E. exact P.
  - (* pop *)
    unfold q_pop. cbn [items waiters futs alive]. destruct it as [|y t]; cbn [fst futs];
      intros H; exfalso; apply H; rewrite fget_app_left; [exact P| |exact P|];
      rewrite F, app_length, repeat_length; lia.
  - (* unblock *)
    unfold q_unblock_pop. cbn [waiters items futs alive]. destruct ws as [|p w]; cbn [fst futs].
    + intros H; exfalso; exact (H P).
    + cbn [length seq] in W. injection W as Wp Ww. intros H. right; left. exists e. split; [reflexivity|].
      destruct (Nat.eq_dec p i) as [E|E].
      * subst i. split; [|apply fget_set_same; rewrite F, app_length, repeat_length; cbn [length]; lia].
        rewrite Wp, F. apply oldest_is_first; [exact N|cbn [length]; lia].
      * exfalso. apply H. rewrite fget_set_other by exact E. exact P.
  - (* destroy *)
    intros _. right; right. split; [reflexivity|]. unfold q_destroy. cbn [futs waiters].
    rewrite F. rewrite W at 2. rewrite cancel_all_seq. rewrite fget_app_right by lia. apply fget_repeat. lia.
Qed.

(* push with somebody waiting serves exactly the oldest pending pop with the pushed value and touches nothing else;
   unblock_pop fails exactly the oldest pending pop with the given exception *)
Theorem q_push_serves_oldest pv q done v i :
  q_good pv q done -> oldest_pending (futs q) i ->
  futs (fst (q_step q (QPush v))) = set_nth (futs q) i (FValue v) /\
  waiters q = i :: waiters (fst (q_step q (QPush v))) /\ items (fst (q_step q (QPush v))) = [].
Proof.
  intros [A F W N X C] O. unfold q_step. rewrite A. cbn [negb].
  destruct O as [P O]. pose proof P as R. rewrite F in R. apply pending_range in R; [|exact N].
  destruct q as [it ws fs al]; cbn [items waiters futs alive] in *.
  unfold q_push, q_push_lock. cbn [waiters items futs alive].
  destruct ws as [|p w]; cbn [length] in R; [lia|].
  cbn [length seq] in W. injection W as Wp Ww.
  assert (i = p) as ->.
  { apply (oldest_unique fs); [split; assumption|]. rewrite Wp, F. apply oldest_is_first; [exact N|cbn [length]; lia]. }
  cbn [fst futs q_resolve items waiters alive]. destruct X as [X|X]; [|discriminate]. repeat split; assumption.
Qed.

Theorem q_unblock_pop_hits_oldest pv q done e i :
  q_good pv q done -> oldest_pending (futs q) i ->
  futs (fst (q_step q (QUnblockPop e))) = set_nth (futs q) i (FExc e) /\
  waiters q = i :: waiters (fst (q_step q (QUnblockPop e))) /\ items (fst (q_step q (QUnblockPop e))) = items q.
Proof.
  intros [A F W N X C] O. unfold q_step. rewrite A. cbn [negb].
  destruct O as [P O]. pose proof P as R. rewrite F in R. apply pending_range in R; [|exact N].
  destruct q as [it ws fs al]; cbn [items waiters futs alive] in *.
  unfold q_unblock_pop. cbn [waiters items futs alive].
  destruct ws as [|p w]; cbn [length] in R; [lia|].
  cbn [length seq] in W. injection W as Wp Ww.
  assert (i = p) as ->.
  { apply (oldest_unique fs); [split; assumption|]. rewrite Wp, F. apply oldest_is_first; [exact N|cbn [length]; lia]. }
  cbn [fst futs items waiters alive]. repeat split.
Qed.

(* destruction: every pending pop becomes canceled, every completed pop keeps its result; afterwards every op is rejected *)
Theorem q_destroy_cancels pv q done i :
  q_good pv q done ->
  fget (futs (q_destroy q)) i = (if fstate_eqb (fget (futs q) i) FPending then FCanceled else fget (futs q) i).
Proof.
  intros [A F W N X C]. unfold q_destroy. cbn [futs]. rewrite F at 1. rewrite W at 2. rewrite cancel_all_seq.
  rewrite F. destruct (Nat.lt_ge_cases i (length done)) as [L|L].
  - rewrite !fget_app_left by exact L. pose proof (nopend_fget done i N L) as H.
    destruct (fget done i); cbn [fstate_eqb]; try reflexivity. congruence.
  - rewrite !fget_app_right by exact L. destruct (Nat.lt_ge_cases (i - length done) (length (waiters q))) as [L2|L2].
    + rewrite !fget_repeat by exact L2. reflexivity.
    + rewrite !fget_beyond by (rewrite repeat_length; exact L2). reflexivity.
Qed.

Theorem q_dead_rejects q x : alive q = false -> q_step q x = (q, rejected).
Proof. intros H. unfold q_step. rewrite H. reflexivity. Qed.

(* =====================================================================================
   Part 3 — queue<void>: the counter refines the FIFO of unit items; a counting semaphore
   ===================================================================================== *)
Definition vrel (q : vqueue) (s : qspec) : Prop :=
  s_futs s = vfuts q /\ s_alive s = valive q /\ 0 <= vcnt q /\
  match bal s with
  | BItems l => l = repeat 0 (Z.to_nat (vcnt q)) /\ vwaiters q = []
  | BWait w => vwaiters q = w /\ vcnt q = 0
  end.

Lemma zlen_repeat {A} (x : A) n : zlen (repeat x n) = Z.of_nat n.
Proof. unfold zlen. rewrite repeat_length. reflexivity. Qed.

(* queue<void>::push carries no value: the wire decoder produces QPush 0 only *)
Definition voidop (x : qop) : Prop := match x with QPush v => v = 0 | _ => True end.
Lemma voidop_decode l : voidop (vq_decode l).
Proof.
  unfold vq_decode. repeat (match goal with |- voidop (match ?x with _ => _ end) => destruct x end; try exact I); reflexivity.
Qed.

Lemma ok_obs_eq r a b d : a = b -> ok_obs r a d = ok_obs r b d.
Proof. intros ->. reflexivity. Qed.
Ltac obs_eq := apply ok_obs_eq; rewrite ?zlen_app, ?zlen_repeat, ?zlen_cons, ?zlen_nil; lia.

Lemma vq_refines_step q s x : vrel q s -> voidop x ->
  vrel (fst (vq_step q x)) (fst (qs_step s x)) /\ snd (vq_step q x) = snd (qs_step s x).
Proof.
  intros (F & A & NN & B) VO. unfold vq_step, qs_step. rewrite A.
  destruct q as [c ws fs al]; destruct s as [b sf sa]; cbn [vcnt vwaiters vfuts valive bal s_futs s_alive] in *.
  subst sf sa.
  destruct al; cbn [negb]; [|split; [repeat split; assumption|reflexivity]].
  destruct x as [v| |e| | |k v|k| ];
    try (split; [repeat split; assumption|reflexivity]);
    destruct b as [l|w]; destruct B as [B1 B2]; cbn [voidop] in VO; subst;
    unfold vq_obs, qs_obs, vrel; cbn [vcnt vwaiters vfuts valive bal s_futs s_alive fst snd bal_size].
  - (* push, items *)
    split; [repeat split; try lia|].
    + replace (Z.to_nat (c + 1)) with (S (Z.to_nat c)) by lia. rewrite <- repeat_snoc. reflexivity.
    + obs_eq.
  - (* push, waiters *)
    destruct w as [|p w]; cbn [fst snd vcnt vwaiters vfuts valive bal s_futs s_alive bal_size].
    + split; [repeat split; lia|reflexivity].
    + split; [repeat split; lia|reflexivity].
  - (* pop, items *)
    destruct (c =? 0) eqn:E.
    + assert (c = 0) as -> by lia. cbn [Z.to_nat repeat]. cbn [fst snd vcnt vwaiters vfuts valive bal s_futs s_alive bal_size app].
      split; [repeat split; lia|reflexivity].
    + assert (Z.to_nat c = S (Z.to_nat (c - 1))) as EQ by lia. rewrite EQ. cbn [repeat].
      cbn [fst snd vcnt vwaiters vfuts valive bal s_futs s_alive bal_size].
      replace (Z.max 1 c - 1) with (c - 1) by lia.
      split; [repeat split; lia|]. obs_eq.
  - (* pop, waiters *)
    rewrite Z.eqb_refl. cbn [fst snd vcnt vwaiters vfuts valive bal s_futs s_alive bal_size].
    split; [repeat split; lia|reflexivity].
  - (* unblock, items *) cbn [fst snd]. split; [repeat split; try lia|]. obs_eq.
  - (* unblock, waiters *)
    destruct w as [|p w]; cbn [fst snd vcnt vwaiters vfuts valive bal s_futs s_alive bal_size];
      (split; [repeat split; lia|reflexivity]).
  - (* size *) split; [repeat split; try lia|]. obs_eq.
  - split; [repeat split; lia|reflexivity].
  - (* destroy *) split; [repeat split; lia|]. cbn [cancel_all]. reflexivity.
  - split; [repeat split; lia|reflexivity].
Qed.

Lemma vq_refines_run ops : forall q s, vrel q s -> Forall voidop ops ->
  fst (vq_run_from q ops) = fst (qs_run_from s ops) /\ vrel (snd (vq_run_from q ops)) (snd (qs_run_from s ops)).
Proof.
  induction ops as [|x ops IH]; intros q s R VO; cbn [vq_run_from qs_run_from]; [split; [reflexivity|exact R]|].
  inversion VO as [|x' l' Vx Vl]; subst.
  pose proof (vq_refines_step q s x R Vx) as [R1 O].
  destruct (vq_step q x) as [q1 o]. destruct (qs_step s x) as [s1 o']. cbn [fst snd] in *. subst o'.
  specialize (IH q1 s1 R1 Vl). destruct (vq_run_from q1 ops) as [os q2]. destruct (qs_run_from s1 ops) as [os' s2].
  cbn [fst snd] in *. destruct IH as [E R2]. subst os'. split; [reflexivity|exact R2].
Qed.

Lemma vrel0 : vrel vq0 qs0.
Proof. repeat split; cbn; lia. Qed.

Definition vq_final (ops : list qop) : vqueue := snd (vq_run_from vq0 ops).

Theorem vq_refines_fifo ops : vq_run ops = fst (qs_run_from qs0 (map vq_decode ops)).
Proof.
  unfold vq_run. apply vq_refines_run; [exact vrel0|]. apply Forall_forall. intros x H.
  apply in_map_iff in H as (l & <- & _). apply voidop_decode.
Qed.

Theorem vq_oracle_accepts_model ops : vq_oracle ops (vq_run ops) = true.
Proof. unfold vq_oracle. rewrite vq_refines_fifo. apply trace_eqb_refl. Qed.

(* counting semaphore: the counter is the number of pushes minus the number of pops that completed with a value,
   it is never negative, and pops wait only at zero *)
Definition completed (fs : list fstate) : Z := zlen (delivered fs).
Definition is_push (x : qop) : bool := match x with QPush _ => true | _ => false end.
Definition pushes (l : list qop) : Z := zlen (filter is_push l).

Lemma pushed_vals_length l : zlen (pushed_vals l) = pushes l.
Proof.
  unfold pushes, pushed_vals. induction l as [|x l IH]; [reflexivity|].
  cbn [flat_map filter]. destruct x; cbn [push_val is_push app]; try exact IH. rewrite !zlen_cons. lia.
Qed.

Theorem vq_semaphore ops : no_destroy ops -> Forall voidop ops ->
  vcnt (vq_final ops) = pushes ops - completed (vfuts (vq_final ops)) /\ 0 <= vcnt (vq_final ops) /\
  (vwaiters (vq_final ops) <> [] -> vcnt (vq_final ops) = 0).
Proof.
  intros ND. destruct (sinv_run ops [] qs0 [] sinv0 ND) as [done [A Sh N C]].
  intros VO. pose proof (vq_refines_run ops vq0 qs0 vrel0 VO) as [_ (F & AL & NN & B)].
  fold (vq_final ops) in *. cbn [app] in C. unfold completed.
  pose proof (pushed_vals_length ops) as PL. rewrite C in PL. rewrite zlen_app in PL. rewrite F in PL.
  destruct (bal (snd (qs_run_from qs0 ops))) as [l|w]; cbn [itemlist] in PL; destruct B as [B1 B2].
  - subst l. rewrite zlen_repeat in PL. split; [lia|]. split; [lia|]. intros H; contradiction.
  - rewrite zlen_nil in PL. split; [lia|]. split; [lia|]. intros _; exact B2.
Qed.

(* =====================================================================================
   Part 4 — limited_queue<T>: refinement to the bounded FIFO, conservation/order, blocked pushes
   ===================================================================================== *)
Definition adm (v : Z) : Z * option nat := (v, None).
Definition blk (e : Z * nat) : Z * option nat := (fst e, Some (snd e)).

Definition lrel (q : lqueue) (s : lspec) : Prop :=
  ls_futs s = l_futs q /\ ls_pfuts s = l_pfuts q /\ ls_alive s = l_alive q /\ ls_limit s = l_limit q /\
  ls_pend s = l_waiters q /\ ls_fifo s = map adm (l_items q) ++ map blk (l_blocked q).

(* size facts of a live limited_queue with limit >= 1 *)
Record lsz (q : lqueue) : Prop := mkLsz {
  lz_limit : 1 <= l_limit q;
  lz_size : zlen (l_items q) <= l_limit q;
  lz_full : l_blocked q <> [] -> zlen (l_items q) = l_limit q;
  lz_wait : l_waiters q <> [] -> l_items q = []
}.

Lemma filter_admitted its bs : filter admitted (map adm its ++ map blk bs) = map adm its.
Proof.
  induction its as [|x t IH]; cbn [map app filter].
  - induction bs as [|[y f] b IHb]; cbn [map filter]; [reflexivity|exact IHb].
  - cbn [admitted adm snd]. rewrite IH. reflexivity.
Qed.
Lemma ls_size_rel q s : lrel q s -> ls_size s = zlen (l_items q).
Proof. intros (_ & _ & _ & _ & _ & F). unfold ls_size. rewrite F, filter_admitted. unfold zlen. rewrite map_length. reflexivity. Qed.
Lemma lrel_obs q s q' s' r : lrel q s -> lrel q' s' -> lq_obs q q' r = ls_obs s s' r.
Proof.
  intros R R'. unfold lq_obs, ls_obs. rewrite (ls_size_rel _ _ R').
  destruct R as (F & P & _). destruct R' as (F' & P' & _). rewrite F, P, F', P'. reflexivity.
Qed.
Lemma admit_first_blocked t y bp b :
  admit_first (map adm t ++ map blk ((y, bp) :: b)) = (map adm (t ++ [y]) ++ map blk b, Some bp).
Proof.
  induction t as [|x t IH]; cbn [map app admit_first blk adm fst snd]; [reflexivity|].
  cbn [map app blk fst snd] in IH. rewrite IH. reflexivity.
Qed.
Lemma admit_first_none t : admit_first (map adm t) = (map adm t, None).
Proof. induction t as [|x t IH]; cbn [map]; [reflexivity|]. unfold adm at 1. cbn [admit_first]. rewrite IH. reflexivity. Qed.
Lemma drop_first_blocked t y bp b :
  drop_first (map adm t ++ map blk ((y, bp) :: b)) = (map adm t ++ map blk b, Some bp).
Proof.
  induction t as [|x t IH]; cbn [map app drop_first blk adm fst snd]; [reflexivity|].
  cbn [map app blk fst snd] in IH. rewrite IH. reflexivity.
Qed.
Lemma drop_first_none t : drop_first (map adm t) = (map adm t, None).
Proof. induction t as [|x t IH]; cbn [map]; [reflexivity|]. unfold adm at 1. cbn [drop_first]. rewrite IH. reflexivity. Qed.
Lemma pending_pushes_rel its bs : pending_pushes (map adm its ++ map blk bs) = map snd bs.
Proof.
  induction its as [|x t IH]; cbn [map app pending_pushes adm].
  - induction bs as [|[y f] b IHb]; cbn [map pending_pushes blk fst snd]; [reflexivity|]. rewrite IHb. reflexivity.
  - exact IH.
Qed.

Ltac lsz_fin :=
  cbn [l_items l_waiters l_blocked l_limit]; rewrite ?zlen_app, ?zlen_cons, ?zlen_nil in *;
  first [ assumption | lia | reflexivity
        | let H' := fresh "H'" in intros H'; first [ contradiction | discriminate | reflexivity | lia | tauto ] ].

Lemma lsz_step q x : lsz q -> l_alive q = true -> l_alive (fst (lq_step_on q x)) = true -> lsz (fst (lq_step_on q x)).
Proof.
  intros [L S F W] A. unfold lq_step_on. rewrite A. cbn [negb].
  destruct q as [it ws bl lim fs pf al]; cbn [l_items l_waiters l_blocked l_limit l_futs l_pfuts l_alive] in *.
  destruct x as [l|v| |e| | |e| ]; cbn [fst]; intros A'; try (split; assumption).
  - (* push *)
    unfold lq_push; cbn [l_items l_waiters l_blocked l_limit l_futs l_pfuts l_alive].
    destruct ws as [|p w]; cbn [fst].
    + destruct (zlen it >=? lim) eqn:E; cbn [fst].
      * split; lsz_fin.
      * assert (bl = []) as -> by (destruct bl; [reflexivity|]; exfalso; assert (zlen it = lim) by (apply F; discriminate); lia).
        split; lsz_fin.
    + assert (it = []) as -> by (apply W; discriminate).
      split; lsz_fin.
  - (* pop *)
    unfold lq_pop; cbn [l_items l_waiters l_blocked l_limit l_futs l_pfuts l_alive].
    destruct it as [|y t]; cbn [fst].
    + split; lsz_fin.
    + assert (ws = []) as -> by (destruct ws; [reflexivity|]; exfalso; assert (y :: t = []) by (apply W; discriminate); discriminate).
      destruct bl as [|[z bp] b]; cbn [fst].
      * split; lsz_fin.
      * assert (zlen (y :: t) = lim) as E by (apply F; discriminate).
        split; lsz_fin.
  - (* unblock_pop *)
    unfold lq_unblock_pop; cbn [l_items l_waiters l_blocked l_limit l_futs l_pfuts l_alive].
    destruct ws as [|p w]; cbn [fst]; [split; assumption|].
    assert (it = []) as -> by (apply W; discriminate). split; lsz_fin.
  - (* destroy *) cbn [lq_destroy l_alive] in A'. discriminate.
  - (* unblock_push *)
    unfold lq_unblock_push; cbn [l_items l_waiters l_blocked l_limit l_futs l_pfuts l_alive].
    destruct bl as [|[z bp] b]; cbn [fst]; [split; assumption|].
    assert (zlen it = lim) as E by (apply F; discriminate). split; lsz_fin.
Qed.

Lemma zlen_map {A B} (f : A -> B) l : zlen (map f l) = zlen l.
Proof. unfold zlen. rewrite map_length. reflexivity. Qed.

Lemma lq_refines_step q s x : lrel q s -> (l_alive q = true -> lsz q) ->
  lrel (fst (lq_step_on q x)) (fst (ls_step_on s x)) /\ snd (lq_step_on q x) = snd (ls_step_on s x).
Proof.
  intros R Z. pose proof R as (F & P & A & L & W & Q).
  assert (forall q' s' r, lrel q' s' -> lrel (fst (q', lq_obs q q' r)) (fst (s', ls_obs s s' r)) /\
                          snd (q', lq_obs q q' r) = snd (s', ls_obs s s' r)) as K.
  { intros q' s' r R'. cbn [fst snd]. split; [exact R'|apply lrel_obs; assumption]. }
  unfold lq_step_on, ls_step_on. rewrite A.
  destruct (l_alive q) eqn:AL; cbn [negb]; [|split; [exact R|reflexivity]].
  specialize (Z eq_refl). destruct Z as [ZL ZS ZF ZW].
  destruct q as [it ws bl lim fs pf al]; destruct s as [ff pd sl sf spf sa];
    cbn [l_items l_waiters l_blocked l_limit l_futs l_pfuts l_alive ls_fifo ls_pend ls_limit ls_futs ls_pfuts ls_alive] in *.
  subst sf spf sa sl pd ff al.
  destruct x as [l|v| |e| | |e| ]; try (split; [exact R|reflexivity]).
  - (* push *)
    unfold lq_push; cbn [l_items l_waiters l_blocked l_limit l_futs l_pfuts l_alive].
    destruct ws as [|p w].
    + rewrite zlen_app, !zlen_map.
      destruct (zlen it >=? lim) eqn:E.
      * assert (zlen it + zlen bl <? lim = false) as -> by (pose proof (zlen_nonneg bl); lia).
        apply K. repeat split; cbn [l_items l_waiters l_blocked l_limit l_futs l_pfuts l_alive ls_fifo ls_pend ls_limit ls_futs ls_pfuts ls_alive].
        rewrite (map_app blk). cbn [map blk fst snd]. rewrite <- app_assoc. reflexivity.
      * assert (bl = []) as -> by (destruct bl; [reflexivity|]; exfalso; assert (zlen it = lim) by (apply ZF; discriminate); lia).
        assert (zlen (@nil (Z * nat)) = 0) as EZ by reflexivity. rewrite EZ. assert (zlen it + 0 <? lim = true) as -> by lia.
        apply K. repeat split; cbn [l_items l_waiters l_blocked l_limit l_futs l_pfuts l_alive ls_fifo ls_pend ls_limit ls_futs ls_pfuts ls_alive].
        cbn [map]. rewrite !app_nil_r. rewrite (map_app adm). reflexivity.
    + apply K. repeat split.
  - (* pop *)
    unfold lq_pop; cbn [l_items l_waiters l_blocked l_limit l_futs l_pfuts l_alive].
    destruct it as [|y t].
    + assert (bl = []) as -> by (destruct bl; [reflexivity|]; exfalso; assert (zlen (@nil Z) = lim) by (apply ZF; discriminate); rewrite zlen_nil in *; lia).
      cbn [map app]. apply K. repeat split.
    + cbn [map app adm]. destruct bl as [|[z bp] b].
      * cbn [map]. rewrite app_nil_r. fold adm. rewrite admit_first_none.
        apply K. repeat split; cbn [l_items l_blocked ls_fifo map]. rewrite app_nil_r. reflexivity.
      * fold adm. rewrite admit_first_blocked. apply K. repeat split.
  - (* unblock_pop *)
    unfold lq_unblock_pop; cbn [l_items l_waiters l_blocked l_limit l_futs l_pfuts l_alive].
    destruct ws as [|p w]; apply K; [exact R|repeat split].
  - (* size *) apply K. exact R.
  - (* destroy *)
    apply K. unfold lq_destroy. repeat split; cbn [l_items l_waiters l_blocked l_limit l_futs l_pfuts l_alive ls_fifo ls_pend ls_limit ls_futs ls_pfuts ls_alive].
    rewrite pending_pushes_rel. reflexivity.
  - (* unblock_push *)
    unfold lq_unblock_push; cbn [l_items l_waiters l_blocked l_limit l_futs l_pfuts l_alive].
    destruct bl as [|[z bp] b].
    + cbn [map]. rewrite app_nil_r. rewrite drop_first_none. apply K. repeat split. cbn [ls_fifo l_items l_blocked map]. rewrite app_nil_r. reflexivity.
    + rewrite drop_first_blocked. apply K. repeat split.
Qed.

Lemma lq_alive_mono q x : l_alive q = false -> l_alive (fst (lq_step_on q x)) = false.
Proof. intros H. unfold lq_step_on. rewrite H. cbn. exact H. Qed.

Lemma lq_refines_run_on ops : forall q s, lrel q s -> (l_alive q = true -> lsz q) ->
  fst (lq_run_from (Some q) ops) = fst (ls_run_from (Some s) ops).
Proof.
  induction ops as [|x ops IH]; intros q s R Z; cbn [lq_run_from ls_run_from lq_step ls_step]; [reflexivity|].
  pose proof (lq_refines_step q s x R Z) as [R1 O].
  assert (l_alive (fst (lq_step_on q x)) = true -> lsz (fst (lq_step_on q x))) as Z1.
  { intros A1. destruct (l_alive q) eqn:A0.
    - apply lsz_step; auto.
    - rewrite (lq_alive_mono q x A0) in A1. discriminate. }
  destruct (lq_step_on q x) as [q1 o]. destruct (ls_step_on s x) as [s1 o']. cbn [fst snd] in *. subst o'.
  specialize (IH q1 s1 R1 Z1). destruct (lq_run_from (Some q1) ops) as [os q2]. destruct (ls_run_from (Some s1) ops) as [os' s2].
  cbn [fst] in *. subst os'. reflexivity.
Qed.

Lemma lsz_new limit : 1 <= limit -> lsz (lq_new limit).
Proof. intros H. split; cbn; try lia; intros; congruence. Qed.
Lemma lrel_new limit : lrel (lq_new limit) (ls_new limit).
Proof. repeat split. Qed.

(* every create op of the history asks for a limit >= 1 *)
Definition limits_ok (l : list lop) : Prop := Forall (fun x => match x with LCreate n => 1 <= n | _ => True end) l.

Lemma lq_refines_run_none ops : limits_ok ops -> fst (lq_run_from None ops) = fst (ls_run_from None ops).
Proof.
  induction ops as [|x ops IH]; intros LO; cbn [lq_run_from ls_run_from lq_step ls_step]; [reflexivity|].
  inversion LO as [|x' l' Hx Hl]; subst.
  destruct x as [n|v| |e| | |e| ];
    try (specialize (IH Hl); destruct (lq_run_from None ops); destruct (ls_run_from None ops); cbn [fst] in *; congruence).
  assert (0 <=? n = true) as -> by lia.
  pose proof (lq_refines_run_on ops (lq_new n) (ls_new n) (lrel_new n) (fun _ => lsz_new n Hx)) as E.
  destruct (lq_run_from (Some (lq_new n)) ops); destruct (ls_run_from (Some (ls_new n)) ops); cbn [fst] in *. subst. reflexivity.
Qed.

(* for every history and every limit >= 1 the model's observations are those of the bounded FIFO specification *)
Theorem lq_refines_bounded_fifo ops : limits_ok (map lq_decode ops) -> lq_run ops = ls_run ops.
Proof. intros H. unfold lq_run, ls_run. apply lq_refines_run_none. exact H. Qed.

Theorem lq_oracle_accepts_model ops : limits_ok (map lq_decode ops) -> lq_oracle ops (lq_run ops) = true.
Proof. intros H. unfold lq_oracle. rewrite lq_refines_bounded_fifo by exact H. apply trace_eqb_refl. Qed.

(* ---- conservation / order / blocked pushes on the limited_queue model ---- *)
Definition l_is_destroy (x : lop) : bool := match x with LDestroy => true | LCreate _ => true | _ => false end.
Definition l_push_val (x : lop) : list Z := match x with LPush v => [v] | _ => [] end.
Definition l_pushed_vals (l : list lop) : list Z := flat_map l_push_val l.
Definition l_no_destroy (l : list lop) : Prop := Forall (fun x => l_is_destroy x = false) l.

(* the items of the pushes that were not withdrawn: the i-th push is dropped iff its push future failed (unblock_push) *)
Fixpoint kept (pv : list Z) (fs : list fstate) : list Z :=
  match pv, fs with
  | v :: p, f :: t => (match f with FExc _ => [] | _ => [v] end) ++ kept p t
  | _, _ => []
  end.

Lemma kept_app a : forall fa b fb, length a = length fa -> kept (a ++ b) (fa ++ fb) = kept a fa ++ kept b fb.
Proof.
  induction a as [|v a IH]; intros [|f fa] b fb H; cbn [length] in H; try discriminate; cbn [app kept]; [reflexivity|].
  rewrite IH by lia. rewrite app_assoc. reflexivity.
Qed.
Lemma kept_pending l : kept l (repeat FPending (length l)) = l.
Proof. induction l as [|v l IH]; cbn [length repeat kept app]; [reflexivity|]. rewrite IH. reflexivity. Qed.
Lemma kept_nil_r l : kept l [] = [].
Proof. destruct l; reflexivity. Qed.

Record lgood (pv : list Z) (q : lqueue) (done pdone : list fstate) (pva : list Z) : Prop := mkLGood {
  lg_alive : l_alive q = true;
  lg_sz : lsz q;
  lg_shape : shape (l_futs q) (l_waiters q) done;
  lg_nopend : nopend done;
  lg_pshape : shape (l_pfuts q) (map snd (l_blocked q)) pdone;
  lg_pnopend : nopend pdone;
  lg_pv : pv = pva ++ map fst (l_blocked q);
  lg_len : length pva = length pdone;
  lg_kept : kept pva pdone = delivered (l_futs q) ++ l_items q
}.

Lemma lgood_new limit : 1 <= limit -> lgood [] (lq_new limit) [] [] [].
Proof. intros H. split; cbn; try reflexivity; try (apply lsz_new; exact H); try exact shape_nil; constructor. Qed.

Lemma shape_nil_done fs done : shape fs [] done -> fs = done.
Proof. intros [F _]. cbn in F. rewrite app_nil_r in F. exact F. Qed.

Lemma lgood_step pv q done pdone pva x : lgood pv q done pdone pva -> l_is_destroy x = false ->
  exists done' pdone' pva', lgood (pv ++ l_push_val x) (fst (lq_step_on q x)) done' pdone' pva'.
Proof.
  intros G ND. pose proof G as [A Z Sh N PSh PN PV LE KE].
  assert (lsz (fst (lq_step_on q x))) as Z'.
  { apply lsz_step; [exact Z|exact A|]. unfold lq_step_on. rewrite A. cbn [negb].
    destruct x; cbn [l_is_destroy] in ND; try discriminate; cbn [fst]; try exact A.
    - unfold lq_push. destruct (l_waiters q); [destruct (zlen (l_items q) >=? l_limit q)|]; cbn [fst l_alive]; exact A.
    - unfold lq_pop. destruct (l_items q); [|destruct (l_blocked q) as [|[? ?] ?]]; cbn [fst l_alive]; exact A.
    - unfold lq_unblock_pop. destruct (l_waiters q); cbn [fst l_alive]; exact A.
    - unfold lq_unblock_push. destruct (l_blocked q) as [|[? ?] ?]; cbn [fst l_alive]; exact A. }
  revert Z'. unfold lq_step_on. rewrite A. cbn [negb].
  destruct Z as [ZL ZS ZF ZW].
  destruct q as [it ws bl lim fs pf al]; cbn [l_items l_waiters l_blocked l_limit l_futs l_pfuts l_alive] in *. subst al.
  destruct x as [l|v| |e| | |e| ]; cbn [l_is_destroy l_push_val] in *; try discriminate; cbn [fst]; intros Z';
    try (exists done, pdone, pva; rewrite app_nil_r; exact G).
  - (* push *)
    revert Z'. unfold lq_push; cbn [l_items l_waiters l_blocked l_limit l_futs l_pfuts l_alive].
    destruct ws as [|p w]; cbn [fst].
    + destruct (zlen it >=? lim) eqn:E; cbn [fst]; intros Z'.
      * (* blocks *)
        exists done, pdone, pva. split; cbn [l_items l_waiters l_blocked l_limit l_futs l_pfuts l_alive]; try assumption; try reflexivity.
        -- rewrite map_app. cbn [map snd]. apply shape_park. exact PSh.
        -- rewrite PV. rewrite (map_app fst). cbn [map fst]. rewrite app_assoc. reflexivity.
      * (* enqueues: nobody is blocked *)
        assert (bl = []) as -> by (destruct bl; [reflexivity|]; exfalso; assert (zlen it = lim) by (apply ZF; discriminate); lia).
        cbn [map] in *. pose proof (shape_nil_done _ _ PSh) as EP. subst pf.
        exists done, (pdone ++ [FValue 0]), (pva ++ [v]).
        split; cbn [l_items l_waiters l_blocked l_limit l_futs l_pfuts l_alive map]; try assumption; try reflexivity.
        -- apply (proj1 (shape_ready _ _ (FValue 0) PSh)).
        -- apply nopend_app; [exact PN|apply nopend_one; discriminate].
        -- rewrite PV. rewrite !app_nil_r. reflexivity.
        -- rewrite !app_length. cbn [length]. lia.
        -- rewrite kept_app by exact LE. rewrite KE. cbn [kept app]. rewrite <- app_assoc. reflexivity.
    + (* hand-over to the oldest waiting pop *)
      intros Z'. assert (it = []) as -> by (apply ZW; discriminate).
      assert (bl = []) as -> by (destruct bl; [reflexivity|]; exfalso; assert (zlen (@nil Z) = lim) by (apply ZF; discriminate); rewrite zlen_nil in *; lia).
      cbn [map] in *. pose proof (shape_nil_done _ _ PSh) as EP. subst pf.
      pose proof (shape_take fs p w done (FValue v) Sh) as (Hp & Hf & Hs & Hsh).
      exists (done ++ [FValue v]), (pdone ++ [FValue 0]), (pva ++ [v]).
      split; cbn [l_items l_waiters l_blocked l_limit l_futs l_pfuts l_alive map]; try assumption; try reflexivity.
      * apply nopend_app; [exact N|apply nopend_one; discriminate].
      * apply (proj1 (shape_ready _ _ (FValue 0) PSh)).
      * apply nopend_app; [exact PN|apply nopend_one; discriminate].
      * rewrite PV. rewrite !app_nil_r. reflexivity.
      * rewrite !app_length. cbn [length]. lia.
      * rewrite kept_app by exact LE. rewrite KE. cbn [kept app]. rewrite Hs, Hf.
        rewrite !delivered_app. cbn [delivered flat_map val_of app]. rewrite !delivered_repeat_pending. rewrite !app_nil_r. reflexivity.
  - (* pop *)
    rewrite app_nil_r. revert Z'. unfold lq_pop; cbn [l_items l_waiters l_blocked l_limit l_futs l_pfuts l_alive].
    destruct it as [|y t]; cbn [fst]; intros Z'.
    + exists done, pdone, pva. split; cbn [l_items l_waiters l_blocked l_limit l_futs l_pfuts l_alive]; try assumption; try reflexivity.
      * apply shape_park. exact Sh.
      * rewrite KE. rewrite delivered_app. cbn. rewrite !app_nil_r. reflexivity.
    + assert (ws = []) as -> by (destruct ws; [reflexivity|]; exfalso; assert (y :: t = []) by (apply ZW; discriminate); discriminate).
      pose proof (shape_ready fs done (FValue y) Sh) as [Sh' ED].
      destruct bl as [|[z bp] b]; cbn [fst] in *.
      * exists (fs ++ [FValue y]), pdone, pva.
        split; cbn [l_items l_waiters l_blocked l_limit l_futs l_pfuts l_alive]; try assumption; try reflexivity.
        -- apply nopend_app; [rewrite ED; exact N|apply nopend_one; discriminate].
        -- rewrite KE. rewrite delivered_app. cbn [delivered flat_map val_of app]. rewrite <- app_assoc. reflexivity.
      * cbn [map snd fst] in *.
        pose proof (shape_take pf bp (map snd b) pdone (FValue 0) PSh) as (Hp & Hf & Hs & Hsh).
        exists (fs ++ [FValue y]), (pdone ++ [FValue 0]), (pva ++ [z]).
        split; cbn [l_items l_waiters l_blocked l_limit l_futs l_pfuts l_alive]; try assumption; try reflexivity.
        -- apply nopend_app; [rewrite ED; exact N|apply nopend_one; discriminate].
        -- apply nopend_app; [exact PN|apply nopend_one; discriminate].
        -- rewrite PV. rewrite <- app_assoc. reflexivity.
        -- rewrite !app_length. cbn [length]. lia.
        -- rewrite kept_app by exact LE. rewrite KE. cbn [kept app]. rewrite delivered_app.
           cbn [delivered flat_map val_of app]. rewrite <- !app_assoc. reflexivity.
  - (* unblock_pop *)
    rewrite app_nil_r. revert Z'. unfold lq_unblock_pop; cbn [l_items l_waiters l_blocked l_limit l_futs l_pfuts l_alive].
    destruct ws as [|p w]; cbn [fst]; intros Z'; [exists done, pdone, pva; exact G|].
    assert (it = []) as -> by (apply ZW; discriminate).
    pose proof (shape_take fs p w done (FExc e) Sh) as (Hp & Hf & Hs & Hsh).
    exists (done ++ [FExc e]), pdone, pva.
    split; cbn [l_items l_waiters l_blocked l_limit l_futs l_pfuts l_alive]; try assumption; try reflexivity.
    + apply nopend_app; [exact N|apply nopend_one; discriminate].
    + rewrite KE. rewrite Hs, Hf.
      rewrite !delivered_app. cbn [delivered flat_map val_of app]. rewrite !delivered_repeat_pending. rewrite !app_nil_r. reflexivity.
  - (* unblock_push *)
    rewrite app_nil_r. revert Z'. unfold lq_unblock_push; cbn [l_items l_waiters l_blocked l_limit l_futs l_pfuts l_alive].
    destruct bl as [|[z bp] b]; cbn [fst]; intros Z'; [exists done, pdone, pva; exact G|].
    cbn [map snd fst] in *.
    pose proof (shape_take pf bp (map snd b) pdone (FExc e) PSh) as (Hp & Hf & Hs & Hsh).
    exists done, (pdone ++ [FExc e]), (pva ++ [z]).
    split; cbn [l_items l_waiters l_blocked l_limit l_futs l_pfuts l_alive]; try assumption; try reflexivity.
    + apply nopend_app; [exact PN|apply nopend_one; discriminate].
    + rewrite PV. rewrite <- app_assoc. reflexivity.
    + rewrite !app_length. cbn [length]. lia.
    + rewrite kept_app by exact LE. rewrite KE. cbn [kept app]. rewrite !app_nil_r. reflexivity.
Qed.

Fixpoint lq_exec (q : lqueue) (l : list lop) : lqueue :=
  match l with [] => q | x :: t => lq_exec (fst (lq_step_on q x)) t end.

Lemma lq_exec_run q ops : snd (lq_run_from (Some q) ops) = Some (lq_exec q ops).
Proof.
  revert q; induction ops as [|x ops IH]; intros q; cbn [lq_run_from lq_exec lq_step]; [reflexivity|].
  destruct (lq_step_on q x) as [q1 o]. cbn [fst]. specialize (IH q1). destruct (lq_run_from (Some q1) ops). exact IH.
Qed.

Lemma lgood_run ops : forall pv q done pdone pva, lgood pv q done pdone pva -> l_no_destroy ops ->
  exists done' pdone' pva', lgood (pv ++ l_pushed_vals ops) (lq_exec q ops) done' pdone' pva'.
Proof.
  induction ops as [|x ops IH]; intros pv q done pdone pva G ND; cbn [lq_exec l_pushed_vals flat_map].
  - exists done, pdone, pva. rewrite app_nil_r. exact G.
  - inversion ND as [|x' l' Hx Hl]; subst.
    destruct (lgood_step _ _ _ _ _ x G Hx) as (d1 & p1 & a1 & G1).
    destruct (IH _ _ _ _ _ G1 Hl) as (d2 & p2 & a2 & G2).
    exists d2, p2, a2. rewrite app_assoc. exact G2.
Qed.

Definition lq_reach (limit : Z) (ops : list lop) : lqueue := lq_exec (lq_new limit) ops.

Lemma lgood_reach limit ops : 1 <= limit -> l_no_destroy ops ->
  exists done pdone pva, lgood (l_pushed_vals ops) (lq_reach limit ops) done pdone pva.
Proof. intros L ND. exact (lgood_run ops [] _ _ _ _ (lgood_new limit L) ND). Qed.

(* conservation + order: the pushed items minus the withdrawn ones (push future failed by unblock_push), in push order,
   are exactly: the values held by the pop futures in pop-arrival order, then the queued items, then the items
   held by the blocked pushes.  List equality: nothing lost, nothing duplicated, nothing reordered. *)
Theorem lq_conservation_order limit ops : 1 <= limit -> l_no_destroy ops ->
  let q := lq_reach limit ops in
  kept (l_pushed_vals ops) (l_pfuts q) = delivered (l_futs q) ++ l_items q ++ map fst (l_blocked q).
Proof.
  intros L ND q. destruct (lgood_reach limit ops L ND) as (done & pdone & pva & [A Z Sh N PSh PN PV LE KE]).
  fold q in A, Z, Sh, PSh, PV, KE. rewrite PV. destruct PSh as [PF PW]. rewrite PF.
  rewrite kept_app by exact LE. rewrite KE. rewrite map_length.
  rewrite <- (map_length fst (l_blocked q)). rewrite kept_pending. rewrite app_assoc. reflexivity.
Qed.

(* the blocked pushes are exactly the pending push futures, oldest first, each holding the item of its own push;
   nobody is blocked unless the queue is full; nobody waits unless it is empty *)
Theorem lq_blocked_fifo limit ops : 1 <= limit -> l_no_destroy ops ->
  let q := lq_reach limit ops in
  exists pdone, l_pfuts q = pdone ++ repeat FPending (length (l_blocked q)) /\ nopend pdone /\
    map snd (l_blocked q) = seq (length pdone) (length (l_blocked q)) /\
    map fst (l_blocked q) = skipn (length pdone) (l_pushed_vals ops) /\
    (l_blocked q <> [] -> zlen (l_items q) = limit) /\ zlen (l_items q) <= limit /\
    (l_waiters q <> [] -> l_items q = [] /\ l_blocked q = []).
Proof.
  intros L ND q. destruct (lgood_reach limit ops L ND) as (done & pdone & pva & [A Z Sh N PSh PN PV LE KE]).
  fold q in A, Z, Sh, PSh, PV, KE. destruct PSh as [PF PW]. rewrite map_length in PF, PW.
  assert (l_limit q = limit) as EL.
  { clear. unfold q, lq_reach. assert (forall q0, l_limit (lq_exec q0 ops) = l_limit q0) as K.
    { induction ops as [|x ops IH]; intros q0; cbn [lq_exec]; [reflexivity|]. rewrite IH.
      unfold lq_step_on. destruct (l_alive q0); cbn [negb fst]; [|reflexivity].
      destruct x; cbn [fst]; try reflexivity.
      - unfold lq_push. destruct (l_waiters q0); [destruct (zlen (l_items q0) >=? l_limit q0)|]; reflexivity.
      - unfold lq_pop. destruct (l_items q0); [|destruct (l_blocked q0) as [|[? ?] ?]]; reflexivity.
      - unfold lq_unblock_pop. destruct (l_waiters q0); reflexivity.
      - unfold lq_unblock_push. destruct (l_blocked q0) as [|[? ?] ?]; reflexivity. }
    apply K. }
  destruct Z as [ZL ZS ZF ZW]. rewrite EL in *.
  exists pdone. repeat split; try assumption.
  - rewrite PV. rewrite <- LE. rewrite skipn_app, Nat.sub_diag, skipn_all. reflexivity.
  - apply ZW; assumption.
  - destruct (l_blocked q) eqn:B; [reflexivity|]. exfalso.
    assert (l_items q = []) as E by (apply ZW; assumption). assert (zlen (l_items q) = limit) as E2 by (apply ZF; discriminate).
    rewrite E, zlen_nil in E2. lia.
Qed.

(* a push completes immediately exactly while fewer than `limit` items are waiting; otherwise its future is pending *)
Theorem lq_push_immediate_iff pv q done pdone pva v : lgood pv q done pdone pva ->
  let q' := fst (lq_push q v) in let f := snd (lq_push q v) in
  f = length (l_pfuts q) /\ l_pfuts q' = l_pfuts q ++ [if zlen (l_items q) <? l_limit q then FValue 0 else FPending] /\
  (zlen (l_items q) <? l_limit q = false -> l_blocked q' = l_blocked q ++ [(v, f)] /\ l_items q' = l_items q /\ l_futs q' = l_futs q).
Proof.
  intros [A [ZL ZS ZF ZW] Sh N PSh PN PV LE KE]. unfold lq_push.
  destruct (l_waiters q) as [|p w] eqn:W; cbn [fst snd l_pfuts l_blocked l_items l_futs].
  - destruct (zlen (l_items q) >=? l_limit q) eqn:E; cbn [fst snd l_pfuts l_blocked l_items l_futs].
    + assert (zlen (l_items q) <? l_limit q = false) as -> by lia. repeat split.
    + assert (zlen (l_items q) <? l_limit q = true) as -> by lia. repeat split; discriminate.
  - assert (l_items q = []) as E by (apply ZW; discriminate).
    replace (zlen (l_items q)) with 0 by (rewrite E; reflexivity).
    assert (0 <? l_limit q = true) as -> by lia. repeat split; discriminate.
Qed.

(* push futures change only at the OLDEST pending push, only by pop (completed) or unblock_push (failed with e),
   or all at once by destruction (canceled) *)
Theorem lq_push_completes_only_by pv q done pdone pva x j : lgood pv q done pdone pva ->
  fget (l_pfuts (fst (lq_step_on q x))) j <> fget (l_pfuts q) j -> (j < length (l_pfuts q))%nat ->
  (x = LPop /\ l_items q <> [] /\ oldest_pending (l_pfuts q) j /\ fget (l_pfuts (fst (lq_step_on q x))) j = FValue 0) \/
  (exists e, x = LUnblockPush e /\ oldest_pending (l_pfuts q) j /\ fget (l_pfuts (fst (lq_step_on q x))) j = FExc e) \/
  (x = LDestroy /\ fget (l_pfuts q) j = FPending /\ fget (l_pfuts (fst (lq_step_on q x))) j = FCanceled).
Proof.
  intros [A [ZL ZS ZF ZW] Sh N PSh PN PV LE KE]. unfold lq_step_on. rewrite A. cbn [negb].
  destruct PSh as [PF PW]. rewrite map_length in PF, PW.
  destruct q as [it ws bl lim fs pf al]; cbn [l_items l_waiters l_blocked l_limit l_futs l_pfuts l_alive] in *.
  destruct x as [l|v| |e| | |e| ]; cbn [fst l_pfuts]; try (intros H; exfalso; apply H; reflexivity).
  - (* push: only appends *)
    unfold lq_push; cbn [l_items l_waiters l_blocked l_limit l_futs l_pfuts l_alive].
    destruct ws as [|p w]; [destruct (zlen it >=? lim)|]; cbn [fst l_pfuts]; intros H LT; exfalso; apply H; apply fget_app_left; exact LT.
  - (* pop *)
    unfold lq_pop; cbn [l_items l_waiters l_blocked l_limit l_futs l_pfuts l_alive].
    destruct it as [|y t]; cbn [fst l_pfuts]; [intros H; exfalso; apply H; reflexivity|].
    destruct bl as [|[z bp] b]; cbn [fst l_pfuts]; [intros H; exfalso; apply H; reflexivity|].
    cbn [map snd length seq] in PW. injection PW as Wp Ww. intros H LT. left.
    destruct (Nat.eq_dec bp j) as [E|E]; [|exfalso; apply H; apply fget_set_other; exact E].
    subst j. repeat split; try discriminate.
    + rewrite Wp, PF. apply oldest_is_first; [exact PN|cbn [length]; lia].
    + rewrite Wp, PF. intros j L. rewrite fget_app_left by exact L. apply nopend_fget; assumption.
    + apply fget_set_same. exact LT.
  - (* unblock_pop *)
    unfold lq_unblock_pop; cbn [l_items l_waiters l_blocked l_limit l_futs l_pfuts l_alive].
    destruct ws as [|p w]; cbn [fst l_pfuts]; intros H; exfalso; apply H; reflexivity.
  - (* destroy *)
    intros H LT. right; right. split; [reflexivity|]. unfold lq_destroy in *. cbn [l_pfuts l_blocked l_futs l_waiters] in *.
    rewrite PF in H at 1. rewrite PW in H. rewrite cancel_all_seq in H. rewrite PF in LT. rewrite app_length, repeat_length in LT.
    destruct (Nat.lt_ge_cases j (length pdone)) as [L|L].
    + exfalso. apply H. rewrite PF. rewrite !fget_app_left by exact L. reflexivity.
    + rewrite PF at 1. rewrite PF at 1. rewrite PW. rewrite cancel_all_seq. rewrite !fget_app_right by exact L.
      rewrite !fget_repeat by lia. split; reflexivity.
  - (* unblock_push *)
    unfold lq_unblock_push; cbn [l_items l_waiters l_blocked l_limit l_futs l_pfuts l_alive].
    destruct bl as [|[z bp] b]; cbn [fst l_pfuts]; [intros H; exfalso; apply H; reflexivity|].
    cbn [map snd length seq] in PW. injection PW as Wp Ww. intros H LT. right; left. exists e.
    destruct (Nat.eq_dec bp j) as [E|E]; [|exfalso; apply H; apply fget_set_other; exact E].
    subst j. repeat split.
    + rewrite Wp, PF. apply oldest_is_first; [exact PN|cbn [length]; lia].
    + rewrite Wp, PF. intros j L. rewrite fget_app_left by exact L. apply nopend_fget; assumption.
    + apply fget_set_same. exact LT.
Qed.

(* one per pop: a pop changes at most one push future *)
Theorem lq_one_per_pop pv q done pdone pva j k : lgood pv q done pdone pva ->
  (j < length (l_pfuts q))%nat -> (k < length (l_pfuts q))%nat ->
  fget (l_pfuts (fst (lq_step_on q LPop))) j <> fget (l_pfuts q) j ->
  fget (l_pfuts (fst (lq_step_on q LPop))) k <> fget (l_pfuts q) k -> j = k.
Proof.
  intros G Lj Lk Hj Hk.
  destruct (lq_push_completes_only_by _ _ _ _ _ LPop j G Hj Lj) as [(_ & _ & Oj & _)|[(e & X & _)|(X & _)]]; try discriminate.
  destruct (lq_push_completes_only_by _ _ _ _ _ LPop k G Hk Lk) as [(_ & _ & Ok & _)|[(e & X & _)|(X & _)]]; try discriminate.
  exact (oldest_unique _ _ _ Oj Ok).
Qed.

(* unblock_push is exact: it fails the oldest blocked push with e, withdraws that push's own item, nothing else moves *)
Theorem lq_unblock_push_exact pv q done pdone pva e : lgood pv q done pdone pva ->
  let q' := fst (lq_step_on q (LUnblockPush e)) in
  match l_blocked q with
  | [] => q' = q
  | (y, j) :: b =>
      oldest_pending (l_pfuts q) j /\ y = nth j pv 0 /\
      l_pfuts q' = set_nth (l_pfuts q) j (FExc e) /\ l_blocked q' = b /\
      l_items q' = l_items q /\ l_futs q' = l_futs q /\ l_waiters q' = l_waiters q /\ l_limit q' = l_limit q /\ l_alive q' = true
  end.
Proof.
  intros [A [ZL ZS ZF ZW] Sh N PSh PN PV LE KE]. unfold lq_step_on. rewrite A. cbn [negb fst]. unfold lq_unblock_push.
  destruct PSh as [PF PW]. rewrite map_length in PF, PW.
  destruct (l_blocked q) as [|[y j] b] eqn:B; cbn [fst].
  - reflexivity.
  - cbn [map snd fst length seq] in *. injection PW as Wp Ww.
    cbn [l_pfuts l_blocked l_items l_futs l_waiters l_limit l_alive]. repeat split; try assumption.
    + rewrite Wp, PF. apply oldest_is_first; [exact PN|lia].
    + rewrite Wp, PF. intros k L. rewrite fget_app_left by exact L. apply nopend_fget; assumption.
    + rewrite PV, Wp, <- LE. rewrite app_nth2 by lia. rewrite Nat.sub_diag. reflexivity.
Qed.

(* the pop side of limited_queue behaves as in queue<T>: a waiting pop is completed only by a push (the oldest one,
   with the pushed value), by the base class' unblock_pop (the oldest, with e) or by destruction *)
Theorem lq_pop_completes_only_by pv q done pdone pva x i : lgood pv q done pdone pva ->
  fget (l_futs q) i = FPending -> fget (l_futs (fst (lq_step_on q x))) i <> FPending ->
  (exists v, x = LPush v /\ oldest_pending (l_futs q) i /\ fget (l_futs (fst (lq_step_on q x))) i = FValue v) \/
  (exists e, x = LUnblockPop e /\ oldest_pending (l_futs q) i /\ fget (l_futs (fst (lq_step_on q x))) i = FExc e) \/
  (x = LDestroy /\ fget (l_futs (fst (lq_step_on q x))) i = FCanceled).
Proof.
  intros [A [ZL ZS ZF ZW] [F W] N PSh PN PV LE KE] P. unfold lq_step_on. rewrite A. cbn [negb].
  pose proof P as R. rewrite F in R. apply pending_range in R; [|exact N].
  destruct q as [it ws bl lim fs pf al]; cbn [l_items l_waiters l_blocked l_limit l_futs l_pfuts l_alive] in *.
  destruct x as [l|v| |e| | |e| ]; cbn [fst l_futs]; try (intros H; exfalso; exact (H P)).
  - unfold lq_push; cbn [l_items l_waiters l_blocked l_limit l_futs l_pfuts l_alive].
    destruct ws as [|p w]; [destruct (zlen it >=? lim)|]; cbn [fst l_futs]; try (intros H; exfalso; exact (H P)).
    cbn [length seq] in W. injection W as Wp Ww. intros H. left. exists v. split; [reflexivity|].
    destruct (Nat.eq_dec p i) as [E|E]; [|exfalso; apply H; rewrite fget_set_other by exact E; exact P].
    subst i. split; [|apply fget_set_same; rewrite F, app_length, repeat_length; cbn [length]; lia].
    rewrite Wp, F. apply oldest_is_first; [exact N|cbn [length]; lia].
  - unfold lq_pop; cbn [l_items l_waiters l_blocked l_limit l_futs l_pfuts l_alive].
    destruct it as [|y t]; [|destruct bl as [|[z bp] b]]; cbn [fst l_futs];
      intros H; exfalso; apply H; rewrite fget_app_left; try exact P; rewrite F, app_length, repeat_length; lia.
  - unfold lq_unblock_pop; cbn [l_items l_waiters l_blocked l_limit l_futs l_pfuts l_alive].
    destruct ws as [|p w]; cbn [fst l_futs]; [intros H; exfalso; exact (H P)|].
    cbn [length seq] in W. injection W as Wp Ww. intros H. right; left. exists e. split; [reflexivity|].
    destruct (Nat.eq_dec p i) as [E|E]; [|exfalso; apply H; rewrite fget_set_other by exact E; exact P].
    subst i. split; [|apply fget_set_same; rewrite F, app_length, repeat_length; cbn [length]; lia].
    rewrite Wp, F. apply oldest_is_first; [exact N|cbn [length]; lia].
  - intros _. right; right. split; [reflexivity|]. unfold lq_destroy. cbn [l_futs l_waiters].
    rewrite F. rewrite W at 2. rewrite cancel_all_seq. rewrite fget_app_right by lia. apply fget_repeat. lia.
  - unfold lq_unblock_push; cbn [l_items l_waiters l_blocked l_limit l_futs l_pfuts l_alive].
    destruct bl as [|[z bp] b]; cbn [fst l_futs]; intros H; exfalso; exact (H P).
Qed.

Theorem lq_dead_rejects q x : l_alive q = false -> lq_step_on q x = (q, rejected).
Proof. intros H. unfold lq_step_on. rewrite H. reflexivity. Qed.

(* =====================================================================================
   Part 5 — callback consumers (engine qcb): a completion callback that re-enters pop() is an ordinary pop issued
   in the middle of the push / unblock_pop that resolved it.  Every callback history therefore reaches a state that
   a plain history reaches too, with the same pushes; all theorems of Part 2 apply to it.
   ===================================================================================== *)
Definition q_exec (q : queue) (l : list qop) : queue := snd (q_run_from q l).

Lemma q_exec_app l1 : forall q l2, q_exec q (l1 ++ l2) = q_exec (q_exec q l1) l2.
Proof.
  unfold q_exec. induction l1 as [|x l1 IH]; intros q l2; cbn [app q_run_from snd]; [reflexivity|].
  destruct (q_step q x) as [q1 o]. specialize (IH q1 l2).
  destruct (q_run_from q1 (l1 ++ l2)) as [os q2]. destruct (q_run_from q1 l1) as [os1 q3]. cbn [snd] in *. exact IH.
Qed.
Lemma q_exec_one q x : q_exec q [x] = fst (q_step q x).
Proof. unfold q_exec. cbn [q_run_from]. destruct (q_step q x). reflexivity. Qed.
Lemma q_final_exec ops : q_final ops = q_exec q0 ops.
Proof. reflexivity. Qed.

Lemma q_pop_alive q : alive (fst (q_pop q)) = alive q.
Proof. unfold q_pop. destruct (items q); reflexivity. Qed.
Lemma q_pop_step q : alive q = true -> fst (q_step q QPop) = fst (q_pop q).
Proof. intros A. unfold q_step. rewrite A. cbn [negb]. destruct (q_pop q). reflexivity. Qed.
Lemma q_push_step q v : alive q = true -> fst (q_step q (QPush v)) = fst (q_push q v).
Proof. intros A. unfold q_step. rewrite A. cbn [negb]. destruct (q_push q v). reflexivity. Qed.
Lemma q_unblock_step q e : alive q = true -> fst (q_step q (QUnblockPop e)) = fst (q_unblock_pop q e).
Proof. intros A. unfold q_step. rewrite A. cbn [negb]. destruct (q_unblock_pop q e). reflexivity. Qed.
Lemma q_push_alive q v : alive (fst (q_push q v)) = alive q.
Proof. unfold q_push, q_push_lock. destruct (waiters q); reflexivity. Qed.
Lemma q_unblock_alive q e : alive (fst (q_unblock_pop q e)) = alive q.
Proof. unfold q_unblock_pop. destruct (waiters q); reflexivity. Qed.

(* the chain of re-pops is a sequence of plain pops *)
Lemma cb_chain_plain k : forall q cb, alive q = true ->
  exists m, fst (cb_chain k q cb) = q_exec q (repeat QPop m) /\ alive (fst (cb_chain k q cb)) = true.
Proof.
  induction k as [|k IH]; intros q cb A; cbn [cb_chain].
  - exists 0%nat. split; [reflexivity|exact A].
  - destruct (q_pop q) as [q1 id] eqn:E.
    assert (q1 = fst (q_pop q)) as E1 by (rewrite E; reflexivity).
    assert (alive q1 = true) as A1 by (rewrite E1, q_pop_alive; exact A).
    destruct (is_pending (fget (futs q1) id)).
    + exists 1%nat. cbn [fst repeat]. split; [|exact A1]. rewrite q_exec_one, (q_pop_step q A). exact E1.
    + destruct (IH q1 cb A1) as (m & EM & AM). exists (S m). split; [|exact AM].
      cbn [repeat]. change (QPop :: repeat QPop m) with ([QPop] ++ repeat QPop m). rewrite q_exec_app, q_exec_one, (q_pop_step q A), <- E1. exact EM.
Qed.

Definition c_push_val (x : cop) : list Z := match x with COp (QPush v) => [v] | _ => [] end.
Definition c_pushed_vals (l : list cop) : list Z := flat_map c_push_val l.
Definition c_no_destroy (l : list cop) : Prop := Forall (fun x => x <> COp QDestroy) l.

Lemma pushed_vals_pops m : pushed_vals (repeat QPop m) = [].
Proof. induction m as [|m IH]; [reflexivity|exact IH]. Qed.
Lemma no_destroy_pops m : no_destroy (repeat QPop m).
Proof. induction m as [|m IH]; constructor; [reflexivity|exact IH]. Qed.
Lemma pushed_vals_app a b : pushed_vals (a ++ b) = pushed_vals a ++ pushed_vals b.
Proof. apply flat_map_app. Qed.

(* one callback step = a short plain history *)
Lemma cq_step_plain s x : alive (cbase s) = true -> x <> COp QDestroy ->
  exists l, cbase (fst (cq_step s x)) = q_exec (cbase s) l /\ no_destroy l /\ pushed_vals l = c_push_val x /\
            alive (cbase (fst (cq_step s x))) = true.
Proof.
  intros A ND. unfold cq_step. rewrite A. cbn [negb].
  assert (forall q1 cb0 (r : bool) (hd : qop), alive q1 = true ->
            exists m, fst (if r then cq_after_resolve (cbase s) q1 cb0 else (q1, cb0)) = q_exec q1 (repeat QPop m) /\
                      alive (fst (if r then cq_after_resolve (cbase s) q1 cb0 else (q1, cb0))) = true) as AR.
  { intros q1 cb0 r _ A1. destruct r; [|exists 0%nat; split; [reflexivity|exact A1]].
    unfold cq_after_resolve. destruct (head_waiter (cbase s)) as [p|]; [|exists 0%nat; split; [reflexivity|exact A1]].
    destruct (afind p cb0) as [k|]; [|exists 0%nat; split; [reflexivity|exact A1]]. apply cb_chain_plain. exact A1. }
  destruct x as [[v| |e| | |k v|k| ]|k|]; cbn [c_push_val]; try congruence;
    try (exists []; cbn [fst cbase]; repeat split; [constructor|exact A]).
  - (* push *)
    destruct (q_push (cbase s) v) as [q1 r] eqn:E.
    assert (q1 = fst (q_push (cbase s) v)) as E1 by (rewrite E; reflexivity).
    assert (alive q1 = true) as A1 by (rewrite E1, q_push_alive; exact A).
    destruct (AR q1 (cbud s) r QPop A1) as (m & EM & AM).
    destruct (if r then cq_after_resolve (cbase s) q1 (cbud s) else (q1, cbud s)) as [q2 cb]. cbn [fst cbase] in *.
    exists (QPush v :: repeat QPop m). repeat split.
    + change (QPush v :: repeat QPop m) with ([QPush v] ++ repeat QPop m). rewrite q_exec_app, q_exec_one, (q_push_step _ _ A), <- E1. exact EM.
    + constructor; [reflexivity|apply no_destroy_pops].
    + cbn [pushed_vals flat_map push_val app]. fold (pushed_vals (repeat QPop m)). rewrite pushed_vals_pops. reflexivity.
    + exact AM.
  - (* pop *)
    unfold q_step. rewrite A. cbn [negb]. destruct (q_pop (cbase s)) as [q1 id] eqn:E. cbn [fst cbase].
    exists [QPop]. repeat split; [|constructor; [reflexivity|constructor]|].
    + rewrite q_exec_one, (q_pop_step _ A), E. reflexivity.
    + assert (q1 = fst (q_pop (cbase s))) as -> by (rewrite E; reflexivity). rewrite q_pop_alive. exact A.
  - (* unblock_pop *)
    destruct (q_unblock_pop (cbase s) e) as [q1 r] eqn:E.
    assert (q1 = fst (q_unblock_pop (cbase s) e)) as E1 by (rewrite E; reflexivity).
    assert (alive q1 = true) as A1 by (rewrite E1, q_unblock_alive; exact A).
    destruct (AR q1 (cbud s) r QPop A1) as (m & EM & AM).
    destruct (if r then cq_after_resolve (cbase s) q1 (cbud s) else (q1, cbud s)) as [q2 cb]. cbn [fst cbase] in *.
    exists (QUnblockPop e :: repeat QPop m). repeat split.
    + change (QUnblockPop e :: repeat QPop m) with ([QUnblockPop e] ++ repeat QPop m). rewrite q_exec_app, q_exec_one, (q_unblock_step _ _ A), <- E1. exact EM.
    + constructor; [reflexivity|apply no_destroy_pops].
    + cbn [pushed_vals flat_map push_val app]. fold (pushed_vals (repeat QPop m)). apply pushed_vals_pops.
    + exact AM.
  - (* size *)
    unfold q_step. rewrite A. cbn [negb fst cbase]. exists []. repeat split; [constructor|exact A].
  - (* callback pop *)
    destruct (q_pop (cbase s)) as [q1 id] eqn:E.
    assert (q1 = fst (q_pop (cbase s))) as E1 by (rewrite E; reflexivity).
    assert (alive q1 = true) as A1 by (rewrite E1, q_pop_alive; exact A).
    destruct (is_pending (fget (futs q1) id)).
    + cbn [fst cbase]. exists [QPop]. repeat split; [|constructor; [reflexivity|constructor]|exact A1].
      rewrite q_exec_one, (q_pop_step _ A). exact E1.
    + destruct (cb_chain_plain k q1 (cbud s) A1) as (m & EM & AM).
      destruct (cb_chain k q1 (cbud s)) as [q2 cb]. cbn [fst cbase] in *.
      exists (QPop :: repeat QPop m). repeat split.
      * change (QPop :: repeat QPop m) with ([QPop] ++ repeat QPop m). rewrite q_exec_app, q_exec_one, (q_pop_step _ A), <- E1. exact EM.
      * constructor; [reflexivity|apply no_destroy_pops].
      * cbn [pushed_vals flat_map push_val app]. fold (pushed_vals (repeat QPop m)). apply pushed_vals_pops.
      * exact AM.
Qed.

Definition cq_final (l : list cop) : cqueue := snd (cq_run_from cq0 l).

Lemma cq_run_plain l : forall s, alive (cbase s) = true -> c_no_destroy l ->
  exists ops, cbase (snd (cq_run_from s l)) = q_exec (cbase s) ops /\ no_destroy ops /\ pushed_vals ops = c_pushed_vals l.
Proof.
  induction l as [|x l IH]; intros s A ND; cbn [cq_run_from c_pushed_vals flat_map].
  - exists []. repeat split. constructor.
  - inversion ND as [|x' l' Hx Hl]; subst.
    destruct (cq_step_plain s x A Hx) as (l1 & E1 & N1 & P1 & A1).
    destruct (cq_step s x) as [s1 o]. cbn [fst] in *.
    destruct (IH s1 A1 Hl) as (l2 & E2 & N2 & P2).
    destruct (cq_run_from s1 l) as [os s2]. cbn [snd] in *.
    exists (l1 ++ l2). repeat split.
    + rewrite q_exec_app, <- E1. exact E2.
    + apply Forall_app. split; assumption.
    + rewrite pushed_vals_app, P1, P2. reflexivity.
Qed.

(* every destruction-free history with callback consumers reaches a state that a plain destruction-free history with the
   same pushes reaches *)
Theorem cq_reaches_plain_state l : c_no_destroy l ->
  exists ops, cbase (cq_final l) = q_final ops /\ no_destroy ops /\ pushed_vals ops = c_pushed_vals l.
Proof. intros ND. exact (cq_run_plain l cq0 eq_refl ND). Qed.

(* hence conservation and order hold with callback consumers that re-enter the queue from their completion callback *)
Theorem cq_conservation_order l : c_no_destroy l ->
  c_pushed_vals l = delivered (futs (cbase (cq_final l))) ++ items (cbase (cq_final l)) /\
  (items (cbase (cq_final l)) = [] \/ waiters (cbase (cq_final l)) = []).
Proof.
  intros ND. destruct (cq_reaches_plain_state l ND) as (ops & E & N & P). rewrite E, <- P. split.
  - apply q_conservation_order. exact N.
  - apply q_not_both_nonempty.
Qed.
