(* QueueProofs.v — invariants, refinement and conservation/order theorems for the queue models of
   QueueDefs.v.  Everything is for op sequences of any length, any number of parked / blocked parties,
   any limit >= 1. *)
From Cocls Require Import Base BaseProofs QueueDefs.
Require Import ZifyBool.
Local Open Scope Z_scope.
Ltac Zify.zify_post_hook ::= Z.div_mod_to_equations.

(* =====================================================================================
   Part 0 — lists, stores, parked-promise shape
   ===================================================================================== *)
Lemma zlen_app {A} (a b : list A) : zlen (a ++ b) = zlen a + zlen b.
Proof. unfold zlen. rewrite app_length. lia. Qed.
Lemma zlen_cons {A} (x : A) l : zlen (x :: l) = zlen l + 1.
Proof. unfold zlen. cbn [length]. lia. Qed.
Lemma zlen_nil {A} : zlen (@nil A) = 0. Proof. reflexivity. Qed.
Lemma zlen_nonneg {A} (l : list A) : 0 <= zlen l. Proof. unfold zlen. lia. Qed.
Lemma zlen_zero {A} (l : list A) : zlen l = 0 -> l = [].
Proof. destruct l; [reflexivity|]. rewrite zlen_cons. pose proof (zlen_nonneg l). lia. Qed.

Lemma set_nth_app_here {A} (a : list A) y b x : set_nth (a ++ y :: b) (length a) x = a ++ x :: b.
Proof. induction a as [|z a IH]; cbn [app length set_nth]; [reflexivity|]. rewrite IH. reflexivity. Qed.

Lemma set_nth_app_left {A} (a b : list A) p x : (p < length a)%nat -> set_nth (a ++ b) p x = set_nth a p x ++ b.
Proof.
  revert p; induction a as [|z a IH]; intros [|p] H; cbn [length] in H; try lia; cbn [app set_nth]; [reflexivity|].
  rewrite IH by lia. reflexivity.
Qed.

Lemma set_nth_length {A} (l : list A) p x : length (set_nth l p x) = length l.
Proof. revert p; induction l as [|z l IH]; intros [|p]; cbn [set_nth length]; auto. Qed.

Lemma fget_app_left a b i : (i < length a)%nat -> fget (a ++ b) i = fget a i.
Proof. intros H. unfold fget. apply app_nth1. exact H. Qed.

Lemma fget_app_here a x b : fget (a ++ x :: b) (length a) = x.
Proof. unfold fget. rewrite app_nth2 by lia. rewrite Nat.sub_diag. reflexivity. Qed.

Lemma fget_set_same l p x : (p < length l)%nat -> fget (set_nth l p x) p = x.
Proof.
  unfold fget. revert p; induction l as [|z l IH]; intros [|p] H; cbn [length] in H; try lia; cbn [set_nth nth]; [reflexivity|].
  apply IH. lia.
Qed.

Lemma fget_set_other l p q x : p <> q -> fget (set_nth l p x) q = fget l q.
Proof.
  unfold fget. revert p q; induction l as [|z l IH]; intros [|p] [|q] H; cbn [set_nth nth]; try reflexivity; try congruence.
  apply IH. congruence.
Qed.

Lemma repeat_snoc {A} (x : A) n : repeat x n ++ [x] = repeat x (S n).
Proof. induction n as [|n IH]; cbn [repeat app]; [reflexivity|]. rewrite IH. reflexivity. Qed.

(* The parked pops are always the newest futures, all still pending, in creation order:
   futs = done ++ [Pending; ..; Pending],  waiters = [|done|; |done|+1; ..]. *)
Definition shape (fs : list fstate) (ws : list nat) (done : list fstate) : Prop :=
  fs = done ++ repeat FPending (length ws) /\ ws = seq (length done) (length ws).

Lemma shape_nil : shape [] [] [].
Proof. split; reflexivity. Qed.

Lemma shape_park fs ws done : shape fs ws done -> shape (fs ++ [FPending]) (ws ++ [length fs]) done.
Proof.
  intros [F W]. split.
  - rewrite app_length. cbn [length]. rewrite Nat.add_1_r. rewrite <- repeat_snoc. rewrite app_assoc. congruence.
  - rewrite app_length. cbn [length]. rewrite Nat.add_1_r. rewrite seq_S. rewrite <- W.
    f_equal. f_equal. rewrite F at 1. rewrite app_length, repeat_length. reflexivity.
Qed.

Lemma shape_ready fs done x : shape fs [] done -> shape (fs ++ [x]) [] (fs ++ [x]) /\ fs = done.
Proof.
  intros [F _]. cbn [length repeat] in F. rewrite app_nil_r in F. split; [|exact F].
  split; cbn [length repeat seq]; [rewrite app_nil_r; reflexivity|reflexivity].
Qed.

(* the oldest waiter is the first pending slot; resolving it moves it into the `done` part *)
Lemma shape_take fs p w done x : shape fs (p :: w) done ->
  p = length done /\ fs = done ++ FPending :: repeat FPending (length w) /\
  set_nth fs p x = (done ++ [x]) ++ repeat FPending (length w) /\
  shape (set_nth fs p x) w (done ++ [x]).
Proof.
  intros [F W]. cbn [length repeat seq] in *. injection W as Wp Ww.
  assert (set_nth fs p x = (done ++ [x]) ++ repeat FPending (length w)) as S.
  { rewrite F, Wp. rewrite set_nth_app_here. rewrite <- app_assoc. reflexivity. }
  refine (conj Wp (conj F (conj S _))). split; [exact S|].
  rewrite app_length. cbn [length]. rewrite Nat.add_1_r. exact Ww.
Qed.

Lemma cancel_all_seq done m : cancel_all (done ++ repeat FPending m) (seq (length done) m) = done ++ repeat FCanceled m.
Proof.
  revert done; induction m as [|m IH]; intros done; cbn [repeat seq cancel_all]; [reflexivity|].
  rewrite set_nth_app_here.
  change (done ++ FCanceled :: repeat FPending m) with (done ++ [FCanceled] ++ repeat FPending m).
  rewrite app_assoc. specialize (IH (done ++ [FCanceled])).
  rewrite app_length in IH. cbn [length] in IH. rewrite Nat.add_1_r in IH. rewrite IH.
  rewrite <- app_assoc. reflexivity.
Qed.

Lemma shape_cancel fs ws done : shape fs ws done ->
  cancel_all fs ws = done ++ repeat FCanceled (length ws) /\
  shape (cancel_all fs ws) [] (done ++ repeat FCanceled (length ws)).
Proof.
  intros [F W]. assert (cancel_all fs ws = done ++ repeat FCanceled (length ws)) as C.
  { rewrite F at 1. rewrite W at 2. apply cancel_all_seq. }
  split; [exact C|]. split; cbn [length repeat seq]; [rewrite app_nil_r; exact C|reflexivity].
Qed.

(* traces *)
Lemma zlist_eqb_refl l : zlist_eqb l l = true.
Proof. induction l as [|x l IH]; cbn [zlist_eqb]; [reflexivity|]. rewrite Z.eqb_refl, IH. reflexivity. Qed.
Lemma trace_eqb_refl l : trace_eqb l l = true.
Proof. induction l as [|x l IH]; cbn [trace_eqb]; [reflexivity|]. rewrite zlist_eqb_refl, IH. reflexivity. Qed.
Lemma zlist_eqb_eq a : forall b, zlist_eqb a b = true -> a = b.
Proof.
  induction a as [|x a IH]; intros [|y b] H; cbn [zlist_eqb] in H; try discriminate; [reflexivity|].
  apply andb_true_iff in H as [E H]. apply Z.eqb_eq in E. f_equal; auto.
Qed.
Lemma trace_eqb_eq a : forall b, trace_eqb a b = true -> a = b.
Proof.
  induction a as [|x a IH]; intros [|y b] H; cbn [trace_eqb] in H; try discriminate; [reflexivity|].
  apply andb_true_iff in H as [E H]. apply zlist_eqb_eq in E. f_equal; auto.
Qed.

(* values held by pop futures, in creation (= pop arrival) order *)
Definition val_of (f : fstate) : list Z := match f with FValue v => [v] | _ => [] end.
Definition delivered (fs : list fstate) : list Z := flat_map val_of fs.

Lemma delivered_app a b : delivered (a ++ b) = delivered a ++ delivered b.
Proof. unfold delivered. apply flat_map_app. Qed.
Lemma delivered_repeat_pending m : delivered (repeat FPending m) = [].
Proof. induction m as [|m IH]; cbn; [reflexivity|exact IH]. Qed.
Lemma delivered_repeat_canceled m : delivered (repeat FCanceled m) = [].
Proof. induction m as [|m IH]; cbn; [reflexivity|exact IH]. Qed.

(* =====================================================================================
   Part 1 — queue<T>, sequential engine: refinement to the FIFO specification
   ===================================================================================== *)
Definition qrel (q : queue) (s : qspec) : Prop :=
  s_futs s = futs q /\ s_alive s = alive q /\
  match bal s with
  | BItems l => items q = l /\ waiters q = []
  | BWait w => waiters q = w /\ items q = []
  end.

Lemma q_refines_step q s x : qrel q s ->
  qrel (fst (q_step q x)) (fst (qs_step s x)) /\ snd (q_step q x) = snd (qs_step s x).
Proof.
  intros (F & A & B). unfold q_step, qs_step. rewrite A.
  destruct q as [it ws fs al]; destruct s as [b sf sa]; cbn [items waiters futs alive bal s_futs s_alive] in *.
  subst sf sa.
  destruct al; cbn [negb]; [|split; [repeat split; assumption|reflexivity]].
  destruct x as [v| |e| | |k v|k| ];
    try (split; [repeat split; assumption|reflexivity]);
    destruct b as [l|w]; destruct B as [B1 B2]; subst;
    unfold q_push, q_push_lock, q_resolve, q_pop, q_unblock_pop, q_destroy, q_obs, qs_obs, qrel;
    cbn [items waiters futs alive bal s_futs s_alive fst snd bal_size].
  - (* push, items *) split; [repeat split|reflexivity].
  - (* push, waiters *) destruct w as [|p w]; cbn [fst snd items waiters futs alive app];
      (split; [repeat split|reflexivity]).
  - (* pop, items *) destruct l as [|x t]; cbn [fst snd items waiters futs alive app];
      (split; [repeat split|reflexivity]).
  - (* pop, waiters *) cbn [fst snd]. split; [repeat split|reflexivity].
  - (* unblock, items *) cbn [fst snd]. split; [repeat split|reflexivity].
  - (* unblock, waiters *) destruct w as [|p w]; cbn [fst snd items waiters futs alive];
      (split; [repeat split|reflexivity]).
  - (* size *) split; [repeat split|reflexivity].
  - split; [repeat split|reflexivity].
  - (* destroy *) split; [repeat split|]. cbn [cancel_all]. reflexivity.
  - split; [repeat split|reflexivity].
Qed.

Lemma q_refines_run ops : forall q s, qrel q s ->
  fst (q_run_from q ops) = fst (qs_run_from s ops) /\ qrel (snd (q_run_from q ops)) (snd (qs_run_from s ops)).
Proof.
  induction ops as [|x ops IH]; intros q s R; cbn [q_run_from qs_run_from]; [split; [reflexivity|exact R]|].
  pose proof (q_refines_step q s x R) as [R1 O].
  destruct (q_step q x) as [q1 o]. destruct (qs_step s x) as [s1 o']. cbn [fst snd] in *. subst o'.
  specialize (IH q1 s1 R1). destruct (q_run_from q1 ops) as [os q2]. destruct (qs_run_from s1 ops) as [os' s2].
  cbn [fst snd] in *. destruct IH as [E R2]. subst os'. split; [reflexivity|exact R2].
Qed.

Lemma qrel0 : qrel q0 qs0.
Proof. repeat split. Qed.

(* every observation the model makes is the observation the FIFO specification makes *)
Theorem q_refines_fifo ops : q_run ops = qs_run ops.
Proof. unfold q_run, qs_run. apply q_refines_run. exact qrel0. Qed.

Theorem q_oracle_accepts_model ops : q_oracle ops (q_run ops) = true.
Proof. unfold q_oracle. rewrite q_refines_fifo. apply trace_eqb_refl. Qed.
