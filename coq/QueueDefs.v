(* QueueDefs.v — executable models of cocls::queue<T>, queue<void> and limited_queue<T> (queue.h),
   transcribed branch by branch, plus the reference specifications they are proved to refine.
   Model only; proofs are in QueueProofs.v.  Line numbers refer to /repo/src/cocls/queue.h. *)
From Cocls Require Import Base.
Local Open Scope Z_scope.

(* ---------- futures handed out by pop() / push() ----------
   A future is identified by its creation index.  Outcome as seen through ready()/value():
   pending (value_not_ready_exception), a value, an exception (integer code of the test exception),
   or canceled (promise dropped => await_canceled_exception, future.h:338-345, :600-604). *)
Inductive fstate := FPending | FValue (v : Z) | FExc (e : Z) | FCanceled.

Definition fstate_eqb (a b : fstate) : bool :=
  match a, b with
  | FPending, FPending => true
  | FValue x, FValue y => x =? y
  | FExc x, FExc y => x =? y
  | FCanceled, FCanceled => true
  | _, _ => false
  end.

Definition fget (fs : list fstate) (i : nat) : fstate := nth i fs FCanceled.

(* dropping a container of promises: each associated future becomes canceled *)
Fixpoint cancel_all (fs : list fstate) (ps : list nat) : list fstate :=
  match ps with
  | [] => fs
  | p :: t => cancel_all (set_nth fs p FCanceled) t
  end.

(* what the harness prints for one future: id, ready(), kind (0 value, 1 exception, -1 canceled,
   -2 not ready), payload *)
Definition enc_f (i : nat) (f : fstate) : list Z :=
  match f with
  | FPending => [Z.of_nat i; 0; -2; 0]
  | FValue v => [Z.of_nat i; 1; 0; v]
  | FExc e => [Z.of_nat i; 1; 1; e]
  | FCanceled => [Z.of_nat i; 1; -1; 0]
  end.

(* every observation lists the futures whose visible state changed during the op (new ones included),
   in creation order *)
Fixpoint diff_from (i : nat) (old new : list fstate) : list Z :=
  match new with
  | [] => []
  | f :: t =>
      match old with
      | [] => enc_f i f ++ diff_from (S i) [] t
      | g :: u => (if fstate_eqb f g then [] else enc_f i f) ++ diff_from (S i) u t
      end
  end.
Definition diff (old new : list fstate) : list Z := diff_from 0 old new.

(* observation: status 0 + return value + size() + empty() after the op + changed futures; or rejected *)
Definition rejected : list Z := [1].
Definition ok_obs (ret : Z) (size : Z) (d : list Z) : list Z :=
  0 :: ret :: size :: b2z (size =? 0) :: d.

Definition nat_z (z : Z) : nat := Z.to_nat z.

(* =====================================================================================
   queue<T>                                                                  (lines 126-239)
   ===================================================================================== *)
Record queue := mkQ {
  items : list Z;          (* _queue, front first *)
  waiters : list nat;      (* _awaiters: parked pop promises, oldest first *)
  futs : list fstate;      (* every future<T> ever returned by pop() *)
  alive : bool             (* the queue object exists *)
}.
Definition q0 : queue := mkQ [] [] [] true.

Inductive qop :=
| QPush (v : Z) | QPop | QUnblockPop (e : Z) | QSize | QDestroy
| QPushBegin (k v : Z) | QPushEnd (k : Z)       (* only meaningful in the two-phase engine *)
| QBad.

(* push, phase 1 — under the lock (148-153 / 155-157): take the oldest waiter, or enqueue *)
Definition q_push_lock (q : queue) (v : Z) : queue * option nat :=
  match waiters q with
  | p :: w => (mkQ (items q) w (futs q) (alive q), Some p)          (* 150-152 *)
  | [] => (mkQ (items q ++ [v]) [] (futs q) (alive q), None)        (* 156 *)
  end.
(* push, phase 2 — after unlock (154): resolve the taken promise with the value *)
Definition q_resolve (q : queue) (p : nat) (s : fstate) : queue :=
  mkQ (items q) (waiters q) (set_nth (futs q) p s) (alive q).

Definition q_push (q : queue) (v : Z) : queue * bool :=
  match q_push_lock q v with
  | (q1, Some p) => (q_resolve q1 p (FValue v), true)               (* 154: return p(args) -> true *)
  | (q1, None) => (q1, false)                                       (* 157 *)
  end.

(* pop (197-212): the new future is parked, or resolved at once with the front item *)
Definition q_pop (q : queue) : queue * nat :=
  let id := length (futs q) in
  match items q with
  | [] => (mkQ [] (waiters q ++ [id]) (futs q ++ [FPending]) (alive q), id)         (* 200-201 *)
  | x :: t => (mkQ t (waiters q) (futs q ++ [FValue x]) (alive q), id)              (* 203-208 *)
  end.

(* unblock_pop (223-230) *)
Definition q_unblock_pop (q : queue) (e : Z) : queue * bool :=
  match waiters q with
  | [] => (q, false)                                                                 (* 225 *)
  | p :: w => (mkQ (items q) w (set_nth (futs q) p (FExc e)) (alive q), true)      (* 226-229 *)
  end.

(* implicit destructor: _awaiters then _queue are destroyed; every parked promise is dropped *)
Definition q_destroy (q : queue) : queue :=
  mkQ [] [] (cancel_all (futs q) (waiters q)) false.

Definition q_obs (old : queue) (q : queue) (ret : Z) : list Z :=
  ok_obs ret (zlen (items q)) (diff (futs old) (futs q)).

Definition q_step (q : queue) (x : qop) : queue * list Z :=
  if negb (alive q) then (q, rejected) else
  match x with
  | QPush v => let '(q1, r) := q_push q v in (q1, q_obs q q1 (b2z r))
  | QPop => let '(q1, id) := q_pop q in (q1, q_obs q q1 (Z.of_nat id))
  | QUnblockPop e => let '(q1, r) := q_unblock_pop q e in (q1, q_obs q q1 (b2z r))
  | QSize => (q, q_obs q q 0)
  | QDestroy => let q1 := q_destroy q in (q1, q_obs q q1 0)
  | _ => (q, rejected)
  end.

Fixpoint q_run_from (q : queue) (l : list qop) : list (list Z) * queue :=
  match l with
  | [] => ([], q)
  | x :: t => let '(q1, o) := q_step q x in
              let '(os, q2) := q_run_from q1 t in (o :: os, q2)
  end.

Definition q_decode (l : list Z) : qop :=
  match l with
  | [1; v] => QPush v
  | [2] => QPop
  | [3; e] => QUnblockPop e
  | [4] => QSize
  | [5] => QDestroy
  | [7; k; v] => QPushBegin k v
  | [8; k] => QPushEnd k
  | _ => QBad
  end.

Definition q_run (ops : list (list Z)) : list (list Z) := fst (q_run_from q0 (map q_decode ops)).

(* ---------- two-phase engine: pushes split at the unlock ----------
   inflight: pushes that have left the critical section holding a promise they have not resolved yet
   (ticket, promise id, value).  Every other op is one critical section, exactly as above. *)
Record queue2 := mkQ2 { base : queue; inflight : list (Z * nat * Z) }.
Definition q20 : queue2 := mkQ2 q0 [].

Fixpoint infl_find (k : Z) (l : list (Z * nat * Z)) : option (nat * Z) :=
  match l with
  | [] => None
  | (k', p, v) :: t => if k =? k' then Some (p, v) else infl_find k t
  end.
Fixpoint infl_remove (k : Z) (l : list (Z * nat * Z)) : list (Z * nat * Z) :=
  match l with
  | [] => []
  | (k', p, v) :: t => if k =? k' then t else (k', p, v) :: infl_remove k t
  end.

Definition q2_step (s : queue2) (x : qop) : queue2 * list Z :=
  match x with
  | QPushBegin k v =>
      if negb (alive (base s)) then (s, rejected) else
      match infl_find k (inflight s) with
      | Some _ => (s, rejected)
      | None =>
          match q_push_lock (base s) v with
          | (q1, Some p) => (mkQ2 q1 (inflight s ++ [(k, p, v)]), q_obs (base s) q1 1)
          | (q1, None) => (mkQ2 q1 (inflight s), q_obs (base s) q1 0)
          end
      end
  | QPushEnd k =>
      (* allowed after destruction too: the pusher owns the promise, it no longer touches the queue *)
      match infl_find k (inflight s) with
      | None => (s, rejected)
      | Some (p, v) =>
          let q1 := q_resolve (base s) p (FValue v) in
          (mkQ2 q1 (infl_remove k (inflight s)), q_obs (base s) q1 1)
      end
  | _ => let '(q1, o) := q_step (base s) x in (mkQ2 q1 (inflight s), o)
  end.

Fixpoint q2_run_from (s : queue2) (l : list qop) : list (list Z) * queue2 :=
  match l with
  | [] => ([], s)
  | x :: t => let '(s1, o) := q2_step s x in
              let '(os, s2) := q2_run_from s1 t in (o :: os, s2)
  end.

Definition q2_run (ops : list (list Z)) : list (list Z) := fst (q2_run_from q20 (map q_decode ops)).

(* ---------- specification for C09: one "balance" that is either a FIFO of items or a FIFO of
   pending pops — never both — plus the outcome of every pop ---------- *)
Inductive balance := BItems (l : list Z) | BWait (w : list nat).
Record qspec := mkQS { bal : balance; s_futs : list fstate; s_alive : bool }.
Definition qs0 : qspec := mkQS (BItems []) [] true.

Definition bal_size (b : balance) : Z := match b with BItems l => zlen l | BWait _ => 0 end.
Definition qs_obs (old s : qspec) (ret : Z) : list Z :=
  ok_obs ret (bal_size (bal s)) (diff (s_futs old) (s_futs s)).

Definition qs_step (s : qspec) (x : qop) : qspec * list Z :=
  if negb (s_alive s) then (s, rejected) else
  let id := length (s_futs s) in
  match x with
  | QPush v =>
      match bal s with
      | BWait (p :: w) => let s1 := mkQS (BWait w) (set_nth (s_futs s) p (FValue v)) true in (s1, qs_obs s s1 1)
      | BWait [] => let s1 := mkQS (BItems [v]) (s_futs s) true in (s1, qs_obs s s1 0)
      | BItems l => let s1 := mkQS (BItems (l ++ [v])) (s_futs s) true in (s1, qs_obs s s1 0)
      end
  | QPop =>
      match bal s with
      | BItems (x :: t) => let s1 := mkQS (BItems t) (s_futs s ++ [FValue x]) true in (s1, qs_obs s s1 (Z.of_nat id))
      | BItems [] => let s1 := mkQS (BWait [id]) (s_futs s ++ [FPending]) true in (s1, qs_obs s s1 (Z.of_nat id))
      | BWait w => let s1 := mkQS (BWait (w ++ [id])) (s_futs s ++ [FPending]) true in (s1, qs_obs s s1 (Z.of_nat id))
      end
  | QUnblockPop e =>
      match bal s with
      | BWait (p :: w) => let s1 := mkQS (BWait w) (set_nth (s_futs s) p (FExc e)) true in (s1, qs_obs s s1 1)
      | _ => (s, qs_obs s s 0)
      end
  | QSize => (s, qs_obs s s 0)
  | QDestroy =>
      let s1 := mkQS (BItems []) (cancel_all (s_futs s) (match bal s with BWait w => w | _ => [] end)) false in
      (s1, qs_obs s s1 0)
  | _ => (s, rejected)
  end.

Fixpoint qs_run_from (s : qspec) (l : list qop) : list (list Z) * qspec :=
  match l with
  | [] => ([], s)
  | x :: t => let '(s1, o) := qs_step s x in
              let '(os, s2) := qs_run_from s1 t in (o :: os, s2)
  end.
Definition qs_run (ops : list (list Z)) : list (list Z) := fst (qs_run_from qs0 (map q_decode ops)).

(* =====================================================================================
   queue<void>  — std_queue<void> is a counter                          (lines 45-55, 126-239)
   ===================================================================================== *)
Record vqueue := mkVQ { vcnt : Z; vwaiters : list nat; vfuts : list fstate; valive : bool }.
Definition vq0 : vqueue := mkVQ 0 [] [] true.

Definition vq_obs (old q : vqueue) (ret : Z) : list Z :=
  ok_obs ret (vcnt q) (diff (vfuts old) (vfuts q)).

Definition vq_step (q : vqueue) (x : qop) : vqueue * list Z :=
  if negb (valive q) then (q, rejected) else
  match x with
  | QPush _ =>
      match vwaiters q with
      | p :: w => let q1 := mkVQ (vcnt q) w (set_nth (vfuts q) p (FValue 0)) true in (q1, vq_obs q q1 1)
      | [] => let q1 := mkVQ (vcnt q + 1) [] (vfuts q) true in (q1, vq_obs q q1 0)       (* 48: ++_sz *)
      end
  | QPop =>
      let id := length (vfuts q) in
      if vcnt q =? 0                                                                       (* 51 *)
      then let q1 := mkVQ (vcnt q) (vwaiters q ++ [id]) (vfuts q ++ [FPending]) true in (q1, vq_obs q q1 (Z.of_nat id))
      else let q1 := mkVQ (Z.max 1 (vcnt q) - 1) (vwaiters q) (vfuts q ++ [FValue 0]) true in   (* 49 *)
           (q1, vq_obs q q1 (Z.of_nat id))
  | QUnblockPop e =>
      match vwaiters q with
      | [] => (q, vq_obs q q 0)
      | p :: w => let q1 := mkVQ (vcnt q) w (set_nth (vfuts q) p (FExc e)) true in (q1, vq_obs q q1 1)
      end
  | QSize => (q, vq_obs q q 0)
  | QDestroy => let q1 := mkVQ 0 [] (cancel_all (vfuts q) (vwaiters q)) false in (q1, vq_obs q q1 0)
  | _ => (q, rejected)
  end.

Fixpoint vq_run_from (q : vqueue) (l : list qop) : list (list Z) * vqueue :=
  match l with
  | [] => ([], q)
  | x :: t => let '(q1, o) := vq_step q x in
              let '(os, q2) := vq_run_from q1 t in (o :: os, q2)
  end.

Definition vq_decode (l : list Z) : qop :=
  match l with
  | [1] => QPush 0
  | [2] => QPop
  | [3; e] => QUnblockPop e
  | [4] => QSize
  | [5] => QDestroy
  | _ => QBad
  end.
Definition vq_run (ops : list (list Z)) : list (list Z) := fst (vq_run_from vq0 (map vq_decode ops)).

(* =====================================================================================
   limited_queue<T>                                                          (lines 254-349)
   Two kinds of futures: future<T> from pop() (store l_futs) and future<void> from push() (l_pfuts).
   ===================================================================================== *)
Record lqueue := mkLQ {
  l_items : list Z;
  l_waiters : list nat;
  l_blocked : list (Z * nat);   (* _blocked: (item, push promise), oldest first *)
  l_limit : Z;
  l_futs : list fstate;         (* pop futures *)
  l_pfuts : list fstate;        (* push futures (value 0 = completed) *)
  l_alive : bool
}.

Inductive lop :=
| LCreate (limit : Z) | LPush (v : Z) | LPop | LUnblockPop (e : Z) | LSize | LDestroy | LUnblockPush (e : Z) | LBad.

Definition lq_new (limit : Z) : lqueue := mkLQ [] [] [] limit [] [] true.

(* observation: like ok_obs, then the number of changed pop futures, their lines, then changed push futures *)
Definition lq_obs (old q : lqueue) (ret : Z) : list Z :=
  let d := diff (l_futs old) (l_futs q) in
  ok_obs ret (zlen (l_items q)) (zlen d / 4 :: d ++ diff (l_pfuts old) (l_pfuts q)).

(* push (274-292) as it is after commit fa14f83; returns the id of the returned future<void> *)
Definition lq_push (q : lqueue) (v : Z) : lqueue * nat :=
  let f := length (l_pfuts q) in
  match l_waiters q with
  | p :: w =>                                                                          (* 276-281 *)
      (mkLQ (l_items q) w (l_blocked q) (l_limit q) (set_nth (l_futs q) p (FValue v))
            (l_pfuts q ++ [FValue 0]) (l_alive q), f)
  | [] =>
      if zlen (l_items q) >=? l_limit q                                                (* 283 *)
      then (mkLQ (l_items q) [] (l_blocked q ++ [(v, f)]) (l_limit q) (l_futs q)
                 (l_pfuts q ++ [FPending]) (l_alive q), f)                             (* 284-286 *)
      else (mkLQ (l_items q ++ [v]) [] (l_blocked q) (l_limit q) (l_futs q)
                 (l_pfuts q ++ [FValue 0]) (l_alive q), f)                             (* 288-289 *)
  end.

(* pop (298-322) *)
Definition lq_pop (q : lqueue) : lqueue * nat :=
  let id := length (l_futs q) in
  match l_items q with
  | [] => (mkLQ [] (l_waiters q ++ [id]) (l_blocked q) (l_limit q) (l_futs q ++ [FPending])
                (l_pfuts q) (l_alive q), id)                                           (* 301-302 *)
  | x :: t =>
      match l_blocked q with
      | (y, bp) :: b =>                                                                (* 310-316 *)
          (mkLQ (t ++ [y]) (l_waiters q) b (l_limit q) (l_futs q ++ [FValue x])
                (set_nth (l_pfuts q) bp (FValue 0)) (l_alive q), id)
      | [] => (mkLQ t (l_waiters q) [] (l_limit q) (l_futs q ++ [FValue x]) (l_pfuts q) (l_alive q), id)   (* 318 *)
      end
  end.

(* unblock_push (337-344) *)
Definition lq_unblock_push (q : lqueue) (e : Z) : lqueue * bool :=
  match l_blocked q with
  | [] => (q, false)                                                                   (* 339 *)
  | (y, bp) :: b => (mkLQ (l_items q) (l_waiters q) b (l_limit q) (l_futs q)
                          (set_nth (l_pfuts q) bp (FExc e)) (l_alive q), true)         (* 340-343 *)
  end.

(* unblock_pop of the protected base class (223-230), reachable only from a derived class *)
Definition lq_unblock_pop (q : lqueue) (e : Z) : lqueue * bool :=
  match l_waiters q with
  | [] => (q, false)
  | p :: w => (mkLQ (l_items q) w (l_blocked q) (l_limit q) (set_nth (l_futs q) p (FExc e))
                    (l_pfuts q) (l_alive q), true)
  end.

(* implicit destructor: _blocked (items and push promises), then the base: _awaiters, _queue *)
Definition lq_destroy (q : lqueue) : lqueue :=
  mkLQ [] [] [] (l_limit q) (cancel_all (l_futs q) (l_waiters q))
       (cancel_all (l_pfuts q) (map snd (l_blocked q))) false.

Definition lq_step_on (q : lqueue) (x : lop) : lqueue * list Z :=
  if negb (l_alive q) then (q, rejected) else
  match x with
  | LPush v => let '(q1, f) := lq_push q v in (q1, lq_obs q q1 (Z.of_nat f))
  | LPop => let '(q1, id) := lq_pop q in (q1, lq_obs q q1 (Z.of_nat id))
  | LUnblockPop e => let '(q1, r) := lq_unblock_pop q e in (q1, lq_obs q q1 (b2z r))
  | LUnblockPush e => let '(q1, r) := lq_unblock_push q e in (q1, lq_obs q q1 (b2z r))
  | LSize => (q, lq_obs q q 0)
  | LDestroy => let q1 := lq_destroy q in (q1, lq_obs q q1 0)
  | _ => (q, rejected)
  end.

(* the case file creates the object first: [0; limit] *)
Definition lq_step (s : option lqueue) (x : lop) : option lqueue * list Z :=
  match s with
  | None =>
      match x with
      | LCreate limit => if 0 <=? limit then (Some (lq_new limit), lq_obs (lq_new limit) (lq_new limit) 0)
                         else (None, rejected)
      | _ => (None, rejected)
      end
  | Some q => let '(q1, o) := lq_step_on q x in (Some q1, o)
  end.

Fixpoint lq_run_from (s : option lqueue) (l : list lop) : list (list Z) * option lqueue :=
  match l with
  | [] => ([], s)
  | x :: t => let '(s1, o) := lq_step s x in
              let '(os, s2) := lq_run_from s1 t in (o :: os, s2)
  end.

Definition lq_decode (l : list Z) : lop :=
  match l with
  | [0; limit] => LCreate limit
  | [1; v] => LPush v
  | [2] => LPop
  | [3; e] => LUnblockPop e
  | [4] => LSize
  | [5] => LDestroy
  | [6; e] => LUnblockPush e
  | _ => LBad
  end.
Definition lq_run (ops : list (list Z)) : list (list Z) := fst (lq_run_from None (map lq_decode ops)).

(* ---------- specification for C10: ONE fifo of entries; an entry is (item, None) when its push has
   completed and (item, Some f) while push future f is still pending on it.  A push is immediate iff
   fewer than `limit` entries are in the fifo; a pop takes the head and completes the oldest pending
   push; unblock_push removes the oldest pending entry. ---------- *)
Record lspec := mkLS {
  ls_fifo : list (Z * option nat);
  ls_pend : list nat;
  ls_limit : Z;
  ls_futs : list fstate;
  ls_pfuts : list fstate;
  ls_alive : bool
}.
Definition ls_new (limit : Z) : lspec := mkLS [] [] limit [] [] true.

Definition admitted (e : Z * option nat) : bool := match snd e with None => true | Some _ => false end.
Definition ls_size (s : lspec) : Z := zlen (filter admitted (ls_fifo s)).

(* complete the oldest pending entry: returns the fifo with that entry admitted and the push future id *)
Fixpoint admit_first (l : list (Z * option nat)) : list (Z * option nat) * option nat :=
  match l with
  | [] => ([], None)
  | (v, Some f) :: t => ((v, None) :: t, Some f)
  | (v, None) :: t => let '(t1, r) := admit_first t in ((v, None) :: t1, r)
  end.
(* withdraw the oldest pending entry *)
Fixpoint drop_first (l : list (Z * option nat)) : list (Z * option nat) * option nat :=
  match l with
  | [] => ([], None)
  | (v, Some f) :: t => (t, Some f)
  | (v, None) :: t => let '(t1, r) := drop_first t in ((v, None) :: t1, r)
  end.
Fixpoint pending_pushes (l : list (Z * option nat)) : list nat :=
  match l with
  | [] => []
  | (_, Some f) :: t => f :: pending_pushes t
  | (_, None) :: t => pending_pushes t
  end.

Definition ls_obs (old s : lspec) (ret : Z) : list Z :=
  let d := diff (ls_futs old) (ls_futs s) in
  ok_obs ret (ls_size s) (zlen d / 4 :: d ++ diff (ls_pfuts old) (ls_pfuts s)).

Definition ls_step_on (s : lspec) (x : lop) : lspec * list Z :=
  if negb (ls_alive s) then (s, rejected) else
  let id := length (ls_futs s) in
  let f := length (ls_pfuts s) in
  match x with
  | LPush v =>
      match ls_pend s with
      | p :: w =>
          let s1 := mkLS (ls_fifo s) w (ls_limit s) (set_nth (ls_futs s) p (FValue v)) (ls_pfuts s ++ [FValue 0]) true in
          (s1, ls_obs s s1 (Z.of_nat f))
      | [] =>
          if zlen (ls_fifo s) <? ls_limit s
          then let s1 := mkLS (ls_fifo s ++ [(v, None)]) [] (ls_limit s) (ls_futs s) (ls_pfuts s ++ [FValue 0]) true in
               (s1, ls_obs s s1 (Z.of_nat f))
          else let s1 := mkLS (ls_fifo s ++ [(v, Some f)]) [] (ls_limit s) (ls_futs s) (ls_pfuts s ++ [FPending]) true in
               (s1, ls_obs s s1 (Z.of_nat f))
      end
  | LPop =>
      match ls_fifo s with
      | [] => let s1 := mkLS [] (ls_pend s ++ [id]) (ls_limit s) (ls_futs s ++ [FPending]) (ls_pfuts s) true in
              (s1, ls_obs s s1 (Z.of_nat id))
      | (x, _) :: t =>
          let '(t1, r) := admit_first t in
          let pf := match r with Some bp => set_nth (ls_pfuts s) bp (FValue 0) | None => ls_pfuts s end in
          let s1 := mkLS t1 (ls_pend s) (ls_limit s) (ls_futs s ++ [FValue x]) pf true in
          (s1, ls_obs s s1 (Z.of_nat id))
      end
  | LUnblockPop e =>
      match ls_pend s with
      | [] => (s, ls_obs s s 0)
      | p :: w => let s1 := mkLS (ls_fifo s) w (ls_limit s) (set_nth (ls_futs s) p (FExc e)) (ls_pfuts s) true in
                  (s1, ls_obs s s1 1)
      end
  | LUnblockPush e =>
      match drop_first (ls_fifo s) with
      | (_, None) => (s, ls_obs s s 0)
      | (t1, Some bp) => let s1 := mkLS t1 (ls_pend s) (ls_limit s) (ls_futs s) (set_nth (ls_pfuts s) bp (FExc e)) true in
                         (s1, ls_obs s s1 1)
      end
  | LSize => (s, ls_obs s s 0)
  | LDestroy =>
      let s1 := mkLS [] [] (ls_limit s) (cancel_all (ls_futs s) (ls_pend s))
                     (cancel_all (ls_pfuts s) (pending_pushes (ls_fifo s))) false in
      (s1, ls_obs s s1 0)
  | _ => (s, rejected)
  end.

Definition ls_step (s : option lspec) (x : lop) : option lspec * list Z :=
  match s with
  | None =>
      match x with
      | LCreate limit => if 0 <=? limit then (Some (ls_new limit), ls_obs (ls_new limit) (ls_new limit) 0)
                         else (None, rejected)
      | _ => (None, rejected)
      end
  | Some q => let '(q1, o) := ls_step_on q x in (Some q1, o)
  end.

Fixpoint ls_run_from (s : option lspec) (l : list lop) : list (list Z) * option lspec :=
  match l with
  | [] => ([], s)
  | x :: t => let '(s1, o) := ls_step s x in
              let '(os, s2) := ls_run_from s1 t in (o :: os, s2)
  end.
Definition ls_run (ops : list (list Z)) : list (list Z) := fst (ls_run_from None (map lq_decode ops)).

(* ---------- trace oracles (run on the IMPLEMENTATION's observations) ----------
   The decidable form of C09 / C10 over an observed trace: the trace is exactly the trace of the
   reference specification (FIFO / bounded FIFO) on the same ops.  QueueProofs shows that every spec
   trace has the conservation / order / exactly-once properties, and that the models' traces pass. *)
Fixpoint zlist_eqb (a b : list Z) : bool :=
  match a, b with
  | [], [] => true
  | x :: t, y :: u => (x =? y) && zlist_eqb t u
  | _, _ => false
  end.
Fixpoint trace_eqb (a b : list (list Z)) : bool :=
  match a, b with
  | [], [] => true
  | x :: t, y :: u => zlist_eqb x y && trace_eqb t u
  | _, _ => false
  end.

Definition q_oracle (ops obs : list (list Z)) : bool := trace_eqb obs (qs_run ops).
Definition lq_oracle (ops obs : list (list Z)) : bool := trace_eqb obs (ls_run ops).

(* queue<void> is specified as the same FIFO machine carrying unit items (value 0): a counting semaphore *)
Definition vq_oracle (ops obs : list (list Z)) : bool :=
  trace_eqb obs (fst (qs_run_from qs0 (map vq_decode ops))).

Definition obs_ok (l : list Z) : bool := match l with 0 :: _ => true | _ => false end.

(* groups of four: [id; ready; kind; payload] *)
Fixpoint lines_of (fuel : nat) (l : list Z) : list (Z * Z * Z * Z) :=
  match fuel with
  | O => []
  | S n => match l with
           | a :: b :: c :: d :: t => (a, b, c, d) :: lines_of n t
           | _ => []
           end
  end.
Definition obs_lines (l : list Z) : list (Z * Z * Z * Z) := lines_of (length l) (skipn 4 l).

(* two-phase engine (closed traces: every push_begin has its push_end): values reported by futures, read in
   future-id order at the end of the trace, are a prefix of the values pushed (in push / push_begin order);
   no future reports a value twice *)
Definition pushed_of (x : qop) (o : list Z) : list Z :=
  if obs_ok o then match x with QPush v => [v] | QPushBegin _ v => [v] | _ => [] end else [].

Fixpoint final_values (lines : list (Z * Z * Z * Z)) (acc : list (Z * Z)) : list (Z * Z) :=
  match lines with
  | [] => acc
  | (id, r, k, v) :: t => final_values t (if (r =? 1) && (k =? 0) then acc ++ [(id, v)] else acc)
  end.
Fixpoint insert_by_id (x : Z * Z) (l : list (Z * Z)) : list (Z * Z) :=
  match l with
  | [] => [x]
  | y :: t => if fst x <=? fst y then x :: l else y :: insert_by_id x t
  end.
Definition sort_by_id (l : list (Z * Z)) : list (Z * Z) := fold_right insert_by_id [] l.
Fixpoint prefix_b (a b : list Z) : bool :=
  match a, b with
  | [], _ => true
  | x :: t, y :: u => (x =? y) && prefix_b t u
  | _, [] => false
  end.

Definition q2_oracle (ops obs : list (list Z)) : bool :=
  let pushed := flat_map (fun p => pushed_of (q_decode (fst p)) (snd p)) (combine ops obs) in
  let vals := sort_by_id (final_values (flat_map obs_lines obs) []) in
  Nat.eqb (length ops) (length obs)
  && nodup_b (map fst vals)
  && prefix_b (map snd vals) pushed.

(* ---------- engine qx: items whose constructor throws on demand ----------
   `1 v` with v < 0: the item constructor throws inside push().  While nobody waits (the item would be constructed by
   _queue.emplace under the lock, queue.h 156) the exception must leave the queue unchanged and usable; the harness
   reports ret = -1.  While a pop is waiting the op is not issued (both sides print `rejected`): see notes/C09.md. *)
Definition is_throw (l : list Z) : bool := match l with [1; v] => v <? 0 | _ => false end.
Fixpoint qx_run_from (q : queue) (ops : list (list Z)) : list (list Z) :=
  match ops with
  | [] => []
  | l :: t =>
      if is_throw l
      then (if alive q && (match waiters q with [] => true | _ => false end) then q_obs q q (-1) else rejected) :: qx_run_from q t
      else let '(q1, o) := q_step q (q_decode l) in o :: qx_run_from q1 t
  end.
Definition qx_run (ops : list (list Z)) : list (list Z) := qx_run_from q0 ops.
(* oracle: a throwing push reports -1 (or is rejected) and, with those ops removed, the trace is the FIFO specification's
   trace of the remaining history: the failed push changed nothing *)
Definition qx_oracle (ops obs : list (list Z)) : bool :=
  let pairs := combine ops obs in
  let kept := filter (fun p => negb (is_throw (fst p))) pairs in
  Nat.eqb (length ops) (length obs)
  && forallb (fun p => if is_throw (fst p) then match snd p with [1] => true | 0 :: -1 :: _ => true | _ => false end else true) pairs
  && q_oracle (map fst kept) (map snd kept).

(* =====================================================================================
   Interleaving model: producer / consumer / unblock_pop / unblock_push / size / destroy threads over queue<T>
   (limit = None) or limited_queue<T> (limit = Some n).  One step = one critical section (entered at the hook point
   q_lock, code 70), or the resolution of a promise taken inside a critical section, which the code performs AFTER
   unlocking (hook point q_res, code 71: queue.h 153-154, 228-229, 279-280, 315-316, 342-343), or a thread noticing that
   the future it waits for is ready (harness point q_wait, code 72), or the destruction of the queue (harness point
   q_destroy, code 73), which the destroying thread may only start when no other thread can take a step (every other
   thread has finished or waits for a future: C++ object lifetime).  After destruction no thread touches the queue.
   A schedule is a list of choices: choice k runs the (k mod |enabled|)-th enabled thread (ascending thread id), exactly
   as harness/ctl.h does.
   ===================================================================================== *)
Record titem := mkIt { it_p : nat; it_k : nat; it_v : Z }.      (* pushed by thread it_p as its it_k-th push *)
Inductive outcome := OItem (it : titem) | OExc (e : Z) | OCancel.

Inductive ppc := PIdle | PRes (blocked : bool) | PWait (blocked : bool).
Inductive cpc := CIdle | CRes | CWait.
Inductive upc := UIdle | URes.

Inductive thr :=
| TProd (vals : list Z) (k : nat) (pc : ppc) (nb : nat) (rets : list Z)   (* k pushes entered; nb blocked pushes consumed *)
| TCons (n : nat) (issued : nat) (pc : cpc)
| TUnb (n : nat) (e : Z) (pc : upc) (rets : list Z)                       (* unblock_pop(e), n times *)
| TUnbPush (n : nat) (e : Z) (pc : upc) (rets : list Z)                   (* unblock_push(e), n times (limited_queue) *)
| TSize (n : nat) (pc : upc) (rets : list Z)                              (* size(), n times *)
| TDestroy (done : bool).

Record tstate := mkT {
  t_items : list titem;                      (* _queue *)
  t_waiters : list nat;                      (* _awaiters: consumer thread ids, oldest first *)
  t_blocked : list (titem * nat);            (* _blocked: (item, producer thread id) *)
  t_limit : option Z;
  t_dead : bool;                             (* the queue object has been destroyed *)
  t_infl : list (nat * (nat * outcome));     (* promise<T> taken by thread i for consumer c, not resolved yet *)
  t_cinfl : list (nat * (nat * Z));          (* promise<void> of blocked producer p taken by thread i, not resolved yet (code) *)
  t_rlog : list (nat * outcome);             (* resolutions of pop futures, in resolution order: (consumer, outcome) *)
  t_pdone : list (nat * Z);                  (* resolutions of blocked pushes: (producer, 0 done | e failed | -1 canceled) *)
  t_alog : list (nat * titem);               (* ghost: item -> pop assignments in critical-section order *)
  t_plog : list titem;                       (* ghost: items in push critical-section order *)
  t_wlog : list titem;                       (* ghost: items withdrawn by unblock_push *)
  t_dlog : list titem;                       (* ghost: items destroyed with the queue *)
  t_thr : list thr
}.

Definition count_n (x : nat) (l : list nat) : nat := length (filter (Nat.eqb x) l).
Fixpoint afind {B} (k : nat) (l : list (nat * B)) : option B :=
  match l with [] => None | (k', b) :: t => if Nat.eqb k k' then Some b else afind k t end.
Fixpoint aremove {B} (k : nat) (l : list (nat * B)) : list (nat * B) :=
  match l with [] => [] | (k', b) :: t => if Nat.eqb k k' then t else (k', b) :: aremove k t end.

Definition pcodes (p : nat) (l : list (nat * Z)) : list Z := map snd (filter (fun x => Nat.eqb p (fst x)) l).

(* enabledness of every thread but the destroyer *)
Definition t_enabled0 (s : tstate) (i : nat) : bool :=
  match nth_error (t_thr s) i with
  | Some (TProd vals k PIdle _ _) => negb (t_dead s) && Nat.ltb k (length vals)
  | Some (TProd _ _ (PRes _) _ _) => true
  | Some (TProd _ _ (PWait false) _ _) => true
  | Some (TProd _ _ (PWait true) nb _) => Nat.ltb nb (length (pcodes i (t_pdone s)))   (* its push future was resolved *)
  | Some (TCons n issued CIdle) => negb (t_dead s) && Nat.ltb issued n
  | Some (TCons _ _ CRes) => true
  | Some (TCons _ issued CWait) => Nat.eqb (count_n i (map fst (t_rlog s))) issued     (* its pop future is ready *)
  | Some (TUnb n _ UIdle rets) => negb (t_dead s) && Nat.ltb (length rets) n
  | Some (TUnb _ _ URes _) => true
  | Some (TUnbPush n _ UIdle rets) => negb (t_dead s) && Nat.ltb (length rets) n
  | Some (TUnbPush _ _ URes _) => true
  | Some (TSize n UIdle rets) => negb (t_dead s) && Nat.ltb (length rets) n
  | Some (TSize _ URes _) => true
  | Some (TDestroy _) => false
  | None => false
  end.

(* the destroyer may run only when nobody else can: every other thread has finished or waits for a future *)
Definition t_enabled (s : tstate) (i : nat) : bool :=
  match nth_error (t_thr s) i with
  | Some (TDestroy d) => negb d && negb (t_dead s) && forallb (fun j => negb (t_enabled0 s j)) (seq 0 (length (t_thr s)))
  | _ => t_enabled0 s i
  end.

Definition set_thr (s : tstate) (i : nat) (t : thr) : list thr := set_nth (t_thr s) i t.

Definition full (s : tstate) : bool :=
  match t_limit s with Some l => zlen (t_items s) >=? l | None => false end.

Definition push_ret (code : Z) : Z := if code =? 0 then 2 else if code =? -1 then 99 else 100 + code.

(* resolution of the pop promise taken by thread i *)
Definition resolve_pop (s : tstate) (i : nat) : tstate :=
  match afind i (t_infl s) with
  | Some (c, o) => mkT (t_items s) (t_waiters s) (t_blocked s) (t_limit s) (t_dead s) (aremove i (t_infl s)) (t_cinfl s) (t_rlog s ++ [(c, o)]) (t_pdone s) (t_alog s) (t_plog s) (t_wlog s) (t_dlog s) (t_thr s)
  | None => s
  end.
(* resolution of the push promise taken by thread i *)
Definition resolve_push (s : tstate) (i : nat) : tstate :=
  match afind i (t_cinfl s) with
  | Some (p, code) => mkT (t_items s) (t_waiters s) (t_blocked s) (t_limit s) (t_dead s) (t_infl s) (aremove i (t_cinfl s)) (t_rlog s) (t_pdone s ++ [(p, code)]) (t_alog s) (t_plog s) (t_wlog s) (t_dlog s) (t_thr s)
  | None => s
  end.
Definition with_thr (s : tstate) (l : list thr) : tstate := mkT (t_items s) (t_waiters s) (t_blocked s) (t_limit s) (t_dead s) (t_infl s) (t_cinfl s) (t_rlog s) (t_pdone s) (t_alog s) (t_plog s) (t_wlog s) (t_dlog s) (l).


(* one step of thread i; returns the hook-point code of the step *)
Definition tstep (s : tstate) (i : nat) : tstate * Z :=
  match nth_error (t_thr s) i with
  | Some (TProd vals k PIdle nb rets) =>
      let it := mkIt i k (nth k vals 0) in
      match t_waiters s with
      | c :: w =>                                                                   (* 150-153 / 276-279 *)
          (mkT (t_items s) (w) (t_blocked s) (t_limit s) (t_dead s) (t_infl s ++ [(i, (c, OItem it))]) (t_cinfl s) (t_rlog s) (t_pdone s) (t_alog s ++ [(c, it)]) (t_plog s ++ [it]) (t_wlog s) (t_dlog s) (set_thr s i (TProd vals (S k) (PRes false) nb rets)), 70)
      | [] =>
          if full s                                                                 (* 283-286 *)
          then (mkT (t_items s) ([]) (t_blocked s ++ [(it, i)]) (t_limit s) (t_dead s) (t_infl s) (t_cinfl s) (t_rlog s) (t_pdone s) (t_alog s) (t_plog s ++ [it]) (t_wlog s) (t_dlog s) (set_thr s i (TProd vals (S k) (PRes true) nb rets)), 70)
          else (mkT (t_items s ++ [it]) ([]) (t_blocked s) (t_limit s) (t_dead s) (t_infl s) (t_cinfl s) (t_rlog s) (t_pdone s) (t_alog s) (t_plog s ++ [it]) (t_wlog s) (t_dlog s) (set_thr s i (TProd vals (S k) (PRes false) nb rets)), 70)                                                             (* 156 / 288 *)
      end
  | Some (TProd vals k (PRes b) nb rets) =>                                         (* 154 / 280; after every unlock *)
      let s1 := resolve_pop s i in
      (with_thr s1 (set_nth (t_thr s1) i
         (if b then TProd vals k (PWait true) nb rets
          else TProd vals k (PWait false) nb (rets ++ [if afind i (t_infl s) then 1 else 0]))), 71)
  | Some (TProd vals k (PWait b) nb rets) =>
      (mkT (t_items s) (t_waiters s) (t_blocked s) (t_limit s) (t_dead s) (t_infl s) (t_cinfl s) (t_rlog s) (t_pdone s) (t_alog s) (t_plog s) (t_wlog s) (t_dlog s) (set_thr s i (TProd vals k PIdle (if b then S nb else nb) (if b then rets ++ [push_ret (nth nb (pcodes i (t_pdone s)) 0)] else rets))), 72)
  | Some (TCons n issued CIdle) =>
      match t_items s with
      | [] =>                                                                       (* 200-201 / 301-302 *)
          (mkT ([]) (t_waiters s ++ [i]) (t_blocked s) (t_limit s) (t_dead s) (t_infl s) (t_cinfl s) (t_rlog s) (t_pdone s) (t_alog s) (t_plog s) (t_wlog s) (t_dlog s) (set_thr s i (TCons n (S issued) CRes)), 70)
      | it :: t =>
          match t_blocked s with
          | (y, p) :: b =>                                                          (* 305-315 *)
              (mkT (t ++ [y]) (t_waiters s) (b) (t_limit s) (t_dead s) (t_infl s) (t_cinfl s ++ [(i, (p, 0))]) (t_rlog s ++ [(i, OItem it)]) (t_pdone s) (t_alog s ++ [(i, it)]) (t_plog s) (t_wlog s) (t_dlog s) (set_thr s i (TCons n (S issued) CRes)), 70)
          | [] =>                                                                   (* 203-209 / 318 *)
              (mkT (t) (t_waiters s) ([]) (t_limit s) (t_dead s) (t_infl s) (t_cinfl s) (t_rlog s ++ [(i, OItem it)]) (t_pdone s) (t_alog s ++ [(i, it)]) (t_plog s) (t_wlog s) (t_dlog s) (set_thr s i (TCons n (S issued) CRes)), 70)
          end
      end
  | Some (TCons n issued CRes) =>                                                   (* 316 *)
      let s1 := resolve_push s i in
      (with_thr s1 (set_nth (t_thr s1) i (TCons n issued CWait)), 71)
  | Some (TCons n issued CWait) =>
      (mkT (t_items s) (t_waiters s) (t_blocked s) (t_limit s) (t_dead s) (t_infl s) (t_cinfl s) (t_rlog s) (t_pdone s) (t_alog s) (t_plog s) (t_wlog s) (t_dlog s) (set_thr s i (TCons n issued CIdle)), 72)
  | Some (TUnb n e UIdle rets) =>
      match t_waiters s with
      | [] => (mkT (t_items s) ([]) (t_blocked s) (t_limit s) (t_dead s) (t_infl s) (t_cinfl s) (t_rlog s) (t_pdone s) (t_alog s) (t_plog s) (t_wlog s) (t_dlog s) (set_thr s i (TUnb n e URes rets)), 70)                                                              (* 225 *)
      | c :: w => (mkT (t_items s) (w) (t_blocked s) (t_limit s) (t_dead s) (t_infl s ++ [(i, (c, OExc e))]) (t_cinfl s) (t_rlog s) (t_pdone s) (t_alog s) (t_plog s) (t_wlog s) (t_dlog s) (set_thr s i (TUnb n e URes rets)), 70)                                                          (* 226-228 *)
      end
  | Some (TUnb n e URes rets) =>                                                    (* 229 *)
      let s1 := resolve_pop s i in
      (with_thr s1 (set_nth (t_thr s1) i (TUnb n e UIdle (rets ++ [if afind i (t_infl s) then 1 else 0]))), 71)
  | Some (TUnbPush n e UIdle rets) =>
      match t_blocked s with
      | [] => (mkT (t_items s) (t_waiters s) ([]) (t_limit s) (t_dead s) (t_infl s) (t_cinfl s) (t_rlog s) (t_pdone s) (t_alog s) (t_plog s) (t_wlog s) (t_dlog s) (set_thr s i (TUnbPush n e URes rets)), 70)                                                              (* 339 *)
      | (y, p) :: b => (mkT (t_items s) (t_waiters s) (b) (t_limit s) (t_dead s) (t_infl s) (t_cinfl s ++ [(i, (p, e))]) (t_rlog s) (t_pdone s) (t_alog s) (t_plog s) (t_wlog s ++ [y]) (t_dlog s) (set_thr s i (TUnbPush n e URes rets)), 70)                                                     (* 340-342 *)
      end
  | Some (TUnbPush n e URes rets) =>                                                (* 343 *)
      let s1 := resolve_push s i in
      (with_thr s1 (set_nth (t_thr s1) i (TUnbPush n e UIdle (rets ++ [if afind i (t_cinfl s) then 1 else 0]))), 71)
  | Some (TSize n UIdle rets) =>                                                    (* 176-179 *)
      (mkT (t_items s) (t_waiters s) (t_blocked s) (t_limit s) (t_dead s) (t_infl s) (t_cinfl s) (t_rlog s) (t_pdone s) (t_alog s) (t_plog s) (t_wlog s) (t_dlog s) (set_thr s i (TSize n URes (rets ++ [zlen (t_items s)]))), 70)
  | Some (TSize n URes rets) =>
      (mkT (t_items s) (t_waiters s) (t_blocked s) (t_limit s) (t_dead s) (t_infl s) (t_cinfl s) (t_rlog s) (t_pdone s) (t_alog s) (t_plog s) (t_wlog s) (t_dlog s) (set_thr s i (TSize n UIdle rets)), 71)
  | Some (TDestroy d) =>                                                            (* ~limited_queue / ~queue *)
      (mkT ([]) ([]) ([]) (t_limit s) (true) (t_infl s) (t_cinfl s) (t_rlog s ++ map (fun c => (c, OCancel)) (t_waiters s)) (t_pdone s ++ map (fun b => (snd b, -1)) (t_blocked s)) (t_alog s) (t_plog s) (t_wlog s) (t_dlog s ++ t_items s ++ map fst (t_blocked s)) (set_thr s i (TDestroy true)), 73)
  | None => (s, 0)
  end.

Fixpoint t_enabled_list (s : tstate) (n : nat) (from : nat) : list nat :=
  match n with
  | O => []
  | S m => (if t_enabled s from then [from] else []) ++ t_enabled_list s m (S from)
  end.
Definition t_all_enabled (s : tstate) : list nat := t_enabled_list s (length (t_thr s)) 0.

Definition t_pick (s : tstate) (k : Z) : option nat :=
  match t_all_enabled s with
  | [] => None
  | en => Some (nth (Z.to_nat (Z.abs k mod zlen en)) en 0%nat)
  end.

(* run a schedule; an exhausted schedule continues with choice 0 until nothing is enabled (fuel bounds the length) *)
Fixpoint t_run_sched (fuel : nat) (s : tstate) (sched : list Z) (tr : list (list Z)) : tstate * list (list Z) :=
  match fuel with
  | O => (s, tr)
  | S f =>
      let k := match sched with [] => 0 | k :: _ => k end in
      match t_pick s k with
      | None => (s, tr)
      | Some i => let '(s1, code) := tstep s i in t_run_sched f s1 (tl sched) (tr ++ [[Z.of_nat i; code]])
      end
  end.

(* thread declarations: 1 v.. producer | 2 n consumer | 3 n e unblock_pop | 4 n size | 5 destroy | 6 n e unblock_push (limited only) *)
Definition t_decode_thr (lim : bool) (l : list Z) : list thr :=
  match l with
  | 1 :: vals => [TProd vals 0 PIdle 0 []]
  | [2; n] => if 0 <=? n then [TCons (Z.to_nat n) 0 CIdle] else []
  | [3; n; e] => if 0 <=? n then [TUnb (Z.to_nat n) e UIdle []] else []
  | [4; n] => if 0 <=? n then [TSize (Z.to_nat n) UIdle []] else []
  | [5] => [TDestroy false]
  | [6; n; e] => if lim && (0 <=? n) then [TUnbPush (Z.to_nat n) e UIdle []] else []
  | _ => []
  end.
Definition t_decode_sched (l : list Z) : list Z := match l with 9 :: r => r | _ => [] end.
Definition t_decode_limit (l : list Z) : list Z := match l with [0; n] => [n] | _ => [] end.

Definition t_init (limit : option Z) (thrs : list thr) : tstate := mkT [] [] [] limit false [] [] [] [] [] [] [] [] thrs.

Definition t_work (t : thr) : nat :=
  match t with
  | TProd vals _ _ _ _ => 3 * length vals | TCons n _ _ => 3 * n | TUnb n _ _ _ => 2 * n | TUnbPush n _ _ _ => 2 * n
  | TSize n _ _ => 2 * n | TDestroy _ => 1
  end.
Definition t_fuel (thrs : list thr) : nat := fold_right (fun t a => (t_work t + a)%nat) 4%nat thrs.

Definition t_finished (dead : bool) (t : thr) : bool :=
  match t with
  | TProd vals k PIdle _ _ => dead || Nat.eqb k (length vals)
  | TCons n issued CIdle => dead || Nat.eqb issued n
  | TUnb n _ UIdle rets => dead || Nat.eqb (length rets) n
  | TUnbPush n _ UIdle rets => dead || Nat.eqb (length rets) n
  | TSize n UIdle rets => dead || Nat.eqb (length rets) n
  | TDestroy d => d
  | _ => false
  end.
Fixpoint t_stuck (dead : bool) (l : list thr) (i : nat) : list Z :=
  match l with [] => [] | t :: r => (if t_finished dead t then [] else [Z.of_nat i]) ++ t_stuck dead r (S i) end.

Definition enc_outcome (o : outcome) : Z := match o with OItem it => it_v it | OExc e => - e | OCancel => -1000000 end.
Definition t_received (s : tstate) (c : nat) : list Z :=
  map (fun x => enc_outcome (snd x)) (filter (fun x => Nat.eqb c (fst x)) (t_rlog s)).

(* per-thread result line: tid, kind of thread, results.
   limited_queue::push returns a future<void>; the caller reads it after the call has returned (and the lock was released),
   so "handed over" (1), "enqueued" (0) and "was blocked, then admitted" (2) all look alike: completed = 0 *)
Definition t_thr_obs (lim : bool) (s : tstate) (i : nat) (t : thr) : list Z :=
  match t with
  | TProd _ _ _ _ rets => Z.of_nat i :: 1 :: (if lim then map (fun r => if r <=? 2 then 0 else r) rets else rets)
  | TCons _ _ _ => Z.of_nat i :: 2 :: t_received s i
  | TUnb _ _ _ rets => Z.of_nat i :: 3 :: rets
  | TSize _ _ rets => Z.of_nat i :: 4 :: rets
  | TDestroy d => [Z.of_nat i; 5; b2z d]
  | TUnbPush _ _ _ rets => Z.of_nat i :: 6 :: rets
  end.
Fixpoint t_thr_obs_all (lim : bool) (s : tstate) (l : list thr) (i : nat) : list (list Z) :=
  match l with [] => [] | t :: r => t_thr_obs lim s i t :: t_thr_obs_all lim s r (S i) end.

(* what is left: size(), then the items a drain would pop (queued items, then the items of blocked pushes) *)
Definition t_final_obs (s : tstate) : list Z :=
  9 :: zlen (t_items s) :: map it_v (t_items s) ++ map (fun b => it_v (fst b)) (t_blocked s).

Definition t_limit_of (lim : bool) (ops : list (list Z)) : option (option Z) :=
  if lim then match flat_map t_decode_limit ops with
              | n :: _ => if 1 <=? n then Some (Some n) else None
              | [] => None
              end
  else Some None.

Definition t_exec (lim : bool) (ops : list (list Z)) : option tstate * list (list Z) :=
  match t_limit_of lim ops with
  | None => (None, [])
  | Some l =>
      let thrs := flat_map (t_decode_thr lim) ops in
      let '(s, tr) := t_run_sched (t_fuel thrs) (t_init l thrs) (flat_map t_decode_sched ops) [] in
      (Some s, tr)
  end.

Definition t_obs_of (lim : bool) (s : tstate) (tr : list (list Z)) : list (list Z) :=
  tr ++ (match t_stuck (t_dead s) (t_thr s) 0 with [] => [] | st => [777 :: st] end)
     ++ t_thr_obs_all lim s (t_thr s) 0 ++ [t_final_obs s].

Definition tq_run (lim : bool) (ops : list (list Z)) : list (list Z) :=
  match t_exec lim ops with
  | (None, _) => [rejected]
  | (Some s, tr) => t_obs_of lim s tr
  end.

(* ---------- reference specification for the thread engines: an ATOMIC bounded FIFO at thread level ----------
   Every operation is one indivisible step (no unlock/resolve gap, no futures): a FIFO of entries (value, Some p while
   producer p's push is still pending on it), a FIFO of waiting consumers, and logs of what every thread is told.
   The oracle replays the critical sections of an observed trace, in trace order, on this machine. *)
Record astate := mkA {
  a_fifo : list (Z * option nat);
  a_pend : list nat;
  a_limit : option Z;
  a_dead : bool;
  a_cres : list (nat * Z);       (* consumer results: (consumer, encoded outcome) *)
  a_pcls : list (nat * Z);       (* producer push classes at push time: 0 admitted, 1 handed over, 2 blocked *)
  a_ures : list (nat * Z);       (* results of unblock_pop / unblock_push / size / destroy calls *)
  a_cnt : list nat               (* critical sections entered, per thread *)
}.
Definition a_init (limit : option Z) (n : nat) : astate := mkA [] [] limit false [] [] [] (repeat 0%nat n).

Definition a_size (a : astate) : Z := zlen (filter admitted (a_fifo a)).
Definition a_full (a : astate) : bool :=
  match a_limit a with Some l => zlen (a_fifo a) >=? l | None => false end.
Fixpoint bump (l : list nat) (i : nat) : list nat :=
  match l, i with
  | [], _ => []
  | x :: t, O => S x :: t
  | x :: t, S j => x :: bump t j
  end.

Definition astep (thrs : list thr) (a : astate) (i : nat) : astate :=
  let cnt := bump (a_cnt a) i in
  let n := nth i (a_cnt a) 0%nat in
  if a_dead a then a else
  match nth_error thrs i with
  | Some (TProd vals _ _ _ _) =>
      let v := nth n vals 0 in
      match a_pend a with
      | c :: w => mkA (a_fifo a) w (a_limit a) false (a_cres a ++ [(c, v)]) (a_pcls a ++ [(i, 1)]) (a_ures a) cnt
      | [] => if a_full a
              then mkA (a_fifo a ++ [(v, Some i)]) [] (a_limit a) false (a_cres a) (a_pcls a ++ [(i, 2)]) (a_ures a) cnt
              else mkA (a_fifo a ++ [(v, None)]) [] (a_limit a) false (a_cres a) (a_pcls a ++ [(i, 0)]) (a_ures a) cnt
      end
  | Some (TCons _ _ _) =>
      match a_fifo a with
      | [] => mkA [] (a_pend a ++ [i]) (a_limit a) false (a_cres a) (a_pcls a) (a_ures a) cnt
      | (v, _) :: t => mkA (fst (admit_first t)) (a_pend a) (a_limit a) false (a_cres a ++ [(i, v)]) (a_pcls a) (a_ures a) cnt
      end
  | Some (TUnb _ e _ _) =>
      match a_pend a with
      | [] => mkA (a_fifo a) [] (a_limit a) false (a_cres a) (a_pcls a) (a_ures a ++ [(i, 0)]) cnt
      | c :: w => mkA (a_fifo a) w (a_limit a) false (a_cres a ++ [(c, - e)]) (a_pcls a) (a_ures a ++ [(i, 1)]) cnt
      end
  | Some (TUnbPush _ e _ _) =>
      match drop_first (a_fifo a) with
      | (_, None) => mkA (a_fifo a) (a_pend a) (a_limit a) false (a_cres a) (a_pcls a) (a_ures a ++ [(i, 0)]) cnt
      | (f1, Some _) => mkA f1 (a_pend a) (a_limit a) false (a_cres a) (a_pcls a) (a_ures a ++ [(i, 1)]) cnt
      end
  | Some (TSize _ _ _) => mkA (a_fifo a) (a_pend a) (a_limit a) false (a_cres a) (a_pcls a) (a_ures a ++ [(i, a_size a)]) cnt
  | Some (TDestroy _) =>
      mkA [] [] (a_limit a) true (a_cres a ++ map (fun c => (c, -1000000)) (a_pend a)) (a_pcls a) (a_ures a ++ [(i, 1)]) cnt
  | None => a
  end.

(* replay: only the critical sections (70) and the destruction (73) are operations of the specification *)
Definition is_cs (l : list Z) : option nat :=
  match l with
  | [i; c] => if ((c =? 70) || (c =? 73)) && (0 <=? i) then Some (Z.to_nat i) else None
  | _ => None
  end.
Definition areplay (thrs : list thr) (a : astate) (tr : list (list Z)) : astate :=
  fold_left (fun a l => match is_cs l with Some i => astep thrs a i | None => a end) tr a.

Definition is_trace2 (l : list Z) : bool := match l with [a; c] => (70 <=? c) && (c <=? 73) && negb (a =? 777) | _ => false end.
Fixpoint take_trace (obs : list (list Z)) : list (list Z) * list (list Z) :=
  match obs with
  | l :: t => if is_trace2 l then let '(a, b) := take_trace t in (l :: a, b) else ([], obs)
  | [] => ([], [])
  end.

Definition sel (i : nat) (l : list (nat * Z)) : list Z := map snd (filter (fun x => Nat.eqb i (fst x)) l).

(* layout of an observation: trace lines, an optional deadlock line "777 stuck..", one result line per thread in thread
   order ("tid kind results.."), the final line "9 size drained.." *)
Definition result_line (lines : list (list Z)) (i : nat) : option (list Z) :=
  match nth i lines [] with
  | a :: b :: r => if (a =? Z.of_nat i) && (1 <=? b) && (b <=? 6) then Some r else None
  | _ => None
  end.
Definition split_stuck (rest : list (list Z)) : list Z * list (list Z) :=
  match rest with
  | (777 :: st) :: r => (st, r)
  | _ => ([], rest)
  end.

Fixpoint zlist_eqb' (a b : list Z) : bool :=
  match a, b with
  | [], [] => true
  | x :: t, y :: u => (x =? y) && zlist_eqb' t u
  | _, _ => false
  end.

(* a reported push result against the class the specification gave the push (0 admitted, 1 handed over, 2 blocked):
   queue<T>::push reports "woke somebody" = class; a limited_queue push that failed or was canceled must have been blocked *)
Definition class_ok (lim : bool) (rc : Z * Z) : bool :=
  let '(r, c) := rc in if lim then (r <? 99) || (c =? 2) else r =? c.
Definition classes_ok (lim : bool) (r spec : list Z) : bool :=
  Nat.leb (length r) (length spec) && forallb (class_ok lim) (combine r spec).

(* what thread i reported must be what the specification tells it, for as many operations as it completed; a thread
   that is not stuck completed every operation it entered; a stuck thread is at most one operation behind *)
Definition thread_ok (lim : bool) (thrs : list thr) (a : astate) (rest : list (list Z)) (stuck : list Z) (i : nat) (t : thr) : bool :=
  match result_line rest i with
  | None => false
  | Some r =>
      let entered := nth i (a_cnt a) 0%nat in
      let is_stuck := memz (Z.of_nat i) stuck in
      let cnt_ok := if is_stuck then Nat.leb (length r) entered && Nat.leb entered (S (length r)) else Nat.eqb (length r) entered in
      match t with
      | TProd _ _ _ _ _ => classes_ok lim r (sel i (a_pcls a)) && cnt_ok
      | TCons _ _ _ => prefix_b r (sel i (a_cres a)) && cnt_ok
      | TDestroy _ => match r with [d] => if is_stuck then d =? 0 else (d =? 1) && Nat.eqb entered 1 | _ => false end
      | _ => prefix_b r (sel i (a_ures a)) && cnt_ok
      end
  end.

Fixpoint threads_ok (lim : bool) (thrs : list thr) (a : astate) (rest : list (list Z)) (stuck : list Z) (l : list thr) (i : nat) : bool :=
  match l with
  | [] => true
  | t :: r => thread_ok lim thrs a rest stuck i t && threads_ok lim thrs a rest stuck r (S i)
  end.

(* ---------- oracle for the controlled-thread engines, evaluated on the IMPLEMENTATION's trace ----------
   Replaying the critical sections of the trace, in trace order, on the atomic bounded FIFO: every consumer reported
   exactly the outcomes the FIFO gives it (each item once, in push order, waiting pops served in arrival order,
   unblock_pop hits the oldest waiter, destruction cancels), every producer's pushes were admitted / handed over /
   blocked exactly when the FIFO says, size / unblock results agree, what is left in the queue is what the FIFO holds,
   and every operation a thread reports corresponds to exactly one critical section of that thread in the trace. *)
Definition tq_oracle (lim : bool) (ops obs : list (list Z)) : bool :=
  match t_limit_of lim ops with
  | None => match obs with [[1]] => true | _ => false end
  | Some limit =>
      let thrs := flat_map (t_decode_thr lim) ops in
      let '(tr, rest) := take_trace obs in
      let '(stuck, rest1) := split_stuck rest in
      let a := areplay thrs (a_init limit (length thrs)) tr in
      Nat.eqb (length rest1) (S (length thrs))
      && threads_ok lim thrs a (firstn (length thrs) rest1) stuck thrs 0
      && match nth (length thrs) rest1 [] with
         | 9 :: sz :: drained => (sz =? a_size a) && zlist_eqb' drained (map fst (a_fifo a))
         | _ => false
         end
  end.

(* =====================================================================================
   Callback consumers (engine qcb): a consumer that is not a coroutine but a callback awaiter
   (call_fn_future_awaiter, future.h 1023-1061) whose completion callback records the outcome and asks for the next
   item from inside the callback (`start()` again) while its budget lasts.  The callback runs synchronously inside the
   promise resolution, which queue.h performs AFTER leaving the critical section (153-154, 228-229), so the nested pop()
   is an ordinary pop issued in the middle of the push / unblock_pop.  A canceled outcome (queue destroyed) ends the consumer.
   ===================================================================================== *)
Inductive cop := COp (x : qop) | CPopCb (k : nat) | CBad.
Record cqueue := mkCQ { cbase : queue; cbud : list (nat * nat) }.    (* parked callback pops: future id -> re-pops left *)
Definition cq0 : cqueue := mkCQ q0 [].

Definition is_pending (f : fstate) : bool := match f with FPending => true | _ => false end.

(* the callback of a pop that just completed (value or exception) with k re-pops left *)
Fixpoint cb_chain (k : nat) (q : queue) (cb : list (nat * nat)) : queue * list (nat * nat) :=
  match k with
  | O => (q, cb)
  | S k' =>
      let '(q1, id) := q_pop q in
      if is_pending (fget (futs q1) id) then (q1, cb ++ [(id, k')]) else cb_chain k' q1 cb
  end.

Definition head_waiter (q : queue) : option nat := match waiters q with p :: _ => Some p | [] => None end.

Definition cq_after_resolve (old : queue) (q1 : queue) (cb : list (nat * nat)) : queue * list (nat * nat) :=
  match head_waiter old with
  | Some p => match afind p cb with
              | Some k => cb_chain k q1 (aremove p cb)
              | None => (q1, cb)
              end
  | None => (q1, cb)
  end.

Definition cq_step (s : cqueue) (x : cop) : cqueue * list Z :=
  let q := cbase s in
  if negb (alive q) then (s, rejected) else
  match x with
  | CPopCb k =>
      let '(q1, id) := q_pop q in
      let '(q2, cb) := if is_pending (fget (futs q1) id) then (q1, cbud s ++ [(id, k)]) else cb_chain k q1 (cbud s) in
      (mkCQ q2 cb, q_obs q q2 (Z.of_nat id))
  | COp (QPush v) =>
      let '(q1, r) := q_push q v in
      let '(q2, cb) := if r then cq_after_resolve q q1 (cbud s) else (q1, cbud s) in
      (mkCQ q2 cb, q_obs q q2 (b2z r))
  | COp (QUnblockPop e) =>
      let '(q1, r) := q_unblock_pop q e in
      let '(q2, cb) := if r then cq_after_resolve q q1 (cbud s) else (q1, cbud s) in
      (mkCQ q2 cb, q_obs q q2 (b2z r))
  | COp QDestroy => let q1 := q_destroy q in (mkCQ q1 [], q_obs q q1 0)
  | COp QPop => let '(q1, o) := q_step q QPop in (mkCQ q1 (cbud s), o)
  | COp QSize => let '(q1, o) := q_step q QSize in (mkCQ q1 (cbud s), o)
  | _ => (s, rejected)
  end.

Fixpoint cq_run_from (s : cqueue) (l : list cop) : list (list Z) * cqueue :=
  match l with
  | [] => ([], s)
  | x :: t => let '(s1, o) := cq_step s x in
              let '(os, s2) := cq_run_from s1 t in (o :: os, s2)
  end.

Definition cq_decode (l : list Z) : cop :=
  match l with
  | [6; k] => if 0 <=? k then CPopCb (Z.to_nat k) else CBad
  | [1; _] | [2] | [3; _] | [4] | [5] => COp (q_decode l)
  | _ => CBad
  end.
Definition cq_run (ops : list (list Z)) : list (list Z) := fst (cq_run_from cq0 (map cq_decode ops)).

(* oracle on the implementation's trace: values reported by the pop futures, read in future-id (= pop arrival) order,
   are a duplicate-free prefix of the pushed values *)
Definition cq_oracle (ops obs : list (list Z)) : bool := q2_oracle ops obs.
