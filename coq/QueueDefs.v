(* QueueDefs.v — executable models of cocls::queue<T>, queue<void> and limited_queue<T> (queue.h),
   transcribed branch by branch, plus the reference specifications they are proved to refine.
   Model only; proofs are in QueueProofs.v.  Line numbers refer to /repo/src/cocls/queue.h. *)
From Cocls Require Import Base.
Local Open Scope Z_scope.

(* ---------- futures handed out by pop() / push() ----------
   A future is identified by its creation index.  Outcome as seen through ready()/value():
   pending (value_not_ready_exception), a value, an exception (integer code of the test exception),
   or canceled (promise dropped => await_canceled_exception, future.h:338-345, :600-604). *)
Inductive fstate := FPending | FValue (v : Z) | FExc (e : Z) | FCanceled.

Definition fstate_eqb (a b : fstate) : bool :=
  match a, b with
  | FPending, FPending => true
  | FValue x, FValue y => x =? y
  | FExc x, FExc y => x =? y
  | FCanceled, FCanceled => true
  | _, _ => false
  end.

Definition fget (fs : list fstate) (i : nat) : fstate := nth i fs FCanceled.

(* dropping a container of promises: each associated future becomes canceled *)
Fixpoint cancel_all (fs : list fstate) (ps : list nat) : list fstate :=
  match ps with
  | [] => fs
  | p :: t => cancel_all (set_nth fs p FCanceled) t
  end.

(* what the harness prints for one future: id, ready(), kind (0 value, 1 exception, -1 canceled,
   -2 not ready), payload *)
Definition enc_f (i : nat) (f : fstate) : list Z :=
  match f with
  | FPending => [Z.of_nat i; 0; -2; 0]
  | FValue v => [Z.of_nat i; 1; 0; v]
  | FExc e => [Z.of_nat i; 1; 1; e]
  | FCanceled => [Z.of_nat i; 1; -1; 0]
  end.

(* every observation lists the futures whose visible state changed during the op (new ones included),
   in creation order *)
Fixpoint diff_from (i : nat) (old new : list fstate) : list Z :=
  match new with
  | [] => []
  | f :: t =>
      match old with
      | [] => enc_f i f ++ diff_from (S i) [] t
      | g :: u => (if fstate_eqb f g then [] else enc_f i f) ++ diff_from (S i) u t
      end
  end.
Definition diff (old new : list fstate) : list Z := diff_from 0 old new.

(* observation: status 0 + return value + size() + empty() after the op + changed futures; or rejected *)
Definition rejected : list Z := [1].
Definition ok_obs (ret : Z) (size : Z) (d : list Z) : list Z :=
  0 :: ret :: size :: b2z (size =? 0) :: d.

Definition nat_z (z : Z) : nat := Z.to_nat z.

(* =====================================================================================
   queue<T>                                                                  (lines 126-239)
   ===================================================================================== *)
Record queue := mkQ {
  items : list Z;          (* _queue, front first *)
  waiters : list nat;      (* _awaiters: parked pop promises, oldest first *)
  futs : list fstate;      (* every future<T> ever returned by pop() *)
  alive : bool             (* the queue object exists *)
}.
Definition q0 : queue := mkQ [] [] [] true.

Inductive qop :=
| QPush (v : Z) | QPop | QUnblockPop (e : Z) | QSize | QDestroy
| QPushBegin (k v : Z) | QPushEnd (k : Z)       (* only meaningful in the two-phase engine *)
| QBad.

(* push, phase 1 — under the lock (148-153 / 155-157): take the oldest waiter, or enqueue *)
Definition q_push_lock (q : queue) (v : Z) : queue * option nat :=
  match waiters q with
  | p :: w => (mkQ (items q) w (futs q) (alive q), Some p)          (* 150-152 *)
  | [] => (mkQ (items q ++ [v]) [] (futs q) (alive q), None)        (* 156 *)
  end.
(* push, phase 2 — after unlock (154): resolve the taken promise with the value *)
Definition q_resolve (q : queue) (p : nat) (s : fstate) : queue :=
  mkQ (items q) (waiters q) (set_nth (futs q) p s) (alive q).

Definition q_push (q : queue) (v : Z) : queue * bool :=
  match q_push_lock q v with
  | (q1, Some p) => (q_resolve q1 p (FValue v), true)               (* 154: return p(args) -> true *)
  | (q1, None) => (q1, false)                                       (* 157 *)
  end.

(* pop (197-212): the new future is parked, or resolved at once with the front item *)
Definition q_pop (q : queue) : queue * nat :=
  let id := length (futs q) in
  match items q with
  | [] => (mkQ [] (waiters q ++ [id]) (futs q ++ [FPending]) (alive q), id)         (* 200-201 *)
  | x :: t => (mkQ t (waiters q) (futs q ++ [FValue x]) (alive q), id)              (* 203-208 *)
  end.

(* unblock_pop (223-230) *)
Definition q_unblock_pop (q : queue) (e : Z) : queue * bool :=
  match waiters q with
  | [] => (q, false)                                                                 (* 225 *)
  | p :: w => (mkQ (items q) w (set_nth (futs q) p (FExc e)) (alive q), true)      (* 226-229 *)
  end.

(* implicit destructor: _awaiters then _queue are destroyed; every parked promise is dropped *)
Definition q_destroy (q : queue) : queue :=
  mkQ [] [] (cancel_all (futs q) (waiters q)) false.

Definition q_obs (old : queue) (q : queue) (ret : Z) : list Z :=
  ok_obs ret (zlen (items q)) (diff (futs old) (futs q)).

Definition q_step (q : queue) (x : qop) : queue * list Z :=
  if negb (alive q) then (q, rejected) else
  match x with
  | QPush v => let '(q1, r) := q_push q v in (q1, q_obs q q1 (b2z r))
  | QPop => let '(q1, id) := q_pop q in (q1, q_obs q q1 (Z.of_nat id))
  | QUnblockPop e => let '(q1, r) := q_unblock_pop q e in (q1, q_obs q q1 (b2z r))
  | QSize => (q, q_obs q q 0)
  | QDestroy => let q1 := q_destroy q in (q1, q_obs q q1 0)
  | _ => (q, rejected)
  end.

Fixpoint q_run_from (q : queue) (l : list qop) : list (list Z) * queue :=
  match l with
  | [] => ([], q)
  | x :: t => let '(q1, o) := q_step q x in
              let '(os, q2) := q_run_from q1 t in (o :: os, q2)
  end.

Definition q_decode (l : list Z) : qop :=
  match l with
  | [1; v] => QPush v
  | [2] => QPop
  | [3; e] => QUnblockPop e
  | [4] => QSize
  | [5] => QDestroy
  | [7; k; v] => QPushBegin k v
  | [8; k] => QPushEnd k
  | _ => QBad
  end.

Definition q_run (ops : list (list Z)) : list (list Z) := fst (q_run_from q0 (map q_decode ops)).

(* ---------- two-phase engine: pushes split at the unlock ----------
   inflight: pushes that have left the critical section holding a promise they have not resolved yet
   (ticket, promise id, value).  Every other op is one critical section, exactly as above. *)
Record queue2 := mkQ2 { base : queue; inflight : list (Z * nat * Z) }.
Definition q20 : queue2 := mkQ2 q0 [].

Fixpoint infl_find (k : Z) (l : list (Z * nat * Z)) : option (nat * Z) :=
  match l with
  | [] => None
  | (k', p, v) :: t => if k =? k' then Some (p, v) else infl_find k t
  end.
Fixpoint infl_remove (k : Z) (l : list (Z * nat * Z)) : list (Z * nat * Z) :=
  match l with
  | [] => []
  | (k', p, v) :: t => if k =? k' then t else (k', p, v) :: infl_remove k t
  end.

Definition q2_step (s : queue2) (x : qop) : queue2 * list Z :=
  match x with
  | QPushBegin k v =>
      if negb (alive (base s)) then (s, rejected) else
      match infl_find k (inflight s) with
      | Some _ => (s, rejected)
      | None =>
          match q_push_lock (base s) v with
          | (q1, Some p) => (mkQ2 q1 (inflight s ++ [(k, p, v)]), q_obs (base s) q1 1)
          | (q1, None) => (mkQ2 q1 (inflight s), q_obs (base s) q1 0)
          end
      end
  | QPushEnd k =>
      (* allowed after destruction too: the pusher owns the promise, it no longer touches the queue *)
      match infl_find k (inflight s) with
      | None => (s, rejected)
      | Some (p, v) =>
          let q1 := q_resolve (base s) p (FValue v) in
          (mkQ2 q1 (infl_remove k (inflight s)), q_obs (base s) q1 1)
      end
  | _ => let '(q1, o) := q_step (base s) x in (mkQ2 q1 (inflight s), o)
  end.

Fixpoint q2_run_from (s : queue2) (l : list qop) : list (list Z) * queue2 :=
  match l with
  | [] => ([], s)
  | x :: t => let '(s1, o) := q2_step s x in
              let '(os, s2) := q2_run_from s1 t in (o :: os, s2)
  end.

Definition q2_run (ops : list (list Z)) : list (list Z) := fst (q2_run_from q20 (map q_decode ops)).

(* ---------- specification for C09: one "balance" that is either a FIFO of items or a FIFO of
   pending pops — never both — plus the outcome of every pop ---------- *)
Inductive balance := BItems (l : list Z) | BWait (w : list nat).
Record qspec := mkQS { bal : balance; s_futs : list fstate; s_alive : bool }.
Definition qs0 : qspec := mkQS (BItems []) [] true.

Definition bal_size (b : balance) : Z := match b with BItems l => zlen l | BWait _ => 0 end.
Definition qs_obs (old s : qspec) (ret : Z) : list Z :=
  ok_obs ret (bal_size (bal s)) (diff (s_futs old) (s_futs s)).

Definition qs_step (s : qspec) (x : qop) : qspec * list Z :=
  if negb (s_alive s) then (s, rejected) else
  let id := length (s_futs s) in
  match x with
  | QPush v =>
      match bal s with
      | BWait (p :: w) => let s1 := mkQS (BWait w) (set_nth (s_futs s) p (FValue v)) true in (s1, qs_obs s s1 1)
      | BWait [] => let s1 := mkQS (BItems [v]) (s_futs s) true in (s1, qs_obs s s1 0)
      | BItems l => let s1 := mkQS (BItems (l ++ [v])) (s_futs s) true in (s1, qs_obs s s1 0)
      end
  | QPop =>
      match bal s with
      | BItems (x :: t) => let s1 := mkQS (BItems t) (s_futs s ++ [FValue x]) true in (s1, qs_obs s s1 (Z.of_nat id))
      | BItems [] => let s1 := mkQS (BWait [id]) (s_futs s ++ [FPending]) true in (s1, qs_obs s s1 (Z.of_nat id))
      | BWait w => let s1 := mkQS (BWait (w ++ [id])) (s_futs s ++ [FPending]) true in (s1, qs_obs s s1 (Z.of_nat id))
      end
  | QUnblockPop e =>
      match bal s with
      | BWait (p :: w) => let s1 := mkQS (BWait w) (set_nth (s_futs s) p (FExc e)) true in (s1, qs_obs s s1 1)
      | _ => (s, qs_obs s s 0)
      end
  | QSize => (s, qs_obs s s 0)
  | QDestroy =>
      let s1 := mkQS (BItems []) (cancel_all (s_futs s) (match bal s with BWait w => w | _ => [] end)) false in
      (s1, qs_obs s s1 0)
  | _ => (s, rejected)
  end.

Fixpoint qs_run_from (s : qspec) (l : list qop) : list (list Z) * qspec :=
  match l with
  | [] => ([], s)
  | x :: t => let '(s1, o) := qs_step s x in
              let '(os, s2) := qs_run_from s1 t in (o :: os, s2)
  end.
Definition qs_run (ops : list (list Z)) : list (list Z) := fst (qs_run_from qs0 (map q_decode ops)).

(* =====================================================================================
   queue<void>  — std_queue<void> is a counter                          (lines 45-55, 126-239)
   ===================================================================================== *)
Record vqueue := mkVQ { vcnt : Z; vwaiters : list nat; vfuts : list fstate; valive : bool }.
Definition vq0 : vqueue := mkVQ 0 [] [] true.

Definition vq_obs (old q : vqueue) (ret : Z) : list Z :=
  ok_obs ret (vcnt q) (diff (vfuts old) (vfuts q)).

Definition vq_step (q : vqueue) (x : qop) : vqueue * list Z :=
  if negb (valive q) then (q, rejected) else
  match x with
  | QPush _ =>
      match vwaiters q with
      | p :: w => let q1 := mkVQ (vcnt q) w (set_nth (vfuts q) p (FValue 0)) true in (q1, vq_obs q q1 1)
      | [] => let q1 := mkVQ (vcnt q + 1) [] (vfuts q) true in (q1, vq_obs q q1 0)       (* 48: ++_sz *)
      end
  | QPop =>
      let id := length (vfuts q) in
      if vcnt q =? 0                                                                       (* 51 *)
      then let q1 := mkVQ (vcnt q) (vwaiters q ++ [id]) (vfuts q ++ [FPending]) true in (q1, vq_obs q q1 (Z.of_nat id))
      else let q1 := mkVQ (Z.max 1 (vcnt q) - 1) (vwaiters q) (vfuts q ++ [FValue 0]) true in   (* 49 *)
           (q1, vq_obs q q1 (Z.of_nat id))
  | QUnblockPop e =>
      match vwaiters q with
      | [] => (q, vq_obs q q 0)
      | p :: w => let q1 := mkVQ (vcnt q) w (set_nth (vfuts q) p (FExc e)) true in (q1, vq_obs q q1 1)
      end
  | QSize => (q, vq_obs q q 0)
  | QDestroy => let q1 := mkVQ 0 [] (cancel_all (vfuts q) (vwaiters q)) false in (q1, vq_obs q q1 0)
  | _ => (q, rejected)
  end.

Fixpoint vq_run_from (q : vqueue) (l : list qop) : list (list Z) * vqueue :=
  match l with
  | [] => ([], q)
  | x :: t => let '(q1, o) := vq_step q x in
              let '(os, q2) := vq_run_from q1 t in (o :: os, q2)
  end.

Definition vq_decode (l : list Z) : qop :=
  match l with
  | [1] => QPush 0
  | [2] => QPop
  | [3; e] => QUnblockPop e
  | [4] => QSize
  | [5] => QDestroy
  | _ => QBad
  end.
Definition vq_run (ops : list (list Z)) : list (list Z) := fst (vq_run_from vq0 (map vq_decode ops)).

(* =====================================================================================
   limited_queue<T>                                                          (lines 254-349)
   Two kinds of futures: future<T> from pop() (store l_futs) and future<void> from push() (l_pfuts).
   ===================================================================================== *)
Record lqueue := mkLQ {
  l_items : list Z;
  l_waiters : list nat;
  l_blocked : list (Z * nat);   (* _blocked: (item, push promise), oldest first *)
  l_limit : Z;
  l_futs : list fstate;         (* pop futures *)
  l_pfuts : list fstate;        (* push futures (value 0 = completed) *)
  l_alive : bool
}.

Inductive lop :=
| LCreate (limit : Z) | LPush (v : Z) | LPop | LUnblockPop (e : Z) | LSize | LDestroy | LUnblockPush (e : Z) | LBad.

Definition lq_new (limit : Z) : lqueue := mkLQ [] [] [] limit [] [] true.

(* observation: like ok_obs, then the number of changed pop futures, their lines, then changed push futures *)
Definition lq_obs (old q : lqueue) (ret : Z) : list Z :=
  let d := diff (l_futs old) (l_futs q) in
  ok_obs ret (zlen (l_items q)) (zlen d / 4 :: d ++ diff (l_pfuts old) (l_pfuts q)).

(* push (274-292) as it is after commit fa14f83; returns the id of the returned future<void> *)
Definition lq_push (q : lqueue) (v : Z) : lqueue * nat :=
  let f := length (l_pfuts q) in
  match l_waiters q with
  | p :: w =>                                                                          (* 276-281 *)
      (mkLQ (l_items q) w (l_blocked q) (l_limit q) (set_nth (l_futs q) p (FValue v))
            (l_pfuts q ++ [FValue 0]) (l_alive q), f)
  | [] =>
      if zlen (l_items q) >=? l_limit q                                                (* 283 *)
      then (mkLQ (l_items q) [] (l_blocked q ++ [(v, f)]) (l_limit q) (l_futs q)
                 (l_pfuts q ++ [FPending]) (l_alive q), f)                             (* 284-286 *)
      else (mkLQ (l_items q ++ [v]) [] (l_blocked q) (l_limit q) (l_futs q)
                 (l_pfuts q ++ [FValue 0]) (l_alive q), f)                             (* 288-289 *)
  end.

(* pop (298-322) *)
Definition lq_pop (q : lqueue) : lqueue * nat :=
  let id := length (l_futs q) in
  match l_items q with
  | [] => (mkLQ [] (l_waiters q ++ [id]) (l_blocked q) (l_limit q) (l_futs q ++ [FPending])
                (l_pfuts q) (l_alive q), id)                                           (* 301-302 *)
  | x :: t =>
      match l_blocked q with
      | (y, bp) :: b =>                                                                (* 310-316 *)
          (mkLQ (t ++ [y]) (l_waiters q) b (l_limit q) (l_futs q ++ [FValue x])
                (set_nth (l_pfuts q) bp (FValue 0)) (l_alive q), id)
      | [] => (mkLQ t (l_waiters q) [] (l_limit q) (l_futs q ++ [FValue x]) (l_pfuts q) (l_alive q), id)   (* 318 *)
      end
  end.

(* unblock_push (337-344) *)
Definition lq_unblock_push (q : lqueue) (e : Z) : lqueue * bool :=
  match l_blocked q with
  | [] => (q, false)                                                                   (* 339 *)
  | (y, bp) :: b => (mkLQ (l_items q) (l_waiters q) b (l_limit q) (l_futs q)
                          (set_nth (l_pfuts q) bp (FExc e)) (l_alive q), true)         (* 340-343 *)
  end.

(* unblock_pop of the protected base class (223-230), reachable only from a derived class *)
Definition lq_unblock_pop (q : lqueue) (e : Z) : lqueue * bool :=
  match l_waiters q with
  | [] => (q, false)
  | p :: w => (mkLQ (l_items q) w (l_blocked q) (l_limit q) (set_nth (l_futs q) p (FExc e))
                    (l_pfuts q) (l_alive q), true)
  end.

(* implicit destructor: _blocked (items and push promises), then the base: _awaiters, _queue *)
Definition lq_destroy (q : lqueue) : lqueue :=
  mkLQ [] [] [] (l_limit q) (cancel_all (l_futs q) (l_waiters q))
       (cancel_all (l_pfuts q) (map snd (l_blocked q))) false.

Definition lq_step_on (q : lqueue) (x : lop) : lqueue * list Z :=
  if negb (l_alive q) then (q, rejected) else
  match x with
  | LPush v => let '(q1, f) := lq_push q v in (q1, lq_obs q q1 (Z.of_nat f))
  | LPop => let '(q1, id) := lq_pop q in (q1, lq_obs q q1 (Z.of_nat id))
  | LUnblockPop e => let '(q1, r) := lq_unblock_pop q e in (q1, lq_obs q q1 (b2z r))
  | LUnblockPush e => let '(q1, r) := lq_unblock_push q e in (q1, lq_obs q q1 (b2z r))
  | LSize => (q, lq_obs q q 0)
  | LDestroy => let q1 := lq_destroy q in (q1, lq_obs q q1 0)
  | _ => (q, rejected)
  end.

(* the case file creates the object first: [0; limit] *)
Definition lq_step (s : option lqueue) (x : lop) : option lqueue * list Z :=
  match s with
  | None =>
      match x with
      | LCreate limit => if 0 <=? limit then (Some (lq_new limit), lq_obs (lq_new limit) (lq_new limit) 0)
                         else (None, rejected)
      | _ => (None, rejected)
      end
  | Some q => let '(q1, o) := lq_step_on q x in (Some q1, o)
  end.

Fixpoint lq_run_from (s : option lqueue) (l : list lop) : list (list Z) * option lqueue :=
  match l with
  | [] => ([], s)
  | x :: t => let '(s1, o) := lq_step s x in
              let '(os, s2) := lq_run_from s1 t in (o :: os, s2)
  end.

Definition lq_decode (l : list Z) : lop :=
  match l with
  | [0; limit] => LCreate limit
  | [1; v] => LPush v
  | [2] => LPop
  | [3; e] => LUnblockPop e
  | [4] => LSize
  | [5] => LDestroy
  | [6; e] => LUnblockPush e
  | _ => LBad
  end.
Definition lq_run (ops : list (list Z)) : list (list Z) := fst (lq_run_from None (map lq_decode ops)).

(* ---------- specification for C10: ONE fifo of entries; an entry is (item, None) when its push has
   completed and (item, Some f) while push future f is still pending on it.  A push is immediate iff
   fewer than `limit` entries are in the fifo; a pop takes the head and completes the oldest pending
   push; unblock_push removes the oldest pending entry. ---------- *)
Record lspec := mkLS {
  ls_fifo : list (Z * option nat);
  ls_pend : list nat;
  ls_limit : Z;
  ls_futs : list fstate;
  ls_pfuts : list fstate;
  ls_alive : bool
}.
Definition ls_new (limit : Z) : lspec := mkLS [] [] limit [] [] true.

Definition admitted (e : Z * option nat) : bool := match snd e with None => true | Some _ => false end.
Definition ls_size (s : lspec) : Z := zlen (filter admitted (ls_fifo s)).

(* complete the oldest pending entry: returns the fifo with that entry admitted and the push future id *)
Fixpoint admit_first (l : list (Z * option nat)) : list (Z * option nat) * option nat :=
  match l with
  | [] => ([], None)
  | (v, Some f) :: t => ((v, None) :: t, Some f)
  | (v, None) :: t => let '(t1, r) := admit_first t in ((v, None) :: t1, r)
  end.
(* withdraw the oldest pending entry *)
Fixpoint drop_first (l : list (Z * option nat)) : list (Z * option nat) * option nat :=
  match l with
  | [] => ([], None)
  | (v, Some f) :: t => (t, Some f)
  | (v, None) :: t => let '(t1, r) := drop_first t in ((v, None) :: t1, r)
  end.
Fixpoint pending_pushes (l : list (Z * option nat)) : list nat :=
  match l with
  | [] => []
  | (_, Some f) :: t => f :: pending_pushes t
  | (_, None) :: t => pending_pushes t
  end.

Definition ls_obs (old s : lspec) (ret : Z) : list Z :=
  let d := diff (ls_futs old) (ls_futs s) in
  ok_obs ret (ls_size s) (zlen d / 4 :: d ++ diff (ls_pfuts old) (ls_pfuts s)).

Definition ls_step_on (s : lspec) (x : lop) : lspec * list Z :=
  if negb (ls_alive s) then (s, rejected) else
  let id := length (ls_futs s) in
  let f := length (ls_pfuts s) in
  match x with
  | LPush v =>
      match ls_pend s with
      | p :: w =>
          let s1 := mkLS (ls_fifo s) w (ls_limit s) (set_nth (ls_futs s) p (FValue v)) (ls_pfuts s ++ [FValue 0]) true in
          (s1, ls_obs s s1 (Z.of_nat f))
      | [] =>
          if zlen (ls_fifo s) <? ls_limit s
          then let s1 := mkLS (ls_fifo s ++ [(v, None)]) [] (ls_limit s) (ls_futs s) (ls_pfuts s ++ [FValue 0]) true in
               (s1, ls_obs s s1 (Z.of_nat f))
          else let s1 := mkLS (ls_fifo s ++ [(v, Some f)]) [] (ls_limit s) (ls_futs s) (ls_pfuts s ++ [FPending]) true in
               (s1, ls_obs s s1 (Z.of_nat f))
      end
  | LPop =>
      match ls_fifo s with
      | [] => let s1 := mkLS [] (ls_pend s ++ [id]) (ls_limit s) (ls_futs s ++ [FPending]) (ls_pfuts s) true in
              (s1, ls_obs s s1 (Z.of_nat id))
      | (x, _) :: t =>
          let '(t1, r) := admit_first t in
          let pf := match r with Some bp => set_nth (ls_pfuts s) bp (FValue 0) | None => ls_pfuts s end in
          let s1 := mkLS t1 (ls_pend s) (ls_limit s) (ls_futs s ++ [FValue x]) pf true in
          (s1, ls_obs s s1 (Z.of_nat id))
      end
  | LUnblockPop e =>
      match ls_pend s with
      | [] => (s, ls_obs s s 0)
      | p :: w => let s1 := mkLS (ls_fifo s) w (ls_limit s) (set_nth (ls_futs s) p (FExc e)) (ls_pfuts s) true in
                  (s1, ls_obs s s1 1)
      end
  | LUnblockPush e =>
      match drop_first (ls_fifo s) with
      | (_, None) => (s, ls_obs s s 0)
      | (t1, Some bp) => let s1 := mkLS t1 (ls_pend s) (ls_limit s) (ls_futs s) (set_nth (ls_pfuts s) bp (FExc e)) true in
                         (s1, ls_obs s s1 1)
      end
  | LSize => (s, ls_obs s s 0)
  | LDestroy =>
      let s1 := mkLS [] [] (ls_limit s) (cancel_all (ls_futs s) (ls_pend s))
                     (cancel_all (ls_pfuts s) (pending_pushes (ls_fifo s))) false in
      (s1, ls_obs s s1 0)
  | _ => (s, rejected)
  end.

Definition ls_step (s : option lspec) (x : lop) : option lspec * list Z :=
  match s with
  | None =>
      match x with
      | LCreate limit => if 0 <=? limit then (Some (ls_new limit), ls_obs (ls_new limit) (ls_new limit) 0)
                         else (None, rejected)
      | _ => (None, rejected)
      end
  | Some q => let '(q1, o) := ls_step_on q x in (Some q1, o)
  end.

Fixpoint ls_run_from (s : option lspec) (l : list lop) : list (list Z) * option lspec :=
  match l with
  | [] => ([], s)
  | x :: t => let '(s1, o) := ls_step s x in
              let '(os, s2) := ls_run_from s1 t in (o :: os, s2)
  end.
Definition ls_run (ops : list (list Z)) : list (list Z) := fst (ls_run_from None (map lq_decode ops)).

(* ---------- trace oracles (run on the IMPLEMENTATION's observations) ----------
   The decidable form of C09 / C10 over an observed trace: the trace is exactly the trace of the
   reference specification (FIFO / bounded FIFO) on the same ops.  QueueProofs shows that every spec
   trace has the conservation / order / exactly-once properties, and that the models' traces pass. *)
Fixpoint zlist_eqb (a b : list Z) : bool :=
  match a, b with
  | [], [] => true
  | x :: t, y :: u => (x =? y) && zlist_eqb t u
  | _, _ => false
  end.
Fixpoint trace_eqb (a b : list (list Z)) : bool :=
  match a, b with
  | [], [] => true
  | x :: t, y :: u => zlist_eqb x y && trace_eqb t u
  | _, _ => false
  end.

Definition q_oracle (ops obs : list (list Z)) : bool := trace_eqb obs (qs_run ops).
Definition lq_oracle (ops obs : list (list Z)) : bool := trace_eqb obs (ls_run ops).

(* queue<void> is specified as the same FIFO machine carrying unit items (value 0): a counting semaphore *)
Definition vq_oracle (ops obs : list (list Z)) : bool :=
  trace_eqb obs (fst (qs_run_from qs0 (map vq_decode ops))).

Definition obs_ok (l : list Z) : bool := match l with 0 :: _ => true | _ => false end.

(* groups of four: [id; ready; kind; payload] *)
Fixpoint lines_of (fuel : nat) (l : list Z) : list (Z * Z * Z * Z) :=
  match fuel with
  | O => []
  | S n => match l with
           | a :: b :: c :: d :: t => (a, b, c, d) :: lines_of n t
           | _ => []
           end
  end.
Definition obs_lines (l : list Z) : list (Z * Z * Z * Z) := lines_of (length l) (skipn 4 l).

(* two-phase engine (closed traces: every push_begin has its push_end): values reported by futures, read in
   future-id order at the end of the trace, are a prefix of the values pushed (in push / push_begin order);
   no future reports a value twice *)
Definition pushed_of (x : qop) (o : list Z) : list Z :=
  if obs_ok o then match x with QPush v => [v] | QPushBegin _ v => [v] | _ => [] end else [].

Fixpoint final_values (lines : list (Z * Z * Z * Z)) (acc : list (Z * Z)) : list (Z * Z) :=
  match lines with
  | [] => acc
  | (id, r, k, v) :: t => final_values t (if (r =? 1) && (k =? 0) then acc ++ [(id, v)] else acc)
  end.
Fixpoint insert_by_id (x : Z * Z) (l : list (Z * Z)) : list (Z * Z) :=
  match l with
  | [] => [x]
  | y :: t => if fst x <=? fst y then x :: l else y :: insert_by_id x t
  end.
Definition sort_by_id (l : list (Z * Z)) : list (Z * Z) := fold_right insert_by_id [] l.
Fixpoint prefix_b (a b : list Z) : bool :=
  match a, b with
  | [], _ => true
  | x :: t, y :: u => (x =? y) && prefix_b t u
  | _, [] => false
  end.

Definition q2_oracle (ops obs : list (list Z)) : bool :=
  let pushed := flat_map (fun p => pushed_of (q_decode (fst p)) (snd p)) (combine ops obs) in
  let vals := sort_by_id (final_values (flat_map obs_lines obs) []) in
  Nat.eqb (length ops) (length obs)
  && nodup_b (map fst vals)
  && prefix_b (map snd vals) pushed.
