(* SignalXDefs.v — interleaving model of the cross-thread use of cocls::signal<T> (C15's quantifier:
   "listeners subscribing on another thread than the collector"), at the granularity of the guarded
   hook points of awaiter.h: asub (before the CAS loop of awaiter::subscribe, awaiter.h:69), apub (after
   it, :71), rchain (before the exchange of resume_chain, :83), walk (before each awaiter of
   resume_chain_lk, :105), flagwait (before the blocking flag wait of co_awaiter::sync, :322), and the
   scenario's own "step" point before each collector action.  Tied to the code by harness/ctl_signal.cpp
   (real threads, one runnable at a time).  The finer model with every CAS attempt as a step is cs_* in
   SignalDefs.v (c15_concurrent_subscribe); between asub and apub no other thread runs here, so the loop
   succeeds at once.

   Threads (tid = position in the case):
     subscriber kind 0  plain coroutine started on this thread: co_await e once, logs Recv v / Cancel
                kind 1  blocking listener: future-returning coroutine `co_return co_await e`, the thread calls
                        .wait() on the future and logs Recv v / Cancel when it returns
                kind 2  sig.connect(callback) on this thread with the thread's own signal object (a strong
                        handle, released after connect); the callback stays for `limit` calls (0 = for ever)
                kind 3  detached cocls::async<void> coroutine (frame freed when it finishes), otherwise as kind 0
                kind 4  plain coroutine awaiting signal<T>::hook_up(fn) (signal.h:324-386): its first await creates the state,
                        subscribes, and only then runs fn, which hands the collector to the collector thread; that thread
                        (blocked until then) emits while the rest of the hook-up is still running.  Only with one collector thread
     collector          one thread; actions 1 = call the collector with the next value 1,2,3.., 0 = drop the handle
   Every subscriber holds a strong reference while it is inside subscribe (emitter::await_suspend locks the
   weak pointer, signal.h:193; connect runs on a signal object), so the state can die on a subscriber's
   thread: whoever releases the last reference runs ~state (exchange + walk) right there. *)
From Cocls Require Import Base.
Local Open Scope Z_scope.

Inductive kont :=
| KColl (acts : list Z)     (* collector continues with its remaining actions *)
| KSub.                     (* subscriber finishes its subscribe call *)

Inductive xpc :=
| XStep (acts : list Z)                                  (* collector before its next action; point "step" *)
| XWaitReg (acts : list Z)                               (* hook-up case: collector thread waits until the registration function
                                                            has handed it the collector; block "xwait" *)
| XAsub                                                  (* subscriber before its CAS; point "asub" *)
| XApub                                                  (* subscriber after its CAS; point "apub" *)
| XFlag                                                  (* blocking listener in flag.wait; block "flagwait" *)
| XRchain (k : kont)                                     (* before chain.exchange(nullptr); point "rchain" *)
| XWalk (w : list (nat * bool)) (sp : list nat) (k : kont)   (* before the next awaiter of the walk; point "walk" *)
| XCbAsub (i : nat) (w : list (nat * bool)) (sp : list nat) (k : kont)   (* callback re-subscribing inside the walk *)
| XCbApub (i : nat) (w : list (nat * bool)) (sp : list nat) (k : kont)
| XFutWalk (i : nat) (r : option Z) (sp : list nat) (k : kont)
    (* resuming blocking listener i's coroutine resolved its future (value r); its thread already waits on the future,
       so the future's own chain walk (same resume_chain_lk, point "walk") yields before the sync awaiter's flag is set *)
| XDone.

Inductive xev :=
| XRecv (i : nat) (v : Z)        (* coroutine listener i resumed with v *)
| XCancel (i : nat)              (* ... with await_canceled_exception *)
| XCall (i : nat) (v : Z)
| XFree (i : nat)
| XWRecv (i : nat) (v : Z)       (* blocking listener: .wait() returned v on its own thread *)
| XWCancel (i : nat).            (* ... threw await_canceled_exception *)

(* per listener (= per thread id): kind 0..3 subscriber kinds, 9 collector; callback limit and call count *)
Record xlis := mkL { t_kind : Z; t_limit : nat; t_cnt : nat }.
Definition lis_d : xlis := mkL 0 0 0.

Record xst := mkX {
  x_pcs : list xpc;                      (* one per thread *)
  x_lis : list xlis;
  x_chain : list (nat * bool);
  x_strong : nat;
  x_cur : option Z;                      (* value the state's pointer refers to; None = nullptr *)
  x_next : Z;                            (* next value to emit *)
  x_ev : list xev;                       (* event log, in order *)
  x_resolved : list (nat * option Z)     (* blocking listeners whose future is ready: (id, Some v | None = cancelled) *)
}.

Definition lis_of (s : xst) (i : nat) : xlis := nth i (x_lis s) lis_d.
Definition set_pc (s : xst) (t : nat) (p : xpc) : xst :=
  mkX (set_nth (x_pcs s) t p) (x_lis s) (x_chain s) (x_strong s) (x_cur s) (x_next s) (x_ev s) (x_resolved s).
Definition set_lis (s : xst) (i : nat) (x : xlis) : xst :=
  mkX (x_pcs s) (set_nth (x_lis s) i x) (x_chain s) (x_strong s) (x_cur s) (x_next s) (x_ev s) (x_resolved s).
Definition set_chain (s : xst) (c : list (nat * bool)) : xst :=
  mkX (x_pcs s) (x_lis s) c (x_strong s) (x_cur s) (x_next s) (x_ev s) (x_resolved s).
Definition log (s : xst) (e : list xev) : xst :=
  mkX (x_pcs s) (x_lis s) (x_chain s) (x_strong s) (x_cur s) (x_next s) (x_ev s ++ e) (x_resolved s).

Fixpoint res_of (l : list (nat * option Z)) (i : nat) : option (option Z) :=
  match l with [] => None | (j, r) :: t => if Nat.eqb j i then Some r else res_of t i end.

(* what a listener reads when it is resumed: emitter::await_resume *)
Definition x_read (s : xst) : option Z := if Nat.eqb (x_strong s) 0 then None else x_cur s.

(* blocking listener i's future becomes ready with r and its waiting thread is woken *)
Definition resolve_fut (s : xst) (i : nat) (r : option Z) : xst :=
  mkX (x_pcs s) (x_lis s) (x_chain s) (x_strong s) (x_cur s) (x_next s) (x_ev s) (x_resolved s ++ [(i, r)]).

Definition wlog (t : nat) (r : option Z) : xev := match r with Some v => XWRecv t v | None => XWCancel t end.

(* subscriber t is past subscribe: what remains of its thread function *)
Definition sub_finish (s : xst) (t : nat) : xst :=
  if t_kind (lis_of s t) =? 1 then
    match res_of (x_resolved s) t with
    | Some r => set_pc (log s [wlog t r]) t XDone   (* ready(): no wait *)
    | None => set_pc s t XFlag
    end
  else set_pc s t XDone.

Definition continue (s : xst) (t : nat) (k : kont) : xst :=
  match k with
  | KColl [] => set_pc s t XDone
  | KColl acts => set_pc s t (XStep acts)
  | KSub => sub_finish s t
  end.

(* the suspend point is destroyed on thread t: its coroutine handles are resumed in array order.
   plain / detached listener: reads the value (or gets the exception) and logs it;
   blocking listener: `co_return co_await e` resolves its future *)
Fixpoint resume_go (s : xst) (t : nat) (sp : list nat) (k : kont) : xst :=
  match sp with
  | [] => continue s t k
  | i :: r =>
      let v := x_read s in
      if t_kind (lis_of s i) =? 1 then
        match nth i (x_pcs s) XDone with
        | XFlag => set_pc s t (XFutWalk i v r k)
        | _ => resume_go (resolve_fut s i v) t r k
        end
      else resume_go (log s [match v with Some z => XRecv i z | None => XCancel i end]) t r k
  end.

(* the walk reached the end of its list (or goes on to the next awaiter) *)
Definition walk_next (s : xst) (t : nat) (w : list (nat * bool)) (sp : list nat) (k : kont) : xst :=
  match w with
  | [] => resume_go s t sp k
  | _ => set_pc s t (XWalk w sp k)
  end.

Definition set_strong_cur (s : xst) (n : nat) (c : option Z) : xst :=
  mkX (x_pcs s) (x_lis s) (x_chain s) n c (x_next s) (x_ev s) (x_resolved s).

(* one strong reference is released by thread t, which then goes on with k *)
Definition release (s : xst) (t : nat) (k : kont) : xst :=
  let n := Nat.pred (x_strong s) in
  if Nat.eqb n 0
  then set_pc (set_strong_cur s n None) t (XRchain k)   (* ~state: _cur_val = nullptr *)
  else continue (set_strong_cur s n (x_cur s)) t k.

Definition xstep (s : xst) (t : nat) : xst :=
  match nth_error (x_pcs s) t with
  | None => s
  | Some pc =>
      match pc with
      | XWaitReg [] => set_pc s t XDone
      | XWaitReg acts => set_pc s t (XStep acts)
      | XStep [] => set_pc s t XDone
      | XStep (a :: acts) =>
          if a =? 1 then
            (* collector(v): value stored, pointer set, then notify_awaiters *)
            set_pc (mkX (x_pcs s) (x_lis s) (x_chain s) (x_strong s) (Some (x_next s)) (x_next s + 1) (x_ev s) (x_resolved s))
                   t (XRchain (KColl acts))
          else release s t (KColl [])
      | XAsub => set_pc (set_chain s ((t, t_kind (lis_of s t) =? 2) :: x_chain s)) t XApub
      | XApub => release s t KSub
      | XFlag =>
          match res_of (x_resolved s) t with
          | Some r => set_pc (log s [wlog t r]) t XDone
          | None => s
          end
      | XRchain k => walk_next (set_chain s []) t (x_chain s) [] k
      | XWalk [] sp k => walk_next s t [] sp k
      | XWalk ((i, cb) :: w) sp k =>
          if cb then
            match x_read s with
            | None => walk_next (log s [XFree i]) t w sp k       (* Awt::resume: state gone -> delete this *)
            | Some v =>
                let y := lis_of s i in
                let c := S (t_cnt y) in
                let s1 := log (set_lis s i (mkL (t_kind y) (t_limit y) c)) [XCall i v] in
                if Nat.eqb (t_limit y) 0 || Nat.ltb c (t_limit y)
                then set_pc s1 t (XCbAsub i w sp k)
                else walk_next (log s1 [XFree i]) t w sp k
            end
          else walk_next s t w (sp ++ [i]) k
      | XCbAsub i w sp k => set_pc (set_chain s ((i, true) :: x_chain s)) t (XCbApub i w sp k)
      | XCbApub i w sp k => walk_next s t w sp k
      | XFutWalk i r sp k => resume_go (resolve_fut s i r) t sp k
      | XDone => s
      end
  end.

Definition pc_code (p : xpc) : Z :=
  match p with
  | XStep _ => 30 | XWaitReg _ => 9 | XAsub | XCbAsub _ _ _ _ => 10 | XApub | XCbApub _ _ _ _ => 11 | XFlag => 8
  | XRchain _ => 12 | XWalk _ _ _ | XFutWalk _ _ _ _ => 4 | XDone => 0
  end.

(* the hook-up listener is past its subscribe, i.e. the registration function has run *)
Fixpoint registered_from (pcs : list xpc) (ls : list xlis) : bool :=
  match pcs, ls with
  | p :: r, l :: u =>
      (if t_kind l =? 4 then match p with XAsub | XApub => false | _ => true end else true) && registered_from r u
  | _, _ => true
  end.

Definition x_enabled_pc (s : xst) (t : nat) (p : xpc) : bool :=
  match p with
  | XDone => false
  | XWaitReg _ => registered_from (x_pcs s) (x_lis s)
  | XFlag => match res_of (x_resolved s) t with Some _ => true | None => false end
  | _ => true
  end.

Fixpoint enabled_from (s : xst) (l : list xpc) (k : nat) : list nat :=
  match l with
  | [] => []
  | p :: r => if x_enabled_pc s k p then k :: enabled_from s r (S k) else enabled_from s r (S k)
  end.
Definition x_enabled (s : xst) : list nat := enabled_from s (x_pcs s) O.

(* run: one trace entry (tid, point) per executed step; the controller stops when nothing is enabled;
   schedule exhausted = choice 0, bounded by fuel *)
Fixpoint xrun (fuel : nat) (s : xst) (sched : list Z) : xst * list (list Z) :=
  match fuel with
  | O => (s, [])
  | S f =>
      match x_enabled s with
      | [] => (s, [])
      | e =>
          let k := match sched with [] => 0 | c :: _ => Z.abs c end in
          let t := nth (Z.to_nat (k mod (zlen e))) e O in
          let code := pc_code (nth t (x_pcs s) XDone) in
          let '(s', tr) := xrun f (xstep s t) (tl sched) in
          (s', [Z.of_nat t; code] :: tr)
      end
  end.

(* ---------- wire ---------- *)
Definition truncate_acts (l : list Z) : list Z :=
  (fix go (l : list Z) := match l with [] => [] | a :: r => if a =? 1 then 1 :: go r else [0] end) l.

Definition decode_thr (l : list Z) : list (xpc * xlis) :=
  match l with
  | [1; k; lim] => if (0 <=? k) && (k <=? 4) && (0 <=? lim) && (lim <=? 9)
                   then [(XAsub, mkL k (Z.to_nat lim) 0)] else []
  | 2 :: acts => [(match truncate_acts acts with [] => XDone | a => XStep a end, mkL 9 0 0)]
  | _ => []
  end.
Definition decode_sched (l : list Z) : list Z := match l with 9 :: r => r | _ => [] end.

Definition is_coll (x : xpc * xlis) : bool := t_kind (snd x) =? 9.
Definition is_hook (x : xpc * xlis) : bool := t_kind (snd x) =? 4.
Definition hook_mode (thr : list (xpc * xlis)) : bool := existsb is_hook thr.
Definition x_valid (thr : list (xpc * xlis)) : bool :=
  Nat.eqb (length (filter is_coll thr)) 1 && Nat.leb (length thr) 6 &&
  (negb (hook_mode thr) || Nat.eqb (length thr) 2).

Definition ipc (h : bool) (x : xpc * xlis) : xpc :=
  match fst x with XStep a => if h then XWaitReg a else XStep a | p => p end.

Definition x_init (thr : list (xpc * xlis)) : xst :=
  (* the collector's handle + one reference per subscriber (taken before its first yield point; for the hook-up
     listener: the local signal object of hook_up_emitter::await_suspend) *)
  mkX (map (ipc (hook_mode thr)) thr) (map snd thr) [] (length thr) None 1 [] [].

Definition encode_xev (e : xev) : list Z :=
  match e with
  | XRecv i v | XWRecv i v => [8; 1; Z.of_nat i; v]
  | XCancel i | XWCancel i => [8; 2; Z.of_nat i; 0]
  | XCall i v => [8; 3; Z.of_nat i; v]
  | XFree i => [8; 4; Z.of_nat i; 0]
  end.

Definition stuck_line (s : xst) : list (list Z) :=
  let st := (fix go (l : list xpc) (k : nat) : list Z :=
               match l with [] => [] | p :: r => match p with XDone => go r (S k) | _ => Z.of_nat k :: go r (S k) end end)
            (x_pcs s) O in
  match st with [] => [] | _ => [777 :: st] end.

Definition sx_run (ops : list (list Z)) : list (list Z) :=
  let thr := flat_map decode_thr ops in
  if negb (x_valid thr) then [[1]] else
  let sched := flat_map decode_sched ops in
  let '(s, tr) := xrun 400 (x_init thr) sched in
  tr ++ stuck_line s ++ map encode_xev (x_ev s) ++
  match stuck_line s with [] => [[9; Z.of_nat (x_strong s); zlen (x_chain s)]] | _ => [] end.

(* ================================================================================================
   Decidable form of the property over an observed trace (run on the implementation's output).
   From the (tid, point) trace alone: a listener is in the chain from its CAS (its own `asub` step) and is
   taken by the first exchange (`rchain` step) after that.  The collector's j-th exchange (j <= number of
   its emit actions) emits value j; any other exchange is the state's destructor.  So
     single-shot listener: exactly one outcome — Recv j if an emission took it, Cancel if the destructor did;
                           nothing if no exchange followed its CAS;
     callback (limit L):   called with j0, j0+1, ... for the consecutive emissions from the one that first took it,
                           at most L times, freed exactly once when it returned false or the state died;
   nobody else gets anything; no deadlock line; a closed case (handle dropped) ends with strong = 0 and an
   empty chain.
   ================================================================================================ *)
Definition is_trace (l : list Z) : bool := match l with [_; _] => true | _ => false end.

(* positions and kinds of exchanges after position p: list of (Some j = emission j | None = destructor) *)
Fixpoint takers (tr : list (list Z)) (coll : Z) (nemit : Z) (seen : Z) : list (option Z) :=
  match tr with
  | [] => []
  | [t; c] :: r =>
      if c =? 12 then
        if (t =? coll) && (seen <? nemit) then Some (seen + 1) :: takers r coll nemit (seen + 1)
        else None :: takers r coll nemit seen
      else takers r coll nemit seen
  | _ :: r => takers r coll nemit seen
  end.

(* trace split at the first own asub step of thread t: exchanges seen before, rest after *)
Fixpoint after_cas (tr : list (list Z)) (t coll nemit seen : Z) : option (list (option Z)) :=
  match tr with
  | [] => None
  | [u; c] :: r =>
      if (u =? t) && (c =? 10) then Some (takers r coll nemit seen)
      else after_cas r t coll nemit (if (c =? 12) && (u =? coll) && (seen <? nemit) then seen + 1 else seen)
  | _ :: r => after_cas r t coll nemit seen
  end.

Definition evs_of (i : Z) (obs : list (list Z)) : list (list Z) :=
  filter (fun l => match l with [8; _; j; _] => j =? i | _ => false end) obs.

(* expected event lines of a callback with limit L given the exchanges that follow its CAS *)
Fixpoint cb_expect (i : Z) (lim : nat) (cnt : nat) (tk : list (option Z)) : list (list Z) :=
  match tk with
  | [] => []
  | None :: _ => [[8; 4; i; 0]]
  | Some j :: r =>
      let c := S cnt in
      if Nat.eqb lim 0 || Nat.ltb c lim then [8; 3; i; j] :: cb_expect i lim c r
      else [[8; 3; i; j]; [8; 4; i; 0]]
  end.

Definition expect_of (i : Z) (x : xlis) (tk : option (list (option Z))) : list (list Z) :=
  match tk with
  | None => []
  | Some tk =>
      if t_kind x =? 2 then cb_expect i (t_limit x) 0 tk
      else if t_kind x =? 4 then []      (* decided by hook_expect below *)
      else match tk with
           | [] => []
           | Some j :: _ => [[8; 1; i; j]]
           | None :: _ => [[8; 2; i; 0]]
           end
  end.

Fixpoint list_eqb (a b : list Z) : bool :=
  match a, b with
  | [], [] => true
  | x :: r, y :: u => (x =? y) && list_eqb r u
  | _, _ => false
  end.
Fixpoint lists_eqb (a b : list (list Z)) : bool :=
  match a, b with
  | [], [] => true
  | x :: r, y :: u => list_eqb x y && lists_eqb r u
  | _, _ => false
  end.

Fixpoint index_coll (l : list (xpc * xlis)) (k : Z) : Z :=
  match l with [] => -1 | x :: r => if is_coll x then k else index_coll r (k + 1) end.
Definition acts_of (l : list (xpc * xlis)) : list Z :=
  flat_map (fun x => match fst x with XStep a => a | _ => [] end) (filter is_coll l).

Definition sx_oracle (ops obs : list (list Z)) : bool :=
  let thr := flat_map decode_thr ops in
  if negb (x_valid thr) then lists_eqb obs [[1]] else
  let tr := filter is_trace obs in
  let coll := index_coll thr 0 in
  let acts := acts_of thr in
  let nemit := zlen (filter (fun a => a =? 1) acts) in
  let closed := existsb (fun a => a =? 0) acts in
  let per := (fix go (l : list (xpc * xlis)) (k : Z) : bool :=
                match l with
                | [] => true
                | x :: r =>
                    (if is_coll x then lists_eqb (evs_of k obs) []
                     else if is_hook x then
                       (* the listener receives every value emitted through the collector it was hooked up with, from
                          its first subscription on: it is one-shot, so exactly the first one; none emitted => cancelled *)
                       lists_eqb (evs_of k obs)
                                 (if 0 <? nemit then [[8; 1; k; 1]] else if closed then [[8; 2; k; 0]] else [])
                     else lists_eqb (evs_of k obs) (expect_of k (snd x) (after_cas tr k coll nemit 0)))
                    && go r (k + 1)
                end) thr 0 in
  let nodead := negb (existsb (fun l => match l with 777 :: _ => true | _ => false end) obs) in
  let nev := length (filter (fun l => match l with 8 :: _ => true | _ => false end) obs) in
  let nev_mine := length (flat_map (fun k => evs_of (Z.of_nat k) obs) (seq 0 (length thr))) in
  (* closed case (the handle is dropped): everybody finishes, nothing is left; otherwise a blocking listener that
     nobody took may wait for ever — its (empty) expected outcome is still checked above *)
  let final := if closed then match last obs [] with [9; st; ch] => (st =? 0) && (ch =? 0) | _ => false end else true in
  per && (nodead || negb closed) && Nat.eqb nev nev_mine && final.

(* ================================================================================================
   Free-running stress (harness/stress_signal.cpp, engine sg_stress): real uncontrolled threads, one-shot listeners.
   The harness only counts lost / doubled / wrong-valued / mis-ordered outcomes; the model's prediction — by
   c15_cross_thread_conservation / c15_cross_thread_terminal: never lost, never doubled — is that all counters are zero.
   ================================================================================================ *)
Definition ss_valid (l : list Z) : bool :=
  match l with
  | [40; per; n; mask; j] =>
      (1 <=? per) && (per <=? 1000000) && (1 <=? n) && (n <=? 4) && (0 <=? mask) && (mask <=? 15) && (0 <=? j) && (j <=? 1000)
  | [42; iters; j] => (1 <=? iters) && (iters <=? 1000000) && (0 <=? j) && (j <=? 1000)     (* hook-up rounds *)
  | _ => false
  end.
Definition ss_run (ops : list (list Z)) : list (list Z) :=
  map (fun l => if ss_valid l then [20; 0; 0; 0; 0] else [1]) ops.
Definition ss_oracle (ops obs : list (list Z)) : bool := lists_eqb obs (ss_run ops).
