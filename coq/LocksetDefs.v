(* LocksetDefs.v — C03 part (b): lock-guarded state.  MODEL ONLY, no proofs.
   tools/extract_sync.py turns every method of the mutex-guarded classes (queue, limited_queue, thread_pool,
   scheduler, publisher::queue) into a control-flow graph whose nodes are
       Lock | Unlock            explicit lock()/unlock() on the class mutex or on a unique_lock over it
                                (a condition-variable wait is Unlock followed by Lock)
       Drop                  destructor of a lock_guard/unique_lock: unlocks iff it owns the lock
       Gain                     (owner-discipline skeletons of the lock-free classes only) an atomic operation after which
                                the thread is in owner context, whatever it was before
       Rd f | Wr f              access to data member number f of the class
       Call g                   call of method number g of the same class on `this`
       Skip | End
   together with a CERTIFICATE: for every node the lock state the translator claims on entry (Held / Free / Any).
   `class_ok` re-checks the certificate locally (every edge, every call contract, every access under Held);
   LocksetProofs.v proves that a checked class has no reachable state in which two threads are both at an access. *)
From Cocls Require Import Base.
Require Coq.Strings.String.
Notation string := String.string.

Inductive lstate := Held | Free | Any.
Inductive ev := Lock | Unlock | Drop | Gain | Rd (f : nat) | Wr (f : nat) | Call (g : nat) | Skip | End.

Record method_sk := { m_name : string; m_public : bool; m_pre : bool; m_post : bool;
                      m_nodes : list (ev * list nat); m_annot : list lstate }.
Record class_sk := { c_name : string; c_methods : list method_sk }.

Definition of_bool (b : bool) : lstate := if b then Held else Free.
Definition lstate_eqb (a b : lstate) : bool :=
  match a, b with Held, Held | Free, Free | Any, Any => true | _, _ => false end.
(* s is covered by the annotation a *)
Definition sub (s a : lstate) : bool := match a with Any => true | _ => lstate_eqb s a end.

Definition annot_at (m : method_sk) (n : nat) : lstate := nth n (m_annot m) Any.

(* lock state after the event, None = the event is not allowed in state h *)
Definition post_of (ms : list method_sk) (m : method_sk) (e : ev) (h : lstate) : option lstate :=
  match e with
  | Lock => match h with Free => Some Held | _ => None end
  | Unlock => match h with Held => Some Free | _ => None end
  | Drop => Some Free
  | Gain => Some Held
  | Rd _ | Wr _ => match h with Held => Some Held | _ => None end
  | Call g => match nth_error ms g with
              | Some mg => if lstate_eqb h (of_bool (m_pre mg)) then Some (of_bool (m_post mg)) else None
              | None => None end
  | Skip => Some h
  | End => if lstate_eqb h (of_bool (m_post m)) then Some h else None
  end.

Definition node_ok (ms : list method_sk) (m : method_sk) (n : nat) (nd : ev * list nat) : bool :=
  match post_of ms m (fst nd) (annot_at m n) with
  | Some p => forallb (fun s => (s <? length (m_nodes m)) && sub p (annot_at m s)) (snd nd)
              && match fst nd with End => match snd nd with [] => true | _ => false end | _ => true end
  | None => false
  end.

Fixpoint nodes_ok (ms : list method_sk) (m : method_sk) (n : nat) (l : list (ev * list nat)) : bool :=
  match l with [] => true | nd :: t => node_ok ms m n nd && nodes_ok ms m (S n) t end.

Definition method_ok (ms : list method_sk) (m : method_sk) : bool :=
  (length (m_annot m) =? length (m_nodes m)) && (0 <? length (m_nodes m))
  && sub (of_bool (m_pre m)) (annot_at m 0)
  && nodes_ok ms m 0 (m_nodes m)
  && (if m_public m then negb (m_pre m) && negb (m_post m) else true).

Definition class_ok (c : class_sk) : bool := forallb (method_ok (c_methods c)) (c_methods c).
Definition all_guarded (sk : list class_sk) : bool := forallb class_ok sk.

(* ------------------------------------------------------------------------------------------------
   dynamic semantics: any number of threads, each running any sequence of public methods of one object of the
   class; interleaving at event granularity; one mutex. *)
Definition frame := (nat * nat)%type.                    (* method, node *)
Record cfg := Cfg { holder : option nat; stacks : list (list frame) }.
Definition init (n : nat) : cfg := Cfg None (repeat [] n).

Definition node_at (ms : list method_sk) (f : frame) : option (ev * list nat) :=
  match nth_error ms (fst f) with Some m => nth_error (m_nodes m) (snd f) | None => None end.

Definition pick (succs : list nat) (k : nat) : option nat :=
  match succs with [] => None | _ => nth_error succs (Nat.modulo k (length succs)) end.

(* choice (t, k): thread t; k selects the public method to start (empty stack) or the successor edge to follow *)
Definition step (ms : list method_sk) (c : cfg) (ch : nat * nat) : cfg :=
  let '(t, k) := ch in
  match nth_error (stacks c) t with
  | None => c
  | Some [] =>
      match nth_error ms k with
      | Some m => if m_public m then Cfg (holder c) (set_nth (stacks c) t [(k, 0)]) else c
      | None => c end
  | Some (f :: rest) =>
      match node_at ms f with
      | None => c
      | Some (e, succs) =>
          match e with
          | End => Cfg (holder c) (set_nth (stacks c) t rest)
          | _ =>
            match pick succs k with
            | None => c
            | Some n' =>
                let moved := (fst f, n') :: rest in
                match e with
                | Lock => match holder c with
                          | None => Cfg (Some t) (set_nth (stacks c) t moved)
                          | Some _ => c end                                   (* blocked *)
                | Unlock => match holder c with
                            | Some u => if Nat.eqb u t then Cfg None (set_nth (stacks c) t moved) else c
                            | None => c end
                | Drop => Cfg (match holder c with Some u => if Nat.eqb u t then None else Some u | None => None end)
                                 (set_nth (stacks c) t moved)
                | Gain => match holder c with                                  (* owner-discipline skeletons: becomes the owner *)
                          | None => Cfg (Some t) (set_nth (stacks c) t moved)
                          | Some u => if Nat.eqb u t then Cfg (Some t) (set_nth (stacks c) t moved) else c end
                | Call g => Cfg (holder c) (set_nth (stacks c) t ((g, 0) :: moved))
                | _ => Cfg (holder c) (set_nth (stacks c) t moved)
                end
            end
          end
      end
  end.

Definition run (ms : list method_sk) (sched : list (nat * nat)) (c : cfg) : cfg := fold_left (step ms) sched c.

(* the field a thread is about to access, if any *)
Definition at_access (ms : list method_sk) (st : list frame) : option nat :=
  match st with
  | f :: _ => match node_at ms f with Some (Rd x, _) | Some (Wr x, _) => Some x | _ => None end
  | [] => None
  end.
