(* LocksetProofs.v — C03 part (b): a class whose skeleton passes LocksetDefs.class_ok has no reachable state in
   which two different threads are both about to access a data member (so no two conflicting accesses are ever
   simultaneously enabled: every access happens while the accessing thread holds the class mutex, and the mutex
   acquire/release events totally order the critical sections). Any number of threads, any schedule, any sequence of
   public methods per thread, any path through the methods' control-flow graphs. *)
From Cocls Require Import Base BaseProofs LocksetDefs.
Require Import Lia.

Definition held_of (h : option nat) (t : nat) : bool := match h with Some u => Nat.eqb u t | None => false end.
Definition agrees (a : lstate) (b : bool) : Prop := match a with Held => b = true | Free => b = false | Any => True end.

Lemma sub_agrees s a b : sub s a = true -> agrees s b -> agrees a b.
Proof. destruct s, a; cbn; intros; try discriminate; auto. Qed.
Lemma agrees_of_bool x b : agrees (of_bool x) b <-> b = x.
Proof. destruct x; cbn; tauto. Qed.
Lemma lstate_eqb_eq a b : lstate_eqb a b = true -> a = b.
Proof. destruct a, b; cbn; intros; try discriminate; auto. Qed.

Section LS.
Variable ms : list method_sk.
Hypothesis OK : forallb (method_ok ms) ms = true.

Definition frame_valid (f : frame) : Prop := exists m, nth_error ms (fst f) = Some m /\ snd f < length (m_nodes m).
Definition annot_of (f : frame) : lstate :=
  match nth_error ms (fst f) with Some m => annot_at m (snd f) | None => Any end.

Fixpoint rest_ok (g : nat) (rest : list frame) : Prop :=
  match rest with
  | [] => exists m, nth_error ms g = Some m /\ m_public m = true
  | f :: rest' => frame_valid f /\
                  (exists m, nth_error ms g = Some m /\ sub (of_bool (m_post m)) (annot_of f) = true) /\
                  rest_ok (fst f) rest'
  end.
Definition stack_ok (b : bool) (st : list frame) : Prop :=
  match st with
  | [] => b = false
  | f :: rest => frame_valid f /\ agrees (annot_of f) b /\ rest_ok (fst f) rest
  end.

Definition Inv (c : cfg) : Prop :=
  forall t st, nth_error (stacks c) t = Some st -> stack_ok (held_of (holder c) t) st.

Lemma method_ok_of g m : nth_error ms g = Some m -> method_ok ms m = true.
Proof. intros E. rewrite forallb_forall in OK. apply OK. eapply nth_error_In; eauto. Qed.

Lemma nodes_ok_nth m k l i nd : nodes_ok ms m k l = true -> nth_error l i = Some nd -> node_ok ms m (k + i) nd = true.
Proof.
  revert k i. induction l as [|h t IH]; intros k i H E; [destruct i; discriminate|].
  cbn [nodes_ok] in H. apply andb_true_iff in H. destruct H as [H1 H2]. destruct i as [|i]; cbn in E.
  - inversion E; subst. now rewrite Nat.add_0_r.
  - replace (k + S i) with (S k + i) by lia. eauto.
Qed.

Lemma node_ok_at g m n nd : nth_error ms g = Some m -> nth_error (m_nodes m) n = Some nd -> node_ok ms m n nd = true.
Proof.
  intros Em En. pose proof (method_ok_of _ _ Em) as H. unfold method_ok in H.
  repeat (apply andb_true_iff in H; destruct H as [H ?]).
  eapply (nodes_ok_nth m 0) in En; eauto.
Qed.

Lemma inv_init n : Inv (init n).
Proof.
  intros t st E. cbn in E. assert (st = []) as ->.
  { apply nth_error_In in E. apply repeat_spec in E. auto. }
  reflexivity.
Qed.

Lemma others_keep (c : cfg) t h' st' :
  Inv c -> (forall t', t' <> t -> held_of h' t' = held_of (holder c) t') ->
  t < length (stacks c) -> stack_ok (held_of h' t) st' ->
  Inv (Cfg h' (set_nth (stacks c) t st')).
Proof.
  intros I Ho Lt Hs t' st E. cbn [holder stacks] in *. destruct (Nat.eq_dec t' t) as [->|N].
  - rewrite nth_error_set_nth_same in E by auto. inversion E; subst. auto.
  - rewrite nth_error_set_nth_other in E by congruence. rewrite Ho by auto. apply I; auto.
Qed.

Lemma pick_in succs k n : pick succs k = Some n -> In n succs.
Proof. unfold pick. destruct succs; [discriminate|]. apply nth_error_In. Qed.

Lemma step_inv c ch : Inv c -> Inv (step ms c ch).
Proof.
  intros I. destruct ch as [t k]. unfold step.
  destruct (nth_error (stacks c) t) as [st|] eqn:Est; [|exact I].
  assert (Lt : t < length (stacks c)) by (apply nth_error_Some; congruence).
  pose proof (I _ _ Est) as Hst.
  destruct st as [|f rest].
  - (* start a public method *)
    destruct (nth_error ms k) as [m|] eqn:Em; [|exact I].
    destruct (m_public m) eqn:Ep; [|exact I].
    apply others_keep; auto. cbn in Hst. rewrite Hst.
    pose proof (method_ok_of _ _ Em) as H. unfold method_ok in H. rewrite Ep in H.
    repeat (apply andb_true_iff in H; destruct H as [H ?]).
    apply andb_true_iff in H0. destruct H0 as [Hpre Hpost]. apply negb_true_iff in Hpre.
    cbn [stack_ok]. split; [|split].
    + exists m. split; auto. cbn. apply Nat.ltb_lt; auto.
    + unfold annot_of; cbn [fst snd]. rewrite Em. eapply sub_agrees; eauto. rewrite Hpre. reflexivity.
    + cbn. eauto.
  - destruct Hst as (Hv & Ha & Hr).
    destruct Hv as (m & Em & Hn).
    unfold node_at. rewrite Em.
    destruct (nth_error (m_nodes m) (snd f)) as [[e succs]|] eqn:En; [|exact I].
    pose proof (node_ok_at _ _ _ _ Em En) as Hnode. unfold node_ok in Hnode. cbn [fst snd] in Hnode.
    unfold annot_of in Ha. rewrite Em in Ha.
    destruct (post_of ms m e (annot_at m (snd f))) as [p|] eqn:Ep; [|discriminate].
    apply andb_true_iff in Hnode. destruct Hnode as [Hsucc Hend].
    (* facts about a chosen successor *)
    assert (SUCC : forall n', pick succs k = Some n' ->
                   frame_valid (fst f, n') /\ sub p (annot_of (fst f, n')) = true).
    { intros n' Hp. apply pick_in in Hp. rewrite forallb_forall in Hsucc. specialize (Hsucc _ Hp).
      apply andb_true_iff in Hsucc. destruct Hsucc as [H1 H2]. split.
      - exists m. split; auto. cbn. apply Nat.ltb_lt; auto.
      - unfold annot_of; cbn [fst snd]. rewrite Em. auto. }
    destruct e.
    + (* Lock *)
      destruct (pick succs k) as [n'|] eqn:Hp; [|exact I]. destruct (SUCC _ eq_refl) as [Fv Sb].
      cbn in Ep. destruct (annot_at m (snd f)); try discriminate. inversion Ep; subst p. cbn in Ha.
      destruct (holder c) as [u|] eqn:Eh; [exact I|].
      apply others_keep; auto.
      * intros t' N. rewrite Eh. cbn. destruct (Nat.eqb_spec t t'); congruence.
      * cbn [stack_ok fst]. split; auto. split; auto. eapply sub_agrees; eauto. cbn. apply Nat.eqb_refl.
    + (* Unlock *)
      destruct (pick succs k) as [n'|] eqn:Hp; [|exact I]. destruct (SUCC _ eq_refl) as [Fv Sb].
      cbn in Ep. destruct (annot_at m (snd f)); try discriminate. inversion Ep; subst p. cbn in Ha.
      destruct (holder c) as [u|] eqn:Eh; [|exact I]. cbn in Ha. rewrite Ha.
      apply Nat.eqb_eq in Ha. subst u.
      apply others_keep; auto.
      * intros t' N. rewrite Eh. cbn. destruct (Nat.eqb_spec t t'); congruence.
      * cbn [stack_ok fst]. split; auto. split; auto. eapply sub_agrees; eauto. reflexivity.
    + (* Drop *)
      destruct (pick succs k) as [n'|] eqn:Hp; [|exact I]. destruct (SUCC _ eq_refl) as [Fv Sb].
      cbn in Ep. inversion Ep; subst p.
      apply others_keep; auto.
      * intros t' N. destruct (holder c) as [u|]; cbn; auto.
        destruct (Nat.eqb_spec u t); cbn; auto. subst. destruct (Nat.eqb_spec t t'); congruence.
      * cbn [stack_ok fst]. split; auto. split; auto. eapply sub_agrees; eauto. cbn.
        destruct (holder c) as [u|]; cbn; auto. destruct (Nat.eqb_spec u t); cbn; auto.
        apply Nat.eqb_neq; auto.
    + (* Gain *)
      destruct (pick succs k) as [n'|] eqn:Hp; [|exact I]. destruct (SUCC _ eq_refl) as [Fv Sb].
      cbn in Ep. inversion Ep; subst p.
      destruct (holder c) as [u|] eqn:Eh.
      * destruct (Nat.eqb_spec u t) as [Hu|Nu]; [|exact I]. subst u.
        apply others_keep; auto.
        -- intros t' N. rewrite Eh. reflexivity.
        -- cbn [stack_ok fst]. split; auto. split; auto. eapply sub_agrees; eauto. cbn. apply Nat.eqb_refl.
      * apply others_keep; auto.
        -- intros t' N. rewrite Eh. cbn. destruct (Nat.eqb_spec t t'); congruence.
        -- cbn [stack_ok fst]. split; auto. split; auto. eapply sub_agrees; eauto. cbn. apply Nat.eqb_refl.
    + (* Rd *)
      destruct (pick succs k) as [n'|] eqn:Hp; [|exact I]. destruct (SUCC _ eq_refl) as [Fv Sb].
      cbn in Ep. destruct (annot_at m (snd f)); try discriminate. inversion Ep; subst p.
      apply others_keep; auto. cbn [stack_ok fst]. split; auto. split; auto. eapply sub_agrees; eauto.
    + (* Wr *)
      destruct (pick succs k) as [n'|] eqn:Hp; [|exact I]. destruct (SUCC _ eq_refl) as [Fv Sb].
      cbn in Ep. destruct (annot_at m (snd f)); try discriminate. inversion Ep; subst p.
      apply others_keep; auto. cbn [stack_ok fst]. split; auto. split; auto. eapply sub_agrees; eauto.
    + (* Call *)
      destruct (pick succs k) as [n'|] eqn:Hp; [|exact I]. destruct (SUCC _ eq_refl) as [Fv Sb].
      cbn in Ep. destruct (nth_error ms g) as [mg|] eqn:Eg; [|discriminate].
      destruct (lstate_eqb (annot_at m (snd f)) (of_bool (m_pre mg))) eqn:Epre; [|discriminate].
      inversion Ep; subst p. apply lstate_eqb_eq in Epre. rewrite Epre in Ha.
      pose proof (method_ok_of _ _ Eg) as H. unfold method_ok in H.
      repeat (apply andb_true_iff in H; destruct H as [H ?]).
      apply others_keep; auto. cbn [stack_ok rest_ok fst].
      split. { exists mg. split; auto. cbn. apply Nat.ltb_lt; auto. }
      split. { unfold annot_of; cbn [fst snd]. rewrite Eg. eapply sub_agrees; eauto. }
      split; auto. split; auto. exists mg. split; auto.
    + (* Skip *)
      destruct (pick succs k) as [n'|] eqn:Hp; [|exact I]. destruct (SUCC _ eq_refl) as [Fv Sb].
      cbn in Ep. inversion Ep; subst p.
      apply others_keep; auto. cbn [stack_ok fst]. split; auto. split; auto. eapply sub_agrees; eauto.
    + (* End: return *)
      cbn in Ep. destruct (lstate_eqb (annot_at m (snd f)) (of_bool (m_post m))) eqn:Epost; [|discriminate].
      apply lstate_eqb_eq in Epost. rewrite Epost in Ha. apply agrees_of_bool in Ha.
      apply others_keep; auto.
      destruct rest as [|f2 rest2]; cbn [stack_ok].
      * cbn in Hr. destruct Hr as (m' & Em' & Hpub). rewrite Em in Em'. inversion Em'; subst m'.
        pose proof (method_ok_of _ _ Em) as H. unfold method_ok in H. rewrite Hpub in H.
        repeat (apply andb_true_iff in H; destruct H as [H ?]).
        apply andb_true_iff in H0. destruct H0 as [_ Hp]. apply negb_true_iff in Hp. congruence.
      * cbn in Hr. destruct Hr as (Fv2 & (m' & Em' & Hsub) & Hr2). rewrite Em in Em'. inversion Em'; subst m'.
        split; auto. split; auto. eapply sub_agrees; eauto. apply agrees_of_bool; auto.
Qed.

Lemma run_inv sched : forall c, Inv c -> Inv (run ms sched c).
Proof. induction sched as [|ch t IH]; intros c I; cbn; auto. apply IH, step_inv; auto. Qed.

Lemma access_holds c t st x : Inv c -> nth_error (stacks c) t = Some st -> at_access ms st = Some x ->
  holder c = Some t.
Proof.
  intros I E A. pose proof (I _ _ E) as Hs. destruct st as [|f rest]; [discriminate|].
  destruct Hs as ((m & Em & Hn) & Ha & _). unfold at_access, node_at in A. rewrite Em in A.
  destruct (nth_error (m_nodes m) (snd f)) as [[e succs]|] eqn:En; [|discriminate].
  pose proof (node_ok_at _ _ _ _ Em En) as Hnode. unfold node_ok in Hnode. cbn [fst snd] in Hnode.
  unfold annot_of in Ha. rewrite Em in Ha.
  assert (annot_at m (snd f) = Held) as Hh.
  { destruct e; try discriminate; cbn in Hnode; destruct (annot_at m (snd f)); try discriminate; auto. }
  rewrite Hh in Ha. cbn in Ha. destruct (holder c) as [u|]; [|discriminate]. cbn in Ha.
  apply Nat.eqb_eq in Ha. congruence.
Qed.
End LS.

(* for all interleavings of any number of threads running any sequence of public methods: two threads are never
   both at a field access (a fortiori no two conflicting accesses are unordered) *)
Theorem well_bracketed_race_free cls : class_ok cls = true ->
  forall n sched t1 t2 st1 st2 x1 x2,
  let c := run (c_methods cls) sched (init n) in
  nth_error (stacks c) t1 = Some st1 -> nth_error (stacks c) t2 = Some st2 ->
  at_access (c_methods cls) st1 = Some x1 -> at_access (c_methods cls) st2 = Some x2 -> t1 = t2.
Proof.
  intros Hok n sched t1 t2 st1 st2 x1 x2 c E1 E2 A1 A2.
  assert (I : Inv (c_methods cls) c) by (apply run_inv, inv_init; auto).
  pose proof (access_holds _ Hok _ _ _ _ I E1 A1) as H1.
  pose proof (access_holds _ Hok _ _ _ _ I E2 A2) as H2. congruence.
Qed.

(* whoever is at a field access holds the mutex *)
Theorem access_under_lock cls : class_ok cls = true ->
  forall n sched t st x, let c := run (c_methods cls) sched (init n) in
  nth_error (stacks c) t = Some st -> at_access (c_methods cls) st = Some x -> holder c = Some t.
Proof.
  intros Hok n sched t st x c E A. eapply access_holds; eauto. apply run_inv, inv_init; auto.
Qed.

Theorem all_guarded_classes sk : all_guarded sk = true -> forall cls, In cls sk -> class_ok cls = true.
Proof. unfold all_guarded. rewrite forallb_forall. auto. Qed.
