(* Properties_C12.v — C12: scheduler: never early, in deadline order, each sleep completed exactly once, cancel hits
   exactly its target, no crash / hang, destruction cancels, an idle worker wakes on time.
   Only statements; every proof is `exact <lemma of TimerProofs / Timer2Proofs>`.
   Quantification: every history of schedule / sleep_until / get_expired / remove / cancel / cancel(e) / ~scheduler
   calls of any length, arbitrary (equal, past, negative) time points, arbitrary idents (duplicates), arbitrary clock
   readings; every interleaving of the worker with foreign schedule / cancel / tick / spurious wake-up / stop events;
   every sequence of interval-generator / stop-token operations. *)
From Cocls Require Import Base BaseProofs TimerDefs TimerProofs Timer2Proofs Timer3Proofs Timer4Proofs.
Require Import Sorted.
Local Open Scope Z_scope.

(* libstdc++ push_heap / pop_heap as transcribed keep the min-heap order and the multiset, for arrays of every size *)
Theorem c12_heap_push : forall l e, heap_ok l ->
  heap_ok (heap_push l e) /\ Permutation (heap_push l e) (e :: l) /\ length (heap_push l e) = S (length l).
Proof. exact heap_push_ok. Qed.
Print Assumptions c12_heap_push.

Theorem c12_heap_pop : forall t rest, heap_ok (t :: rest) ->
  exists l', pop_item (t :: rest) = Ok l' /\ heap_ok l' /\ Permutation (t :: l') (t :: rest) /\ length l' = length rest.
Proof. exact pop_item_ok. Qed.
Print Assumptions c12_heap_pop.

(* in every reachable state `_scheduled` is a heap, so `_scheduled[0]` really is a minimum of the whole array *)
Theorem c12_heap_invariant : forall s, reachable s ->
  heap_ok (sched s) /\ forall t rest e, sched s = t :: rest -> In e (sched s) -> e_tp t <= e_tp e.
Proof. exact heap_invariant. Qed.
Print Assumptions c12_heap_invariant.

(* no history reaches an out-of-bounds index (ErrOOB) or any other abnormal outcome; one observation per call *)
Theorem c12_no_crash : forall ops, exists os s, run_from st0 ops = (os, Some s) /\ length os = length ops.
Proof. exact no_crash. Qed.
Print Assumptions c12_no_crash.

(* every call in a reachable state is a transition of the multiset specification `spec_step` over the pending sleeps *)
Theorem c12_refines_multiset : forall s x, reachable s ->
  exists s' o, step s x = Ok (s', o) /\ reachable s' /\
               (alive s = true -> spec_step (pending (sched s)) x o (pending (sched s'))) /\
               (alive s = false -> s' = s /\ o = rejected).
Proof. exact refines_multiset. Qed.
Print Assumptions c12_refines_multiset.

Theorem c12_never_early : forall ops os sf, run_from st0 ops = (os, Some sf) ->
  forall x ob t now, In (x, ob) (combine ops os) -> In (t, ByExpiry now) (o_evs (ob_out ob)) ->
  x = OExpired now /\ e_tp t <= now.
Proof. exact never_early. Qed.
Print Assumptions c12_never_early.

(* nobody is overtaken: when `a` expires, every sleep scheduled before and not yet completed has a time point >= a's *)
Theorem c12_deadline_order : forall pre os1 s1 x s2 o a now b,
  run_from st0 pre = (os1, Some s1) -> step s1 x = Ok (s2, o) -> In (a, ByExpiry now) (o_evs o) ->
  In b (sched_run pre os1) -> ~ In b (completed_run os1) -> e_tp a <= e_tp b.
Proof. exact deadline_order. Qed.
Print Assumptions c12_deadline_order.

(* between two schedule calls the sleeps completed by expiry come out sorted by time point *)
Theorem c12_deadline_sorted : forall s ops os s', reachable s -> forallb (fun x => negb (is_sched x)) ops = true ->
  run_from s ops = (os, Some s') -> StronglySorted Z.le (expiry_tps os).
Proof. exact deadline_sorted. Qed.
Print Assumptions c12_deadline_sorted.

Theorem c12_each_once : forall ops os sf, run_from st0 ops = (os, Some sf) ->
  NoDup (ppids (sched_run ops os)) /\
  Permutation (sched_run ops os) (completed_run os ++ pending (sched sf)) /\
  (forall t h p, In (t, h) (events_run os) -> e_p t = Some p -> get (futs sf) p = Some (stat_of h)) /\
  (forall e p, In e (pending (sched sf)) -> e_p e = Some p -> get (futs sf) p = Some FPending) /\
  (alive sf = false -> Permutation (sched_run ops os) (completed_run os)).
Proof. exact each_once. Qed.
Print Assumptions c12_each_once.

Theorem c12_each_exactly_once : forall ops os sf, run_from st0 ops = (os, Some sf) -> alive sf = false ->
  forall p, In p (ppids (sched_run ops os)) -> count_occ Nat.eq_dec (ppids (completed_run os)) p = 1%nat.
Proof. exact each_exactly_once. Qed.
Print Assumptions c12_each_exactly_once.

(* cancel(id, e): true => exactly one pending sleep carrying id completed with e, every other future and the rest of
   the pending multiset untouched; false <=> nothing pending carries id, and then nothing changes *)
Theorem c12_cancel_exact : forall s id c, reachable s -> alive s = true ->
  exists s' o, step s (OCancelE id c) = Ok (s', o) /\ cancel_exact_spec s id (ByCancel c) s' o /\
               (o_r1 o = 0 <-> forall u, In u (pending (sched s)) -> e_id u <> id).
Proof. exact cancel_exact. Qed.
Print Assumptions c12_cancel_exact.

Theorem c12_cancel_default_exact : forall s id, reachable s -> alive s = true ->
  exists s' o, step s (OCancel id) = Ok (s', o) /\ cancel_exact_spec s id (ByCancel 0) s' o /\
               (o_r1 o = 0 <-> forall u, In u (pending (sched s)) -> e_id u <> id).
Proof. exact cancel_default_exact. Qed.
Print Assumptions c12_cancel_default_exact.

Theorem c12_remove_exact : forall s id, reachable s -> alive s = true ->
  exists s' o, step s (ORemove id) = Ok (s', o) /\ cancel_exact_spec s id ByRemove s' o /\
               (o_r1 o = 0 <-> forall u, In u (pending (sched s)) -> e_id u <> id).
Proof. exact remove_exact. Qed.
Print Assumptions c12_remove_exact.

Theorem c12_destroy_cancels : forall s, reachable s -> alive s = true ->
  exists s' o, step s ODestroy = Ok (s', o) /\
    sched s' = [] /\ alive s' = false /\
    o_evs o = map (fun e => (e, ByDestroy)) (pending (sched s)) /\
    (forall p, get (futs s) p = Some FPending -> get (futs s') p = Some FDropped) /\
    (forall p v, get (futs s) p = Some v -> v <> FPending -> get (futs s') p = Some v) /\
    (forall p, get (futs s') p <> Some FPending) /\
    (forall x, step s' x = Ok (s', rejected)).
Proof. exact destroy_cancels. Qed.
Print Assumptions c12_destroy_cancels.

(* worker (worker_coro), every interleaving of foreign schedule / cancel / tick / spurious wake-up / stop events with the
   worker's own steps, with either wait primitive `aw`: never out of bounds; once the clock has reached the time point of
   ANY array entry an unfinished worker is runnable (after entering the wait it had decided on); never early *)
Theorem c12_idle_wakes_on_time : forall aw evs, let w := wrun aw wst0 evs in
  w_err w = false /\
  (forall e, In e (w_sched w) -> e_tp e <= w_now w -> w_mode w <> WFin -> runnable (wstep aw w WBlock) = true) /\
  (forall t now, In (t, now) (w_done w) -> e_tp t <= now).
Proof. exact idle_wakes_on_time. Qed.
Print Assumptions c12_idle_wakes_on_time.

Theorem c12_worker_resolves_due : forall aw evs, let w := wrun aw wst0 evs in
  w_stop w = false -> runnable w = true ->
  (exists e, In e (pending (w_sched w)) /\ e_tp e <= w_now w) ->
  exists t, w_done (wstep aw w WIter) = (t, w_now w) :: w_done w /\ In t (pending (w_sched w)) /\
            (forall u, In u (pending (w_sched w)) -> e_tp t <= e_tp u) /\
            Permutation (pending (w_sched w)) (t :: pending (w_sched (wstep aw w WIter))).
Proof. exact worker_resolves_due. Qed.
Print Assumptions c12_worker_resolves_due.

(* thread mode / start(awaitable) mode, each once: accepted = completed by the worker + taken by remove/cancel + pending *)
Theorem c12_worker_each_once : forall aw evs, let w := wrun aw wst0 evs in
  Permutation (w_in w) (map fst (w_done w) ++ w_rm w ++ pending (w_sched w)).
Proof. exact worker_each_once. Qed.
Print Assumptions c12_worker_each_once.

(* current code (stop-token-aware wait): a stop request landing in ANY window ends the worker, so ~scheduler returns *)
Theorem c12_stop_ends_worker : forall evs, let w := wrun true wst0 evs in
  w_stop w = true -> w_mode (wrun true w [WBlock; WIter]) = WFin.
Proof. exact stop_ends_worker. Qed.
Print Assumptions c12_stop_ends_worker.

(* F-C12d: with the old plain wait_until the stop request can be lost for ever *)
Theorem c12_lost_stop_before_repair : let w := wrun false wst0 [WIter; WStop; WBlock] in
  w_stop w = true /\ forall evs, Forall quiet evs -> w_mode (wrun false w evs) = WWait None false.
Proof. exact lost_stop_old. Qed.
Print Assumptions c12_lost_stop_before_repair.

(* interval() + stop token: request_stop never self-deadlocks, nothing crashes *)
Theorem c12_interval_no_deadlock : forall ops,
  length (interval_run ops) = length ops /\
  Forall (fun ob => exists t, ob = 0 :: t \/ ob = 1 :: t) (interval_run ops).
Proof. exact interval_no_deadlock. Qed.
Print Assumptions c12_interval_no_deadlock.

(* cancellation through a stop token, up to three interval generators with independent stop tokens on one scheduler:
   pairwise distinct idents => after ANY operation sequence a stop request returns, cancels exactly the signalled
   generator's own pending sleep (iff it sleeps) and ends that generator; every other generator keeps its state and its
   pending sleep *)
Theorem c12_interval_stop_hits_own : forall tg ops g, (forall a b, tg a = tg b -> a = b) ->
  let s := istate tg ist0 ops in
  stop_of s g = false ->
  exists s1 ob, istep' false tg s (IStop g) = IOk s1 ob /\
    (gen_of s g = GSleeping ->
       exists t, In t (pending (i_sched s)) /\ e_p t = Some g /\ e_id t = tg g /\
                 Permutation (pending (i_sched s)) (t :: pending (i_sched s1)) /\ gen_of s1 g = GDone) /\
    (gen_of s g <> GSleeping -> Permutation (pending (i_sched s)) (pending (i_sched s1)) /\ gen_of s1 g = gen_of s g) /\
    (forall g', g' <> g -> gen_of s1 g' = gen_of s g' /\ stop_of s1 g' = stop_of s g').
Proof. exact interval_stop_hits_own. Qed.
Print Assumptions c12_interval_stop_hits_own.

(* ... instantiated with the idents of the code (`&tag`, a variable of each generator's own coroutine frame) *)
Theorem c12_interval_stop_cancels : forall ops g, let s := istate tag ist0 ops in
  stop_of s g = false ->
  exists s1 ob, istep' false tag s (IStop g) = IOk s1 ob /\
    (gen_of s g = GSleeping ->
       exists t, In t (pending (i_sched s)) /\ e_p t = Some g /\ e_id t = tag g /\
                 Permutation (pending (i_sched s)) (t :: pending (i_sched s1)) /\ gen_of s1 g = GDone) /\
    (gen_of s g <> GSleeping -> Permutation (pending (i_sched s)) (pending (i_sched s1)) /\ gen_of s1 g = gen_of s g) /\
    (forall g', g' <> g -> gen_of s1 g' = gen_of s g' /\ stop_of s1 g' = stop_of s g').
Proof. exact interval_stop_cancels. Qed.
Print Assumptions c12_interval_stop_cancels.

(* callback-style sleepers ("you can schedule anything": make_promise(handler) passed to schedule) whose completion handler
   re-enters the scheduler — cancels another sleep and/or arms a new one — from inside cancel / remove+resolve /
   get_expired+resolve, nested to any depth: every call returns (no out-of-bounds access, no unbounded re-entry), the
   array stays a heap and holds each pending promise exactly once *)
Theorem c12_tx_no_crash : forall ops,
  length (tx_run ops) = length ops /\ Forall (fun ob => exists t, ob = 0 :: t \/ ob = 1 :: t) (tx_run ops).
Proof. exact tx_no_crash. Qed.
Print Assumptions c12_tx_no_crash.

(* the property oracle run on implementation traces accepts every trace of the model: it is not stricter than what is proved *)
Theorem c12_oracle_sound : forall ops, timer_oracle ops (timer_run ops) = true.
Proof. exact oracle_sound. Qed.
Print Assumptions c12_oracle_sound.

(* non-vacuity: a reachable state with duplicate idents, an emptied slot inside the array, equal and past time points;
   two cancels of a triplicate id hit two different sleeps (array order), the third is cancelled by the destructor; expiry order; destructor cancels the rest *)
Example c12_nonvacuous :
  let ops := [OSchedule 0 5 10; OSchedule 1 7 30; OSleep 2 7 20; OSchedule 3 7 30; OSchedule 4 1 (-3);
              OCancelE 7 4; OCancel 7; OExpired 10; OExpired 10; OExpired 10; OCancel 5; ODestroy] in
  let r := run_from st0 ops in
  (exists sf, snd r = Some sf /\ alive sf = false /\ sched sf = [] /\
     map (get (futs sf)) [0%nat; 1%nat; 2%nat; 3%nat; 4%nat] =
       [Some FValue; Some FDropped; Some (FExc 4); Some (FExc 0); Some FValue]) /\
  expiry_tps (fst r) = [-3; 10] /\
  map (fun ev => e_p (fst ev)) (events_run (fst r)) = [Some 2%nat; Some 3%nat; Some 4%nat; Some 0%nat; Some 1%nat] /\
  ppids (sched_run ops (fst r)) = [0%nat; 1%nat; 2%nat; 3%nat; 4%nat].
Proof. vm_compute. split; [eexists; repeat split|repeat split]. Qed.
