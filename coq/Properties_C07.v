(* Properties_C07.v — C07: coroutine mutex, mutual exclusion and exactly-once grant.
   Statements only; proofs are `exact <lemma of MutexProofs>`.  `reachable ops s` ranges over every schedule
   of every set of contenders declared by ops: any number of coroutines and plain (blocking) threads, each
   running any number of rounds with acquisition by lock (co_await / blocking wait) or try_lock and release
   by ownership destruction, release() discarded or co_await release().
   holds s c   : c owns the mutex (from its successful CAS / the hand-over to the end of its unlock)
   waiting s c : c has published a request that was not granted yet. *)
From Cocls Require Import Base BaseProofs MutexDefs MutexProofs MutexSched MutexObs.
From Cocls Require MutexOwnDefs MutexOwnProofs MutexBareDefs MutexBareProofs.
Local Open Scope Z_scope.

(* at most one owner in every reachable state *)
Theorem c07_mutual_exclusion : forall ops s i j, reachable ops s -> holds s i -> holds s j -> i = j.
Proof. exact mutual_exclusion. Qed.
Print Assumptions c07_mutual_exclusion.

(* every state the executable model visits under any schedule list is reachable (so the theorems cover mutex_run) *)
Theorem c07_runs_are_reachable : forall ops fuel s sched tr,
  reachable ops s -> reachable ops (fst (run_sched fuel s sched tr)).
Proof. exact run_sched_reachable. Qed.
Print Assumptions c07_runs_are_reachable.

(* each published request is granted at most once and in order: the grant log is a prefix of the log of
   publishing CASes, the rest is exactly the set of waiting tasks (each once), and a waiting task is never an
   owner (a request is never both "found free" and handed over) *)
Theorem c07_grant_once : forall ops s, reachable ops s ->
  exists pending, alog s = glog s ++ pending /\ NoDup pending /\
    (forall w, In w pending <-> waiting s w) /\ (forall w, waiting s w -> ~ holds s w).
Proof. exact grant_once. Qed.
Print Assumptions c07_grant_once.

(* between the publishing CAS and the return of await_suspend the suspending thread touches neither the mutex
   nor any task: it is harmless that the coroutine is already resumed elsewhere (repair 2b1c999) *)
Theorem c07_not_while_suspending : forall s t c, run (gthr s t) = TSusp c ->
  let s' := fst (fst (tstep s t)) in
  requests s' = requests s /\ queue s' = queue s /\ next s' = next s /\ dnext s' = dnext s /\
  owner s' = owner s /\ alog s' = alog s /\ glog s' = glog s /\
  (forall x, tk (gtask s' x) = tk (gtask s x) /\ tpc (gtask s' x) = tpc (gtask s x) /\ flag (gtask s' x) = flag (gtask s x)).
Proof. exact not_while_suspending. Qed.
Print Assumptions c07_not_while_suspending.

(* the other continuations after the publishing CAS only move the publisher's own program counter *)
Theorem c07_after_publish_local : forall s t c, run (gthr s t) = TRun c ->
  (tpc (gtask s c) = PPub0 -> fst (fst (tstep s t)) = set_pc s c PBqS) /\
  (tpc (gtask s c) = PPubW -> fst (fst (tstep s t)) = set_pc s c PFlag).
Proof. exact after_publish_local. Qed.
Print Assumptions c07_after_publish_local.

(* a suspended task is a coroutine whose request is pending: it can only be resumed by a hand-over *)
Theorem c07_suspended_is_waiting : forall ops s c, reachable ops s -> tpc (gtask s c) = PParked ->
  tk (gtask s c) = KCoro /\ waiting s c.
Proof. exact suspended_is_coroutine. Qed.
Print Assumptions c07_suspended_is_waiting.

(* the doorman never enters the owner-private queue, its _next is never written, unlock never dereferences null *)
Theorem c07_sentinel_never_queued : forall ops s, reachable ops s ->
  err s = false /\ dnext s = PNull /\ (queue s = PNull \/ exists w, queue s = PNode w /\ waiting s w).
Proof. exact sentinel_never_queued. Qed.
Print Assumptions c07_sentinel_never_queued.

(* thread level: a coroutine contender is in exactly one place when it can run (executing on exactly one OS
   thread, or exactly once in exactly one ready queue) and nowhere while parked or finished: it is never
   resumed concurrently with itself, never resumed twice for one grant, never queued while it runs.
   occ counts "executing on a thread" + occurrences in all ready queues. *)
Theorem c07_never_concurrent_with_itself : forall ops s c, reachable ops s -> tk (gtask s c) = KCoro ->
  occ (thrs s) c = (if live (tpc (gtask s c)) then 1 else 0)%nat /\
  (forall t t', run (gthr s t) = TRun c -> run (gthr s t') = TRun c -> t = t') /\
  (forall t t', run (gthr s t) = TRun c -> ~ In c (tq (gthr s t'))) /\
  (forall t t', In c (tq (gthr s t)) -> In c (tq (gthr s t')) -> t = t') /\
  (forall t, (count_occ Nat.eq_dec (tq (gthr s t)) c <= 1)%nat) /\
  (live (tpc (gtask s c)) = false -> forall t, run (gthr s t) <> TRun c /\ ~ In c (tq (gthr s t))).
Proof. exact one_place. Qed.
Print Assumptions c07_never_concurrent_with_itself.

(* the thread-level invariant is inductive over every step *)
Theorem c07_location_invariant_inductive : forall s t, SInv s -> LInv s -> enabled s t = true -> LInv (fst (fst (tstep s t))).
Proof. exact step_linv. Qed.
Print Assumptions c07_location_invariant_inductive.

(* observable form: the scenario's critical-section overlap detector never fires; at most one contender is inside the
   critical section, it owns the mutex and is at the cs point; a contender waiting in a ready queue is not inside *)
Theorem c07_overlap_never : forall ops s, reachable ops s ->
  ovl s = false /\
  (forall x y, incs (gtask s x) = true -> incs (gtask s y) = true -> x = y) /\
  (forall x, incs (gtask s x) = true -> holds s x /\ tpc (gtask s x) = PCs) /\
  (forall t x, In x (tq (gthr s t)) -> incs (gtask s x) = false).
Proof. exact overlap_never. Qed.
Print Assumptions c07_overlap_never.

(* ownership objects (mutex.h:62-103; sequential model MutexOwnDefs: two mutexes, four ownership slots, callback-style
   waiters that store their grant into a slot from inside unlock()): after any sequence of try_lock / callback
   request / release / destruction / move assignment / move construction, at most one ownership object holds a
   mutex, and a mutex is locked exactly when one does *)
Theorem c07_ownership_unique : forall s i j m, MutexOwnProofs.wreach s ->
  MutexOwnDefs.gslot s i = Some m -> MutexOwnDefs.gslot s j = Some m -> i = j.
Proof. exact MutexOwnProofs.own_unique. Qed.
Print Assumptions c07_ownership_unique.

Theorem c07_locked_iff_owned : forall s m, MutexOwnProofs.wreach s ->
  (MutexOwnDefs.locked (MutexOwnDefs.gmx s m) = true <-> exists j, MutexOwnDefs.gslot s j = Some m).
Proof. exact MutexOwnProofs.own_locked_iff. Qed.
Print Assumptions c07_locked_iff_owned.

(* coroutines that use the mutex without an installed coro_queue (resumed by plain handle.resume(); model MutexBareDefs):
   whatever sequence of starts and gate openings, at most one coroutine is inside and it is the holder *)
Theorem c07_bare_exclusion : forall s c d, MutexBareProofs.breach s ->
  MutexBareDefs.bget s c = Some MutexBareDefs.BIn -> MutexBareDefs.bget s d = Some MutexBareDefs.BIn ->
  c = d /\ MutexBareDefs.bholder s = Some c.
Proof. exact MutexBareProofs.bare_exclusion. Qed.
Print Assumptions c07_bare_exclusion.

(* non-vacuity: coroutine 0 owns the mutex, coroutine 1 has published and its thread is still inside
   await_suspend, plain thread 2 has published too *)
Example c07_nonvacuous :
  let ops := [[1;0;0;0]; [1;0;0;2]; [1;1;0;1]; [9; 0;0;1;1;1;1;2;2;2;2]]%Z in
  let s := fst (run_sched 10 (init ops) (flat_map decode_sched ops) []) in
  reachable ops s /\ holds s 0 /\ waiting s 1 /\ waiting s 2 /\ run (gthr s 1) = TSusp 1%nat /\
  requests s = PNode 2 /\ alog s = [1; 2]%nat /\ glog s = [].
Proof.
  split; [apply run_sched_reachable; apply r_init|]. vm_compute. repeat split.
Qed.
