(* AwProofs.v — re-used awaiter objects (AwDefs.v), every op sequence: an awaiter that is not linked has a null link
   field, so every subscription attempt starts from null and can never match the ready marker; every started wait is
   answered exactly once (callback run once) or is still parked in exactly one pending future. *)
From Cocls Require Import Base BaseProofs CellDefs AwDefs.
Local Open Scope nat_scope.

Record AInv (s : ast) : Prop := {
  v_err : a_err s = false;
  v_aw : forall a w, nth_error (aws s) a = Some w ->
         match aw_cell w with
         | None => aw_next w = LNull /\ aw_runs w = aw_waits w
         | Some c => aw_waits w = S (aw_runs w) /\
                     exists cl l, nth_error (acells s) c = Some cl /\ ac_slot cl = Some l /\ In a l
         end;
  v_cell : forall c cl l, nth_error (acells s) c = Some cl -> ac_slot cl = Some l ->
           ac_prom cl = true /\ NoDup l /\ forall a, In a l -> exists w, nth_error (aws s) a = Some w /\ aw_cell w = Some c;
}.

Lemma nth_set {A} (l : list A) i x j :
  nth_error (set_nth l i x) j = if Nat.eqb i j then match nth_error l i with Some _ => Some x | None => None end else nth_error l j.
Proof.
  destruct (Nat.eqb_spec i j) as [<-|N].
  - destruct (nth_error l i) eqn:E.
    + apply nth_error_set_nth_same. apply nth_error_Some. congruence.
    + apply nth_error_None in E. apply nth_error_None.
      assert (length (set_nth l i x) = length l) by (clear; revert i; induction l; intros [|i]; cbn; auto). lia.
  - apply nth_error_set_nth_other. exact N.
Qed.

Lemma ainv_init : AInv ainit.
Proof.
  constructor; [reflexivity| |].
  - intros a w H. unfold ainit in H. cbn [aws] in H. apply nth_error_In in H. apply repeat_spec in H. subst. cbn. auto.
  - intros c cl l H SL. unfold ainit in H. cbn [acells] in H. apply nth_error_In in H. apply in_app_or in H.
    destruct H as [H|H]; apply repeat_spec in H; subst; cbn in SL; inversion SL; subst.
    cbn. repeat split; [constructor|intros a []].
Qed.

Lemma mem_In a l : mem a l = true <-> In a l.
Proof.
  unfold mem. rewrite existsb_exists. split.
  - intros (x & H & E). apply Nat.eqb_eq in E. subst. exact H.
  - intros H. exists a. split; [exact H|apply Nat.eqb_refl].
Qed.

Lemma nth_mapi {A B} (f : nat -> A -> B) (ws : list A) : forall k a,
  nth_error (map (fun iw => f (fst iw) (snd iw)) (combine (seq k (length ws)) ws)) a = option_map (f (k + a)) (nth_error ws a).
Proof.
  induction ws as [|w ws IH]; intros k a; cbn [length seq combine map].
  - destruct a; reflexivity.
  - destruct a as [|a]; cbn [nth_error option_map]; [rewrite Nat.add_0_r; reflexivity|].
    rewrite IH. replace (S k + a) with (k + S a) by lia. reflexivity.
Qed.

Lemma nth_release l ws a :
  nth_error (release_all l ws) a =
  option_map (fun w => if mem a l then mkAw LNull None (aw_waits w) (S (aw_runs w)) else w) (nth_error ws a).
Proof.
  unfold release_all.
  exact (nth_mapi (fun i w => if mem i l then mkAw LNull None (aw_waits w) (S (aw_runs w)) else w) ws 0 a).
Qed.

(* a future that is ready (or absent) has nobody linked to it; replacing it by a fresh future keeps the invariant *)
Lemma ainv_renew s c rdy v : AInv s -> is_ready s c = true -> AInv (set_acell s c (fresh_cell rdy v)).
Proof.
  intros [V1 V2 V3] R. unfold is_ready in R. destruct (nth_error (acells s) c) as [cl0|] eqn:HC; [|discriminate].
  destruct (ac_slot cl0) eqn:SL0; [discriminate|].
  constructor; cbn [set_acell a_err aws acells]; [exact V1| |].
  - intros a w H. specialize (V2 a w H). destruct (aw_cell w) as [c'|]; [|exact V2].
    destruct V2 as (E & cl & l & A & B & C). split; [exact E|].
    rewrite nth_set, HC. destruct (Nat.eqb_spec c c') as [<-|N]; [congruence|eauto].
  - intros c' cl l. rewrite nth_set, HC. destruct (Nat.eqb_spec c c') as [<-|N]; [|apply V3].
    intros Q SL. inversion Q; subst. unfold fresh_cell in SL. destruct rdy; cbn in SL; [discriminate|].
    inversion SL; subst. cbn. repeat split; [constructor|intros a []].
Qed.

Lemma head_null cl : link_eqb (head_of cl) LNull = true <-> ac_slot cl = Some [].
Proof. unfold head_of. destruct (ac_slot cl) as [[|x l]|]; cbn; split; intros H; try discriminate; reflexivity. Qed.

Lemma sub_check_unlinked s a c w cl :
  nth_error (aws s) a = Some w -> aw_next w = LNull -> nth_error (acells s) c = Some cl ->
  sub_check s a c =
  match ac_slot cl with
  | Some l => (set_aw (set_acell s c (mkAC (Some (a :: l)) (ac_pay cl) (ac_prom cl))) a
                      (mkAw (head_of cl) (Some c) (aw_waits w) (aw_runs w)), true)
  | None => (set_aw s a (mkAw LNull None (aw_waits w) (aw_runs w)), false)
  end.
Proof.
  intros HA NX HC. unfold sub_check. rewrite HA, HC, NX. cbn [link_eqb negb]. unfold head_of.
  destruct (ac_slot cl) as [[|x l]|]; reflexivity.
Qed.

(* one wait of an unlinked awaiter *)
Lemma ainv_wait isvoid s a c : AInv s -> unlinked s a = true -> AInv (fst (do_wait isvoid s a c)).
Proof.
  intros I U. pose proof I as [V1 V2 V3]. unfold unlinked in U. unfold do_wait.
  destruct (nth_error (aws s) a) as [w0|] eqn:HA; [|discriminate].
  destruct (aw_cell w0) eqn:AC; [discriminate|]. pose proof (V2 a w0 HA) as Q. rewrite AC in Q. destruct Q as (NX & RW).
  destruct (nth_error (acells s) c) as [cl|] eqn:HC; [|exact I].
  rewrite NX. set (w1 := mkAw LNull None (S (aw_waits w0)) (aw_runs w0)).
  assert (HA0 : nth_error (aws (set_aw s a w1)) a = Some w1) by (cbn [set_aw aws]; rewrite nth_set, Nat.eqb_refl, HA; reflexivity).
  assert (HC0 : nth_error (acells (set_aw s a w1)) c = Some cl) by exact HC.
  rewrite (sub_check_unlinked _ a c w1 cl HA0 eq_refl HC0).
  assert (NI : forall l, ac_slot cl = Some l -> ~ In a l).
  { intros l SL H. destruct (V3 c cl l HC SL) as (_ & _ & M). destruct (M a H) as (w & A & B). rewrite HA in A. inversion A; subst. congruence. }
  destruct (ac_slot cl) as [l|] eqn:SL.
  - (* subscribed *)
    cbn [a_err set_aw set_acell]. rewrite V1. cbn [fst w1 aw_waits aw_runs].
    destruct (V3 c cl l HC SL) as (PR & ND & M).
    constructor; cbn [set_aw set_acell a_err aws acells]; [exact V1| |].
    + intros a' w'. rewrite !nth_set, Nat.eqb_refl, HA. destruct (Nat.eqb_spec a a') as [<-|N].
      * intros Q; inversion Q; subst. cbn [aw_cell aw_waits aw_runs]. split; [lia|].
        eexists. exists (a :: l). rewrite nth_set, Nat.eqb_refl, HC. repeat split. left. reflexivity.
      * intros H. specialize (V2 a' w' H). destruct (aw_cell w') as [c'|]; [|exact V2].
        destruct V2 as (E & cl' & l' & A & B & C). split; [exact E|]. rewrite nth_set, HC.
        destruct (Nat.eqb_spec c c') as [<-|N2]; [|eauto].
        rewrite HC in A. inversion A; subst. rewrite SL in B. inversion B; subst.
        eexists. exists (a :: l'). repeat split. right. exact C.
    + intros c' cl' l'. rewrite nth_set, HC. destruct (Nat.eqb_spec c c') as [<-|N].
      * intros Q SL'. inversion Q; subst. cbn in SL'. inversion SL'; subst. cbn [ac_prom]. split; [exact PR|]. split.
        -- constructor; [apply NI; reflexivity|exact ND].
        -- intros a' [<-|H]; rewrite !nth_set, Nat.eqb_refl, HA.
           ++ eauto.
           ++ destruct (Nat.eqb_spec a a') as [<-|N]; [eauto|]. apply M. exact H.
      * intros H SL'. destruct (V3 c' cl' l' H SL') as (PR' & ND' & M'). split; [exact PR'|]. split; [exact ND'|].
        intros a' Ha'. rewrite !nth_set, Nat.eqb_refl, HA. destruct (Nat.eqb_spec a a') as [<-|N2]; [|apply M'; exact Ha'].
        exfalso. destruct (M' a Ha') as (w & A & B). rewrite HA in A. inversion A; subst. congruence.
  - (* refused: reset, the owner runs the callback *)
    cbn [a_err set_aw aws acells]. rewrite V1. rewrite !nth_set, Nat.eqb_refl, HA, HC. cbn [fst w1 aw_next aw_cell aw_waits aw_runs].
    constructor; cbn [set_aw a_err aws acells]; [exact V1| |].
    + intros a' w'. rewrite !nth_set, Nat.eqb_refl. rewrite ?nth_set, ?Nat.eqb_refl, ?HA.
      destruct (Nat.eqb_spec a a') as [<-|N]; [|apply V2].
      intros Q; inversion Q; subst. cbn. split; [reflexivity|lia].
    + intros c' cl' l' H SL'. destruct (V3 c' cl' l' H SL') as (PR' & ND' & M'). split; [exact PR'|]. split; [exact ND'|].
      intros a' Ha'. rewrite !nth_set, Nat.eqb_refl. rewrite ?nth_set, ?Nat.eqb_refl, ?HA.
      destruct (Nat.eqb_spec a a') as [<-|N2]; [|apply M'; exact Ha'].
      exfalso. destruct (M' a Ha') as (w & A & B). rewrite HA in A. inversion A; subst. congruence.
Qed.

(* the promise of future c is called: exchange to ready, every linked awaiter gets _next = nullptr and runs once *)
Lemma ainv_resolve s c cl l pay e :
  AInv s -> nth_error (acells s) c = Some cl -> ac_slot cl = Some l -> e = a_err s ->
  AInv (mkA (set_nth (acells s) c (mkAC None pay false)) (release_all l (aws s)) e).
Proof.
  intros [V1 V2 V3] HC SL ->. destruct (V3 c cl l HC SL) as (PR & ND & M).
  constructor; cbn [a_err aws acells]; [exact V1| |].
  - intros a w. rewrite nth_release. destruct (nth_error (aws s) a) as [w0|] eqn:HA; [|discriminate].
    cbn [option_map]. specialize (V2 a w0 HA). destruct (mem a l) eqn:ML.
    + intros Q; inversion Q; subst. cbn. split; [reflexivity|].
      apply mem_In in ML. destruct (M a ML) as (w1 & A & B). rewrite HA in A. inversion A; subst. rewrite B in V2. lia.
    + intros Q; inversion Q; subst. destruct (aw_cell w) as [c'|]; [|exact V2].
      destruct V2 as (E & cl' & l' & A & B & C). split; [exact E|]. rewrite nth_set, HC.
      destruct (Nat.eqb_spec c c') as [<-|N]; [|eauto].
      exfalso. rewrite HC in A. inversion A; subst. rewrite SL in B. inversion B; subst.
      apply mem_In in C. congruence.
  - intros c' cl' l'. rewrite nth_set, HC. destruct (Nat.eqb_spec c c') as [<-|N]; [intros Q; inversion Q; subst; discriminate|].
    intros H SL'. destruct (V3 c' cl' l' H SL') as (PR' & ND' & M'). split; [exact PR'|]. split; [exact ND'|].
    intros a Ha. destruct (M' a Ha) as (w & A & B). rewrite nth_release, A. cbn [option_map].
    destruct (mem a l) eqn:ML; [|eauto]. exfalso. apply mem_In in ML. destruct (M a ML) as (w2 & A2 & B2). congruence.
Qed.

Theorem ainv_step isvoid s x : AInv s -> AInv (fst (astep isvoid s x)).
Proof.
  intros I. unfold astep. rewrite (v_err s I). destruct x.
  - destruct (Nat.ltb a NAM && Nat.ltb c NCX && unlinked s a) eqn:G; [|exact I].
    apply andb_true_iff in G. destruct G as (_ & U). apply ainv_wait; assumption.
  - destruct (Nat.ltb b NAB && unlinked s (NAM + b) && is_ready s (NCX + b)) eqn:G; [|exact I].
    apply andb_true_iff in G. destruct G as (G & R). apply andb_true_iff in G. destruct G as (_ & U).
    apply ainv_wait; [apply ainv_renew; assumption|exact U].
  - destruct (nth_error (acells s) c) as [cl|] eqn:HC; [|exact I].
    destruct (ac_prom cl); [|exact I]. destruct (ac_slot cl) as [l|] eqn:SL; [|exact I].
    cbn [fst]. eapply ainv_resolve; try eassumption. symmetry. apply (v_err s I).
  - destruct (Nat.ltb c NCX && is_ready s c) eqn:G; [|exact I].
    apply andb_true_iff in G. destruct G as (_ & R). cbn [fst]. apply ainv_renew; assumption.
  - destruct (nth_error (acells s) c); exact I.
  - exact I.
Qed.

Theorem ainv_run isvoid ops : forall s, AInv s -> AInv (fst (arun isvoid s ops)).
Proof.
  induction ops as [|x r IH]; intros s I; cbn [arun]; [exact I|].
  destruct (astep isvoid s x) as [s1 o] eqn:E. specialize (IH s1).
  destruct (arun isvoid s1 r) as [s2 os] eqn:E2. cbn [fst] in *. apply IH.
  pose proof (ainv_step isvoid s x I) as Q. rewrite E in Q. exact Q.
Qed.

(* ================= C02 for re-used awaiters ================= *)
(* the assert of subscribe_check_ready never fires and no CAS ever matches the ready marker *)
Theorem reuse_never_errs isvoid ops : a_err (fst (arun isvoid ainit ops)) = false.
Proof. apply (v_err _ (ainv_run isvoid ops ainit ainv_init)). Qed.

(* before each subscription attempt the awaiter's link field is null: whenever the object is not linked — fresh,
   refused earlier, or released earlier — _next = nullptr; so the first CAS expects null and a resolved future refuses it *)
Theorem link_reset_before_subscription isvoid ops a w :
  nth_error (aws (fst (arun isvoid ainit ops))) a = Some w -> aw_cell w = None -> aw_next w = LNull.
Proof.
  intros H U. pose proof (v_aw _ (ainv_run isvoid ops ainit ainv_init) a w H) as Q. rewrite U in Q. tauto.
Qed.

Theorem wait_on_resolved_is_refused isvoid s a c w cl :
  AInv s -> nth_error (aws s) a = Some w -> aw_cell w = None -> nth_error (acells s) c = Some cl -> ac_slot cl = None ->
  let r := do_wait isvoid s a c in
  snd r = 0%Z :: Z.of_nat a :: okind isvoid (ac_pay cl) /\ acells (fst r) = acells s /\
  nth_error (aws (fst r)) a = Some (mkAw LNull None (S (aw_waits w)) (S (aw_runs w))).
Proof.
  intros I HA U HC SL. pose proof (v_aw s I a w HA) as Q. rewrite U in Q. destruct Q as (NX & _).
  unfold do_wait. rewrite HA, HC, NX, U. set (w1 := mkAw LNull None (S (aw_waits w)) (aw_runs w)).
  assert (HA0 : nth_error (aws (set_aw s a w1)) a = Some w1) by (cbn [set_aw aws]; rewrite nth_set, Nat.eqb_refl, HA; reflexivity).
  assert (HC0 : nth_error (acells (set_aw s a w1)) c = Some cl) by exact HC.
  rewrite (sub_check_unlinked _ a c w1 cl HA0 eq_refl HC0), SL.
  cbn [a_err set_aw aws acells]. rewrite (v_err s I). rewrite !nth_set, Nat.eqb_refl, HA, HC.
  cbn [fst snd aws acells w1 aw_next aw_cell aw_waits aw_runs set_aw]. repeat split.
  rewrite !nth_set, Nat.eqb_refl. rewrite ?nth_set, ?Nat.eqb_refl, ?HA. reflexivity.
Qed.

(* every wait is answered exactly once: callbacks run = waits started, minus the one wait that is still parked in
   exactly one pending future (whose chain holds the awaiter exactly once) *)
Theorem each_wait_released_exactly_once isvoid ops a w :
  let s := fst (arun isvoid ainit ops) in
  nth_error (aws s) a = Some w ->
  match aw_cell w with
  | None => aw_runs w = aw_waits w
  | Some c => aw_waits w = S (aw_runs w) /\
              exists cl l, nth_error (acells s) c = Some cl /\ ac_slot cl = Some l /\ ac_prom cl = true /\
                           count_occ Nat.eq_dec l a = 1
  end.
Proof.
  intros s H. pose proof (ainv_run isvoid ops ainit ainv_init) as I. fold s in I.
  pose proof (v_aw s I a w H) as Q. destruct (aw_cell w) as [c|]; [|tauto].
  destruct Q as (E & cl & l & A & B & C). split; [exact E|]. exists cl, l.
  destruct (v_cell s I c cl l A B) as (PR & ND & _). repeat split; try assumption.
  pose proof (proj1 (NoDup_count_occ Nat.eq_dec l) ND a). apply (count_occ_In Nat.eq_dec) in C. lia.
Qed.

(* a linked awaiter sits in a PENDING future whose promise is still armed: once every future is resolved nobody waits *)
Theorem all_resolved_all_answered isvoid ops :
  let s := fst (arun isvoid ainit ops) in
  (forall c cl, nth_error (acells s) c = Some cl -> ac_slot cl = None) ->
  forall a w, nth_error (aws s) a = Some w -> aw_cell w = None /\ aw_next w = LNull /\ aw_runs w = aw_waits w.
Proof.
  intros s R a w H. pose proof (ainv_run isvoid ops ainit ainv_init) as I. fold s in I.
  pose proof (v_aw s I a w H) as Q. destruct (aw_cell w) as [c|]; [|tauto].
  destruct Q as (_ & cl & l & A & B & _). rewrite (R c cl A) in B. discriminate.
Qed.
