(* Properties_C16.v — C16: publisher: subscribers see a gap-free, ordered, duplicate-free stream.
   Only statements; every proof is `exact <lemma of PublisherProofs>`.
   Quantification: every op list (any length; publish, batch, close, ~publisher, kick, subscribe recent / at a
   position / by copy, ~subscriber, position(), next() split into its three locked steps, blocking next() and
   next_ready() as sequences of those steps), any number of subscribers in any of the three modes, every
   configuration 1 <= min <= max < 2^64 (max = 2^64-1 is "unlimited").  A history over the split steps is a schedule
   of publisher and subscriber threads at lock granularity.
   final_m mn mx ops = what the reference monitor recorded from the model's trace of ops;
   final_e mn mx ops = the model's state after ops.  m_deliv r = (position, value, number published so far)
   triples delivered to subscriber r before its first end of stream, newest first. *)
From Cocls Require Import Base BaseProofs PublisherDefs PublisherProofs PubThreadDefs PubThreadProofs PubOnce.
Local Open Scope Z_scope.

(* the property oracle (run on the implementation's traces by the check) accepts the model's trace of EVERY case *)
Theorem c16_oracle_accepts_model : forall ops, pub_oracle ops (pub_run ops) = true.
Proof. exact oracle_accepts_model. Qed.
Print Assumptions c16_oracle_accepts_model.

(* all_values: the deliveries before the first end of stream are at consecutive positions start+1, start+2, ...
   (no gap, no duplicate, in order) and the value delivered at position p is the p-th published value *)
Theorem c16_contiguous : forall mn mx ops s r, cfg_ok_b mn mx = true ->
  get (m_subs (final_m mn mx ops)) s = Some r -> m_mode r = 0 ->
  forall i p v k, nth_error (m_deliv r) i = Some (p, v, k) ->
  p = m_start r + zlen (m_deliv r) - Z.of_nat i /\ 1 <= p <= zlen (m_log (final_m mn mx ops)) /\
  v = nthz (m_log (final_m mn mx ops)) (p - 1).
Proof. exact contiguous. Qed.
Print Assumptions c16_contiguous.

(* skipping modes: positions strictly increase (each is above every earlier one and above the subscription point),
   the value delivered at position p is the p-th published value, and skip_to_recent delivers the newest one *)
Theorem c16_skip_forward : forall mn mx ops s r, cfg_ok_b mn mx = true ->
  get (m_subs (final_m mn mx ops)) s = Some r -> m_mode r <> 0 ->
  forall i p v k, nth_error (m_deliv r) i = Some (p, v, k) ->
  last_pos (m_start r) (skipn (S i) (m_deliv r)) < p /\ 1 <= p <= k /\ k <= zlen (m_log (final_m mn mx ops)) /\
  v = nthz (m_log (final_m mn mx ops)) (p - 1) /\ (m_mode r = 2 -> p = k).
Proof. exact skip_forward. Qed.
Print Assumptions c16_skip_forward.

(* the first end of stream of a subscriber is legitimate: m_eos_ok is computed by the monitor at that moment as
   kicked \/ lagged more than max behind / subscribed outside the window (m_lost) \/ (closed /\ everything read) *)
Theorem c16_eos_only_when : forall mn mx ops s r, cfg_ok_b mn mx = true ->
  get (m_subs (final_m mn mx ops)) s = Some r -> m_eos r = true -> m_eos_ok r = true.
Proof. exact eos_legitimate. Qed.
Print Assumptions c16_eos_only_when.

(* every wake-up list (publish, batch, close, ~publisher, kick) was exactly the set of awaiters parked at that moment,
   each once; a kicked subscriber never received a value; subscription positions were as specified (recent = number
   published, copy = the original's position) *)
Theorem c16_wakes_exact : forall mn mx ops, cfg_ok_b mn mx = true -> m_bad (final_m mn mx ops) = false.
Proof. exact wakes_exact. Qed.
Print Assumptions c16_wakes_exact.

(* in every state related to the monitor by the invariant, what push_lk would resume (close / publish) is exactly the
   parked awaiters of the live subscribers, without repetition *)
Theorem c16_close_wakes_all : forall e m, Inv e m -> wake_all_ok (m_subs m) (flat_map wake_of (regs (pq e))) = true.
Proof. exact wake_list_exact. Qed.
Print Assumptions c16_close_wakes_all.

(* trimming never removes a value a non-lagging all_values subscriber still needs *)
Theorem c16_window_sufficient : forall mn mx ops s o r, cfg_ok_b mn mx = true -> m_viol (final_m mn mx ops) = false ->
  live_obj (final_e mn mx ops) s = Some o -> get (m_subs (final_m mn mx ops)) s = Some r ->
  m_mode r = 0 -> m_eos r = false -> m_lost r = false ->
  consumed r <= npub (final_m mn mx ops) /\
  npub (final_m mn mx ops) - consumed r <= zlen (qd (pq (final_e mn mx ops))) /\
  npub (final_m mn mx ops) - consumed r <= maxl (pq (final_e mn mx ops)).
Proof. exact window_sufficient. Qed.
Print Assumptions c16_window_sufficient.

(* a copy has its own registration: a next() step of one subscriber leaves every other subscriber's registration
   (position, kicked flag, awaiter) unchanged *)
Theorem c16_copy_independent : forall e m x s o s' o', Inv e m -> free_obj e s = Some o -> live_obj e s' = Some o' ->
  s <> s' -> (x = OReady s \/ x = OSuspend s \/ x = OGet s) ->
  rget (regs (pq (fst (step e x)))) (s_h o') = rget (regs (pq e)) (s_h o').
Proof. exact copy_independent. Qed.
Print Assumptions c16_copy_independent.

(* the simulation invariant is preserved by every locked step from every related pair of states *)
Theorem c16_step_invariant : forall e m x, R e m -> R (fst (step e x)) (mon_step m x (snd (step e x))).
Proof. exact step_R. Qed.
Print Assumptions c16_step_invariant.

(* over a whole run (any history, composite blocking/polled calls included) no awaiter id occurs twice in the wake-up
   lists: nothing is resumed twice; with c16_wakes_exact (each list = exactly the parked awaiters): exactly once *)
Theorem c16_woken_at_most_once : forall mn mx ops, NoDup (wakes (fst (run_from (tst0 mn mx) ops))).
Proof. exact woken_at_most_once. Qed.
Print Assumptions c16_woken_at_most_once.

(* threads: a publisher thread against subscriber threads (blocking next(), coroutines co_awaiting next() that are
   resumed on the waking thread, polling), scheduled at every acquisition of the queue mutex by ANY schedule: the trace
   of locked steps is accepted by the same oracle, i.e. all of the above holds for every interleaving *)
Theorem c16_threads_oracle_accepts_model : forall ops, pubt_oracle ops (pubt_run ops) = true.
Proof. exact threads_oracle_accepts_model. Qed.
Print Assumptions c16_threads_oracle_accepts_model.

(* non-vacuity: two subscribers (one a copy), close in the window of a next(), a parked awaiter woken, values delivered *)
Example c16_nonvacuous :
  let ops := [OSubRecent 0 0; OPub 7; OPub 8; OReady 0; OGet 0; OSubCopy 1 0; OReady 0; OGet 0; OReady 0; OSuspend 0;
              OPub 9; OGet 0; OReady 1; OGet 1; OReady 0; OClose; OSuspend 0; OGet 0] in
  let m := final_m 1 unlimited ops in
  m_viol m = false /\ m_log m = [7; 8; 9] /\
  option_map m_deliv (get (m_subs m) 0%nat) = Some [(3, 9, 3); (2, 8, 2); (1, 7, 2)] /\
  option_map m_eos (get (m_subs m) 0%nat) = Some true /\
  option_map m_deliv (get (m_subs m) 1%nat) = Some [(2, 8, 3)] /\
  option_map m_lost (get (m_subs m) 1%nat) = Some false.
Proof. vm_compute. repeat split; reflexivity. Qed.
