From Cocls Require Import Base PublisherDefs.
Theorem c16_placeholder : True. Proof. exact I. Qed.
Print Assumptions c16_placeholder.
