(* AdaptersStep2C.v — the invariant is preserved by every step of thread 2 whose instruction is in group C
   (generated: the same script for every thread and group; nine files so that the case analyses build in parallel) *)
From Cocls Require Import Base BaseProofs AdaptersDefs AdaptersInv.
Require Import ZifyBool.
Local Open Scope nat_scope.

Lemma inv_step2C c s ins rest : Inv c s -> th2 s = ins :: rest -> gC ins = true -> enabled s 2 = true ->
  Inv c (fst (exec c (set_thr (tick s) 2 rest) 2 ins)).
Proof.
  intros I T0 G E. unfold enabled in E. cbn [thr] in E. rewrite T0 in E.
  destruct I as [I1 I2 I3 I4 I5 I6 I7 I8 I9 I10 I11 I12 Itok Iph IphB Iowc Ip4 Irp Ioht Iocc I13 Ioh Iop0 Idec Iow0 Iow1 Iow2 I14 I15 I16 I17 I18 I19 I20 I21 I22 I23 I24 I25 [I26 I26b] [I27 I27b] I28 I29 I30 I31 I32 I33 I34 I35].
  unfold N, expected, wout in *.
  assert (CV : cv c <= 1) by (unfold cv, b2n; destruct (is_conv c); lia).
  assert (NF1 : nfire s <= 1) by (destruct (slot s); cbn [rdy] in I6; lia).
  assert (CVN : cv c * nfire s <= nfire s) by (unfold cv, b2n; destruct (is_conv c); lia).
  assert (RP1 : b2n (rp c) <= 1) by (destruct (rp c); cbn [b2n]; lia).
  assert (CVN2 : cv c * nfire s <= cv c) by (unfold cv, b2n; destruct (is_conv c); lia).
  rewrite T0 in *.
  (* instruction x shared flags x adapter *)
  destruct ins; cbn [gA gB gC] in G; try discriminate G; unfold exec, fire, deliver.
  all: red1; dflags s; red1.
  all: redch.
  (* a late resolver that was woken without a forwarded promise: the outer future is ready *)
  all: try match goal with T0 : _ = IOWait :: _ |- _ => cbn beta iota in E; destruct (oslot s) eqn:FOS; try discriminate E; redch end.
  all: try (dpay s; red1; dflags s; red1; redch).
  all: try match goal with
       | H : context[outcome_eqb ?r ?e] |- _ =>
           let Q := fresh "Q" in destruct (outcome_eqb r e) eqn:Q; [apply outcome_eqb_eq in Q; subst r|]; redch
       end.
  all: try match goal with g : bool |- _ => destruct g; redch end.
  all: try match goal with who : nat |- _ => destruct who as [|[|[|who]]]; red1 end.
  all: try (specialize (I20 eq_refl); rewrite I20 in *; cbn [isv] in * ).
  all: try (specialize (I22 eq_refl); destruct I22 as [I22 I22b]).
  all: try (specialize (I23 eq_refl)).
  all: try (specialize (I3 eq_refl)).
  all: try match goal with T0 : _ = IDtorP :: _ |- _ => destruct I21 as [I21|I21] end.
  all: try match goal with T0 : _ = IClaim _ :: _ |- _ => try (rewrite I26b in * by lia; cbn [rn] in * ); try (rewrite I27b in * by lia; cbn [rn] in * ) end.
  all: try match goal with T0 : th2 _ = _ |- _ => destruct Iow2 as [Iow2|Iow2]; [first [discriminate Iow2 | inversion Iow2; subst]|]; redch end.
  all: try (unfold hb, cv, is_conv in *; rewrite AD in *; cbn [has_helper b2n Nat.mul] in * ).
  (* one obligation per invariant field: first with the field's own hypothesis and the core counters only, then with everything *)
  all: (constructor; [ (unfold N, expected, wout; red1; try (unfold hb, cv, is_conv; rewrite AD; cbn [has_helper b2n Nat.mul]); redc; rewrite ?outcome_eqb_refl; redc; first [assumption | reflexivity | solve [clear - T0 E CV NF1 CVN CVN2 RP1 I2 I4 I6 I11 I12 Itok Iph IphB I14 I1; fin] | fin]) |
    (unfold N, expected, wout; red1; try (unfold hb, cv, is_conv; rewrite AD; cbn [has_helper b2n Nat.mul]); redc; rewrite ?outcome_eqb_refl; redc; first [assumption | reflexivity | solve [clear - T0 E CV NF1 CVN CVN2 RP1 I2 I4 I6 I11 I12 Itok Iph IphB I14 I2; fin] | fin]) |
    (unfold N, expected, wout; red1; try (unfold hb, cv, is_conv; rewrite AD; cbn [has_helper b2n Nat.mul]); redc; rewrite ?outcome_eqb_refl; redc; first [assumption | reflexivity | solve [clear - T0 E CV NF1 CVN CVN2 RP1 I2 I4 I6 I11 I12 Itok Iph IphB I14 I3; fin] | fin]) |
    (unfold N, expected, wout; red1; try (unfold hb, cv, is_conv; rewrite AD; cbn [has_helper b2n Nat.mul]); redc; rewrite ?outcome_eqb_refl; redc; first [assumption | reflexivity | solve [clear - T0 E CV NF1 CVN CVN2 RP1 I2 I4 I6 I11 I12 Itok Iph IphB I14 I4; fin] | fin]) |
    (unfold N, expected, wout; red1; try (unfold hb, cv, is_conv; rewrite AD; cbn [has_helper b2n Nat.mul]); redc; rewrite ?outcome_eqb_refl; redc; first [assumption | reflexivity | solve [clear - T0 E CV NF1 CVN CVN2 RP1 I2 I4 I6 I11 I12 Itok Iph IphB I14 I5; fin] | fin]) |
    (unfold N, expected, wout; red1; try (unfold hb, cv, is_conv; rewrite AD; cbn [has_helper b2n Nat.mul]); redc; rewrite ?outcome_eqb_refl; redc; first [assumption | reflexivity | solve [clear - T0 E CV NF1 CVN CVN2 RP1 I2 I4 I6 I11 I12 Itok Iph IphB I14 I6; fin] | fin]) |
    (unfold N, expected, wout; red1; try (unfold hb, cv, is_conv; rewrite AD; cbn [has_helper b2n Nat.mul]); redc; rewrite ?outcome_eqb_refl; redc; first [assumption | reflexivity | solve [clear - T0 E CV NF1 CVN CVN2 RP1 I2 I4 I6 I11 I12 Itok Iph IphB I14 I7; fin] | fin]) |
    (unfold N, expected, wout; red1; try (unfold hb, cv, is_conv; rewrite AD; cbn [has_helper b2n Nat.mul]); redc; rewrite ?outcome_eqb_refl; redc; first [assumption | reflexivity | solve [clear - T0 E CV NF1 CVN CVN2 RP1 I2 I4 I6 I11 I12 Itok Iph IphB I14 I8; fin] | fin]) |
    (unfold N, expected, wout; red1; try (unfold hb, cv, is_conv; rewrite AD; cbn [has_helper b2n Nat.mul]); redc; rewrite ?outcome_eqb_refl; redc; first [assumption | reflexivity | solve [clear - T0 E CV NF1 CVN CVN2 RP1 I2 I4 I6 I11 I12 Itok Iph IphB I14 I9; fin] | fin]) |
    (unfold N, expected, wout; red1; try (unfold hb, cv, is_conv; rewrite AD; cbn [has_helper b2n Nat.mul]); redc; rewrite ?outcome_eqb_refl; redc; first [assumption | reflexivity | solve [clear - T0 E CV NF1 CVN CVN2 RP1 I2 I4 I6 I11 I12 Itok Iph IphB I14 I10; fin] | fin]) |
    (unfold N, expected, wout; red1; try (unfold hb, cv, is_conv; rewrite AD; cbn [has_helper b2n Nat.mul]); redc; rewrite ?outcome_eqb_refl; redc; first [assumption | reflexivity | solve [clear - T0 E CV NF1 CVN CVN2 RP1 I2 I4 I6 I11 I12 Itok Iph IphB I14 I11; fin] | fin]) |
    (unfold N, expected, wout; red1; try (unfold hb, cv, is_conv; rewrite AD; cbn [has_helper b2n Nat.mul]); redc; rewrite ?outcome_eqb_refl; redc; first [assumption | reflexivity | solve [clear - T0 E CV NF1 CVN CVN2 RP1 I2 I4 I6 I11 I12 Itok Iph IphB I14 I12; fin] | fin]) |
    (unfold N, expected, wout; red1; try (unfold hb, cv, is_conv; rewrite AD; cbn [has_helper b2n Nat.mul]); redc; rewrite ?outcome_eqb_refl; redc; first [assumption | reflexivity | solve [clear - T0 E CV NF1 CVN CVN2 RP1 I2 I4 I6 I11 I12 Itok Iph IphB I14 Itok; fin] | fin]) |
    (unfold N, expected, wout; red1; try (unfold hb, cv, is_conv; rewrite AD; cbn [has_helper b2n Nat.mul]); redc; rewrite ?outcome_eqb_refl; redc; first [assumption | reflexivity | solve [clear - T0 E CV NF1 CVN CVN2 RP1 I2 I4 I6 I11 I12 Itok Iph IphB I14 Iph; fin] | fin]) |
    (unfold N, expected, wout; red1; try (unfold hb, cv, is_conv; rewrite AD; cbn [has_helper b2n Nat.mul]); redc; rewrite ?outcome_eqb_refl; redc; first [assumption | reflexivity | solve [clear - T0 E CV NF1 CVN CVN2 RP1 I2 I4 I6 I11 I12 Itok Iph IphB I14 IphB; fin] | fin]) |
    (unfold N, expected, wout; red1; try (unfold hb, cv, is_conv; rewrite AD; cbn [has_helper b2n Nat.mul]); redc; rewrite ?outcome_eqb_refl; redc; first [assumption | reflexivity | solve [clear - T0 E CV NF1 CVN CVN2 RP1 I2 I4 I6 I11 I12 Itok Iph IphB I14 Iowc; fin] | fin]) |
    (unfold N, expected, wout; red1; try (unfold hb, cv, is_conv; rewrite AD; cbn [has_helper b2n Nat.mul]); redc; rewrite ?outcome_eqb_refl; redc; first [assumption | reflexivity | solve [clear - T0 E CV NF1 CVN CVN2 RP1 I2 I4 I6 I11 I12 Itok Iph IphB I14 Ip4; fin] | fin]) |
    (unfold N, expected, wout; red1; try (unfold hb, cv, is_conv; rewrite AD; cbn [has_helper b2n Nat.mul]); redc; rewrite ?outcome_eqb_refl; redc; first [assumption | reflexivity | solve [clear - T0 E CV NF1 CVN CVN2 RP1 I2 I4 I6 I11 I12 Itok Iph IphB I14 Irp; fin] | fin]) |
    (unfold N, expected, wout; red1; try (unfold hb, cv, is_conv; rewrite AD; cbn [has_helper b2n Nat.mul]); redc; rewrite ?outcome_eqb_refl; redc; first [assumption | reflexivity | solve [clear - T0 E CV NF1 CVN CVN2 RP1 I2 I4 I6 I11 I12 Itok Iph IphB I14 Ioht; fin] | fin]) |
    (unfold N, expected, wout; red1; try (unfold hb, cv, is_conv; rewrite AD; cbn [has_helper b2n Nat.mul]); redc; rewrite ?outcome_eqb_refl; redc; first [assumption | reflexivity | solve [clear - T0 E CV NF1 CVN CVN2 RP1 I2 I4 I6 I11 I12 Itok Iph IphB I14 Iocc; fin] | fin]) |
    (unfold N, expected, wout; red1; try (unfold hb, cv, is_conv; rewrite AD; cbn [has_helper b2n Nat.mul]); redc; rewrite ?outcome_eqb_refl; redc; first [assumption | reflexivity | solve [clear - T0 E CV NF1 CVN CVN2 RP1 I2 I4 I6 I11 I12 Itok Iph IphB I14 I13; fin] | fin]) |
    (unfold N, expected, wout; red1; try (unfold hb, cv, is_conv; rewrite AD; cbn [has_helper b2n Nat.mul]); redc; rewrite ?outcome_eqb_refl; redc; first [assumption | reflexivity | solve [clear - T0 E CV NF1 CVN CVN2 RP1 I2 I4 I6 I11 I12 Itok Iph IphB I14 Ioh; fin] | fin]) |
    (unfold N, expected, wout; red1; try (unfold hb, cv, is_conv; rewrite AD; cbn [has_helper b2n Nat.mul]); redc; rewrite ?outcome_eqb_refl; redc; first [assumption | reflexivity | solve [clear - T0 E CV NF1 CVN CVN2 RP1 I2 I4 I6 I11 I12 Itok Iph IphB I14 Iop0; fin] | fin]) |
    (unfold N, expected, wout; red1; try (unfold hb, cv, is_conv; rewrite AD; cbn [has_helper b2n Nat.mul]); redc; rewrite ?outcome_eqb_refl; redc; first [assumption | reflexivity | solve [clear - T0 E CV NF1 CVN CVN2 RP1 I2 I4 I6 I11 I12 Itok Iph IphB I14 Idec; fin] | fin]) |
    (unfold N, expected, wout; red1; try (unfold hb, cv, is_conv; rewrite AD; cbn [has_helper b2n Nat.mul]); redc; rewrite ?outcome_eqb_refl; redc; first [assumption | reflexivity | solve [clear - T0 E CV NF1 CVN CVN2 RP1 I2 I4 I6 I11 I12 Itok Iph IphB I14 Iow0; fin] | fin]) |
    (unfold N, expected, wout; red1; try (unfold hb, cv, is_conv; rewrite AD; cbn [has_helper b2n Nat.mul]); redc; rewrite ?outcome_eqb_refl; redc; first [assumption | reflexivity | solve [clear - T0 E CV NF1 CVN CVN2 RP1 I2 I4 I6 I11 I12 Itok Iph IphB I14 Iow1; fin] | fin]) |
    (unfold N, expected, wout; red1; try (unfold hb, cv, is_conv; rewrite AD; cbn [has_helper b2n Nat.mul]); redc; rewrite ?outcome_eqb_refl; redc; first [assumption | reflexivity | solve [clear - T0 E CV NF1 CVN CVN2 RP1 I2 I4 I6 I11 I12 Itok Iph IphB I14 Iow2; fin] | fin]) |
    (unfold N, expected, wout; red1; try (unfold hb, cv, is_conv; rewrite AD; cbn [has_helper b2n Nat.mul]); redc; rewrite ?outcome_eqb_refl; redc; first [assumption | reflexivity | solve [clear - T0 E CV NF1 CVN CVN2 RP1 I2 I4 I6 I11 I12 Itok Iph IphB I14 I14; fin] | fin]) |
    (unfold N, expected, wout; red1; try (unfold hb, cv, is_conv; rewrite AD; cbn [has_helper b2n Nat.mul]); redc; rewrite ?outcome_eqb_refl; redc; first [assumption | reflexivity | solve [clear - T0 E CV NF1 CVN CVN2 RP1 I2 I4 I6 I11 I12 Itok Iph IphB I14 I15; fin] | fin]) |
    (unfold N, expected, wout; red1; try (unfold hb, cv, is_conv; rewrite AD; cbn [has_helper b2n Nat.mul]); redc; rewrite ?outcome_eqb_refl; redc; first [assumption | reflexivity | solve [clear - T0 E CV NF1 CVN CVN2 RP1 I2 I4 I6 I11 I12 Itok Iph IphB I14 I16; fin] | fin]) |
    (unfold N, expected, wout; red1; try (unfold hb, cv, is_conv; rewrite AD; cbn [has_helper b2n Nat.mul]); redc; rewrite ?outcome_eqb_refl; redc; first [assumption | reflexivity | solve [clear - T0 E CV NF1 CVN CVN2 RP1 I2 I4 I6 I11 I12 Itok Iph IphB I14 I17; fin] | fin]) |
    (unfold N, expected, wout; red1; try (unfold hb, cv, is_conv; rewrite AD; cbn [has_helper b2n Nat.mul]); redc; rewrite ?outcome_eqb_refl; redc; first [assumption | reflexivity | solve [clear - T0 E CV NF1 CVN CVN2 RP1 I2 I4 I6 I11 I12 Itok Iph IphB I14 I18; fin] | fin]) |
    (unfold N, expected, wout; red1; try (unfold hb, cv, is_conv; rewrite AD; cbn [has_helper b2n Nat.mul]); redc; rewrite ?outcome_eqb_refl; redc; first [assumption | reflexivity | solve [clear - T0 E CV NF1 CVN CVN2 RP1 I2 I4 I6 I11 I12 Itok Iph IphB I14 I19; fin] | fin]) |
    (unfold N, expected, wout; red1; try (unfold hb, cv, is_conv; rewrite AD; cbn [has_helper b2n Nat.mul]); redc; rewrite ?outcome_eqb_refl; redc; first [assumption | reflexivity | solve [clear - T0 E CV NF1 CVN CVN2 RP1 I2 I4 I6 I11 I12 Itok Iph IphB I14 I20; fin] | fin]) |
    (unfold N, expected, wout; red1; try (unfold hb, cv, is_conv; rewrite AD; cbn [has_helper b2n Nat.mul]); redc; rewrite ?outcome_eqb_refl; redc; first [assumption | reflexivity | solve [clear - T0 E CV NF1 CVN CVN2 RP1 I2 I4 I6 I11 I12 Itok Iph IphB I14 I21; fin] | fin]) |
    (unfold N, expected, wout; red1; try (unfold hb, cv, is_conv; rewrite AD; cbn [has_helper b2n Nat.mul]); redc; rewrite ?outcome_eqb_refl; redc; first [assumption | reflexivity | solve [clear - T0 E CV NF1 CVN CVN2 RP1 I2 I4 I6 I11 I12 Itok Iph IphB I14 I22 I22b; fin] | fin]) |
    (unfold N, expected, wout; red1; try (unfold hb, cv, is_conv; rewrite AD; cbn [has_helper b2n Nat.mul]); redc; rewrite ?outcome_eqb_refl; redc; first [assumption | reflexivity | solve [clear - T0 E CV NF1 CVN CVN2 RP1 I2 I4 I6 I11 I12 Itok Iph IphB I14 I23; fin] | fin]) |
    (unfold N, expected, wout; red1; try (unfold hb, cv, is_conv; rewrite AD; cbn [has_helper b2n Nat.mul]); redc; rewrite ?outcome_eqb_refl; redc; first [assumption | reflexivity | solve [clear - T0 E CV NF1 CVN CVN2 RP1 I2 I4 I6 I11 I12 Itok Iph IphB I14 I24; fin] | fin]) |
    (unfold N, expected, wout; red1; try (unfold hb, cv, is_conv; rewrite AD; cbn [has_helper b2n Nat.mul]); redc; rewrite ?outcome_eqb_refl; redc; first [assumption | reflexivity | solve [clear - T0 E CV NF1 CVN CVN2 RP1 I2 I4 I6 I11 I12 Itok Iph IphB I14 I25; fin] | fin]) |
    (unfold N, expected, wout; red1; try (unfold hb, cv, is_conv; rewrite AD; cbn [has_helper b2n Nat.mul]); redc; rewrite ?outcome_eqb_refl; redc; first [assumption | reflexivity | solve [clear - T0 E CV NF1 CVN CVN2 RP1 I2 I4 I6 I11 I12 Itok Iph IphB I14 I26 I26b; fin] | fin]) |
    (unfold N, expected, wout; red1; try (unfold hb, cv, is_conv; rewrite AD; cbn [has_helper b2n Nat.mul]); redc; rewrite ?outcome_eqb_refl; redc; first [assumption | reflexivity | solve [clear - T0 E CV NF1 CVN CVN2 RP1 I2 I4 I6 I11 I12 Itok Iph IphB I14 I27 I27b; fin] | fin]) |
    (unfold N, expected, wout; red1; try (unfold hb, cv, is_conv; rewrite AD; cbn [has_helper b2n Nat.mul]); redc; rewrite ?outcome_eqb_refl; redc; first [assumption | reflexivity | solve [clear - T0 E CV NF1 CVN CVN2 RP1 I2 I4 I6 I11 I12 Itok Iph IphB I14 I28; fin] | fin]) |
    (unfold N, expected, wout; red1; try (unfold hb, cv, is_conv; rewrite AD; cbn [has_helper b2n Nat.mul]); redc; rewrite ?outcome_eqb_refl; redc; first [assumption | reflexivity | solve [clear - T0 E CV NF1 CVN CVN2 RP1 I2 I4 I6 I11 I12 Itok Iph IphB I14 I29; fin] | fin]) |
    (unfold N, expected, wout; red1; try (unfold hb, cv, is_conv; rewrite AD; cbn [has_helper b2n Nat.mul]); redc; rewrite ?outcome_eqb_refl; redc; first [assumption | reflexivity | solve [clear - T0 E CV NF1 CVN CVN2 RP1 I2 I4 I6 I11 I12 Itok Iph IphB I14 I30; fin] | fin]) |
    (unfold N, expected, wout; red1; try (unfold hb, cv, is_conv; rewrite AD; cbn [has_helper b2n Nat.mul]); redc; rewrite ?outcome_eqb_refl; redc; first [assumption | reflexivity | solve [clear - T0 E CV NF1 CVN CVN2 RP1 I2 I4 I6 I11 I12 Itok Iph IphB I14 I31; fin] | fin]) |
    (unfold N, expected, wout; red1; try (unfold hb, cv, is_conv; rewrite AD; cbn [has_helper b2n Nat.mul]); redc; rewrite ?outcome_eqb_refl; redc; first [assumption | reflexivity | solve [clear - T0 E CV NF1 CVN CVN2 RP1 I2 I4 I6 I11 I12 Itok Iph IphB I14 I32; fin] | fin]) |
    (unfold N, expected, wout; red1; try (unfold hb, cv, is_conv; rewrite AD; cbn [has_helper b2n Nat.mul]); redc; rewrite ?outcome_eqb_refl; redc; first [assumption | reflexivity | solve [clear - T0 E CV NF1 CVN CVN2 RP1 I2 I4 I6 I11 I12 Itok Iph IphB I14 I33; fin] | fin]) |
    (unfold N, expected, wout; red1; try (unfold hb, cv, is_conv; rewrite AD; cbn [has_helper b2n Nat.mul]); redc; rewrite ?outcome_eqb_refl; redc; first [assumption | reflexivity | solve [clear - T0 E CV NF1 CVN CVN2 RP1 I2 I4 I6 I11 I12 Itok Iph IphB I14 I34; fin] | fin]) |
    (unfold N, expected, wout; red1; try (unfold hb, cv, is_conv; rewrite AD; cbn [has_helper b2n Nat.mul]); redc; rewrite ?outcome_eqb_refl; redc; first [assumption | reflexivity | solve [clear - T0 E CV NF1 CVN CVN2 RP1 I2 I4 I6 I11 I12 Itok Iph IphB I14 I35; fin] | fin]) ]).
  (* a declined promise: the outer future completes without a value, which is what the converter's choice means *)
  all: try (intros; cbn [conv_result]; rewrite ?CB; reflexivity).
  all: try (intros; rewrite Iop0 by lia; rewrite Idec by (first [reflexivity | lia]); reflexivity).
  all: try (destruct I21 as [I21|I21]; [left; lia|right; exact I21]).
  (* a converter that forwards the promise exists only in the configuration that has the late resolver *)
  all: try (unfold rp, cv in *; rewrite CB in *; cbn [Nat.eqb] in *; rewrite ?andb_true_r in *; lia).
Qed.
