(* CellProofs.v — invariants of the future/promise cell model, for any number of resolver and
   waiter threads of any kinds and every schedule (induction over reachability). *)
From Cocls Require Import Base BaseProofs CellDefs.
Local Open Scope Z_scope.

Definition T (s : st) (i : nat) : option thr := nth_error (thrs s) i.

Inductive reachable (ops : list (list Z)) : st -> Prop :=
| r_init : reachable ops (init ops)
| r_step s i : reachable ops s -> enabled s i = true -> reachable ops (fst (tstep s i)).

(* ---------- thread-list bookkeeping ---------- *)
Lemma T_set_thr s i t j : (i < length (thrs s))%nat ->
  T (set_thr s i t) j = if Nat.eqb i j then Some t else T s j.
Proof.
  intros L. unfold T, set_thr. cbn [thrs]. destruct (Nat.eqb_spec i j) as [E|E].
  - subst. apply nth_error_set_nth_same. exact L.
  - apply nth_error_set_nth_other. exact E.
Qed.

Lemma T_some_lt s i t : T s i = Some t -> (i < length (thrs s))%nat.
Proof. unfold T. intros H. apply nth_error_Some. congruence. Qed.

Lemma set_nth_length {A} (l : list A) i x : length (set_nth l i x) = length l.
Proof. revert i; induction l as [|y l IH]; intros [|i]; cbn; auto. Qed.

Definition chain (s : st) : list nat := match slot s with SChain l => l | SReady => [] end.

Definition winning (pc : rpc) : bool :=
  match pc with RResolve | RWalk | RDone true | RDtor (Some true) => true | _ => false end.
Definition past_exchange (pc : rpc) : bool := match pc with RWalk | RDone true => true | _ => false end.
(* pcs of a resolver that has already tried to claim and lost *)
Definition lost (pc : rpc) : bool := match pc with RDone false | RDtor (Some false) => true | _ => false end.

(* ---------- C01 invariant ---------- *)
Record Inv1 (s : st) : Prop := {
  i_owner : owner s = true <-> winner s = None;
  i_win_pc : forall i k pc, T s i = Some (TR k pc) -> winning pc = true -> winner s = Some i;
  i_winner : forall i, winner s = Some i -> exists k pc, T s i = Some (TR k pc) /\ winning pc = true /\
                                            payload s = payload_of k ONone;
  i_nowinner : winner s = None -> payload s = ONone /\ slot s <> SReady /\ walk s = [] /\ acc s = [];
  i_lost : forall i k pc, T s i = Some (TR k pc) -> lost pc = true -> owner s = false;
  i_ready : slot s = SReady <-> exists i k pc, winner s = Some i /\ T s i = Some (TR k pc) /\ past_exchange pc = true;
  i_walking : forall i k pc, winner s = Some i -> T s i = Some (TR k pc) -> pc <> RWalk -> walk s = [] /\ acc s = [];
}.

Lemma decode_thr_initial l t : In t (decode_thr l) ->
  (exists k, t = TR k RClaim /\ k <> KDtor) \/ (exists k pc, t = TW k pc false /\ (pc = WStart \/ pc = WReady \/ pc = WSub false None)).
Proof.
  unfold decode_thr. intros H.
  repeat match type of H with
  | In _ (match ?x with _ => _ end) => destruct x; cbn [In] in H; try contradiction
  end;
  destruct H as [ <- | [] ]; try (left; eexists; split; [reflexivity|discriminate]);
    try (right; do 2 eexists; split; [reflexivity|tauto]).
Qed.

Definition initial_thr (t : thr) : Prop :=
  (exists k, t = TR k RClaim) \/ t = TR KDtor RXWait \/
  (exists k pc, t = TW k pc false /\ (pc = WStart \/ pc = WReady \/ pc = WSub false None)).

Lemma init_thrs ops i t : T (init ops) i = Some t -> initial_thr t.
Proof.
  unfold T, init. cbn [thrs]. intros H. apply nth_error_In in H. apply in_app_or in H.
  destruct H as [H|[ <- | [] ]].
  - apply in_flat_map in H. destruct H as (l & _ & H). apply decode_thr_initial in H.
    destruct H as [(k & -> & _)|(k & pc & -> & Q)]; unfold initial_thr; eauto 6.
  - unfold initial_thr; auto.
Qed.

Lemma inv1_init ops : Inv1 (init ops).
Proof.
  constructor; cbn [init owner winner payload slot walk acc chain].
  - tauto.
  - intros i k pc H W. apply init_thrs in H.
    destruct H as [(k' & E)|[E|(k' & pc' & E & _)]]; inversion E; subst; discriminate.
  - discriminate.
  - intros _. repeat split. discriminate.
  - intros i k pc H W. apply init_thrs in H.
    destruct H as [(k' & E)|[E|(k' & pc' & E & _)]]; inversion E; subst; discriminate.
  - split; [discriminate|]. intros (i & k & pc & H & _). discriminate.
  - discriminate.
Qed.

(* ---------- frame lemmas: steps that only touch waiter threads ---------- *)
Definition same_TR (s s' : st) : Prop :=
  forall j k pc, T s' j = Some (TR k pc) <-> T s j = Some (TR k pc).

Lemma inv1_frame s s' :
  Inv1 s -> owner s' = owner s -> winner s' = winner s -> payload s' = payload s ->
  (slot s' = SReady <-> slot s = SReady) -> same_TR s s' ->
  (walk s' = walk s /\ acc s' = acc s \/
   exists i k, winner s = Some i /\ T s i = Some (TR k RWalk)) ->
  Inv1 s'.
Proof.
  intros I EO EW EP ES ET EA. destruct I as [I1 I2 I3 I4 I5 I6 I7].
  constructor.
  - rewrite EO, EW. exact I1.
  - intros i k pc H W. rewrite EW. apply ET in H. eapply I2; eassumption.
  - intros i H. rewrite EW in H. destruct (I3 i H) as (k & pc & A & B & C).
    exists k, pc. rewrite EP. apply ET in A. auto.
  - intros H. rewrite EW in H. destruct (I4 H) as (A & B & C & D). rewrite EP.
    refine (conj A (conj _ _)).
    + intro Q. apply B. apply ES. exact Q.
    + destruct EA as [[-> ->]|(i & k & Wn & _)]; [auto|congruence].
  - intros i k pc H L. rewrite EO. apply ET in H. eapply I5; eassumption.
  - split.
    + intros Q. apply ES in Q. apply I6 in Q. destruct Q as (i & k & pc & A & B & C).
      exists i, k, pc. rewrite EW. refine (conj A (conj _ C)). apply ET. exact B.
    + intros (i & k & pc & A & B & C). apply ES. apply I6. exists i, k, pc. rewrite EW in A.
      refine (conj A (conj _ C)). apply ET. exact B.
  - intros i k pc Wn H NW. rewrite EW in Wn. apply ET in H.
    destruct EA as [[-> ->]|(i' & k' & Wn' & H')].
    + eapply I7; eassumption.
    + assert (i' = i) by congruence. subst. rewrite H in H'. inversion H'. congruence.
Qed.

Lemma same_TR_refl s : same_TR s s.
Proof. intros j k pc. tauto. Qed.

Lemma same_TR_trans a b c : same_TR a b -> same_TR b c -> same_TR a c.
Proof. intros H1 H2 j k pc. split; intros Q; [apply H1, H2, Q|apply H2, H1, Q]. Qed.

(* replacing a waiter thread by a waiter thread keeps all resolver threads *)
Lemma same_TR_set_w s i k pc f k' pc' f' :
  T s i = Some (TW k pc f) -> same_TR s (set_thr s i (TW k' pc' f')).
Proof.
  intros H j kk p. rewrite T_set_thr by (eapply T_some_lt; eassumption).
  destruct (Nat.eqb_spec i j) as [->|N]; [|tauto]. rewrite H. split; discriminate.
Qed.

Lemma same_TR_fields s s' : thrs s' = thrs s -> same_TR s s'.
Proof. intros E j k pc. unfold T. rewrite E. tauto. Qed.

Lemma same_TR_set_nth s s' w k pc f k' pc' f' :
  nth_error (thrs s) w = Some (TW k pc f) -> thrs s' = set_nth (thrs s) w (TW k' pc' f') -> same_TR s s'.
Proof.
  intros E Q j kk p. unfold T. rewrite Q. destruct (Nat.eqb_spec w j) as [->|N].
  - rewrite nth_error_set_nth_same by (apply nth_error_Some; congruence). rewrite E. split; discriminate.
  - rewrite nth_error_set_nth_other by exact N. tauto.
Qed.

Lemma release_node_frame s w :
  let s' := release_node s w in
  owner s' = owner s /\ winner s' = winner s /\ payload s' = payload s /\ slot s' = slot s /\
  walk s' = walk s /\ sublog s' = sublog s /\ same_TR s s' /\ length (thrs s') = length (thrs s).
Proof.
  unfold release_node. destruct (nth_error (thrs s) w) as [[k pc|k pc f]|] eqn:E; cbn zeta;
    try (repeat apply conj; try reflexivity; apply same_TR_refl).
  destruct k; cbn [owner winner payload slot walk sublog thrs];
    repeat apply conj; try reflexivity; try apply set_nth_length; try (apply same_TR_fields; reflexivity);
    (eapply same_TR_set_nth; [exact E|reflexivity]).
Qed.

Lemma resume_all_frame l : forall s,
  let s' := resume_all s l in
  owner s' = owner s /\ winner s' = winner s /\ payload s' = payload s /\ slot s' = slot s /\
  walk s' = walk s /\ acc s' = acc s /\ sublog s' = sublog s /\ same_TR s s' /\ length (thrs s') = length (thrs s).
Proof.
  induction l as [|c l IH]; intros s; cbn [resume_all].
  - repeat apply conj; try reflexivity. apply same_TR_refl.
  - cbn zeta.
    set (s1 := match nth_error (thrs s) c with Some (TW k pc f) => _ | _ => s end).
    assert (owner s1 = owner s /\ winner s1 = winner s /\ payload s1 = payload s /\ slot s1 = slot s /\
            walk s1 = walk s /\ acc s1 = acc s /\ sublog s1 = sublog s /\ same_TR s s1 /\ length (thrs s1) = length (thrs s)) as F.
    { subst s1. destruct (nth_error (thrs s) c) as [[k pc|k pc f]|] eqn:E;
        try (repeat apply conj; try reflexivity; apply same_TR_refl).
      cbn [owner winner payload slot walk acc sublog thrs].
      repeat apply conj; try reflexivity.
      - eapply same_TR_set_nth; [exact E|reflexivity].
      - apply set_nth_length. }
    specialize (IH s1). cbn zeta in IH.
    destruct F as (F1 & F2 & F3 & F4 & F5 & F6 & F7 & F8 & F9).
    destruct IH as (G1 & G2 & G3 & G4 & G5 & G6 & G7 & G8 & G9).
    repeat apply conj; try congruence.
    eapply same_TR_trans; eassumption.
Qed.

(* finish only rewrites waiter threads and logs; the resolver's own pc becomes RDone true and acc is emptied *)
Lemma finish_shape s i k :
  exists th' sb' wl' el',
    finish s i k = set_thr (mkSt (owner s) (slot s) (payload s) (walk s) [] th' (winner s) sb' wl' el') i (TR k (RDone true)) /\
    length th' = length (thrs s) /\
    (forall j k0 pc0, nth_error th' j = Some (TR k0 pc0) <-> T s j = Some (TR k0 pc0)).
Proof.
  unfold finish.
  set (s0 := if is_async k then _ else s).
  assert (S0 : owner s0 = owner s /\ winner s0 = winner s /\ payload s0 = payload s /\ slot s0 = slot s /\
               walk s0 = walk s /\ thrs s0 = thrs s).
  { subst s0. destruct (is_async k); cbn [owner winner payload slot walk thrs]; repeat split. }
  destruct S0 as (A1 & A2 & A3 & A4 & A5 & A6).
  set (l := if pops k then rot_last (acc s) else acc s).
  pose proof (resume_all_frame l s0) as F. cbn zeta in F.
  destruct F as (F1 & F2 & F3 & F4 & F5 & F6 & F7 & F8 & F9).
  exists (thrs (resume_all s0 l)), (sublog (resume_all s0 l)), (wlog (resume_all s0 l)), (elog (resume_all s0 l)).
  split; [|split].
  - rewrite F1, F2, F3, F4, F5, A1, A2, A3, A4, A5. reflexivity.
  - rewrite F9, A6. reflexivity.
  - intros j k0 pc0. split; intros Q.
    + apply F8 in Q. unfold T in *. rewrite A6 in Q. exact Q.
    + apply F8. unfold T in *. rewrite A6. exact Q.
Qed.

(* ---------- Inv1 is preserved by every step ---------- *)
Lemma enabled_T s i : enabled s i = true -> exists t, T s i = Some t.
Proof. unfold enabled, T. destruct (nth_error (thrs s) i); [eauto|discriminate]. Qed.

Ltac tlook L :=
  repeat match goal with
  | H : context[T (set_thr ?s0 ?i ?t) ?j] |- _ => rewrite (T_set_thr s0 i t j L) in H
  | |- context[T (set_thr ?s0 ?i ?t) ?j] => rewrite (T_set_thr s0 i t j L)
  end.

(* a resolver thread i moves from pc to pc' and the global fields change as given *)
Lemma inv1_resolver_step s i k pc pc' o' sl' p' w' a' wn' :
  Inv1 s -> T s i = Some (TR k pc) ->
  let s' := set_thr (mkSt o' sl' p' w' a' (thrs s) wn' (sublog s) (wlog s) (elog s)) i (TR k pc') in
  (* claim succeeded *)
  ((owner s = true /\ o' = false /\ wn' = Some i /\ winning pc' = true /\ past_exchange pc' = false /\
    winning pc = false /\ p' = payload_of k (payload s) /\ sl' = slot s /\ w' = walk s /\ a' = acc s) \/
  (* no global change; winning/lost status of the pc is kept, or a non-claimed pc becomes lost while owner = false *)
   (o' = owner s /\ wn' = winner s /\ p' = payload s /\ sl' = slot s /\ w' = walk s /\ a' = acc s /\
    winning pc' = winning pc /\ past_exchange pc' = past_exchange pc /\ (pc' = RWalk <-> pc = RWalk) /\
    (lost pc' = true -> owner s = false)) \/
  (* the winner performs the exchange or walks *)
   (o' = owner s /\ wn' = winner s /\ p' = payload s /\ winning pc = true /\ winning pc' = true /\ lost pc' = false /\
    sl' = SReady /\ past_exchange pc' = true /\ (slot s = SReady <-> past_exchange pc = true) /\
    (pc' <> RWalk -> w' = [] /\ a' = []))) ->
  Inv1 s'.
Proof.
  intros I H s' C. pose proof (T_some_lt _ _ _ H) as L.
  assert (L' : (i < length (thrs (mkSt o' sl' p' w' a' (thrs s) wn' (sublog s) (wlog s) (elog s))))%nat) by exact L.
  assert (TS : forall j, T s' j = if Nat.eqb i j then Some (TR k pc') else T s j).
  { intros j. unfold s'. rewrite T_set_thr by exact L'. reflexivity. }
  destruct I as [I1 I2 I3 I4 I5 I6 I7].
  assert (FO : owner s' = o') by reflexivity. assert (FW : winner s' = wn') by reflexivity.
  assert (FP : payload s' = p') by reflexivity. assert (FS : slot s' = sl') by reflexivity.
  assert (FK : walk s' = w') by reflexivity. assert (FA : acc s' = a') by reflexivity.
  clearbody s'.
  destruct C as [C|[C|C]].
  - destruct C as (CO & -> & -> & CW & CP & CN & -> & -> & -> & ->).
    assert (WN : winner s = None) by (apply I1; exact CO).
    destruct (I4 WN) as (PN & SN & KN & AN).
    constructor; rewrite ?FO, ?FW, ?FP, ?FS, ?FK, ?FA.
    + split; discriminate.
    + intros j k0 pc0 Hj Wj. rewrite TS in Hj. destruct (Nat.eqb_spec i j) as [->|N]; [reflexivity|].
      pose proof (I2 _ _ _ Hj Wj). congruence.
    + intros j Hj. inversion Hj; subst j. exists k, pc'. rewrite TS, Nat.eqb_refl.
      rewrite PN. auto.
    + discriminate.
    + reflexivity.
    + split.
      * intros Q. contradiction.
      * intros (j & k0 & pc0 & A & B & D). inversion A; subst j. rewrite TS, Nat.eqb_refl in B.
        inversion B; subst. congruence.
    + intros j k0 pc0 A B D. auto.
  - destruct C as (-> & -> & -> & -> & -> & -> & CW & CP & CK & CL).
    constructor; rewrite ?FO, ?FW, ?FP, ?FS, ?FK, ?FA.
    + exact I1.
    + intros j k0 pc0 Hj Wj. rewrite TS in Hj. destruct (Nat.eqb_spec i j) as [->|N].
      * inversion Hj; subst. eapply I2; [exact H|congruence].
      * eapply I2; eassumption.
    + intros j Hj. destruct (I3 j Hj) as (k0 & pc0 & A & B & D).
      destruct (Nat.eq_dec i j) as [->|N].
      * rewrite H in A. inversion A; subst. exists k0, pc'. rewrite TS, Nat.eqb_refl. split; [reflexivity|]. split; [congruence|exact D].
      * exists k0, pc0. rewrite TS. destruct (Nat.eqb_spec i j); [contradiction|auto].
    + exact I4.
    + intros j k0 pc0 Hj Lj. rewrite TS in Hj. destruct (Nat.eqb_spec i j) as [->|N].
      * inversion Hj; subst. auto.
      * eapply I5; eassumption.
    + rewrite I6. split; intros (j & k0 & pc0 & A & B & D).
      * destruct (Nat.eq_dec i j) as [->|N].
        -- rewrite H in B. inversion B; subst. exists j, k0, pc'. rewrite TS, Nat.eqb_refl. split; [exact A|]. split; [reflexivity|congruence].
        -- exists j, k0, pc0. rewrite TS. destruct (Nat.eqb_spec i j); [contradiction|auto].
      * rewrite TS in B. destruct (Nat.eqb_spec i j) as [->|N].
        -- inversion B; subst. exists j, k0, pc. split; [exact A|]. split; [exact H|congruence].
        -- exists j, k0, pc0. auto.
    + intros j k0 pc0 A B D. rewrite TS in B. destruct (Nat.eqb_spec i j) as [->|N].
      * inversion B; subst. eapply I7; [exact A|exact H|]. intro Q. apply D. apply CK. exact Q.
      * eapply I7; eassumption.
  - destruct C as (-> & -> & -> & CW & CW' & CL & -> & CP & CS & CK).
    assert (WI : winner s = Some i) by (eapply I2; eassumption).
    constructor; rewrite ?FO, ?FW, ?FP, ?FS, ?FK, ?FA.
    + exact I1.
    + intros j k0 pc0 Hj Wj. rewrite TS in Hj. destruct (Nat.eqb_spec i j) as [->|N]; [exact WI|].
      eapply I2; eassumption.
    + intros j Hj. assert (j = i) by congruence. subst j. destruct (I3 i Hj) as (k0 & pc0 & A & B & D).
      rewrite H in A. inversion A; subst. exists k0, pc'. rewrite TS, Nat.eqb_refl. auto.
    + intros Q. congruence.
    + intros j k0 pc0 Hj Lj. rewrite TS in Hj. destruct (Nat.eqb_spec i j) as [->|N].
      * inversion Hj; subst. congruence.
      * eapply I5; eassumption.
    + split; [|reflexivity]. intros _. exists i, k, pc'. rewrite TS, Nat.eqb_refl. auto.
    + intros j k0 pc0 A B D. assert (j = i) by congruence. subst j. rewrite TS, Nat.eqb_refl in B.
      inversion B; subst. apply CK. exact D.
Qed.

Lemma inv1_resolver_step_gen s i k pc pc' o' sl' p' w' a' wn' th' sb' wl' el' :
  Inv1 s -> T s i = Some (TR k pc) ->
  length th' = length (thrs s) ->
  (forall j k0 pc0, nth_error th' j = Some (TR k0 pc0) <-> T s j = Some (TR k0 pc0)) ->
  let s' := set_thr (mkSt o' sl' p' w' a' th' wn' sb' wl' el') i (TR k pc') in
  ((owner s = true /\ o' = false /\ wn' = Some i /\ winning pc' = true /\ past_exchange pc' = false /\
    winning pc = false /\ p' = payload_of k (payload s) /\ sl' = slot s /\ w' = walk s /\ a' = acc s) \/
   (o' = owner s /\ wn' = winner s /\ p' = payload s /\ sl' = slot s /\ w' = walk s /\ a' = acc s /\
    winning pc' = winning pc /\ past_exchange pc' = past_exchange pc /\ (pc' = RWalk <-> pc = RWalk) /\
    (lost pc' = true -> owner s = false)) \/
   (o' = owner s /\ wn' = winner s /\ p' = payload s /\ winning pc = true /\ winning pc' = true /\ lost pc' = false /\
    sl' = SReady /\ past_exchange pc' = true /\ (slot s = SReady <-> past_exchange pc = true) /\
    (pc' <> RWalk -> w' = [] /\ a' = []))) ->
  Inv1 s'.
Proof.
  intros I H LEN TH s' C.
  pose proof (inv1_resolver_step s i k pc pc' o' sl' p' w' a' wn' I H C) as IM. cbn zeta in IM.
  set (sM := set_thr (mkSt o' sl' p' w' a' (thrs s) wn' (sublog s) (wlog s) (elog s)) i (TR k pc')) in *.
  pose proof (T_some_lt _ _ _ H) as L.
  eapply (inv1_frame sM s' IM); try reflexivity.
  - intros j k0 pc0. unfold s', sM.
    rewrite !T_set_thr by (cbn [thrs]; lia).
    destruct (Nat.eqb_spec i j) as [->|N]; [tauto|]. unfold T at 1 2. cbn [thrs]. rewrite TH. unfold T. tauto.
  - left. split; reflexivity.
Qed.

Lemma inv1_waiter_step s i k pc f k' pc' f' sl' sb' el' :
  Inv1 s -> T s i = Some (TW k pc f) -> (sl' = SReady <-> slot s = SReady) ->
  Inv1 (set_thr (mkSt (owner s) sl' (payload s) (walk s) (acc s) (thrs s) (winner s) sb' (wlog s) el') i (TW k' pc' f')).
Proof.
  intros I H S. eapply (inv1_frame s _ I); try reflexivity.
  - exact S.
  - intros j kk p. rewrite T_set_thr by (cbn [thrs]; eapply T_some_lt; eassumption).
    destruct (Nat.eqb_spec i j) as [->|N].
    + rewrite H. split; discriminate.
    + unfold T. cbn [thrs]. tauto.
  - left. split; reflexivity.
Qed.

Lemma set_thr_same_fields s i t :
  set_thr s i t = set_thr (mkSt (owner s) (slot s) (payload s) (walk s) (acc s) (thrs s) (winner s) (sublog s) (wlog s) (elog s)) i t.
Proof. reflexivity. Qed.

Ltac fin k := try reflexivity; try discriminate; try (destruct k; reflexivity); try (destruct k; discriminate); auto.

Lemma inv1_step s i : Inv1 s -> enabled s i = true -> Inv1 (fst (tstep s i)).
Proof.
  intros I E. destruct (enabled_T s i E) as (t & Ht). unfold tstep. fold (T s i). rewrite Ht.
  pose proof I as [I1 I2 I3 I4 I5 I6 I7].
  destruct t as [k pc|k pc f].
  - (* resolver *)
    destruct pc as [| |[b|]| | |r].
    + (* claim *)
      destruct (owner s) eqn:O; cbn [fst].
      * eapply (inv1_resolver_step s i k RClaim); [exact I|exact Ht|]. left.
        repeat apply conj; fin k.
      * rewrite set_thr_same_fields. eapply (inv1_resolver_step s i k RClaim); [exact I|exact Ht|]. right. left.
        repeat apply conj; fin k.
    + (* xwait *)
      cbn [fst]. rewrite set_thr_same_fields. eapply (inv1_resolver_step s i k RXWait); [exact I|exact Ht|]. right. left.
      repeat apply conj; fin k.
    + (* private dtor *)
      cbn [fst]. rewrite set_thr_same_fields. eapply (inv1_resolver_step s i k (RDtor (Some b))); [exact I|exact Ht|]. right. left.
      destruct b; repeat apply conj; fin k.
      intros _. eapply I5; [exact Ht|reflexivity].
    + (* shared dtor *)
      destruct (owner s) eqn:O; cbn [fst].
      * eapply (inv1_resolver_step s i k (RDtor None)); [exact I|exact Ht|]. left.
        repeat apply conj; fin k.
      * rewrite set_thr_same_fields. eapply (inv1_resolver_step s i k (RDtor None)); [exact I|exact Ht|]. right. left.
        repeat apply conj; fin k.
    + (* resolve *)
      assert (WI : winner s = Some i) by (eapply I2; [exact Ht|reflexivity]).
      destruct (I7 i k RResolve WI Ht ltac:(discriminate)) as (KW & KA).
      assert (NR : slot s = SReady <-> past_exchange RResolve = true).
      { split; [|discriminate]. intros Q. apply I6 in Q. destruct Q as (j & k0 & pc0 & A & B & D).
        assert (j = i) by congruence. subst. rewrite Ht in B. inversion B; subst. exact D. }
      cbn [fst].
      destruct (match slot s with SChain l => l | SReady => [] end) as [|w0 l0] eqn:EL.
      * match goal with |- Inv1 (finish ?x i k) => destruct (finish_shape x i k) as (th' & sb' & wl' & el' & FE & FL & FT); rewrite FE end.
        cbn [owner slot payload walk winner thrs] in *.
        eapply (inv1_resolver_step_gen s i k RResolve); [exact I|exact Ht|exact FL|exact FT|]. right. right.
        repeat apply conj; try reflexivity; try apply NR; auto.
      * eapply (inv1_resolver_step s i k RResolve); [exact I|exact Ht|]. right. right.
        repeat apply conj; try reflexivity; try apply NR; auto. intros Q. congruence.
    + (* walk *)
      assert (WI : winner s = Some i) by (eapply I2; [exact Ht|reflexivity]).
      assert (SR : slot s = SReady) by (apply I6; exists i, k, RWalk; auto).
      destruct (walk s) as [|w t] eqn:EW; cbn [fst].
      * destruct (finish_shape s i k) as (th' & sb' & wl' & el' & FE & FL & FT). rewrite FE.
        eapply (inv1_resolver_step_gen s i k RWalk); [exact I|exact Ht|exact FL|exact FT|].
        right. right. rewrite EW.
        repeat apply conj; try reflexivity; try exact SR; auto; try tauto.
      * set (s0 := mkSt (owner s) (slot s) (payload s) t (acc s) (thrs s) (winner s) (sublog s) (wlog s) (elog s)).
        pose proof (release_node_frame s0 w) as R. cbn zeta in R.
        destruct R as (R1 & R2 & R3 & R4 & R5 & R6 & R7 & R8).
        assert (S0 : same_TR s s0) by (apply same_TR_fields; reflexivity).
        destruct t as [|w2 t2].
        -- destruct (finish_shape (release_node s0 w) i k) as (th' & sb' & wl' & el' & FE & FL & FT). rewrite FE.
           rewrite R1, R2, R3, R4, R5. cbn [owner slot payload walk winner s0].
           eapply (inv1_resolver_step_gen s i k RWalk); [exact I|exact Ht| | |].
           ++ rewrite FL, R8. reflexivity.
           ++ intros j k0 pc0. split; intros Q.
              ** apply S0, R7, FT. exact Q.
              ** apply FT, R7, S0. exact Q.
           ++ right. right.
              repeat apply conj; try reflexivity; try exact SR; auto; try tauto.
        -- eapply (inv1_frame s _ I); [exact R1|exact R2|exact R3|rewrite R4; reflexivity| |].
           ++ eapply same_TR_trans; eassumption.
           ++ right. exists i, k. auto.
    + unfold enabled in E. fold (T s i) in E. rewrite Ht in E. discriminate.
  - (* waiter *)
    destruct pc as [| |r e| | |o|]; cbn [fst].
    7:{ rewrite set_thr_same_fields. eapply inv1_waiter_step; [exact I|exact Ht|tauto]. }
    + destruct (slot s) eqn:SL; rewrite set_thr_same_fields;
        (eapply inv1_waiter_step; [exact I|exact Ht|rewrite SL; tauto]).
    + destruct (slot s) eqn:SL; rewrite set_thr_same_fields;
        (eapply inv1_waiter_step; [exact I|exact Ht|rewrite SL; tauto]).
    + destruct (slot s) as [l|] eqn:SL.
      * destruct (onat_eqb (head l) e).
        -- eapply inv1_waiter_step; [exact I|exact Ht|]. rewrite SL. split; discriminate.
        -- rewrite set_thr_same_fields. eapply inv1_waiter_step; [exact I|exact Ht|rewrite SL; tauto].
      * rewrite set_thr_same_fields. eapply inv1_waiter_step; [exact I|exact Ht|rewrite SL; tauto].
    + unfold enabled in E. fold (T s i) in E. rewrite Ht in E. discriminate.
    + eapply inv1_waiter_step; [exact I|exact Ht|tauto].
    + unfold enabled in E. fold (T s i) in E. rewrite Ht in E. discriminate.
Qed.

Theorem inv1_reachable ops s : reachable ops s -> Inv1 s.
Proof. induction 1; [apply inv1_init|apply inv1_step; assumption]. Qed.

(* ---------- C01 consequences ---------- *)
Theorem single_winner ops s i j k k' :
  reachable ops s -> T s i = Some (TR k (RDone true)) -> T s j = Some (TR k' (RDone true)) -> i = j.
Proof.
  intros R A B. destruct (inv1_reachable ops s R) as [_ I2 _ _ _ _ _].
  pose proof (I2 _ _ _ A eq_refl). pose proof (I2 _ _ _ B eq_refl). congruence.
Qed.

Theorem success_iff_winner ops s i k r :
  reachable ops s -> T s i = Some (TR k (RDone r)) -> (r = true <-> winner s = Some i).
Proof.
  intros R A. destruct (inv1_reachable ops s R) as [_ I2 I3 _ _ _ _]. split.
  - intros ->. eapply I2; [exact A|reflexivity].
  - intros W. destruct (I3 _ W) as (k0 & pc0 & B & C & _). rewrite A in B. inversion B; subst.
    destruct r; [reflexivity|discriminate].
Qed.

Theorem result_is_winners ops s :
  reachable ops s -> slot s = SReady ->
  exists i k pc, winner s = Some i /\ T s i = Some (TR k pc) /\ payload s = payload_of k ONone.
Proof.
  intros R S. destruct (inv1_reachable ops s R) as [_ _ I3 _ _ I6 _].
  apply I6 in S. destruct S as (i & k & pc & W & A & _).
  destruct (I3 _ W) as (k0 & pc0 & B & _ & P). exists i, k0, pc0. auto.
Qed.

(* a call that lost the claim race changes nothing but its own program counter *)
Theorem loser_leaves_no_trace s i k :
  owner s = false -> T s i = Some (TR k RClaim) ->
  fst (tstep s i) = set_thr s i (TR k (match k with KMove => RDtor (Some false) | _ => RDone false end)).
Proof. intros O A. unfold tstep. fold (T s i). rewrite A, O. reflexivity. Qed.

(* once a winner exists, no step changes winner or payload; readiness is permanent *)
Lemma release_node_slot s w : slot (release_node s w) = slot s /\ payload (release_node s w) = payload s /\ winner (release_node s w) = winner s.
Proof. pose proof (release_node_frame s w) as F. cbn zeta in F. tauto. Qed.

Lemma finish_fields s i k :
  winner (finish s i k) = winner s /\ payload (finish s i k) = payload s /\ slot (finish s i k) = slot s.
Proof.
  destruct (finish_shape s i k) as (th' & sb' & wl' & el' & FE & _ & _). rewrite FE.
  cbn [set_thr winner payload slot]. repeat split.
Qed.

Theorem result_stable ops s i :
  reachable ops s -> winner s <> None -> enabled s i = true ->
  winner (fst (tstep s i)) = winner s /\ payload (fst (tstep s i)) = payload s /\
  (slot s = SReady -> slot (fst (tstep s i)) = SReady).
Proof.
  intros R W E. destruct (inv1_reachable ops s R) as [I1 _ _ _ _ _ _].
  assert (O : owner s = false).
  { destruct (owner s) eqn:O; [|reflexivity]. exfalso. apply W. apply I1. reflexivity. }
  destruct (enabled_T s i E) as (t & Ht). unfold tstep. fold (T s i). rewrite Ht.
  destruct t as [k pc|k pc f].
  - destruct pc as [| |[b|]| | |r]; try (rewrite O; cbn [fst set_thr winner payload slot]; tauto); cbn [fst]; try (cbn [set_thr winner payload slot]; tauto).
    + destruct (match slot s with SChain l => l | SReady => [] end).
      * match goal with |- context[finish ?x i k] => destruct (finish_fields x i k) as (A & B & C) end.
        cbn [fst]. rewrite A, B, C. cbn [winner payload slot]. tauto.
      * cbn [set_thr winner payload slot]. tauto.
    + destruct (walk s) as [|w t].
      * match goal with |- context[finish ?x i k] => destruct (finish_fields x i k) as (A & B & C) end.
        cbn [fst]. rewrite A, B, C. cbn [winner payload slot]. tauto.
      * set (s0 := mkSt (owner s) (slot s) (payload s) t (acc s) (thrs s) (winner s) (sublog s) (wlog s) (elog s)).
        destruct (release_node_slot s0 w) as (R4 & R3 & R2).
        destruct t.
        -- match goal with |- context[finish ?x i k] => destruct (finish_fields x i k) as (A & B & C) end.
           cbn [fst]. rewrite A, B, C. fold s0. rewrite R2, R3, R4. cbn. tauto.
        -- cbn [fst]. fold s0. rewrite R2, R3, R4. cbn. tauto.
  - destruct pc as [| |r e| | |o|]; cbn [fst]; try (destruct (slot s) eqn:SL); try (cbn [set_thr winner payload slot]; repeat split; auto; congruence).
    destruct (onat_eqb (head l) e); cbn [set_thr winner payload slot]; repeat split; auto; congruence.
Qed.
