(* Properties_C20.v — C20: the core synchronisation primitives never allocate.
   Only statements; every proof is `exact <lemma of AllocProofs>`.
   Quantification: any program (op list of any length) over future create / get_promise / await by coroutine,
   blocking thread, callback awaiter / resolve by value, exception, drop, ~promise / destroy; mutex try_lock, lock by
   the three waiter kinds, unlock with hand-over; suspend point variables; generator steps; pause; any number of waiters;
   frames on the heap (heap = true) or in a non-heap storage (heap = false).
   step_clean heap x o  :=  o is the rejection line, or: the step touched no deque memory, allocated and freed nothing for
   suspend points while its suspend point carried <= 3 handles, and allocated exactly the frames the op creates
   (none when heap = false). *)
From Cocls Require Import Base BaseProofs AllocDefs AllocProofs.
Local Open Scope Z_scope.

(* NORMAL mode (ops issued from ordinary code): the statement holds for every program *)
Theorem c20_zero_alloc : forall heap ops,
  Forall2 (step_clean heap) ops (fst (run_from false heap st0 ops)).
Proof. exact zero_alloc_normal. Qed.
Print Assumptions c20_zero_alloc.

(* COROUTINE mode: the statement holds for every program while the ready-queue cursor stays inside the first deque
   node (fewer than 64 enqueues on the thread since the queue was created) *)
Theorem c20_zero_alloc_below_node_boundary : forall heap ops,
  dq_tail (dq (snd (run_from true heap st0 ops))) <= 63 ->
  Forall2 (step_clean heap) ops (fst (run_from true heap st0 ops)).
Proof. exact zero_alloc_below_node_boundary. Qed.
Print Assumptions c20_zero_alloc_below_node_boundary.

(* ... and is FALSE without that restriction: 64 rounds of {new future, take promise, a coroutine awaits it, resolve
   and co_await the returned suspend point, destroy} — every op accepted, never more than one handle in a suspend
   point, 64 frames = 64 frame allocations, and ONE further allocation (the 512-byte deque node at the 64th enqueue).
   The check replays this very program on the real headers (engine alw prints it). *)
Theorem c20_zero_alloc_refuted :
  exists ops, let tr := fst (run_from true true st0 ops) in
    all_accepted tr = true /\ sps_small tr = true /\
    total_fa tr = frames_created ops tr /\ total_fa tr = 64 /\ total_other tr = 1 /\
    al_oracle true (map encode_op ops) (map encode_obs tr) = false.
Proof. exact zero_alloc_refuted. Qed.
Print Assumptions c20_zero_alloc_refuted.

(* the decidable form used on the implementation's traces accepts every model trace in normal mode ... *)
Theorem c20_oracle_sound_normal : forall heap ops, al_oracle heap ops (al_run false heap ops) = true.
Proof. exact oracle_normal. Qed.
Print Assumptions c20_oracle_sound_normal.

(* ... and in coroutine mode below the node boundary *)
Theorem c20_oracle_sound_below_node_boundary : forall heap ops,
  dq_tail (dq (snd (run_from true heap st0 (map decode ops)))) <= 63 ->
  al_oracle heap ops (al_run true heap ops) = true.
Proof. exact oracle_below_node_boundary. Qed.
Print Assumptions c20_oracle_sound_below_node_boundary.

(* suspend point threshold, object level: three handles are free, the fourth allocates one array of six pointers *)
Theorem c20_sp_threshold : forall l : list item, (length l <= 3)%nat ->
  snd (sp_add_all sp_empty l) = c0 /\ sp_flag (fst (sp_add_all sp_empty l)) = false.
Proof. exact sp_threshold_le3. Qed.
Print Assumptions c20_sp_threshold.

Theorem c20_sp_threshold_4th : forall a b c d : item,
  snd (sp_add_all sp_empty [a; b; c]) = c0 /\
  snd (sp_add (fst (sp_add_all sp_empty [a; b; c])) d) = c_alloc 48.
Proof. exact sp_threshold_4th. Qed.
Print Assumptions c20_sp_threshold_4th.

(* ... program level, any reachable state, both modes, any mix of waiters: resolving a future hands back exactly its
   waiting coroutines; no suspend point memory up to three, at least one allocation from the fourth *)
Theorem c20_resolve_threshold : forall coro heap st f kind s v, Inv st ->
  let o := snd (step coro heap st (FResolve f kind 0 s v)) in
  o_st o = 0 ->
  o_sps o = zlen (coro_waiters (f_chain (getf st f))) /\
  (o_sps o <= 3 -> o_csp o = c0) /\ (3 < o_sps o -> 1 <= c_a (o_csp o)).
Proof. exact resolve_threshold. Qed.
Print Assumptions c20_resolve_threshold.

(* frame allocations = coroutines created by accepted ops, in every mode and program; none under a non-heap storage *)
Theorem c20_alloc_equals_frames : forall coro heap ops,
  total_fa (fst (run_from coro heap st0 ops)) =
  if heap then frames_created ops (fst (run_from coro heap st0 ops)) else 0.
Proof. exact alloc_equals_frames. Qed.
Print Assumptions c20_alloc_equals_frames.

(* normal mode, <= 3 handles per suspend point: the frames are all the allocations there are *)
Theorem c20_only_frames_normal : forall heap ops,
  Forall (fun o => o_sps o <= 3) (fst (run_from false heap st0 ops)) ->
  total_other (fst (run_from false heap st0 ops)) = 0.
Proof. exact normal_allocs_are_frames. Qed.
Print Assumptions c20_only_frames_normal.

(* the invariant used above holds in every reachable state *)
Theorem c20_invariant : forall coro heap ops, Inv (snd (run_from coro heap st0 ops)).
Proof. exact reachable_inv. Qed.
Print Assumptions c20_invariant.

(* non-vacuity: a normal-mode program with three kinds of waiters, a contended mutex and a generator reaches
   non-trivial states, every op accepted, and meets the hypotheses of c20_only_frames_normal *)
Example c20_nonvacuous :
  let ops := [FNew 0 0; FGetP 0; FAwaitCoro 0 7 0; FAwaitCoro 0 8 0; FAwaitCoro 0 9 0; FAwaitSync 0 1; FAwaitCb 0 3;
              FResolve 0 0 0 0 42; FDestroy 0; MTry 1; MLockCoro 1 20 0; MLockSync 1 2; MUnlock 1 0 0; MUnlock 1 0 0;
              MUnlock 1 0 0; GNew 0 2; GNext 0 0; GDestroy 0] in
  let tr := fst (run_from false true st0 ops) in
  all_accepted tr = true /\ sps_small tr = true /\ total_fa tr = 5 /\ total_other tr = 0 /\
  o_ev (nth 7 tr rejected) = [(2003, 0, 42); (9, 0, 42); (8, 0, 42); (7, 0, 42); (1001, 0, 42)].
Proof. vm_compute. repeat split; reflexivity. Qed.
