(* Properties_C20.v — C20: the core synchronisation primitives never allocate.
   Only statements; every proof is `exact <lemma of AllocProofs>`.
   Quantification: any program (op list of any length) over future<int|void|int&|move-only> create / get_promise /
   promise move / await by coroutine (started at once, by co_await, or through the ready queue), blocking thread,
   callback awaiter / resolve by value, exception, drop, ~promise, move-assignment of an empty promise, also inside
   coro_queue::create_suspend_point / destroy; mutex try_lock, lock by the three waiter kinds, unlock with hand-over
   (suspend point discarded, co_awaited, kept); suspend point variables; generator steps with and without argument; pause;
   any number of waiters; frames on the heap (heap = true) or in a non-heap storage (heap = false).
   step_clean heap x o  :=  o is the rejection line, or: the op allocated exactly the frames it creates (none when
   heap = false) and, while its suspend point carried <= 3 handles, nothing else was allocated or freed. *)
From Cocls Require Import Base BaseProofs AllocDefs AllocProofs.
Local Open Scope Z_scope.

(* NORMAL mode (ops issued from ordinary code): the statement holds for every program *)
Theorem c20_zero_alloc : forall heap ops,
  Forall2 (step_clean heap) ops (fst (run_from false heap st0 ops)).
Proof. exact zero_alloc_normal. Qed.
Print Assumptions c20_zero_alloc.

(* COROUTINE mode: the statement holds for every program while the ready-queue cursor stays inside the first deque
   node (the queue's finish position never reaches 64 since the queue was created) *)
Theorem c20_zero_alloc_below_node_boundary : forall heap ops,
  dq_hw (dq (snd (run_from true heap st0 ops))) <= 63 ->
  Forall2 (step_clean heap) ops (fst (run_from true heap st0 ops)).
Proof. exact zero_alloc_below_node_boundary. Qed.
Print Assumptions c20_zero_alloc_below_node_boundary.

(* ... and is FALSE without that restriction: 64 rounds of {new future, take promise, a coroutine awaits it, resolve
   and co_await the returned suspend point, destroy} — every op accepted, never more than one handle in a suspend
   point, 64 frames = 64 frame allocations, and ONE further allocation (the 512-byte deque node at the 64th enqueue).
   The check replays this very program on the real headers (engine alw prints it). *)
Theorem c20_zero_alloc_refuted :
  exists ops, let tr := fst (run_from true true st0 ops) in
    all_accepted tr = true /\ sps_small tr = true /\
    total_fa tr = frames_created ops tr /\ total_fa tr = 64 /\ total_other tr = 1 /\
    al_oracle true (map encode_op ops) (map encode_obs tr) = false.
Proof. exact zero_alloc_refuted. Qed.
Print Assumptions c20_zero_alloc_refuted.

(* STRICT form, also beyond three handles: in every mode, state and program the suspend-point memory of an accepted
   step is exactly the budget computed from handle counts alone (arrays for 6, 12, 24, ... handles from the fourth
   handle on, freed when the suspend point is cleared or merged away): nothing else may be allocated *)
Theorem c20_sp_cost_is_budget : forall coro heap st x, Inv coro st ->
  let r := step coro heap st x in
  o_st (snd r) = 0 -> sp_budget (sizes st) x (o_sps (snd r)) = Some (o_csp (snd r), sizes (fst r)).
Proof. exact sp_cost_is_budget. Qed.
Print Assumptions c20_sp_cost_is_budget.

(* the decidable (strict) form used on the implementation's traces accepts every model trace in normal mode
   (create_suspend_point with 64 or more waiting coroutines would touch a second deque node even there) ... *)
Theorem c20_oracle_sound_normal : forall heap ops,
  Forall (fun o => o_sps o <= 63) (fst (run_from false heap st0 (map decode ops))) ->
  al_oracle heap ops (al_run false heap ops) = true.
Proof. exact oracle_normal. Qed.
Print Assumptions c20_oracle_sound_normal.

(* ... and in coroutine mode below the node boundary *)
Theorem c20_oracle_sound_below_node_boundary : forall heap ops,
  dq_hw (dq (snd (run_from true heap st0 (map decode ops)))) <= 63 ->
  al_oracle heap ops (al_run true heap ops) = true.
Proof. exact oracle_below_node_boundary. Qed.
Print Assumptions c20_oracle_sound_below_node_boundary.

(* suspend point threshold, object level: three handles are free, the fourth allocates one array of six pointers *)
Theorem c20_sp_threshold : forall l : list item, (length l <= 3)%nat ->
  snd (sp_add_all sp_empty l) = c0 /\ sp_flag (fst (sp_add_all sp_empty l)) = false.
Proof. exact sp_threshold_le3. Qed.
Print Assumptions c20_sp_threshold.

Theorem c20_sp_threshold_4th : forall a b c d : item,
  snd (sp_add_all sp_empty [a; b; c]) = c0 /\
  snd (sp_add (fst (sp_add_all sp_empty [a; b; c])) d) = c_alloc 48.
Proof. exact sp_threshold_4th. Qed.
Print Assumptions c20_sp_threshold_4th.

(* ... program level, any reachable state, both modes, any mix of waiters: resolving a future hands back exactly its
   waiting coroutines; no suspend point memory up to three, at least one allocation from the fourth *)
Theorem c20_resolve_threshold : forall coro heap st f kind s v, Inv coro st ->
  let o := snd (step coro heap st (FResolve f kind 0 s v)) in
  o_st o = 0 ->
  o_sps o = zlen (coro_waiters (f_chain (getf st f))) /\
  o_csp o = cadd (grow_cost 0 (o_sps o)) (clear_cost (o_sps o)) /\
  (o_sps o <= 3 -> o_csp o = c0) /\ (3 < o_sps o -> 1 <= c_a (o_csp o)).
Proof. exact resolve_threshold. Qed.
Print Assumptions c20_resolve_threshold.

(* frame allocations = coroutines created by accepted ops, in every mode and program; none under a non-heap storage *)
Theorem c20_alloc_equals_frames : forall coro heap ops,
  total_fa (fst (run_from coro heap st0 ops)) =
  if heap then frames_created ops (fst (run_from coro heap st0 ops)) else 0.
Proof. exact alloc_equals_frames. Qed.
Print Assumptions c20_alloc_equals_frames.

Theorem c20_pooled_frames_cost_nothing : forall coro ops,
  total_fa (fst (run_from coro false st0 ops)) = 0 /\ total_ff (fst (run_from coro false st0 ops)) = 0.
Proof. exact pooled_frames_cost_nothing. Qed.
Print Assumptions c20_pooled_frames_cost_nothing.

(* live-frame balance: frames allocated - frames freed = coroutines created and not yet finished + live generators *)
Theorem c20_live_frame_balance : forall coro ops,
  total_fa (fst (run_from coro true st0 ops)) - total_ff (fst (run_from coro true st0 ops)) =
  live (snd (run_from coro true st0 ops)).
Proof. exact live_balance. Qed.
Print Assumptions c20_live_frame_balance.

(* normal mode, <= 3 handles per suspend point: the frames are all the allocations there are *)
Theorem c20_only_frames_normal : forall heap ops,
  Forall (fun o => o_sps o <= 3) (fst (run_from false heap st0 ops)) ->
  total_other (fst (run_from false heap st0 ops)) = 0.
Proof. exact normal_allocs_are_frames. Qed.
Print Assumptions c20_only_frames_normal.

(* the invariant used above holds in every reachable state *)
Theorem c20_invariant : forall coro heap ops, Inv coro (snd (run_from coro heap st0 ops)).
Proof. exact reachable_inv. Qed.
Print Assumptions c20_invariant.

(* non-vacuity: a normal-mode program with three kinds of waiters, a contended mutex and a generator reaches
   non-trivial states, every op accepted, and meets the hypotheses of c20_only_frames_normal; a coroutine-mode program
   with queued starts, create_suspend_point and seven waiting coroutines pays exactly the documented arrays *)
Example c20_nonvacuous :
  let ops := [FNew 0 3; FGetP 0; PMove 0; FAwaitCoro 0 7 0; FAwaitCoro 0 8 0; FAwaitCoro 0 9 0; FAwaitSync 0 1; FAwaitCb 0 3;
              FResolve 0 0 10 0 42; FDestroy 0; MTry 1; MLockCoro 1 20 0; MLockSync 1 2; MUnlock 1 0 0; MUnlock 1 0 0;
              MUnlock 1 0 0; GNew 0 2 1; GNext 0 0 5; GDestroy 0] in
  let tr := fst (run_from false true st0 ops) in
  all_accepted tr = true /\ sps_small tr = true /\ total_fa tr = 5 /\ total_ff tr = 5 /\ total_other tr = 0 /\
  o_ev (nth 8 tr rejected) = [(2003, 0, 42); (7, 0, 42); (8, 0, 42); (9, 0, 42); (1001, 0, 42)] /\
  o_res (nth 17 tr rejected) = 5001.
Proof. vm_compute. repeat split; reflexivity. Qed.

Example c20_nonvacuous_coro :
  let ops := [FNew 0 0; FGetP 0] ++ map (fun w => FAwaitCoro 0 w 2) [1; 2; 3; 4; 5; 6; 7] ++ [Pause; FResolve 0 0 12 1 9; SpFlush 1 1] in
  let tr := fst (run_from true true st0 ops) in
  all_accepted tr = true /\ o_sps (nth 10 tr rejected) = 7 /\
  o_csp (nth 10 tr rejected) = mkCost 6 432 5 336 /\ o_csp (nth 11 tr rejected) = mkCost 0 0 1 96 /\
  total_fa tr - total_ff tr = 0 /\ dq_hw (dq (snd (run_from true true st0 ops))) = 15.
Proof. vm_compute. repeat split; reflexivity. Qed.
