(* SharedProofs2.v — progress invariant (nobody is left waiting for the creator), terminal states, and the
   run-level consequences of the invariants of SharedProofs.v *)
From Cocls Require Import Base BaseProofs SharedDefs SharedProofs.
Local Open Scope nat_scope.

Definition nw (s : st) : bool := existsb is_wait0 (users s).
Definition rdone (s : st) : bool := match rpcf s with RDone _ => true | _ => false end.

Record Prog (s : st) : Prop := {
  (* the promise reaches the resolver: at the latest when the creator leaves charge() *)
  e1 : match cpcf s with
       | CClaim | CGate1 | CGate2 => True
       | CDtor | CSet | CSub _ _ | CClr | CGiveE => is_late (mode s) = true \/ pavail s = true
       | _ => pavail s = true \/ rdone s = true
       end;
  (* every user got its handle before the creator drops its own *)
  e2 : match cpcf s with CDrop _ | CDone => nw s = false | _ => True end
}.

Lemma nw_set_nth l : forall j u', is_wait0 u' = false -> existsb is_wait0 l = false ->
  existsb is_wait0 (set_nth l j u') = false.
Proof.
  induction l as [|x l IH]; intros [|j] u' H E; cbn [set_nth existsb] in *; auto.
  - apply orb_false_iff in E. destruct E as (_ & E). rewrite H, E. reflexivity.
  - apply orb_false_iff in E. destruct E as (E1 & E2). rewrite E1, (IH j u' H E2). reflexivity.
Qed.

Lemma existsb_false_nth {A} (f : A -> bool) l : forall n x, existsb f l = false -> nth_error l n = Some x -> f x = false.
Proof.
  induction l as [|y l IH]; intros [|n] x E H; cbn [nth_error existsb] in *; try discriminate;
    apply orb_false_iff in E; destruct E as (E1 & E2).
  - inversion H; subst. exact E1.
  - eapply IH; eassumption.
Qed.

(* frame of the counter operations *)
Lemma drop_ref_frame s :
  cpcf (drop_ref s) = cpcf s /\ rpcf (drop_ref s) = rpcf s /\ mode (drop_ref s) = mode s /\ rk (drop_ref s) = rk s /\
  pavail (drop_ref s) = pavail s /\ users (drop_ref s) = users s /\ slot (drop_ref s) = slot s /\
  payload (drop_ref s) = payload s /\ walk (drop_ref s) = walk s /\ acc (drop_ref s) = acc s.
Proof.
  unfold drop_ref, touch. destruct (freed s); cbn; destruct (rc s) as [|[|?]]; cbn; repeat split.
Qed.
Lemma touch_frame s :
  cpcf (touch s) = cpcf s /\ rpcf (touch s) = rpcf s /\ mode (touch s) = mode s /\ rk (touch s) = rk s /\
  pavail (touch s) = pavail s /\ users (touch s) = users s /\ slot (touch s) = slot s /\
  payload (touch s) = payload s /\ walk (touch s) = walk s /\ acc (touch s) = acc s.
Proof. unfold touch. destruct (freed s); cbn; repeat split. Qed.
Lemma add_ref_frame s :
  cpcf (add_ref s) = cpcf s /\ rpcf (add_ref s) = rpcf s /\ mode (add_ref s) = mode s /\ rk (add_ref s) = rk s /\
  pavail (add_ref s) = pavail s /\ users (add_ref s) = users s /\ slot (add_ref s) = slot s /\
  payload (add_ref s) = payload s /\ walk (add_ref s) = walk s /\ acc (add_ref s) = acc s.
Proof. unfold add_ref, touch. destruct (freed s); cbn; repeat split. Qed.

Ltac frame_of x lem f :=
  let F := fresh "F" in pose proof (lem x) as F;
  destruct F as (?F & ?F & ?F & ?F & ?F & ?F & ?F & ?F & ?F & ?F);
  let d := fresh "d" in set (d := f x) in *; clearbody d.
Ltac frames :=
  repeat match goal with
  | |- context[drop_ref ?x] => frame_of x drop_ref_frame drop_ref
  | _ : context[drop_ref ?x] |- _ => frame_of x drop_ref_frame drop_ref
  | |- context[touch ?x] => frame_of x touch_frame touch
  | _ : context[touch ?x] |- _ => frame_of x touch_frame touch
  | |- context[add_ref ?x] => frame_of x add_ref_frame add_ref
  | _ : context[add_ref ?x] |- _ => frame_of x add_ref_frame add_ref
  end.

(* a step of the resolver or of a user keeps the creator's pc, the mode, never removes the promise and never
   puts a user back to "no handle yet" *)
Definition keeps (s s' : st) : Prop :=
  cpcf s' = cpcf s /\ mode s' = mode s /\ rk s' = rk s /\ (pavail s = true -> pavail s' = true) /\
  (nw s = false -> nw s' = false) /\ (rdone s = true -> rdone s' = true).

Lemma keeps_refl s : keeps s s.
Proof. unfold keeps. tauto. Qed.
Lemma keeps_trans a b c : keeps a b -> keeps b c -> keeps a c.
Proof. unfold keeps. intros (A1 & A2 & A3 & A4 & A5 & A6) (B1 & B2 & B3 & B4 & B5 & B6). repeat split; try congruence; auto. Qed.

Lemma keeps_finish_user s w : keeps s (finish_user s w).
Proof.
  unfold finish_user. destruct (nth_error (users s) w) as [u|] eqn:H; [|apply keeps_refl].
  frames. unfold keeps, nw, rdone. simp_st. rew_hyps. simp_st. rew_hyps. repeat split; auto.
  intros Q. apply nw_set_nth; [reflexivity|exact Q].
Qed.

Lemma keeps_resume_all l : forall s, keeps s (resume_all s l).
Proof.
  induction l as [|c t IH]; intros s; cbn [resume_all]; [apply keeps_refl|].
  eapply keeps_trans; [apply keeps_finish_user|apply IH].
Qed.

Lemma keeps_finish s : keeps s (finish s).
Proof.
  unfold finish. pose proof (keeps_resume_all (acc s) s) as K. set (s1 := resume_all s (acc s)) in *. clearbody s1.
  unfold keeps, nw, rdone in *. simp_st. destruct K as (K1 & K2 & K3 & K4 & K5 & K6). repeat split; auto.
Qed.

Lemma keeps_mf s : keeps s (maybe_finish s).
Proof. unfold maybe_finish. destruct (walk s); [apply keeps_finish|apply keeps_refl]. Qed.

Lemma keeps_release s w : keeps s (release_node s w).
Proof.
  unfold release_node. destruct (nth_error (users s) w) as [u|] eqn:H; [|apply keeps_refl].
  destruct (ukd u) as [| |[| |]]; try apply keeps_finish_user;
    unfold keeps, nw, rdone; simp_st; repeat split; auto; intros Q; apply nw_set_nth; auto;
    pose proof (existsb_false_nth is_wait0 _ _ _ Q H) as Z; unfold is_wait0 in *; cbn [upcf]; exact Z.
Qed.

Lemma keeps_rstep s : rdone s = false -> keeps s (fst (rstep s)) .
Proof.
  intros RD. unfold rstep, rdone in *. destruct (rpcf s) eqn:RP; try discriminate; cbn [fst].
  - unfold keeps, nw, rdone; simp_st; rewrite RP; repeat split; auto; discriminate.
  - frames. unfold keeps, nw, rdone. simp_st. rew_hyps. rewrite ?RP. repeat split; auto; discriminate.
  - eapply keeps_trans; [|apply keeps_mf]. frames. unfold keeps, nw, rdone. simp_st. rew_hyps. rewrite ?RP. repeat split; auto; discriminate.
  - destruct (walk s) as [|[|w] t]; [apply keeps_mf| |].
    + frames. unfold keeps, nw, rdone. simp_st. rew_hyps. rewrite ?RP. repeat split; auto; discriminate.
    + eapply keeps_trans; [|apply keeps_mf]. eapply keeps_trans; [|apply keeps_release].
      unfold keeps, nw, rdone. simp_st. tauto.
  - eapply keeps_trans; [|apply keeps_mf]. frames. unfold keeps, nw, rdone. simp_st. rew_hyps. simp_st. rew_hyps. rewrite ?RP. repeat split; auto; discriminate.
  - unfold keeps, nw, rdone; simp_st; rewrite RP; repeat split; auto; discriminate.
  - unfold keeps, nw, rdone; simp_st; rewrite RP; repeat split; auto; discriminate.
  - frames. unfold keeps, nw, rdone. simp_st. rew_hyps. rewrite ?RP. repeat split; auto; discriminate.
Qed.

Lemma keeps_ustep s j : keeps s (fst (ustep s j)).
Proof.
  unfold ustep. destruct (nth_error (users s) j) as [u|] eqn:H; [|apply keeps_refl].
  destruct (upcf u) eqn:PC; cbn [fst]; try apply keeps_refl; try apply keeps_finish_user.
  all: try (frames; unfold keeps, nw, rdone; simp_st; rew_hyps; simp_st; rew_hyps; repeat split; auto;
            intros Q; apply nw_set_nth; [|exact Q]; unfold is_wait0; cbn [upcf set_upc];
            try reflexivity; destruct (ucp u), (ukd u); reflexivity).
  - (* UReady *)
    frames. destruct (ukd u) eqn:KD.
    1,2: unfold keeps, nw, rdone; simp_st; rew_hyps; repeat split; auto; intros Q; apply nw_set_nth; [reflexivity|exact Q].
    destruct (slot d) eqn:SL.
    + unfold keeps, nw, rdone; simp_st; rew_hyps; repeat split; auto; intros Q; apply nw_set_nth; [reflexivity|exact Q].
    + eapply keeps_trans; [|apply keeps_finish_user]. unfold keeps, nw, rdone. rew_hyps. tauto.
  - (* USub *)
    frames. destruct (slot d) as [l|] eqn:SL.
    + destruct (onode_eqb (head l) exp);
      unfold keeps, nw, rdone; simp_st; rew_hyps; repeat split; auto; intros Q; apply nw_set_nth; try exact Q;
      unfold is_wait0; cbn [upcf set_upc]; try reflexivity. destruct (ukd u) as [| |[| |]]; reflexivity.
    + eapply keeps_trans; [|apply keeps_finish_user]. unfold keeps, nw, rdone. rew_hyps. tauto.
Qed.

Lemma prog_keeps s s' : Prog s -> keeps s s' -> Prog s'.
Proof.
  intros [E1 E2] (K1 & K2 & K3 & K4 & K5 & K6). constructor; rewrite K1, ?K2.
  - destruct (cpcf s); auto; intuition.
  - destruct (cpcf s); auto.
Qed.

Lemma prog_init ops : Prog (init ops).
Proof.
  unfold init. constructor; unfold nw, rdone, init_cpc, next_give, next_early; simp_st;
    destruct (mode_of ops); cbn; auto; try (destruct (existsb is_early (flat_map decode_user ops)); cbn; auto);
    destruct (existsb is_wait0 (flat_map decode_user ops)) eqn:X; cbn; auto.
Qed.

Lemma prog_cstep s : Prog s -> Prog (fst (cstep s)).
Proof.
  intros [E1 E2]. unfold cstep. destruct (cpcf s) eqn:C; cbn [fst].
  - destruct (mode s) eqn:M; constructor; unfold nw, rdone; simp_st; auto.
  - destruct (mode s) eqn:M; try (constructor; unfold nw, rdone; simp_st; rewrite ?M; auto; fail).
    all: frames; destruct (slot d);
      [constructor; unfold nw, rdone; simp_st; rew_hyps; auto
      |constructor; unfold nw, rdone, next_give; simp_st; rew_hyps; destruct (existsb is_wait0 (users s)) eqn:X; cbn; auto;
        destruct E1 as [Q|Q]; try discriminate; auto].
  - frames. constructor; unfold nw, rdone; simp_st; rew_hyps; auto.
  - frames. destruct (slot d) as [l|].
    + destruct (onode_eqb (head l) exp).
      * constructor; unfold after_charge, nw, rdone, next_give; simp_st; rew_hyps;
          destruct (existsb is_wait0 (users s)) eqn:X; cbn; auto; left; destruct E1 as [->| ->]; auto; apply orb_true_r.
      * constructor; unfold nw, rdone; simp_st; rew_hyps; auto.
    + constructor; unfold nw, rdone; simp_st; rew_hyps; auto.
  - frames. constructor; unfold after_charge, nw, rdone, next_give; simp_st; rew_hyps; simp_st; rew_hyps;
      destruct (existsb is_wait0 (users s)) eqn:X; cbn; auto; left; destruct E1 as [->| ->]; auto; apply orb_true_r.
  - destruct (give (users s)) as [us|] eqn:G.
    + frames. constructor; unfold nw, rdone, next_give; simp_st; rew_hyps;
        destruct (existsb is_wait0 us) eqn:X; cbn; auto.
    + constructor; unfold nw, rdone; simp_st; auto. apply give_none. exact G.
  - frames. constructor; unfold nw, rdone in *; simp_st; rew_hyps.
    + destruct k as [|[|k]]; auto.
    + destruct k as [|[|k]]; auto.
  - constructor; rewrite C; auto.
  - constructor; unfold nw, rdone; simp_st; auto.
  - constructor; unfold nw, rdone; simp_st; auto.
  - destruct (give_early (users s)) as [us|] eqn:G.
    + frames. constructor; unfold nw, rdone, next_early; simp_st; rew_hyps; destruct (existsb is_early us); cbn; auto.
    + constructor; unfold nw, rdone; simp_st; auto.
Qed.

Theorem prog_step s i : Prog s -> enabled s i = true -> Prog (fst (tstep s i)).
Proof.
  intros P E. destruct i as [|[|j]]; cbn [tstep].
  - apply prog_cstep. exact P.
  - eapply prog_keeps; [exact P|]. apply keeps_rstep. cbn [enabled] in E. unfold rdone. destruct (rpcf s); auto; discriminate.
  - eapply prog_keeps; [exact P|]. apply keeps_ustep.
Qed.

Theorem prog_reachable ops s : reachable ops s -> Prog s.
Proof. induction 1; [apply prog_init|apply prog_step; assumption]. Qed.

(* ---------- terminal states ---------- *)
Definition terminal (s : st) : Prop := forall i, enabled s i = false.

Lemma sumu_all_done l : (forall j u, nth_error l j = Some u -> upcf u = UDone) -> sumu l = 0.
Proof.
  induction l as [|x l IH]; intros H; [reflexivity|]. rewrite sumu_cons, IH.
  - rewrite (H 0 x eq_refl). reflexivity.
  - intros j u Q. apply (H (S j) u Q).
Qed.

Theorem terminal_all_done ops s : reachable ops s -> terminal s ->
  cpcf s = CDone /\ rdone s = true /\ (forall j u, nth_error (users s) j = Some u -> upcf u = UDone) /\
  freed s = 1 /\ pdtor s = pctor s /\ rc s = 0 /\ selfref s = false /\ walk s = [] /\ acc s = [] /\ slot s = SReady.
Proof.
  intros R TM. destruct (inv_reachable ops s R) as [IA OC]. destruct (prog_reachable ops s R) as [E1 E2].
  assert (C : cpcf s = CDone). { specialize (TM 0). cbn [enabled] in TM. destruct (cpcf s); congruence. }
  rewrite C in *.
  assert (RD : rdone s = true).
  { specialize (TM 1). cbn [enabled] in TM. unfold rdone in *. destruct (rpcf s); try congruence.
    destruct E1 as [Q|Q]; congruence. }
  pose proof (rs_ok s IA) as RS. unfold rdone in RD. destruct (rpcf s) eqn:RP; try discriminate.
  destruct RS as (RY & WK & AC).
  assert (SL : slot s = SReady) by (unfold is_ready in RY; destruct (slot s); congruence).
  assert (UD : forall j u, nth_error (users s) j = Some u -> upcf u = UDone).
  { intros j u H. specialize (TM (S (S j))). cbn [enabled] in TM. rewrite H in TM.
    specialize (OC j). unfold occ, chain, inl in OC. rewrite SL, WK, AC, H in OC. rewrite !cnt_nil, cntn_nil in OC.
    unfold inlist in OC. pose proof (existsb_false_nth is_wait0 _ _ _ E2 H) as W0. unfold is_wait0 in W0.
    destruct (upcf u); try discriminate; try reflexivity. rewrite TM in OC. discriminate. }
  pose proof (tr_ok s IA) as TR. rewrite C in TR. unfold tcount, chain in TR. rewrite SL, WK, RP in TR.
  rewrite !cnt_nil in TR. destruct TR as (TC & _).
  assert (SR : selfref s = false) by (destruct (selfref s); [discriminate|reflexivity]).
  assert (NH : nh s = 0) by (unfold nh; rewrite C, (sumu_all_done _ UD); reflexivity).
  destruct (fr_ok s IA) as (F1 & F2). pose proof (rc_ok s IA) as RC.
  assert (FR : freed s = 1).
  { destruct (freed s) as [|[|n]]; [|reflexivity|lia]. destruct (RC eq_refl) as (Q1 & Q2). rewrite NH, SR in Q1. cbn in Q1. lia. }
  destruct (F2 FR) as (Z1 & Z2 & Z3). destruct (pd_ok s IA) as (P1 & P2). rewrite FR in P2.
  assert (pdtor s = pctor s) by lia.
  assert (rdone s = true) by (unfold rdone; rewrite RP; reflexivity).
  repeat split; assumption.
Qed.

(* ---------- consequences of the invariant ---------- *)
Theorem alive_until_resolved ops s : reachable ops s -> 1 <= freed s -> slot s = SReady.
Proof.
  intros R F. destruct (inv_reachable ops s R) as [IA _].
  destruct (is_ready s) eqn:RY; [unfold is_ready in RY; destruct (slot s); congruence|].
  destruct (alive_pending s IA RY). lia.
Qed.

Theorem freed_at_most_once ops s : reachable ops s ->
  freed s <= 1 /\ pctor s <= 1 /\ pdtor s <= pctor s /\ (freed s = 0 -> pdtor s = 0).
Proof.
  intros R. destruct (inv_reachable ops s R) as [IA _]. destruct (fr_ok s IA) as (F & _). destruct (pd_ok s IA) as (P1 & P2).
  repeat split; auto.
  - rewrite P2. destruct (freed s) as [|[|n]]; lia.
  - intros Z. rewrite P2, Z. reflexivity.
Qed.

Theorem no_access_after_free ops s : reachable ops s -> uaf s = 0.
Proof. intros R. destruct (inv_reachable ops s R) as [IA _]. exact (uaf_ok s IA). Qed.


(* ---------- the executable runner only visits reachable states ---------- *)
Lemma enabled_list_In s n : forall from i, In i (enabled_list s n from) -> enabled s i = true.
Proof.
  induction n as [|n IH]; intros from i H; cbn [enabled_list] in H; [contradiction|].
  apply in_app_or in H. destruct H as [H|H].
  - destruct (enabled s from) eqn:E; [|contradiction]. destruct H as [<-|[]]. exact E.
  - eapply IH. exact H.
Qed.

Lemma run_sched_reachable ops fuel : forall s sched tr,
  reachable ops s -> reachable ops (fst (run_sched fuel s sched tr)).
Proof.
  induction fuel as [|f IH]; intros s sched tr R; cbn [run_sched]; [exact R|].
  destruct (all_enabled s) as [|e0 en] eqn:EN; [exact R|].
  set (k := match sched with [] => 0%Z | x :: _ => Z.abs x end).
  set (i := nth (Z.to_nat (k mod zlen (e0 :: en))) (e0 :: en) 0).
  assert (In i (e0 :: en)) as HI.
  { apply nth_In. unfold zlen. assert (0 < Z.of_nat (length (e0 :: en)))%Z by (cbn [length]; lia).
    pose proof (Z.mod_pos_bound k _ H). lia. }
  rewrite <- EN in HI. apply enabled_list_In in HI.
  destruct (tstep s i) as [s1 p] eqn:TS. apply IH.
  replace s1 with (fst (tstep s i)) by (rewrite TS; reflexivity). apply r_step; assumption.
Qed.

Theorem final_state_reachable ops : reachable ops (fst (final_state ops)).
Proof. unfold final_state. apply run_sched_reachable. apply r_init. Qed.

Theorem counter_is_handles_plus_selfref ops s : reachable ops s -> freed s = 0 ->
  rc s = nh s + b2n (selfref s) /\ 1 <= rc s.
Proof. intros R. exact (rc_ok s (proj1 (inv_reachable ops s R))). Qed.

Theorem selfref_exactly_while_pending ops s : reachable ops s ->
  match cpcf s with
  | CGive | CDrop _ | CDone => tcount s = b2n (selfref s) /\ (is_ready s = true \/ selfref s = true)
  | _ => True
  end.
Proof.
  intros R. pose proof (tr_ok s (proj1 (inv_reachable ops s R))) as T. destruct (cpcf s); auto.
Qed.

Theorem awaiters_linked_once ops s w : reachable ops s -> occ s w = inl (users s) w.
Proof. intros R. exact (proj2 (inv_reachable ops s R) w). Qed.
