(* Properties_C08.v — C08: coroutine mutex, FIFO hand-off and no lost request.
   Statements only; proofs are `exact <lemma of MutexProofs>`.  Same model and vocabulary as Properties_C07. *)
From Cocls Require Import Base BaseProofs MutexDefs MutexProofs MutexSched MutexObs.
From Cocls Require MutexOwnDefs MutexOwnProofs.
Local Open Scope Z_scope.

(* first come, first served: the grants are a prefix of the publishing CASes; the pending requests are, in
   arrival order, the chain in mutex::_queue followed by the reversed chain in mutex::_requests (down to the
   doorman, or to the request of an owner that found the mutex free) *)
Theorem c08_fifo : forall ops s, reachable ops s ->
  exists stack fifo_q b,
    repr (next s) (requests s) stack b /\ repr (next s) (queue s) fifo_q PNull /\
    (b = PNull /\ stack = [] \/ b = PDoor \/ exists o, b = PNode o /\ holds s o /\ gnext s o = PNull /\ fifo_q = []) /\
    alog s = glog s ++ fifo_q ++ rev stack.
Proof. exact fifo. Qed.
Print Assumptions c08_fifo.

(* direct hand-off: while any request is pending the mutex is never free and always has an owner other than
   the waiter — a release with waiters never stores null *)
Theorem c08_direct_handoff : forall ops s w, reachable ops s -> waiting s w ->
  requests s <> PNull /\ exists o, holds s o /\ o <> w.
Proof. exact direct_handoff. Qed.
Print Assumptions c08_direct_handoff.

(* no lost request: once no ownership is outstanding every published request has been granted, nothing is
   waiting, and the mutex is free again (requests = null, queue = null) *)
Theorem c08_no_lost_request : forall ops s, reachable ops s -> (forall c, ~ holds s c) ->
  requests s = PNull /\ queue s = PNull /\ alog s = glog s /\ forall w, ~ waiting s w.
Proof. exact no_lost_request. Qed.
Print Assumptions c08_no_lost_request.

(* try_lock: one step, succeeds exactly when nobody owns the mutex, and a failed try publishes nothing *)
Theorem c08_try_lock : forall ops s t c, reachable ops s -> run (gthr s t) = TRun c ->
  tpc (gtask s c) = PTry -> cacq (gtask s c) = ATry ->
  let s' := fst (fst (tstep s t)) in
  ((forall o, ~ holds s o) -> holds s' c /\ requests s' = PDoor /\ alog s' = alog s) /\
  ((exists o, holds s o) -> s' = set_task s c (t_endround (gtask s c) true) /\ ~ holds s' c /\ ~ waiting s' c).
Proof. exact try_lock. Qed.
Print Assumptions c08_try_lock.

(* deadlock freedom: while any declared contender is unfinished, some OS thread has an enabled step
   (its owner can run and release; a granted coroutine sits in the ready queue of a thread that is not blocked) *)
Theorem c08_no_stuck_state : forall ops s c, reachable ops s -> (c < length (tasks s))%nat -> tpc (gtask s c) <> PDone ->
  exists t, enabled s t = true.
Proof. exact no_stuck_state. Qed.
Print Assumptions c08_no_stuck_state.

(* hence a run can only stop when every contender finished all its rounds, and then the mutex is free again and
   every published request was granted *)
Theorem c08_terminal_all_done : forall ops s, reachable ops s -> (forall t, enabled s t = false) ->
  (forall c, tpc (gtask s c) = PDone) /\ requests s = PNull /\ queue s = PNull /\ alog s = glog s.
Proof. exact terminal_all_done. Qed.
Print Assumptions c08_terminal_all_done.

(* bounded waiting: the grants preceding the grant of a pending request w are exactly the requests pending ahead
   of it (each once, all published before w): at most (number of requests published before w) grants *)
Theorem c08_bounded_waiting : forall ops s w, reachable ops s -> waiting s w ->
  exists a b, alog s = glog s ++ a ++ w :: b /\ ~ In w a /\ (forall x, In x a -> waiting s x).
Proof. exact bounded_waiting. Qed.
Print Assumptions c08_bounded_waiting.

(* fragment of oracle soundness: the final observation block of any run that stopped: no error line, no stuck
   thread (no deadlock line), last line "8 0 1 1" (no overlap, requests = null, queue = null), every contender done *)
Theorem c08_final_block : forall ops s, reachable ops s -> (forall t, enabled s t = false) ->
  err s = false /\ stuck_list (thrs s) 0 = [] /\
  [8; b2z (ovl s); is_null (requests s); is_null (queue s)] = [8; 0; 1; 1] /\
  (forall c, tpc (gtask s c) = PDone) /\ alog s = glog s.
Proof. exact final_block. Qed.
Print Assumptions c08_final_block.

(* ownership objects: every way of giving an ownership up (release(), destruction, being overwritten by a move
   assignment or by the grant of a callback request) unlocks or hands over exactly once - the counting invariant
   "objects holding m (+ a grant in flight) = [m is locked]" is preserved by every operation -, so once no object
   holds anything every mutex is free again and no request is left pending *)
Theorem c08_ownership_invariant : forall s op, MutexOwnProofs.OK s -> MutexOwnProofs.OK (fst (MutexOwnDefs.wstep s op)).
Proof. exact MutexOwnProofs.wstep_inv. Qed.
Print Assumptions c08_ownership_invariant.

Theorem c08_all_released_free : forall s, MutexOwnProofs.wreach s -> (forall j, MutexOwnDefs.gslot s j = None) ->
  forall m, MutexOwnDefs.locked (MutexOwnDefs.gmx s m) = false /\ MutexOwnDefs.waitq (MutexOwnDefs.gmx s m) = [].
Proof. exact MutexOwnProofs.own_released_free. Qed.
Print Assumptions c08_all_released_free.

(* the invariant behind all of this is inductive over every step of every thread *)
Theorem c08_invariant_inductive : forall s t, SInv s -> enabled s t = true -> SInv (fst (fst (tstep s t))).
Proof. exact step_inv. Qed.
Print Assumptions c08_invariant_inductive.

(* non-vacuity: three waiters queue up behind owner 0 in the order 2, 1, 3; after the owner's release
   (build_queue + hand-over) task 2 owns the mutex and 1, 3 are in the FIFO in arrival order *)
Example c08_nonvacuous :
  let ops := [[1;0;0;0]; [1;0;0;2]; [1;0;0;1]; [1;1;0;0]; [9; 0;0; 2;2;2;2; 1;1;1;1; 3;3;3;3; 0;0;0;0]]%Z in
  let s := fst (run_sched 18 (init ops) (flat_map decode_sched ops) []) in
  reachable ops s /\ alog s = [2; 1; 3]%nat /\ glog s = [2]%nat /\ holds s 2 /\ requests s = PDoor /\
  queue s = PNode 1 /\ gnext s 1 = PNode 3 /\ gnext s 3 = PNull /\ waiting s 1 /\ waiting s 3.
Proof.
  split; [apply run_sched_reachable; apply r_init|]. vm_compute. repeat split.
Qed.
