(* Regress_C17.v — the behaviour before /repo commit a23ff80 ("fix: shared_future::init_if_needed had an inverted test").
   With `if (_ptr)` instead of `if (!_ptr)` a default-constructed handle stays null and get_promise() dereferences it:
   the late-initialisation clause of C17 fails before the first scheduling point.  `sf_run_old` is the model of that
   code (engine `sf_old`); the property oracle rejects its trace, and accepts the trace of the repaired model. *)
From Cocls Require Import Base SharedDefs.
Local Open Scope Z_scope.

Theorem c17_late_init_refuted_before_fix : forall isvoid ops,
  is_late (mode_of ops) = true -> sf_run_old isvoid ops = [[-999]] /\ sf_oracle isvoid ops (sf_run_old isvoid ops) = false.
Proof.
  intros isvoid ops H. unfold sf_run_old. rewrite H. split; reflexivity.
Qed.
Print Assumptions c17_late_init_refuted_before_fix.

(* witness: default-construct, get_promise(), one awaiter — replayed on the real code by mutation m5 (notes/C17.md) *)
Example c17_late_init_witness :
  let ops := [[0;2;0]; [1;0;7]; [2;0;3]; [9;0;0;0;1;2;1;2]] in
  sf_oracle false ops (sf_run_old false ops) = false /\ sf_oracle false ops (sf_run false ops) = true.
Proof. vm_compute. split; reflexivity. Qed.
