(* SuspendPointProofs.v — invariants of the suspend_point model, for op sequences of any length
   over any number of objects and handles. *)
From Cocls Require Import Base BaseProofs SuspendPointDefs.
Require Import ZifyBool.
Local Open Scope Z_scope.
Ltac Zify.zify_post_hook ::= Z.div_mod_to_equations.

Arguments Z.div : simpl never.
Arguments Z.odd : simpl never.
Arguments Z.mul : simpl never.
Arguments Z.add : simpl never.

(* ---------- one object ---------- *)
Definition arr (s : sp) : Z := if sp_flag s then 1 else 0.   (* heap arrays owned *)

Definition wf_sp (s : sp) : Prop :=
  0 <= cf s /\ zlen (hs s) = cf s / 2 /\
  (cf s mod 2 = 1 -> cf s / 2 <= cap s /\ 6 <= cap s) /\
  (cf s mod 2 = 0 -> cf s / 2 <= 3).

Lemma flag_mod s : sp_flag s = (cf s mod 2 =? 1).
Proof. unfold sp_flag. rewrite Zmod_odd. destruct (Z.odd (cf s)); reflexivity. Qed.

Lemma zlen_app {A} (a b : list A) : zlen (a ++ b) = zlen a + zlen b.
Proof. unfold zlen. rewrite app_length. lia. Qed.

Lemma sp_add_hs s h : hs (fst (sp_add s h)) = hs s ++ [h].
Proof. unfold sp_add. repeat match goal with |- context[if ?b then _ else _] => destruct b end; reflexivity. Qed.

Lemma sp_add_val s h : val (fst (sp_add s h)) = val s.
Proof. unfold sp_add. repeat match goal with |- context[if ?b then _ else _] => destruct b end; reflexivity. Qed.

Lemma sp_add_wf s h : wf_sp s -> wf_sp (fst (sp_add s h)).
Proof.
  unfold wf_sp, sp_add, sp_count, inline_count. rewrite flag_mod. intros (H0 & HL & HF & HI).
  destruct (cf s mod 2 =? 1) eqn:F.
  - destruct (cf s / 2 =? cap s) eqn:E; cbn [fst cf hs cap]; rewrite zlen_app; unfold zlen at 2; cbn [length]; lia.
  - destruct (cf s / 2 <? 3) eqn:E; cbn [fst cf hs cap]; rewrite zlen_app; unfold zlen at 2; cbn [length]; lia.
Qed.

(* allocations - frees = change in the number of owned arrays *)
Lemma sp_add_arr s h : wf_sp s ->
  arr (fst (sp_add s h)) - arr s = fst (snd (sp_add s h)) - snd (snd (sp_add s h)).
Proof.
  intros W. pose proof W as (H0 & HL & HF & HI). unfold arr. rewrite !flag_mod.
  unfold sp_add, sp_count, inline_count. rewrite flag_mod.
  destruct (cf s mod 2 =? 1) eqn:F.
  - destruct (cf s / 2 =? cap s) eqn:E; cbn [fst snd cf];
      destruct ((cf s + 2) mod 2 =? 1) eqn:G; lia.
  - destruct (cf s / 2 <? 3) eqn:E; cbn [fst snd cf].
    + destruct ((cf s + 2) mod 2 =? 1) eqn:G; lia.
    + destruct ((cf s + 3) mod 2 =? 1) eqn:G; lia.
Qed.

(* the first allocation happens exactly at the 4th handle (C20 threshold) *)
Lemma sp_add_inline_no_alloc s h : wf_sp s -> sp_flag s = false -> cf s / 2 < 3 ->
  snd (sp_add s h) = (0, 0) /\ sp_flag (fst (sp_add s h)) = false.
Proof.
  unfold wf_sp, sp_add, sp_count, inline_count. intros (H0 & HL & HF & HI) F C. rewrite F.
  destruct (cf s / 2 <? 3) eqn:E; [|lia]. cbn [fst snd]. split; [reflexivity|].
  rewrite flag_mod in *. cbn [cf]. lia.
Qed.

Lemma sp_add_all_spec s l : wf_sp s ->
  let r := sp_add_all s l in
  wf_sp (fst r) /\ hs (fst r) = hs s ++ l /\ val (fst r) = val s /\
  arr (fst r) - arr s = fst (snd r) - snd (snd r).
Proof.
  revert s; induction l as [|h l IH]; intros s W; cbn [sp_add_all].
  - cbn [fst snd]. rewrite app_nil_r. refine (conj W (conj eq_refl (conj eq_refl _))). lia.
  - pose proof (sp_add_wf s h W) as W1. pose proof (sp_add_hs s h) as H1.
    pose proof (sp_add_val s h) as V1. pose proof (sp_add_arr s h W) as A1.
    destruct (sp_add s h) as [s1 c1]. cbn [fst snd] in *.
    specialize (IH s1 W1). destruct (sp_add_all s1 l) as [s2 c2]. cbn [fst snd] in *.
    destruct IH as (W2 & H2 & V2 & A2). refine (conj W2 (conj _ (conj _ _))).
    + rewrite H2, H1, <- app_assoc. reflexivity.
    + congruence.
    + unfold cadd. cbn [fst snd]. lia.
Qed.

Lemma wf_empty c v : wf_sp (mkSp 0 [] c v).
Proof. unfold wf_sp; cbn. repeat split; try lia; unfold zlen; cbn; lia. Qed.

Lemma arr_empty c v : arr (mkSp 0 [] c v) = 0.
Proof. reflexivity. Qed.

Lemma sp_pop_spec s : wf_sp s ->
  let r := sp_pop s in
  wf_sp (fst r) /\ val (fst r) = val s /\ arr (fst r) = arr s /\
  hs s = hs (fst r) ++ olist (snd r) /\
  (sp_count s = 0 -> r = (s, None)).
Proof.
  unfold sp_pop, sp_count. intros W. pose proof W as (H0 & HL & HF & HI).
  destruct (0 <? cf s / 2) eqn:E; cbn [fst snd].
  - assert (hs s <> []) as NE by (intro Q; rewrite Q in HL; unfold zlen in HL; cbn in HL; lia).
    pose proof (app_removelast_last 0 NE) as SPLIT.
    assert (zlen (removelast (hs s)) = cf s / 2 - 1) as HL'.
    { rewrite SPLIT in HL at 1. rewrite zlen_app in HL. unfold zlen at 2 in HL. cbn [length] in HL. lia. }
    refine (conj _ (conj eq_refl (conj _ (conj _ _)))).
    + unfold wf_sp. cbn [cf hs cap]. rewrite HL'. lia.
    + unfold arr. rewrite !flag_mod. cbn [cf].
      destruct (cf s mod 2 =? 1) eqn:A; destruct ((cf s - 2) mod 2 =? 1) eqn:B; lia.
    + cbn [hs olist]. exact SPLIT.
    + intros Q. lia.
  - refine (conj W (conj eq_refl (conj eq_refl (conj _ _)))).
    + cbn [olist]. rewrite app_nil_r. reflexivity.
    + reflexivity.
Qed.

(* ---------- the environment ---------- *)
Definition hso (o : option sp) : list Z := match o with Some s => hs s | None => [] end.
Definition held_objs (l : list (option sp)) : list Z := flat_map hso l.
Definition held (e : env) : list Z := held_objs (objs e) ++ queue e.
Definition arrs_o (o : option sp) : Z := match o with Some s => arr s | None => 0 end.
Fixpoint arrs (l : list (option sp)) : Z := match l with [] => 0 | o :: t => arrs_o o + arrs t end.
Definition wf_objs (l : list (option sp)) : Prop := forall i s, get l i = Some s -> wf_sp s.
Definition wf_o (o : option sp) : Prop := match o with Some s => wf_sp s | None => True end.

Lemma held_objs_ensure x (l : list (option sp)) i : count_z x (held_objs (ensure l i)) = count_z x (held_objs l).
Proof.
  revert l; induction i as [|i IH]; intros [|y l]; cbn [ensure held_objs flat_map hso app]; try reflexivity.
  - specialize (IH []). cbn [held_objs flat_map] in IH. exact IH.
  - rewrite !count_z_app. specialize (IH l). unfold held_objs in IH. rewrite IH. reflexivity.
Qed.

Lemma arrs_ensure (l : list (option sp)) i : arrs (ensure l i) = arrs l.
Proof.
  revert l; induction i as [|i IH]; intros [|y l]; cbn [ensure arrs arrs_o]; try reflexivity.
  - specialize (IH []). cbn [arrs] in IH. lia.
  - rewrite IH. reflexivity.
Qed.

Lemma get_alt {A} (l : list (option A)) i : get l i = match nth_error l i with Some o => o | None => None end.
Proof. unfold get. destruct (nth_error l i) as [[?|]|]; reflexivity. Qed.

Lemma held_set_nth x (l : list (option sp)) i v : (i < length l)%nat ->
  (count_z x (held_objs (set_nth l i v)) + count_z x (hso (get l i)) = count_z x (hso v) + count_z x (held_objs l))%nat.
Proof.
  revert i; induction l as [|y l IH]; intros [|i] H; cbn [length] in H; try lia.
  - cbn [set_nth held_objs flat_map]. rewrite !count_z_app. rewrite get_alt. cbn [nth_error]. lia.
  - cbn [set_nth held_objs flat_map]. rewrite !count_z_app.
    assert (i < length l)%nat as H' by lia. specialize (IH i H').
    rewrite get_alt in *. cbn [nth_error]. unfold held_objs in IH. lia.
Qed.

Lemma arrs_set_nth (l : list (option sp)) i v : (i < length l)%nat ->
  arrs (set_nth l i v) + arrs_o (get l i) = arrs_o v + arrs l.
Proof.
  revert i; induction l as [|y l IH]; intros [|i] H; cbn [length] in H; try lia.
  - cbn [set_nth arrs]. rewrite get_alt. cbn [nth_error]. lia.
  - cbn [set_nth arrs]. assert (i < length l)%nat as H' by lia. specialize (IH i H').
    rewrite get_alt in *. cbn [nth_error]. lia.
Qed.

Lemma held_put x (l : list (option sp)) i v :
  (count_z x (held_objs (put l i v)) + count_z x (hso (get l i)) = count_z x (hso v) + count_z x (held_objs l))%nat.
Proof.
  unfold put. pose proof (held_set_nth x (ensure l i) i v (ensure_length l i)) as H.
  rewrite get_ensure, held_objs_ensure in H. exact H.
Qed.

Lemma arrs_put (l : list (option sp)) i v : arrs (put l i v) + arrs_o (get l i) = arrs_o v + arrs l.
Proof.
  unfold put. pose proof (arrs_set_nth (ensure l i) i v (ensure_length l i)) as H.
  rewrite get_ensure, arrs_ensure in H. exact H.
Qed.

Lemma wf_put l i v : wf_objs l -> wf_o v -> wf_objs (put l i v).
Proof.
  intros W V j s G. destruct (Nat.eq_dec i j) as [E|E].
  - subst. rewrite get_put_same in G. subst. exact V.
  - rewrite get_put_other in G by exact E. eapply W; eassumption.
Qed.

(* handles handed in by an op (only when the op was accepted) *)
Definition handed_op (x : op) (ob : obs) : list Z :=
  if o_st ob =? 0 then match x with ONewH _ h _ => [h] | OAdd _ h => [h] | _ => [] end else [].

Definition wf_env (e : env) : Prop := wf_objs (objs e).

Ltac cnt_norm :=
  unfold held in *;
  cbn [objs queue o_res o_st o_cost fst snd hso arrs_o hs] in *;
  change (0 =? 0)%Z with true in *; change (1 =? 0)%Z with false in *;
  repeat rewrite count_z_app in *; cbn [count_z] in *.

Lemma step_spec coro e x :
  wf_env e ->
  let r := step coro e x in
  wf_env (fst r) /\
  (forall y, (count_z y (handed_op x (snd r)) + count_z y (held e) =
              count_z y (o_res (snd r)) + count_z y (held (fst r)))%nat) /\
  arrs (objs (fst r)) - arrs (objs e) = fst (o_cost (snd r)) - snd (o_cost (snd r)).
Proof.
  intros W. unfold wf_env in *.
  assert (forall y, (count_z y (handed_op x rejected) + count_z y (held e) =
                     count_z y (o_res rejected) + count_z y (held e))%nat) as REJ.
  { intros y. unfold handed_op, rejected. cbn. lia. }
  assert (let r := (e, rejected) in
          wf_objs (objs (fst r)) /\
          (forall y, (count_z y (handed_op x (snd r)) + count_z y (held e) =
              count_z y (o_res (snd r)) + count_z y (held (fst r)))%nat) /\
          arrs (objs (fst r)) - arrs (objs e) = fst (o_cost (snd r)) - snd (o_cost (snd r))) as REJ3.
  { cbn [fst snd]. refine (conj W (conj REJ _)). cbn. lia. }
  destruct x as [o v|o h v|o h|o1 o2|o1 o2|o1 o2 v|o|o|o|o| |o1 o2| ]; cbn [step].
  - (* NewV *)
    destruct (get (objs e) o) eqn:G; [exact REJ3|]. cbn [fst snd objs].
    refine (conj _ (conj _ _)).
    + apply wf_put; [exact W|apply wf_empty].
    + intros y. pose proof (held_put y (objs e) o (Some (mkSp 0 [] 0 v))) as P. rewrite G in P.
      unfold handed_op, ok_obs. cnt_norm. lia.
    + pose proof (arrs_put (objs e) o (Some (mkSp 0 [] 0 v))) as P. rewrite G in P.
      unfold ok_obs. cbn [o_cost arrs_o fst snd] in *. rewrite arr_empty in P. lia.
  - (* NewH *)
    destruct (get (objs e) o) eqn:G; [exact REJ3|]. cbn [fst snd objs].
    refine (conj _ (conj _ _)).
    + apply wf_put; [exact W|]. unfold wf_o, wf_sp. cbn. unfold zlen. cbn. lia.
    + intros y. pose proof (held_put y (objs e) o (Some (mkSp 2 [h] 0 v))) as P. rewrite G in P.
      unfold handed_op, ok_obs. cnt_norm. lia.
    + pose proof (arrs_put (objs e) o (Some (mkSp 2 [h] 0 v))) as P. rewrite G in P.
      unfold ok_obs. cbn [o_cost arrs_o fst snd] in *. change (arr (mkSp 2 [h] 0 v)) with 0 in P. lia.
  - (* Add *)
    destruct (get (objs e) o) as [s|] eqn:G; [|exact REJ3].
    pose proof (W _ _ G) as Ws.
    pose proof (sp_add_wf s h Ws) as W1. pose proof (sp_add_hs s h) as H1. pose proof (sp_add_arr s h Ws) as A1.
    destruct (sp_add s h) as [s1 c]. cbn [fst snd objs] in *.
    refine (conj _ (conj _ _)).
    + apply wf_put; [exact W|exact W1].
    + intros y. pose proof (held_put y (objs e) o (Some s1)) as P. rewrite G in P.
      unfold handed_op, ok_obs. cnt_norm. rewrite H1 in P. cnt_norm. lia.
    + pose proof (arrs_put (objs e) o (Some s1)) as P. rewrite G in P. unfold ok_obs. cbn [o_cost arrs_o] in *. lia.
  - (* Merge *)
    destruct (Nat.eqb_spec o1 o2) as [E|E]; [exact REJ3|].
    destruct (get (objs e) o1) as [d|] eqn:G1; [|exact REJ3].
    destruct (get (objs e) o2) as [s|] eqn:G2; [|exact REJ3].
    pose proof (W _ _ G1) as Wd. pose proof (W _ _ G2) as Ws.
    unfold sp_merge. pose proof (sp_add_all_spec d (hs s) Wd) as Q. cbn zeta in Q.
    destruct (sp_add_all d (hs s)) as [d1 c1]. cbn [fst snd] in Q. destruct Q as (W1 & H1 & V1 & A1).
    unfold sp_clear_internal. cbn [fst snd objs].
    refine (conj _ (conj _ _)).
    + apply wf_put; [apply wf_put; [exact W|exact W1]|apply wf_empty].
    + intros y.
      pose proof (held_put y (put (objs e) o1 (Some d1)) o2 (Some (mkSp 0 [] (cap s) (val s)))) as P2.
      rewrite get_put_other in P2 by exact E. rewrite G2 in P2.
      pose proof (held_put y (objs e) o1 (Some d1)) as P1. rewrite G1 in P1.
      unfold handed_op, ok_obs. cnt_norm. rewrite H1 in P1. cnt_norm. lia.
    + pose proof (arrs_put (put (objs e) o1 (Some d1)) o2 (Some (mkSp 0 [] (cap s) (val s)))) as P2.
      rewrite get_put_other in P2 by exact E. rewrite G2 in P2.
      pose proof (arrs_put (objs e) o1 (Some d1)) as P1. rewrite G1 in P1.
      unfold ok_obs, cadd. cbn [o_cost arrs_o fst snd] in *. rewrite arr_empty in P2.
      unfold arr in P2 at 1. destruct (sp_flag s); lia.
  - (* MoveCtor *)
    destruct (Nat.eqb_spec o1 o2) as [E|E]; [exact REJ3|].
    destruct (get (objs e) o1) as [d|] eqn:G1; [exact REJ3|].
    destruct (get (objs e) o2) as [s|] eqn:G2; [|exact REJ3].
    pose proof (W _ _ G2) as Ws. cbn [fst snd objs].
    refine (conj _ (conj _ _)).
    + apply wf_put; [apply wf_put; [exact W|exact Ws]|apply wf_empty].
    + intros y.
      pose proof (held_put y (put (objs e) o1 (Some s)) o2 (Some (mkSp 0 [] (cap s) (val s)))) as P2.
      rewrite get_put_other in P2 by exact E. rewrite G2 in P2.
      pose proof (held_put y (objs e) o1 (Some s)) as P1. rewrite G1 in P1.
      unfold handed_op, ok_obs. cnt_norm. lia.
    + pose proof (arrs_put (put (objs e) o1 (Some s)) o2 (Some (mkSp 0 [] (cap s) (val s)))) as P2.
      rewrite get_put_other in P2 by exact E. rewrite G2 in P2.
      pose proof (arrs_put (objs e) o1 (Some s)) as P1. rewrite G1 in P1.
      unfold ok_obs. cbn [o_cost arrs_o fst snd] in *. rewrite arr_empty in P2. lia.
  - (* MoveBase *)
    destruct (Nat.eqb_spec o1 o2) as [E|E]; [exact REJ3|].
    destruct (get (objs e) o1) as [d|] eqn:G1; [exact REJ3|].
    destruct (get (objs e) o2) as [s|] eqn:G2; [|exact REJ3].
    pose proof (W _ _ G2) as Ws. cbn [fst snd objs].
    refine (conj _ (conj _ _)).
    + apply wf_put; [apply wf_put; [exact W|exact Ws]|apply wf_empty].
    + intros y.
      pose proof (held_put y (put (objs e) o1 (Some (mkSp (cf s) (hs s) (cap s) v))) o2 (Some (mkSp 0 [] (cap s) (val s)))) as P2.
      rewrite get_put_other in P2 by exact E. rewrite G2 in P2.
      pose proof (held_put y (objs e) o1 (Some (mkSp (cf s) (hs s) (cap s) v))) as P1. rewrite G1 in P1.
      unfold handed_op, ok_obs. cnt_norm. lia.
    + pose proof (arrs_put (put (objs e) o1 (Some (mkSp (cf s) (hs s) (cap s) v))) o2 (Some (mkSp 0 [] (cap s) (val s)))) as P2.
      rewrite get_put_other in P2 by exact E. rewrite G2 in P2.
      pose proof (arrs_put (objs e) o1 (Some (mkSp (cf s) (hs s) (cap s) v))) as P1. rewrite G1 in P1.
      unfold ok_obs. cbn [o_cost arrs_o fst snd] in *. rewrite arr_empty in P2.
      change (arr (mkSp (cf s) (hs s) (cap s) v)) with (arr s) in P1. lia.
  - (* Pop *)
    destruct (get (objs e) o) as [s|] eqn:G; [|exact REJ3].
    pose proof (W _ _ G) as Ws. pose proof (sp_pop_spec s Ws) as Q. cbn zeta in Q.
    destruct (sp_pop s) as [s1 h]. cbn [fst snd objs] in *. destruct Q as (W1 & V1 & A1 & H1 & _).
    refine (conj _ (conj _ _)).
    + apply wf_put; [exact W|exact W1].
    + intros y. pose proof (held_put y (objs e) o (Some s1)) as P. rewrite G in P.
      unfold handed_op, ok_obs. cnt_norm. rewrite H1 in P. cnt_norm. lia.
    + pose proof (arrs_put (objs e) o (Some s1)) as P. rewrite G in P. unfold ok_obs. cbn [o_cost arrs_o fst snd] in *. lia.
  - (* Clear *)
    destruct (get (objs e) o) as [s|] eqn:G; [|exact REJ3].
    pose proof (W _ _ G) as Ws. unfold suspend_now, sp_clear_internal.
    destruct coro; cbn [fst snd objs].
    + refine (conj _ (conj _ _)).
      * apply wf_put; [exact W|apply wf_empty].
      * intros y. pose proof (held_put y (objs e) o (Some (mkSp 0 [] (cap s) (val s)))) as P. rewrite G in P.
        unfold handed_op. cnt_norm. lia.
      * pose proof (arrs_put (objs e) o (Some (mkSp 0 [] (cap s) (val s)))) as P. rewrite G in P.
        cbn [o_cost arrs_o fst snd] in *. rewrite arr_empty in P. unfold arr in P. destruct (sp_flag s); lia.
    + refine (conj _ (conj _ _)).
      * apply wf_put; [exact W|apply wf_empty].
      * intros y. pose proof (held_put y (objs e) o (Some (mkSp 0 [] (cap s) (val s)))) as P. rewrite G in P.
        unfold handed_op. cnt_norm. lia.
      * pose proof (arrs_put (objs e) o (Some (mkSp 0 [] (cap s) (val s)))) as P. rewrite G in P.
        cbn [o_cost arrs_o fst snd] in *. rewrite arr_empty in P. unfold arr in P. destruct (sp_flag s); lia.
  - (* Destroy *)
    destruct (get (objs e) o) as [s|] eqn:G; [|exact REJ3].
    pose proof (W _ _ G) as Ws. unfold suspend_now, sp_clear_internal.
    destruct coro; cbn [fst snd objs].
    + refine (conj _ (conj _ _)).
      * apply wf_put; [exact W|exact I].
      * intros y. pose proof (held_put y (objs e) o None) as P. rewrite G in P.
        unfold handed_op. cnt_norm. lia.
      * pose proof (arrs_put (objs e) o None) as P. rewrite G in P.
        cbn [o_cost arrs_o fst snd] in *. unfold arr in P. destruct (sp_flag s); lia.
    + refine (conj _ (conj _ _)).
      * apply wf_put; [exact W|exact I].
      * intros y. pose proof (held_put y (objs e) o None) as P. rewrite G in P.
        unfold handed_op. cnt_norm. lia.
      * pose proof (arrs_put (objs e) o None) as P. rewrite G in P.
        cbn [o_cost arrs_o fst snd] in *. unfold arr in P. destruct (sp_flag s); lia.
  - (* Await *)
    destruct coro; cbn [negb]; [|exact REJ3].
    destruct (get (objs e) o) as [s|] eqn:G; [|exact REJ3].
    pose proof (W _ _ G) as Ws.
    destruct (sp_count s =? 0) eqn:C.
    + unfold sp_clear_internal. cbn [fst snd objs].
      assert (hs s = []) as HE.
      { destruct Ws as (_ & HL & _). unfold sp_count in C. destruct (hs s); [reflexivity|]. unfold zlen in HL. cbn [length] in HL. lia. }
      refine (conj _ (conj _ _)).
      * apply wf_put; [exact W|apply wf_empty].
      * intros y. pose proof (held_put y (objs e) o (Some (mkSp 0 [] (cap s) (val s)))) as P. rewrite G in P.
        unfold handed_op, ok_obs. cnt_norm. rewrite HE in P. cnt_norm. lia.
      * pose proof (arrs_put (objs e) o (Some (mkSp 0 [] (cap s) (val s)))) as P. rewrite G in P.
        unfold ok_obs. cbn [o_cost arrs_o fst snd] in *. rewrite arr_empty in P. unfold arr in P. destruct (sp_flag s); lia.
    + pose proof (sp_pop_spec s Ws) as Q. cbn zeta in Q.
      destruct (sp_pop s) as [s1 h]. cbn [fst snd] in Q. destruct Q as (W1 & V1 & A1 & H1 & _).
      unfold sp_clear_internal. cbn [fst snd objs].
      refine (conj _ (conj _ _)).
      * apply wf_put; [exact W|apply wf_empty].
      * intros y. pose proof (held_put y (objs e) o (Some (mkSp 0 [] (cap s1) (val s1)))) as P. rewrite G in P.
        unfold handed_op. cnt_norm. rewrite H1 in P. cnt_norm. lia.
      * pose proof (arrs_put (objs e) o (Some (mkSp 0 [] (cap s1) (val s1)))) as P. rewrite G in P.
        cbn [o_cost arrs_o fst snd] in *. rewrite arr_empty in P. rewrite <- A1 in P. unfold arr in P. destruct (sp_flag s1); lia.
  - (* Flush *)
    destruct coro; cbn [negb]; [|exact REJ3]. cbn [fst snd objs].
    refine (conj W (conj _ _)).
    + intros y. unfold handed_op. cnt_norm. lia.
    + cbn. lia.
  - (* MoveAssign *)
    destruct (Nat.eqb_spec o1 o2) as [E|E]; [exact REJ3|].
    destruct (get (objs e) o1) as [d|] eqn:G1; [|exact REJ3].
    destruct (get (objs e) o2) as [s|] eqn:G2; [|exact REJ3].
    pose proof (W _ _ G1) as Wd. pose proof (W _ _ G2) as Ws.
    unfold sp_merge. pose proof (sp_add_all_spec d (hs s) Wd) as Q. cbn zeta in Q.
    destruct (sp_add_all d (hs s)) as [d1 c1]. cbn [fst snd] in Q. destruct Q as (W1 & H1 & V1 & A1).
    unfold sp_clear_internal. cbn [fst snd objs].
    set (d2 := mkSp (cf d1) (hs d1) (cap d1) (val s)).
    assert (wf_sp d2) as W2 by exact W1.
    assert (hs d2 = hs d ++ hs s) as H2 by exact H1.
    assert (arr d2 = arr d1) as A2 by reflexivity.
    clearbody d2.
    refine (conj _ (conj _ _)).
    + apply wf_put; [apply wf_put; [exact W|exact W2]|apply wf_empty].
    + intros y.
      pose proof (held_put y (put (objs e) o1 (Some d2)) o2 (Some (mkSp 0 [] (cap s) (val s)))) as P2.
      rewrite get_put_other in P2 by exact E. rewrite G2 in P2.
      pose proof (held_put y (objs e) o1 (Some d2)) as P1. rewrite G1 in P1.
      unfold handed_op, ok_obs. cnt_norm. rewrite H2 in P1. cnt_norm. lia.
    + pose proof (arrs_put (put (objs e) o1 (Some d2)) o2 (Some (mkSp 0 [] (cap s) (val s)))) as P2.
      rewrite get_put_other in P2 by exact E. rewrite G2 in P2.
      pose proof (arrs_put (objs e) o1 (Some d2)) as P1. rewrite G1 in P1.
      unfold ok_obs, cadd. cbn [o_cost arrs_o fst snd] in *. rewrite arr_empty in P2.
      rewrite A2 in P1.
      unfold arr in P2 at 1. destruct (sp_flag s); lia.
  - exact REJ3.
Qed.

(* ---------- runs of any length ---------- *)
Fixpoint handed_run (ops : list op) (os : list obs) : list Z :=
  match ops, os with
  | x :: t, o :: u => handed_op x o ++ handed_run t u
  | _, _ => []
  end.
Definition resumed_run (os : list obs) : list Z := flat_map o_res os.
Fixpoint allocs_run (os : list obs) : Z := match os with [] => 0 | o :: t => fst (o_cost o) + allocs_run t end.
Fixpoint frees_run (os : list obs) : Z := match os with [] => 0 | o :: t => snd (o_cost o) + frees_run t end.

Lemma run_spec coro ops : forall e, wf_env e ->
  let r := run_from coro e ops in
  wf_env (snd r) /\
  (forall y, (count_z y (handed_run ops (fst r)) + count_z y (held e) =
              count_z y (resumed_run (fst r)) + count_z y (held (snd r)))%nat) /\
  arrs (objs (snd r)) - arrs (objs e) = allocs_run (fst r) - frees_run (fst r) /\
  length (fst r) = length ops.
Proof.
  induction ops as [|x ops IH]; intros e W; cbn [run_from].
  - cbn [fst snd handed_run resumed_run flat_map allocs_run frees_run length].
    refine (conj W (conj (fun y => eq_refl) (conj _ eq_refl))). lia.
  - pose proof (step_spec coro e x W) as S. cbn zeta in S.
    destruct (step coro e x) as [e1 o]. cbn [fst snd] in S. destruct S as (W1 & C1 & A1).
    specialize (IH e1 W1). cbn zeta in IH.
    destruct (run_from coro e1 ops) as [os e2]. cbn [fst snd] in *.
    destruct IH as (W2 & C2 & A2 & L2).
    refine (conj W2 (conj _ (conj _ _))).
    + intros y. specialize (C1 y). specialize (C2 y).
      cbn [handed_run resumed_run flat_map]. rewrite !count_z_app. unfold resumed_run in C2. lia.
    + cbn [allocs_run frees_run]. lia.
    + cbn [length]. lia.
Qed.

Lemma wf_env0 : wf_env env0.
Proof. intros i s G. unfold env0, get in G. cbn in G. destruct i; discriminate. Qed.

(* every handle handed in is, at any moment, either resumed or still held — as multisets *)
Theorem conservation coro ops e : wf_env e ->
  let r := run_from coro e ops in
  Permutation (handed_run ops (fst r) ++ held e) (resumed_run (fst r) ++ held (snd r)).
Proof.
  intros W. pose proof (run_spec coro ops e W) as (_ & C & _). cbn zeta.
  apply perm_of_counts. intros y. rewrite !count_z_app. apply C.
Qed.

(* closed runs: everything handed in has been resumed exactly as often as it was handed in *)
Theorem all_resumed coro ops :
  let r := run_from coro env0 ops in
  held (snd r) = [] ->
  Permutation (handed_run ops (fst r)) (resumed_run (fst r)).
Proof.
  cbn zeta. intros H. pose proof (conservation coro ops env0 wf_env0) as P. cbn zeta in P.
  rewrite H in P. unfold held at 1 in P. cbn in P. rewrite !app_nil_r in P. exact P.
Qed.

Theorem resumed_exactly_once coro ops h :
  let r := run_from coro env0 ops in
  held (snd r) = [] -> NoDup (handed_run ops (fst r)) -> In h (handed_run ops (fst r)) ->
  count_z h (resumed_run (fst r)) = 1%nat.
Proof.
  cbn zeta. intros H N I. pose proof (all_resumed coro ops H) as P.
  rewrite <- (counts_of_perm _ _ P h). rewrite count_z_occ.
  apply (proj1 (NoDup_count_occ' Z.eq_dec _) N). exact I.
Qed.

Theorem never_resumed_unless_handed coro ops h :
  let r := run_from coro env0 ops in
  In h (resumed_run (fst r)) -> In h (handed_run ops (fst r)).
Proof.
  cbn zeta. intros I. pose proof (run_spec coro ops env0 wf_env0) as (_ & C & _). specialize (C h).
  apply count_z_In in I. apply count_z_In. unfold held at 1 in C. cbn in C. lia.
Qed.

(* heap arrays: allocations - frees = arrays owned by live objects, hence nothing leaks *)
Theorem no_leak coro ops :
  let r := run_from coro env0 ops in
  allocs_run (fst r) - frees_run (fst r) = arrs (objs (snd r)).
Proof.
  cbn zeta. pose proof (run_spec coro ops env0 wf_env0) as (_ & _ & A & _). cbn in A. lia.
Qed.

Lemma arrs_all_none l : (forall i, get l i = None) -> arrs l = 0.
Proof.
  induction l as [|o l IH]; intros H; cbn [arrs]; [reflexivity|].
  assert (o = None) as E.
  { specialize (H 0%nat). unfold get in H. cbn in H. destruct o; [discriminate|reflexivity]. }
  subst. cbn [arrs_o]. rewrite IH; [lia|]. intros i. specialize (H (S i)). exact H.
Qed.

(* representation invariant holds in every reachable state: count <= capacity, so no index is out of bounds *)
Theorem capacity_sound coro ops i s :
  get (objs (snd (run_from coro env0 ops))) i = Some s ->
  zlen (hs s) = sp_count s /\ (sp_flag s = true -> sp_count s <= cap s) /\ (sp_flag s = false -> sp_count s <= inline_count).
Proof.
  intros G. pose proof (run_spec coro ops env0 wf_env0) as (W & _). specialize (W _ _ G).
  destruct W as (H0 & HL & HF & HI). unfold sp_count, inline_count. rewrite flag_mod.
  refine (conj HL (conj _ _)); intros Q; lia.
Qed.

(* an emptied object resumes nothing and frees nothing when it dies *)
Theorem emptied_resumes_nothing coro e o s :
  wf_env e -> get (objs e) o = Some s -> cf s = 0 ->
  let r := step coro e (ODestroy o) in
  o_res (snd r) = [] /\ o_cost (snd r) = (0, 0) /\ queue (fst r) = queue e.
Proof.
  intros W G C. cbn [step]. rewrite G. unfold suspend_now, sp_clear_internal.
  assert (sp_flag s = false) as F by (unfold sp_flag; rewrite C; reflexivity).
  assert (hs s = []) as HE.
  { destruct (W _ _ G) as (_ & HL & _). rewrite C in HL. destruct (hs s); [reflexivity|].
    unfold zlen in HL. cbn [length] in HL. change (0 / 2) with 0 in HL. lia. }
  destruct coro; cbn [fst snd o_res o_cost queue]; rewrite F, HE; cbn [app]; rewrite ?app_nil_r; auto.
Qed.

Definition src_of (x : op) : option nat :=
  match x with
  | OMerge _ o | OMoveCtor _ o | OMoveBase _ o _ | OMoveAssign _ o | OClear o | OAwait o => Some o
  | _ => None
  end.

(* moved-from / merged-from / cleared / awaited objects are left with count_flag = 0 *)
Theorem source_is_emptied coro e x o :
  src_of x = Some o -> o_st (snd (step coro e x)) = 0 ->
  exists s, get (objs (fst (step coro e x))) o = Some s /\ cf s = 0.
Proof.
  intros S A. destruct x; cbn [src_of] in S; try discriminate; injection S as ->; cbn [step] in *.
  - destruct (Nat.eqb o1 o); [cbn in A; lia|].
    destruct (get (objs e) o1) as [d|]; [|cbn in A; lia]. destruct (get (objs e) o) as [s|]; [|cbn in A; lia].
    unfold sp_merge, sp_clear_internal in *. destruct (sp_add_all d (hs s)). cbn [fst snd objs].
    eexists. rewrite get_put_same. split; reflexivity.
  - destruct (Nat.eqb o1 o); [cbn in A; lia|].
    destruct (get (objs e) o1) as [d|]; [cbn in A; lia|]. destruct (get (objs e) o) as [s|]; [|cbn in A; lia].
    cbn [fst snd objs]. eexists. rewrite get_put_same. split; reflexivity.
  - destruct (Nat.eqb o1 o); [cbn in A; lia|].
    destruct (get (objs e) o1) as [d|]; [cbn in A; lia|]. destruct (get (objs e) o) as [s|]; [|cbn in A; lia].
    cbn [fst snd objs]. eexists. rewrite get_put_same. split; reflexivity.
  - destruct (get (objs e) o) as [s|]; [|cbn in A; lia].
    unfold suspend_now, sp_clear_internal. destruct coro; cbn [fst snd objs];
      eexists; rewrite get_put_same; split; reflexivity.
  - destruct coro; cbn [negb] in *; [|cbn in A; lia].
    destruct (get (objs e) o) as [s|]; [|cbn in A; lia].
    destruct (sp_count s =? 0).
    + unfold sp_clear_internal. cbn [fst snd objs]. eexists; rewrite get_put_same; split; reflexivity.
    + destruct (sp_pop s). unfold sp_clear_internal. cbn [fst snd objs].
      eexists; rewrite get_put_same; split; reflexivity.
  - destruct (Nat.eqb o1 o); [cbn in A; lia|].
    destruct (get (objs e) o1) as [d|]; [|cbn in A; lia]. destruct (get (objs e) o) as [s|]; [|cbn in A; lia].
    unfold sp_merge, sp_clear_internal in *. destruct (sp_add_all d (hs s)). cbn [fst snd objs].
    eexists. rewrite get_put_same. split; reflexivity.
Qed.

(* the attached value of an object is never changed by any operation except an assignment to it *)
Definition assigns (x : op) (i : nat) : Prop := match x with OMoveAssign a _ => a = i | _ => False end.

Lemma get_put_cases {A} (l : list (option A)) i j x :
  get (put l i x) j = if Nat.eqb i j then x else get l j.
Proof.
  destruct (Nat.eqb_spec i j); [subst; apply get_put_same|apply get_put_other; assumption].
Qed.

Theorem value_preserved coro e x i s s' :
  wf_env e -> ~ assigns x i ->
  get (objs e) i = Some s -> get (objs (fst (step coro e x))) i = Some s' -> val s' = val s.
Proof.
  intros W NA G G'.
  destruct x; cbn [step assigns] in *;
    repeat match type of G' with
    | context[if Nat.eqb ?a ?b then _ else _] => destruct (Nat.eqb_spec a b); [cbn [fst] in G'; congruence|]
    | context[if negb coro then _ else _] => destruct coro; cbn [negb] in G'; [|cbn [fst] in G'; congruence]
    | context[match get (objs e) ?o with _ => _ end] =>
        let Q := fresh "Q" in destruct (get (objs e) o) eqn:Q; try (cbn [fst] in G'; congruence)
    end.
  - cbn [fst objs] in G'. rewrite get_put_cases in G'. destruct (Nat.eqb_spec o i); congruence.
  - cbn [fst objs] in G'. rewrite get_put_cases in G'. destruct (Nat.eqb_spec o i); congruence.
  - pose proof (sp_add_val s0 h) as V. destruct (sp_add s0 h). cbn [fst objs] in *.
    rewrite get_put_cases in G'. destruct (Nat.eqb_spec o i); congruence.
  - pose proof (sp_add_all_spec s0 (hs s1) (W _ _ Q)) as (_ & _ & V & _).
    unfold sp_merge, sp_clear_internal in G'. destruct (sp_add_all s0 (hs s1)). cbn [fst snd objs] in *.
    rewrite !get_put_cases in G'. destruct (Nat.eqb_spec o2 i); [|destruct (Nat.eqb_spec o1 i)]; subst.
    + injection G' as <-. cbn [val]. congruence.
    + congruence.
    + congruence.
  - cbn [fst objs] in G'. rewrite !get_put_cases in G'.
    destruct (Nat.eqb_spec o2 i); [|destruct (Nat.eqb_spec o1 i)]; subst; try congruence.
    injection G' as <-. cbn [val]. congruence.
  - cbn [fst objs] in G'. rewrite !get_put_cases in G'.
    destruct (Nat.eqb_spec o2 i); [|destruct (Nat.eqb_spec o1 i)]; subst; try congruence.
    injection G' as <-. cbn [val]. congruence.
  - pose proof (sp_pop_spec s0 (W _ _ Q)) as (_ & V & _). destruct (sp_pop s0). cbn [fst snd objs] in *.
    rewrite get_put_cases in G'. destruct (Nat.eqb_spec o i); congruence.
  - unfold suspend_now, sp_clear_internal in G'. destruct coro; cbn [fst snd objs] in G';
      rewrite get_put_cases in G'; destruct (Nat.eqb_spec o i); subst; try congruence;
      injection G' as <-; cbn [val]; congruence.
  - unfold suspend_now, sp_clear_internal in G'. destruct coro; cbn [fst snd objs] in G';
      rewrite get_put_cases in G'; destruct (Nat.eqb_spec o i); subst; congruence.
  - destruct (sp_count s0 =? 0).
    + unfold sp_clear_internal in G'. cbn [fst snd objs] in G'. rewrite get_put_cases in G'.
      destruct (Nat.eqb_spec o i); subst; try congruence. injection G' as <-; cbn [val]; congruence.
    + pose proof (sp_pop_spec s0 (W _ _ Q)) as (_ & V & _). destruct (sp_pop s0).
      unfold sp_clear_internal in G'. cbn [fst snd objs] in *. rewrite get_put_cases in G'.
      destruct (Nat.eqb_spec o i); subst; try congruence. injection G' as <-; cbn [val]; congruence.
  - cbn [fst objs] in G'. congruence.
  - pose proof (sp_add_all_spec s0 (hs s1) (W _ _ Q)) as (_ & _ & V & _).
    unfold sp_merge, sp_clear_internal in G'. destruct (sp_add_all s0 (hs s1)). cbn [fst snd objs] in *.
    rewrite !get_put_cases in G'. destruct (Nat.eqb_spec o2 i); [|destruct (Nat.eqb_spec o1 i)]; subst.
    + injection G' as <-. cbn [val]. congruence.
    + exfalso. apply NA. reflexivity.
    + congruence.
  - cbn [fst] in G'. congruence.
Qed.

(* the value a typed suspend point is constructed with is the value it holds *)
Theorem constructed_value coro e o v :
  get (objs e) o = None ->
  (exists s, get (objs (fst (step coro e (ONewV o v)))) o = Some s /\ val s = v) /\
  (forall h, exists s, get (objs (fst (step coro e (ONewH o h v)))) o = Some s /\ val s = v).
Proof.
  intros G. cbn [step]. rewrite G. cbn [fst objs]. split; [|intros h]; eexists; rewrite get_put_same; split; reflexivity.
Qed.
