(* SuspendPointProofs.v — invariants of the suspend_point model, for op sequences of any length
   over any number of objects and handles. *)
From Cocls Require Import Base BaseProofs SuspendPointDefs.
Require Import ZifyBool.
Local Open Scope Z_scope.
Ltac Zify.zify_post_hook ::= Z.div_mod_to_equations.

Arguments Z.div : simpl never.
Arguments Z.odd : simpl never.
Arguments Z.mul : simpl never.
Arguments Z.add : simpl never.
Arguments count_z : simpl never.

(* ---------- one object ---------- *)
Definition arr (s : sp) : Z := if sp_flag s then 1 else 0.   (* heap arrays owned *)

Definition wf_sp (s : sp) : Prop :=
  0 <= cf s /\ zlen (hs s) = cf s / 2 /\
  (cf s mod 2 = 1 -> cf s / 2 <= cap s /\ 6 <= cap s) /\
  (cf s mod 2 = 0 -> cf s / 2 <= 3).

Lemma flag_mod s : sp_flag s = (cf s mod 2 =? 1).
Proof. unfold sp_flag. rewrite Zmod_odd. destruct (Z.odd (cf s)); reflexivity. Qed.

Lemma zlen_app {A} (a b : list A) : zlen (a ++ b) = zlen a + zlen b.
Proof. unfold zlen. rewrite app_length. lia. Qed.

Lemma zlen_nil_inv {A} (l : list A) : zlen l = 0 -> l = [].
Proof. destruct l; [reflexivity|]. unfold zlen. cbn [length]. lia. Qed.

Lemma wf_same s s' : cf s' = cf s -> hs s' = hs s -> cap s' = cap s -> wf_sp s -> wf_sp s'.
Proof. unfold wf_sp. intros -> -> ->. auto. Qed.

Lemma arr_same s s' : cf s' = cf s -> arr s' = arr s.
Proof. unfold arr, sp_flag. intros ->. reflexivity. Qed.

Lemma sp_add_spec s h : wf_sp s ->
  let r := sp_add s h in
  wf_sp (fst r) /\ hs (fst r) = hs s ++ [h] /\ val (fst r) = val s /\ typed (fst r) = typed s /\
  arr (fst r) - arr s = fst (snd r) - snd (snd r).
Proof.
  intros W. pose proof W as (H0 & HL & HF & HI). cbn zeta.
  unfold arr. rewrite !flag_mod. unfold wf_sp, sp_add, sp_count, inline_count. rewrite flag_mod.
  destruct (cf s mod 2 =? 1) eqn:F.
  - destruct (cf s / 2 =? cap s) eqn:E; cbn [fst snd cf hs cap typed val]; rewrite zlen_app; unfold zlen at 2; cbn [length];
      (repeat split; try reflexivity; try lia); destruct ((cf s + 2) mod 2 =? 1) eqn:G; lia.
  - destruct (cf s / 2 <? 3) eqn:E; cbn [fst snd cf hs cap typed val]; rewrite zlen_app; unfold zlen at 2; cbn [length].
    + (repeat split; try reflexivity; try lia); destruct ((cf s + 2) mod 2 =? 1) eqn:G; lia.
    + (repeat split; try reflexivity; try lia); destruct ((cf s + 3) mod 2 =? 1) eqn:G; lia.
Qed.

(* the first allocation happens exactly at the 4th handle (C20 threshold) *)
Lemma sp_add_inline_no_alloc s h : wf_sp s -> sp_flag s = false -> cf s / 2 < 3 ->
  snd (sp_add s h) = (0, 0) /\ sp_flag (fst (sp_add s h)) = false.
Proof.
  unfold wf_sp, sp_add, sp_count, inline_count. intros (H0 & HL & HF & HI) F C. rewrite F.
  destruct (cf s / 2 <? 3) eqn:E; [|lia]. cbn [fst snd]. split; [reflexivity|].
  rewrite flag_mod in *. cbn [cf]. lia.
Qed.

Lemma sp_add_all_spec s l : wf_sp s ->
  let r := sp_add_all s l in
  wf_sp (fst r) /\ hs (fst r) = hs s ++ l /\ val (fst r) = val s /\ typed (fst r) = typed s /\
  arr (fst r) - arr s = fst (snd r) - snd (snd r).
Proof.
  revert s; induction l as [|h l IH]; intros s W; cbn [sp_add_all].
  - cbn [fst snd]. rewrite app_nil_r. refine (conj W (conj eq_refl (conj eq_refl (conj eq_refl _)))). lia.
  - pose proof (sp_add_spec s h W) as Q. cbn zeta in Q.
    destruct (sp_add s h) as [s1 c1]. cbn [fst snd] in *. destruct Q as (W1 & H1 & V1 & T1 & A1).
    specialize (IH s1 W1). destruct (sp_add_all s1 l) as [s2 c2]. cbn [fst snd] in *.
    destruct IH as (W2 & H2 & V2 & T2 & A2). refine (conj W2 (conj _ (conj _ (conj _ _)))).
    + rewrite H2, H1, <- app_assoc. reflexivity.
    + congruence.
    + congruence.
    + unfold cadd. cbn [fst snd]. lia.
Qed.

Lemma wf_empty c t v : wf_sp (mkSp 0 [] c t v).
Proof. unfold wf_sp; cbn. repeat split; try lia; unfold zlen; cbn; lia. Qed.

Lemma wf_single h c t v : wf_sp (mkSp 2 [h] c t v).
Proof. unfold wf_sp. cbn. unfold zlen. cbn. lia. Qed.

Lemma arr_empty c t v : arr (mkSp 0 [] c t v) = 0.
Proof. reflexivity. Qed.

(* operator<< : all handles of the source are appended, the source is reset, its array freed *)
Lemma sp_merge_spec d s : wf_sp d ->
  let r := sp_merge d s in
  let d1 := fst (fst r) in
  wf_sp d1 /\ hs d1 = hs d ++ hs s /\ val d1 = val d /\ typed d1 = typed d /\
  snd (fst r) = mkSp 0 [] (cap s) (typed s) (val s) /\
  arr d1 - arr d - arr s = fst (snd r) - snd (snd r).
Proof.
  intros W. unfold sp_merge. pose proof (sp_add_all_spec d (hs s) W) as Q. cbn zeta in Q.
  destruct (sp_add_all d (hs s)) as [d1 c1]. cbn [fst snd] in Q. destruct Q as (W1 & H1 & V1 & T1 & A1).
  unfold sp_clear_internal. cbn [fst snd].
  refine (conj W1 (conj H1 (conj V1 (conj T1 (conj eq_refl _))))).
  unfold cadd. cbn [fst snd]. unfold arr at 3. destruct (sp_flag s); lia.
Qed.

Lemma sp_pop_spec s : wf_sp s ->
  let r := sp_pop s in
  wf_sp (fst r) /\ val (fst r) = val s /\ typed (fst r) = typed s /\ cap (fst r) = cap s /\ arr (fst r) = arr s /\
  hs s = hs (fst r) ++ olist (snd r) /\
  (sp_count s = 0 -> r = (s, None)).
Proof.
  unfold sp_pop, sp_count. intros W. pose proof W as (H0 & HL & HF & HI).
  destruct (0 <? cf s / 2) eqn:E; cbn [fst snd].
  - assert (hs s <> []) as NE by (intro Q; rewrite Q in HL; unfold zlen in HL; cbn in HL; lia).
    pose proof (app_removelast_last 0 NE) as SPLIT.
    assert (zlen (removelast (hs s)) = cf s / 2 - 1) as HL'.
    { rewrite SPLIT in HL at 1. rewrite zlen_app in HL. unfold zlen at 2 in HL. cbn [length] in HL. lia. }
    refine (conj _ (conj eq_refl (conj eq_refl (conj eq_refl (conj _ (conj _ _)))))).
    + unfold wf_sp. cbn [cf hs cap]. rewrite HL'. lia.
    + unfold arr. rewrite !flag_mod. cbn [cf].
      destruct (cf s mod 2 =? 1) eqn:A; destruct ((cf s - 2) mod 2 =? 1) eqn:B; lia.
    + cbn [hs olist]. exact SPLIT.
    + intros Q. lia.
  - refine (conj W (conj eq_refl (conj eq_refl (conj eq_refl (conj eq_refl (conj _ _)))))).
    + cbn [olist]. rewrite app_nil_r. reflexivity.
    + reflexivity.
Qed.

(* ---------- the awaiter's own handle in a ready list ---------- *)
Lemma is_drv_eq x : is_drv x = true -> x = driver.
Proof. unfold is_drv. lia. Qed.

Lemma count_drv_existsb l : existsb is_drv l = false -> count_z driver l = 0%nat.
Proof.
  induction l as [|x l IH]; intros H; [reflexivity|]. cbn [existsb] in H. apply orb_false_elim in H as [A B].
  rewrite count_z_cons, (IH B). unfold is_drv in A. destruct (driver =? x) eqn:E; [lia|reflexivity].
Qed.

Lemma existsb_drv_count l : existsb is_drv l = true -> (0 < count_z driver l)%nat.
Proof.
  intros H. apply existsb_exists in H as (x & I & D). apply is_drv_eq in D. subst. apply count_z_In. exact I.
Qed.

Lemma forallb_not_drv_count l : forallb not_drv l = true <-> count_z driver l = 0%nat.
Proof.
  induction l as [|x l IH]; [split; reflexivity|]. cbn [forallb]. rewrite count_z_cons, andb_true_iff, IH.
  unfold not_drv, is_drv. destruct (driver =? x) eqn:E; destruct (x =? driver) eqn:E'; try lia; cbn; split; try lia; intros; split; auto; lia.
Qed.

(* flush up to the awaiter: q = pre ++ [driver] ++ post (or q = pre when it is not there), no driver in pre *)
Lemma split_drv_spec q :
  let '(pre, post, found) := split_drv q in
  q = pre ++ (if found then driver :: post else []) /\ (found = false -> post = []) /\
  count_z driver pre = 0%nat /\ (found = false -> count_z driver q = 0%nat).
Proof.
  induction q as [|x q IH]; cbn [split_drv].
  - repeat split; reflexivity.
  - destruct (is_drv x) eqn:D.
    + apply is_drv_eq in D. subst. cbn [app]. repeat split; try reflexivity; discriminate.
    + destruct (split_drv q) as [[pre post] found]. destruct IH as (E & P & C & N).
      assert (driver =? x = false) as NX by (unfold is_drv in D; lia).
      refine (conj _ (conj P (conj _ _))).
      * cbn [app]. rewrite <- E. reflexivity.
      * rewrite count_z_cons, C, NX. reflexivity.
      * intros F. rewrite count_z_cons, (N F), NX. reflexivity.
Qed.

Lemma split_drv_counts q y :
  let '(pre, post, found) := split_drv q in
  count_z y q = (count_z y pre + count_z y (if found then [driver] else []) + count_z y post)%nat.
Proof.
  pose proof (split_drv_spec q) as S. destruct (split_drv q) as [[pre post] found]. destruct S as (E & P & _).
  rewrite E at 1. destruct found.
  - rewrite count_z_app, !count_z_cons, count_z_nil. lia.
  - rewrite (P eq_refl), app_nil_r, !count_z_nil. lia.
Qed.

(* await_suspend: the object is emptied, its array freed; every handle of the list, everything that was queued, and
   the awaiter (once) are either resumed before the awaiter continues or left in the queue behind it *)
Lemma await_suspend_spec q s : wf_sp s -> sp_count s <> 0 ->
  let '(s2, q', r, c, pu, po) := await_suspend q s in
  s2 = mkSp 0 [] (cap s) (typed s) (val s) /\ c = (0, arr s) /\
  (forall y, (count_z y q + count_z y (hs s) + count_z y (self_push s) = count_z y r + count_z y q')%nat) /\
  (count_z driver q = 0 -> count_z driver (hs s) <= 1 -> count_z driver r = 1 /\ count_z driver q' = 0)%nat /\
  (exists t, r = t ++ [driver] /\ count_z driver t = 0%nat).
Proof.
  intros W NZ. unfold await_suspend, self_push.
  destruct (sp_count s =? 0) eqn:Z0; [lia|].
  pose proof (sp_pop_spec s W) as Q. cbn zeta in Q.
  destruct (sp_pop s) as [s1 out]. cbn [fst snd] in Q. destruct Q as (W1 & V1 & T1 & C1 & A1 & H1 & _).
  unfold sp_clear_internal.
  assert (forall y, count_z y (hs s) = (count_z y (hs s1) + count_z y (olist out))%nat) as HC
    by (intros y; rewrite H1, count_z_app; reflexivity).
  destruct (existsb is_drv (olist out)) eqn:DO.
  - (* the awaiter's own handle was the last one *)
    cbn [orb app]. rewrite app_nil_r.
    assert (olist out = [driver]) as OD.
    { destruct out as [x|]; cbn [olist existsb] in *; [|discriminate]. rewrite orb_false_r in DO.
      apply is_drv_eq in DO. subst. reflexivity. }
    refine (conj _ (conj _ (conj _ (conj _ _)))).
    + rewrite V1, T1, C1. reflexivity.
    + f_equal. exact A1.
    + intros y. rewrite HC, OD, count_z_nil, count_z_app. lia.
    + intros Q0 LE. rewrite HC, OD in LE. rewrite count_z_app. split; [reflexivity|].
      assert (count_z driver [driver] = 1%nat) as ONE by reflexivity. lia.
    + exists []. split; reflexivity.
  - cbn [orb].
    set (me_in := existsb is_drv (hs s1)).
    set (q1 := q ++ hs s1 ++ (if me_in then [] else [driver])).
    pose proof (split_drv_spec q1) as SP. pose proof (split_drv_counts q1) as SC.
    destruct (split_drv q1) as [[pre post] found]. destruct SP as (E & P & CP & NF).
    assert (count_z driver (olist out) = 0%nat) as CO by (apply count_drv_existsb; exact DO).
    assert (found = true) as FT.
    { destruct found; [reflexivity|]. specialize (NF eq_refl). unfold q1 in NF. rewrite !count_z_app in NF.
      unfold me_in in NF. destruct (existsb is_drv (hs s1)) eqn:M.
      - apply existsb_drv_count in M. lia.
      - assert (count_z driver [driver] = 1%nat) by reflexivity. lia. }
    subst found. cbv iota in SC |- *.
    refine (conj _ (conj _ (conj _ (conj _ _)))).
    + rewrite V1, T1, C1. reflexivity.
    + f_equal. exact A1.
    + intros y. specialize (SC y). unfold q1 in SC. rewrite !count_z_app in SC. rewrite !count_z_app, HC.
      fold me_in. destruct me_in; rewrite ?count_z_nil in *; lia.
    + intros Q0 LE. rewrite !count_z_app, CO, CP. split; [reflexivity|].
      specialize (SC driver). unfold q1 in SC. rewrite !count_z_app in SC. rewrite HC, CO in LE. rewrite CP in SC.
      assert (count_z driver [driver] = 1%nat) as ONE by reflexivity.
      unfold me_in in SC. destruct (existsb is_drv (hs s1)) eqn:M.
      * rewrite count_z_nil in SC. lia.
      * apply count_drv_existsb in M. lia.
    + exists (olist out ++ pre). split; [rewrite <- app_assoc; reflexivity|]. rewrite count_z_app. lia.
Qed.

(* ---------- the environment ---------- *)
Definition arrs_o (o : option sp) : Z := match o with Some s => arr s | None => 0 end.
Fixpoint arrs (l : list (option sp)) : Z := match l with [] => 0 | o :: t => arrs_o o + arrs t end.
Definition wf_objs (l : list (option sp)) : Prop := forall i s, get l i = Some s -> wf_sp s.
Definition wf_o (o : option sp) : Prop := match o with Some s => wf_sp s | None => True end.

Lemma held_objs_ensure x (l : list (option sp)) i : count_z x (held_objs (ensure l i)) = count_z x (held_objs l).
Proof.
  revert l; induction i as [|i IH]; intros [|y l]; cbn [ensure held_objs flat_map hso app]; try reflexivity.
  - specialize (IH []). cbn [held_objs flat_map] in IH. exact IH.
  - rewrite !count_z_app. specialize (IH l). unfold held_objs in IH. rewrite IH. reflexivity.
Qed.

Lemma arrs_ensure (l : list (option sp)) i : arrs (ensure l i) = arrs l.
Proof.
  revert l; induction i as [|i IH]; intros [|y l]; cbn [ensure arrs arrs_o]; try reflexivity.
  - specialize (IH []). cbn [arrs] in IH. lia.
  - rewrite IH. reflexivity.
Qed.

Lemma get_alt {A} (l : list (option A)) i : get l i = match nth_error l i with Some o => o | None => None end.
Proof. unfold get. destruct (nth_error l i) as [[?|]|]; reflexivity. Qed.

Lemma held_set_nth x (l : list (option sp)) i v : (i < length l)%nat ->
  (count_z x (held_objs (set_nth l i v)) + count_z x (hso (get l i)) = count_z x (hso v) + count_z x (held_objs l))%nat.
Proof.
  revert i; induction l as [|y l IH]; intros [|i] H; cbn [length] in H; try lia.
  - cbn [set_nth held_objs flat_map]. rewrite !count_z_app. rewrite get_alt. cbn [nth_error]. lia.
  - cbn [set_nth held_objs flat_map]. rewrite !count_z_app.
    assert (i < length l)%nat as H' by lia. specialize (IH i H').
    rewrite get_alt in *. cbn [nth_error]. unfold held_objs in IH. lia.
Qed.

Lemma arrs_set_nth (l : list (option sp)) i v : (i < length l)%nat ->
  arrs (set_nth l i v) + arrs_o (get l i) = arrs_o v + arrs l.
Proof.
  revert i; induction l as [|y l IH]; intros [|i] H; cbn [length] in H; try lia.
  - cbn [set_nth arrs]. rewrite get_alt. cbn [nth_error]. lia.
  - cbn [set_nth arrs]. assert (i < length l)%nat as H' by lia. specialize (IH i H').
    rewrite get_alt in *. cbn [nth_error]. lia.
Qed.

Lemma held_put x (l : list (option sp)) i v :
  (count_z x (held_objs (put l i v)) + count_z x (hso (get l i)) = count_z x (hso v) + count_z x (held_objs l))%nat.
Proof.
  unfold put. pose proof (held_set_nth x (ensure l i) i v (ensure_length l i)) as H.
  rewrite get_ensure, held_objs_ensure in H. exact H.
Qed.

Lemma arrs_put (l : list (option sp)) i v : arrs (put l i v) + arrs_o (get l i) = arrs_o v + arrs l.
Proof.
  unfold put. pose proof (arrs_set_nth (ensure l i) i v (ensure_length l i)) as H.
  rewrite get_ensure, arrs_ensure in H. exact H.
Qed.

Lemma wf_put l i v : wf_objs l -> wf_o v -> wf_objs (put l i v).
Proof.
  intros W V j s G. destruct (Nat.eq_dec i j) as [E|E].
  - subst. rewrite get_put_same in G. subst. exact V.
  - rewrite get_put_other in G by exact E. eapply W; eassumption.
Qed.

(* replacing one / two objects: what happens to well-formedness, to the multiset of held handles and to the arrays *)
Lemma put1_spec l o v : wf_objs l -> wf_o v ->
  wf_objs (put l o v) /\
  (forall y, (count_z y (held_objs (put l o v)) + count_z y (hso (get l o)) = count_z y (hso v) + count_z y (held_objs l))%nat) /\
  arrs (put l o v) + arrs_o (get l o) = arrs_o v + arrs l.
Proof.
  intros W V. refine (conj (wf_put _ _ _ W V) (conj (fun y => held_put y l o v) (arrs_put l o v))).
Qed.

Lemma put2_spec l o1 o2 v1 v2 : o1 <> o2 -> wf_objs l -> wf_o v1 -> wf_o v2 ->
  wf_objs (put (put l o1 v1) o2 v2) /\
  (forall y, (count_z y (held_objs (put (put l o1 v1) o2 v2)) + count_z y (hso (get l o1)) + count_z y (hso (get l o2))
              = count_z y (hso v1) + count_z y (hso v2) + count_z y (held_objs l))%nat) /\
  arrs (put (put l o1 v1) o2 v2) + arrs_o (get l o1) + arrs_o (get l o2) = arrs_o v1 + arrs_o v2 + arrs l.
Proof.
  intros E W V1 V2. refine (conj (wf_put _ _ _ (wf_put _ _ _ W V1) V2) (conj _ _)).
  - intros y. pose proof (held_put y (put l o1 v1) o2 v2) as P2. rewrite get_put_other in P2 by exact E.
    pose proof (held_put y l o1 v1) as P1. lia.
  - pose proof (arrs_put (put l o1 v1) o2 v2) as P2. rewrite get_put_other in P2 by exact E.
    pose proof (arrs_put l o1 v1) as P1. lia.
Qed.

Lemma count_z_rev y l : count_z y (rev l) = count_z y l.
Proof. apply counts_of_perm. apply Permutation_sym, Permutation_rev. Qed.

(* ready coroutines handed in by an op (only when the op was accepted); `o << co_await self()` hands in the awaiter *)
Definition handed_op (x : op) (ob : obs) : list Z :=
  if o_st ob =? 0 then
    match x with
    | ONewH _ h _ | OAdd _ h | ONewVoidH _ h | OAddFail _ h => [h]
    | OCreate _ _ _ l | OCreateThrow _ _ _ l => l
    | OAddSelf _ => [driver]
    | _ => []
    end
  else [].

(* the awaiter's own handle as handed in by the await itself (pause always; await_suspend unless it is in the list;
   a co_await that does not suspend simply continues: counted the same way) *)
Definition spush (coro : bool) (e : env) (x : op) : list Z :=
  if coro then
    match x with
    | OAwait o | OAwaitL o => match get (objs e) o with Some s => self_push s | None => [] end
    | OFlush => [driver]
    | _ => []
    end
  else [].

Definition wf_env (e : env) : Prop := wf_objs (objs e).

Definition step_ok (coro : bool) (e : env) (x : op) (r : env * obs) : Prop :=
  wf_env (fst r) /\
  (forall y, (count_z y (handed_op x (snd r)) + count_z y (held e) + count_z y (spush coro e x) =
              count_z y (o_res (snd r)) + count_z y (held (fst r)))%nat) /\
  arrs (objs (fst r)) - arrs (objs e) = fst (o_cost (snd r)) - snd (o_cost (snd r)).

Lemma step_ok_rej coro e x : wf_env e -> spush coro e x = [] -> step_ok coro e x (e, rejected).
Proof.
  intros W S. unfold step_ok. cbn [fst snd]. refine (conj W (conj _ _)).
  - intros y. rewrite S. unfold handed_op, rejected. cbn [o_st o_res]. change (1 =? 0) with false. rewrite !count_z_nil. lia.
  - unfold rejected. cbn [o_cost fst snd]. lia.
Qed.

Ltac rej W := apply step_ok_rej; [exact W | unfold spush; try reflexivity; match goal with |- (if ?c then _ else _) = _ => destruct c; reflexivity end].

Ltac norm_goal :=
  unfold handed_op, ok_obs, held, upd; cbn [objs queue o_res o_st o_cost fst snd hso arrs_o];
  change (0 =? 0) with true; cbv iota; rewrite ?count_z_app, ?count_z_nil.

Lemma step_spec coro e x : wf_env e -> step_ok coro e x (step coro e x).
Proof.
  intros W. unfold wf_env in W.
  destruct x as [o v|o h v|o h|o1 o2|o1 o2|o1 o2 v|o|o|o|o| |o1 o2|o t v l|o|o h|o k|o|o|o1 o2|o h|o t v l| ]; cbn [step].
  - (* NewV *)
    destruct (get (objs e) o) eqn:G; [rej W|].
    pose proof (put1_spec (objs e) o (Some (mkSp 0 [] 0 true v)) W (wf_empty _ _ _)) as (PW & PC & PA).
    rewrite G in PC, PA. unfold step_ok, spush. cbn [fst snd]. refine (conj PW (conj _ _)).
    + intros y. specialize (PC y). norm_goal. cbn [hso hs] in PC. rewrite ?count_z_nil in *. destruct coro; rewrite ?count_z_nil; lia.
    + norm_goal. cbn [arrs_o] in PA. rewrite arr_empty in PA. lia.
  - (* NewH *)
    destruct (h <=? 0) eqn:HP; [rej W|].
    destruct (get (objs e) o) eqn:G; [rej W|].
    pose proof (put1_spec (objs e) o (Some (mkSp 2 [h] 0 true v)) W (wf_single _ _ _ _)) as (PW & PC & PA).
    rewrite G in PC, PA. unfold step_ok, spush. cbn [fst snd]. refine (conj PW (conj _ _)).
    + intros y. specialize (PC y). norm_goal. cbn [hso hs] in PC. rewrite ?count_z_nil in *. destruct coro; rewrite ?count_z_nil; lia.
    + norm_goal. cbn [arrs_o] in PA. change (arr (mkSp 2 [h] 0 true v)) with 0 in PA. lia.
  - (* Add *)
    destruct (h <=? 0) eqn:HP; [rej W|].
    destruct (get (objs e) o) as [s|] eqn:G; [|rej W].
    pose proof (sp_add_spec s h (W _ _ G)) as Q. cbn zeta in Q.
    destruct (sp_add s h) as [s1 c]. cbn [fst snd] in Q. destruct Q as (W1 & H1 & V1 & T1 & A1).
    pose proof (put1_spec (objs e) o (Some s1) W W1) as (PW & PC & PA).
    rewrite G in PC, PA. unfold step_ok, spush. cbn [fst snd]. refine (conj PW (conj _ _)).
    + intros y. specialize (PC y). norm_goal. cbn [hso] in PC. rewrite H1, count_z_app in PC. destruct coro; rewrite ?count_z_nil; lia.
    + norm_goal. cbn [arrs_o] in PA. lia.
  - (* Merge *)
    destruct (Nat.eqb_spec o1 o2) as [E|E]; [rej W|].
    destruct (get (objs e) o1) as [d|] eqn:G1; [|rej W].
    destruct (get (objs e) o2) as [s|] eqn:G2; [|rej W].
    pose proof (sp_merge_spec d s (W _ _ G1)) as Q. cbn zeta in Q.
    destruct (sp_merge d s) as [[d1 s1] c]. cbn [fst snd] in Q. destruct Q as (W1 & H1 & V1 & T1 & S1 & A1). subst s1.
    pose proof (put2_spec (objs e) o1 o2 (Some d1) (Some (mkSp 0 [] (cap s) (typed s) (val s))) E W W1 (wf_empty _ _ _)) as (PW & PC & PA).
    rewrite G1, G2 in PC, PA. unfold step_ok, spush. cbn [fst snd]. refine (conj PW (conj _ _)).
    + intros y. specialize (PC y). norm_goal. cbn [hso hs] in PC. rewrite H1, count_z_app in PC. rewrite ?count_z_nil in *. destruct coro; rewrite ?count_z_nil; lia.
    + norm_goal. cbn [arrs_o] in PA. rewrite arr_empty in PA. lia.
  - (* MoveCtor *)
    destruct (Nat.eqb_spec o1 o2) as [E|E]; [rej W|].
    destruct (get (objs e) o1) as [d|] eqn:G1; [rej W|].
    destruct (get (objs e) o2) as [s|] eqn:G2; [|rej W].
    pose proof (put2_spec (objs e) o1 o2 (Some s) (Some (moved_val (reset_src s))) E W (W _ _ G2) (wf_empty _ _ _)) as (PW & PC & PA).
    rewrite G1, G2 in PC, PA. unfold step_ok, spush. cbn [fst snd]. refine (conj PW (conj _ _)).
    + intros y. specialize (PC y). norm_goal. cbn [hso hs moved_val reset_src] in PC. rewrite ?count_z_nil in *. destruct coro; rewrite ?count_z_nil; lia.
    + norm_goal. cbn [arrs_o] in PA. change (arr (moved_val (reset_src s))) with 0 in PA. lia.
  - (* MoveBase *)
    destruct (Nat.eqb_spec o1 o2) as [E|E]; [rej W|].
    destruct (get (objs e) o1) as [d|] eqn:G1; [rej W|].
    destruct (get (objs e) o2) as [s|] eqn:G2; [|rej W].
    assert (wf_sp (mkSp (cf s) (hs s) (cap s) true v)) as WN by (apply (wf_same s); auto; exact (W _ _ G2)).
    pose proof (put2_spec (objs e) o1 o2 (Some (mkSp (cf s) (hs s) (cap s) true v)) (Some (reset_src s)) E W WN (wf_empty _ _ _)) as (PW & PC & PA).
    rewrite G1, G2 in PC, PA. unfold step_ok, spush. cbn [fst snd]. refine (conj PW (conj _ _)).
    + intros y. specialize (PC y). norm_goal. cbn [hso hs reset_src] in PC. rewrite ?count_z_nil in *. destruct coro; rewrite ?count_z_nil; lia.
    + norm_goal. cbn [arrs_o] in PA. change (arr (reset_src s)) with 0 in PA.
      change (arr (mkSp (cf s) (hs s) (cap s) true v)) with (arr s) in PA. lia.
  - (* Pop *)
    destruct (get (objs e) o) as [s|] eqn:G; [|rej W].
    destruct (has_drv s) eqn:HD; [rej W|].
    pose proof (sp_pop_spec s (W _ _ G)) as Q. cbn zeta in Q.
    destruct (sp_pop s) as [s1 h]. cbn [fst snd] in Q. destruct Q as (W1 & V1 & T1 & C1 & A1 & H1 & _).
    pose proof (put1_spec (objs e) o (Some s1) W W1) as (PW & PC & PA).
    rewrite G in PC, PA. unfold step_ok, spush. cbn [fst snd]. refine (conj PW (conj _ _)).
    + intros y. specialize (PC y). norm_goal. cbn [hso] in PC. rewrite H1, count_z_app in PC. destruct coro; rewrite ?count_z_nil; lia.
    + norm_goal. cbn [arrs_o] in PA. lia.
  - (* Clear *)
    destruct (get (objs e) o) as [s|] eqn:G; [|rej W].
    destruct (has_drv s) eqn:HD; [rej W|].
    unfold suspend_now, sp_clear_internal.
    pose proof (put1_spec (objs e) o (Some (mkSp 0 [] (cap s) (typed s) (val s))) W (wf_empty _ _ _)) as (PW & PC & PA).
    rewrite G in PC, PA. cbn [hso hs arrs_o] in PC, PA. rewrite arr_empty in PA.
    destruct coro; unfold step_ok, spush; cbn [fst snd]; (refine (conj PW (conj _ _));
      [intros y; specialize (PC y); unfold handed_op, held; cbn [objs queue o_res o_st o_cost fst snd]; change (0 =? 0) with true; cbv iota;
       rewrite ?count_z_app, ?count_z_nil in *; lia
      |cbn [objs o_cost fst snd]; unfold arr in PA; destruct (sp_flag s); lia]).
  - (* Destroy *)
    destruct (get (objs e) o) as [s|] eqn:G; [|rej W].
    destruct (has_drv s) eqn:HD; [rej W|].
    unfold suspend_now, sp_clear_internal.
    pose proof (put1_spec (objs e) o None W I) as (PW & PC & PA).
    rewrite G in PC, PA. cbn [hso hs arrs_o] in PC, PA.
    destruct coro; unfold step_ok, spush; cbn [fst snd]; (refine (conj PW (conj _ _));
      [intros y; specialize (PC y); unfold handed_op, held; cbn [objs queue o_res o_st o_cost fst snd]; change (0 =? 0) with true; cbv iota;
       rewrite ?count_z_app, ?count_z_nil in *; lia
      |cbn [objs o_cost fst snd]; unfold arr in PA; destruct (sp_flag s); lia]).
  - (* Await *)
    destruct coro; cbn [negb]; [|rej W].
    destruct (get (objs e) o) as [s|] eqn:G; [|apply step_ok_rej; [exact W|unfold spush; rewrite G; reflexivity]].
    pose proof (W _ _ G) as Ws.
    pose proof (put1_spec (objs e) o (Some (moved_val (reset_src s))) W (wf_empty _ _ _)) as (PW & PC & PA).
    rewrite G in PC, PA. cbn [hso arrs_o] in PC, PA. change (arr (moved_val (reset_src s))) with 0 in PA.
    change (hs (moved_val (reset_src s))) with (@nil Z) in PC.
    unfold step_ok, spush. rewrite G.
    destruct (sp_count s =? 0) eqn:C.
    + unfold sp_clear_internal. cbn [fst snd].
      assert (hs s = []) as HE by (apply zlen_nil_inv; destruct Ws as (_ & HL & _); unfold sp_count in C; lia).
      unfold self_push. rewrite C. refine (conj PW (conj _ _)).
      * intros y. specialize (PC y). norm_goal. rewrite HE in PC. rewrite ?count_z_nil in *. lia.
      * norm_goal. unfold arr in PA. destruct (sp_flag s); lia.
    + assert (sp_count s <> 0) as NZ by lia.
      pose proof (await_suspend_spec (queue e) s Ws NZ) as Q.
      destruct (await_suspend (queue e) s) as [[[[[s2 q'] r] c] pu] po]. destruct Q as (_ & CE & QC & _). subst c.
      cbn [fst snd]. refine (conj PW (conj _ _)).
      * intros y. specialize (PC y). specialize (QC y). unfold handed_op, held. cbn [objs queue o_res o_st].
        change (0 =? 0) with true. cbv iota. rewrite ?count_z_app, ?count_z_nil in *. lia.
      * cbn [objs o_cost fst snd]. lia.
  - (* Flush *)
    destruct coro; cbn [negb]; [|rej W].
    pose proof (split_drv_counts (queue e ++ [driver])) as SC.
    destruct (split_drv (queue e ++ [driver])) as [[pre post] found].
    unfold step_ok, spush. cbn [fst snd]. refine (conj W (conj _ _)).
    + intros y. specialize (SC y). unfold handed_op, held. cbn [objs queue o_res o_st]. change (0 =? 0) with true. cbv iota.
      rewrite ?count_z_app, ?count_z_nil in *. lia.
    + cbn [objs o_cost fst snd]. lia.
  - (* MoveAssign *)
    destruct (Nat.eqb_spec o1 o2) as [E|E]; [rej W|].
    destruct (get (objs e) o1) as [d|] eqn:G1; [|rej W].
    destruct (get (objs e) o2) as [s|] eqn:G2; [|rej W].
    destruct (typed d && negb (typed s)) eqn:TT; [rej W|].
    pose proof (sp_merge_spec d s (W _ _ G1)) as Q. cbn zeta in Q.
    destruct (sp_merge d s) as [[d1 s1] c]. cbn [fst snd] in Q. destruct Q as (W1 & H1 & V1 & T1 & S1 & A1). subst s1.
    set (d2 := if typed d then set_val d1 (val s) else d1).
    set (s2 := if typed d then moved_val (mkSp 0 [] (cap s) (typed s) (val s)) else mkSp 0 [] (cap s) (typed s) (val s)).
    assert (wf_sp d2 /\ hs d2 = hs d ++ hs s /\ arr d2 = arr d1) as (W2 & H2 & A2)
      by (unfold d2; destruct (typed d); [refine (conj (wf_same d1 _ eq_refl eq_refl eq_refl W1) (conj H1 eq_refl))|auto]).
    assert (wf_sp s2 /\ hs s2 = [] /\ arr s2 = 0) as (W3 & H3 & A3)
      by (unfold s2; destruct (typed d); (split; [exact (wf_empty _ _ _)|split; reflexivity])).
    clearbody d2 s2.
    pose proof (put2_spec (objs e) o1 o2 (Some d2) (Some s2) E W W2 W3) as (PW & PC & PA).
    rewrite G1, G2 in PC, PA. unfold step_ok, spush. cbn [fst snd]. refine (conj PW (conj _ _)).
    + intros y. specialize (PC y). norm_goal. cbn [hso] in PC. rewrite H2, H3, count_z_app in PC. rewrite ?count_z_nil in *. destruct coro; rewrite ?count_z_nil; lia.
    + norm_goal. cbn [arrs_o] in PA. lia.
  - (* Create *)
    destruct (negb (forallb (fun h => 0 <? h) l)) eqn:FP; [rej W|].
    destruct (get (objs e) o) eqn:G; [rej W|].
    pose proof (sp_add_all_spec (mkSp 0 [] 0 false 0) (rev l) (wf_empty _ _ _)) as Q. cbn zeta in Q.
    destruct (sp_add_all (mkSp 0 [] 0 false 0) (rev l)) as [s1 c]. cbn [fst snd] in Q. destruct Q as (W1 & H1 & V1 & T1 & A1).
    cbn [hs app] in H1. rewrite arr_empty in A1.
    set (s2 := mkSp (cf s1) (hs s1) (cap s1) t (if t then v else 0)).
    assert (wf_sp s2) as W2 by (apply (wf_same s1); auto).
    pose proof (put1_spec (objs e) o (Some s2) W W2) as (PW & PC & PA).
    rewrite G in PC, PA. unfold step_ok, spush. cbn [fst snd]. refine (conj PW (conj _ _)).
    + intros y. specialize (PC y). norm_goal. cbn [hso s2 hs] in PC. rewrite H1, count_z_rev in PC. rewrite ?count_z_nil in *.
      destruct coro; rewrite ?count_z_nil; lia.
    + norm_goal. cbn [arrs_o] in PA. change (arr s2) with (arr s1) in PA. lia.
  - (* NewVoid *)
    destruct (get (objs e) o) eqn:G; [rej W|].
    pose proof (put1_spec (objs e) o (Some (mkSp 0 [] 0 false 0)) W (wf_empty _ _ _)) as (PW & PC & PA).
    rewrite G in PC, PA. unfold step_ok, spush. cbn [fst snd]. refine (conj PW (conj _ _)).
    + intros y. specialize (PC y). norm_goal. cbn [hso hs] in PC. rewrite ?count_z_nil in *. destruct coro; rewrite ?count_z_nil; lia.
    + norm_goal. cbn [arrs_o] in PA. rewrite arr_empty in PA. lia.
  - (* NewVoidH *)
    destruct (h <=? 0) eqn:HP; [rej W|].
    destruct (get (objs e) o) eqn:G; [rej W|].
    pose proof (put1_spec (objs e) o (Some (mkSp 2 [h] 0 false 0)) W (wf_single _ _ _ _)) as (PW & PC & PA).
    rewrite G in PC, PA. unfold step_ok, spush. cbn [fst snd]. refine (conj PW (conj _ _)).
    + intros y. specialize (PC y). norm_goal. cbn [hso hs] in PC. rewrite ?count_z_nil in *. destruct coro; rewrite ?count_z_nil; lia.
    + norm_goal. cbn [arrs_o] in PA. change (arr (mkSp 2 [h] 0 false 0)) with 0 in PA. lia.
  - (* Read *)
    destruct (negb ((k =? 0) || (k =? 1))); [rej W|].
    destruct (get (objs e) o) as [s|] eqn:G; [|rej W].
    destruct (typed s); [|rej W].
    unfold step_ok, spush. cbn [fst snd]. refine (conj W (conj _ _)).
    + intros y. norm_goal. destruct coro; rewrite ?count_z_nil; lia.
    + norm_goal. lia.
  - (* AwaitL *)
    destruct coro; cbn [negb]; [|rej W].
    destruct (get (objs e) o) as [s|] eqn:G; [|apply step_ok_rej; [exact W|unfold spush; rewrite G; reflexivity]].
    pose proof (W _ _ G) as Ws.
    unfold step_ok, spush. rewrite G.
    destruct (sp_count s =? 0) eqn:C.
    + cbn [fst snd]. unfold self_push. rewrite C. refine (conj W (conj _ _)).
      * intros y. norm_goal. lia.
      * norm_goal. lia.
    + assert (sp_count s <> 0) as NZ by lia.
      pose proof (await_suspend_spec (queue e) s Ws NZ) as Q.
      destruct (await_suspend (queue e) s) as [[[[[s2 q'] r] c] pu] po]. destruct Q as (S2 & CE & QC & _). subst c s2.
      pose proof (put1_spec (objs e) o (Some (mkSp 0 [] (cap s) (typed s) (val s))) W (wf_empty _ _ _)) as (PW & PC & PA).
      rewrite G in PC, PA. cbn [hso hs arrs_o] in PC, PA. rewrite arr_empty in PA.
      cbn [fst snd]. refine (conj PW (conj _ _)).
      * intros y. specialize (PC y). specialize (QC y). unfold handed_op, held. cbn [objs queue o_res o_st].
        change (0 =? 0) with true. cbv iota. rewrite ?count_z_app, ?count_z_nil in *. lia.
      * cbn [objs o_cost fst snd]. lia.
  - (* AddSelf *)
    destruct coro; cbn [negb]; [|rej W].
    destruct (existsb is_drv (held e)) eqn:HD; [rej W|].
    destruct (get (objs e) o) as [s|] eqn:G; [|rej W].
    pose proof (sp_add_spec s driver (W _ _ G)) as Q. cbn zeta in Q.
    destruct (sp_add s driver) as [s1 c]. cbn [fst snd] in Q. destruct Q as (W1 & H1 & V1 & T1 & A1).
    pose proof (put1_spec (objs e) o (Some s1) W W1) as (PW & PC & PA).
    rewrite G in PC, PA. unfold step_ok, spush. cbn [fst snd]. refine (conj PW (conj _ _)).
    + intros y. specialize (PC y). norm_goal. cbn [hso] in PC. rewrite H1, count_z_app in PC. lia.
    + norm_goal. cbn [arrs_o] in PA. lia.
  - (* Swap *)
    destruct (Nat.eqb_spec o1 o2) as [E|E]; [rej W|].
    destruct (get (objs e) o1) as [a|] eqn:G1; [|rej W].
    destruct (get (objs e) o2) as [b|] eqn:G2; [|rej W].
    destruct (negb (Bool.eqb (typed a) (typed b))) eqn:TT; [rej W|].
    pose proof (sp_merge_spec (moved_val (reset_src a)) b (wf_empty _ _ _)) as Q. cbn zeta in Q.
    destruct (sp_merge (moved_val (reset_src a)) b) as [[a1 b1] c1]. cbn [fst snd] in Q.
    destruct Q as (W1 & H1 & V1 & T1 & S1 & A1). subst b1. cbn [hs moved_val reset_src app] in H1.
    change (arr (moved_val (reset_src a))) with 0 in A1.
    set (a2 := if typed a then set_val a1 (val b) else a1).
    set (b2 := if typed a then moved_val (mkSp 0 [] (cap b) (typed b) (val b)) else mkSp 0 [] (cap b) (typed b) (val b)).
    assert (wf_sp a2 /\ hs a2 = hs b /\ arr a2 = arr a1) as (W2 & H2 & A2)
      by (unfold a2; destruct (typed a); [refine (conj (wf_same a1 _ eq_refl eq_refl eq_refl W1) (conj H1 eq_refl))|auto]).
    assert (wf_sp b2 /\ hs b2 = [] /\ arr b2 = 0) as (W3 & H3 & A3)
      by (unfold b2; destruct (typed a); (split; [exact (wf_empty _ _ _)|split; reflexivity])).
    clearbody a2 b2.
    pose proof (sp_merge_spec b2 a W3) as Q. cbn zeta in Q.
    destruct (sp_merge b2 a) as [[b3 t3] c2]. cbn [fst snd] in Q. destruct Q as (W4 & H4 & V4 & T4 & _ & A4).
    rewrite H3 in H4. cbn [app] in H4. rewrite A3 in A4.
    set (b4 := if typed a then set_val b3 (val a) else b3).
    assert (wf_sp b4 /\ hs b4 = hs a /\ arr b4 = arr b3) as (W5 & H5 & A5)
      by (unfold b4; destruct (typed a); [refine (conj (wf_same b3 _ eq_refl eq_refl eq_refl W4) (conj H4 eq_refl))|auto]).
    clearbody b4.
    pose proof (put2_spec (objs e) o1 o2 (Some a2) (Some b4) E W W2 W5) as (PW & PC & PA).
    rewrite G1, G2 in PC, PA. unfold step_ok, spush. cbn [fst snd]. refine (conj PW (conj _ _)).
    + intros y. specialize (PC y). norm_goal. cbn [hso] in PC. rewrite H2, H5 in PC. destruct coro; rewrite ?count_z_nil; lia.
    + norm_goal. cbn [arrs_o] in PA. unfold cadd. cbn [fst snd]. lia.
  - (* AddFail *)
    destruct (h <=? 0) eqn:HP; [rej W|].
    destruct (get (objs e) o) as [s|] eqn:G; [|rej W].
    destruct (if sp_flag s then sp_count s =? cap s else negb (sp_count s <? inline_count)) eqn:NA.
    + unfold step_ok, spush. cbn [fst snd]. refine (conj W (conj _ _)).
      * intros y. unfold handed_op. cbn [o_st o_res]. change (2 =? 0) with false. cbv iota.
        destruct coro; rewrite ?count_z_nil; lia.
      * cbn [o_cost fst snd]. lia.
    + pose proof (sp_add_spec s h (W _ _ G)) as Q. cbn zeta in Q.
      destruct (sp_add s h) as [s1 c]. cbn [fst snd] in Q. destruct Q as (W1 & H1 & V1 & T1 & A1).
      pose proof (put1_spec (objs e) o (Some s1) W W1) as (PW & PC & PA).
      rewrite G in PC, PA. unfold step_ok, spush. cbn [fst snd]. refine (conj PW (conj _ _)).
      * intros y. specialize (PC y). norm_goal. cbn [hso] in PC. rewrite H1, count_z_app in PC. destruct coro; rewrite ?count_z_nil; lia.
      * norm_goal. cbn [arrs_o] in PA. lia.
  - (* CreateThrow *)
    destruct (negb (forallb (fun h => 0 <? h) l)) eqn:FP; [rej W|].
    destruct (get (objs e) o) eqn:G; [rej W|].
    destruct coro; unfold step_ok, spush; cbn [fst snd]; (refine (conj W (conj _ _));
      [intros y; unfold handed_op, held; cbn [objs queue o_res o_st]; change (0 =? 0) with true; cbv iota;
       rewrite ?count_z_app, ?count_z_nil; lia
      |cbn [objs o_cost fst snd]; lia]).
  - rej W.
Qed.

(* ---------- runs of any length ---------- *)
Fixpoint handed_run (ops : list op) (os : list obs) : list Z :=
  match ops, os with
  | x :: t, o :: u => handed_op x o ++ handed_run t u
  | _, _ => []
  end.
Definition resumed_run (os : list obs) : list Z := flat_map o_res os.
Fixpoint spush_run (coro : bool) (e : env) (ops : list op) : list Z :=
  match ops with
  | [] => []
  | x :: t => spush coro e x ++ spush_run coro (fst (step coro e x)) t
  end.
Fixpoint allocs_run (os : list obs) : Z := match os with [] => 0 | o :: t => fst (o_cost o) + allocs_run t end.
Fixpoint frees_run (os : list obs) : Z := match os with [] => 0 | o :: t => snd (o_cost o) + frees_run t end.

Lemma run_spec coro ops : forall e, wf_env e ->
  let r := run_from coro e ops in
  wf_env (snd r) /\
  (forall y, (count_z y (handed_run ops (fst r)) + count_z y (held e) + count_z y (spush_run coro e ops) =
              count_z y (resumed_run (fst r)) + count_z y (held (snd r)))%nat) /\
  arrs (objs (snd r)) - arrs (objs e) = allocs_run (fst r) - frees_run (fst r) /\
  length (fst r) = length ops.
Proof.
  induction ops as [|x ops IH]; intros e W; cbn [run_from spush_run].
  - cbn [fst snd handed_run resumed_run flat_map allocs_run frees_run length].
    refine (conj W (conj _ (conj _ eq_refl))); [intros y; rewrite !count_z_nil|]; lia.
  - pose proof (step_spec coro e x W) as S. unfold step_ok in S.
    destruct (step coro e x) as [e1 o]. cbn [fst snd] in S. destruct S as (W1 & C1 & A1).
    specialize (IH e1 W1). cbn zeta in IH.
    destruct (run_from coro e1 ops) as [os e2]. cbn [fst snd] in *.
    destruct IH as (W2 & C2 & A2 & L2).
    refine (conj W2 (conj _ (conj _ _))).
    + intros y. specialize (C1 y). specialize (C2 y).
      cbn [handed_run resumed_run flat_map]. rewrite !count_z_app. unfold resumed_run in C2. lia.
    + cbn [allocs_run frees_run]. lia.
    + cbn [length]. lia.
Qed.

Lemma wf_env0 : wf_env env0.
Proof. intros i s G. unfold env0, get in G. cbn in G. destruct i; discriminate. Qed.

(* the awaiter's handle is the only thing an await adds *)
Lemma self_push_only s y : y <> driver -> count_z y (self_push s) = 0%nat.
Proof.
  intros N. unfold self_push. assert (count_z y [driver] = 0%nat) as Z1.
  { rewrite count_z_cons, count_z_nil. destruct (y =? driver) eqn:E; [lia|reflexivity]. }
  destruct (sp_count s =? 0); [exact Z1|]. destruct (sp_pop s) as [s1 out].
  destruct (existsb is_drv (olist out) || existsb is_drv (hs s1)); [reflexivity|exact Z1].
Qed.

Lemma spush_only coro e x y : y <> driver -> count_z y (spush coro e x) = 0%nat.
Proof.
  intros N. unfold spush. destruct coro; [|reflexivity].
  destruct x; try reflexivity.
  - destruct (get (objs e) o); [apply self_push_only; exact N|reflexivity].
  - rewrite count_z_cons, count_z_nil. destruct (y =? driver) eqn:E; [lia|reflexivity].
  - destruct (get (objs e) o); [apply self_push_only; exact N|reflexivity].
Qed.

Lemma spush_run_only coro ops : forall e y, y <> driver -> count_z y (spush_run coro e ops) = 0%nat.
Proof.
  induction ops as [|x ops IH]; intros e y N; cbn [spush_run]; [reflexivity|].
  rewrite count_z_app, (spush_only coro e x y N), (IH _ y N). reflexivity.
Qed.

Lemma count_filter_not_drv y l : count_z y (filter not_drv l) = if y =? driver then 0%nat else count_z y l.
Proof.
  induction l as [|x l IH]; cbn [filter]; [rewrite count_z_nil; destruct (y =? driver); reflexivity|].
  unfold not_drv at 1, is_drv. destruct (x =? driver) eqn:E; cbn [negb]; rewrite ?count_z_cons, IH;
    destruct (y =? driver) eqn:F; destruct (y =? x) eqn:G; try reflexivity; lia.
Qed.

(* every handle handed in — and the awaiter once per await — is, at any moment, either resumed or still held *)
Theorem conservation coro ops e : wf_env e ->
  let r := run_from coro e ops in
  Permutation (handed_run ops (fst r) ++ spush_run coro e ops ++ held e) (resumed_run (fst r) ++ held (snd r)).
Proof.
  intros W. pose proof (run_spec coro ops e W) as (_ & C & _). cbn zeta.
  apply perm_of_counts. intros y. rewrite !count_z_app. specialize (C y). lia.
Qed.

(* the same for the ready coroutines alone (everything but the awaiter's own handle) *)
Theorem conservation_ready coro ops e : wf_env e ->
  let r := run_from coro e ops in
  Permutation (filter not_drv (handed_run ops (fst r) ++ held e)) (filter not_drv (resumed_run (fst r) ++ held (snd r))).
Proof.
  intros W. pose proof (run_spec coro ops e W) as (_ & C & _). cbn zeta.
  apply perm_of_counts. intros y. rewrite !count_filter_not_drv. destruct (y =? driver) eqn:E; [reflexivity|].
  rewrite !count_z_app. specialize (C y). rewrite (spush_run_only coro ops e y) in C by lia. lia.
Qed.

(* closed runs: every ready coroutine has been resumed exactly as often as it was handed in *)
Theorem all_resumed coro ops :
  let r := run_from coro env0 ops in
  held (snd r) = [] ->
  Permutation (filter not_drv (handed_run ops (fst r))) (filter not_drv (resumed_run (fst r))).
Proof.
  cbn zeta. intros H. pose proof (conservation_ready coro ops env0 wf_env0) as P. cbn zeta in P.
  rewrite H in P. unfold held at 1 in P. cbn [env0 objs queue held_objs flat_map app] in P. rewrite !app_nil_r in P. exact P.
Qed.

Theorem resumed_as_often_as_handed coro ops h :
  let r := run_from coro env0 ops in
  held (snd r) = [] -> h <> driver ->
  count_z h (resumed_run (fst r)) = count_z h (handed_run ops (fst r)).
Proof.
  cbn zeta. intros H N. pose proof (all_resumed coro ops H) as P.
  pose proof (counts_of_perm _ _ P h) as Q. rewrite !count_filter_not_drv in Q.
  destruct (h =? driver) eqn:E; [lia|]. symmetry. exact Q.
Qed.

Theorem resumed_exactly_once coro ops h :
  let r := run_from coro env0 ops in
  held (snd r) = [] -> h <> driver -> count_z h (handed_run ops (fst r)) = 1%nat ->
  count_z h (resumed_run (fst r)) = 1%nat.
Proof. cbn zeta. intros H N I. rewrite (resumed_as_often_as_handed coro ops h H N). exact I. Qed.

Theorem never_resumed_unless_handed coro ops h :
  let r := run_from coro env0 ops in
  h <> driver -> In h (resumed_run (fst r)) -> In h (handed_run ops (fst r)).
Proof.
  cbn zeta. intros N I. pose proof (run_spec coro ops env0 wf_env0) as (_ & C & _). specialize (C h).
  rewrite (spush_run_only coro ops env0 h N) in C.
  apply count_z_In in I. apply count_z_In. unfold held at 1 in C. cbn [env0 objs queue held_objs flat_map app] in C.
  rewrite count_z_nil in C. lia.
Qed.

(* heap arrays: allocations - frees = arrays owned by live objects, hence nothing leaks *)
Theorem no_leak coro ops :
  let r := run_from coro env0 ops in
  allocs_run (fst r) - frees_run (fst r) = arrs (objs (snd r)).
Proof.
  cbn zeta. pose proof (run_spec coro ops env0 wf_env0) as (_ & _ & A & _). cbn in A. lia.
Qed.

Lemma arrs_all_none l : (forall i, get l i = None) -> arrs l = 0.
Proof.
  induction l as [|o l IH]; intros H; cbn [arrs]; [reflexivity|].
  assert (o = None) as E.
  { specialize (H 0%nat). unfold get in H. cbn in H. destruct o; [discriminate|reflexivity]. }
  subst. cbn [arrs_o]. rewrite IH; [lia|]. intros i. specialize (H (S i)). exact H.
Qed.

Lemma held_objs_all_none l : (forall i, get l i = None) -> held_objs l = [].
Proof.
  induction l as [|o l IH]; intros H; cbn [held_objs flat_map]; [reflexivity|].
  assert (o = None) as E.
  { specialize (H 0%nat). unfold get in H. cbn in H. destruct o; [discriminate|reflexivity]. }
  subst. cbn [hso app]. apply IH. intros i. specialize (H (S i)). exact H.
Qed.

(* representation invariant holds in every reachable state: count <= capacity, so no index is out of bounds *)
Theorem capacity_sound coro ops i s :
  get (objs (snd (run_from coro env0 ops))) i = Some s ->
  zlen (hs s) = sp_count s /\ (sp_flag s = true -> sp_count s <= cap s) /\ (sp_flag s = false -> sp_count s <= inline_count).
Proof.
  intros G. pose proof (run_spec coro ops env0 wf_env0) as (W & _). specialize (W _ _ G).
  destruct W as (H0 & HL & HF & HI). unfold sp_count, inline_count. rewrite flag_mod.
  refine (conj HL (conj _ _)); intros Q; lia.
Qed.

(* an emptied object resumes nothing and frees nothing when it dies *)
Theorem emptied_resumes_nothing coro e o s :
  wf_env e -> get (objs e) o = Some s -> cf s = 0 ->
  let r := step coro e (ODestroy o) in
  o_st (snd r) = 0 /\ o_res (snd r) = [] /\ o_cost (snd r) = (0, 0) /\ queue (fst r) = queue e.
Proof.
  intros W G C. cbn [step]. rewrite G. unfold suspend_now, sp_clear_internal.
  assert (sp_flag s = false) as F by (unfold sp_flag; rewrite C; reflexivity).
  assert (hs s = []) as HE.
  { apply zlen_nil_inv. destruct (W _ _ G) as (_ & HL & _). rewrite C in HL. change (0 / 2) with 0 in HL. exact HL. }
  unfold has_drv. rewrite HE. cbn [existsb].
  destruct coro; cbn [fst snd o_st o_res o_cost queue]; rewrite F, ?HE; cbn [app]; rewrite ?app_nil_r; auto.
Qed.

Definition src_of (x : op) : option nat :=
  match x with
  | OMerge _ o | OMoveCtor _ o | OMoveBase _ o _ | OMoveAssign _ o | OClear o | OAwait o => Some o
  | _ => None
  end.

Ltac break_step :=
  repeat match goal with
  | |- context[match ?a with _ => _ end] => destruct a eqn:?
  | H : context[match ?a with _ => _ end] |- _ => destruct a eqn:?
  end.

(* moved-from / merged-from / cleared / awaited objects are left with count_flag = 0 *)
Theorem source_is_emptied coro e x o :
  src_of x = Some o -> o_st (snd (step coro e x)) = 0 ->
  exists s, get (objs (fst (step coro e x))) o = Some s /\ cf s = 0.
Proof.
  intros S A. destruct x; cbn [src_of] in S; try discriminate; injection S as ->; cbn [step] in *;
    unfold sp_merge, suspend_now, sp_clear_internal, await_suspend in *; break_step;
    cbn [fst snd o_st rejected objs upd] in *; try discriminate;
    eexists; rewrite get_put_same; (split; [reflexivity|]); try reflexivity;
    repeat match goal with H : (_, _) = (_, _) |- _ => injection H as <- <- end; try reflexivity.
Qed.

(* ---------- the awaiting coroutine ---------- *)
(* per op: an accepted await continues the awaiter exactly once, after everything else that ran; no other op resumes it *)
Definition drv_step_ok (x : op) (ob : obs) : Prop :=
  if (o_st ob =? 0) && awaits x
  then exists t, o_res ob = t ++ [driver] /\ count_z driver t = 0%nat
  else count_z driver (o_res ob) = 0%nat.

Lemma has_drv_count s : has_drv s = false -> count_z driver (hs s) = 0%nat.
Proof. apply count_drv_existsb. Qed.

Lemma count_drv_pos l : forallb (fun h => 0 <? h) l = true -> count_z driver l = 0%nat.
Proof.
  induction l as [|x l IH]; intros H; [reflexivity|]. cbn [forallb] in H. apply andb_true_iff in H as [A B].
  rewrite count_z_cons, (IH B). unfold driver. destruct (0 =? x) eqn:E; [lia|reflexivity].
Qed.

Lemma step_drv coro e x : wf_env e -> drv_step_ok x (snd (step coro e x)).
Proof.
  intros W. unfold wf_env in W. unfold drv_step_ok.
  destruct x; cbn [step awaits]; rewrite ?andb_false_r, ?andb_true_r;
    try (unfold sp_merge, suspend_now, sp_clear_internal; break_step; cbn [snd o_res rejected ok_obs o_st]; reflexivity).
  - (* Pop *)
    destruct (get (objs e) o) as [s|] eqn:G; [|reflexivity].
    destruct (has_drv s) eqn:HD; [reflexivity|].
    pose proof (sp_pop_spec s (W _ _ G)) as Q. cbn zeta in Q.
    destruct (sp_pop s) as [s1 h]. cbn [fst snd] in Q. destruct Q as (_ & _ & _ & _ & _ & H1 & _).
    cbn [snd ok_obs o_res]. apply has_drv_count in HD. rewrite H1, count_z_app in HD. lia.
  - (* Clear *)
    destruct (get (objs e) o) as [s|] eqn:G; [|reflexivity].
    destruct (has_drv s) eqn:HD; [reflexivity|]. apply has_drv_count in HD.
    unfold suspend_now, sp_clear_internal. destruct coro; cbn [snd o_res]; [reflexivity|exact HD].
  - (* Destroy *)
    destruct (get (objs e) o) as [s|] eqn:G; [|reflexivity].
    destruct (has_drv s) eqn:HD; [reflexivity|]. apply has_drv_count in HD.
    unfold suspend_now, sp_clear_internal. destruct coro; cbn [snd o_res]; [reflexivity|exact HD].
  - (* Await *)
    destruct coro; cbn [negb]; [|reflexivity].
    destruct (get (objs e) o) as [s|] eqn:G; [|reflexivity].
    destruct (sp_count s =? 0) eqn:C.
    + unfold sp_clear_internal. cbn [snd ok_obs o_st o_res]. exists []. split; reflexivity.
    + assert (sp_count s <> 0) as NZ by lia.
      pose proof (await_suspend_spec (queue e) s (W _ _ G) NZ) as Q.
      destruct (await_suspend (queue e) s) as [[[[[s2 q'] r] c] pu] po]. destruct Q as (_ & _ & _ & _ & T).
      cbn [snd o_st o_res]. exact T.
  - (* Flush *)
    destruct coro; cbn [negb]; [|reflexivity].
    pose proof (split_drv_spec (queue e ++ [driver])) as SP.
    destruct (split_drv (queue e ++ [driver])) as [[pre post] found]. destruct SP as (_ & _ & CP & NF).
    cbn [snd o_st o_res]. change (0 =? 0) with true. cbv iota.
    destruct found.
    + exists pre. split; [reflexivity|exact CP].
    + specialize (NF eq_refl). rewrite count_z_app in NF. assert (count_z driver [driver] = 1%nat) by reflexivity. lia.
  - (* AwaitL *)
    destruct coro; cbn [negb]; [|reflexivity].
    destruct (get (objs e) o) as [s|] eqn:G; [|reflexivity].
    destruct (sp_count s =? 0) eqn:C.
    + cbn [snd ok_obs o_st o_res]. exists []. split; reflexivity.
    + assert (sp_count s <> 0) as NZ by lia.
      pose proof (await_suspend_spec (queue e) s (W _ _ G) NZ) as Q.
      destruct (await_suspend (queue e) s) as [[[[[s2 q'] r] c] pu] po]. destruct Q as (_ & _ & _ & _ & T).
      cbn [snd o_st o_res]. exact T.
  - (* CreateThrow *)
    destruct (negb (forallb (fun h => 0 <? h) l)) eqn:FP; [reflexivity|]. apply negb_false_iff in FP.
    destruct (get (objs e) o); [reflexivity|].
    destruct coro; cbn [snd o_res]; [reflexivity|]. apply count_drv_pos. exact FP.
Qed.

(* the awaiter's own handle is in at most one place and never waits in the ready queue while the awaiter runs *)
Definition drv_inv (e : env) : Prop := (count_z driver (held e) <= 1)%nat /\ count_z driver (queue e) = 0%nat.

Lemma hs_le_held l o s y : get l o = Some s -> (count_z y (hs s) <= count_z y (held_objs l))%nat.
Proof. intros G. pose proof (held_put y l o None) as P. rewrite G in P. cbn [hso] in P. rewrite count_z_nil in P. lia. Qed.


Definition plain (x : op) : bool :=
  match x with
  | OClear _ | ODestroy _ | OAwait _ | OAwaitL _ | OFlush | OAddSelf _ | OCreateThrow _ _ _ _ => false
  | _ => true
  end.

(* ops that leave the ready queue alone, do not await, and hand in nothing but positive handles *)
Lemma step_plain coro e x : plain x = true ->
  queue (fst (step coro e x)) = queue e /\ spush coro e x = [] /\
  count_z driver (handed_op x (snd (step coro e x))) = 0%nat.
Proof.
  intros P. destruct x; try discriminate; (split; [|split]);
    try (unfold spush; destruct coro; reflexivity);
    try (cbn [step]; unfold sp_merge, sp_clear_internal; break_step; reflexivity);
    unfold handed_op; cbn [step]; unfold sp_merge, sp_clear_internal; break_step;
    cbn [snd o_st rejected ok_obs] in *; try discriminate; try reflexivity;
    try (rewrite count_z_cons, count_z_nil; unfold driver; destruct (0 =? h) eqn:?; [lia|reflexivity]).
  all: match goal with H : negb (forallb _ _) = false |- _ => apply negb_false_iff in H; apply count_drv_pos in H; exact H end.
Qed.

Lemma step_drv_inv coro e x : wf_env e -> drv_inv e -> drv_inv (fst (step coro e x)).
Proof.
  intros W (D1 & D2).
  pose proof (step_spec coro e x W) as (_ & C & _). specialize (C driver).
  pose proof (step_drv coro e x W) as R. unfold drv_step_ok in R.
  assert (count_z driver (held_objs (objs e)) <= 1)%nat as DO by (unfold held in D1; rewrite count_z_app in D1; lia).
  unfold wf_env in W. unfold drv_inv.
  destruct (plain x) eqn:PL.
  { destruct (step_plain coro e x PL) as (QE & SE & HE). rewrite SE, HE, count_z_nil in C.
    rewrite QE. split; [lia|exact D2]. }
  destruct x; try discriminate; cbn [step awaits] in *; rewrite ?andb_false_r, ?andb_true_r in R.
  - (* Clear *)
    destruct (get (objs e) o) as [s|] eqn:G; [|cbn [fst]; split; assumption].
    destruct (has_drv s) eqn:HD; [cbn [fst]; split; assumption|]. apply has_drv_count in HD.
    revert C R. unfold suspend_now, sp_clear_internal, handed_op, spush.
    destruct coro; cbn [fst snd o_st o_res queue]; change (0 =? 0) with true; cbv iota; rewrite ?count_z_nil; intros C R.
    + split; [lia|]. rewrite count_z_app. lia.
    + split; [lia|exact D2].
  - (* Destroy *)
    destruct (get (objs e) o) as [s|] eqn:G; [|cbn [fst]; split; assumption].
    destruct (has_drv s) eqn:HD; [cbn [fst]; split; assumption|]. apply has_drv_count in HD.
    revert C R. unfold suspend_now, sp_clear_internal, handed_op, spush.
    destruct coro; cbn [fst snd o_st o_res queue]; change (0 =? 0) with true; cbv iota; rewrite ?count_z_nil; intros C R.
    + split; [lia|]. rewrite count_z_app. lia.
    + split; [lia|exact D2].
  - (* Await *)
    destruct coro; cbn [negb] in *; [|cbn [fst]; split; assumption].
    destruct (get (objs e) o) as [s|] eqn:G; [|cbn [fst]; split; assumption].
    unfold handed_op, spush in C. rewrite G in C.
    destruct (sp_count s =? 0) eqn:Z0.
    + revert C R. unfold sp_clear_internal, self_push. rewrite Z0. cbn [fst snd o_st o_res ok_obs queue upd].
      change (0 =? 0) with true. cbv iota. rewrite ?count_z_nil. intros C R. split; [lia|exact D2].
    + assert (sp_count s <> 0) as NZ by lia.
      pose proof (await_suspend_spec (queue e) s (W _ _ G) NZ) as Q.
      pose proof (hs_le_held _ _ _ driver G) as LE.
      destruct (await_suspend (queue e) s) as [[[[[s2 q'] r] c] pu] po]. destruct Q as (_ & _ & _ & Q4 & _).
      destruct (Q4 D2 ltac:(lia)) as (R1 & Q0).
      cbn [fst snd o_st o_res queue] in *. change (0 =? 0) with true in C. cbv iota in C. rewrite count_z_nil in C.
      split; [|exact Q0].
      assert (count_z driver (self_push s) <= 1)%nat as SPL.
      { unfold self_push. destruct (sp_count s =? 0); [vm_compute; lia|]. destruct (sp_pop s).
        destruct (existsb is_drv (olist o0) || existsb is_drv (hs s0)); vm_compute; lia. }
      lia.
  - (* Flush *)
    destruct coro; cbn [negb] in *; [|cbn [fst]; split; assumption].
    pose proof (split_drv_counts (queue e ++ [driver]) driver) as SC.
    pose proof (split_drv_spec (queue e ++ [driver])) as SP.
    destruct (split_drv (queue e ++ [driver])) as [[pre post] found]. destruct SP as (_ & _ & CP & NF).
    unfold handed_op, spush in C. cbn [fst snd o_st o_res queue objs] in *. change (0 =? 0) with true in *. cbv iota in *.
    rewrite count_z_app in SC. assert (count_z driver [driver] = 1%nat) as ONE by reflexivity.
    destruct found.
    + split; [|lia]. rewrite ?count_z_nil, ?count_z_app in C. lia.
    + specialize (NF eq_refl). rewrite count_z_app in NF. lia.
  - (* AwaitL *)
    destruct coro; cbn [negb] in *; [|cbn [fst]; split; assumption].
    destruct (get (objs e) o) as [s|] eqn:G; [|cbn [fst]; split; assumption].
    unfold handed_op, spush in C. rewrite G in C.
    destruct (sp_count s =? 0) eqn:Z0; [cbn [fst]; split; assumption|].
    assert (sp_count s <> 0) as NZ by lia.
    pose proof (await_suspend_spec (queue e) s (W _ _ G) NZ) as Q.
    pose proof (hs_le_held _ _ _ driver G) as LE.
    destruct (await_suspend (queue e) s) as [[[[[s2 q'] r] c] pu] po]. destruct Q as (_ & _ & _ & Q4 & _).
    destruct (Q4 D2 ltac:(lia)) as (R1 & Q0).
    cbn [fst snd o_st o_res queue] in *. change (0 =? 0) with true in C. cbv iota in C. rewrite count_z_nil in C.
    split; [|exact Q0].
    assert (count_z driver (self_push s) <= 1)%nat as SPL.
    { unfold self_push. destruct (sp_count s =? 0); [vm_compute; lia|]. destruct (sp_pop s).
      destruct (existsb is_drv (olist o0) || existsb is_drv (hs s0)); vm_compute; lia. }
    lia.
  - (* AddSelf *)
    destruct coro; cbn [negb] in *; [|cbn [fst]; split; assumption].
    destruct (existsb is_drv (held e)) eqn:HD; [cbn [fst]; split; assumption|]. apply count_drv_existsb in HD.
    destruct (get (objs e) o) as [s|] eqn:G; [|cbn [fst]; split; assumption].
    revert C R. unfold handed_op, spush. destruct (sp_add s driver). cbn [fst snd o_st o_res ok_obs queue upd].
    change (0 =? 0) with true. cbv iota. rewrite ?count_z_nil. intros C R.
    assert (count_z driver [driver] = 1%nat) as ONE by reflexivity. split; [lia|exact D2].
  - (* CreateThrow *)
    destruct (negb (forallb (fun h => 0 <? h) l)) eqn:FP; [cbn [fst]; split; assumption|]. apply negb_false_iff in FP.
    apply count_drv_pos in FP.
    destruct (get (objs e) o); [cbn [fst]; split; assumption|].
    revert C R. unfold handed_op, spush.
    destruct coro; cbn [fst snd o_st o_res queue objs]; change (0 =? 0) with true; cbv iota; rewrite ?count_z_nil; intros C R.
    + unfold held in *. cbn [objs queue] in *. rewrite ?count_z_app in *. split; lia.
    + unfold held in *. cbn [objs queue] in *. rewrite ?count_z_app in *. split; lia.
Qed.

Fixpoint drv_run_ok (ops : list op) (os : list obs) : Prop :=
  match ops, os with
  | x :: t, o :: u => drv_step_ok x o /\ drv_run_ok t u
  | _, _ => True
  end.

(* in every history: each accepted await continues the awaiter exactly once (own handle in the list or not, at any
   position), no other op ever resumes it *)
Theorem awaiter_once coro ops : forall e, wf_env e -> drv_run_ok ops (fst (run_from coro e ops)).
Proof.
  induction ops as [|x ops IH]; intros e W; cbn [run_from]; [exact I|].
  pose proof (step_spec coro e x W) as (W1 & _). pose proof (step_drv coro e x W) as D.
  destruct (step coro e x) as [e1 o]. cbn [fst snd] in *. specialize (IH e1 W1).
  destruct (run_from coro e1 ops) as [os e2]. cbn [fst snd drv_run_ok] in *. split; assumption.
Qed.

Lemma run_drv_inv coro ops : forall e, wf_env e -> drv_inv e -> drv_inv (snd (run_from coro e ops)).
Proof.
  induction ops as [|x ops IH]; intros e W D; cbn [run_from]; [exact D|].
  pose proof (step_spec coro e x W) as (W1 & _). pose proof (step_drv_inv coro e x W D) as D1.
  destruct (step coro e x) as [e1 o]. cbn [fst snd] in *. specialize (IH e1 W1 D1).
  destruct (run_from coro e1 ops) as [os e2]. exact IH.
Qed.

(* ... and it is never left behind in the ready queue (no second, spurious resume later) *)
Theorem awaiter_not_left_queued coro ops :
  let e := snd (run_from coro env0 ops) in
  ~ In driver (queue e) /\ (count_z driver (held e) <= 1)%nat.
Proof.
  cbn zeta. assert (drv_inv env0) as D0 by (split; vm_compute; lia).
  destruct (run_drv_inv coro ops env0 wf_env0 D0) as (D1 & D2). split; [|exact D1].
  intros I. apply count_z_In in I. lia.
Qed.

(* ---------- the attached value ---------- *)
Definition vof (s : sp) : vinfo := (typed s, val s).
Definition vrel (vs : list (option vinfo)) (l : list (option sp)) : Prop :=
  forall i, get vs i = option_map vof (get l i).

Lemma get_put_cases {A} (l : list (option A)) i j x :
  get (put l i x) j = if Nat.eqb i j then x else get l j.
Proof.
  destruct (Nat.eqb_spec i j); [subst; apply get_put_same|apply get_put_other; assumption].
Qed.

Lemma vrel_put vs l o s' : vrel vs l -> vrel (put vs o (option_map vof s')) (put l o s').
Proof. intros R i. rewrite !get_put_cases. destruct (Nat.eqb o i); [reflexivity|apply R]. Qed.

Lemma vrel_put2 vs l o1 o2 i1 i2 s1 s2 : vrel vs l -> i1 = option_map vof s1 -> i2 = option_map vof s2 ->
  vrel (put (put vs o1 i1) o2 i2) (put (put l o1 s1) o2 s2).
Proof. intros R -> ->. apply vrel_put, vrel_put, R. Qed.

Lemma vrel_same vs l o s s1 : vrel vs l -> get l o = Some s -> vof s1 = vof s -> vrel vs (put l o (Some s1)).
Proof.
  intros R G E i. rewrite get_put_cases. destruct (Nat.eqb_spec o i); [subst|apply R].
  rewrite R, G. cbn [option_map]. congruence.
Qed.

Lemma vrel_vget vs l o s : vrel vs l -> get l o = Some s -> vget vs o = val s.
Proof. intros R G. unfold vget. rewrite R, G. reflexivity. Qed.

Definition vstep_ok (vs : list (option vinfo)) (x : op) (e : env) (r : env * obs) : Prop :=
  if o_st (snd r) =? 0
  then vrel (fst (vstep vs x)) (objs (fst r)) /\ o_val (snd r) = snd (vstep vs x)
  else fst r = e.

Lemma vof_eq s s1 : typed s1 = typed s -> val s1 = val s -> vof s1 = vof s.
Proof. unfold vof. congruence. Qed.

(* the model shows, after every accepted op, exactly the value the independent account `vstep` predicts *)
Lemma step_vals coro e x vs : wf_env e -> vrel vs (objs e) -> vstep_ok vs x e (step coro e x).
Proof.
  intros W R. unfold wf_env in W. unfold vstep_ok.
  destruct x as [o v|o h v|o h|o1 o2|o1 o2|o1 o2 v|o|o|o|o| |o1 o2|o t v l|o|o h|o k|o|o|o1 o2|o h|o t v l| ]; cbn [step vstep].
  - destruct (get (objs e) o) eqn:G; [reflexivity|]. cbn [fst snd o_st ok_obs o_val objs upd]. split; [|reflexivity].
    apply (vrel_put vs (objs e) o (Some (mkSp 0 [] 0 true v)) R).
  - destruct (h <=? 0); [reflexivity|]. destruct (get (objs e) o) eqn:G; [reflexivity|].
    cbn [fst snd o_st ok_obs o_val objs upd]. split; [|reflexivity].
    apply (vrel_put vs (objs e) o (Some (mkSp 2 [h] 0 true v)) R).
  - destruct (h <=? 0); [reflexivity|]. destruct (get (objs e) o) as [s|] eqn:G; [|reflexivity].
    pose proof (sp_add_spec s h (W _ _ G)) as Q. cbn zeta in Q. destruct (sp_add s h) as [s1 c].
    cbn [fst snd] in Q. destruct Q as (_ & _ & V1 & T1 & _).
    cbn [fst snd o_st ok_obs o_val objs upd]. split.
    + apply (vrel_same _ _ _ s); auto using vof_eq.
    + rewrite (vrel_vget _ _ _ _ R G). exact V1.
  - destruct (Nat.eqb_spec o1 o2) as [E|E]; [reflexivity|].
    destruct (get (objs e) o1) as [d|] eqn:G1; [|reflexivity]. destruct (get (objs e) o2) as [s|] eqn:G2; [|reflexivity].
    pose proof (sp_merge_spec d s (W _ _ G1)) as Q. cbn zeta in Q. destruct (sp_merge d s) as [[d1 s1] c].
    cbn [fst snd] in Q. destruct Q as (_ & _ & V1 & T1 & S1 & _). subst s1.
    cbn [fst snd o_st ok_obs o_val objs upd]. split.
    + apply (vrel_same _ _ _ s); [apply (vrel_same _ _ _ d); auto using vof_eq| rewrite get_put_other by exact E; exact G2|reflexivity].
    + rewrite (vrel_vget _ _ _ _ R G1). exact V1.
  - destruct (Nat.eqb_spec o1 o2) as [E|E]; [reflexivity|].
    destruct (get (objs e) o1) as [d|] eqn:G1; [reflexivity|]. destruct (get (objs e) o2) as [s|] eqn:G2; [|reflexivity].
    cbn [fst snd o_st ok_obs o_val objs upd].
    assert (get vs o2 = Some (vof s)) as V2 by (rewrite R, G2; reflexivity). rewrite V2. split.
    + apply (vrel_put _ _ o2 (Some (moved_val (reset_src s)))). apply (vrel_put _ _ o1 (Some s)). exact R.
    + unfold vget. rewrite get_put_other, get_put_same by (intro Q; apply E; symmetry; exact Q). reflexivity.
  - destruct (Nat.eqb_spec o1 o2) as [E|E]; [reflexivity|].
    destruct (get (objs e) o1) as [d|] eqn:G1; [reflexivity|]. destruct (get (objs e) o2) as [s|] eqn:G2; [|reflexivity].
    cbn [fst snd o_st ok_obs o_val objs upd]. split; [|reflexivity].
    apply (vrel_same _ _ _ s); [|rewrite get_put_other by exact E; exact G2|reflexivity].
    apply (vrel_put _ _ o1 (Some (mkSp (cf s) (hs s) (cap s) true v)) R).
  - destruct (get (objs e) o) as [s|] eqn:G; [|reflexivity]. destruct (has_drv s); [reflexivity|].
    pose proof (sp_pop_spec s (W _ _ G)) as Q. cbn zeta in Q. destruct (sp_pop s) as [s1 h].
    cbn [fst snd] in Q. destruct Q as (_ & V1 & T1 & _).
    cbn [fst snd o_st ok_obs o_val objs upd]. split.
    + apply (vrel_same _ _ _ s); auto using vof_eq.
    + rewrite (vrel_vget _ _ _ _ R G). exact V1.
  - destruct (get (objs e) o) as [s|] eqn:G; [|reflexivity]. destruct (has_drv s); [reflexivity|].
    unfold suspend_now, sp_clear_internal. destruct coro; cbn [fst snd o_st o_val objs val]; (split;
      [apply (vrel_same _ _ _ s); auto|rewrite (vrel_vget _ _ _ _ R G); reflexivity]).
  - destruct (get (objs e) o) as [s|] eqn:G; [|reflexivity]. destruct (has_drv s); [reflexivity|].
    unfold suspend_now, sp_clear_internal. destruct coro; cbn [fst snd o_st o_val objs val]; (split;
      [apply (vrel_put _ _ o None R)|rewrite (vrel_vget _ _ _ _ R G); reflexivity]).
  - destruct coro; cbn [negb]; [|reflexivity]. destruct (get (objs e) o) as [s|] eqn:G; [|reflexivity].
    assert (get vs o = Some (vof s)) as V2 by (rewrite R, G; reflexivity).
    destruct (sp_count s =? 0).
    + unfold sp_clear_internal. cbn [fst snd o_st ok_obs o_val objs upd]. rewrite V2. split.
      * apply (vrel_put _ _ o (Some (moved_val (reset_src s))) R).
      * symmetry. apply (vrel_vget _ _ _ _ R G).
    + destruct (await_suspend (queue e) s) as [[[[[s2 q'] r] c] pu] po].
      cbn [fst snd o_st o_val objs]. rewrite V2. split.
      * apply (vrel_put _ _ o (Some (moved_val (reset_src s))) R).
      * symmetry. apply (vrel_vget _ _ _ _ R G).
  - destruct coro; cbn [negb]; [|reflexivity].
    destruct (split_drv (queue e ++ [driver])) as [[pre post] found]. cbn [fst snd o_st o_val objs]. split; [exact R|reflexivity].
  - destruct (Nat.eqb_spec o1 o2) as [E|E]; [reflexivity|].
    destruct (get (objs e) o1) as [d|] eqn:G1; [|reflexivity]. destruct (get (objs e) o2) as [s|] eqn:G2; [|reflexivity].
    destruct (typed d && negb (typed s)) eqn:TT; [reflexivity|].
    pose proof (sp_merge_spec d s (W _ _ G1)) as Q. cbn zeta in Q. destruct (sp_merge d s) as [[d1 s1] c].
    cbn [fst snd] in Q. destruct Q as (_ & _ & V1 & T1 & S1 & _). subst s1.
    assert (get vs o1 = Some (vof d)) as VA by (rewrite R, G1; reflexivity).
    assert (get vs o2 = Some (vof s)) as VB by (rewrite R, G2; reflexivity).
    assert (vof d1 = vof d) as VD by (apply vof_eq; assumption).
    rewrite VA. cbn [vtyped vof]. cbn [fst snd o_st ok_obs o_val objs upd].
    destruct (typed d) eqn:TD.
    + assert (typed s = true) as TS by (destruct (typed s); [reflexivity|discriminate]).
      rewrite VB. cbn [fst snd]. split.
      * apply vrel_put2; [exact R| |]; unfold vof, vmoved, set_val, moved_val; cbn [option_map typed val]; try reflexivity.
        rewrite TS, T1. reflexivity.
      * unfold vget. rewrite get_put_other, get_put_same by (intro Q; apply E; symmetry; exact Q). reflexivity.
    + cbn [fst snd]. split.
      * apply (vrel_same _ _ _ s); [apply (vrel_same _ _ _ d); auto| rewrite get_put_other by exact E; exact G2|reflexivity].
      * rewrite (vrel_vget _ _ _ _ R G1). exact V1.
  - destruct (negb (forallb (fun h => 0 <? h) l)); [reflexivity|]. destruct (get (objs e) o) eqn:G; [reflexivity|].
    destruct (sp_add_all (mkSp 0 [] 0 false 0) (rev l)) as [s1 c].
    cbn [fst snd o_st o_val objs upd val]. split; [|reflexivity].
    apply (vrel_put vs (objs e) o (Some (mkSp (cf s1) (hs s1) (cap s1) t (if t then v else 0))) R).
  - destruct (get (objs e) o) eqn:G; [reflexivity|]. cbn [fst snd o_st ok_obs o_val objs upd]. split; [|reflexivity].
    apply (vrel_put vs (objs e) o (Some (mkSp 0 [] 0 false 0)) R).
  - destruct (h <=? 0); [reflexivity|]. destruct (get (objs e) o) eqn:G; [reflexivity|].
    cbn [fst snd o_st ok_obs o_val objs upd]. split; [|reflexivity].
    apply (vrel_put vs (objs e) o (Some (mkSp 2 [h] 0 false 0)) R).
  - destruct (negb ((k =? 0) || (k =? 1))); [reflexivity|].
    destruct (get (objs e) o) as [s|] eqn:G; [|reflexivity]. destruct (typed s); [|reflexivity].
    cbn [fst snd o_st ok_obs o_val]. split; [exact R|]. symmetry. apply (vrel_vget _ _ _ _ R G).
  - destruct coro; cbn [negb]; [|reflexivity]. destruct (get (objs e) o) as [s|] eqn:G; [|reflexivity].
    destruct (sp_count s =? 0) eqn:C.
    + cbn [fst snd o_st ok_obs o_val]. split; [exact R|]. symmetry. apply (vrel_vget _ _ _ _ R G).
    + assert (sp_count s <> 0) as NZ by lia.
      pose proof (await_suspend_spec (queue e) s (W _ _ G) NZ) as Q.
      destruct (await_suspend (queue e) s) as [[[[[s2 q'] r] c] pu] po]. destruct Q as (S2 & _). subst s2.
      cbn [fst snd o_st o_val objs]. split; [|symmetry; apply (vrel_vget _ _ _ _ R G)].
      apply (vrel_same _ _ _ s); auto.
  - destruct coro; cbn [negb]; [|reflexivity]. destruct (existsb is_drv (held e)); [reflexivity|].
    destruct (get (objs e) o) as [s|] eqn:G; [|reflexivity].
    pose proof (sp_add_spec s driver (W _ _ G)) as Q. cbn zeta in Q. destruct (sp_add s driver) as [s1 c].
    cbn [fst snd] in Q. destruct Q as (_ & _ & V1 & T1 & _).
    cbn [fst snd o_st ok_obs o_val objs upd]. split.
    + apply (vrel_same _ _ _ s); auto using vof_eq.
    + rewrite (vrel_vget _ _ _ _ R G). exact V1.
  - destruct (Nat.eqb_spec o1 o2) as [E|E]; [reflexivity|].
    destruct (get (objs e) o1) as [a|] eqn:G1; [|reflexivity]. destruct (get (objs e) o2) as [b|] eqn:G2; [|reflexivity].
    destruct (negb (Bool.eqb (typed a) (typed b))) eqn:TT; [reflexivity|].
    assert (typed b = typed a) as TB by (destruct (typed a), (typed b); try reflexivity; discriminate).
    pose proof (sp_merge_spec (moved_val (reset_src a)) b (wf_empty _ _ _)) as Q. cbn zeta in Q.
    destruct (sp_merge (moved_val (reset_src a)) b) as [[a1 b1] c1]. cbn [fst snd] in Q.
    destruct Q as (_ & _ & V1 & T1 & S1 & _). subst b1.
    assert (get vs o1 = Some (vof a)) as VA by (rewrite R, G1; reflexivity).
    assert (get vs o2 = Some (vof b)) as VB by (rewrite R, G2; reflexivity).
    rewrite VA, VB. cbn [vtyped vof].
    destruct (typed a) eqn:TA.
    + pose proof (sp_merge_spec (moved_val (mkSp 0 [] (cap b) (typed b) (val b))) a (wf_empty _ _ _)) as Q. cbn zeta in Q.
      destruct (sp_merge (moved_val (mkSp 0 [] (cap b) (typed b) (val b))) a) as [[b3 t3] c2]. cbn [fst snd] in Q.
      destruct Q as (_ & _ & V3 & T3 & _ & _).
      cbn [fst snd o_st ok_obs o_val objs upd]. split.
      * apply vrel_put2; [exact R| |]; unfold vof, set_val; cbn [option_map typed val moved_val reset_src] in *; congruence.
      * unfold vget. rewrite get_put_other, get_put_same by (intro Q; apply E; symmetry; exact Q). reflexivity.
    + pose proof (sp_merge_spec (mkSp 0 [] (cap b) (typed b) (val b)) a (wf_empty _ _ _)) as Q. cbn zeta in Q.
      destruct (sp_merge (mkSp 0 [] (cap b) (typed b) (val b)) a) as [[b3 t3] c2]. cbn [fst snd] in Q.
      destruct Q as (_ & _ & V3 & T3 & _ & _).
      cbn [fst snd o_st ok_obs o_val objs upd]. cbn [typed val moved_val reset_src] in *. rewrite TA in V1. split.
      * apply (vrel_same _ _ _ b); [apply (vrel_same _ _ _ a); auto using vof_eq| rewrite get_put_other by exact E; exact G2|].
        apply vof_eq; cbn [typed val] in *; congruence.
      * rewrite (vrel_vget _ _ _ _ R G1). exact V1.
  - destruct (h <=? 0); [reflexivity|]. destruct (get (objs e) o) as [s|] eqn:G; [|reflexivity].
    destruct (if sp_flag s then sp_count s =? cap s else negb (sp_count s <? inline_count)); [reflexivity|].
    pose proof (sp_add_spec s h (W _ _ G)) as Q. cbn zeta in Q. destruct (sp_add s h) as [s1 c].
    cbn [fst snd] in Q. destruct Q as (_ & _ & V1 & T1 & _).
    cbn [fst snd o_st ok_obs o_val objs upd]. split.
    + apply (vrel_same _ _ _ s); auto using vof_eq.
    + rewrite (vrel_vget _ _ _ _ R G). exact V1.
  - destruct (negb (forallb (fun h => 0 <? h) l)); [reflexivity|]. destruct (get (objs e) o) eqn:G; [reflexivity|].
    destruct coro; cbn [fst snd o_st o_val objs]; (split; [exact R|reflexivity]).
  - reflexivity.
Qed.

(* ---------- the trace oracle accepts every closed run of the model ---------- *)
Lemma obs_ok_enc o : obs_ok (encode_obs o) = (o_st o =? 0).
Proof. unfold obs_ok, encode_obs. destruct (o_st o); reflexivity. Qed.
Lemma obs_res_enc o : obs_res (encode_obs o) = o_res o.
Proof. reflexivity. Qed.
Lemma obs_val_enc o : obs_val (encode_obs o) = o_val o.
Proof. reflexivity. Qed.
Lemma obs_allocs_enc o : obs_allocs (encode_obs o) = fst (o_cost o).
Proof. reflexivity. Qed.
Lemma obs_frees_enc o : obs_frees (encode_obs o) = snd (o_cost o).
Proof. reflexivity. Qed.

Lemma run_vals coro ops : forall e vs, wf_env e -> vrel vs (objs e) ->
  vals_ok vs ops (map encode_obs (fst (run_from coro e ops))) = true.
Proof.
  induction ops as [|x ops IH]; intros e vs W R; cbn [run_from]; [reflexivity|].
  pose proof (step_spec coro e x W) as (W1 & _). pose proof (step_vals coro e x vs W R) as V. unfold vstep_ok in V.
  destruct (step coro e x) as [e1 o]. cbn [fst snd] in *.
  pose proof (IH e1) as IH1.
  destruct (run_from coro e1 ops) as [os e2]. cbn [fst snd map vals_ok] in *.
  rewrite obs_ok_enc, obs_val_enc. destruct (o_st o =? 0).
  - destruct (vstep vs x) as [vs1 v]. cbn [fst snd] in V. destruct V as (R1 & EV).
    rewrite EV, Z.eqb_refl. cbn [andb]. apply IH1; assumption.
  - subst e1. apply IH1; assumption.
Qed.

Lemma filter_not_drv_pos l : forallb (fun h => 0 <? h) l = true -> filter not_drv l = l.
Proof.
  induction l as [|x l IH]; intros H; [reflexivity|]. cbn [forallb] in H. apply andb_true_iff in H as [A B].
  cbn [filter]. unfold not_drv at 1, is_drv, driver. destruct (x =? 0) eqn:E; [lia|]. cbn [negb]. rewrite (IH B). reflexivity.
Qed.

Lemma handed_of_filter coro e x :
  let ob := snd (step coro e x) in
  handed_of x (o_st ob =? 0) = filter not_drv (handed_op x ob).
Proof.
  cbn zeta. unfold handed_of, handed_op.
  destruct (o_st (snd (step coro e x)) =? 0) eqn:A; [|reflexivity].
  destruct x; try reflexivity; cbn [step] in A.
  - destruct (h <=? 0) eqn:HP; [discriminate|]. symmetry. apply (filter_not_drv_pos [h]). cbn [forallb]. lia.
  - destruct (h <=? 0) eqn:HP; [discriminate|]. symmetry. apply (filter_not_drv_pos [h]). cbn [forallb]. lia.
  - destruct (negb (forallb (fun h => 0 <? h) l)) eqn:FP; [discriminate|]. apply negb_false_iff in FP.
    symmetry. apply filter_not_drv_pos. exact FP.
  - destruct (h <=? 0) eqn:HP; [discriminate|]. symmetry. apply (filter_not_drv_pos [h]). cbn [forallb]. lia.
  - destruct (h <=? 0) eqn:HP; [discriminate|]. symmetry. apply (filter_not_drv_pos [h]). cbn [forallb]. lia.
  - destruct (negb (forallb (fun h => 0 <? h) l)) eqn:FP; [discriminate|]. apply negb_false_iff in FP.
    symmetry. apply filter_not_drv_pos. exact FP.
Qed.

Lemma filter_app {A} (f : A -> bool) a b : filter f (a ++ b) = filter f a ++ filter f b.
Proof. induction a as [|x a IH]; cbn [filter app]; [reflexivity|]. destruct (f x); cbn [app]; rewrite IH; reflexivity. Qed.

Lemma run_handed coro ops : forall e,
  flat_map (fun p => handed_of (fst p) (obs_ok (snd p))) (combine ops (map encode_obs (fst (run_from coro e ops))))
  = filter not_drv (handed_run ops (fst (run_from coro e ops))).
Proof.
  induction ops as [|x ops IH]; intros e; cbn [run_from]; [reflexivity|].
  pose proof (handed_of_filter coro e x) as H. cbn zeta in H.
  destruct (step coro e x) as [e1 o]. cbn [snd] in H. specialize (IH e1).
  destruct (run_from coro e1 ops) as [os e2]. cbn [fst snd map combine flat_map handed_run] in *.
  rewrite obs_ok_enc, H, IH, filter_app. reflexivity.
Qed.

Lemma flat_map_res_enc os : flat_map obs_res (map encode_obs os) = resumed_run os.
Proof. induction os as [|o os IH]; cbn [map flat_map resumed_run]; [reflexivity|]. rewrite IH. reflexivity. Qed.

Lemma sum_allocs_enc os : sumz (map obs_allocs (map encode_obs os)) = allocs_run os.
Proof. induction os as [|o os IH]; cbn [map sumz allocs_run]; [reflexivity|]. rewrite IH, obs_allocs_enc. reflexivity. Qed.
Lemma sum_frees_enc os : sumz (map obs_frees (map encode_obs os)) = frees_run os.
Proof. induction os as [|o os IH]; cbn [map sumz frees_run]; [reflexivity|]. rewrite IH, obs_frees_enc. reflexivity. Qed.

Lemma drv_ok_of x o : drv_step_ok x o -> drv_ok x (o_st o =? 0) (o_res o) = true.
Proof.
  unfold drv_step_ok, drv_ok. destruct ((o_st o =? 0) && awaits x).
  - intros (t & E & C). rewrite E, rev_app_distr. cbn [rev app]. unfold is_drv at 1. rewrite Z.eqb_refl. cbn [andb].
    apply forallb_not_drv_count. rewrite count_z_rev. exact C.
  - intros C. apply forallb_not_drv_count. exact C.
Qed.

Lemma run_drv_ok ops : forall os, drv_run_ok ops os -> drv_all_ok ops (map encode_obs os) = true.
Proof.
  induction ops as [|x ops IH]; intros [|o os] D; try reflexivity.
  cbn [drv_run_ok map drv_all_ok] in *. destruct D as (D1 & D2).
  rewrite obs_ok_enc, obs_res_enc, (drv_ok_of _ _ D1), (IH _ D2). reflexivity.
Qed.

(* closed = every object destroyed and the ready queue drained *)
Theorem oracle_sound coro ops :
  let r := run_from coro env0 (map decode ops) in
  (forall i, get (objs (snd r)) i = None) -> queue (snd r) = [] ->
  sp_oracle ops (sp_run coro ops) = true.
Proof.
  cbn zeta. intros NO QE. unfold sp_oracle, sp_run.
  set (dops := map decode ops) in *.
  pose proof (run_spec coro dops env0 wf_env0) as (_ & _ & _ & L).
  assert (held (snd (run_from coro env0 dops)) = []) as HE
    by (unfold held; rewrite (held_objs_all_none _ NO), QE; reflexivity).
  pose proof (all_resumed coro dops HE) as P.
  pose proof (no_leak coro dops) as NL. cbn zeta in NL. rewrite (arrs_all_none _ NO) in NL.
  pose proof (awaiter_once coro dops env0 wf_env0) as AO.
  pose proof (run_vals coro dops env0 [] wf_env0) as RV.
  rewrite run_handed, flat_map_res_enc, sum_allocs_enc, sum_frees_enc.
  rewrite map_length, L. unfold dops at 1. rewrite map_length, Nat.eqb_refl.
  rewrite (perm_b_complete _ _ P), (run_drv_ok _ _ AO).
  rewrite RV by (intros i; unfold env0, get; cbn; destruct i; reflexivity).
  cbn [andb]. rewrite andb_true_r. lia.
Qed.

(* reading the value (either conversion) returns the stored value and changes nothing at all *)
Theorem read_changes_nothing coro e o k s :
  get (objs e) o = Some s -> typed s = true -> k = 0 \/ k = 1 ->
  step coro e (ORead o k) = (e, ok_obs (sp_count s) (val s) (0, 0) []).
Proof.
  intros G T K. cbn [step]. rewrite G, T. destruct K; subst; reflexivity.
Qed.

Theorem values_as_supplied coro ops :
  vals_ok [] ops (map encode_obs (fst (run_from coro env0 ops))) = true.
Proof.
  apply run_vals; [exact wf_env0|]. intros i. unfold env0, get. cbn. destruct i; reflexivity.
Qed.

(* an add() whose allocation throws leaves everything as it was; the handle was not handed in (the caller keeps it) *)
Theorem failed_add_changes_nothing coro e o h s :
  get (objs e) o = Some s -> 0 < h ->
  (if sp_flag s then sp_count s =? cap s else negb (sp_count s <? inline_count)) = true ->
  let r := step coro e (OAddFail o h) in
  fst r = e /\ o_st (snd r) = 2 /\ o_size (snd r) = sp_count s /\ handed_op (OAddFail o h) (snd r) = [] /\ o_res (snd r) = [].
Proof.
  intros G HP NA. cbn [step]. rewrite G, NA. destruct (h <=? 0) eqn:E; [lia|]. cbn [fst snd]. repeat split.
Qed.

(* a create_suspend_point whose callback throws loses nothing: what was queued stays queued, what the callback readied
   is queued behind it (coroutine mode) or resumed while the exception unwinds (normal mode) *)
Theorem throwing_create_loses_nothing coro e o t v l :
  forallb (fun h => 0 <? h) l = true -> get (objs e) o = None ->
  let r := step coro e (OCreateThrow o t v l) in
  objs (fst r) = objs e /\ o_st (snd r) = 0 /\
  if coro then queue (fst r) = queue e ++ l /\ o_res (snd r) = [] else queue (fst r) = queue e /\ o_res (snd r) = l.
Proof.
  intros FP G. cbn [step]. rewrite FP, G. cbn [negb]. destruct coro; cbn [fst snd objs queue o_st o_res]; repeat split.
Qed.
