(* Properties_C17.v — C17: shared_future: one result for all copies; the shared state lives exactly as long as needed.
   Statements only; proofs are `exact <lemma of SharedProofs / SharedProofs2>`.  `reachable ops s` ranges over every
   schedule of: a creator thread (five construction modes, among them late initialisation through get_promise() on a
   default-constructed handle or on a copy of an init_if_needed() handle), one resolver (value / exception / drop) and
   any number of user threads that copy, poll, co_await, sync(), subscribe a callback awaiter and drop handles. *)
From Cocls Require Import Base BaseProofs SharedDefs SharedProofs SharedProofs2 SharedProofs3 SharedProofs4.
Local Open Scope nat_scope.

(* the state is never destroyed while the future is pending, even when every handle has been dropped *)
Theorem c17_alive_until_resolved : forall ops s, reachable ops s -> 1 <= freed s -> slot s = SReady.
Proof. exact alive_until_resolved. Qed.
Print Assumptions c17_alive_until_resolved.

(* the mechanism: the counter is exactly handles + self reference and is positive while the state lives; once the
   constructor / get_promise() has returned and the future is still pending, the tracer holds the self reference *)
Theorem c17_counter_is_handles_plus_selfref : forall ops s, reachable ops s -> freed s = 0 ->
  rc s = nh s + b2n (selfref s) /\ 1 <= rc s.
Proof. exact counter_is_handles_plus_selfref. Qed.
Print Assumptions c17_counter_is_handles_plus_selfref.

Theorem c17_selfref_exactly_while_pending : forall ops s, reachable ops s ->
  match cpcf s with
  | CGive | CDrop _ | CDone => tcount s = b2n (selfref s) /\ (is_ready s = true \/ selfref s = true)
  | _ => True
  end.
Proof. exact selfref_exactly_while_pending. Qed.
Print Assumptions c17_selfref_exactly_while_pending.

(* never destroyed twice; the stored value is destroyed at most once and only together with the state *)
Theorem c17_freed_at_most_once : forall ops s, reachable ops s ->
  freed s <= 1 /\ pctor s <= 1 /\ pdtor s <= pctor s /\ (freed s = 0 -> pdtor s = 0).
Proof. exact freed_at_most_once. Qed.
Print Assumptions c17_freed_at_most_once.

(* when nothing can run any more: everybody has finished (no awaiter is left behind, no deadlock), every handle and
   the self reference are gone, the state has been destroyed exactly once and the stored value with it (no leak) *)
Theorem c17_freed_exactly_once : forall ops s, reachable ops s -> terminal s ->
  cpcf s = CDone /\ rdone s = true /\ (forall j u, nth_error (users s) j = Some u -> upcf u = UDone) /\
  freed s = 1 /\ pdtor s = pctor s /\ rc s = 0 /\ selfref s = false /\ walk s = [] /\ acc s = [] /\ slot s = SReady.
Proof. exact terminal_all_done. Qed.
Print Assumptions c17_freed_exactly_once.

(* no step of any thread — the resolver's writes, its walk over the tracer node that lives inside the state, the
   tracer callback, an awaiter's read, a copy or a drop — touches the state's memory after the freeing step *)
Theorem c17_no_access_after_free : forall ops s, reachable ops s -> uaf s = 0.
Proof. exact no_access_after_free. Qed.
Print Assumptions c17_no_access_after_free.

(* every suspended awaiter (through whichever copy) is linked exactly once — in the chain, the detached rest or the
   collected suspend point — and nobody else is: the resolver releases each exactly once *)
Theorem c17_awaiters_linked_once : forall ops s w, reachable ops s -> occ s w = inl (users s) w.
Proof. exact awaiters_linked_once. Qed.
Print Assumptions c17_awaiters_linked_once.

(* all copies observe the same single result: whatever any user picked up through its handle or a copy of it — by
   co_await, sync(), a callback awaiter or a poll — is the resolver's declared result (a poll may also see "not ready") *)
Theorem c17_one_result_all_copies : forall ops s j u o,
  reachable ops s -> nth_error (users s) j = Some u -> useen u = Some o ->
  o = result_of_ops ops \/ (ukd u = UKPoll /\ o = ONotReady).
Proof. exact one_result_all_copies. Qed.
Print Assumptions c17_one_result_all_copies.

(* an awaiter of any copy is never resumed twice; it has been resumed (once, with the result) iff it has finished *)
Theorem c17_awaiters_once : forall ops s j u k,
  reachable ops s -> nth_error (users s) j = Some u -> ukd u = UKAwait k ->
  uruns u <= 1 /\ (upcf u = UDone -> uruns u = 1 /\ useen u = Some (result_of_ops ops)) /\
  (upcf u <> UDone -> uruns u = 0 /\ useen u = None).
Proof. exact awaiters_once. Qed.
Print Assumptions c17_awaiters_once.

(* when nothing can run any more every awaiter has been resumed exactly once with the one result *)
Theorem c17_every_awaiter_resumed_once : forall ops s j u k,
  reachable ops s -> terminal s -> nth_error (users s) j = Some u -> ukd u = UKAwait k ->
  uruns u = 1 /\ useen u = Some (result_of_ops ops).
Proof. exact terminal_awaiters. Qed.
Print Assumptions c17_every_awaiter_resumed_once.

(* the promise always reaches the resolver and every user gets its handle (progress of the creator) *)
Theorem c17_creator_progress : forall ops s, reachable ops s -> Prog s.
Proof. exact prog_reachable. Qed.
Print Assumptions c17_creator_progress.

(* every state the executable model visits on any schedule is covered by the theorems above *)
Theorem c17_runs_are_reachable : forall ops, reachable ops (fst (final_state ops)).
Proof. exact final_state_reachable. Qed.
Print Assumptions c17_runs_are_reachable.

(* the decidable property that is evaluated on the implementation's traces accepts the model's own run whenever the
   runner stops because nothing is enabled (i.e. not by running out of fuel), for every value-type variant *)
Theorem c17_oracle_accepts_model_run : forall isvoid ops,
  all_enabled (fst (final_state ops)) = [] -> sf_oracle isvoid ops (sf_run isvoid ops) = true.
Proof. exact oracle_accepts_terminal. Qed.
Print Assumptions c17_oracle_accepts_model_run.

(* mode, resolver kind and the declared kind of every user never change *)
Theorem c17_declarations_constant : forall ops s, reachable ops s ->
  mode s = mode_of ops /\ rk s = res_of ops /\ kinds s = map ukd (flat_map decode_user ops).
Proof. exact decl_const. Qed.
Print Assumptions c17_declarations_constant.

(* non-vacuity: late initialisation through a copy (init_if_needed, copy, get_promise on the copy), every handle of two
   awaiters and a dropper; the schedule lets the users subscribe and the creator drop before the resolver runs *)
Example c17_nonvacuous :
  let ops := [[0;3;0]; [1;0;42]; [2;1;4]; [2;0;2]; [2;0;0]; [9; 0;0;0;0;0;0;0;0; 1;1;1;1;1;1;1;1;1;1;1;1;1;1;1;1;1;1;1;1]]%Z in
  let s := fst (final_state ops) in
  all_enabled s = [] /\ freed s = 1 /\ pdtor s = 1 /\ uaf s = 0 /\
  map useen (users s) = [Some (OVal 42); Some (OVal 42); None] /\ map uruns (users s) = [1; 1; 0].
Proof. vm_compute. repeat split. Qed.

(* non-vacuity of the oracle theorem: construction from an async coroutine, copy-assignment / move-assignment /
   self-assignment onto live handles; the runner stops with nothing enabled *)
Example c17_nonvacuous_oracle :
  let ops := [[0;5;0]; [1;0;7]; [2;2;2]; [2;3;4]; [2;4;3]; [2;1;1]; [9; 3;1;4;1;5;9;2;6;5;3;5;8;9;7;9;3;2;3;8;4;6]]%Z in
  all_enabled (fst (final_state ops)) = [] /\ sf_oracle false ops (sf_run false ops) = true.
Proof. vm_compute. split; reflexivity. Qed.
