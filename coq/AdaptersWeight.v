(* AdaptersWeight.v — termination: every step consumes potential (step lemma; depends on AdaptersInv only) *)
From Cocls Require Import Base BaseProofs AdaptersDefs AdaptersInv.
Require Import ZifyBool.
Local Open Scope nat_scope.

Definition w (i : instr) : nat :=
  match i with
  | IPriv _ | IPark _ | IXWait | ICvWalk | IRel => 1
  | ICvResolve => 2 | ICvDtor => 3 | ICvPark _ => 4 | ICvSet _ => 6 | ICvReady => 7 | ICvClaim => 8
  | IOClaim => 3 | IOWait => 4
  | IPark2 | IXWait2 | IWalk2 => 1 | ISub2 _ => 2 | IResolve2 => 2 | IClaim2 | IDtorP2 => 3
  | IWalk => 9 | ISub _ => 10 | IReady => 11 | IResolve => 10 | IClaim _ | IDtorP => 11
  | IOSub _ => 2 | IOReady => 3
  end.
Fixpoint wl (l : list instr) : nat := match l with [] => 0 | x :: t => w x + wl t end.
Definition weight (s : st) : nat := wl (th0 s) + wl (th1 s) + wl (th2 s).

Lemma weight_step c s i : Inv c s -> enabled s i = true -> weight (fst (tstep c s i)) < weight s.
Proof.
  intros I E. unfold tstep, enabled, weight in *.
  destruct I as [I1 I2 I3 I4 I5 I6 I7 I8 I9 I10 I11 I12 Itok Iph IphB Iowc Ip4 Irp Ioht Iocc I13 Ioh Iop0 Idec Iow0 Iow1 Iow2 I14 I15 I16 I17 I18 I19 I20 I21 I22 I23 I24 I25 I26 I27 I28 I29 I30 I31 I32 I33 I34 I35 Jcfg J1 J2 J3 J20 J21 J4 J5 J6 J7 Jx0 Jx1 Jx2 Jxc].
  unfold N in *.
  assert (CV : cv c <= 1) by (unfold cv, b2n; destruct (is_conv c); lia).
  assert (NF1 : nfire s <= 1) by (destruct (slot s); cbn [rdy] in I6; lia).
  assert (CVN : cv c * nfire s <= nfire s) by (unfold cv, b2n; destruct (is_conv c); lia).
  assert (REN : re c * nfire s <= nfire s) by (unfold re; destruct (c_re c); lia).
  destruct i as [|[|[|i]]]; cbn [thr] in *; [| | |discriminate].
  all: dth s.
  all: destruct ins; unfold exec, fire, fire2, deliver.
  all: red1; dflags s; red1.
  all: try (dpay s; red1; dflags s).
  all: try match goal with g : bool |- _ => destruct g end.
  all: red1; cbn [wl w app].
  all: redch.
  all: try (clear - I2 I4 I6 I11 I15 J2 J4 J6 CV NF1 CVN REN; lia).
  all: try lia.
Qed.

