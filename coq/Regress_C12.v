(* Regress_C12.v — regression witnesses: the behaviour of scheduler.h BEFORE the repairs 097b145, 7be01dc, d650829
   violated C12.  The old code is transcribed next to the current model; each witness is a concrete history checked by
   computation.  (The current code is covered by the universally quantified theorems of Properties_C12.v.) *)
From Cocls Require Import Base TimerDefs.
Local Open Scope Z_scope.

(* remove() before 097b145: `while (_scheduled[0]._ident == id)` — no emptiness test inside the loop *)
Fixpoint remove_loop_old (fuel : nat) (l : list entry) (id : Z) : res (list entry * option entry) :=
  match fuel with
  | O => ErrFuel
  | S f =>
      t <- top l ;;
      if e_id t =? id then
        l' <- pop_item l ;;
        match e_p t with
        | Some _ => Ok (l', Some t)
        | None => remove_loop_old f l' id
        end
      else Ok (l, None)
  end.

(* find_if before 7be01dc: `x._ident == id` — stops at an entry whose promise was already taken *)
Fixpoint find_take_old (l : list entry) (id : Z) : list entry * option entry :=
  match l with
  | [] => ([], None)
  | e :: t =>
      if e_id e =? id
      then (mkE (e_tp e) None (e_id e) :: t, match e_p e with Some _ => Some e | None => None end)
      else let '(t', r) := find_take_old t id in (e :: t', r)
  end.

Definition remove_old (loop_fixed find_fixed : bool) (l : list entry) (id : Z) : res (list entry * option entry) :=
  if is_empty l then Ok (l, None)
  else
    r <- (if loop_fixed then remove_loop (S (length l)) l id else remove_loop_old (S (S (length l))) l id) ;;
    match snd r with
    | Some t => Ok (fst r, Some t)
    | None => Ok ((if find_fixed then find_take else find_take_old) (fst r) id)
    end.

(* with both repairs it is the current model *)
Lemma remove_old_current l id : remove_old true true l id = remove l id.
Proof. reflexivity. Qed.

Definition sched_of (s : option st) : list entry := match s with Some x => sched x | None => [] end.

(* F-C12a: cancel of a non-top entry, expiry of the top, cancel again  =>  _scheduled[0] of an empty vector *)
Example regress_097b145_oob :
  let s := snd (run_from st0 [OSchedule 0 1 10; OSchedule 1 2 20; OCancel 2; OExpired 15]) in
  sched_of s = [mkE 20 None 2] /\
  remove_old false true (sched_of s) 2 = ErrOOB /\
  remove (sched_of s) 2 = Ok ([], None).
Proof. vm_compute. repeat split. Qed.

(* F-C12b: two pending sleeps with the same ident below the top: the second cancel reports false although a sleep
   carrying the ident is still pending *)
Example regress_7be01dc_dup_id :
  let s := snd (run_from st0 [OSchedule 0 5 10; OSchedule 1 7 20; OSchedule 2 7 30; OCancel 7]) in
  pending (sched_of s) = [mkE 10 (Some 0%nat) 5; mkE 30 (Some 2%nat) 7] /\
  (exists l, remove_old true false (sched_of s) 7 = Ok (l, None)) /\
  (exists l, remove (sched_of s) 7 = Ok (l, Some (mkE 30 (Some 2%nat) 7))).
Proof. vm_compute. repeat split; eexists; reflexivity. Qed.

(* F-C12c: the stop callback of interval() took _mx and then called cancel(): request_stop() never returned *)
Example regress_d650829_self_deadlock :
  irun_from true tag ist0 [[1]; [2]; [3]] = [[0; 0; 0; 0; 0; 0]; [0; 0; 1; 0; 0; 0]; [-998]] /\
  irun_from false tag ist0 [[1]; [2]; [3]] = [[0; 0; 0; 0; 0; 0]; [0; 0; 1; 0; 0; 0]; [0; 2; 0; 2; 0; 0]].
Proof. vm_compute. split; reflexivity. Qed.

(* F-C12d (found by this component, repaired by fixes/C12-stop-lost-wakeup.patch): the worker decided to wait (it holds
   _mx, has seen no stop request, nothing is due), request_stop() sets the flag and its callback calls notify_all()
   WITHOUT taking _mx, then the worker blocks: with a plain condition_variable the notification found no waiter and
   the worker sleeps until its deadline — for ever on an empty heap, so ~scheduler never returns. *)
Example regress_stop_lost_wakeup :
  w_mode (wrun false wst0 [WIter; WStop; WBlock; WIter; WTick 1000000; WIter; WBlock; WIter]) = WWait None false /\
  w_mode (wrun true wst0 [WIter; WStop; WBlock; WIter]) = WFin.
Proof. vm_compute. split; reflexivity. Qed.
(* the universally quantified versions are Timer2Proofs.lost_stop_old / stop_ends_worker *)

(* seeded change C12-5 (never in /repo; kept as the counterpart of c12_interval_stop_hits_own): if all generators used
   ONE ident (a `static constexpr` tag), a stop request for generator 0 cancels generator 1's sleep — generator 1 ends
   although its token was never signalled, generator 0 stays asleep *)
Example regress_shared_ident :
  let ops := [[1; 0]; [1; 1]; [2; 1]; [2; 0]; [3; 0]] in
  last (irun_from false (fun _ => 1) ist0 ops) [] = [0; 0; 1; 0; 2; 0] /\
  last (irun_from false tag ist0 ops) [] = [0; 2; 2; 2; 0; 0].
Proof. vm_compute. split; reflexivity. Qed.
