(* SharedProofs.v — the invariant of SharedInv.v holds in every reachable state (every construction mode, resolver kind,
   any number of user threads of any kinds, every schedule) *)
From Cocls Require Import Base BaseProofs SharedDefs.
From Cocls Require Export SharedInv SharedInvC SharedInvU SharedInvR.
Local Open Scope nat_scope.

Theorem inv_step s i : Inv s -> enabled s i = true -> Inv (fst (tstep s i)).
Proof.
  intros I E. destruct i as [|[|j]]; cbn [tstep].
  - apply inv_cstep; [exact I|]. cbn [enabled] in E. destruct (cpcf s); congruence.
  - apply inv_rstep; assumption.
  - apply inv_ustep; assumption.
Qed.

Theorem inv_reachable ops s : reachable ops s -> Inv s.
Proof. induction 1; [apply inv_init|apply inv_step; assumption]. Qed.

