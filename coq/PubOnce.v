(* PubOnce.v — over a whole run every awaiter id appears in at most one wake-up list, and there at most once:
   no awaiter is ever resumed twice (C16 "each parked awaiter resumed exactly once", the at-most-once half for whole
   histories; the at-least-once half is the per-event exactness of the wake lists, PublisherProofs.wakes_exact). *)
From Cocls Require Import Base BaseProofs PublisherDefs PublisherProofs.
Local Open Scope Z_scope.

(* W = awaiters resumed so far, S = awaiters stored in the registrations, b = next fresh awaiter id *)
Definition once (W S : list Z) (b : Z) : Prop := NoDup (W ++ S) /\ (forall a, In a (W ++ S) -> a < b).

Lemma once_move W S w S' b : once W S b -> Permutation S (w ++ S') -> once (W ++ w) S' b.
Proof.
  intros (N & B) P.
  assert (PP : Permutation (W ++ S) ((W ++ w) ++ S')) by (rewrite <- app_assoc; apply Permutation_app_head; exact P).
  split; [eapply Permutation_NoDup; eassumption|].
  intros a I. apply B. eapply Permutation_in; [symmetry; exact PP|exact I].
Qed.

Lemma once_mono W S b b' : once W S b -> b <= b' -> once W S b'.
Proof. intros (N & B) L. split; [exact N|]. intros a I. specialize (B a I). lia. Qed.

Lemma once_nil W S b : once W S b -> once (W ++ []) S b.
Proof. rewrite app_nil_r. trivial. Qed.

Lemma set_nth_out {A} (l : list A) h x : (length l <= h)%nat -> set_nth l h x = l.
Proof. revert h; induction l as [|y l IH]; intros [|h] H; cbn in *; try reflexivity; try lia. f_equal. apply IH. lia. Qed.

Lemma once_set W l h x b : once W (flat_map awt_of l) b ->
  (awt_of x = [] \/ awt_of x = awt_of (rget l h)) -> once W (flat_map awt_of (set_nth l h x)) b.
Proof.
  intros (N & B) X. destruct (Nat.lt_ge_cases h (length l)) as [L|L]; [|rewrite set_nth_out by exact L; split; assumption].
  destruct (set_nth_split l h x L) as (l1 & y & l2 & E1 & E2 & E3).
  assert (Y : rget l h = y) by (rewrite E1, <- E2; apply rget_split).
  rewrite E3. rewrite E1 in N, B. rewrite flat_map_split in *. rewrite Y in X.
  destruct X as [X|X]; rewrite X; [|split; assumption].
  cbn [app]. unfold once. rewrite app_assoc in N, B. rewrite app_assoc. split.
  - apply NoDup_drop_mid with (b := awt_of y). exact N.
  - intros a I. apply B. apply in_app_iff in I. apply in_app_iff. destruct I as [I|I]; [left; exact I|].
    right. apply in_app_iff. right. exact I.
Qed.

Lemma once_set_fresh W l h x b : (h < length l)%nat -> once W (flat_map awt_of l) b -> awt_of x = [b] ->
  once W (flat_map awt_of (set_nth l h x)) (b + 1).
Proof.
  intros L (N & B) X.
  destruct (set_nth_split l h x L) as (l1 & y & l2 & E1 & E2 & E3).
  rewrite E3. rewrite E1 in N, B. rewrite flat_map_split in *. rewrite X.
  unfold once. rewrite app_assoc in N, B. rewrite app_assoc.
  assert (N2 : NoDup ((W ++ flat_map awt_of l1) ++ flat_map awt_of l2)) by (apply NoDup_drop_mid with (b := awt_of y); exact N).
  assert (B2 : forall a, In a ((W ++ flat_map awt_of l1) ++ flat_map awt_of l2) -> a < b).
  { intros a I. apply B. apply in_app_iff in I. apply in_app_iff. destruct I as [I|I]; [left; exact I|].
    right. apply in_app_iff. right. exact I. }
  split.
  - apply (NoDup_insert_mid _ _ b); [exact N2|]. intros I. specialize (B2 b I). lia.
  - intros a I. apply in_app_iff in I. destruct I as [I|[<-|I]]; [| lia |].
    + assert (a < b) by (apply B2; apply in_app_iff; left; exact I). lia.
    + assert (a < b) by (apply B2; apply in_app_iff; right; exact I). lia.
Qed.

Lemma once_append W l x b : once W (flat_map awt_of l) b -> awt_of x = [] -> once W (flat_map awt_of (l ++ [x])) b.
Proof. intros H X. rewrite flat_map_app. cbn. rewrite X. cbn. rewrite app_nil_r. exact H. Qed.

Lemma push_perm l : Permutation (flat_map awt_of l) (flat_map wake_of l ++ flat_map awt_of (map clear_reg l)).
Proof.
  induction l as [|x l IH]; [constructor|]. cbn [flat_map map].
  assert (E : awt_of x = wake_of x ++ awt_of (clear_reg x)).
  { unfold wake_of, clear_reg, awt_of. destruct (r_used x); cbn; [rewrite app_nil_r|]; reflexivity. }
  rewrite E. rewrite <- !app_assoc. apply Permutation_app_head.
  rewrite IH. rewrite !app_assoc. apply Permutation_app_tail. apply Permutation_app_comm.
Qed.

Lemma kick_perm sub l :
  Permutation (flat_map awt_of l) (olist (snd (kick_regs sub l)) ++ flat_map awt_of (fst (kick_regs sub l))).
Proof.
  induction l as [|x l IH]; [constructor|]. cbn [kick_regs].
  destruct (r_used x && (r_sub x =? sub)).
  - cbn [fst snd flat_map]. unfold awt_of at 3. cbn [r_awt olist app]. unfold awt_of at 1. reflexivity.
  - destruct (kick_regs sub l) as [t' a]. cbn [fst snd flat_map] in *.
    rewrite IH. rewrite !app_assoc. apply Permutation_app_tail. apply Permutation_app_comm.
Qed.

Definition stored (e : tst) : list Z := flat_map awt_of (regs (pq e)).

Lemma push_once W q c b : once W (flat_map awt_of (regs q)) b ->
  once (W ++ snd (push_lk q c)) (flat_map awt_of (regs (fst (push_lk q c)))) b.
Proof. intros H. unfold push_lk. cbn [fst snd regs]. eapply once_move; [exact H|apply push_perm]. Qed.

Lemma subscribe_once W q sub p b : once W (flat_map awt_of (regs q)) b ->
  once W (flat_map awt_of (regs (fst (subscribe_lk q sub p)))) b.
Proof.
  intros H. unfold subscribe_lk. destruct (zlen (regs q) <=? next_free q); cbn [fst regs].
  - apply once_append; [exact H|reflexivity].
  - apply once_set; [exact H|left; reflexivity].
Qed.

Theorem step_once e x W : once W (stored e) (nawt e) ->
  once (W ++ o_wk (snd (step e x))) (stored (fst (step e x))) (nawt (fst (step e x))).
Proof.
  intros H. unfold step, step_gen, stored in *.
  destruct x; cbn [fst snd].
  - (* OPub *) destruct (palive e); cbn [fst snd o_wk okw rejected with_pq pq nawt]; [|apply once_nil; exact H].
    unfold push1. apply push_once. exact H.
  - (* OBatch *) destruct (palive e); cbn [fst snd o_wk okw rejected with_pq pq nawt]; [|apply once_nil; exact H].
    unfold push_batch. destruct vs; [cbn [fst snd]; apply once_nil; exact H|]. apply push_once. exact H.
  - (* OSubRecent *) destruct (get (objs e) s); [apply once_nil; exact H|].
    destruct (valid_mode t && palive e); [|apply once_nil; exact H].
    unfold new_sub. cbn [fst snd o_wk ok3 pq nawt]. apply once_nil. apply subscribe_once. exact H.
  - (* OSubAt *) destruct (get (objs e) s); [apply once_nil; exact H|].
    destruct (valid_mode t && palive e && (0 <=? p) && (p <? HALF)); [|apply once_nil; exact H].
    unfold new_sub. cbn [fst snd o_wk ok3 pq nawt]. apply once_nil. apply subscribe_once. exact H.
  - (* OSubCopy *) destruct (get (objs e) s); [apply once_nil; exact H|].
    destruct (live_obj e src); [|apply once_nil; exact H].
    unfold new_sub. cbn [fst snd o_wk ok3 pq nawt]. apply once_nil. apply subscribe_once. exact H.
  - (* OReady *) destruct (free_obj e s) as [o|]; [|apply once_nil; exact H].
    cbn [fst snd o_wk ok3 with_pq pq nawt]. apply once_nil. unfold advance_lk.
    destruct (r_kicked (rget (regs (pq e)) (s_h o))); [exact H|].
    destruct ((wrap (r_pos (rget (regs (pq e)) (s_h o)) + 1) =? qpos (pq e)) && negb (closed (pq e))); [exact H|].
    cbn [fst]. unfold set_reg, with_regs. cbn [regs]. apply once_set; [exact H|right; reflexivity].
  - (* OSuspend *) destruct (free_obj e s) as [o|]; [|apply once_nil; exact H].
    cbn [fst snd o_wk ok3 pq nawt]. apply once_nil. unfold advance_suspend_lk.
    destruct (r_kicked (rget (regs (pq e)) (s_h o))); [cbn [fst]; apply once_mono with (b := nawt e); [exact H|lia]|].
    destruct (closed (pq e)).
    { cbn [fst]. unfold set_reg, with_regs. cbn [regs]. apply once_mono with (b := nawt e); [|lia].
      apply once_set; [exact H|right; reflexivity]. }
    destruct (r_pos (with_pos (rget (regs (pq e)) (s_h o)) (wrap (r_pos (rget (regs (pq e)) (s_h o)) + 1))) =? qpos (pq e));
      cbn [fst]; unfold set_reg, with_regs; cbn [regs].
    + destruct (Nat.lt_ge_cases (s_h o) (length (regs (pq e)))) as [L|L].
      * apply once_set_fresh; [exact L|exact H|reflexivity].
      * rewrite set_nth_out by exact L. apply once_mono with (b := nawt e); [exact H|lia].
    + apply once_mono with (b := nawt e); [|lia]. apply once_set; [exact H|right; reflexivity].
  - (* OGet *) destruct (free_obj e s) as [o|]; [|apply once_nil; exact H].
    assert (G : once W (flat_map awt_of (regs (fst (get_value_lk (pq e) (s_h o) (s_mode o))))) (nawt e)).
    { unfold get_value_lk.
      repeat match goal with
             | |- context[if ?c then _ else _] => destruct c
             | |- context[match qidx ?a ?b with _ => _ end] => destruct (qidx a b)
             end; cbn [fst]; try exact H;
        unfold set_reg, with_regs; cbn [regs]; (apply once_set; [exact H|right; reflexivity]). }
    destruct (snd (get_value_lk (pq e) (s_h o) (s_mode o))); cbn [fst snd o_wk ok3 ub_obs with_pq pq nawt];
      apply once_nil; try exact G; exact H.
  - (* OKick *) destruct (get (objs e) s) as [o|]; [|apply once_nil; exact H].
    destruct (palive e || s_live o); [|apply once_nil; exact H].
    cbn [fst snd o_wk okw with_pq pq nawt]. unfold kick_lk.
    pose proof (kick_perm (Z.of_nat s) (regs (pq e))) as P.
    destruct (kick_regs (Z.of_nat s) (regs (pq e))) as [r a]. cbn [fst snd with_regs regs] in *.
    eapply once_move; [exact H|exact P].
  - (* OLeave *) destruct (free_obj e s) as [o|]; [|apply once_nil; exact H].
    cbn [fst snd o_wk ok3 pq nawt]. apply once_nil. unfold leave_lk. cbn [regs].
    apply once_set; [exact H|right; reflexivity].
  - (* OClose *) destruct (palive e); cbn [fst snd o_wk okw rejected with_pq pq nawt]; [|apply once_nil; exact H].
    unfold close_q. destruct (closed (pq e)); [cbn [fst snd]; apply once_nil; exact H|]. apply push_once. exact H.
  - (* OPosition *) destruct (live_obj e s); apply once_nil; exact H.
  - (* ODestroyPub *) destruct (palive e); cbn [fst snd o_wk okw rejected pq nawt]; [|apply once_nil; exact H].
    unfold close_q. destruct (closed (pq e)); [cbn [fst snd]; apply once_nil; exact H|]. apply push_once. exact H.
  - apply once_nil; exact H.
  - apply once_nil; exact H.
  - apply once_nil; exact H.
  - apply once_nil; exact H.
Qed.

Definition wakes (l : list obs) : list Z := flat_map o_wk l.

Lemma once_bump e W : once W (stored e) (nawt e) -> once W (stored (bump e)) (nawt (bump e)).
Proof. intros H. unfold bump, stored. cbn [pq nawt]. apply once_mono with (b := nawt e); [exact H|lia]. Qed.

Lemma once_set_blk e s o b W : once W (stored e) (nawt e) -> once W (stored (set_blk e s o b)) (nawt (set_blk e s o b)).
Proof. trivial. Qed.

Theorem stepx_once e x W : once W (stored e) (nawt e) ->
  once (W ++ wakes (snd (stepx e x))) (stored (fst (stepx e x))) (nawt (fst (stepx e x))).
Proof.
  intros H.
  assert (S1 : forall e W x, once W (stored e) (nawt e) ->
               once (W ++ wakes [snd (step e x)]) (stored (fst (step e x))) (nawt (fst (step e x)))).
  { intros e0 W0 x0 H0. unfold wakes. cbn [flat_map]. rewrite app_nil_r. apply step_once. exact H0. }
  assert (WC : forall a b, wakes (a :: b) = o_wk a ++ wakes b) by reflexivity.
  unfold stepx, stepx_gen. change (step_gen advance_suspend_lk get_value_lk) with step.
  destruct x; try (apply S1; exact H).
  - (* OBlock *)
    destruct (free_obj e s) as [o|]; [|cbn [fst snd]; unfold wakes; cbn; apply once_nil; exact H].
    set (r1 := step e (OReady s)).
    pose proof (step_once e (OReady s) W H) as H1. fold r1 in H1.
    destruct (o_a (snd r1) =? 1).
    { cbn [fst snd]. rewrite WC, app_assoc. apply once_bump. apply S1. exact H1. }
    set (r2 := step (fst r1) (OReady s)).
    pose proof (step_once (fst r1) (OReady s) _ H1) as H2. fold r2 in H2.
    destruct (o_a (snd r2) =? 1).
    { cbn [fst snd]. rewrite WC, app_assoc, WC, app_assoc. apply once_bump. apply S1. exact H2. }
    set (r3 := step (fst r2) (OSuspend s)).
    pose proof (step_once (fst r2) (OSuspend s) _ H2) as H3. fold r3 in H3.
    destruct (o_a (snd r3) =? 1).
    { cbn [fst snd]. rewrite WC, app_assoc, WC, app_assoc. unfold wakes. cbn [flat_map]. rewrite app_nil_r.
      apply once_set_blk. exact H3. }
    cbn [fst snd]. rewrite WC, app_assoc, WC, app_assoc, WC, app_assoc. apply S1. exact H3.
  - (* OBlockFin *)
    destruct (live_obj e s) as [o|]; [|cbn [fst snd]; unfold wakes; cbn; apply once_nil; exact H].
    destruct (s_blk o && match r_awt (rget (regs (pq e)) (s_h o)) with None => true | Some _ => false end);
      [|cbn [fst snd]; unfold wakes; cbn; apply once_nil; exact H].
    cbn [fst snd]. apply S1. apply once_set_blk. exact H.
  - (* OPoll *)
    destruct (free_obj e s) as [o|]; [|cbn [fst snd]; unfold wakes; cbn; apply once_nil; exact H].
    set (r1 := step e (OReady s)).
    pose proof (step_once e (OReady s) W H) as H1. fold r1 in H1.
    destruct (o_a (snd r1) =? 1); cbn [fst snd].
    + rewrite WC, app_assoc. apply S1. exact H1.
    + unfold wakes. cbn [flat_map]. rewrite app_nil_r. exact H1.
Qed.

Theorem run_once l : forall e W, once W (stored e) (nawt e) ->
  once (W ++ wakes (fst (run_from e l))) (stored (snd (run_from e l))) (nawt (snd (run_from e l))).
Proof.
  induction l as [|x l IH]; intros e W H; [cbn; apply once_nil; exact H|].
  unfold run_from in *. cbn [run_gen fst snd]. fold (stepx e x).
  unfold wakes. rewrite flat_map_app. fold (wakes (snd (stepx e x))). rewrite app_assoc.
  apply IH. apply stepx_once. exact H.
Qed.

(* no awaiter is resumed twice in a whole run, whatever the history *)
Theorem woken_at_most_once mn mx ops : NoDup (wakes (fst (run_from (tst0 mn mx) ops))).
Proof.
  assert (H0 : once [] (stored (tst0 mn mx)) (nawt (tst0 mn mx))).
  { split; [constructor|]. intros a []. }
  destruct (run_once ops _ _ H0) as (N & _). cbn [app] in N.
  revert N. generalize (wakes (fst (run_from (tst0 mn mx) ops))) (stored (snd (run_from (tst0 mn mx) ops))).
  intros a b N. induction a as [|x a IH]; [constructor|]. cbn in N. inversion N as [|? ? NX NN]; subst.
  constructor; [|apply IH; exact NN]. intros I. apply NX. apply in_app_iff. left. exact I.
Qed.
