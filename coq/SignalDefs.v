(* SignalDefs.v — executable model of cocls::signal<T> (signal.h) with the parts of awaiter.h
   (subscribe / resume_chain / resume_chain_lk), suspend_point.h (destructor = suspend_now,
   co_await) and coro_queue.h (ready queue, pause) it talks to.  Model only; proofs are in
   SignalProofs.v.

   One shared signal state per case.  Listeners are
     * coroutines running the script (harness/vm_signal.cpp `listener`):
           for(;;) { try { log Await; v = co_await e; log Recv v; if (++cnt == limit) break;
                           if (pause) co_await pause(); }
                     catch (await_canceled_exception) { log Cancel retry; if (!retry) break; --retry; } }
           log Fin
     * connected callbacks (signal.h:261-312, heap object Awt): called with the value, return
       true (stay connected) until they were called `limit` times (limit 0 = always true).
   The driver (the code that creates handles, calls the collector, drops handles) is ordinary
   code (engines sgn_i, sgn_v) or itself a coroutine running under the ready queue (sgc_i, sgc_v). *)
From Cocls Require Import Base.
Local Open Scope Z_scope.

(* where state::_cur_val points (signal.h:40) *)
Inductive vptr := VNull | VOwned | VExt.

(* per-listener script parameters and progress *)
Record lis := mkLis { l_limit : nat; l_pause : bool; l_retry : nat; l_cnt : nat }.
Definition lis0 : lis := mkLis 0 false 0 0.

Inductive ev :=
| EAwait (i : nat)             (* coroutine i is about to co_await the emitter *)
| ERecv (i : nat) (v : Z)      (* coroutine i: co_await returned v *)
| ECancel (i : nat) (r : nat)  (* coroutine i: co_await threw await_canceled_exception; r = retries left *)
| EFin (i : nat)               (* coroutine i returned *)
| ECall (i : nat) (v : Z)      (* callback i called with v *)
| EFree (i : nat)              (* callback object i destroyed (delete this) *)
| ETerm (i : nat).             (* exception inside the noexcept resume function: std::terminate *)

Record st := mkSt {
  m_coro : bool;               (* constant: the driver is a coroutine (ready queue active) *)
  m_void : bool;               (* constant: signal<void> *)
  strong : nat;                (* shared_ptr use count of the state: signal objects + collectors *)
  chain : list (nat * bool);   (* state::_chain, head first; (id, is_callback) *)
  cur : vptr;                  (* state::_cur_val *)
  owned : option Z;            (* state::_value_storage *)
  ext : Z;                     (* the caller's variable an lvalue call points to *)
  tab : list (option lis);     (* listener id -> script parameters / progress *)
  queue : list (nat * bool);   (* coro_queue of the thread, front first; (id, ready): ready = resumed from the
                                  emitter and not yet run; not ready = re-queued by its own co_await pause() *)
  held : list (list nat)       (* suspend points returned by the collector that the driver keeps in variables
                                  (neither discarded nor awaited yet), oldest first *)
}.

Definition st0 (coro vd : bool) : st := mkSt coro vd 1 [] VNull None 0 [] [] [].

Definition alive (s : st) : bool := negb (Nat.eqb (strong s) 0).

Definition set_chain (s : st) (c : list (nat * bool)) : st :=
  mkSt (m_coro s) (m_void s) (strong s) c (cur s) (owned s) (ext s) (tab s) (queue s) (held s).
Definition set_queue (s : st) (q : list (nat * bool)) : st :=
  mkSt (m_coro s) (m_void s) (strong s) (chain s) (cur s) (owned s) (ext s) (tab s) q (held s).
Definition set_tab (s : st) (t : list (option lis)) : st :=
  mkSt (m_coro s) (m_void s) (strong s) (chain s) (cur s) (owned s) (ext s) t (queue s) (held s).
Definition set_strong (s : st) (k : nat) : st :=
  mkSt (m_coro s) (m_void s) k (chain s) (cur s) (owned s) (ext s) (tab s) (queue s) (held s).
Definition set_val (s : st) (p : vptr) (o : option Z) (x : Z) : st :=
  mkSt (m_coro s) (m_void s) (strong s) (chain s) p o x (tab s) (queue s) (held s).
Definition set_held (s : st) (h : list (list nat)) : st :=
  mkSt (m_coro s) (m_void s) (strong s) (chain s) (cur s) (owned s) (ext s) (tab s) (queue s) h.

Definition getl (s : st) (i : nat) : lis := match get (tab s) i with Some l => l | None => lis0 end.
Definition setl (s : st) (i : nat) (l : lis) : st := set_tab s (put (tab s) i (Some l)).

(* awaiter::subscribe (awaiter.h:65-74): push on the lock-free stack *)
Definition subscribe (s : st) (i : nat) (cb : bool) : st := set_chain s ((i, cb) :: chain s).

Definition deref (s : st) : option Z :=
  match cur s with
  | VNull => None
  | VOwned => owned s
  | VExt => Some (ext s)
  end.

(* emitter::await_resume (signal.h:204-217): Some v = returns v, None = throws await_canceled_exception *)
Definition await_resume (s : st) : option Z :=
  if alive s then (if m_void s then option_map (fun _ => 0) (deref s) else deref s) else None.

(* `co_await e` executed by coroutine i with r retries left.
   emitter::await_suspend (signal.h:192-201): state alive -> subscribe, coroutine stays suspended;
   state gone -> returns false, no suspension, await_resume throws, the script logs Cancel and
   retries while it has retries left. *)
Fixpoint co_await_e (r : nat) (i : nat) (s : st) : st * list ev :=
  if alive s then (subscribe s i false, [EAwait i])
  else match r with
       | O => (s, [EAwait i; ECancel i 0; EFin i])
       | S r' =>
           let l := getl s i in
           let '(s', e) := co_await_e r' i (setl s i (mkLis (l_limit l) (l_pause l) r' (l_cnt l))) in
           (s', EAwait i :: ECancel i r :: e)
       end.

(* coroutine i continues after it was resumed from its suspension on the emitter.
   third component: the script reached `co_await pause()` *)
Definition co_resumed (i : nat) (s : st) : st * list ev * bool :=
  let l := getl s i in
  match await_resume s with
  | Some v =>
      let c := S (l_cnt l) in
      let s1 := setl s i (mkLis (l_limit l) (l_pause l) (l_retry l) c) in
      if negb (Nat.eqb (l_limit l) 0) && Nat.eqb c (l_limit l) then (s1, [ERecv i v; EFin i], false)
      else if l_pause l then (s1, [ERecv i v], true)
      else let '(s2, e) := co_await_e (l_retry l) i s1 in (s2, ERecv i v :: e, false)
  | None =>
      match l_retry l with
      | O => (s, [ECancel i 0; EFin i], false)
      | S r' =>
          let '(s2, e) := co_await_e r' i (setl s i (mkLis (l_limit l) (l_pause l) r' (l_cnt l))) in
          (s2, ECancel i (S r') :: e, false)
      end
  end.

(* one coroutine handle taken from a suspend point / the ready queue is resumed.
   inl = resumed by the for-loop of suspend_now in ordinary code (suspend_point.h:137-141): the ready
   queue is empty there, so pause (coro_queue.h:210-218) pushes and pops the coroutine itself and it
   continues at once.  Otherwise it runs under the flush loop / a symmetric transfer with the driver
   queued: pause puts it behind everything queued. *)
Definition run_item (inl : bool) (it : nat * bool) (s : st) : st * list ev :=
  let '(i, ready) := it in
  if ready then
    let '(s1, e, p) := co_resumed i s in
    if p then
      if inl then let '(s2, e2) := co_await_e (l_retry (getl s1 i)) i s1 in (s2, e ++ e2)
      else (set_queue s1 (queue s1 ++ [(i, false)]), e)
    else (s1, e)
  else co_await_e (l_retry (getl s i)) i s.

Fixpoint drive (inl : bool) (items : list (nat * bool)) (s : st) : st * list ev :=
  match items with
  | [] => (s, [])
  | it :: t => let '(s1, e1) := run_item inl it s in
               let '(s2, e2) := drive inl t s1 in (s2, e1 ++ e2)
  end.

(* Awt::resume (signal.h:275-296) *)
Definition cb_resume (i : nat) (s : st) : st * list ev :=
  if negb (alive s) then (s, [EFree i])
  else match await_resume s with
       | None => (s, [ETerm i])
       | Some v =>
           let l := getl s i in
           let c := S (l_cnt l) in
           let s1 := setl s i (mkLis (l_limit l) (l_pause l) (l_retry l) c) in
           if Nat.eqb (l_limit l) 0 || Nat.ltb c (l_limit l)
           then (subscribe s1 i true, [ECall i v])
           else (s1, [ECall i v; EFree i])
       end.

(* awaiter::resume_chain_lk (awaiter.h:102-112): callbacks run inside the walk, coroutine handles are
   collected into the returned suspend point in chain order *)
Fixpoint walk (w : list (nat * bool)) (s : st) : st * list ev * list nat :=
  match w with
  | [] => (s, [], [])
  | (i, true) :: t =>
      let '(s1, e1) := cb_resume i s in
      let '(s2, e2, sp) := walk t s1 in (s2, e1 ++ e2, sp)
  | (i, false) :: t =>
      let '(s2, e2, sp) := walk t s in (s2, e2, i :: sp)
  end.

(* state::notify_awaiters = awaiter::resume_chain (awaiter.h:80-85): exchange, then walk *)
Definition notify (s : st) : st * list ev * list nat := walk (chain s) (set_chain s []).

Definition ready_items (sp : list nat) : list (nat * bool) := map (fun i => (i, true)) sp.

(* what happens to the suspend point returned by the collector / built in ~state.
   awaited = false: destroyed (suspend_point.h:97-99,130-145): ordinary code resumes every handle in
   array order; in a coroutine the handles are only appended to the ready queue.
   awaited = true (driver is a coroutine, suspend_point.h:148-183): empty -> no suspension; otherwise the
   last handle is resumed by symmetric transfer, the others and then the driver are queued; everything
   queued before the driver runs before the driver continues. *)
Definition dispose (awaited : bool) (sp : list nat) (s : st) : st * list ev :=
  if negb (m_coro s) then drive true (ready_items sp) s
  else if negb awaited then (set_queue s (queue s ++ ready_items sp), [])
  else match sp with
       | [] => (s, [])
       | _ => drive false ((last sp O, true) :: queue s ++ ready_items (removelast sp)) (set_queue s [])
       end.

Inductive op :=
| OSpawn (i limit : nat) (pause : bool) (retry : nat)
| OConnect (i limit : nat)
| OEmit (kind : nat) (awaited : bool) (v : Z)   (* kind 0: by value/args, 1: rvalue, 2: lvalue reference *)
| OCopy
| ODrop
| OPause
| OEmitHold (kind : nat) (v : Z)   (* call the collector and keep the returned suspend point in a variable *)
| ORelease                         (* the oldest kept suspend point is destroyed *)
| OAwaitHeld                       (* the oldest kept suspend point is co_awaited (driver is a coroutine) *)
| OHookUp (i limit : nat) (pause : bool) (retry : nat) (keep : bool) (emits : nat)
    (* first op of a case only: listener i awaits signal<T>::hook_up(fn) (signal.h:324-386): the first await creates the
       state, subscribes, passes a collector to fn; fn calls it `emits` times (values 901, 902, ..: a generator that replays
       to a new observer from inside the registration call) and keeps it as the driver's handle (keep) or drops it *)
| OBad.

(* observation of one op: status (0 ok / 1 rejected), size of the returned suspend point,
   operator new calls, operator delete calls, events in order *)
Record obs := mkObs { o_st : Z; o_ret : Z; o_new : Z; o_del : Z; o_ev : list ev }.
Definition rejected : obs := mkObs 1 0 0 0 [].

Definition is_free (e : ev) : bool := match e with EFree _ => true | _ => false end.
Definition frees (l : list ev) : Z := zlen (filter is_free l).

Definition step0 (s : st) (x : op) : st * obs :=
  match x with
  | OSpawn i limit pause retry =>
      match get (tab s) i with
      | Some _ => (s, rejected)
      | None =>
          let s1 := setl s i (mkLis limit pause retry 0) in
          let '(s2, e) := co_await_e retry i s1 in
          (s2, mkObs 0 0 0 0 e)
      end
  | OConnect i limit =>
      match get (tab s) i with
      | Some _ => (s, rejected)
      | None =>
          let s1 := setl s i (mkLis limit false 0 0) in
          (* connect (signal.h:310-311) = new Awt + initial_reg (298-305) *)
          if alive s then (subscribe s1 i true, mkObs 0 0 1 0 [])
          else let '(s2, e) := cb_resume i s1 in (s2, mkObs 0 0 1 (frees e) e)
      end
  | OEmit kind awaited v =>
      if negb (alive s) || (awaited && negb (m_coro s)) || (m_void s && negb (Nat.eqb kind 0)) || Nat.ltb 2 kind
      then (s, rejected) else
      (* collector::operator() (signal.h:96-139) *)
      let s1 := if Nat.eqb kind 2 then set_val s VExt (owned s) v else set_val s VOwned (Some v) (ext s) in
      let '(s2, e1, sp) := notify s1 in
      let '(s3, e2) := dispose awaited sp s2 in
      (s3, mkObs 0 (zlen sp) 0 (frees (e1 ++ e2)) (e1 ++ e2))
  | OCopy =>
      if alive s then (set_strong s (S (strong s)), mkObs 0 0 0 0 []) else (s, rejected)
  | ODrop =>
      match strong s with
      | O => (s, rejected)
      | S O =>
          (* last strong reference: ~state (signal.h:47-50), then the members are destroyed *)
          let s1 := set_val (set_strong s 0) VNull (owned s) (ext s) in
          let '(s2, e1, sp) := notify s1 in
          let '(s3, e2) := dispose false sp s2 in
          (set_val s3 VNull None (ext s3), mkObs 0 0 0 (frees (e1 ++ e2)) (e1 ++ e2))
      | S k => (set_strong s k, mkObs 0 0 0 0 [])
      end
  | OPause =>
      if negb (m_coro s) then (s, rejected) else
      let '(s1, e) := drive false (queue s) (set_queue s []) in
      (s1, mkObs 0 0 0 (frees e) e)
  | OEmitHold kind v =>
      if negb (alive s) || (m_void s && negb (Nat.eqb kind 0)) || Nat.ltb 2 kind then (s, rejected) else
      let s1 := if Nat.eqb kind 2 then set_val s VExt (owned s) v else set_val s VOwned (Some v) (ext s) in
      let '(s2, e1, sp) := notify s1 in
      (set_held s2 (held s2 ++ [sp]), mkObs 0 (zlen sp) 0 (frees e1) e1)
  | ORelease =>
      match held s with
      | [] => (s, rejected)
      | sp :: rest =>
          let '(s1, e) := dispose false sp (set_held s rest) in (s1, mkObs 0 0 0 (frees e) e)
      end
  | OAwaitHeld =>
      if negb (m_coro s) then (s, rejected) else
      match held s with
      | [] => (s, rejected)
      | sp :: rest =>
          let '(s1, e) := dispose true sp (set_held s rest) in (s1, mkObs 0 0 0 (frees e) e)
      end
  | OHookUp _ _ _ _ _ _ => (s, rejected)
  | OBad => (s, rejected)
  end.

(* hook_up_emitter::await_suspend (signal.h:331-339): `signal s; subscribe; fn(s.get_collector());` and then `s` dies.
   The coroutine is subscribed BEFORE the registration function runs, so what fn emits through the collector reaches it
   (from ordinary code it is even resumed from inside its own await_suspend, re-awaits, and gets the next value too).
   With the collector kept the state's only handle is then the driver's; with the collector dropped the state dies at
   the end of await_suspend.  The transition is the composition of the single transitions spawn, emit x emits, (drop). *)
Fixpoint run0 (s : st) (l : list op) : st * list obs :=
  match l with
  | [] => (s, [])
  | x :: t => let '(s1, o) := step0 s x in let '(s2, os) := run0 s1 t in (s2, o :: os)
  end.
Fixpoint osum (f : obs -> Z) (l : list obs) : Z := match l with [] => 0 | o :: t => f o + osum f t end.
Definition hook_tail (keep : bool) (emits : nat) : list op :=
  map (fun j => OEmit 0 false (900 + Z.of_nat j)) (seq 1 emits) ++ (if keep then [] else [ODrop]).

Definition step (s : st) (x : op) : st * obs :=
  match x with
  | OHookUp i limit pause retry keep emits =>
      let '(s1, o1) := step0 s (OSpawn i limit pause retry) in
      if negb (o_st o1 =? 0) then (s1, o1) else
      let '(s2, os) := run0 s1 (hook_tail keep emits) in
      (s2, mkObs 0 0 (osum o_new (o1 :: os)) (osum o_del (o1 :: os)) (flat_map o_ev (o1 :: os)))
  | _ => step0 s x
  end.

Fixpoint run_from (s : st) (l : list op) : list obs * st :=
  match l with
  | [] => ([], s)
  | x :: t => let '(s1, o) := step s x in
              let '(os, s2) := run_from s1 t in (o :: os, s2)
  end.

(* ---------- wire encoding ---------- *)
Definition inr (lo hi z : Z) : bool := (lo <=? z) && (z <=? hi).

Definition decode (l : list Z) : op :=
  match l with
  | [0; i; lim; p; r] =>
      if inr 0 63 i && inr 0 9 lim && inr 0 1 p && inr 0 3 r
      then OSpawn (Z.to_nat i) (Z.to_nat lim) (p =? 1) (Z.to_nat r) else OBad
  | [1; i; lim] => if inr 0 63 i && inr 0 9 lim then OConnect (Z.to_nat i) (Z.to_nat lim) else OBad
  | [2; k; a; v] => if inr 0 2 k && inr 0 1 a && inr (-100000) 100000 v then OEmit (Z.to_nat k) (a =? 1) v else OBad
  | [3] => OCopy
  | [4] => ODrop
  | [5] => OPause
  | [6; k; v] => if inr 0 2 k && inr (-100000) 100000 v then OEmitHold (Z.to_nat k) v else OBad
  | [7] => ORelease
  | [8] => OAwaitHeld
  | _ => OBad
  end.

(* hook-up is only meaningful on the untouched initial state: accepted as the first op of a case only *)
Definition decode_first (l : list Z) : op :=
  match l with
  | [9; i; lim; p; r; k] =>
      if inr 0 63 i && inr 0 9 lim && inr 0 1 p && inr 0 3 r && inr 0 1 k
      then OHookUp (Z.to_nat i) (Z.to_nat lim) (p =? 1) (Z.to_nat r) (k =? 1) 0 else OBad
  | [9; i; lim; p; r; k; n] =>
      if inr 0 63 i && inr 0 9 lim && inr 0 1 p && inr 0 3 r && inr 0 1 k && inr 0 3 n
      then OHookUp (Z.to_nat i) (Z.to_nat lim) (p =? 1) (Z.to_nat r) (k =? 1) (Z.to_nat n) else OBad
  | _ => decode l
  end.
Definition decode_all (ops : list (list Z)) : list op :=
  match ops with [] => [] | h :: t => decode_first h :: map decode t end.

Definition zn (k : nat) : Z := Z.of_nat k.

Definition encode_ev (e : ev) : list Z :=
  match e with
  | EAwait i => [6; zn i; 0]
  | ERecv i v => [1; zn i; v]
  | ECancel i r => [2; zn i; zn r]
  | EFin i => [5; zn i; 0]
  | ECall i v => [3; zn i; v]
  | EFree i => [4; zn i; 0]
  | ETerm i => [9; zn i; 0]
  end.

Definition encode_obs (o : obs) : list Z :=
  o_st o :: o_ret o :: o_new o :: o_del o :: flat_map encode_ev (o_ev o).

Definition sg_run (coro vd : bool) (ops : list (list Z)) : list (list Z) :=
  map encode_obs (fst (run_from (st0 coro vd) (decode_all ops))).

(* ================================================================================================
   Decidable form of C15 over an observed trace (run on the implementation's output).
   It knows nothing about the chain or the ready queue: it follows, per listener, what the
   listener's own log says (Await = "I am about to wait") and what the driver did (the ops), and checks
     - every listener waiting when the collector is called gets that value: its next event is the
       delivery of exactly that value (never another value, never a cancel), callbacks and — for calls
       from ordinary code, awaited calls and pause — coroutines before the op ends;
     - nobody who was not waiting gets anything; no second delivery;
     - when the last handle goes every waiting callback is freed in that op and the next event of every
       waiting coroutine is Cancel; awaiting after that is cancelled at once (adjacent events);
     - a coroutine that does not pause logs its next Await right after the delivery (so it waits again
       before the collector can be called again);
     - callback objects: allocated by connect only, freed exactly once, never used after; closed case
       (state gone at the end) => every callback freed, every coroutine finished, news = deletes.
   ================================================================================================ *)
Inductive lstat :=
| LIdle          (* coroutine between waits: its next event is Await (at once unless it pauses) *)
| LWait          (* waiting on the emitter / callback connected *)
| LOwed (v : Z)  (* was waiting when v was emitted; delivery pending *)
| LOwedC         (* was waiting when the state went away (or awaited a dead emitter): cancel pending *)
| LFinDue        (* coroutine: must return now; callback: returned false, must be freed now *)
| LDone.         (* finished / freed *)

Record orec := mkO { oc_cb : bool; oc_par : lis; oc_stat : lstat; oc_cnt : nat; oc_retry : nat }.

Record ost := mkOst {
  os_coro : bool; os_void : bool;
  os_lax : bool;              (* variant used only to classify a failure (see tools/props/C15.py) *)
  os_strong : nat;
  os_tab : list (option orec);
  os_pend : option nat;       (* Some i: the next event must be listener i's *)
  os_bal : Z;                 (* news - deletes so far *)
  os_held : nat               (* suspend points the driver still keeps *)
}.

Definition oget (t : list (option orec)) (i : nat) : option orec := get t i.
Definition oput (t : list (option orec)) (i : nat) (r : orec) := put t i (Some r).
Definition with_stat (r : orec) (x : lstat) : orec := mkO (oc_cb r) (oc_par r) x (oc_cnt r) (oc_retry r).
Definition o_set (o : ost) (k : nat) (t : list (option orec)) (p : option nat) : ost :=
  mkOst (os_coro o) (os_void o) (os_lax o) k t p (os_bal o) (os_held o).
Definition o_held (o : ost) (h : nat) : ost :=
  mkOst (os_coro o) (os_void o) (os_lax o) (os_strong o) (os_tab o) (os_pend o) (os_bal o) h.

Definition ev_id (e : ev) : nat :=
  match e with EAwait i | ERecv i _ | ECancel i _ | EFin i | ECall i _ | EFree i | ETerm i => i end.

(* one event; None = violation *)
Definition o_event (o : ost) (e : ev) : option ost :=
  let okpend := match os_pend o with None => true | Some j => Nat.eqb j (ev_id e) end in
  if negb okpend then None else
  match oget (os_tab o) (ev_id e) with
  | None => None
  | Some r =>
      let upd (r' : orec) (pend : option nat) := Some (o_set o (os_strong o) (oput (os_tab o) (ev_id e) r') pend) in
      match e with
      | EAwait i =>
          if oc_cb r then None else
          match oc_stat r with
          | LIdle => if Nat.eqb (os_strong o) 0 then upd (with_stat r LOwedC) (Some i)   (* cancelled at once *)
                     else upd (with_stat r LWait) None
          | _ => None
          end
      | ERecv i v =>
          if oc_cb r then None else
          match oc_stat r with
          | LOwed w =>
              if negb (v =? w) then None else
              let c := S (oc_cnt r) in
              let fin := negb (Nat.eqb (l_limit (oc_par r)) 0) && Nat.eqb c (l_limit (oc_par r)) in
              if fin then upd (mkO false (oc_par r) LFinDue c (oc_retry r)) (Some i)
              else upd (mkO false (oc_par r) LIdle c (oc_retry r)) (if l_pause (oc_par r) then None else Some i)
          | _ => None
          end
      | ECancel i k =>
          if oc_cb r then None else
          match oc_stat r with
          | LOwedC =>
              if negb (Nat.eqb k (oc_retry r)) then None else
              upd (mkO false (oc_par r) (if Nat.eqb k 0 then LFinDue else LIdle) (oc_cnt r) (Nat.pred k)) (Some i)
          | _ => None
          end
      | EFin i =>
          if oc_cb r then None else
          match oc_stat r with
          | LFinDue => upd (with_stat r LDone) None
          | _ => None
          end
      | ECall i v =>
          if negb (oc_cb r) then None else
          match oc_stat r with
          | LOwed w =>
              if negb (v =? w) then None else
              let c := S (oc_cnt r) in
              let stay := Nat.eqb (l_limit (oc_par r)) 0 || Nat.ltb c (l_limit (oc_par r)) in
              if stay then upd (mkO true (oc_par r) LWait c 0) None
              else upd (mkO true (oc_par r) LFinDue c 0) (Some i)
          | _ => None
          end
      | EFree i =>
          if negb (oc_cb r) then None else
          match oc_stat r with
          | LFinDue | LOwedC => upd (with_stat r LDone) None
          | _ => None
          end
      | ETerm _ => None
      end
  end.

Fixpoint o_events (o : ost) (l : list ev) : option ost :=
  match l with
  | [] => Some o
  | e :: t => match o_event o e with Some o1 => o_events o1 t | None => None end
  end.

(* the collector is called / the state goes away: every listener that waits now has a delivery
   (resp. a cancel) pending.  lax only: a coroutine whose delivery is still pending (queued by a discarded
   suspend point in a coroutine) is overrun by the new value *)
Definition owe (lax : bool) (x : lstat) (t : list (option orec)) : list (option orec) :=
  map (fun r => match r with
                | Some r => Some (match oc_stat r with
                                  | LWait => with_stat r x
                                  | LOwed _ => if lax && negb (oc_cb r) then with_stat r x else r
                                  | _ => r end)
                | None => None
                end) t.

Definition none_owed_pred (cbonly : bool) (r : option orec) : bool :=
  match r with
  | Some r => match oc_stat r with
              | LOwed _ | LOwedC => if cbonly then negb (oc_cb r) else false
              | _ => true
              end
  | None => true
  end.
(* cbonly = false: nobody has a delivery/cancel pending; true: no callback has *)
Definition none_owed (cbonly : bool) (t : list (option orec)) : bool := forallb (none_owed_pred cbonly) t.

Definition all_done (t : list (option orec)) : bool :=
  forallb (fun r => match r with Some r => match oc_stat r with LDone => true | _ => false end | None => true end) t.

Definition waiting_co (r : option orec) : bool :=
  match r with
  | Some r => negb (oc_cb r) && match oc_stat r with LWait => true | _ => false end
  | None => false
  end.

Fixpoint decode_evs (fuel : nat) (l : list Z) : option (list ev) :=
  match fuel with O => None | S f =>
  match l with
  | [] => Some []
  | k :: i :: v :: t =>
      if (i <? 0) then None else
      let e := if k =? 6 then Some (EAwait (Z.to_nat i))
               else if k =? 1 then Some (ERecv (Z.to_nat i) v)
               else if k =? 2 then (if v <? 0 then None else Some (ECancel (Z.to_nat i) (Z.to_nat v)))
               else if k =? 5 then Some (EFin (Z.to_nat i))
               else if k =? 3 then Some (ECall (Z.to_nat i) v)
               else if k =? 4 then Some (EFree (Z.to_nat i))
               else None in
      match e, decode_evs f t with
      | Some e, Some r => Some (e :: r)
      | _, _ => None
      end
  | _ => None
  end end.

(* is the op acceptable in the driver's bookkeeping (ids fresh, a handle left, mode) *)
Definition o_valid (o : ost) (x : op) : bool :=
  let alive := negb (Nat.eqb (os_strong o) 0) in
  match x with
  | OSpawn i _ _ _ | OConnect i _ => match oget (os_tab o) i with Some _ => false | None => true end
  | OEmit kind awaited _ =>
      negb (negb alive || (awaited && negb (os_coro o)) || (os_void o && negb (Nat.eqb kind 0)) || Nat.ltb 2 kind)
  | OCopy => alive
  | ODrop => alive
  | OPause => os_coro o
  | OEmitHold kind _ => negb (negb alive || (os_void o && negb (Nat.eqb kind 0)) || Nat.ltb 2 kind)
  | ORelease => negb (Nat.eqb (os_held o) 0)
  | OAwaitHeld => os_coro o && negb (Nat.eqb (os_held o) 0)
  | OHookUp _ _ _ _ _ _ => true      (* decode_all lets it through as the first op only *)
  | OBad => false
  end.

(* the events of one collector call made from inside the registration function: its delivery (if any) and what the
   listener logs before the next delivery (a cancel belongs to the disconnect that follows the calls) *)
Definition is_deliv (e : ev) : bool := match e with ERecv _ _ | ECall _ _ => true | _ => false end.
Definition is_cancel (e : ev) : bool := match e with ECancel _ _ => true | _ => false end.
Fixpoint take_nondeliv (l : list ev) : list ev * list ev :=
  match l with
  | [] => ([], [])
  | e :: t => if is_deliv e || is_cancel e then ([], l) else let '(a, b) := take_nondeliv t in (e :: a, b)
  end.
Definition take_seg (l : list ev) : list ev * list ev :=
  match l with
  | [] => ([], [])
  | e :: t => if is_deliv e then let '(a, b) := take_nondeliv t in (e :: a, b) else take_nondeliv l
  end.

(* emissions 1..n from inside the registration function: each owes its value to whoever waits; from ordinary code the
   delivery has happened before the next one *)
Fixpoint o_hook_emits (n : nat) (j : nat) (o : ost) (evs : list ev) : option (ost * list ev) :=
  match n with
  | O => Some (o, evs)
  | S n' =>
      let w := if os_void o then 0 else 900 + Z.of_nat j in
      let o1 := o_set o (os_strong o) (owe (os_lax o) (LOwed w) (os_tab o)) (os_pend o) in
      let '(seg, rest) := take_seg evs in
      match o_events o1 seg with
      | None => None
      | Some o2 =>
          if os_coro o || (none_owed false (os_tab o2) && match os_pend o2 with None => true | Some _ => false end)
          then o_hook_emits n' (S j) o2 rest else None
      end
  end.

(* one op with its observed line *)
Definition o_step (o : ost) (x : op) (line : list Z) : option ost :=
  match line with
  | stz :: ret :: nw :: dl :: rest =>
      match decode_evs (S (length rest)) rest with
      | None => None
      | Some evs =>
          let o := mkOst (os_coro o) (os_void o) (os_lax o) (os_strong o) (os_tab o) (os_pend o) (os_bal o + nw - dl) (os_held o) in
          let alive := negb (Nat.eqb (os_strong o) 0) in
          (* strict: every pending delivery / cancel must have happened when the op ends *)
          let finish (o2 : option ost) (strict : bool) : option ost :=
            match o2 with
            | None => None
            | Some o2 =>
                if (dl =? zlen (filter is_free evs))
                   && match os_pend o2 with None => true | Some _ => false end
                   && none_owed (negb (strict && Nat.eqb (os_held o2) 0)) (os_tab o2) then Some o2 else None
            end in
          if negb (o_valid o x) then
            (* must be rejected, and a rejected op has no effect at all *)
            match evs with [] => if (stz =? 1) && (ret =? 0) && (nw =? 0) && (dl =? 0) then Some o else None | _ => None end
          else if negb (stz =? 0) then None else
          match x with
          | OSpawn i limit pause retry =>
              let o1 := o_set o (os_strong o) (oput (os_tab o) i (mkO false (mkLis limit pause retry 0) LIdle 0 retry)) (Some i) in
              if (nw =? 0) && (ret =? 0) then finish (o_events o1 evs) (negb (os_coro o)) else None
          | OConnect i limit =>
              if negb ((nw =? 1) && (ret =? 0)) then None else
              if alive then
                match evs with
                | [] => finish (Some (o_set o (os_strong o) (oput (os_tab o) i (mkO true (mkLis limit false 0 0) LWait 0 0)) None))
                               (negb (os_coro o))
                | _ => None
                end
              else
                let o1 := o_set o (os_strong o) (oput (os_tab o) i (mkO true (mkLis limit false 0 0) LOwedC 0 0)) (Some i) in
                finish (o_events o1 evs) (negb (os_coro o))
          | OEmit kind awaited v =>
              if negb (nw =? 0) then None else
              let w := if os_void o then 0 else v in
              if negb (ret =? zlen (filter waiting_co (os_tab o))) then None else
              let o1 := o_set o (os_strong o) (owe (os_lax o) (LOwed w) (os_tab o)) None in
              finish (o_events o1 evs) (negb (os_coro o) || (awaited && (negb (os_lax o) || (0 <? ret))))
          | OCopy =>
              if (nw =? 0) && (ret =? 0) then
                match evs with
                | [] => Some (o_set o (S (os_strong o)) (os_tab o) (os_pend o))
                | _ => None end
              else None
          | ODrop =>
              if negb ((nw =? 0) && (ret =? 0)) then None else
              match os_strong o with
              | O => None
              | S O =>
                  let o1 := o_set o 0 (owe (os_lax o) LOwedC (os_tab o)) None in
                  finish (o_events o1 evs) (negb (os_coro o))
              | S k =>
                  match evs with
                  | [] => Some (o_set o k (os_tab o) (os_pend o))
                  | _ => None end
              end
          | OPause =>
              if (nw =? 0) && (ret =? 0) then finish (o_events o evs) true else None
          | OEmitHold kind v =>
              if negb (nw =? 0) then None else
              let w := if os_void o then 0 else v in
              if negb (ret =? zlen (filter waiting_co (os_tab o))) then None else
              let o1 := o_held (o_set o (os_strong o) (owe (os_lax o) (LOwed w) (os_tab o)) None) (S (os_held o)) in
              finish (o_events o1 evs) false
          | ORelease =>
              if (nw =? 0) && (ret =? 0) then finish (o_events (o_held o (Nat.pred (os_held o))) evs) (negb (os_coro o)) else None
          | OAwaitHeld =>
              (* an empty suspend point does not suspend the driver: what is queued stays queued *)
              if (nw =? 0) && (ret =? 0) then finish (o_events (o_held o (Nat.pred (os_held o))) evs) false else None
          | OHookUp i limit pause retry keep emits =>
              if negb ((nw =? 0) && (ret =? 0)) then None else
              match oget (os_tab o) i, evs with
              | None, e1 :: rest =>
                  let o1 := o_set o (os_strong o) (oput (os_tab o) i (mkO false (mkLis limit pause retry 0) LIdle 0 retry)) (Some i) in
                  match o_event o1 e1 with
                  | None => None
                  | Some o2 =>
                      match o_hook_emits emits 1 o2 rest with
                      | None => None
                      | Some (o3, rest3) =>
                          if keep then match rest3 with [] => finish (Some o3) (negb (os_coro o)) | _ => None end
                          else finish (o_events (o_set o3 0 (owe (os_lax o) LOwedC (os_tab o3)) (os_pend o3)) rest3) (negb (os_coro o))
                      end
                  end
              | _, _ => None
              end
          | OBad => None
          end
      end
  | _ => None
  end.

Fixpoint o_run (o : ost) (ops : list op) (obs : list (list Z)) : option ost :=
  match ops, obs with
  | [], [] => Some o
  | x :: t, l :: u => match o_step o x l with Some o1 => o_run o1 t u | None => None end
  | _, _ => None
  end.

Definition ost0 (coro vd lax : bool) : ost := mkOst coro vd lax 1 [] None 0 0.

(* closed trace: if the state is gone at the end and nothing is pending, nothing may be left over *)
Definition sg_oracle (coro vd lax : bool) (ops obs : list (list Z)) : bool :=
  match o_run (ost0 coro vd lax) (decode_all ops) obs with
  | None => false
  | Some o =>
      if Nat.eqb (os_strong o) 0 && none_owed false (os_tab o)
      then all_done (os_tab o) && (os_bal o =? 0)
      else true
  end.

(* ================================================================================================
   Cross-thread subscribe against the collector's exchange (awaiter.h:65-74 vs 80-85), interleaving model.
   Threads: any number of subscribers, each running awaiter::subscribe — a CAS loop whose every attempt is
   one atomic step with the thread-local expected value `_next` (starts as nullptr; a failed attempt loads
   the current head) — and the collector thread doing `left` exchanges (each takes the whole chain = one
   round).  A schedule is a list of naturals: choice k runs the (k mod |enabled|)-th enabled thread.
   Pointers are identified with the id of the awaiter they point to (None = nullptr); links live in the
   awaiters, so a CAS that succeeds on a re-used head value still yields a consistent chain.
   ================================================================================================ *)
Record sub := mkSub { sid : nat; sexp : option nat; spub : bool }.
Record cs := mkCs { c_head : list nat; c_subs : list sub; c_rounds : list (list nat); c_left : nat }.

Definition head_id (l : list nat) : option nat := match l with [] => None | x :: _ => Some x end.
Definition oeq (a b : option nat) : bool :=
  match a, b with None, None => true | Some x, Some y => Nat.eqb x y | _, _ => false end.

(* indices of the enabled threads: unpublished subscribers, then the collector (index = number of subscribers) *)
Fixpoint enabled_subs (l : list sub) (k : nat) : list nat :=
  match l with
  | [] => []
  | x :: t => if spub x then enabled_subs t (S k) else k :: enabled_subs t (S k)
  end.
Definition enabled (c : cs) : list nat :=
  enabled_subs (c_subs c) O ++ (match c_left c with O => [] | S _ => [length (c_subs c)] end).

Definition cs_thread (c : cs) (j : nat) : cs :=
  match nth_error (c_subs c) j with
  | Some x =>
      if spub x then c else
      if oeq (sexp x) (head_id (c_head c))
      then mkCs (sid x :: c_head c) (set_nth (c_subs c) j (mkSub (sid x) (sexp x) true)) (c_rounds c) (c_left c)
      else mkCs (c_head c) (set_nth (c_subs c) j (mkSub (sid x) (head_id (c_head c)) false)) (c_rounds c) (c_left c)
  | None =>
      match c_left c with
      | O => c
      | S k => mkCs [] (c_subs c) (c_rounds c ++ [c_head c]) k     (* chain.exchange(nullptr) *)
      end
  end.

Definition cs_step (c : cs) (choice : nat) : cs :=
  match enabled c with
  | [] => c
  | e => cs_thread c (nth (Nat.modulo choice (length e)) e O)
  end.

Definition cs_run (c : cs) (sched : list nat) : cs := fold_left cs_step sched c.

Definition cs0 (ids : list nat) (k : nat) : cs := mkCs [] (map (fun i => mkSub i None false) ids) [] k.
Definition published (c : cs) : list nat := map sid (filter spub (c_subs c)).
