(* PoolTerm.v — finiteness of the runs of the thread-pool model: a measure (remaining client programs + job bodies
   + queued closures + pending wake-ups + join lists) strictly decreases with every step, so every schedule ends
   after at most mu (init ops) steps; with PoolLive: it ends in a terminal state (or in the client-program
   deadlock `user_stuck`). *)
From Cocls Require Import Base BaseProofs PoolDefs PoolProofs PoolLive.
Require Import Lia.
Local Open Scope nat_scope.

Lemma pcw_job_next K i r : pcw K i (job_next r) = 2 + bw K r.
Proof. destruct r as [|[] r]; cbn [job_next pcw bw actw]; lia. Qed.
Lemma pcw_next_client K i prog : pcw K i (next_client i prog) = ncw K i prog.
Proof. unfold next_client, ncw. destruct prog; [destruct (Nat.eqb i 0)|]; reflexivity. Qed.
Lemma pcw_pc_after K i a : pcw K i (pc_after i a) = aw K i a.
Proof. destruct a as [r| |[|] r]; cbn [pc_after aw]; try reflexivity; [apply pcw_next_client|apply pcw_job_next]. Qed.
Lemma ncw_le K i prog : ncw K i prog <= 1 + progw K prog + endw K i.
Proof. unfold ncw, endw. destruct prog; [destruct (Nat.eqb i 0); cbn; lia|lia]. Qed.

Lemma sumw_set_nth f l : forall i from p old, nth_error l i = Some old ->
  sumw f (set_nth l i p) from + f (from + i) old = sumw f l from + f (from + i) p.
Proof.
  induction l as [|x l IH]; intros [|i] from p old H; cbn [nth_error] in H; try discriminate.
  - inversion H; subst. cbn [set_nth sumw]. rewrite Nat.add_0_r. lia.
  - cbn [set_nth sumw]. specialize (IH i (S from) p old H). replace (from + S i) with (S from + i) by lia. lia.
Qed.

Lemma sumw_change f g l : forall from i x, nth_error l i = Some x ->
  (forall j q, j <> from + i -> f j q = g j q) ->
  sumw f l from + g (from + i) x = sumw g l from + f (from + i) x.
Proof.
  induction l as [|y l IH]; intros from [|i] x H E; cbn [nth_error] in H; try discriminate.
  - inversion H; subst y. cbn [sumw]. rewrite Nat.add_0_r.
    assert (R : forall k, from < k -> sumw f l k = sumw g l k).
    { clear -E. induction l as [|z l IH]; intros k L; [reflexivity|]. cbn [sumw]. rewrite (E k z) by lia. rewrite IH by lia. reflexivity. }
    rewrite (R (S from)) by lia. lia.
  - cbn [sumw]. rewrite (E from y) by lia.
    assert (IH' := IH (S from) i x H). replace (from + S i) with (S from + i) by lia.
    assert (X : forall j q, j <> S from + i -> f j q = g j q) by (intros j q N; apply E; lia).
    specialize (IH' X). lia.
Qed.

Lemma sumw_ext f g l : forall from, (forall j p, f j p = g j p) -> sumw f l from = sumw g l from.
Proof. induction l as [|x l IH]; intros from E; [reflexivity|]. cbn [sumw]. rewrite E, (IH (S from) E). reflexivity. Qed.

Lemma nth_set_nth_other {A} (l : list A) i j x d : i <> j -> nth j (set_nth l i x) d = nth j l d.
Proof.
  revert i j. induction l as [|y l IH]; intros [|i] [|j] N; cbn; auto; try lia.
Qed.

Lemma qw_ext s s' l : length (thrs s') = length (thrs s) -> (forall c, In c l -> G cb [] s' c = G cb [] s c) -> qw s' l = qw s l.
Proof.
  intros L E. induction l as [|c r IH]; [reflexivity|]. cbn [qw]. unfold clw. rewrite L, (E c) by (left; reflexivity).
  rewrite IH; [reflexivity|]. intros c0 H. apply E. right. exact H.
Qed.
Lemma qw_app s a b : qw s (a ++ b) = qw s a + qw s b.
Proof. induction a as [|c r IH]; [reflexivity|]. cbn [app qw]. rewrite IH. lia. Qed.

(* the change of mu by a step of thread i, when the other threads' weights are untouched *)
Lemma mu_frame s s' i p old : T s i = Some old -> thrs s' = set_nth (thrs s) i p ->
  (forall j, j <> i -> nth j (cont s') [] = nth j (cont s) []) ->
  mu s' + tw s i old = sumw (tw s) (thrs s) 0 + tw s' i p + qw s' (queue s') + tokens s' + length (woken s').
Proof.
  intros H Et Ec. unfold mu.
  assert (LEN : length (thrs s') = length (thrs s)) by (rewrite Et; apply set_nth_length).
  rewrite Et.
  pose proof (sumw_set_nth (tw s') (thrs s) i 0 p old H) as E1. cbn [Nat.add] in E1.
  pose proof (sumw_change (tw s') (tw s) (thrs s) 0 i old H) as E2. cbn [Nat.add] in E2.
  assert (X : forall j q, j <> i -> tw s' j q = tw s j q).
  { intros j q N. unfold tw. rewrite LEN, (Ec j N). reflexivity. }
  specialize (E2 X). lia.
Qed.

Lemma mu_dec_frame s s' i p old : T s i = Some old -> thrs s' = set_nth (thrs s) i p ->
  (forall j, j <> i -> nth j (cont s') [] = nth j (cont s) []) ->
  tw s' i p + qw s' (queue s') + tokens s' + length (woken s') < tw s i old + qw s (queue s) + tokens s + length (woken s) ->
  mu s' < mu s.
Proof. intros H Et Ec D. pose proof (mu_frame s s' i p old H Et Ec). unfold mu at 2. lia. Qed.

(* same client program to return to, same kind of pc: compare pc weights only *)
Lemma mu_dec_pc s s' i p old : T s i = Some old -> thrs s' = set_nth (thrs s) i p -> cont s' = cont s ->
  is_client p = is_client old ->
  pcw (length (thrs s)) i p + qw s' (queue s') + tokens s' + length (woken s')
    < pcw (length (thrs s)) i old + qw s (queue s) + tokens s + length (woken s) ->
  mu s' < mu s.
Proof.
  intros H Et Ec Cl D. apply (mu_dec_frame s s' i p old H Et); [intros; rewrite Ec; reflexivity|].
  unfold tw. rewrite Et, set_nth_length, Ec, Cl. destruct (is_client old); lia.
Qed.

Lemma mu_move s i p old : T s i = Some old -> is_client p = is_client old ->
  pcw (length (thrs s)) i p < pcw (length (thrs s)) i old -> mu (with_thr s i p) < mu s.
Proof.
  intros H Cl D. apply (mu_dec_pc s (with_thr s i p) i p old H); try reflexivity; [exact Cl|].
  change (queue (with_thr s i p)) with (queue s). change (tokens (with_thr s i p)) with (tokens s).
  change (woken (with_thr s i p)) with (woken s).
  assert (Q : qw (with_thr s i p) (queue s) = qw s (queue s)).
  { apply qw_ext; [unfold with_thr; cbn [thrs]; apply set_nth_length|reflexivity]. }
  rewrite Q. lia.
Qed.

Lemma filter_length_le {A} (f : A -> bool) l : length (filter f l) <= length l.
Proof. induction l as [|x l IH]; [cbn; lia|]. cbn [filter]. destruct (f x); cbn [length]; lia. Qed.

Lemma filter_ne_shorter i l : existsb (Nat.eqb i) l = true -> length (filter (fun j => negb (Nat.eqb j i)) l) < length l.
Proof.
  induction l as [|x l IH]; [discriminate|]. cbn [existsb filter]. destruct (Nat.eqb_spec i x) as [E|E].
  - intros _. subst x. rewrite Nat.eqb_refl. cbn [negb length].
    pose proof (filter_length_le (fun j => negb (Nat.eqb j i)) l). lia.
  - cbn [orb]. intros X. assert (Nat.eqb x i = false) by (apply Nat.eqb_neq; auto). rewrite H. cbn [negb length].
    specialize (IH X). lia.
Qed.

Lemma wake_cost s i : enabled s i = true -> (exists p, T s i = Some p /\ is_sleep p = true) ->
  tokens (wake s i) + length (woken (wake s i)) < tokens s + length (woken s).
Proof.
  intros EN (p & H & S). unfold enabled in EN. unfold T in H. rewrite H in EN.
  assert (E : Nat.ltb 0 (tokens s) || is_woken s i = true) by (destruct p; try discriminate; exact EN).
  unfold wake. destruct (is_woken s i) eqn:W.
  - unfold with_woken. cbn [tokens woken]. pose proof (filter_ne_shorter i (woken s) W). lia.
  - rewrite Bool.orb_false_r in E. apply Nat.ltb_lt in E. unfold with_tokens. cbn [tokens woken]. lia.
Qed.

Lemma sleeper_ids_len s : length (sleeper_ids s) <= length (thrs s).
Proof. unfold sleeper_ids. pose proof (filter_length_le (sleeps s) (seq 0 (length (thrs s)))). rewrite seq_length in H. exact H. Qed.

Lemma queue_valid s c : InvA s -> In c (queue s) -> c < length (clos s).
Proof.
  intros I Hin. destruct (Nat.ltb_spec c (length (clos s))); [assumption|].
  pose proof (a_tot s I c) as E. assert (Nat.ltb c (length (clos s)) = false) by (apply Nat.ltb_ge; lia). rewrite H0 in E.
  unfold tot in E. assert (0 < cnt c (queue s)).
  { clear -Hin. induction (queue s) as [|x l IH]; [contradiction|]. rewrite cnt_cons. destruct Hin as [->|Hin]; [rewrite Nat.eqb_refl; lia|specialize (IH Hin); lia]. }
  lia.
Qed.

(* weight bound of the pc a thread has after the first critical section of stop() / after a wake-up in stop() *)
Definition jw (l : list nat) : nat := match l with [] => 2 | _ => 2 * length l + 3 end.
Lemma stop_pc_weight K i l q first a :
  pcw K i (match l with [] => fin_pc i first a | _ => Join l q first a end)
    <= jw l + (if first then K + 3 else 0) + aw K i a.
Proof.
  destruct l as [|w l].
  - destruct first; cbn [fin_pc pcw length jw]; [lia|]. rewrite pcw_pc_after. lia.
  - cbn [pcw jw]. lia.
Qed.
Lemma jw_le l : jw l <= 2 * length l + 3.
Proof. destruct l; cbn [jw length]; lia. Qed.

Lemma mu_enqueue s i l k b p old : InvA s -> T s i = Some old -> is_client p = is_client old ->
  pcw (length (thrs s)) i p + 4 + bw (length (thrs s)) b < pcw (length (thrs s)) i old ->
  mu (with_thr (fst (enqueue s i l k b)) i p) < mu s.
Proof.
  intros I H Cl D.
  destruct (enqueue_shell s i l k b _ eq_refl) as (hq & he & hs & ht & hk & hw & hd & hn & hth & hc & hx & hu & hl & hb & hr & ho).
  set (s1 := fst (enqueue s i l k b)) in *.
  set (s' := with_thr s1 i p).
  assert (L1 : length (thrs s1) = length (thrs s)) by (rewrite hth; reflexivity).
  assert (L' : length (thrs s') = length (thrs s)) by (unfold s', with_thr; cbn [thrs]; rewrite set_nth_length; exact L1).
  assert (QOLD : qw s' (queue s) = qw s (queue s)).
  { apply qw_ext; [exact L'|]. intros c Hin. unfold s', with_thr, G. cbn [clos]. fold (G cb [] s1 c). rewrite hb.
    pose proof (queue_valid s c I Hin). assert (Nat.eqb c (length (clos s)) = false) by (apply Nat.eqb_neq; lia). rewrite H1. reflexivity. }
  apply (mu_dec_pc s s' i p old H); try reflexivity.
  - unfold s', with_thr. cbn [thrs]. rewrite hth. reflexivity.
  - exact hc.
  - exact Cl.
  - change (queue s') with (queue s1). change (tokens s') with (tokens s1). change (woken s') with (woken s1).
    rewrite hq, hk, hw. destruct (exit_ s || throws k).
    + rewrite QOLD. lia.
    + rewrite qw_app, QOLD. cbn [qw]. unfold clw at 1. rewrite L'.
      assert (GB : G cb [] s' (length (clos s)) = b).
      { unfold s', with_thr, G. cbn [clos]. fold (G cb [] s1 (length (clos s))). rewrite hb, Nat.eqb_refl. reflexivity. }
      rewrite GB. destruct (Nat.ltb (tokens s + length (woken s)) (sleepers s)); lia.
Qed.

Lemma mu_after_wait s s0 i l q (first : bool) a old : T s i = Some old ->
  thrs s0 = thrs s -> cont s0 = cont s -> clos s0 = clos s ->
  is_client_after a = is_client old ->
  jw l + (if first then length (thrs s) + 3 else 0) + aw (length (thrs s)) i a
     + qw s (queue s0) + tokens s0 + length (woken s0)
    < pcw (length (thrs s)) i old + qw s (queue s) + tokens s + length (woken s) ->
  mu (fst (after_wait s0 i l q first a)) < mu s.
Proof.
  intros H Et Ec Ecl Cl D.
  destruct (after_wait_shell s0 i l q first a _ eq_refl) as (E & K & Q & Dd & Th).
  set (s' := fst (after_wait s0 i l q first a)) in *.
  destruct E as (e1 & e2 & e3 & e4 & e5 & e6 & e7 & e8 & e9). destruct K as (k1 & k2 & k3 & k4).
  set (p := match l with [] => fin_pc i first a | _ => Join l q first a end) in *.
  assert (PC : is_client p = is_client_after a) by (unfold p; destruct l; [apply fin_pc_class|reflexivity]).
  assert (Et' : thrs s' = set_nth (thrs s) i p) by (rewrite Th, Et; reflexivity).
  assert (L' : length (thrs s') = length (thrs s)) by (rewrite Et'; apply set_nth_length).
  assert (QW : qw s' (queue s') <= qw s (queue s0)).
  { assert (X : qw s' (queue s0) = qw s (queue s0)).
    { apply qw_ext; [exact L'|]. intros c _. rewrite k1. unfold G. rewrite Ecl. reflexivity. }
    rewrite Q. destruct (_ && _ && _); [cbn; lia|rewrite X; lia]. }
  apply (mu_dec_pc s s' i p old H Et'); [congruence|congruence|].
  pose proof (stop_pc_weight (length (thrs s)) i l q first a) as W. fold p in W.
  rewrite e4, e5. lia.
Qed.

Lemma mu_worker_cs s s0 w old : InvA s -> T s w = Some old ->
  thrs s0 = thrs s -> clos s0 = clos s -> queue s0 = queue s ->
  (forall j, j <> w -> nth j (cont s0) [] = nth j (cont s) []) ->
  (* what the thread had before, compared with an idle worker that returns to cont s0 [w] *)
  2 + (if Nat.ltb w (nclients s0) then ncw (length (thrs s)) w (nth w (cont s0) []) else
        (if is_client old then 0 else ncw (length (thrs s)) w (nth w (cont s0) []))) + tokens s0 + length (woken s0)
     <= tw s w old + tokens s + length (woken s) ->
  (is_client old = false -> nth w (cont s0) [] = nth w (cont s) []) ->
  (is_client old = true -> w < nclients s0) ->
  mu (fst (worker_cs s0 w)) < mu s.
Proof.
  intros I H Et Ecl Eq Ec D CO CC.
  set (K := length (thrs s)) in *.
  assert (LEN0 : length (thrs s0) = K) by (rewrite Et; reflexivity).
  (* weight of a non-client pc p of thread w in a state with the cont of s0 *)
  assert (CW : forall s2 p, is_client p = false -> thrs s2 = set_nth (thrs s) w p -> cont s2 = cont s0 ->
            tw s2 w p = pcw K w p + ncw K w (nth w (cont s0) [])).
  { intros s2 p Cp E1 E2. unfold tw. rewrite E1, set_nth_length, E2, Cp. reflexivity. }
  assert (BASE : (if Nat.ltb w (nclients s0) then ncw K w (nth w (cont s0) []) else
                   (if is_client old then 0 else ncw K w (nth w (cont s0) []))) = ncw K w (nth w (cont s0) [])).
  { destruct (Nat.ltb_spec w (nclients s0)); [reflexivity|]. destruct (is_client old) eqn:Co; [|reflexivity].
    specialize (CC eq_refl). lia. }
  rewrite BASE in D.
  unfold worker_cs. destruct (exit_ s0).
  - cbn [fst]. set (p := exit_pc s0 w). set (s' := with_thr s0 w p).
    apply (mu_dec_frame s s' w p old H); [unfold s', with_thr; cbn [thrs]; rewrite Et; reflexivity|exact Ec|].
    change (queue s') with (queue s0). change (tokens s') with (tokens s0). change (woken s') with (woken s0).
    assert (QW : qw s' (queue s0) = qw s (queue s)).
    { rewrite Eq. apply qw_ext; [unfold s', with_thr; cbn [thrs]; rewrite set_nth_length; exact LEN0|].
      intros c _. unfold s', with_thr, G. cbn [clos]. rewrite Ecl. reflexivity. }
    rewrite QW.
    assert (TW : tw s' w p <= ncw K w (nth w (cont s0) [])).
    { unfold tw, s', with_thr. cbn [thrs cont]. rewrite set_nth_length, LEN0. unfold p, exit_pc.
      destruct (Nat.ltb w (nclients s0)).
      - rewrite next_client_client, pcw_next_client. lia.
      - cbn [is_client pcw]. lia. }
    lia.
  - destruct (queue s0) as [|c0 r] eqn:QQ.
    + cbn [fst]. set (s' := with_thr s0 w WSleep).
      apply (mu_dec_frame s s' w WSleep old H); [unfold s', with_thr; cbn [thrs]; rewrite Et; reflexivity|exact Ec|].
      change (queue s') with (queue s0). change (tokens s') with (tokens s0). change (woken s') with (woken s0).
      rewrite QQ. cbn [qw].
      rewrite (CW s' WSleep eq_refl); [|unfold s', with_thr; cbn [thrs]; rewrite Et; reflexivity|reflexivity].
      cbn [pcw]. lia.
    + unfold run_job. replace (clos (with_queue s0 r)) with (clos s0) by reflexivity.
      assert (V : c0 < length (clos s)) by (apply (queue_valid s c0 I); rewrite <- Eq; left; reflexivity).
      destruct (nth_error (clos s0) c0) as [x|] eqn:E; [|apply nth_error_None in E; rewrite Ecl in E; lia].
      cbn [fst].
      set (x' := mkClo (clbl x) (ck x) (cb x) (S (cran x)) w (cdrop x) (ccanc x)).
      set (s2 := with_clos (with_queue s0 r) (set_nth (clos s0) c0 x')).
      set (p := job_next (cb x)). set (s' := with_thr s2 w p).
      assert (Cp : is_client p = false) by (apply job_next_plain).
      assert (Et2 : thrs s' = set_nth (thrs s) w p) by (unfold s', s2, with_thr, with_clos, with_queue; cbn [thrs]; rewrite Et; reflexivity).
      apply (mu_dec_frame s s' w p old H Et2); [exact Ec|].
      change (queue s') with r. change (tokens s') with (tokens s0). change (woken s') with (woken s0).
      rewrite (CW s' p Cp Et2); [|reflexivity].
      unfold p. rewrite pcw_job_next.
      assert (GX : G cb [] s c0 = cb x) by (unfold G; rewrite <- Ecl, E; reflexivity).
      assert (QR : qw s' r = qw s r).
      { apply qw_ext; [rewrite Et2; apply set_nth_length|].
        intros c _. unfold s', with_thr, s2, with_clos, G. cbn [clos].
        destruct (Nat.eqb_spec c0 c) as [Q|Q].
        - subst c. rewrite nth_error_set_nth_same by (rewrite Ecl; exact V). cbn [x' cb]. rewrite <- Ecl, E. reflexivity.
        - rewrite nth_error_set_nth_other by exact Q. rewrite Ecl. reflexivity. }
      rewrite QR. rewrite <- Eq. cbn [qw]. unfold clw at 1. fold K. rewrite GX. lia.
Qed.

Lemma mu_stop_mark s i a old : InvB s -> T s i = Some old -> is_client_after a = is_client old ->
  4 * length (thrs s) + 7 + aw (length (thrs s)) i a <= pcw (length (thrs s)) i old ->
  (forall d r, a = AWorker d r -> d = false) ->
  mu (fst (stop_mark s i a)) < mu s.
Proof.
  intros B H Cl D DF. unfold stop_mark.
  set (K := length (thrs s)) in *.
  set (s1 := marked s (sleeper_ids s)).
  set (a' := match a with AWorker _ r => AWorker (existsb (Nat.eqb i) (threads s)) r | _ => a end).
  set (l := filter (fun w => negb (Nat.eqb w i)) (threads s)).
  assert (CA : is_client_after a' = is_client_after a) by (unfold a'; destruct a; reflexivity).
  assert (AW : aw K i a' <= aw K i a).
  { unfold a'. destruct a as [r| |d r]; try lia. rewrite (DF d r eq_refl). cbn [aw]. destruct (existsb (Nat.eqb i) (threads s)); lia. }
  assert (LL : length l <= K).
  { unfold l. pose proof (filter_length_le (fun w => negb (Nat.eqb w i)) (threads s)). pose proof (b_thrlen s B). unfold K. lia. }
  pose proof (sleeper_ids_len s) as SL. fold K in SL.
  pose proof (jw_le l) as JL.
  destruct (negb (negb (exit_ s)) && negb (is_cur a) && negb (stopped s)).
  - cbn [fst]. set (s' := with_thr s1 i (SWait l (queue s) a')).
    apply (mu_dec_pc s s' i (SWait l (queue s) a') old H); try reflexivity.
    + cbn [is_client]. congruence.
    + change (queue s') with (@nil nat). change (tokens s') with 0. change (woken s') with (sleeper_ids s).
      cbn [qw pcw]. fold K. lia.
  - apply (mu_after_wait s s1 i l (queue s) (negb (exit_ s)) a' old H); try reflexivity.
    + congruence.
    + change (queue s1) with (@nil nat). change (tokens s1) with 0. change (woken s1) with (sleeper_ids s).
      cbn [qw]. fold K. destruct (negb (exit_ s)); lia.
Qed.

Lemma mu_wake s i : enabled s i = true -> (exists p, T s i = Some p /\ is_sleep p = true) -> mu (wake s i) < mu s.
Proof.
  intros EN P. pose proof (wake_cost s i EN P) as C. unfold mu.
  assert (E1 : sumw (tw (wake s i)) (thrs (wake s i)) 0 = sumw (tw s) (thrs s) 0).
  { assert (Q : thrs (wake s i) = thrs s) by (unfold wake; destruct (is_woken s i); reflexivity).
    rewrite Q. apply sumw_ext. intros j q. unfold wake; destruct (is_woken s i); reflexivity. }
  assert (E2 : qw (wake s i) (queue (wake s i)) = qw s (queue s)).
  { assert (Q : queue (wake s i) = queue s) by (unfold wake; destruct (is_woken s i); reflexivity).
    rewrite Q. apply qw_ext; [unfold wake; destruct (is_woken s i); reflexivity|].
    intros c _. unfold wake; destruct (is_woken s i); reflexivity. }
  rewrite E1, E2. lia.
Qed.

Lemma nth_set_nth_cases {A} (l : list A) i x d : nth i (set_nth l i x) d = x \/ (length l <= i /\ nth i (set_nth l i x) d = d).
Proof.
  revert i. induction l as [|y l IH]; intros [|i]; cbn; auto; try (right; split; [lia|reflexivity]).
  destruct (IH i) as [E|[L E]]; [left; exact E|right; split; [lia|exact E]].
Qed.

Theorem mu_core s i : InvA s -> InvB s -> enabled s i = true -> mu (cstep s i) < mu s.
Proof.
  intros I B EN. unfold cstep, core. pose proof EN as EN0. unfold enabled in EN.
  destruct (nth_error (thrs s) i) as [p|] eqn:H; [|discriminate].
  assert (HT : T s i = Some p) by exact H.
  set (K := length (thrs s)).
  destruct p as [prog| | | | | |l k r|l r|l r|r|q r|wl r| |l q f a|l q a|a].
  - destruct prog as [|[l k b| | |wl] r].
    + cbn [fst]. apply (mu_move s i _ (CAt []) HT); [apply next_client_client|].
      rewrite pcw_next_client. cbn [ncw pcw progw endw]. unfold endw. destruct (Nat.eqb i 0); lia.
    + pose proof (mu_enqueue s i l k b (next_client i r) _ I HT) as E.
      destruct (enqueue s i l k b) as [s1 e]. cbn [fst] in *. apply E; [apply next_client_client|].
      rewrite pcw_next_client. pose proof (ncw_le K i r). cbn [pcw progw opw]. fold K. lia.
    + pose proof (mu_stop_mark s i (AClient r) _ B HT) as E.
      destruct (stop_mark s i (AClient r)) as [s1 e]. cbn [fst] in *. apply E; [reflexivity| |intros; discriminate].
      cbn [aw pcw progw opw]. pose proof (ncw_le K i r). fold K. lia.
    + pose proof (mu_worker_cs s (with_ext s i r) i _ I HT) as E.
      destruct (worker_cs (with_ext s i r) i) as [s1 e]. cbn [fst] in *.
      assert (LT : i < nclients s) by (apply (client_lt s i _ B HT); reflexivity).
      apply E; try reflexivity.
      * intros j N. unfold with_ext. cbn [cont]. apply nth_set_nth_other. auto.
      * unfold with_ext. cbn [nclients cont tokens woken]. apply Nat.ltb_lt in LT. rewrite LT.
        unfold tw. cbn [is_client pcw progw opw]. fold K.
        destruct (nth_set_nth_cases (cont s) i r []) as [-> | [_ ->]].
        -- pose proof (ncw_le K i r). lia.
        -- unfold ncw, endw. destruct (Nat.eqb i 0); lia.
      * intros X. discriminate.
      * intros _. exact LT.
    + cbn [fst]. apply (mu_move s i _ (CAt (OWait wl :: r)) HT); [apply next_client_client|].
      rewrite pcw_next_client. pose proof (ncw_le K i r). cbn [pcw progw opw]. fold K. lia.
  - cbn [fst]. apply (mu_move s i CDtor CXWait HT); [reflexivity|]. cbn [pcw]. lia.
  - pose proof (mu_stop_mark s i ADtor _ B HT) as E.
    destruct (stop_mark s i ADtor) as [s1 e]. cbn [fst] in *. apply E; [reflexivity| |intros; discriminate].
    cbn [aw pcw]. lia.
  - discriminate.
  - pose proof (mu_worker_cs s s i _ I HT) as E.
    destruct (worker_cs s i) as [s1 e]. cbn [fst] in *. apply E; try reflexivity; try discriminate.
    unfold tw. cbn [is_client pcw]. fold K. destruct (Nat.ltb i (nclients s)); lia.
  - pose proof (mu_worker_cs s (wake s i) i _ I HT) as E.
    destruct (worker_cs (wake s i) i) as [s1 e]. cbn [fst] in *.
    assert (WC : tokens (wake s i) + length (woken (wake s i)) < tokens s + length (woken s)).
    { apply wake_cost; [exact EN0|]. exists WSleep. auto. }
    assert (CW : cont (wake s i) = cont s) by (unfold wake; destruct (is_woken s i); reflexivity).
    assert (NW : nclients (wake s i) = nclients s) by (unfold wake; destruct (is_woken s i); reflexivity).
    assert (A1 : thrs (wake s i) = thrs s) by (unfold wake; destruct (is_woken s i); reflexivity).
    assert (A2 : clos (wake s i) = clos s) by (unfold wake; destruct (is_woken s i); reflexivity).
    assert (A3 : queue (wake s i) = queue s) by (unfold wake; destruct (is_woken s i); reflexivity).
    assert (A4 : forall j, j <> i -> nth j (cont (wake s i)) [] = nth j (cont s) []) by (intros j _; rewrite CW; reflexivity).
    assert (A5 : is_client WSleep = false -> nth i (cont (wake s i)) [] = nth i (cont s) []) by (intros _; rewrite CW; reflexivity).
    assert (A6 : is_client WSleep = true -> i < nclients (wake s i)) by discriminate.
    apply E; auto.
    rewrite CW, NW. unfold tw. cbn [is_client pcw]. fold K. destruct (Nat.ltb i (nclients s)); lia.
  - pose proof (mu_enqueue s i l k [] (job_next r) _ I HT) as E.
    destruct (enqueue s i l k []) as [s1 e]. cbn [fst] in *. apply E; [apply job_next_plain|].
    rewrite pcw_job_next. cbn [pcw bw]. lia.
  - pose proof (mu_enqueue s i l KHop r WIdle _ I HT) as E.
    destruct (enqueue s i l KHop r) as [s1 e]. cbn [fst] in *. apply E; [reflexivity|]. cbn [pcw]. lia.
  - cbn [fst]. apply (mu_move s i _ (WPeek l r) HT).
    + destruct (exit_ s); [apply job_next_plain|reflexivity].
    + destruct (exit_ s); [rewrite pcw_job_next|]; cbn [pcw]; lia.
  - pose proof (mu_stop_mark s i (AWorker false r) _ B HT) as E.
    destruct (stop_mark s i (AWorker false r)) as [s1 e]. cbn [fst] in *. apply E; [reflexivity| |intros d r0 X; inversion X; reflexivity].
    cbn [aw pcw]. lia.
  - cbn [fst]. apply (mu_move s i _ (WQry q r) HT); [apply job_next_plain|].
    rewrite pcw_job_next. cbn [pcw]. lia.
  - cbn [fst]. apply (mu_move s i _ (WWait wl r) HT); [apply job_next_plain|].
    rewrite pcw_job_next. cbn [pcw]. lia.
  - discriminate.
  - assert (END : mu (fst (after_wait s i [] q f a)) < mu s).
    { apply (mu_after_wait s s i [] q f a _ HT); try reflexivity. cbn [jw pcw]. fold K. lia. }
    destruct l as [|w0 [|w1 l]].
    + unfold after_wait in END. destruct (stop_end s i q f a) as [s1 e]. exact END.
    + unfold after_wait in END. destruct (stop_end s i q f a) as [s1 e]. exact END.
    + cbn [fst]. apply (mu_move s i _ (Join (w0 :: w1 :: l) q f a) HT); [reflexivity|]. cbn [pcw length]. lia.
  - assert (WC : tokens (wake s i) + length (woken (wake s i)) < tokens s + length (woken s)).
    { apply wake_cost; [exact EN0|]. exists (SWait l q a). auto. }
    destruct (stopped s).
    + assert (END : mu (fst (after_wait (wake s i) i l q false a)) < mu s).
      { apply (mu_after_wait s (wake s i) i l q false a _ HT); try (unfold wake; destruct (is_woken s i); reflexivity).
        assert (QW : queue (wake s i) = queue s) by (unfold wake; destruct (is_woken s i); reflexivity).
        rewrite QW. cbn [pcw]. pose proof (jw_le l). lia. }
      destruct (after_wait (wake s i) i l q false a) as [s1 e]. exact END.
    + cbn [fst]. apply mu_wake; [exact EN0|]. exists (SWait l q a). auto.
  - assert (END : mu (fst (after_wait (finished s (sleeper_ids s)) i [] [] false a)) < mu s).
    { apply (mu_after_wait s (finished s (sleeper_ids s)) i [] [] false a _ HT); try reflexivity.
      unfold finished. cbn [queue tokens woken jw pcw]. pose proof (sleeper_ids_len s). fold K in H0 |- *. lia. }
    rewrite <- returned_as_aw in END. destruct (returned (finished s (sleeper_ids s)) i a) as [s1 e]. exact END.
Qed.

Lemma mu_uad s b : mu (with_uad s b) = mu s.
Proof.
  unfold mu. change (thrs (with_uad s b)) with (thrs s). change (queue (with_uad s b)) with (queue s).
  change (tokens (with_uad s b)) with (tokens s). change (woken (with_uad s b)) with (woken s).
  assert (E1 : sumw (tw (with_uad s b)) (thrs s) 0 = sumw (tw s) (thrs s) 0) by (apply sumw_ext; reflexivity).
  assert (E2 : qw (with_uad s b) (queue s) = qw s (queue s)) by (apply qw_ext; reflexivity).
  rewrite E1, E2. reflexivity.
Qed.

(* every step of every reachable state decreases the measure *)
Theorem mu_step ops s i : reachable ops s -> enabled s i = true -> mu (step s i) < mu s.
Proof.
  intros R EN. pose proof (mu_core s i (inva_reachable ops s R) (invb_reachable ops s R) EN) as D.
  destruct (step_core s i) as [-> | ->]; [exact D|rewrite mu_uad; exact D].
Qed.

(* runs: n steps of enabled threads *)
Inductive steps : st -> nat -> st -> Prop :=
| steps_0 s : steps s 0 s
| steps_S s i n s' : enabled s i = true -> steps (step s i) n s' -> steps s (S n) s'.

(* C11.7 every run is finite: from a reachable state no schedule makes more than mu s steps *)
Theorem runs_are_finite ops s n s' : reachable ops s -> steps s n s' -> n + mu s' <= mu s.
Proof.
  intros R St. revert R. induction St as [s|s i n s' EN St IH]; intros R; [lia|].
  pose proof (mu_step ops s i R EN). specialize (IH (r_step ops s i R EN)). lia.
Qed.

Lemma enabled_list_complete s n : forall from i, from <= i < from + n -> enabled s i = true -> In i (enabled_list s n from).
Proof.
  induction n as [|n IH]; intros from i L E; [lia|]. cbn [enabled_list]. apply in_or_app.
  destruct (Nat.eq_dec i from) as [->|N]; [left; rewrite E; left; reflexivity|right; apply IH; [lia|exact E]].
Qed.

Lemma all_enabled_nil s : all_enabled s = [] -> forall i, enabled s i = false.
Proof.
  intros E i. destruct (enabled s i) eqn:X; [|reflexivity]. exfalso.
  assert (L : i < length (thrs s)).
  { unfold enabled in X. destruct (nth_error (thrs s) i) eqn:H; [|discriminate]. apply nth_error_Some. congruence. }
  pose proof (enabled_list_complete s (length (thrs s)) 0 i (conj (Nat.le_0_l _) L) X) as I.
  unfold all_enabled in E. rewrite E in I. contradiction.
Qed.

(* with fuel >= mu the scheduler loop stops because nothing is enabled, not because the fuel ran out *)
Lemma run_sched_complete ops fuel : forall s sched tr, reachable ops s -> mu s <= fuel ->
  forall i, enabled (fst (run_sched fuel s sched tr)) i = false.
Proof.
  induction fuel as [|f IH]; intros s sched tr R M i.
  - cbn [run_sched fst]. destruct (enabled s i) eqn:X; [|reflexivity]. pose proof (mu_step ops s i R X). lia.
  - cbn [run_sched]. destruct (all_enabled s) as [|e0 en] eqn:E; [cbn [fst]; apply all_enabled_nil; exact E|].
    set (k := match sched with [] => 0%Z | x :: _ => Z.abs x end).
    set (j := nth (Z.to_nat (k mod zlen (e0 :: en))) (e0 :: en) 0).
    assert (EN : enabled s j = true).
    { apply (enabled_list_In s (length (thrs s)) 0). fold (all_enabled s). rewrite E. apply nth_In.
      unfold zlen. assert (0 < Z.of_nat (length (e0 :: en)))%Z by (cbn [length]; lia).
      pose proof (Z.mod_pos_bound k (Z.of_nat (length (e0 :: en))) H). lia. }
    pose proof (r_step ops s j R EN) as R1. pose proof (mu_step ops s j R EN) as D. unfold step in R1, D.
    destruct (tstep s j) as [[s1 p] e]. cbn [fst] in R1, D.
    destruct (uad s1) eqn:U.
    + exfalso. pose proof (no_use_after_destroy ops s1 R1) as [X _]. congruence.
    + apply IH; [exact R1|lia].
Qed.

(* C11.8 the run of every case file ends with every thread finished (or in the client-program deadlock) *)
Theorem run_ends ops : terminal (final_state ops) \/ user_stuck (final_state ops) \/ waits_for_submission (final_state ops).
Proof.
  pose proof (final_reachable ops) as R.
  assert (NE : forall i, enabled (final_state ops) i = false).
  { unfold final_state. apply (run_sched_complete ops); [apply r_init|unfold run_fuel; lia]. }
  destruct (terminalb (final_state ops)) eqn:Tb; [left; apply terminalb_sound, Tb|].
  assert (NT : ~ terminal (final_state ops)).
  { intros Tm. unfold terminalb in Tb. assert (forallb (fun p => negb (unfinished p)) (thrs (final_state ops)) = true).
    { apply forallb_forall. intros p Hin. apply In_nth_error in Hin. destruct Hin as [i Hi]. destruct (Tm i p Hi) as [->| ->]; reflexivity. }
    congruence. }
  destruct (stop_no_deadlock ops _ R NT) as [(i & E)|US]; [rewrite NE in E; discriminate|right; exact US].
Qed.

(* what the oracle looks at, on the model's own final state: unless the client program deadlocked itself, the run
   ends with the pool destroyed, nothing stuck, no use after destruction, and every closure ever handed to the pool
   run exactly once on a worker or cancelled exactly once (never both), its waiter having seen exactly that *)
Theorem model_final_ok ops : ~ user_stuck (final_state ops) -> ~ waits_for_submission (final_state ops) ->
  let s := final_state ops in
  destroyed s = true /\ uad s = false /\ stuck_list (thrs s) 0 = [] /\
  forall c x, nth_error (clos s) c = Some x ->
    cran x + ccanc x = 1 /\ ccanc x = cdrop x /\
    wstate x = (if Nat.eqb (cran x) 1 then 1 else 2)%Z /\
    (cran x = 1 -> cran_on x < length (thrs s) /\ (nclients s <= cran_on x \/ In (cran_on x) (extw s))).
Proof.
  intros NU NW s. pose proof (final_reachable ops) as R. fold s in R.
  destruct (run_ends ops) as [Tm|[US|WS]]; [|contradiction|contradiction]. fold s in Tm.
  destruct (terminal_quiet ops s R Tm) as (D & _ & _).
  split; [exact D|]. split; [apply (no_use_after_destroy ops s R)|]. split.
  - assert (GEN : forall l k, (forall p, In p l -> p = CDone \/ p = WExit) -> stuck_list l k = []).
    { induction l as [|p l IH]; intros k F; [reflexivity|]. cbn [stuck_list].
      rewrite IH by (intros; apply F; right; assumption).
      destruct (F p (or_introl eq_refl)) as [->| ->]; reflexivity. }
    apply GEN. intros p Hin. apply In_nth_error in Hin. destruct Hin as [i Hi]. apply (Tm i p Hi).
  - intros c x H. pose proof (no_forgotten_waiter ops s c x R Tm H) as E1.
    pose proof (cancel_observable ops s c x R H) as E2.
    split; [exact E1|]. split; [exact E2|]. split.
    + unfold wstate. destruct (cran x) as [|[|n]]; destruct (ccanc x) as [|[|k]]; cbn; try lia; reflexivity.
    + intros X. apply (ran_on_worker ops s c x R H). lia.
Qed.
