(* PromDefs.v — sequential model of promise OBJECTS over a small number of future cells (future.h:585-793):
   move construction, move assignment, explicit drop, calls through empty / moved-from promises, bind closures,
   destruction.  The per-cell claim/set/resolve protocol under concurrency is CellDefs.v; this file is about
   which promise object owns which cell and what every operation does to the cells.  Model only, no proofs. *)
From Cocls Require Import Base CellDefs.
Local Open Scope Z_scope.

(* the awaiter slot of a future: `instance` (constructed, no promise taken) / chain of (waiter id, is-coroutine) / ready *)
Inductive cslot := CInit | CChain (l : list (nat * bool)) | CReady.
Record cellst := mkCell {
  c_slot : cslot;
  c_pay : outcome;        (* future::_state + union *)
  c_nres : nat            (* ghost: how many times future::resolve() ran on this cell *)
}.

Record pst := mkP {
  cells : list cellst;
  proms : list (option (option nat));          (* None: no object; Some None: empty promise; Some (Some c): owns cell c *)
  clos : list (option (option nat * Z))        (* closures made by promise::bind: captured promise + bound value *)
}.

Inductive pop :=
| PGet (p c : nat)            (* new (&P[p]) promise<T>(F[c].get_promise()) *)
| PMoveC (p q : nat)          (* new (&P[p]) promise<T>(std::move(P[q])) *)
| PAssign (p q : nat)         (* P[p] = std::move(P[q]) *)
| PAssignGet (p c : nat)      (* P[p] = F[c].get_promise() *)
| PDestroy (p : nat)          (* P[p].~promise() *)
| PUnwind (p : nat)           (* try { promise<T> local(std::move(P[p])); throw 1; } catch (int) {} : ~promise during stack unwinding *)
| PVal (p : nat) (v : Z)      (* P[p](v) *)
| PExc (p : nat) (e : Z)      (* P[p](exception_ptr) *)
| PDrop (p : nat)             (* P[p](drop) *)
| PBind (q p : nat) (v : Z)   (* Q[q] = P[p].bind(v) *)
| PCallClo (q : nat)          (* Q[q]() *)
| PDestroyClo (q : nat)
| PSub (w c : nat) (k : bool) (* waiter w awaits F[c]: callback awaiter (k = false) or detached coroutine (k = true) *)
| PQueryCell (c : nat)
| PQueryProm (p : nat)
| PBad.

Definition zn (z : Z) : nat := Z.to_nat z.
Definition nonneg (l : list Z) : bool := forallb (fun z => 0 <=? z) l.

Definition decode (l : list Z) : pop :=
  match l with
  | [1; p; c] => if nonneg [p; c] then PGet (zn p) (zn c) else PBad
  | [2; p; q] => if nonneg [p; q] then PMoveC (zn p) (zn q) else PBad
  | [3; p; q] => if nonneg [p; q] then PAssign (zn p) (zn q) else PBad
  | [4; p; c] => if nonneg [p; c] then PAssignGet (zn p) (zn c) else PBad
  | [5; p] => if nonneg [p] then PDestroy (zn p) else PBad
  | [12; p] => if nonneg [p] then PUnwind (zn p) else PBad
  | [6; p; v] => if nonneg [p] then PVal (zn p) v else PBad
  | [7; p; e] => if nonneg [p] then PExc (zn p) e else PBad
  | [8; p] => if nonneg [p] then PDrop (zn p) else PBad
  | [9; q; p; v] => if nonneg [q; p] then PBind (zn q) (zn p) v else PBad
  | [10; q] => if nonneg [q] then PCallClo (zn q) else PBad
  | [11; q] => if nonneg [q] then PDestroyClo (zn q) else PBad
  | [14; w; c; k] => if nonneg [w; c] && ((k =? 0) || (k =? 1)) then PSub (zn w) (zn c) (k =? 1) else PBad
  | [15; c] => if nonneg [c] then PQueryCell (zn c) else PBad
  | [16; p] => if nonneg [p] then PQueryProm (zn p) else PBad
  | _ => PBad
  end.

Definition set_cell (s : pst) (c : nat) (x : cellst) : pst := mkP (set_nth (cells s) c x) (proms s) (clos s).
Definition set_prom (s : pst) (p : nat) (x : option (option nat)) : pst := mkP (cells s) (set_nth (proms s) p x) (clos s).
Definition set_clo (s : pst) (q : nat) (x : option (option nat * Z)) : pst := mkP (cells s) (proms s) (set_nth (clos s) q x).

(* resume_chain_lk: callbacks run at their node, coroutine handles are collected and run when the suspend point dies *)
Definition deliver (isvoid : bool) (pay : outcome) (ch : list (nat * bool)) : list Z :=
  flat_map (fun wk => Z.of_nat (fst wk) :: okind isvoid pay)
           (filter (fun wk => negb (snd wk)) ch ++ filter (fun wk => snd wk) ch).

(* future::set (optional) + future::resolve on cell c (future.h:549-570) *)
Definition resolve (isvoid : bool) (s : pst) (c : nat) (o : option outcome) : pst * list Z :=
  match nth_error (cells s) c with
  | Some cl =>
      let pay := match o with Some x => x | None => c_pay cl end in
      (set_cell s c (mkCell CReady pay (S (c_nres cl))),
       deliver isvoid pay (match c_slot cl with CChain l => l | _ => [] end))
  | None => (s, [])
  end.

(* what `claim()` returned decides: non-null => set + resolve, success; null => failure, nothing touched *)
Definition fire (isvoid : bool) (s : pst) (own : option nat) (o : option outcome) : pst * list Z * bool :=
  match own with
  | Some c => let '(s1, d) := resolve isvoid s c o in (s1, d, true)
  | None => (s, [], false)
  end.

Definition rejected : list Z := [-1].

Definition cell_is_init (s : pst) (c : nat) : bool :=
  match nth_error (cells s) c with Some cl => match c_slot cl with CInit => true | _ => false end | None => false end.

(* future::get_promise (future.h:283-287): the slot leaves `instance` and becomes an empty chain *)
Definition take_promise (s : pst) (c : nat) : pst :=
  match nth_error (cells s) c with
  | Some cl => set_cell s c (mkCell (CChain []) (c_pay cl) (c_nres cl))
  | None => s
  end.

Definition pstep (isvoid : bool) (s : pst) (x : pop) : pst * list Z :=
  match x with
  | PGet p c =>
      match nth_error (proms s) p with
      | Some None => if cell_is_init s c then (set_prom (take_promise s c) p (Some (Some c)), [0]) else (s, rejected)
      | _ => (s, rejected)
      end
  | PMoveC p q =>      (* promise(promise &&other) : _owner(other.claim()), future.h:599 *)
      match nth_error (proms s) p, nth_error (proms s) q with
      | Some None, Some (Some oq) => (set_prom (set_prom s q (Some None)) p (Some oq), [0])
      | _, _ => (s, rejected)
      end
  | PAssign p q =>     (* operator=(promise &&): if (this != &other) { set_value(drop); _owner = other.claim(); }, future.h:610-616 *)
      match nth_error (proms s) p, nth_error (proms s) q with
      | Some (Some op), Some (Some oq) =>
          if Nat.eqb p q then (s, [0])
          else
            let '(s1, d, _) := fire isvoid s op None in
            let s2 := set_prom s1 p (Some None) in              (* claim() of set_value(drop) *)
            let s3 := set_prom s2 q (Some None) in              (* other.claim() *)
            (set_prom s3 p (Some oq), 0 :: d)
      | _, _ => (s, rejected)
      end
  | PAssignGet p c =>
      match nth_error (proms s) p with
      | Some (Some op) =>
          if cell_is_init s c then
            let s0 := take_promise s c in                       (* the temporary returned by get_promise() *)
            let '(s1, d, _) := fire isvoid s0 op None in
            (set_prom s1 p (Some (Some c)), 0 :: d)
          else (s, rejected)
      | _ => (s, rejected)
      end
  | PDestroy p =>      (* ~promise: m = _owner.load(); if (m) m->resolve(), future.h:601-606 *)
      match nth_error (proms s) p with
      | Some (Some op) => let '(s1, d, _) := fire isvoid s op None in (set_prom s1 p None, 0 :: d)
      | _ => (s, rejected)
      end
  | PUnwind p =>       (* the move constructor claims P[p]; the local promise is destroyed while the exception propagates *)
      match nth_error (proms s) p with
      | Some (Some op) => let '(s1, d, _) := fire isvoid s op None in (set_prom s1 p (Some None), 0 :: d)
      | _ => (s, rejected)
      end
  | PVal p v =>        (* set_value: m = claim(); if (m) { m->set(v); m->resolve() -> true } else false, future.h:644-651 *)
      match nth_error (proms s) p with
      | Some (Some op) => let '(s1, d, b) := fire isvoid s op (Some (OVal v)) in (set_prom s1 p (Some None), b2z b :: d)
      | _ => (s, rejected)
      end
  | PExc p e =>
      match nth_error (proms s) p with
      | Some (Some op) => let '(s1, d, b) := fire isvoid s op (Some (OExc e)) in (set_prom s1 p (Some None), b2z b :: d)
      | _ => (s, rejected)
      end
  | PDrop p =>         (* set_value(DropTag), future.h:657-663 *)
      match nth_error (proms s) p with
      | Some (Some op) => let '(s1, d, b) := fire isvoid s op None in (set_prom s1 p (Some None), b2z b :: d)
      | _ => (s, rejected)
      end
  | PBind q p v =>     (* bind: lambda capturing the moved promise and the arguments, future.h:716-721 *)
      match nth_error (clos s) q, nth_error (proms s) p with
      | Some None, Some (Some op) => (set_clo (set_prom s p (Some None)) q (Some (op, v)), [0])
      | _, _ => (s, rejected)
      end
  | PCallClo q =>      (* std::apply(std::move(p), std::move(args)) *)
      match nth_error (clos s) q with
      | Some (Some (op, v)) =>
          let '(s1, d, b) := fire isvoid s op (Some (OVal v)) in (set_clo s1 q (Some (None, v)), b2z b :: d)
      | _ => (s, rejected)
      end
  | PDestroyClo q =>
      match nth_error (clos s) q with
      | Some (Some (op, v)) => let '(s1, d, _) := fire isvoid s op None in (set_clo s1 q None, 0 :: d)
      | _ => (s, rejected)
      end
  | PSub w c k =>      (* await_ready / subscribe_check_ready, awaiter.h:121-136 *)
      match nth_error (cells s) c with
      | Some cl =>
          match c_slot cl with
          | CInit => (s, rejected)
          | CChain l => (set_cell s c (mkCell (CChain ((w, k) :: l)) (c_pay cl) (c_nres cl)), [0])
          | CReady => (s, 1 :: okind isvoid (c_pay cl))
          end
      | None => (s, rejected)
      end
  | PQueryCell c =>
      match nth_error (cells s) c with
      | Some cl =>
          (s, match c_slot cl with CInit => [2] | CChain _ => [0] | CReady => 1 :: okind isvoid (c_pay cl) end)
      | None => (s, rejected)
      end
  | PQueryProm p =>
      match nth_error (proms s) p with
      | Some (Some op) => (s, [match op with Some _ => 1 | None => 0 end])
      | _ => (s, rejected)
      end
  | PBad => (s, rejected)
  end.

Fixpoint prun (isvoid : bool) (s : pst) (ops : list pop) : pst * list (list Z) :=
  match ops with
  | [] => (s, [])
  | x :: r => let '(s1, o) := pstep isvoid s x in let '(s2, os) := prun isvoid s1 r in (s2, o :: os)
  end.

Definition NCELL := 3%nat. Definition NPROM := 4%nat. Definition NCLO := 2%nat.
Definition pinit : pst :=
  mkP (repeat (mkCell CInit ONone 0) NCELL) (repeat None NPROM) (repeat None NCLO).

(* at the end of a case the harness destroys every closure and promise, then reads every cell *)
Definition cleanup : list pop :=
  map PDestroyClo (seq 0 NCLO) ++ map PDestroy (seq 0 NPROM) ++ map PQueryCell (seq 0 NCELL).

Definition prom_run (isvoid : bool) (ops : list (list Z)) : list (list Z) :=
  snd (prun isvoid pinit (map decode ops ++ cleanup)) ++ [[10; 0; 0]].

(* ---------- decidable form of the property on an observed trace ----------
   The specification below is the C01 statement for promise objects, not the code: it tracks only which slot
   stands for which future (`own`), what each future was resolved to (`res`), and who waits (`wt`):
   a call succeeds iff its slot stands for a future and that future is unresolved, which can happen once per future;
   move construction / assignment / bind transfer the future and empty the source; an overwritten or destroyed
   owner resolves its future to no-value; every waiter is released exactly when its future is resolved, with the
   winner's payload; nothing else changes a future. *)
Record ospec := mkO {
  o_own : list (option (option nat));      (* promise slots then closure slots *)
  o_res : list (option (option outcome));  (* per cell: None no promise yet, Some None pending, Some (Some o) resolved *)
  o_wt : list (list (nat * bool))
}.
Definition o_slot (x : pop) : option (nat * option nat) :=   (* (target slot, source slot) in the o_own numbering *)
  match x with
  | PMoveC p q | PAssign p q => Some (p, Some q)
  | PBind q p _ => Some ((NPROM + q)%nat, Some p)
  | _ => None
  end.
Definition okind_o (isvoid : bool) (o : outcome) := okind isvoid o.

Definition spec_resolve (isvoid : bool) (s : ospec) (c : nat) (o : outcome) : ospec * list Z :=
  (mkO (o_own s) (set_nth (o_res s) c (Some (Some o))) (set_nth (o_wt s) c []),
   deliver isvoid o (nth c (o_wt s) [])).

Definition owned (s : ospec) (i : nat) : option nat := match nth_error (o_own s) i with Some (Some c) => c | _ => None end.
Definition live (s : ospec) (i : nat) : bool := match nth_error (o_own s) i with Some (Some _) => true | _ => false end.
Definition set_own (s : ospec) (i : nat) (x : option (option nat)) : ospec := mkO (set_nth (o_own s) i x) (o_res s) (o_wt s).
Definition fresh_cell (s : ospec) (c : nat) : bool := match nth_error (o_res s) c with Some None => true | _ => false end.

(* expected observation of one op under the specification, and the next specification state *)
Definition spec_drop (isvoid : bool) (s : ospec) (i : nat) : ospec * list Z :=
  match owned s i with Some c => spec_resolve isvoid s c ONone | None => (s, []) end.

Definition spec_step (isvoid : bool) (s : ospec) (x : pop) : ospec * list Z :=
  let call := fun i (o : outcome) (after : option (option nat)) =>
    if live s i then
      match owned s i with
      | Some c => let '(s1, d) := spec_resolve isvoid s c o in (set_own s1 i after, 1 :: d)
      | None => (set_own s i after, [0])
      end
    else (s, rejected) in
  match x with
  | PGet p c =>
      match nth_error (o_own s) p with
      | Some None => if fresh_cell s c && Nat.ltb p NPROM
                     then (mkO (set_nth (o_own s) p (Some (Some c))) (set_nth (o_res s) c (Some None)) (o_wt s), [0])
                     else (s, rejected)
      | _ => (s, rejected)
      end
  | PMoveC p q =>
      if negb (live s p) && live s q && Nat.ltb p NPROM && Nat.ltb q NPROM && match nth_error (o_own s) p with Some None => true | _ => false end
      then (set_own (set_own s q (Some None)) p (Some (owned s q)), [0]) else (s, rejected)
  | PAssign p q =>
      if live s p && live s q && Nat.ltb p NPROM && Nat.ltb q NPROM then
        if Nat.eqb p q then (s, [0])
        else let '(s1, d) := spec_drop isvoid s p in
             (set_own (set_own s1 q (Some None)) p (Some (owned s q)), 0 :: d)
      else (s, rejected)
  | PAssignGet p c =>
      if live s p && Nat.ltb p NPROM && fresh_cell s c then
        let s0 := mkO (o_own s) (set_nth (o_res s) c (Some None)) (o_wt s) in
        let '(s1, d) := spec_drop isvoid s0 p in (set_own s1 p (Some (Some c)), 0 :: d)
      else (s, rejected)
  | PDestroy p =>
      if live s p && Nat.ltb p NPROM then let '(s1, d) := spec_drop isvoid s p in (set_own s1 p None, 0 :: d) else (s, rejected)
  | PUnwind p =>
      if live s p && Nat.ltb p NPROM then let '(s1, d) := spec_drop isvoid s p in (set_own s1 p (Some None), 0 :: d) else (s, rejected)
  | PVal p v => if Nat.ltb p NPROM then call p (OVal v) (Some None) else (s, rejected)
  | PExc p e => if Nat.ltb p NPROM then call p (OExc e) (Some None) else (s, rejected)
  | PDrop p => if Nat.ltb p NPROM then call p ONone (Some None) else (s, rejected)
  | PBind q p v =>
      if live s p && Nat.ltb p NPROM && Nat.ltb q NCLO && match nth_error (o_own s) (NPROM + q) with Some None => true | _ => false end
      then (set_own (set_own s p (Some None)) (NPROM + q) (Some (owned s p)), [0]) else (s, rejected)
  | PCallClo q => (s, [])     (* needs the bound value: handled by the caller *)
  | PDestroyClo q =>
      if live s (NPROM + q) && Nat.ltb q NCLO
      then let '(s1, d) := spec_drop isvoid s (NPROM + q) in (set_own s1 (NPROM + q) None, 0 :: d) else (s, rejected)
  | PSub w c k =>
      match nth_error (o_res s) c with
      | Some (Some None) => (mkO (o_own s) (o_res s) (set_nth (o_wt s) c ((w, k) :: nth c (o_wt s) [])), [0])
      | Some (Some (Some o)) => (s, 1 :: okind isvoid o)
      | _ => (s, rejected)
      end
  | PQueryCell c =>
      match nth_error (o_res s) c with
      | Some None => (s, [2]) | Some (Some None) => (s, [0]) | Some (Some (Some o)) => (s, 1 :: okind isvoid o)
      | None => (s, rejected)
      end
  | PQueryProm p => if live s p && Nat.ltb p NPROM then (s, [match owned s p with Some _ => 1 | None => 0 end]) else (s, rejected)
  | PBad => (s, rejected)
  end.

(* the bound values of the closures are kept beside the specification state *)
Fixpoint spec_check (isvoid : bool) (s : ospec) (bv : list Z) (ops : list pop) (obs : list (list Z)) : bool :=
  match ops, obs with
  | [], [] => true
  | x :: r, o :: os =>
      let '(s1, e, bv1) :=
        match x with
        | PCallClo q =>
            if live s (NPROM + q) && Nat.ltb q NCLO then
              match owned s (NPROM + q) with
              | Some c => let '(s1, d) := spec_resolve isvoid s c (OVal (nth q bv 0)) in (set_own s1 (NPROM + q) (Some None), 1 :: d, bv)
              | None => (s, [0], bv)
              end
            else (s, rejected, bv)
        | PBind q p v => let '(s1, e) := spec_step isvoid s x in (s1, e, match e with [0] => set_nth bv q v | _ => bv end)
        | _ => let '(s1, e) := spec_step isvoid s x in (s1, e, bv)
        end in
      list_eqb o e && spec_check isvoid s1 bv1 r os
  | _, _ => false
  end.

Definition oinit : ospec :=
  mkO (repeat None (NPROM + NCLO)) (repeat None NCELL) (repeat [] NCELL).

Definition prom_oracle (isvoid : bool) (ops obs : list (list Z)) : bool :=
  match rev obs with
  | last :: body => list_eqb last [10; 0; 0] && spec_check isvoid oinit (repeat 0 NCLO) (map decode ops ++ cleanup) (rev body)
  | [] => false
  end.
