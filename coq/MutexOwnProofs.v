(* MutexOwnProofs.v — the ownership objects of cocls::mutex: for every operation sequence, a mutex is locked
   exactly when exactly one ownership object holds it (or one grant is in flight during a hand-over), every
   way of giving an ownership up (release, destruction, being overwritten by a move assignment) unlocks or
   hands over exactly once, and when no object holds anything every mutex is free and no request is pending. *)
From Cocls Require Import Base BaseProofs MutexOwnDefs.
Local Open Scope nat_scope.

Definition is_m (m : nat) (v : option nat) : nat := match v with Some x => if Nat.eqb x m then 1 else 0 | None => 0 end.
Fixpoint heldl (l : list (option nat)) (m : nat) : nat := match l with [] => 0 | v :: r => is_m m v + heldl r m end.
Definition held (s : wst) (m : nat) : nat := heldl (slots s) m.
Definition b2n (b : bool) : nat := if b then 1 else 0.

Record WI (s : wst) (pend : option nat) : Prop := {
  w_cnt : forall m, held s m + is_m m pend = b2n (locked (gmx s m));
  w_wait : forall m, waitq (gmx s m) <> [] -> locked (gmx s m) = true;
  w_tgt : forall m k, In k (waitq (gmx s m)) -> k < length (wts s) /\ wslot (gwt s k) < length (slots s);
  w_err : werr s = false
}.

Lemma heldl_set l j v m : j < length l ->
  heldl (set_nth l j v) m + is_m m (nth j l None) = heldl l m + is_m m v.
Proof.
  revert j. induction l as [|y l IH]; intros [|j] L; cbn [length] in L; try lia.
  - cbn [set_nth heldl nth]. lia.
  - cbn [set_nth heldl nth]. specialize (IH j ltac:(lia)). lia.
Qed.

Lemma set_nth_length {A} (l : list A) i x : length (set_nth l i x) = length l.
Proof. revert i; induction l as [|y l IH]; intros [|i]; cbn; auto. Qed.

Lemma nth_set_same {A} (l : list A) i x d : i < length l -> nth i (set_nth l i x) d = x.
Proof. revert i; induction l as [|y l IH]; intros [|i] H; cbn in *; try lia; auto. apply IH. lia. Qed.

Lemma nth_set_other {A} (l : list A) i j x d : i <> j -> nth j (set_nth l i x) d = nth j l d.
Proof. revert i j; induction l as [|y l IH]; intros [|i] [|j] H; cbn; auto; congruence. Qed.

Lemma gmx_set_mx s m x m' : m < length (mxs s) -> gmx (set_mx s m x) m' = if Nat.eqb m' m then x else gmx s m'.
Proof.
  intros L. unfold gmx, set_mx. cbn [mxs]. destruct (Nat.eqb_spec m' m) as [->|N].
  - apply nth_set_same. exact L.
  - apply nth_set_other. auto.
Qed.

Lemma locked_lt s m : locked (gmx s m) = true -> m < length (mxs s).
Proof.
  intros H. destruct (le_lt_dec (length (mxs s)) m) as [G|G]; [|exact G].
  unfold gmx in H. rewrite nth_overflow in H by exact G. discriminate.
Qed.

Lemma pending_set l m x : m < length l ->
  fold_right (fun y n => length (waitq y) + n) 0 (set_nth l m x) + length (waitq (nth m l (mkM false []))) =
  fold_right (fun y n => length (waitq y) + n) 0 l + length (waitq x).
Proof.
  revert m. induction l as [|y l IH]; intros [|m] L; cbn [length] in L; try lia.
  - cbn [set_nth fold_right nth]. lia.
  - cbn [set_nth fold_right nth]. specialize (IH m ltac:(lia)). lia.
Qed.

Lemma is_m_le m v : is_m m v <= 1.
Proof. unfold is_m. destruct v as [x|]; [destruct (Nat.eqb x m)|]; lia. Qed.

Definition relf (f : nat) (s' : wst) (a : nat) : wst :=
  match gslot s' a with Some m2 => unlock f (set_slot s' a None) m2 | None => s' end.

Lemma gslot_lt s a m : gslot s a = Some m -> a < length (slots s).
Proof.
  intros E. destruct (le_lt_dec (length (slots s)) a) as [G|G]; [|exact G].
  unfold gslot in E. rewrite nth_overflow in E by exact G. discriminate.
Qed.

Lemma slot_none_wi s i : WI s None -> i < length (slots s) -> WI (set_slot s i None) (gslot s i).
Proof.
  intros I Li. constructor.
  - intros m. change (gmx (set_slot s i None) m) with (gmx s m). unfold held. cbn [set_slot slots].
    pose proof (heldl_set (slots s) i None m Li) as H. pose proof (w_cnt s _ I m) as C. unfold held, gslot in *.
    cbn [is_m] in *. lia.
  - apply (w_wait s _ I).
  - intros m k Hk. cbn [set_slot slots wts]. rewrite set_nth_length. apply (w_tgt s _ I m k Hk).
  - apply (w_err s _ I).
Qed.

(* the callback's own release() calls, given the statement for hand-over chains with this fuel *)
Lemma rel_fold_inv f :
  (forall s m, WI s (Some m) -> pending s <= f -> WI (unlock f s m) None /\ pending (unlock f s m) <= pending s) ->
  forall l s, WI s None -> pending s <= f ->
  WI (fold_left (relf f) l s) None /\ pending (fold_left (relf f) l s) <= pending s.
Proof.
  intros H. induction l as [|a l IHl]; intros s I P; cbn [fold_left]; [split; [exact I|lia]|].
  assert (Q : WI (relf f s a) None /\ pending (relf f s a) <= pending s).
  { unfold relf. destruct (gslot s a) as [m2|] eqn:E; [|split; [exact I|lia]].
    pose proof (slot_none_wi s a I (gslot_lt s a m2 E)) as I1. rewrite E in I1.
    assert (P' : pending (set_slot s a None) <= f) by exact P.
    destruct (H (set_slot s a None) m2 I1 P') as [A B]. split; [exact A|exact B]. }
  destruct Q as [I1 P1]. destruct (IHl (relf f s a) I1 ltac:(lia)) as [A B]. split; [exact A|lia].
Qed.

(* the hand-over chain: one grant of m is in flight *)
Lemma unlock_inv fuel : forall s m, WI s (Some m) -> pending s <= fuel ->
  WI (unlock fuel s m) None /\ pending (unlock fuel s m) <= pending s.
Proof.
  induction fuel as [|f IH]; intros s m I P.
  - (* no waiter anywhere *)
    assert (Lm : locked (gmx s m) = true).
    { pose proof (w_cnt s _ I m) as C. cbn [is_m] in C. rewrite Nat.eqb_refl in C. destruct (locked (gmx s m)); [reflexivity|cbn in C; lia]. }
    pose proof (locked_lt s m Lm) as Lt.
    assert (Q : waitq (gmx s m) = []).
    { destruct (waitq (gmx s m)) as [|k r] eqn:E; [reflexivity|]. exfalso.
      pose proof (pending_set (mxs s) m (mkM true []) Lt) as PS. fold (gmx s m) in PS. rewrite E in PS. cbn [length waitq] in PS.
      unfold pending in P. lia. }
    cbn [unlock]. rewrite Q. split.
    + constructor.
      * intros m'. unfold held. cbn [set_mx slots]. rewrite gmx_set_mx by exact Lt.
        pose proof (w_cnt s _ I m') as C. cbn [is_m] in *. destruct (Nat.eqb_spec m' m) as [->|N].
        -- rewrite Nat.eqb_refl in C. rewrite Lm in C. cbn [locked b2n] in *. unfold held in C. lia.
        -- assert (E : Nat.eqb m m' = false) by (apply Nat.eqb_neq; auto). rewrite E in C. unfold held in C. lia.
      * intros m'. rewrite gmx_set_mx by exact Lt. destruct (Nat.eqb m' m); [cbn; congruence|apply (w_wait s _ I)].
      * intros m' k. rewrite gmx_set_mx by exact Lt. destruct (Nat.eqb m' m); [cbn; contradiction|apply (w_tgt s _ I)].
      * apply (w_err s _ I).
    + unfold pending. cbn [set_mx mxs]. pose proof (pending_set (mxs s) m (mkM false []) Lt) as PS.
      fold (gmx s m) in PS. rewrite Q in PS. cbn [length waitq] in PS. lia.
  - assert (Lm : locked (gmx s m) = true).
    { pose proof (w_cnt s _ I m) as C. cbn [is_m] in C. rewrite Nat.eqb_refl in C. destruct (locked (gmx s m)); [reflexivity|cbn in C; lia]. }
    pose proof (locked_lt s m Lm) as Lt.
    assert (H0 : held s m = 0).
    { pose proof (w_cnt s _ I m) as C. cbn [is_m] in C. rewrite Nat.eqb_refl, Lm in C. cbn in C. lia. }
    cbn [unlock]. destruct (waitq (gmx s m)) as [|k r] eqn:Q.
    + split.
      * constructor.
        -- intros m'. unfold held. cbn [set_mx slots]. rewrite gmx_set_mx by exact Lt.
           pose proof (w_cnt s _ I m') as C. cbn [is_m] in *. destruct (Nat.eqb_spec m' m) as [->|N].
           ++ cbn [locked b2n]. unfold held in H0. lia.
           ++ assert (E : Nat.eqb m m' = false) by (apply Nat.eqb_neq; auto). rewrite E in C. unfold held in C. lia.
        -- intros m'. rewrite gmx_set_mx by exact Lt. destruct (Nat.eqb m' m); [cbn; congruence|apply (w_wait s _ I)].
        -- intros m' k. rewrite gmx_set_mx by exact Lt. destruct (Nat.eqb m' m); [cbn; contradiction|apply (w_tgt s _ I)].
        -- apply (w_err s _ I).
      * unfold pending. cbn [set_mx mxs]. pose proof (pending_set (mxs s) m (mkM false []) Lt) as PS.
        fold (gmx s m) in PS. rewrite Q in PS. cbn [length waitq] in PS. lia.
    + (* waiter k is resumed and stores its ownership *)
      destruct (w_tgt s _ I m k) as [Lk Lj]; [rewrite Q; left; reflexivity|].
      set (s1 := set_mx s m (mkM true r)).
      set (s2 := mkWS (mxs s1) (slots s1) (wts s1) (runlog s1 ++ [k]) (werr s1)).
      set (j := wslot (gwt s2 k)).
      assert (Ej : j = wslot (gwt s k)) by reflexivity.
      assert (P1 : pending s2 + S (length r) = pending s + length r).
      { unfold pending. cbn [s2 s1 set_mx mxs]. pose proof (pending_set (mxs s) m (mkM true r) Lt) as PS.
        fold (gmx s m) in PS. rewrite Q in PS. cbn [length waitq] in PS. lia. }
      assert (G2 : forall m', gmx s2 m' = if Nat.eqb m' m then mkM true r else gmx s m').
      { intros m'. change (gmx s2 m') with (gmx s1 m'). apply gmx_set_mx. exact Lt. }
      set (s3 := set_slot s2 j (Some m)).
      assert (Lj3 : j < length (slots s2)) by (rewrite Ej; exact Lj).
      assert (HS : forall m', held s3 m' + is_m m' (gslot s2 j) = held s m' + is_m m' (Some m)).
      { intros m'. unfold held, s3. cbn [set_slot slots]. apply heldl_set. exact Lj3. }
      assert (I3 : WI s3 (gslot s2 j)).
      { constructor.
        - intros m'. change (gmx s3 m') with (gmx s2 m'). rewrite G2. specialize (HS m').
          pose proof (w_cnt s _ I m') as C. cbn [is_m] in C, HS.
          destruct (Nat.eqb_spec m' m) as [->|N].
          + rewrite Nat.eqb_refl in *. cbn [locked b2n]. lia.
          + assert (E : Nat.eqb m m' = false) by (apply Nat.eqb_neq; auto). rewrite E in *. lia.
        - intros m'. change (gmx s3 m') with (gmx s2 m'). rewrite G2. destruct (Nat.eqb m' m); [reflexivity|apply (w_wait s _ I)].
        - intros m' k'. change (gmx s3 m') with (gmx s2 m'). rewrite G2.
          change (wts s3) with (wts s). change (gwt s3 k') with (gwt s k').
          cbn [s3 set_slot slots]. rewrite set_nth_length. change (slots s2) with (slots s).
          destruct (Nat.eqb_spec m' m) as [->|N]; [|apply (w_tgt s _ I)].
          cbn [waitq]. intros Hk. apply (w_tgt s _ I m). rewrite Q. right. exact Hk.
        - apply (w_err s _ I). }
      assert (P3 : pending s3 <= f) by (change (pending s3) with (pending s2); lia).
      fold (relf f).
      assert (S4 : WI (match gslot s2 j with Some m' => unlock f s3 m' | None => s3 end) None /\
                   pending (match gslot s2 j with Some m' => unlock f s3 m' | None => s3 end) <= pending s2).
      { destruct (gslot s2 j) as [m'|] eqn:Old.
        - destruct (IH s3 m' I3 P3) as [A B]. split; [exact A|]. change (pending s3) with (pending s2) in B. exact B.
        - split; [exact I3|]. change (pending s3) with (pending s2). lia. }
      destruct S4 as [I4 P4].
      destruct (rel_fold_inv f IH (wrel (gwt s2 k)) _ I4 ltac:(lia)) as [A B]. split; [exact A|lia].
Qed.

(* giving one ownership of v up / putting it in flight *)
Lemma store_inv s j v : WI s v -> j < length (slots s) -> WI (store s j v) None.
Proof.
  intros I Lj. unfold store.
  assert (I1 : WI (set_slot s j v) (gslot s j)).
  { constructor.
    - intros m. change (gmx (set_slot s j v) m) with (gmx s m). unfold held. cbn [set_slot slots].
      pose proof (heldl_set (slots s) j v m Lj) as H. pose proof (w_cnt s _ I m) as C. unfold held, gslot in *. lia.
    - apply (w_wait s _ I).
    - intros m k Hk. change (gmx (set_slot s j v) m) with (gmx s m) in Hk. cbn [set_slot slots wts]. rewrite set_nth_length.
      apply (w_tgt s _ I m k Hk).
    - apply (w_err s _ I). }
  destruct (gslot s j) as [m'|]; [|exact I1]. apply unlock_inv; [exact I1|lia].
Qed.

Lemma destroy_inv s j : WI s None -> j < length (slots s) -> WI (destroy s j) None.
Proof.
  intros I Lj. unfold destroy. destruct (gslot s j) as [m|] eqn:E; [|exact I].
  pose proof (store_inv s j None I Lj) as H. unfold store in H. rewrite E in H. exact H.
Qed.

Lemma lock_inv s m : WI s None -> locked (gmx s m) = false -> m < length (mxs s) ->
  WI (set_mx s m (mkM true (waitq (gmx s m)))) (Some m).
Proof.
  intros I F Lt. constructor.
  - intros m'. rewrite gmx_set_mx by exact Lt. change (held (set_mx s m (mkM true (waitq (gmx s m)))) m') with (held s m').
    pose proof (w_cnt s _ I m') as C. cbn [is_m] in *. destruct (Nat.eqb_spec m' m) as [->|N].
    + rewrite Nat.eqb_refl, F in *. cbn in *. lia.
    + assert (E : Nat.eqb m m' = false) by (apply Nat.eqb_neq; auto). rewrite E. lia.
  - intros m'. rewrite gmx_set_mx by exact Lt. destruct (Nat.eqb m' m); [reflexivity|apply (w_wait s _ I)].
  - intros m' k. rewrite gmx_set_mx by exact Lt. change (wts (set_mx s m (mkM true (waitq (gmx s m))))) with (wts s).
    change (slots (set_mx s m (mkM true (waitq (gmx s m))))) with (slots s).
    change (gwt (set_mx s m (mkM true (waitq (gmx s m)))) k) with (gwt s k).
    destruct (Nat.eqb_spec m' m) as [->|N]; [cbn [waitq]|]; apply (w_tgt s _ I).
  - apply (w_err s _ I).
Qed.

Definition shape (s : wst) : Prop := length (mxs s) = NM /\ length (slots s) = NS.

Lemma shape_set_slot0 s j v : shape s -> shape (set_slot s j v).
Proof. intros [A B]. split; cbn [set_slot mxs slots]; rewrite ?set_nth_length; assumption. Qed.

Lemma relfold_shape f : (forall s m, shape s -> shape (unlock f s m)) ->
  forall l s, shape s -> shape (fold_left (relf f) l s).
Proof.
  intros H. induction l as [|a l IHl]; intros s S; cbn [fold_left]; [exact S|]. apply IHl.
  unfold relf. destruct (gslot s a); [apply H; apply shape_set_slot0; exact S|exact S].
Qed.

Lemma unlock_shape fuel : forall s m, shape s -> shape (unlock fuel s m).
Proof.
  induction fuel as [|f IH]; intros s m [A B]; cbn [unlock].
  - destruct (waitq (gmx s m)); split; cbn [set_mx set_err mxs slots]; rewrite ?set_nth_length; assumption.
  - destruct (waitq (gmx s m)) as [|k r]; [split; cbn [set_mx mxs slots]; rewrite ?set_nth_length; assumption|].
    fold (relf f). apply relfold_shape; [exact IH|].
    match goal with |- shape (match ?o with _ => _ end) => destruct o end; [apply IH|];
      split; cbn [set_slot set_mx mxs slots]; rewrite ?set_nth_length; assumption.
Qed.

Lemma store_shape s j v : shape s -> shape (store s j v).
Proof.
  intros [A B]. unfold store. destruct (gslot s j); [apply unlock_shape|];
    split; cbn [set_slot mxs slots]; rewrite ?set_nth_length; assumption.
Qed.

Lemma destroy_shape s j : shape s -> shape (destroy s j).
Proof.
  intros [A B]. unfold destroy. destruct (gslot s j); [apply unlock_shape|split; assumption].
  split; cbn [set_slot mxs slots]; rewrite ?set_nth_length; assumption.
Qed.

Lemma okm_lt m : okm m = true -> z2n m < NM.
Proof. unfold okm, z2n, NM. intros H. apply andb_true_iff in H. destruct H as [A B]. apply Z.leb_le in A. apply Z.ltb_lt in B. lia. Qed.
Lemma oks_lt j : oks j = true -> z2n j < NS.
Proof. unfold oks, z2n, NS. intros H. apply andb_true_iff in H. destruct H as [A B]. apply Z.leb_le in A. apply Z.ltb_lt in B. lia. Qed.

Definition OK (s : wst) : Prop := WI s None /\ shape s.

(* ---------- a slot that no pending callback targets is not touched by a hand-over chain ---------- *)
Definition untargeted (s : wst) (j : nat) : Prop :=
  forall x k, In x (mxs s) -> In k (waitq x) -> wslot (gwt s k) <> j /\ ~ In j (wrel (gwt s k)).

Lemma targeted_false s j : targeted s j = false -> untargeted s j.
Proof.
  unfold targeted, untargeted. intros H x k Hx Hk.
  assert (F : (Nat.eqb (wslot (gwt s k)) j || existsb (Nat.eqb j) (wrel (gwt s k)))%bool = false).
  { destruct (Nat.eqb (wslot (gwt s k)) j || existsb (Nat.eqb j) (wrel (gwt s k)))%bool eqn:E; [|reflexivity]. exfalso.
    assert (T : existsb (fun x => existsb (fun k => Nat.eqb (wslot (gwt s k)) j || existsb (Nat.eqb j) (wrel (gwt s k)))%bool (waitq x)) (mxs s) = true).
    { apply existsb_exists. exists x. split; [exact Hx|]. apply existsb_exists. exists k. split; [exact Hk|exact E]. }
    congruence. }
  apply orb_false_iff in F. destruct F as [F1 F2]. split.
  - apply Nat.eqb_neq. exact F1.
  - intro Q. assert (existsb (Nat.eqb j) (wrel (gwt s k)) = true); [|congruence].
    apply existsb_exists. exists j. split; [exact Q|apply Nat.eqb_refl].
Qed.

Lemma In_set_nth {A} (l : list A) i x y : In y (set_nth l i x) -> y = x \/ In y l.
Proof.
  revert i. induction l as [|z l IH]; intros [|i] H; cbn in *; auto.
  - destruct H as [H|H]; auto.
  - destruct H as [H|H]; auto. destruct (IH i H); auto.
Qed.

Lemma gmx_in s m : m < length (mxs s) -> In (gmx s m) (mxs s).
Proof. intros L. unfold gmx. apply nth_In. exact L. Qed.

Lemma relfold_keep f j :
  (forall s m, untargeted s j -> gslot (unlock f s m) j = gslot s j /\ untargeted (unlock f s m) j) ->
  forall l s, ~ In j l -> untargeted s j ->
  gslot (fold_left (relf f) l s) j = gslot s j /\ untargeted (fold_left (relf f) l s) j.
Proof.
  intros H. induction l as [|a l IHl]; intros s N U; cbn [fold_left]; [split; [reflexivity|exact U]|].
  assert (Na : a <> j) by (intro; subst; apply N; left; reflexivity).
  assert (Q : gslot (relf f s a) j = gslot s j /\ untargeted (relf f s a) j).
  { unfold relf. destruct (gslot s a) as [m2|]; [|split; [reflexivity|exact U]].
    destruct (H (set_slot s a None) m2) as [A B]; [exact U|]. split; [|exact B].
    rewrite A. unfold gslot. cbn [set_slot slots]. apply nth_set_other. exact Na. }
  destruct Q as [Q1 Q2]. destruct (IHl (relf f s a)) as [A B]; [intro; apply N; right; assumption|exact Q2|].
  split; [rewrite A; exact Q1|exact B].
Qed.

Lemma unlock_keep fuel : forall s m j, untargeted s j ->
  gslot (unlock fuel s m) j = gslot s j /\ untargeted (unlock fuel s m) j.
Proof.
  induction fuel as [|f IH]; intros s m j U; cbn [unlock].
  - destruct (waitq (gmx s m)); (split; [reflexivity|]); intros x k Hx Hk; cbn [set_mx set_err mxs] in Hx.
    + apply In_set_nth in Hx. destruct Hx as [->|Hx]; [contradiction|]. eapply U; eassumption.
    + eapply U; eassumption.
  - destruct (waitq (gmx s m)) as [|k r] eqn:Q.
    + split; [reflexivity|]. intros x k Hx Hk. cbn [set_mx mxs] in Hx.
      apply In_set_nth in Hx. destruct Hx as [->|Hx]; [contradiction|]. eapply U; eassumption.
    + destruct (le_lt_dec (length (mxs s)) m) as [G|G].
      { unfold gmx in Q. rewrite nth_overflow in Q by exact G. discriminate. }
      destruct (U (gmx s m) k) as [Nk Nr]; [apply gmx_in; exact G|rewrite Q; left; reflexivity|].
      set (s1 := set_mx s m (mkM true r)).
      set (s2 := mkWS (mxs s1) (slots s1) (wts s1) (runlog s1 ++ [k]) (werr s1)).
      set (s3 := set_slot s2 (wslot (gwt s2 k)) (Some m)).
      assert (U3 : untargeted s3 j).
      { intros x k' Hx Hk'. change (gwt s3 k') with (gwt s k'). change (mxs s3) with (set_nth (mxs s) m (mkM true r)) in Hx.
        apply In_set_nth in Hx. destruct Hx as [->|Hx].
        - cbn [waitq] in Hk'. apply (U (gmx s m) k'); [apply gmx_in; exact G|rewrite Q; right; exact Hk'].
        - eapply U; eassumption. }
      assert (G3 : gslot s3 j = gslot s j).
      { unfold gslot, s3. cbn [set_slot slots]. apply nth_set_other. exact Nk. }
      change (wslot (gwt s2 k)) with (wslot (gwt s k)) in *. change (wrel (gwt s2 k)) with (wrel (gwt s k)).
      fold (relf f).
      assert (S4 : gslot (match gslot s2 (wslot (gwt s k)) with Some m' => unlock f s3 m' | None => s3 end) j = gslot s j /\
                   untargeted (match gslot s2 (wslot (gwt s k)) with Some m' => unlock f s3 m' | None => s3 end) j).
      { destruct (gslot s2 (wslot (gwt s k))) as [m'|].
        - destruct (IH s3 m' j U3) as [A B]. split; [rewrite A; exact G3|exact B].
        - split; [exact G3|exact U3]. }
      destruct S4 as [A4 U4].
      destruct (relfold_keep f j (fun s0 m0 => IH s0 m0 j) (wrel (gwt s k)) _ Nr U4) as [A B].
      split; [rewrite A; exact A4|exact B].
Qed.

Definition valid (o : oop) : Prop :=
  match o with
  | OTry m j | OCb m j _ => m < NM /\ j < NS
  | ORel j | ODestroy j | OBool j => j < NS
  | OMove i j | OCtor i j => i < NS /\ j < NS
  | OProbe m => m < NM
  end.

Lemma set_slot_none_inv s i : WI s None -> i < length (slots s) -> WI (set_slot s i None) (gslot s i).
Proof.
  intros I Li. constructor.
  - intros m. change (gmx (set_slot s i None) m) with (gmx s m). unfold held. cbn [set_slot slots].
    pose proof (heldl_set (slots s) i None m Li) as H. pose proof (w_cnt s _ I m) as C. unfold held, gslot in *.
    cbn [is_m] in *. lia.
  - apply (w_wait s _ I).
  - intros m k Hk. cbn [set_slot slots wts]. rewrite set_nth_length. apply (w_tgt s _ I m k Hk).
  - apply (w_err s _ I).
Qed.

Lemma shape_set_slot s j v : shape s -> shape (set_slot s j v).
Proof. intros [A B]. split; cbn [set_slot mxs slots]; rewrite ?set_nth_length; assumption. Qed.
Lemma shape_set_mx s m x : shape s -> shape (set_mx s m x).
Proof. intros [A B]. split; cbn [set_mx mxs slots]; rewrite ?set_nth_length; assumption. Qed.

(* every operation preserves the invariant *)
Lemma wop_inv s o : OK s -> valid o -> OK (fst (wop s o)).
Proof.
  intros [I SH] V. pose proof SH as [LM LS]. destruct o as [m j|m j rl|j|j|i j|i j|j|m]; cbn [valid wop] in *.
  - destruct V as [Vm Vj]. destruct (locked (gmx s m)) eqn:Lk; cbn [fst].
    + split; [apply store_inv; [exact I|lia]|apply store_shape; exact SH].
    + split; [apply store_inv; [apply lock_inv; [exact I|exact Lk|lia]|cbn; lia]|apply store_shape; apply shape_set_mx; exact SH].
  - destruct V as [Vm Vj]. destruct (locked (gmx s m)) eqn:Lk; cbn [fst].
    + split; [|split; cbn [mxs slots]; rewrite ?set_nth_length; assumption].
      set (k := length (wts s)). assert (Lt : m < length (mxs s)) by lia.
      set (s' := mkWS (set_nth (mxs s) m (mkM true (waitq (gmx s m) ++ [k]))) (slots s) (wts s ++ [mkW j m rl]) (runlog s) (werr s)).
      assert (G : forall m', gmx s' m' = if Nat.eqb m' m then mkM true (waitq (gmx s m) ++ [k]) else gmx s m').
      { intros m'. unfold gmx, s'. cbn [mxs]. destruct (Nat.eqb_spec m' m) as [->|N]; [apply nth_set_same; exact Lt|apply nth_set_other; auto]. }
      assert (GW : forall x, x < length (wts s) -> gwt s' x = gwt s x).
      { intros x Lx. unfold gwt, s'. cbn [wts]. apply app_nth1. exact Lx. }
      constructor.
      * intros m'. rewrite G. pose proof (w_cnt s _ I m') as C. change (held s' m') with (held s m').
        destruct (Nat.eqb_spec m' m) as [->|N]; [|exact C]. cbn [locked]. rewrite Lk in C. exact C.
      * intros m'. rewrite G. destruct (Nat.eqb m' m); [reflexivity|apply (w_wait s _ I)].
      * intros m' k'. rewrite G. change (slots s') with (slots s). change (wts s') with (wts s ++ [mkW j m rl]). rewrite app_length. cbn [length].
        assert (Old : forall mm, In k' (waitq (gmx s mm)) -> k' < length (wts s) + 1 /\ wslot (gwt s' k') < length (slots s)).
        { intros mm Hk. destruct (w_tgt s _ I mm k' Hk) as [A B]. rewrite GW by exact A. lia. }
        destruct (Nat.eqb_spec m' m) as [->|N]; [|apply Old].
        cbn [waitq]. intros Hk. apply in_app_or in Hk. destruct Hk as [Hk|[<-|[]]]; [apply (Old m); exact Hk|].
        split; [unfold k; lia|]. unfold gwt, s'. cbn [wts]. unfold k. rewrite app_nth2 by lia. rewrite Nat.sub_diag. cbn [nth wslot]. lia.
      * apply (w_err s _ I).
    + split; [apply store_inv; [apply lock_inv; [exact I|exact Lk|lia]|cbn; lia]|apply store_shape; apply shape_set_mx; exact SH].
  - destruct (gslot s j) as [m|] eqn:E; cbn [fst]; [|split; assumption].
    pose proof (store_inv s j None I ltac:(lia)) as H. unfold store in H. rewrite E in H.
    split; [exact H|apply unlock_shape; apply shape_set_slot; exact SH].
  - destruct (targeted s j); cbn [fst]; [split; assumption|].
    split; [apply destroy_inv; [exact I|lia]|apply destroy_shape; exact SH].
  - destruct V as [Vi Vj]. destruct (Nat.eqb i j); cbn [fst]; [split; assumption|].
    split; [|apply store_shape; apply shape_set_slot; exact SH].
    apply store_inv; [apply set_slot_none_inv; [exact I|lia]|cbn [set_slot slots]; rewrite set_nth_length; lia].
  - destruct V as [Vi Vj]. destruct (Nat.eqb_spec i j) as [->|Nij]; cbn [orb fst]; [split; assumption|].
    destruct (targeted s j) eqn:T; cbn [fst]; [split; assumption|].
    pose proof (destroy_inv s j I ltac:(lia)) as I1. pose proof (destroy_shape s j SH) as SH1. pose proof SH1 as [A1 B1].
    assert (E1 : gslot (destroy s j) j = None).
    { unfold destroy. destruct (gslot s j) as [m|] eqn:E; [|exact E].
      destruct (unlock_keep (pending (set_slot s j None)) (set_slot s j None) m j) as [A _].
      - exact (targeted_false s j T).
      - rewrite A. unfold gslot. cbn [set_slot slots]. apply nth_set_same. lia. }
    set (s1 := destroy s j) in *.
    split; [|apply shape_set_slot; apply shape_set_slot; exact SH1].
    pose proof (set_slot_none_inv s1 i I1 ltac:(lia)) as I2.
    pose proof (store_inv (set_slot s1 i None) j (gslot s1 i) I2 ltac:(cbn [set_slot slots]; rewrite set_nth_length; lia)) as I3.
    unfold store in I3.
    assert (E2 : gslot (set_slot s1 i None) j = None).
    { unfold gslot. cbn [set_slot slots]. rewrite nth_set_other by exact Nij. exact E1. }
    rewrite E2 in I3. exact I3.
  - split; assumption.
  - destruct (locked (gmx s m)) eqn:Lk; cbn [fst]; [split; assumption|].
    pose proof (lock_inv s m I Lk ltac:(lia)) as I1.
    split; [apply unlock_inv; [exact I1|lia]|apply unlock_shape; apply shape_set_mx; exact SH].
Qed.

Lemma decode_valid op o : decode op = Some o -> valid o.
Proof.
  unfold decode. intros H.
  repeat match type of H with
  | match ?x with _ => _ end = _ => destruct x eqn:?; try discriminate H
  end.
  all: inversion H; subst; cbn [valid];
    repeat match goal with
    | Q : (_ && _)%bool = true |- _ => apply andb_true_iff in Q; destruct Q
    | Q : okm _ = true |- _ => apply okm_lt in Q
    | Q : oks _ = true |- _ => apply oks_lt in Q
    end; auto.
Qed.

Lemma wstep_inv s op : OK s -> OK (fst (wstep s op)).
Proof.
  intros H. unfold wstep. destruct (decode op) as [o|] eqn:D; [|exact H].
  apply wop_inv; [exact H|eapply decode_valid; exact D].
Qed.

Lemma winit_ok : OK winit.
Proof.
  split; [|split; reflexivity]. constructor.
  - intros m. unfold held, gmx, winit. cbn [slots mxs NS NM repeat heldl is_m].
    destruct m as [|[|m]]; cbn; try reflexivity. destruct m; reflexivity.
  - intros m. unfold gmx, winit. cbn [mxs NM repeat]. destruct m as [|[|m]]; cbn; try congruence. destruct m; cbn; congruence.
  - intros m k. unfold gmx, winit. cbn [mxs NM repeat]. destruct m as [|[|m]]; cbn; try contradiction. destruct m; cbn; contradiction.
  - reflexivity.
Qed.

Inductive wreach : wst -> Prop :=
| wr_init : wreach winit
| wr_step s op : wreach s -> wreach (fst (wstep s op)).

Lemma wreach_ok s : wreach s -> OK s.
Proof. induction 1; [apply winit_ok|apply wstep_inv; assumption]. Qed.

Lemma wrun_reach ops : forall s, wreach s -> wreach (fst (wrun s ops)).
Proof.
  induction ops as [|op r IH]; intros s R; cbn [wrun]; [exact R|].
  destruct (wstep s op) as [s1 res] eqn:E. specialize (IH s1).
  destruct (wrun s1 r) as [s2 l] eqn:E2. cbn [fst] in *. apply IH.
  replace s1 with (fst (wstep s op)) by (rewrite E; reflexivity). apply wr_step. exact R.
Qed.

(* ---------- the statements ---------- *)
Lemma heldl_one l m j : nth j l None = Some m -> 1 <= heldl l m.
Proof.
  revert j. induction l as [|v l IH]; intros [|j] E; cbn [nth heldl] in *; try discriminate.
  - subst v. unfold is_m. rewrite Nat.eqb_refl. lia.
  - specialize (IH j E). lia.
Qed.

Lemma heldl_two l m : forall i j, nth i l None = Some m -> nth j l None = Some m -> i <> j -> 2 <= heldl l m.
Proof.
  induction l as [|v l IH]; intros [|i] [|j] A B N; cbn [nth heldl] in *; try discriminate; try lia.
  - subst v. unfold is_m. rewrite Nat.eqb_refl. pose proof (heldl_one l m j B). lia.
  - subst v. unfold is_m. rewrite Nat.eqb_refl. pose proof (heldl_one l m i A). lia.
  - specialize (IH i j A B ltac:(lia)). lia.
Qed.

Lemma heldl_pos l m : 1 <= heldl l m -> exists j, nth j l None = Some m.
Proof.
  induction l as [|v l IH]; cbn [heldl]; [lia|]. intros H.
  destruct v as [x|]; cbn [is_m] in H.
  - destruct (Nat.eqb_spec x m) as [->|N]; [exists 0; reflexivity|]. destruct IH as (j & E); [lia|]. exists (S j). exact E.
  - destruct IH as (j & E); [lia|]. exists (S j). exact E.
Qed.

Lemma heldl_zero l m : (forall j, nth j l None <> Some m) -> heldl l m = 0.
Proof.
  intros H. destruct (heldl l m) eqn:E; [reflexivity|]. exfalso.
  destruct (heldl_pos l m ltac:(lia)) as (j & Q). exact (H j Q).
Qed.

(* at most one ownership object holds a mutex *)
Lemma own_unique s i j m : wreach s -> gslot s i = Some m -> gslot s j = Some m -> i = j.
Proof.
  intros R A B. destruct (wreach_ok s R) as [I _]. destruct (Nat.eq_dec i j) as [|N]; [assumption|]. exfalso.
  pose proof (heldl_two (slots s) m i j A B N) as H. pose proof (w_cnt s _ I m) as C. unfold held in C. cbn [is_m] in C.
  destruct (locked (gmx s m)); cbn in C; lia.
Qed.

(* a mutex is locked exactly when some ownership object holds it *)
Lemma own_locked_iff s m : wreach s -> (locked (gmx s m) = true <-> exists j, gslot s j = Some m).
Proof.
  intros R. destruct (wreach_ok s R) as [I _]. pose proof (w_cnt s _ I m) as C. unfold held in C. cbn [is_m] in C. split.
  - intros L. rewrite L in C. cbn in C. apply heldl_pos. lia.
  - intros (j & E). destruct (locked (gmx s m)); [reflexivity|]. cbn in C.
    pose proof (heldl_one (slots s) m j E). lia.
Qed.

(* when every ownership was given up, every mutex is free and no request is pending; the model never ran out of fuel *)
Lemma own_released_free s : wreach s -> (forall j, gslot s j = None) ->
  forall m, locked (gmx s m) = false /\ waitq (gmx s m) = [].
Proof.
  intros R H m. destruct (wreach_ok s R) as [I _]. pose proof (w_cnt s _ I m) as C. unfold held in C. cbn [is_m] in C.
  rewrite heldl_zero in C by (intros j; unfold gslot in H; rewrite H; discriminate).
  assert (L : locked (gmx s m) = false) by (destruct (locked (gmx s m)); [cbn in C; lia|reflexivity]).
  split; [exact L|]. destruct (waitq (gmx s m)) eqn:Q; [reflexivity|]. exfalso.
  assert (locked (gmx s m) = true) by (apply (w_wait s _ I); rewrite Q; discriminate). congruence.
Qed.

Lemma own_no_error s : wreach s -> werr s = false.
Proof. intros R. destruct (wreach_ok s R) as [I _]. apply (w_err s _ I). Qed.
