(* QueueConcProofs.v — the interleaving model of QueueDefs.v (producer / consumer / unblock_pop threads over queue<T> or
   limited_queue<T>, pushes and pops split at the unlock): invariants preserved by EVERY step of EVERY thread, hence true
   after every schedule, for any number of threads, any limit, any values. *)
From Cocls Require Import Base BaseProofs QueueDefs.
Require Import ZifyBool.
Local Open Scope Z_scope.

(* ---------- reachability: any schedule, any length ---------- *)
Definition t_reachable (limit : option Z) (thrs : list thr) (s : tstate) : Prop :=
  exists sched fuel tr, s = fst (t_run_sched fuel (t_init limit thrs) sched tr).

Lemma t_run_inv (P : tstate -> Prop) :
  (forall s i, P s -> P (fst (tstep s i))) ->
  forall fuel s sched tr, P s -> P (fst (t_run_sched fuel s sched tr)).
Proof.
  intros Hstep. induction fuel as [|f IH]; intros s sched tr H; cbn [t_run_sched fst]; [exact H|].
  destruct (t_pick s _) as [i|]; [|exact H].
  specialize (Hstep s i H). destruct (tstep s i) as [s1 code]. cbn [fst] in Hstep. apply IH. exact Hstep.
Qed.

Lemma t_reachable_inv (P : tstate -> Prop) limit thrs :
  P (t_init limit thrs) -> (forall s i, P s -> P (fst (tstep s i))) -> forall s, t_reachable limit thrs s -> P s.
Proof. intros H0 Hs s (sched & fuel & tr & ->). apply t_run_inv; assumption. Qed.

(* ---------- projections of the logs ---------- *)
Definition o_items (c : nat) (o : outcome) : list (nat * titem) := match o with OItem it => [(c, it)] | _ => [] end.
Definition ritems (l : list (nat * outcome)) : list (nat * titem) := flat_map (fun x => o_items (fst x) (snd x)) l.
Definition iitems (l : list (nat * (nat * outcome))) : list (nat * titem) :=
  flat_map (fun x => o_items (fst (snd x)) (snd (snd x))) l.

Lemma ritems_app a b : ritems (a ++ b) = ritems a ++ ritems b.
Proof. apply flat_map_app. Qed.
Lemma iitems_app a b : iitems (a ++ b) = iitems a ++ iitems b.
Proof. apply flat_map_app. Qed.

Lemma iitems_remove i l c o : afind i l = Some (c, o) ->
  Permutation (iitems l) (o_items c o ++ iitems (aremove i l)).
Proof.
  induction l as [|[k [c' o']] t IH]; cbn [afind aremove]; [discriminate|].
  destruct (Nat.eqb i k) eqn:E.
  - intros H. injection H as -> ->. cbn [iitems flat_map fst snd]. apply Permutation_refl.
  - intros H. specialize (IH H). cbn [iitems flat_map fst snd]. fold (iitems t). fold (iitems (aremove i t)).
    rewrite IH. rewrite !app_assoc. apply Permutation_app_tail. apply Permutation_app_comm.
Qed.

(* ---------- conservation ---------- *)
Require Import Sorted.
Definition of_p (p : nat) (it : titem) : bool := Nat.eqb (it_p it) p.
Definition p_items (p : nat) (vals : list Z) (k : nat) : list titem := map (fun j => mkIt p j (nth j vals 0)) (seq 0 k).
Definition expected_plog (p : nat) (t : option thr) : list titem :=
  match t with Some (TProd vals k _ _ _) => p_items p vals k | _ => [] end.
Definition limit_ok (l : option Z) : Prop := match l with Some n => 1 <= n | None => True end.

(* the items that are matched, queued or held by blocked pushes, in that order *)
Definition t_chain (s : tstate) : list titem := map snd (t_alog s) ++ t_items s ++ map fst (t_blocked s).
Definition bound (t : option thr) : nat := match t with Some (TProd _ k _ _ _) => k | _ => 0%nat end.
Definition psorted (p : nat) (t : option thr) (C : list titem) : Prop :=
  StronglySorted lt (map it_k (filter (of_p p) C)) /\ Forall (fun j => (j < bound t)%nat) (map it_k (filter (of_p p) C)).

Record tcons (s : tstate) : Prop := mkTcons {
  tc_limit : limit_ok (t_limit s);
  tc_full : t_blocked s <> [] -> full s = true;
  tc_wait : t_waiters s <> [] -> t_items s = [] /\ t_blocked s = [];
  tc_plog : Permutation (t_plog s) (t_chain s ++ t_wlog s ++ t_dlog s);
  tc_perm : Permutation (t_alog s) (ritems (t_rlog s) ++ iitems (t_infl s));
  tc_prod : forall p, filter (of_p p) (t_plog s) = expected_plog p (nth_error (t_thr s) p);
  tc_sorted : forall p, psorted p (nth_error (t_thr s) p) (t_chain s)
}.

Lemma nth_error_set_same {A} (l : list A) i x y : nth_error l i = Some y -> nth_error (set_nth l i x) i = Some x.
Proof. intros H. apply nth_error_set_nth_same. apply nth_error_Some. congruence. Qed.

Lemma p_items_S p vals k : p_items p vals (S k) = p_items p vals k ++ [mkIt p k (nth k vals 0)].
Proof. unfold p_items. rewrite seq_S, map_app. reflexivity. Qed.

Lemma filter_snoc {A} (f : A -> bool) l x : filter f (l ++ [x]) = filter f l ++ (if f x then [x] else []).
Proof. rewrite filter_app. cbn [filter]. destruct (f x); reflexivity. Qed.

(* effect of a step on the thread table and the push log, abstractly *)
Lemma expected_after s i t t' plog' :
  nth_error (t_thr s) i = Some t ->
  (forall p, filter (of_p p) (t_plog s) = expected_plog p (nth_error (t_thr s) p)) ->
  (plog' = t_plog s /\ expected_plog i (Some t') = expected_plog i (Some t)) \/
  (exists vals k pc nb rets pc' nb' rets', t = TProd vals k pc nb rets /\ t' = TProd vals (S k) pc' nb' rets' /\
                                       plog' = t_plog s ++ [mkIt i k (nth k vals 0)]) ->
  forall p, filter (of_p p) plog' = expected_plog p (nth_error (set_nth (t_thr s) i t') p).
Proof.
  intros T H C p. destruct (Nat.eq_dec i p) as [<-|NE].
  - rewrite (nth_error_set_same _ _ _ _ T). specialize (H i). rewrite T in H.
    destruct C as [[-> E]|(vals & k & pc & nb & rets & pc' & nb' & rets' & -> & -> & ->)].
    + rewrite H. symmetry. exact E.
    + rewrite filter_snoc. unfold of_p at 2. cbn [it_p]. rewrite Nat.eqb_refl. rewrite H. cbn [expected_plog].
      rewrite p_items_S. reflexivity.
  - rewrite nth_error_set_nth_other by exact NE. specialize (H p).
    destruct C as [[-> E]|(vals & k & pc & nb & rets & pc' & nb' & rets' & -> & -> & ->)]; [exact H|].
    rewrite filter_snoc. unfold of_p at 2. cbn [it_p]. assert (Nat.eqb i p = false) as -> by (apply Nat.eqb_neq; exact NE).
    rewrite app_nil_r. exact H.
Qed.

(* sortedness toolkit *)
Lemma SS_app_l {A} (R : A -> A -> Prop) a b : StronglySorted R (a ++ b) -> StronglySorted R a.
Proof.
  induction a as [|x a IH]; intros H; [constructor|]. cbn [app] in H. inversion H as [|? ? S F]; subst.
  constructor; [apply IH; exact S|]. apply Forall_app in F. apply F.
Qed.
Lemma SS_app_r {A} (R : A -> A -> Prop) a b : StronglySorted R (a ++ b) -> StronglySorted R b.
Proof. induction a as [|x a IH]; intros H; [exact H|]. cbn [app] in H. inversion H; subst. apply IH. assumption. Qed.
Lemma SS_remove_mid {A} (R : A -> A -> Prop) a b d : StronglySorted R (a ++ b ++ d) -> StronglySorted R (a ++ d).
Proof.
  induction a as [|x a IH]; intros H; cbn [app] in *; [exact (SS_app_r _ _ _ H)|].
  inversion H as [|? ? S F]; subst. constructor; [apply IH; exact S|].
  apply Forall_app in F as [F1 F2]. apply Forall_app in F2 as [_ F3]. apply Forall_app. split; assumption.
Qed.
Lemma SS_snoc l x : StronglySorted lt l -> Forall (fun j => (j < x)%nat) l -> StronglySorted lt (l ++ [x]).
Proof.
  induction l as [|y l IH]; intros S F; cbn [app]; [constructor; constructor|].
  inversion S as [|? ? S' F']; subst. inversion F as [|? ? Fy Fl]; subst.
  constructor; [apply IH; assumption|]. apply Forall_app. split; [exact F'|constructor; [exact Fy|constructor]].
Qed.

Definition keys (p : nat) (C : list titem) : list nat := map it_k (filter (of_p p) C).
Lemma keys_app p a b : keys p (a ++ b) = keys p a ++ keys p b.
Proof. unfold keys. rewrite filter_app, map_app. reflexivity. Qed.

Lemma keys_single p it : keys p [it] = if Nat.eqb (it_p it) p then [it_k it] else [].
Proof. unfold keys, of_p. cbn [filter]. destruct (Nat.eqb (it_p it) p); reflexivity. Qed.

(* effect of a step on the chain: unchanged, one item of thread i appended, or a contiguous block removed *)
Lemma sorted_after s i t t' C' :
  nth_error (t_thr s) i = Some t ->
  (forall p, psorted p (nth_error (t_thr s) p) (t_chain s)) ->
  (C' = t_chain s /\ bound (Some t') = bound (Some t)) \/
  (exists vals k pc nb rets pc' nb' rets', t = TProd vals k pc nb rets /\ t' = TProd vals (S k) pc' nb' rets' /\
                                       C' = t_chain s ++ [mkIt i k (nth k vals 0)]) \/
  (exists a b d, t_chain s = a ++ b ++ d /\ C' = a ++ d /\ bound (Some t') = bound (Some t)) ->
  forall p, psorted p (nth_error (set_nth (t_thr s) i t') p) C'.
Proof.
  intros T H C p. unfold psorted in *. fold (keys p C'). specialize (H p). fold (keys p (t_chain s)) in H.
  assert (bound (nth_error (set_nth (t_thr s) i t') p) = if Nat.eqb i p then bound (Some t') else bound (nth_error (t_thr s) p)) as BE.
  { destruct (Nat.eqb i p) eqn:E.
    - apply Nat.eqb_eq in E. subst p. rewrite (nth_error_set_same _ _ _ _ T). reflexivity.
    - apply Nat.eqb_neq in E. rewrite nth_error_set_nth_other by exact E. reflexivity. }
  rewrite BE. clear BE.
  destruct C as [[-> E]|[(vals & k & pc & nb & rets & pc' & nb' & rets' & -> & -> & ->)|(a & b & d & EC & -> & E)]].
  - destruct (Nat.eqb i p) eqn:EQ; [|exact H]. apply Nat.eqb_eq in EQ. subst p. rewrite E. rewrite T in H. exact H.
  - rewrite keys_app, keys_single. cbn [it_p it_k].
    destruct (Nat.eqb i p) eqn:EQ.
    + apply Nat.eqb_eq in EQ. subst p. rewrite T in H. cbn [bound] in *. destruct H as [S F]. split.
      * apply SS_snoc; assumption.
      * apply Forall_app. split; [|constructor; [lia|constructor]]. eapply Forall_impl; [|exact F]. cbn. intros; lia.
    + rewrite app_nil_r. exact H.
  - rewrite EC in H. rewrite !keys_app in *. destruct H as [S F].
    assert (StronglySorted lt (keys p a ++ keys p d) /\ Forall (fun j => (j < bound (nth_error (t_thr s) p))%nat) (keys p a ++ keys p d)) as [S' F'].
    { split; [exact (SS_remove_mid _ _ _ _ S)|]. apply Forall_app in F as [F1 F2]. apply Forall_app in F2 as [_ F3].
      apply Forall_app. split; assumption. }
    destruct (Nat.eqb i p) eqn:EQ; [|split; assumption]. apply Nat.eqb_eq in EQ. subst p. rewrite E. rewrite T in F'. split; assumption.
Qed.

Ltac tfields := cbn [t_items t_waiters t_blocked t_limit t_dead t_infl t_cinfl t_rlog t_pdone t_alog t_plog t_wlog t_dlog t_thr fst snd] in *.

Lemma zlen_snoc_cons {A} (x y : A) t : zlen (t ++ [y]) = zlen (x :: t).
Proof. unfold zlen. rewrite app_length. cbn [length]. lia. Qed.

Lemma perm_snoc_insert {A} (x : A) l a b : Permutation l (a ++ b) -> Permutation (l ++ [x]) (a ++ x :: b).
Proof. intros H. etransitivity; [symmetry; apply Permutation_cons_append|]. apply Permutation_cons_app. exact H. Qed.
Lemma perm_ins1 {A} (x : A) l a r : Permutation l (a ++ r) -> Permutation (l ++ [x]) (a ++ [x] ++ r).
Proof. intros H. cbn [app]. apply perm_snoc_insert. exact H. Qed.
Lemma perm_ins2 {A} (x : A) l a b r : Permutation l (a ++ b ++ r) -> Permutation (l ++ [x]) (a ++ b ++ [x] ++ r).
Proof. intros H. rewrite app_assoc in *. apply perm_ins1. exact H. Qed.
Lemma perm_ins3 {A} (x : A) l a b c r : Permutation l (a ++ b ++ c ++ r) -> Permutation (l ++ [x]) (a ++ b ++ c ++ [x] ++ r).
Proof. intros H. rewrite app_assoc in *. apply perm_ins2. exact H. Qed.

Lemma ritems_cancel (w : list nat) : ritems (map (fun c => (c, OCancel)) w) = [].
Proof. induction w as [|c w IH]; [reflexivity|]. cbn [map ritems flat_map fst snd o_items app]. exact IH. Qed.

Lemma chain_eq s : t_chain s = map snd (t_alog s) ++ t_items s ++ map fst (t_blocked s).
Proof. reflexivity. Qed.

(* steps that change nothing but thread i's own entry (same number of pushes) *)
Ltac thr_only T J5 J6 :=
  first [ apply (expected_after _ _ _ _ _ T J5); left; split; reflexivity
        | apply (sorted_after _ _ _ _ _ T J6); left; split; [|reflexivity]; unfold t_chain;
          try (match goal with H : t_blocked _ = _ |- _ => rewrite H end);
          try (match goal with H : t_items _ = _ |- _ => rewrite H end); reflexivity ].

Lemma tcons_resolve_pop s i : tcons s -> tcons (resolve_pop s i).
Proof.
  intros [L B1 B2 J1 J2 J5 J6]. unfold resolve_pop. destruct (afind i (t_infl s)) as [[c o]|] eqn:AF; [|split; assumption].
  split; unfold t_chain in *; tfields; try assumption.
  rewrite ritems_app. cbn [ritems flat_map fst snd app]. rewrite app_nil_r. rewrite J2.
  rewrite <- app_assoc. apply Permutation_app_head. apply iitems_remove. exact AF.
Qed.
Lemma tcons_resolve_push s i : tcons s -> tcons (resolve_push s i).
Proof.
  intros [L B1 B2 J1 J2 J5 J6]. unfold resolve_push. destruct (afind i (t_cinfl s)) as [[p code]|]; [|split; assumption].
  split; unfold t_chain in *; tfields; assumption.
Qed.
Lemma resolve_pop_thr s i : t_thr (resolve_pop s i) = t_thr s.
Proof. unfold resolve_pop. destruct (afind i (t_infl s)) as [[c o]|]; reflexivity. Qed.
Lemma resolve_push_thr s i : t_thr (resolve_push s i) = t_thr s.
Proof. unfold resolve_push. destruct (afind i (t_cinfl s)) as [[c o]|]; reflexivity. Qed.

(* replacing thread i's entry by one with the same push count *)
Lemma tcons_with_thr s i t t' : tcons s -> nth_error (t_thr s) i = Some t ->
  expected_plog i (Some t') = expected_plog i (Some t) -> bound (Some t') = bound (Some t) ->
  tcons (with_thr s (set_nth (t_thr s) i t')).
Proof.
  intros [L B1 B2 J1 J2 J5 J6] T E1 E2. split; unfold with_thr, t_chain in *; tfields; try assumption.
  - apply (expected_after _ _ _ _ _ T J5). left. split; [reflexivity|exact E1].
  - apply (sorted_after _ _ _ _ _ T J6). left. split; [reflexivity|exact E2].
Qed.

Lemma tcons_step s i : tcons s -> tcons (fst (tstep s i)).
Proof.
  intros O. pose proof O as [L B1 B2 J1 J2 J5 J6]. unfold tstep. unfold t_chain in J1. rewrite <- ?app_assoc in J1.
  destruct (nth_error (t_thr s) i) as [[vals k [|rb|b] nb rets | n issued [| |] | n e [|] rets | n e [|] rets | n [|] rets | d]|] eqn:T;
    [..|exact O].
  - (* producer, critical section *)
    destruct (t_waiters s) as [|c w] eqn:W; [destruct (full s) eqn:F|]; cbn [fst].
    + (* blocks *)
      split; unfold t_chain in *; tfields; try assumption; try (intros ?HH; congruence); try (rewrite <- ?app_assoc; exact J1).
      * intros _. unfold full in *. tfields. exact F.
      * rewrite (map_app fst). cbn [map fst]. rewrite <- !app_assoc. apply perm_ins3. exact J1.
      * apply (expected_after s i _ _ _ T J5). right. repeat eexists.
      * apply (sorted_after s i _ _ _ T J6). right; left. do 8 eexists. split; [reflexivity|]. split; [reflexivity|].
        unfold t_chain. rewrite (map_app fst). cbn [map fst]. rewrite <- !app_assoc. reflexivity.
    + (* enqueues: nobody is blocked *)
      assert (t_blocked s = []) as EB by (destruct (t_blocked s); [reflexivity|]; exfalso; assert (false = true) by (apply B1; discriminate); discriminate).
      split; unfold t_chain in *; tfields; try assumption; try (intros ?HH; congruence); try (rewrite <- ?app_assoc; exact J1).
      * rewrite EB in *. cbn [map app] in *. rewrite <- !app_assoc. apply perm_ins2. exact J1.
      * apply (expected_after s i _ _ _ T J5). right. repeat eexists.
      * apply (sorted_after s i _ _ _ T J6). right; left. do 8 eexists. split; [reflexivity|]. split; [reflexivity|].
        unfold t_chain. rewrite EB. cbn [map]. rewrite !app_nil_r. rewrite <- !app_assoc. reflexivity.
    + (* hand-over *)
      destruct B2 as [EI EB]; [discriminate|].
      split; unfold t_chain in *; tfields; try assumption; try (intros ?HH; congruence); try (rewrite <- ?app_assoc; exact J1).
      * intros H. split; assumption.
      * rewrite EI, EB in *. cbn [map app] in *. rewrite (map_app snd). cbn [map snd]. rewrite <- !app_assoc. apply perm_ins1. exact J1.
      * rewrite iitems_app. cbn [iitems flat_map fst snd o_items app]. rewrite app_assoc. apply Permutation_app_tail. exact J2.
      * apply (expected_after s i _ _ _ T J5). right. repeat eexists.
      * apply (sorted_after s i _ _ _ T J6). right; left. do 8 eexists. split; [reflexivity|]. split; [reflexivity|].
        unfold t_chain. rewrite EI, EB. cbn [map app]. rewrite !app_nil_r. rewrite (map_app snd). reflexivity.
  - (* producer, after the unlock: resolution of the taken promise, if any *)
    cbn [fst]. pose proof (tcons_resolve_pop s i O) as O1. rewrite <- (resolve_pop_thr s i) in T.
    destruct rb; apply (tcons_with_thr _ i _ _ O1 T); reflexivity.
  - (* producer, wake *)
    cbn [fst]. apply (tcons_with_thr s i _ _ O T); reflexivity.
  - (* consumer, critical section *)
    destruct (t_items s) as [|it t] eqn:I; [|destruct (t_blocked s) as [|[y p] b] eqn:B]; cbn [fst].
    + assert (t_blocked s = []) as EB.
      { destruct (t_blocked s) eqn:B; [reflexivity|]. exfalso. assert (full s = true) as F by (apply B1; discriminate).
        unfold full in F. rewrite I in F. destruct (t_limit s); [|discriminate]. cbn in L. cbn in F. lia. }
      split; unfold t_chain in *; tfields; try assumption; try (intros ?HH; congruence); try (rewrite <- ?app_assoc; exact J1).
      * intros _. split; [reflexivity|exact EB].
      * thr_only T J5 J6.
      * apply (sorted_after s i _ _ _ T J6). left. split; [|reflexivity]. unfold t_chain. rewrite I. reflexivity.
    + assert (t_waiters s = []) as EW by (destruct (t_waiters s); [reflexivity|]; destruct B2 as [X _]; [discriminate|discriminate]).
      split; unfold t_chain in *; tfields; try assumption; try (intros ?HH; congruence); try (rewrite <- ?app_assoc; exact J1).
      * rewrite (map_app snd). cbn [map snd app] in *. rewrite <- !app_assoc. exact J1.
      * rewrite ritems_app. cbn [ritems flat_map fst snd o_items app]. rewrite <- app_assoc.
        rewrite (Permutation_app_comm [(i, it)]). rewrite app_assoc. apply Permutation_app_tail. exact J2.
      * thr_only T J5 J6.
      * apply (sorted_after s i _ _ _ T J6). left. split; [|reflexivity]. unfold t_chain. rewrite I, B.
        rewrite (map_app snd). cbn [map snd app]. rewrite <- !app_assoc. reflexivity.
    + assert (t_waiters s = []) as EW by (destruct (t_waiters s); [reflexivity|]; destruct B2 as [X _]; [discriminate|discriminate]).
      split; unfold t_chain in *; tfields; try assumption; try (intros ?HH; congruence); try (rewrite <- ?app_assoc; exact J1).
      * intros _. assert (full s = true) as F by (apply B1; discriminate). unfold full in *. tfields. rewrite I in F.
        destruct (t_limit s); [|discriminate]. rewrite (zlen_snoc_cons it y t). exact F.
      * rewrite (map_app snd). cbn [map snd fst app] in *. rewrite <- !app_assoc. cbn [app]. exact J1.
      * rewrite ritems_app. cbn [ritems flat_map fst snd o_items app]. rewrite <- app_assoc.
        rewrite (Permutation_app_comm [(i, it)]). rewrite app_assoc. apply Permutation_app_tail. exact J2.
      * thr_only T J5 J6.
      * apply (sorted_after s i _ _ _ T J6). left. split; [|reflexivity]. unfold t_chain. rewrite I, B.
        rewrite (map_app snd). cbn [map snd fst app]. rewrite <- !app_assoc. reflexivity.
  - (* consumer, resolution of the blocked push *)
    cbn [fst]. pose proof (tcons_resolve_push s i O) as O1. rewrite <- (resolve_push_thr s i) in T.
    apply (tcons_with_thr _ i _ _ O1 T); reflexivity.
  - (* consumer, wake *)
    cbn [fst]. apply (tcons_with_thr s i _ _ O T); reflexivity.
  - (* unblock_pop, critical section *)
    destruct (t_waiters s) as [|c w] eqn:W; cbn [fst].
    + split; unfold t_chain in *; tfields; try assumption; try (intros ?HH; congruence); try (rewrite <- ?app_assoc; exact J1); thr_only T J5 J6.
    + split; unfold t_chain in *; tfields; try assumption; try (intros ?HH; congruence); try (rewrite <- ?app_assoc; exact J1); try thr_only T J5 J6.
      * intros _. apply B2. discriminate.
      * rewrite iitems_app. cbn [iitems flat_map fst snd o_items app]. rewrite !app_nil_r. exact J2.
  - (* unblock_pop, resolution *)
    cbn [fst]. pose proof (tcons_resolve_pop s i O) as O1. rewrite <- (resolve_pop_thr s i) in T.
    apply (tcons_with_thr _ i _ _ O1 T); reflexivity.
  - (* unblock_push, critical section *)
    destruct (t_blocked s) as [|[y p] b] eqn:B; cbn [fst].
    + split; unfold t_chain in *; tfields; try assumption; try (intros ?HH; congruence); try (rewrite <- ?app_assoc; exact J1); thr_only T J5 J6.
    + split; unfold t_chain in *; tfields; try assumption; try (intros ?HH; congruence); try (rewrite <- ?app_assoc; exact J1); try thr_only T J5 J6.
      * intros _. apply B1. discriminate.
      * intros H. destruct (B2 H) as [_ X]. discriminate.
      * etransitivity; [exact J1|]. cbn [map fst app]. rewrite <- !app_assoc. do 2 apply Permutation_app_head. cbn [app].
        rewrite (app_assoc (map fst b) (t_wlog s)). rewrite (app_assoc (map fst b) (t_wlog s) (y :: _)).
        apply Permutation_cons_app. reflexivity.
      * apply (sorted_after s i _ _ _ T J6). right; right. exists (map snd (t_alog s) ++ t_items s), [y], (map fst b).
        split; [unfold t_chain; rewrite B; cbn [map fst app]; rewrite <- app_assoc; reflexivity|].
        split; [rewrite <- app_assoc; reflexivity|reflexivity].
  - (* unblock_push, resolution *)
    cbn [fst]. pose proof (tcons_resolve_push s i O) as O1. rewrite <- (resolve_push_thr s i) in T.
    apply (tcons_with_thr _ i _ _ O1 T); reflexivity.
  - (* size *)
    cbn [fst]. split; unfold t_chain in *; tfields; try assumption; try (rewrite <- ?app_assoc; exact J1); thr_only T J5 J6.
  - cbn [fst]. split; unfold t_chain in *; tfields; try assumption; try (rewrite <- ?app_assoc; exact J1); thr_only T J5 J6.
  - (* destroy *)
    cbn [fst]. split; unfold t_chain in *; tfields; try assumption; try (intros ?HH; congruence); try (rewrite <- ?app_assoc; exact J1); try thr_only T J5 J6.
    + etransitivity; [exact J1|]. cbn [map app]. rewrite app_nil_r. apply Permutation_app_head.
      rewrite (app_assoc (t_items s)). rewrite (app_assoc (t_wlog s)). apply Permutation_app_comm.
    + rewrite ritems_app. rewrite ritems_cancel.
      rewrite app_nil_r. exact J2.
    + apply (sorted_after s i _ _ _ T J6). right; right. exists (map snd (t_alog s)), (t_items s ++ map fst (t_blocked s)), [].
      split; [unfold t_chain; rewrite app_nil_r; reflexivity|]. split; [cbn [map]; rewrite !app_nil_r; reflexivity|reflexivity].
Qed.

(* ---------- initial states ---------- *)
Definition t_fresh (t : thr) : Prop :=
  match t with
  | TProd _ k pc _ _ => k = 0%nat /\ pc = PIdle
  | TCons _ issued pc => issued = 0%nat /\ pc = CIdle
  | TUnb _ _ pc _ => pc = UIdle
  | TUnbPush _ _ pc _ => pc = UIdle
  | TSize _ pc _ => pc = UIdle
  | TDestroy _ => True
  end.

Lemma t_decode_fresh lim ops : Forall t_fresh (flat_map (t_decode_thr lim) ops).
Proof.
  induction ops as [|l ops IH]; cbn [flat_map]; [constructor|]. apply Forall_app. split; [|exact IH].
  unfold t_decode_thr.
  repeat (match goal with |- Forall _ (match ?x with _ => _ end) => destruct x end; try (constructor; fail));
    try (constructor; [cbn; auto|constructor]).
Qed.

Lemma tcons_init limit thrs : limit_ok limit -> Forall t_fresh thrs -> tcons (t_init limit thrs).
Proof.
  intros L F. split; unfold t_chain; cbn [t_init t_items t_waiters t_blocked t_limit t_infl t_cinfl t_rlog t_pdone t_alog t_plog t_wlog t_dlog t_thr map app];
    try assumption; try reflexivity; try (intros H; congruence).
  - intros p. cbn [filter]. destruct (nth_error thrs p) as [t|] eqn:E; [|reflexivity].
    apply nth_error_In in E. rewrite Forall_forall in F. specialize (F t E).
    destruct t; cbn [expected_plog]; try reflexivity. destruct F as [-> _]. reflexivity.
  - intros p. split; cbn [filter map]; constructor.
Qed.

Lemma tcons_reachable limit thrs s : limit_ok limit -> Forall t_fresh thrs -> t_reachable limit thrs s -> tcons s.
Proof. intros L F. apply t_reachable_inv; [apply tcons_init; assumption|intros; apply tcons_step; assumption]. Qed.

(* ---------- multiplicity 1 ---------- *)
Lemma NoDup_by_producer (l : list titem) : (forall p, NoDup (filter (of_p p) l)) -> NoDup l.
Proof.
  induction l as [|x t IH]; intros H; [constructor|].
  assert (forall p, NoDup (filter (of_p p) t)) as Ht.
  { intros p. specialize (H p). cbn [filter] in H. destruct (of_p p x); [inversion H; assumption|exact H]. }
  constructor; [|apply IH; exact Ht].
  intros IN. specialize (H (it_p x)). cbn [filter] in H. unfold of_p at 1 in H. rewrite Nat.eqb_refl in H.
  inversion H as [|? ? NI _]; subst. apply NI. apply filter_In. split; [exact IN|]. unfold of_p. apply Nat.eqb_refl.
Qed.

Lemma p_items_NoDup p vals k : NoDup (p_items p vals k).
Proof.
  unfold p_items. apply FinFun.Injective_map_NoDup; [|apply seq_NoDup].
  intros a b H. injection H as H _. exact H.
Qed.

(* conservation for every schedule: what the producers have pushed so far (each producer's first k values, tagged, hence
   pairwise distinct) is, as a multiset, what the pops have received + what is in flight between a critical section and
   the resolution of the taken promise + what is queued + what blocked pushes hold + what unblock_push withdrew + what was
   destroyed with the queue; items and waiting consumers are never both present *)
Theorem tq_conservation limit thrs s : limit_ok limit -> Forall t_fresh thrs -> t_reachable limit thrs s ->
  NoDup (t_plog s) /\
  Permutation (t_plog s)
    (map snd (ritems (t_rlog s)) ++ map snd (iitems (t_infl s)) ++ t_items s ++ map fst (t_blocked s) ++ t_wlog s ++ t_dlog s) /\
  (forall p, filter (of_p p) (t_plog s) = expected_plog p (nth_error (t_thr s) p)) /\
  (t_items s = [] \/ t_waiters s = []).
Proof.
  intros L F R. destruct (tcons_reachable _ _ _ L F R) as [_ B1 B2 J1 J2 J5 _]. repeat split.
  - apply NoDup_by_producer. intros p. rewrite J5. destruct (nth_error (t_thr s) p) as [[]|]; cbn [expected_plog]; try constructor.
    apply p_items_NoDup.
  - rewrite J1. unfold t_chain. rewrite <- !app_assoc. rewrite (app_assoc (map snd (ritems (t_rlog s)))). apply Permutation_app_tail.
    rewrite <- map_app. apply Permutation_map. exact J2.
  - exact J5.
  - destruct (t_waiters s); [right; reflexivity|left]. apply B2. discriminate.
Qed.
