(* QueueConcProofs.v — the interleaving model of QueueDefs.v (producer / consumer / unblock_pop threads over queue<T> or
   limited_queue<T>, pushes and pops split at the unlock): invariants preserved by EVERY step of EVERY thread, hence true
   after every schedule, for any number of threads, any limit, any values. *)
From Cocls Require Import Base BaseProofs QueueDefs.
Require Import ZifyBool.
Local Open Scope Z_scope.

(* ---------- reachability: any schedule, any length ---------- *)
Definition t_reachable (limit : option Z) (thrs : list thr) (s : tstate) : Prop :=
  exists sched fuel tr, s = fst (t_run_sched fuel (t_init limit thrs) sched tr).

Lemma t_run_inv (P : tstate -> Prop) :
  (forall s i, P s -> P (fst (tstep s i))) ->
  forall fuel s sched tr, P s -> P (fst (t_run_sched fuel s sched tr)).
Proof.
  intros Hstep. induction fuel as [|f IH]; intros s sched tr H; cbn [t_run_sched fst]; [exact H|].
  destruct (t_pick s _) as [i|]; [|exact H].
  specialize (Hstep s i H). destruct (tstep s i) as [s1 code]. cbn [fst] in Hstep. apply IH. exact Hstep.
Qed.

Lemma t_reachable_inv (P : tstate -> Prop) limit thrs :
  P (t_init limit thrs) -> (forall s i, P s -> P (fst (tstep s i))) -> forall s, t_reachable limit thrs s -> P s.
Proof. intros H0 Hs s (sched & fuel & tr & ->). apply t_run_inv; assumption. Qed.

(* ---------- projections of the logs ---------- *)
Definition o_items (c : nat) (o : outcome) : list (nat * titem) := match o with OItem it => [(c, it)] | OExc _ => [] end.
Definition ritems (l : list (nat * outcome)) : list (nat * titem) := flat_map (fun x => o_items (fst x) (snd x)) l.
Definition iitems (l : list (nat * (nat * outcome))) : list (nat * titem) :=
  flat_map (fun x => o_items (fst (snd x)) (snd (snd x))) l.

Lemma ritems_app a b : ritems (a ++ b) = ritems a ++ ritems b.
Proof. apply flat_map_app. Qed.
Lemma iitems_app a b : iitems (a ++ b) = iitems a ++ iitems b.
Proof. apply flat_map_app. Qed.

Lemma iitems_remove i l c o : afind i l = Some (c, o) ->
  Permutation (iitems l) (o_items c o ++ iitems (aremove i l)).
Proof.
  induction l as [|[k [c' o']] t IH]; cbn [afind aremove]; [discriminate|].
  destruct (Nat.eqb i k) eqn:E.
  - intros H. injection H as -> ->. cbn [iitems flat_map fst snd]. apply Permutation_refl.
  - intros H. specialize (IH H). cbn [iitems flat_map fst snd]. fold (iitems t). fold (iitems (aremove i t)).
    rewrite IH. rewrite !app_assoc. apply Permutation_app_tail. apply Permutation_app_comm.
Qed.

(* ---------- conservation ---------- *)
Definition of_p (p : nat) (it : titem) : bool := Nat.eqb (it_p it) p.
Definition p_items (p : nat) (vals : list Z) (k : nat) : list titem := map (fun j => mkIt p j (nth j vals 0)) (seq 0 k).
Definition expected_plog (p : nat) (t : option thr) : list titem :=
  match t with Some (TProd vals k _ _ _) => p_items p vals k | _ => [] end.

Definition limit_ok (l : option Z) : Prop := match l with Some n => 1 <= n | None => True end.

Record tcons (s : tstate) : Prop := mkTcons {
  tc_limit : limit_ok (t_limit s);
  tc_full : t_blocked s <> [] -> full s = true;
  tc_wait : t_waiters s <> [] -> t_items s = [] /\ t_blocked s = [];
  tc_plog : t_plog s = map snd (t_alog s) ++ t_items s ++ map fst (t_blocked s);
  tc_perm : Permutation (t_alog s) (ritems (t_rlog s) ++ iitems (t_infl s));
  tc_prod : forall p, filter (of_p p) (t_plog s) = expected_plog p (nth_error (t_thr s) p)
}.

Lemma nth_error_set_same {A} (l : list A) i x y : nth_error l i = Some y -> nth_error (set_nth l i x) i = Some x.
Proof. intros H. apply nth_error_set_nth_same. apply nth_error_Some. congruence. Qed.

Lemma p_items_S p vals k : p_items p vals (S k) = p_items p vals k ++ [mkIt p k (nth k vals 0)].
Proof. unfold p_items. rewrite seq_S, map_app. reflexivity. Qed.

Lemma filter_snoc {A} (f : A -> bool) l x : filter f (l ++ [x]) = filter f l ++ (if f x then [x] else []).
Proof. rewrite filter_app. cbn [filter]. destruct (f x); reflexivity. Qed.

(* effect of a step on the thread table and the push log, abstractly *)
Lemma expected_after s i t t' plog' :
  nth_error (t_thr s) i = Some t ->
  (forall p, filter (of_p p) (t_plog s) = expected_plog p (nth_error (t_thr s) p)) ->
  (plog' = t_plog s /\ expected_plog i (Some t') = expected_plog i (Some t)) \/
  (exists vals k pc nb rets pc' nb' rets', t = TProd vals k pc nb rets /\ t' = TProd vals (S k) pc' nb' rets' /\
                                       plog' = t_plog s ++ [mkIt i k (nth k vals 0)]) ->
  forall p, filter (of_p p) plog' = expected_plog p (nth_error (set_nth (t_thr s) i t') p).
Proof.
  intros T H C p. destruct (Nat.eq_dec i p) as [<-|NE].
  - rewrite (nth_error_set_same _ _ _ _ T). specialize (H i). rewrite T in H.
    destruct C as [[-> E]|(vals & k & pc & nb & rets & pc' & nb' & rets' & -> & -> & ->)].
    + rewrite H. symmetry. exact E.
    + rewrite filter_snoc. unfold of_p at 2. cbn [it_p]. rewrite Nat.eqb_refl. rewrite H. cbn [expected_plog].
      rewrite p_items_S. reflexivity.
  - rewrite nth_error_set_nth_other by exact NE. specialize (H p).
    destruct C as [[-> E]|(vals & k & pc & nb & rets & pc' & nb' & rets' & -> & -> & ->)]; [exact H|].
    rewrite filter_snoc. unfold of_p at 2. cbn [it_p]. assert (Nat.eqb i p = false) as -> by (apply Nat.eqb_neq; exact NE).
    rewrite app_nil_r. exact H.
Qed.

Ltac tfields := cbn [t_items t_waiters t_blocked t_limit t_infl t_cinfl t_rlog t_pdone t_alog t_plog t_thr fst snd] in *.

Lemma zlen_snoc_cons {A} (x y : A) t : zlen (t ++ [y]) = zlen (x :: t).
Proof. unfold zlen. rewrite app_length. cbn [length]. lia. Qed.

Lemma tcons_step s i : tcons s -> tcons (fst (tstep s i)).
Proof.
  intros [L B1 B2 J1 J2 J5]. unfold tstep.
  destruct (nth_error (t_thr s) i) as [[vals k [| |b] nb rets | n issued [| |] | n e [|] rets]|] eqn:T; [..|split; assumption].
  - (* producer, critical section *)
    destruct (t_waiters s) as [|c w] eqn:W; [destruct (full s) eqn:F|]; cbn [fst].
    + (* blocks *)
      split; tfields; try assumption; try (intros ?HH; congruence).
      * intros _. unfold full in *. tfields. exact F.
      * rewrite J1, (map_app fst). cbn [map fst]. rewrite <- !app_assoc. reflexivity.
      * apply (expected_after s i _ _ _ T J5). right. repeat eexists.
    + (* enqueues: nobody is blocked *)
      assert (t_blocked s = []) as EB by (destruct (t_blocked s); [reflexivity|]; exfalso; assert (false = true) by (apply B1; discriminate); discriminate).
      split; tfields; try assumption; try (intros ?HH; congruence).
      * rewrite J1, EB. cbn [map]. rewrite !app_nil_r. rewrite app_assoc. reflexivity.
      * apply (expected_after s i _ _ _ T J5). right. repeat eexists.
    + (* hand-over *)
      destruct B2 as [EI EB]; [discriminate|].
      split; tfields; try assumption; try (intros ?HH; congruence).
      * intros H. split; assumption.
      * rewrite J1, EI, EB. cbn [map app]. rewrite !app_nil_r. rewrite map_app. reflexivity.
      * rewrite iitems_app. cbn [iitems flat_map fst snd o_items app]. rewrite app_assoc. apply Permutation_app_tail. exact J2.
      * apply (expected_after s i _ _ _ T J5). right. repeat eexists.
  - (* producer, resolution *)
    destruct (afind i (t_infl s)) as [[c o]|] eqn:AF; cbn [fst]; split; tfields; try assumption; try (intros ?HH; congruence);
      try (apply (expected_after s i _ _ _ T J5); left; split; reflexivity).
    rewrite ritems_app. cbn [ritems flat_map fst snd app]. rewrite app_nil_r. rewrite J2.
    rewrite <- app_assoc. apply Permutation_app_head. apply iitems_remove. exact AF.
  - (* producer, wake *)
    cbn [fst]; split; tfields; try assumption; try (intros ?HH; congruence). apply (expected_after s i _ _ _ T J5); left; split; reflexivity.
  - (* consumer, critical section *)
    destruct (t_items s) as [|it t] eqn:I; [|destruct (t_blocked s) as [|[y p] b] eqn:B]; cbn [fst].
    + assert (t_blocked s = []) as EB.
      { destruct (t_blocked s) eqn:B; [reflexivity|]. exfalso. assert (full s = true) as F by (apply B1; discriminate).
        unfold full in F. rewrite I in F. destruct (t_limit s); [|discriminate]. cbn in L. cbn in F. lia. }
      split; tfields; try assumption; try (intros ?HH; congruence).
      * intros _. split; [reflexivity|exact EB].
      * apply (expected_after s i _ _ _ T J5); left; split; reflexivity.
    + assert (t_waiters s = []) as EW by (destruct (t_waiters s); [reflexivity|]; destruct B2 as [X _]; [discriminate|discriminate]).
      split; tfields; try assumption; try (intros ?HH; congruence).
      * rewrite J1. cbn [map]. rewrite map_app. cbn [map snd app]. rewrite <- app_assoc. reflexivity.
      * rewrite ritems_app. cbn [ritems flat_map fst snd o_items app]. rewrite <- app_assoc.
        rewrite (Permutation_app_comm [(i, it)]). rewrite app_assoc. apply Permutation_app_tail. exact J2.
      * apply (expected_after s i _ _ _ T J5); left; split; reflexivity.
    + assert (t_waiters s = []) as EW by (destruct (t_waiters s); [reflexivity|]; destruct B2 as [X _]; [discriminate|discriminate]).
      split; tfields; try assumption; try (intros ?HH; congruence).
      * intros _. assert (full s = true) as F by (apply B1; discriminate). unfold full in *. tfields. rewrite I in F.
        destruct (t_limit s); [|discriminate]. rewrite (zlen_snoc_cons it y t). exact F.
      * rewrite J1. cbn [map fst snd]. rewrite map_app. cbn [map snd app]. rewrite <- !app_assoc. reflexivity.
      * rewrite ritems_app. cbn [ritems flat_map fst snd o_items app]. rewrite <- app_assoc.
        rewrite (Permutation_app_comm [(i, it)]). rewrite app_assoc. apply Permutation_app_tail. exact J2.
      * apply (expected_after s i _ _ _ T J5); left; split; reflexivity.
  - (* consumer, resolution of the blocked push *)
    destruct (afind i (t_cinfl s)); cbn [fst]; split; tfields; try assumption; try (intros ?HH; congruence);
      apply (expected_after s i _ _ _ T J5); left; split; reflexivity.
  - (* consumer, wake *)
    cbn [fst]; split; tfields; try assumption; try (intros ?HH; congruence). apply (expected_after s i _ _ _ T J5); left; split; reflexivity.
  - (* unblock_pop, critical section *)
    destruct (t_waiters s) as [|c w] eqn:W; cbn [fst]; split; tfields; try assumption; try (intros ?HH; congruence);
      try (apply (expected_after s i _ _ _ T J5); left; split; reflexivity).
    + intros _. apply B2. discriminate.
    + rewrite iitems_app. cbn [iitems flat_map fst snd o_items app]. rewrite !app_nil_r. exact J2.
  - (* unblock_pop, resolution *)
    destruct (afind i (t_infl s)) as [[c o]|] eqn:AF; cbn [fst]; split; tfields; try assumption; try (intros ?HH; congruence);
      try (apply (expected_after s i _ _ _ T J5); left; split; reflexivity).
    rewrite ritems_app. cbn [ritems flat_map fst snd app]. rewrite app_nil_r. rewrite J2.
    rewrite <- app_assoc. apply Permutation_app_head. apply iitems_remove. exact AF.
Qed.

(* ---------- initial states ---------- *)
Definition t_fresh (t : thr) : Prop :=
  match t with
  | TProd _ k pc _ _ => k = 0%nat /\ pc = PIdle
  | TCons _ issued pc => issued = 0%nat /\ pc = CIdle
  | TUnb _ _ pc _ => pc = UIdle
  end.

Lemma t_decode_fresh ops : Forall t_fresh (flat_map t_decode_thr ops).
Proof.
  induction ops as [|l ops IH]; cbn [flat_map]; [constructor|]. apply Forall_app. split; [|exact IH].
  unfold t_decode_thr.
  repeat (match goal with |- Forall _ (match ?x with _ => _ end) => destruct x end; try (constructor; fail));
    try (constructor; [cbn; auto|constructor]).
Qed.

Lemma tcons_init limit thrs : limit_ok limit -> Forall t_fresh thrs -> tcons (t_init limit thrs).
Proof.
  intros L F. split; cbn [t_init t_items t_waiters t_blocked t_limit t_infl t_cinfl t_rlog t_pdone t_alog t_plog t_thr];
    try assumption; try reflexivity; try (intros H; congruence).
  intros p. cbn [filter]. destruct (nth_error thrs p) as [t|] eqn:E; [|reflexivity].
    apply nth_error_In in E. rewrite Forall_forall in F. specialize (F t E).
    destruct t; cbn [expected_plog]; try reflexivity. destruct F as [-> _]. reflexivity.
Qed.

Lemma tcons_reachable limit thrs s : limit_ok limit -> Forall t_fresh thrs -> t_reachable limit thrs s -> tcons s.
Proof. intros L F. apply t_reachable_inv; [apply tcons_init; assumption|intros; apply tcons_step; assumption]. Qed.

(* ---------- multiplicity 1 ---------- *)
Lemma NoDup_by_producer (l : list titem) : (forall p, NoDup (filter (of_p p) l)) -> NoDup l.
Proof.
  induction l as [|x t IH]; intros H; [constructor|].
  assert (forall p, NoDup (filter (of_p p) t)) as Ht.
  { intros p. specialize (H p). cbn [filter] in H. destruct (of_p p x); [inversion H; assumption|exact H]. }
  constructor; [|apply IH; exact Ht].
  intros IN. specialize (H (it_p x)). cbn [filter] in H. unfold of_p at 1 in H. rewrite Nat.eqb_refl in H.
  inversion H as [|? ? NI _]; subst. apply NI. apply filter_In. split; [exact IN|]. unfold of_p. apply Nat.eqb_refl.
Qed.

Lemma p_items_NoDup p vals k : NoDup (p_items p vals k).
Proof.
  unfold p_items. apply FinFun.Injective_map_NoDup; [|apply seq_NoDup].
  intros a b H. injection H as H _. exact H.
Qed.

(* conservation for every schedule: what the producers have pushed so far (each producer's first k values, tagged) is,
   as a multiset with every element exactly once, what the pops have received + what is in flight between a critical
   section and the resolution of the taken promise + what is queued + what blocked pushes hold *)
Theorem tq_conservation limit thrs s : limit_ok limit -> Forall t_fresh thrs -> t_reachable limit thrs s ->
  NoDup (t_plog s) /\
  Permutation (t_plog s)
    (map snd (ritems (t_rlog s)) ++ map snd (iitems (t_infl s)) ++ t_items s ++ map fst (t_blocked s)) /\
  (forall p, filter (of_p p) (t_plog s) = expected_plog p (nth_error (t_thr s) p)) /\
  (t_items s = [] \/ t_waiters s = []).
Proof.
  intros L F R. destruct (tcons_reachable _ _ _ L F R) as [_ B1 B2 J1 J2 J5]. repeat split.
  - apply NoDup_by_producer. intros p. rewrite J5. destruct (nth_error (t_thr s) p) as [[]|]; cbn [expected_plog]; try constructor.
    apply p_items_NoDup.
  - rewrite J1. rewrite (app_assoc (map snd (ritems (t_rlog s)))). apply Permutation_app_tail.
    rewrite <- map_app. apply Permutation_map. exact J2.
  - exact J5.
  - destruct (t_waiters s); [right; reflexivity|left]. apply B2. discriminate.
Qed.
