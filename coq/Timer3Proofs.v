(* Timer3Proofs.v — soundness of the C12 trace oracle: the model's own trace always satisfies `timer_oracle`
   (so an oracle failure on the implementation's trace is never an artefact of the oracle being stricter than the
   proved behaviour).  Built on Timer2Proofs.v. *)
From Cocls Require Import Base BaseProofs TimerDefs TimerProofs Timer2Proofs.
Require Import ZifyBool ZifyNat.
Local Open Scope Z_scope.
Ltac Zify.zify_post_hook ::= Z.div_mod_to_equations.

(* ================================================================= *)
(* 1. futures: get / nth, the change list                            *)
(* ================================================================= *)

Lemma get_nth {A} (l : list (option A)) i : get l i = nth i l None.
Proof.
  unfold get. revert i. induction l as [|x l IH]; intros [|i]; cbn [nth_error nth]; try reflexivity.
  - destruct x; reflexivity.
  - apply IH.
Qed.

Lemma diff_same b : forall i, diff_from i b b = [].
Proof.
  induction b as [|y b IH]; intros i; cbn [diff_from hd tl]; [reflexivity|].
  rewrite Z.eqb_refl. cbn [app]. apply IH.
Qed.

(* one slot written: at most that slot is listed *)
Lemma diff_put v pid : forall a i,
  diff_from i a (put a pid v) =
  if scode (nth pid a None) =? scode v then [] else [Z.of_nat (i + pid); scode v].
Proof.
  unfold put. induction pid as [|j IH]; intros a i.
  - destruct a as [|h t]; cbn [ensure set_nth diff_from hd tl nth].
    + rewrite app_nil_r. replace (i + 0)%nat with i by lia. reflexivity.
    + rewrite diff_same, app_nil_r. replace (i + 0)%nat with i by lia. reflexivity.
  - destruct a as [|h t]; cbn [ensure set_nth diff_from hd tl nth].
    + rewrite Z.eqb_refl. cbn [app]. rewrite (IH [] (S i)).
      assert (nth j [] None = @None fstat) as N by (destruct j; reflexivity). rewrite N.
      replace (S i + j)%nat with (i + S j)%nat by lia. reflexivity.
    + rewrite Z.eqb_refl. cbn [app]. rewrite IH. replace (S i + j)%nat with (i + S j)%nat by lia. reflexivity.
Qed.

(* positions whose status code changed *)
Fixpoint chpos (i : nat) (a b : list (option fstat)) : list nat :=
  match b with
  | [] => []
  | y :: b' => (if scode (hd None a) =? scode y then [] else [i]) ++ chpos (S i) (tl a) b'
  end.

Lemma nth_tl {A} (a : list A) k d : nth k (tl a) d = nth (S k) a d.
Proof. destruct a; [destruct k; reflexivity|reflexivity]. Qed.

Lemma hd_nth {A} (a : list A) d : hd d a = nth 0 a d.
Proof. destruct a; reflexivity. Qed.

Lemma chpos_In b : forall a i j,
  In j (chpos i a b) <-> (i <= j < i + length b)%nat /\ scode (nth (j - i) a None) <> scode (nth (j - i) b None).
Proof.
  induction b as [|y b IH]; intros a i j; cbn [chpos length].
  - split; [intros []|intros [H _]; lia].
  - rewrite in_app_iff, IH. split.
    + intros [H|(H1 & H2)].
      * destruct (scode (hd None a) =? scode y) eqn:E; [destruct H|]. destruct H as [<-|[]].
        replace (i - i)%nat with 0%nat by lia. cbn [nth]. rewrite <- hd_nth. split; [lia|lia].
      * split; [lia|]. rewrite nth_tl in H2. replace (j - i)%nat with (S (j - S i)) by lia. cbn [nth]. exact H2.
    + intros (H1 & H2). destruct (Nat.eq_dec j i) as [->|N].
      * left. replace (i - i)%nat with 0%nat in H2 by lia. cbn [nth] in H2. rewrite <- hd_nth in H2.
        destruct (scode (hd None a) =? scode y) eqn:E; [lia|left; reflexivity].
      * right. split; [lia|]. rewrite nth_tl. replace (j - i)%nat with (S (j - S i)) in H2 by lia. cbn [nth] in H2. exact H2.
Qed.

Lemma chpos_NoDup b : forall a i, NoDup (chpos i a b).
Proof.
  induction b as [|y b IH]; intros a i; cbn [chpos]; [constructor|].
  destruct (scode (hd None a) =? scode y); cbn [app]; [apply IH|].
  constructor; [|apply IH]. intros H. apply chpos_In in H. lia.
Qed.

(* if every changed slot now has code c, the oracle's reading of the change list is the list of changed slots *)
Lemma chg_pids_diff c b : forall a i,
  (forall j, In j (chpos i a b) -> scode (nth (j - i) b None) = c) ->
  chg_pids (diff_from i a b) c = Some (map Z.of_nat (chpos i a b)).
Proof.
  induction b as [|y b IH]; intros a i H; cbn [diff_from chpos]; [reflexivity|].
  assert (chg_pids (diff_from (S i) (tl a) b) c = Some (map Z.of_nat (chpos (S i) (tl a) b))) as R.
  { apply IH. intros j IJ. specialize (H j). cbn [chpos] in H.
    assert (i < j)%nat by (apply chpos_In in IJ; lia).
    replace (j - i)%nat with (S (j - S i)) in H by lia. cbn [nth] in H. apply H. apply in_or_app. right. exact IJ. }
  destruct (scode (hd None a) =? scode y) eqn:E; cbn [app]; [exact R|].
  cbn [chg_pids map]. specialize (H i). cbn [chpos] in H. rewrite E in H.
  replace (i - i)%nat with 0%nat in H by lia. cbn [nth] in H.
  rewrite (H (or_introl eq_refl)). rewrite Z.eqb_refl. rewrite R. reflexivity.
Qed.

Lemma diff_even b : forall a i, exists k, length (diff_from i a b) = (2 * k)%nat.
Proof.
  induction b as [|y b IH]; intros a i; cbn [diff_from]; [exists 0%nat; reflexivity|].
  destruct (IH (tl a) (S i)) as [k K]. rewrite app_length, K.
  destruct (scode (hd None a) =? scode y); cbn [length]; [exists k|exists (S k)]; lia.
Qed.

(* ================================================================= *)
(* 2. the array dump                                                 *)
(* ================================================================= *)

Definition trip_of (e : entry) : trip :=
  (e_tp e, match e_p e with Some p => Z.of_nat p | None => -1 end, e_id e).

Lemma layout_length l : length (layout l) = (3 * length l)%nat.
Proof. unfold layout. induction l as [|e l IH]; cbn [flat_map length app]; [reflexivity|]. rewrite IH. lia. Qed.

Lemma triples_layout l : triples (layout l) = Some (map trip_of l).
Proof.
  unfold layout. induction l as [|e l IH]; cbn [flat_map app triples map]; [reflexivity|].
  rewrite IH. reflexivity.
Qed.

Lemma filter_live_trips l : filter (fun t => 0 <=? t_pid t) (map trip_of l) = map trip_of (pending l).
Proof.
  induction l as [|e l IH]; [reflexivity|].
  cbn [map filter]. unfold pending in *. cbn [filter]. rewrite IH.
  unfold t_pid, trip_of at 1. cbn [fst snd]. destruct (e_p e) as [p|]; cbn [isnone negb map].
  - destruct (0 <=? Z.of_nat p) eqn:E; [reflexivity|lia].
  - reflexivity.
Qed.

Lemma trip_eqb_eq a b : trip_eqb a b = true <-> a = b.
Proof.
  destruct a as [[a1 a2] a3], b as [[b1 b2] b3]. unfold trip_eqb, t_tp, t_pid, t_id. cbn [fst snd].
  split; intros H.
  - f_equal; [f_equal|]; lia.
  - inversion H; subst. lia.
Qed.

Lemma take_trip_In x l : In x l -> exists l', take_trip x l = Some l' /\ Permutation l (x :: l').
Proof.
  induction l as [|t r IH]; intros I; [destruct I|]. cbn [take_trip].
  destruct (trip_eqb x t) eqn:E.
  - apply trip_eqb_eq in E. subst t. exists r. auto.
  - destruct I as [->|I]; [rewrite (proj2 (trip_eqb_eq x x) eq_refl) in E; discriminate|].
    destruct (IH I) as (r' & E' & P). rewrite E'. exists (t :: r'). split; [reflexivity|].
    rewrite P. apply perm_swap.
Qed.

Lemma perm_trips_complete a : forall b, Permutation a b -> perm_trips a b = true.
Proof.
  induction a as [|x t IH]; intros b P; cbn [perm_trips].
  - apply Permutation_nil in P. subst b. reflexivity.
  - assert (In x b) as I by (apply (Permutation_in _ P); left; reflexivity).
    destruct (take_trip_In x b I) as (b' & E & P'). rewrite E. apply IH.
    apply (Permutation_cons_inv (a := x)). rewrite P. exact P'.
Qed.

Lemma heap_b_from_ok all : forall rest i,
  (forall k, (k < length rest)%nat -> (0 < i + k)%nat -> nth (parent (i + k)) all 0 <= nth k rest 0) ->
  heap_b_from i all rest = true.
Proof.
  induction rest as [|x r IH]; intros i H; cbn [heap_b_from]; [reflexivity|].
  apply andb_true_iff. split.
  - destruct (Nat.eq_dec i 0) as [->|N]; [reflexivity|].
    apply orb_true_iff. right. specialize (H 0%nat). cbn [length nth] in H.
    replace (i + 0)%nat with i in H by lia. apply Z.leb_le. apply H; lia.
  - apply IH. intros k K P. specialize (H (S k)). cbn [length nth] in H.
    replace (i + S k)%nat with (S i + k)%nat in H by lia. apply H; lia.
Qed.

Lemma layout_ok_sound l pend : heap_ok l -> Permutation (map trip_of (pending l)) pend ->
  layout_ok (layout l) pend = true.
Proof.
  intros H P. unfold layout_ok. rewrite triples_layout, filter_live_trips.
  rewrite (perm_trips_complete _ _ P). cbn [andb].
  assert (map t_tp (map trip_of l) = map e_tp l) as M.
  { rewrite map_map. apply map_ext. intros e. reflexivity. }
  rewrite M. apply heap_b_from_ok. intros k K P0. cbn [Nat.add] in *.
  rewrite map_length in K.
  change 0 with (e_tp dflt). rewrite !map_nth. apply (H k). lia.
Qed.

(* ================================================================= *)
(* 3. encoding / parsing of one observation                          *)
(* ================================================================= *)

Lemma firstn_app_exact {A} (a b : list A) : firstn (length a) (a ++ b) = a.
Proof. induction a; cbn [length firstn app]; [destruct b; reflexivity|f_equal; assumption]. Qed.

Lemma skipn_app_exact {A} (a b : list A) : skipn (length a) (a ++ b) = b.
Proof. induction a; cbn [length skipn app]; [reflexivity|assumption]. Qed.

Lemma parse_encode o chg lay k n : o_st o <> -999 ->
  length chg = (2 * k)%nat -> length lay = (3 * n)%nat ->
  parse_obs (encode_obs (mkObs o chg lay)) = Some (mkP (o_st o) (o_r1 o) (o_r2 o) chg lay).
Proof.
  intros NE LC LL. unfold encode_obs. cbn [ob_out ob_chg ob_lay].
  destruct (o_st o =? -999) eqn:E; [lia|]. unfold parse_obs.
  assert ((2 * Z.to_nat (Z.of_nat (length chg / 2)))%nat = length chg) as Q.
  { rewrite Nat2Z.id, LC. replace (2 * k / 2)%nat with k; [reflexivity|].
    symmetry. rewrite Nat.mul_comm. apply Nat.div_mul. lia. }
  rewrite Q. rewrite skipn_app_exact, firstn_app_exact.
  assert ((3 * Z.to_nat (Z.of_nat (length lay / 3)))%nat = length lay) as Q3.
  { rewrite Nat2Z.id, LL. replace (3 * n / 3)%nat with n; [reflexivity|].
    symmetry. rewrite Nat.mul_comm. apply Nat.div_mul. lia. }
  rewrite Q3. rewrite !Nat.eqb_refl.
  destruct (0 <=? Z.of_nat (length chg / 2)) eqn:E1; [|lia].
  destruct (0 <=? Z.of_nat (length lay / 3)) eqn:E2; [|lia].
  reflexivity.
Qed.

Lemma parse_rejected s s1 : parse_obs (encode_obs (mk_obs s s1 rejected)) = Some (mkP 1 0 0 [] []).
Proof. reflexivity. Qed.

(* ================================================================= *)
(* 4. model state  ~  oracle state                                   *)
(* ================================================================= *)

Record rel (s : st) (a : ost) : Prop := mkRel {
  r_alive : os_alive a = alive s;
  r_pend : Permutation (map trip_of (pending (sched s))) (os_pend a);
  r_used : forall pid, memz (Z.of_nat pid) (os_used a) = true <-> get (futs s) pid <> None }.

Lemma rel0 : rel st0 ost0.
Proof.
  split; cbn; auto. intros pid. split; [discriminate|]. intros H. exfalso. apply H. unfold get. destruct pid; reflexivity.
Qed.

Lemma trip_live t p : e_p t = Some p -> trip_of t = (e_tp t, Z.of_nat p, e_id t).
Proof. intros E. unfold trip_of. rewrite E. reflexivity. Qed.

Lemma pids_of_trips l : map t_pid (map trip_of (pending l)) = map Z.of_nat (ppids l).
Proof.
  induction l as [|e l IH]; [reflexivity|].
  destruct (live e) eqn:L.
  - rewrite pending_cons_live by exact L. cbn [map]. rewrite IH, ppids_cons, map_app.
    destruct (proj1 (live_some e) L) as [p EP]. unfold pid_of, trip_of, t_pid. rewrite EP. reflexivity.
  - rewrite pending_cons_dead by exact L. rewrite IH, ppids_cons.
    unfold live in L. unfold pid_of. destruct (e_p e); [discriminate|reflexivity].
Qed.

Lemma rel_nodup s a : inv s -> rel s a -> NoDup (map t_pid (os_pend a)).
Proof.
  intros I R. eapply Permutation_NoDup; [apply Permutation_map; apply (r_pend s a R)|].
  rewrite pids_of_trips. apply FinFun.Injective_map_NoDup; [intros x y; apply Nat2Z.inj|apply (inv_nodup s I)].
Qed.

Lemma take_pid_first L : forall x, NoDup (map t_pid L) -> In x L ->
  exists rest, take_pid (t_pid x) L = Some (x, rest) /\ Permutation L (x :: rest).
Proof.
  induction L as [|t r IH]; intros x ND I; [destruct I|]. cbn [take_pid].
  cbn [map] in ND. inversion ND as [|? ? NI ND']; subst.
  destruct (t_pid t =? t_pid x) eqn:E.
  - destruct I as [->|I]; [exists r; auto|].
    exfalso. apply NI. apply Z.eqb_eq in E. rewrite E. apply in_map. exact I.
  - destruct I as [->|I]; [rewrite Z.eqb_refl in E; discriminate|].
    destruct (IH x ND' I) as (rest & E' & P). rewrite E'. exists (t :: rest). split; [reflexivity|].
    rewrite P. apply perm_swap.
Qed.

Lemma in_pend s a x : rel s a -> In x (os_pend a) -> exists u, In u (pending (sched s)) /\ x = trip_of u.
Proof.
  intros R I. apply (Permutation_in _ (Permutation_sym (r_pend s a R))) in I.
  apply in_map_iff in I. destruct I as (u & E & I). eauto.
Qed.

Lemma trip_tp u : t_tp (trip_of u) = e_tp u. Proof. reflexivity. Qed.
Lemma trip_id u : t_id (trip_of u) = e_id u. Proof. reflexivity. Qed.

Lemma parse_ok s s' o : o_st o = 0 ->
  parse_obs (encode_obs (mk_obs s s' o)) =
  Some (mkP 0 (o_r1 o) (o_r2 o) (diff_from 0 (futs s) (futs s')) (layout (sched s'))).
Proof.
  intros E. unfold mk_obs. rewrite E. cbn [Z.eqb].
  destruct (diff_even (futs s') (futs s) 0) as [k K].
  rewrite (parse_encode o _ _ k (length (sched s'))); [rewrite E; reflexivity|lia|exact K|apply layout_length].
Qed.

(* exactly one future, the one of the pending entry t, was completed *)
Lemma one_completed_ok s a s' t h p r1 r2 okf :
  inv s -> rel s a -> e_p t = Some p -> In t (pending (sched s)) ->
  Permutation (pending (sched s)) (t :: pending (sched s')) -> heap_ok (sched s') ->
  futs s' = put (futs s) p (Some (stat_of h)) -> scode (Some (stat_of h)) <> 0 -> okf (trip_of t) = true ->
  exists rest,
    one_completed (mkP 0 r1 r2 (diff_from 0 (futs s) (futs s')) (layout (sched s'))) a (scode (Some (stat_of h))) okf
      = Some (mkOst rest (os_used a) true) /\
    Permutation (map trip_of (pending (sched s'))) rest /\
    (forall pid, memz (Z.of_nat pid) (os_used a) = true <-> get (futs s') pid <> None).
Proof.
  intros I R EP IT P H' FE NZ OK.
  assert (get (futs s) p = Some FPending) as GP.
  { apply (inv_pend s I). rewrite <- ppids_pending. apply In_ppids. eauto. }
  unfold one_completed. cbn [p_chg p_lay].
  rewrite FE, diff_put. rewrite <- get_nth, GP. change (scode (Some FPending)) with 0.
  destruct (0 =? scode (Some (stat_of h))) eqn:E0; [lia|]. cbn [Nat.add].
  assert (In (trip_of t) (os_pend a)) as IA.
  { apply (Permutation_in _ (r_pend s a R)). apply in_map. exact IT. }
  destruct (take_pid_first (os_pend a) (trip_of t) (rel_nodup s a I R) IA) as (rest & ET & PR).
  assert (t_pid (trip_of t) = Z.of_nat p) as TP by (rewrite (trip_live t p EP); reflexivity).
  rewrite TP in ET. rewrite ET. rewrite Z.eqb_refl, OK. cbn [andb].
  assert (Permutation (map trip_of (pending (sched s'))) rest) as PP.
  { apply (Permutation_cons_inv (a := trip_of t)).
    rewrite <- PR. rewrite <- (r_pend s a R). change (trip_of t :: map trip_of (pending (sched s'))) with (map trip_of (t :: pending (sched s'))).
    apply Permutation_map. symmetry. exact P. }
  rewrite (layout_ok_sound _ _ H' PP).
  exists rest. split; [reflexivity|]. split; [exact PP|].
  intros pid. rewrite (r_used s a R). destruct (Nat.eq_dec pid p) as [->|N].
  - rewrite get_put_same, GP. split; discriminate.
  - rewrite get_put_other by congruence. reflexivity.
Qed.

Lemma nothing_completed_ok s a s' r1 r2 :
  rel s a -> heap_ok (sched s') -> Permutation (pending (sched s)) (pending (sched s')) -> futs s' = futs s ->
  nothing_completed (mkP 0 r1 r2 (diff_from 0 (futs s) (futs s')) (layout (sched s'))) a = Some a /\
  Permutation (map trip_of (pending (sched s'))) (os_pend a).
Proof.
  intros R H' P FE.
  assert (Permutation (map trip_of (pending (sched s'))) (os_pend a)) as PP.
  { rewrite <- (r_pend s a R). apply Permutation_map. symmetry. exact P. }
  split; [|exact PP].
  unfold nothing_completed. cbn [p_chg p_lay]. rewrite FE, diff_same. cbn [is_empty andb].
  rewrite (layout_ok_sound _ _ H' PP). reflexivity.
Qed.

Definition wf_op (x : op) : Prop := match x with OCancelE _ c => 0 <= c | _ => True end.

Lemma decode_wf l : wf_op (decode l).
Proof.
  unfold decode.
  repeat match goal with
         | |- wf_op (if ?b then _ else _) => destruct b eqn:?
         | |- wf_op (match ?x with _ => _ end) => destruct x
         end; cbn [wf_op]; auto; lia.
Qed.

Lemma step_alive s x s' o : step s x = Ok (s', o) -> alive s = true -> x <> ODestroy -> alive s' = true.
Proof.
  intros E A N. unfold step in E. rewrite A in E. cbn [negb] in E.
  assert (forall id h, do_remove s id h = Ok (s', o) -> alive s' = true) as RM.
  { intros id h Q. unfold do_remove in Q. destruct (remove (sched s) id) as [[l r]| |]; cbn [rbind snd fst] in Q; try discriminate.
    destruct r; inversion Q; reflexivity. }
  destruct x; try (eapply RM; eassumption).
  1,2: destruct (get (futs s) pid); inversion E; subst; auto.
  - destruct (get_expired (sched s) now) as [[l r]| |]; cbn [rbind snd fst] in E; try discriminate.
    destruct r; inversion E; reflexivity.
  - congruence.
  - inversion E; subst. exact A.
Qed.

Lemma all_ge_ok s a tp : rel s a -> (forall u, In u (pending (sched s)) -> tp <= e_tp u) -> all_ge tp (os_pend a) = true.
Proof.
  intros R H. unfold all_ge. apply forallb_forall. intros x I.
  destruct (in_pend s a x R I) as (u & IU & ->). rewrite trip_tp. apply Z.leb_le. apply H. exact IU.
Qed.

Lemma has_id_false s a id : rel s a -> (forall u, In u (pending (sched s)) -> e_id u <> id) -> has_id id (os_pend a) = false.
Proof.
  intros R H. unfold has_id. destruct (existsb (fun t => t_id t =? id) (os_pend a)) eqn:E; [|reflexivity].
  apply existsb_exists in E. destruct E as (x & I & Q). destruct (in_pend s a x R I) as (u & IU & ->).
  rewrite trip_id in Q. exfalso. apply (H u IU). lia.
Qed.

(* remove / cancel: the oracle accepts what the model does *)
Lemma oracle_remove_ok s a id h s' o :
  inv s -> rel s a -> alive s = true -> scode (Some (stat_of h)) <> 0 ->
  do_remove s id h = Ok (s', o) ->
  exists p a', parse_obs (encode_obs (mk_obs s s' o)) = Some p /\
               oracle_remove p a id (scode (Some (stat_of h))) = Some a' /\ rel s' a'.
Proof.
  intros I R A NZ E.
  destruct (do_remove_ok s id h I A) as (s2 & o2 & E2 & I2 & A2 & SP & FE).
  rewrite E in E2. inversion E2; subst s2 o2. clear E2.
  destruct SP as [(t & -> & IT & EI & P)|(-> & NO & P)]; cbn [o_evs fold_left] in FE.
  - assert (live t = true) as LT by (apply pending_In in IT; apply IT).
    destruct (proj1 (live_some t) LT) as [p EP]. rewrite (complete_live _ _ _ _ EP) in FE.
    destruct (one_completed_ok s a s' t h p 1 0 (fun t0 => t_id t0 =? id) I R EP IT P (inv_heap s' I2) FE NZ)
      as (rest & OC & PP & US).
    { rewrite trip_id. lia. }
    eexists _, (mkOst rest (os_used a) true). split; [apply parse_ok; reflexivity|]. cbn [o_r1 o_r2].
    unfold oracle_remove. cbn [p_st p_r1 p_r2 Z.eqb].
    rewrite OC. split; [reflexivity|]. split; cbn [os_alive os_pend os_used]; auto.
  - assert (futs s' = futs s) as FE' by exact FE.
    eexists _, _. split; [apply parse_ok; reflexivity|]. cbn [o_r1 o_r2].
    unfold oracle_remove. cbn [p_st p_r1 p_r2 Z.eqb].
    rewrite (has_id_false s a id R NO). cbn [negb andb].
    destruct (nothing_completed_ok s a s' 0 0 R (inv_heap s' I2) P FE') as (NC & PP).
    rewrite NC. split; [reflexivity|]. split; [rewrite (r_alive s a R); congruence|exact PP|].
    intros pid. rewrite FE'. apply (r_used s a R).
Qed.

(* one call: whatever the model answers, the oracle accepts it and the two states stay related *)
Lemma oracle_step_ok s a x s' o : inv s -> rel s a -> wf_op x -> step s x = Ok (s', o) ->
  exists p a', parse_obs (encode_obs (mk_obs s s' o)) = Some p /\ oracle_step a x p = Some a' /\ rel s' a'.
Proof.
  intros I R WF E.
  unfold oracle_step. rewrite (r_alive s a R).
  destruct (alive s) eqn:A; cbn [negb].
  2:{ unfold step in E. rewrite A in E. cbn [negb] in E. inversion E; subst.
      eexists _, a. split; [apply parse_rejected|]. split; [reflexivity|exact R]. }
  assert (inv s') as I'.
  { destruct (step_ok s x I) as (s2 & o2 & E2 & I2 & _). rewrite E in E2. inversion E2; subst. exact I2. }
  assert (forall pid id tp, step s (OSchedule pid id tp) = Ok (s', o) ->
    exists p a', parse_obs (encode_obs (mk_obs s s' o)) = Some p /\
      (if memz (Z.of_nat pid) (os_used a) then (if is_rejected p then Some a else None)
       else let pend := (tp, Z.of_nat pid, id) :: os_pend a in
            if (p_st p =? 0) && (p_r1 p =? 0) && (p_r2 p =? 0) && is_empty (p_chg p) && layout_ok (p_lay p) pend
            then Some (mkOst pend (Z.of_nat pid :: os_used a) true) else None) = Some a' /\ rel s' a') as SCH.
  { intros pid id tp Q. unfold step in Q. rewrite A in Q. cbn [negb] in Q.
    destruct (get (futs s) pid) as [v|] eqn:G.
    - inversion Q; subst. assert (memz (Z.of_nat pid) (os_used a) = true) as M by (apply (r_used s' a R); congruence).
      rewrite M. eexists _, a. split; [apply parse_rejected|]. split; [reflexivity|exact R].
    - inversion Q; subst. clear Q.
      assert (memz (Z.of_nat pid) (os_used a) = false) as M.
      { destruct (memz (Z.of_nat pid) (os_used a)) eqn:M; [|reflexivity]. apply (r_used s a R) in M. congruence. }
      rewrite M. eexists _, _. split; [apply parse_ok; reflexivity|]. cbn [o_r1 o_r2 futs sched p_st p_r1 p_r2 p_chg p_lay Z.eqb andb].
      rewrite diff_put. rewrite <- get_nth, G. cbn [scode Z.eqb is_empty andb].
      set (e := mkE tp (Some pid) id).
      destruct (heap_push_ok (sched s) e (inv_heap s I)) as (H1 & P1 & _).
      assert (Permutation (map trip_of (pending (fst (schedule (sched s) e)))) ((tp, Z.of_nat pid, id) :: os_pend a)) as PP.
      { cbn [schedule fst]. rewrite (pending_perm _ _ P1). rewrite (pending_cons_live e) by reflexivity.
        cbn [map]. apply perm_skip. apply (r_pend s a R). }
      rewrite (layout_ok_sound _ _ H1 PP). cbn [schedule fst] in *.
      split; [reflexivity|]. split; cbn [os_alive os_pend os_used alive sched futs]; auto.
      intros q. cbn [memz]. destruct (Nat.eq_dec q pid) as [->|N].
      + rewrite Z.eqb_refl, get_put_same. cbn [orb]. split; [discriminate|reflexivity].
      + rewrite get_put_other by congruence. destruct (Z.of_nat q =? Z.of_nat pid) eqn:Q; [lia|]. cbn [orb]. apply (r_used s a R). }
  destruct x as [pid id tp|pid id tp|now|id|id|id c| |]; cbn [wf_op] in WF.
  - apply SCH. exact E.
  - apply SCH. exact E.
  - (* get_expired *)
    destruct (step_ok s (OExpired now) I) as (s2 & o2 & E2 & _ & FE & SP & _).
    rewrite E in E2. inversion E2; subst s2 o2. clear E2. specialize (SP A). cbn [spec_step futs_effect] in SP, FE.
    assert (alive s' = true) as A' by (eapply step_alive; eauto; discriminate).
    destruct SP as [(t & -> & IT & DUE & MIN & P)|[(tp & -> & FUT & (t & IT & ET) & MIN & P)|(-> & E0 & E1)]];
      cbn [o_evs fold_left] in FE.
    + assert (live t = true) as LT by (apply pending_In in IT; apply IT).
      destruct (proj1 (live_some t) LT) as [p EP]. rewrite (complete_live _ _ _ _ EP) in FE.
      destruct (one_completed_ok s a s' t (ByExpiry now) p 1 0
                  (fun t0 => (t_tp t0 <=? now) && all_ge (t_tp t0) (os_pend a)) I R EP IT P (inv_heap s' I') FE)
        as (rest & OC & PP & US).
      { cbn. discriminate. }
      { rewrite trip_tp. rewrite (all_ge_ok s a (e_tp t) R MIN). cbn [andb]. lia. }
      eexists _, (mkOst rest (os_used a) true). split; [apply parse_ok; reflexivity|]. cbn [o_r1 o_r2 p_st p_r1 p_r2 Z.eqb].
      cbn [stat_of scode] in OC. rewrite OC. split; [reflexivity|]. split; cbn [os_alive os_pend os_used]; auto.
    + eexists _, _. split; [apply parse_ok; reflexivity|]. cbn [o_r1 o_r2 p_st p_r1 p_r2 Z.eqb].
      assert (tp =? 1 = false \/ tp =? 1 = true) as [T1|T1] by (destruct (tp =? 1); auto).
      * (* the reported time point is not the literal 1: first branch p_r1 =? 1 is on r1 = 0 anyway *)
        destruct (nothing_completed_ok s a s' 0 tp R (inv_heap s' I') P FE) as (NC & PP).
        assert (has_tp tp (os_pend a) = true) as HT.
        { unfold has_tp. apply existsb_exists. exists (trip_of t). split; [|rewrite trip_tp; lia].
          apply (Permutation_in _ (r_pend s a R)). apply in_map. exact IT. }
        rewrite HT, (all_ge_ok s a tp R MIN). assert (now <? tp = true) as LT by lia. rewrite LT. cbn [andb].
        rewrite NC. split; [reflexivity|]. split; [rewrite (r_alive s a R); congruence|exact PP|].
        intros pid. rewrite FE. apply (r_used s a R).
      * destruct (nothing_completed_ok s a s' 0 tp R (inv_heap s' I') P FE) as (NC & PP).
        assert (has_tp tp (os_pend a) = true) as HT.
        { unfold has_tp. apply existsb_exists. exists (trip_of t). split; [|rewrite trip_tp; lia].
          apply (Permutation_in _ (r_pend s a R)). apply in_map. exact IT. }
        rewrite HT, (all_ge_ok s a tp R MIN). assert (now <? tp = true) as LT by lia. rewrite LT. cbn [andb].
        rewrite NC. split; [reflexivity|]. split; [rewrite (r_alive s a R); congruence|exact PP|].
        intros pid. rewrite FE. apply (r_used s a R).
    + eexists _, _. split; [apply parse_ok; reflexivity|]. cbn [o_r1 o_r2 p_st p_r1 p_r2 Z.eqb andb].
      assert (os_pend a = []) as EA.
      { apply Permutation_nil. rewrite <- (r_pend s a R), E0. reflexivity. }
      rewrite EA. cbn [is_empty].
      assert (Permutation (pending (sched s)) (pending (sched s'))) as P by (rewrite E0, E1; reflexivity).
      destruct (nothing_completed_ok s a s' 2 0 R (inv_heap s' I') P FE) as (NC & PP).
      rewrite NC. split; [reflexivity|]. split; [rewrite (r_alive s a R); congruence|exact PP|].
      intros pid. rewrite FE. apply (r_used s a R).
  - unfold step in E. rewrite A in E. cbn [negb] in E.
    apply (oracle_remove_ok s a id ByRemove s' o I R A); [cbn; discriminate|exact E].
  - unfold step in E. rewrite A in E. cbn [negb] in E.
    apply (oracle_remove_ok s a id (ByCancel 0) s' o I R A); [cbn; discriminate|exact E].
  - unfold step in E. rewrite A in E. cbn [negb] in E.
    replace (3 + c) with (scode (Some (stat_of (ByCancel c)))) by reflexivity.
    apply (oracle_remove_ok s a id (ByCancel c) s' o I R A); [cbn [scode stat_of]; lia|exact E].
  - (* ~scheduler *)
    unfold step in E. rewrite A in E. cbn [negb] in E. inversion E; subst. clear E.
    eexists _, _. split; [apply parse_ok; reflexivity|]. cbn [o_r1 o_r2 p_st p_r1 p_r2 p_chg p_lay futs sched Z.eqb andb layout flat_map is_empty].
    set (f' := fold_left complete (map (fun e => (e, ByDestroy)) (pending (sched s))) (futs s)).
    assert (forall j, get f' j = if in_dec Nat.eq_dec j (ppids (sched s)) then Some FDropped else get (futs s) j) as GF.
    { intros j. unfold f'. rewrite fold_complete_destroy, ppids_pending. reflexivity. }
    assert (forall j, In j (chpos 0 (futs s) f') <-> In j (ppids (sched s))) as CH.
    { intros j. rewrite chpos_In. rewrite Nat.sub_0_r, <- !get_nth, GF.
      destruct (in_dec Nat.eq_dec j (ppids (sched s))) as [J|J].
      - split; [auto|]. intros _. assert (get (futs s) j = Some FPending) as G by (apply (inv_pend s I); exact J).
        rewrite G. split; [|cbn; discriminate]. split; [lia|].
        assert (get f' j = Some FDropped) as G' by (rewrite GF; destruct (in_dec Nat.eq_dec j (ppids (sched s))); [reflexivity|contradiction]).
        unfold get in G'. destruct (nth_error f' j) eqn:NE; [|discriminate].
        apply nth_error_Some. congruence.
      - split; [intros (_ & Q); congruence|contradiction]. }
    rewrite (chg_pids_diff 2).
    2:{ intros j IJ. apply CH in IJ. rewrite Nat.sub_0_r, <- get_nth, GF.
        destruct (in_dec Nat.eq_dec j (ppids (sched s))); [reflexivity|contradiction]. }
    assert (Permutation (map Z.of_nat (chpos 0 (futs s) f')) (map t_pid (os_pend a))) as PB.
    { rewrite <- (r_pend s a R), pids_of_trips. apply Permutation_map.
      apply NoDup_Permutation; [apply chpos_NoDup|apply (inv_nodup s I)|exact CH]. }
    rewrite (perm_b_complete _ _ PB).
    split; [reflexivity|]. split; cbn [os_alive os_pend os_used alive sched futs pending filter map]; auto.
    intros pid. rewrite (r_used s a R). fold f'. rewrite GF.
    destruct (in_dec Nat.eq_dec pid (ppids (sched s))) as [J|J]; [|reflexivity].
    apply (inv_pend s I) in J. rewrite J. split; discriminate.
  - unfold step in E. rewrite A in E. cbn [negb] in E. inversion E; subst.
    eexists _, a. split; [apply parse_rejected|]. split; [reflexivity|exact R].
Qed.

Lemma oracle_run_ok xs : forall s a, inv s -> rel s a -> Forall wf_op xs ->
  oracle_from a xs (map encode_obs (fst (run_from s xs))) = true.
Proof.
  induction xs as [|x t IH]; intros s a I R WF; cbn [run_from map fst oracle_from]; [reflexivity|].
  inversion WF as [|? ? WX WT]; subst.
  destruct (step_ok s x I) as (s1 & o & E & I1 & _). rewrite E. cbn [fst snd].
  destruct (run_from s1 t) as [os e] eqn:ER. cbn [fst map oracle_from].
  destruct (oracle_step_ok s a x s1 o I R WX E) as (p & a' & EP & EO & R').
  rewrite EP, EO. specialize (IH s1 a' I1 R' WT). rewrite ER in IH. exact IH.
Qed.

(* (oracle soundness) the trace the model produces for ANY wire-level op list is accepted by the property oracle *)
Theorem oracle_sound ops : timer_oracle ops (timer_run ops) = true.
Proof.
  unfold timer_oracle, timer_run. apply oracle_run_ok; [apply inv_st0|apply rel0|].
  apply Forall_forall. intros x I. apply in_map_iff in I. destruct I as (l & <- & _). apply decode_wf.
Qed.
