(* placeholder, replaced below *)
From Cocls Require Import Base GenDefs.
