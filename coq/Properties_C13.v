(* Properties_C13.v — C13: a consumer sees exactly the sequence the generator body yields, in every access style.
   Only statements; every proof is `exact <lemma of GenProofs>`.
   Quantification: every body script (any length), every op list = every sequence of access styles mixed freely
   (next()+value(), iterator, call->future blocking, co_await next(), call->future + co_await, double conversion),
   every placement of the completions of pending awaits, malformed ops included; both generator<T> (ha=false) and
   generator<T,Arg> (ha=true).
   `spec sc args` (GenDefs.expected) is defined on the script and the call arguments alone. *)
From Cocls Require Import Base BaseProofs GenDefs GenProofs.
Local Open Scope Z_scope.

(* style_independent (+ the completion counts of sync_waits_async): the log of what the consumer received
   (Val / Exc / End) and what the body received (Arg) is, item by item and in order, the specification's log as far
   as the run goes - nothing skipped, repeated or reordered, each item delivered after exactly the number of
   completions the script puts before it - and once the specification's log is exhausted only End follows. *)
Theorem c13_style_independent : forall ha sc ops,
  let os := fst (run_from ha sys0 (OCreate sc :: ops)) in
  conforms (log_of (OCreate sc :: ops) os 0) (spec sc (call_args (OCreate sc :: ops) os)) 0 = true.
Proof. exact gen_conforms. Qed.
Print Assumptions c13_style_independent.

(* what `conforms` says pointwise: the i-th logged item is the i-th expected item with the same completion count;
   beyond the expected log only End can be observed *)
Theorem c13_conforms_pointwise : forall log ex np, conforms log ex np = true ->
  forall i r n, nth_error log i = Some (r, n) ->
  match nth_error ex i with Some p => p = (r, n) | None => r = XEnd end.
Proof. exact conforms_nth. Qed.
Print Assumptions c13_conforms_pointwise.

(* the expected log has the shape values/argument receptions, then exactly one terminal item (End or the exception) *)
Theorem c13_spec_shape : forall pc cur arg args np,
  exists l t n, expected pc cur arg args np = l ++ [(t, n)] /\ is_terminal t = true /\
                forallb (fun p => negb (is_terminal (fst p))) l = true.
Proof. exact expected_shape. Qed.
Print Assumptions c13_spec_shape.

(* exception_position: when the consumer sees an exception, everything the script puts before the throw was
   delivered before it (the log up to there is literally the specification's log), the exception is the last
   expected item, and every later answer is End *)
Theorem c13_exception_position : forall ha sc ops i e n,
  let os := fst (run_from ha sys0 (OCreate sc :: ops)) in
  let log := log_of (OCreate sc :: ops) os 0 in
  let sp := spec sc (call_args (OCreate sc :: ops) os) in
  nth_error log i = Some (XExc e, n) ->
  firstn (S i) log = firstn (S i) sp /\ S i = length sp /\
  forall j r m, (i < j)%nat -> nth_error log j = Some (r, m) -> r = XEnd.
Proof. exact gen_exception_position. Qed.
Print Assumptions c13_exception_position.

(* argument_delivery: every argument the body receives (result of co_yield v, or of co_yield nullptr) is the
   argument of the call that resumed it: call number = number of values delivered so far (call 0 started the body) *)
Theorem c13_argument_delivery : forall ha sc ops i a n,
  let os := fst (run_from ha sys0 (OCreate sc :: ops)) in
  let log := log_of (OCreate sc :: ops) os 0 in
  nth_error log i = Some (XArg a, n) ->
  a = nth (count_val (firstn i log)) (call_args (OCreate sc :: ops) os) 0.
Proof. exact gen_argument_delivery. Qed.
Print Assumptions c13_argument_delivery.

(* destroy_parked: over any run, for every RAII local id: constructions = destructions + still-live locals; once the
   generator is destroyed (at a yield, never started, or finished) or its body has ended, constructions = destructions;
   frames allocated - freed = 1 while the generator lives, 0 afterwards (freed exactly once, never twice) *)
Theorem c13_destroy_parked : forall ha ops z,
  let r := run_from ha sys0 ops in
  let evs := all_events (fst r) in
  (count_ev (is_ctor z) evs = count_ev (is_dtor z) evs + count_z z (gds (snd r)))%nat /\
  (live (snd r) = false -> count_ev (is_ctor z) evs = count_ev (is_dtor z) evs) /\
  (live (snd r) = true -> bst (snd r) = BFinal -> count_ev (is_ctor z) evs = count_ev (is_dtor z) evs) /\
  sumz (map o_news (fst r)) - sumz (map o_dels (fst r)) = b2z (live (snd r)).
Proof. exact gen_destroy_balance. Qed.
Print Assumptions c13_destroy_parked.

(* the Destroy op itself, in any reachable idle state: one destructor call per live local, youngest first, one free,
   none for a never-started generator; afterwards every op is rejected *)
Theorem c13_destroy_step : forall ha ops,
  let s := snd (run_from ha sys0 ops) in
  live s = true -> out s = None ->
  let '(s1, o) := step ha s ODestroy in
  o_ev o = map EDtor (gds s) /\ o_dels o = 1 /\ o_news o = 0 /\ live s1 = false /\ gds s1 = [] /\
  (bst s = BInit -> o_ev o = []) /\
  forall x, snd (step ha s1 x) = rejected.
Proof. exact gen_destroy_step. Qed.
Print Assumptions c13_destroy_step.

(* sync_waits_async: in every reachable state, an accepted access or completion answers Pending exactly when the body
   is left suspended on a pending await, i.e. a result is returned only after the body reached its next
   yield / return / throw; an access is outstanding exactly while the body is so suspended; and the model never
   dereferences a null caller / value, trips the busy assert or resumes a finished body (err stays false) *)
Theorem c13_sync_waits_async : forall ha ops x,
  let s := snd (run_from ha sys0 ops) in
  let '(s1, o) := step ha s x in
  (ok o = true -> (is_access x || is_complete x) = true -> (o_res o = RPend <-> exists k, bst s1 = BPend k)) /\
  (live s1 = true -> ((exists k, bst s1 = BPend k) <-> out s1 <> None)) /\
  err s1 = false.
Proof. exact gen_pending_iff_suspended. Qed.
Print Assumptions c13_sync_waits_async.

(* wire level: for every case whose first op is a well-formed Create (any further op lines, malformed ones included) the
   oracle clauses "one line per op", "no Bad answer", "the visible log conforms to the specification of the script"
   (argument items hidden for generator<T,void>) and "resumption counts in {0,1}" hold when the oracle decodes the
   model's own encoded output - the encoding loses nothing the oracle needs.  (Not lifted to the wire level: the
   value()-re-read clause and the closed-case clauses - RAII/frame balance after Destroy, no trailing Pending -
   which are about closed cases only.) *)
Theorem c13_wire_oracle_core : forall ha scw wops, Nat.even (length scw) = true ->
  let wire := (0 :: scw) :: wops in
  let ops := map (decode ha) wire in
  let os := map dec_obs (gen_run ha wire) in
  length ops = length os /\
  no_bad os = true /\
  conforms (visible ha (log_of ops os 0)) (visible ha (spec (decode_script ha scw) (call_args ops os))) 0 = true /\
  forallb (fun o => (0 <=? o_cnt o) && (o_cnt o <=? 1)) os = true.
Proof. exact gen_oracle_core. Qed.
Print Assumptions c13_wire_oracle_core.

(* non-vacuity: a body with RAII locals, a pending await and a throw, read through five different styles with the
   completion in the middle, then destroyed: reachable, conforming, balanced *)
Example c13_nonvacuous :
  let sc := [IGuard 7; IYield 1; IAwaitPending 1; IYield 2; IGuard 8; IYield 3; IThrow 9] in
  let ops := [OAccess 0 0; OAccess 1 0; OComplete 1 5; OAccess 2 0; OAccess 3 0; OAccess 4 0; ODestroy] in
  let r := run_from false sys0 (OCreate sc :: ops) in
  map o_res (fst r) = [RNone; RVal 1; RPend; RVal 2; RVal 3; RExc 9; REndT; RNone] /\
  map fst (spec sc [0;0;0;0;0]) = [XVal 1; XArg 0; XVal 2; XArg 0; XVal 3; XArg 0; XExc 9] /\
  all_events (fst r) = [ECtor 7; EArg 0; EAw 5; EArg 0; ECtor 8; EArg 0; EDtor 8; EDtor 7] /\
  live (snd r) = false.
Proof. vm_compute. repeat split; reflexivity. Qed.
