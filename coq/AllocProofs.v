(* AllocProofs.v — invariants and run-level theorems of the C20 cost model (AllocDefs.v) *)
From Cocls Require Import Base BaseProofs AllocDefs.
Require Import ZifyBool.
Ltac Zify.zify_post_hook ::= Z.div_mod_to_equations.
Local Open Scope Z_scope.

Arguments dq_pushes : simpl never.
Arguments dq_pops : simpl never.
Arguments sp_add_all : simpl never.
Arguments run_items : simpl never.
Arguments walk : simpl never.
Arguments sort_ev : simpl never.
Arguments Z.mul : simpl never.
Arguments Z.add : simpl never.
Arguments Z.div : simpl never.
Arguments Z.modulo : simpl never.

(* ---------- cost algebra ---------- *)
Lemma cadd_c0_l c : cadd c0 c = c. Proof. destruct c as [a b f g]; reflexivity. Qed.
Lemma cadd_c0_r c : cadd c c0 = c.
Proof. destruct c as [a b f g]; unfold cadd, c0; cbn [c_a c_ab c_f c_fb]; f_equal; lia. Qed.
Lemma cadd_c0_c0 : cadd c0 c0 = c0. Proof. reflexivity. Qed.

Definition cnonneg (c : cost) : Prop := 0 <= c_a c /\ 0 <= c_f c.
Lemma cnonneg_c0 : cnonneg c0. Proof. unfold cnonneg; cbn; lia. Qed.
Lemma cnonneg_add a b : cnonneg a -> cnonneg b -> cnonneg (cadd a b).
Proof. unfold cnonneg, cadd; cbn [c_a c_f]; lia. Qed.

Lemma zlen_app {A} (a b : list A) : zlen (a ++ b) = zlen a + zlen b.
Proof. unfold zlen. rewrite app_length. lia. Qed.
Lemma zlen_nonneg {A} (a : list A) : 0 <= zlen a. Proof. unfold zlen. lia. Qed.
Lemma zlen_cons {A} (x : A) a : zlen (x :: a) = 1 + zlen a.
Proof. unfold zlen. cbn [length]. lia. Qed.
Lemma zlen_nil {A} : zlen (@nil A) = 0. Proof. reflexivity. Qed.

(* ---------- the deque cursor ---------- *)
Arguments dq_pop_backs : simpl never.

Lemma dq_push_spec d d' c : dq_push d = (d', c) ->
  dq_head d' = dq_head d /\ dq_tail d' = dq_tail d + 1 /\ dq_hw d' = Z.max (dq_hw d) (dq_tail d + 1) /\ cnonneg c /\
  (dq_tail d / node_len = (dq_tail d + 1) / node_len -> c = c0).
Proof.
  unfold dq_push, node_len. destruct (dq_tail d mod 64 =? 64 - 1) eqn:E.
  - destruct (dq_reserve_back d) as [d1 c1] eqn:R. intros H; inversion H; subst; clear H. cbn [dq_head dq_tail dq_hw].
    unfold dq_reserve_back in R.
    assert (dq_head d1 = dq_head d /\ dq_tail d1 = dq_tail d /\ dq_hw d1 = dq_hw d /\ cnonneg c1) as (H1 & H2 & H4 & H3).
    { destruct (dq_map d - dq_fn d <? 2); [destruct (2 * (dq_fn d - dq_sn d + 1 + 1) <? dq_map d)|];
      inversion R; subst; cbn [dq_head dq_tail dq_hw]; repeat split; try apply cnonneg_c0; unfold cnonneg; cbn; lia. }
    clear R. split; [clear E; lia|]. split; [clear E; lia|]. split; [clear E; lia|]. split.
    + apply cnonneg_add; [exact H3|unfold cnonneg; cbn; lia].
    + intros. exfalso. lia.
  - intros H; inversion H; subst; clear H. cbn [dq_head dq_tail dq_hw].
    split; [lia|]. split; [lia|]. split; [lia|]. split; [apply cnonneg_c0|reflexivity].
Qed.

Lemma dq_pop_spec d d' c : dq_pop d = (d', c) ->
  dq_head d' = dq_head d + 1 /\ dq_tail d' = dq_tail d /\ dq_hw d' = dq_hw d /\ cnonneg c /\
  (dq_head d / node_len = (dq_head d + 1) / node_len -> c = c0).
Proof.
  unfold dq_pop, node_len. destruct (dq_head d mod 64 =? 64 - 1) eqn:E; intros H; inversion H; subst; clear H;
    cbn [dq_head dq_tail dq_hw]; (split; [lia|]); (split; [lia|]); (split; [lia|]); split.
  - unfold cnonneg; cbn; lia.
  - intros. exfalso. lia.
  - apply cnonneg_c0.
  - reflexivity.
Qed.

Lemma dq_pop_back_spec d d' c : dq_pop_back d = (d', c) ->
  dq_head d' = dq_head d /\ dq_tail d' = dq_tail d - 1 /\ dq_hw d' = dq_hw d /\ cnonneg c /\
  ((dq_tail d - 1) / node_len = dq_tail d / node_len -> c = c0).
Proof.
  unfold dq_pop_back, node_len. destruct (dq_tail d mod 64 =? 0) eqn:E; intros H; inversion H; subst; clear H;
    cbn [dq_head dq_tail dq_hw]; (split; [lia|]); (split; [lia|]); (split; [lia|]); split.
  - unfold cnonneg; cbn; lia.
  - intros. exfalso. lia.
  - apply cnonneg_c0.
  - reflexivity.
Qed.

Lemma dq_pushes_spec k : forall d d' c, dq_tail d <= dq_hw d -> dq_pushes d k = (d', c) ->
  dq_head d' = dq_head d /\ dq_tail d' = dq_tail d + Z.of_nat k /\
  dq_hw d' = Z.max (dq_hw d) (dq_tail d + Z.of_nat k) /\ cnonneg c /\
  (dq_tail d / node_len = (dq_tail d + Z.of_nat k) / node_len -> c = c0).
Proof.
  induction k as [|k IH]; intros d d' c T; unfold dq_pushes; fold dq_pushes.
  - intros H; inversion H; subst. split; [lia|]. split; [lia|]. split; [lia|]. split; [apply cnonneg_c0|reflexivity].
  - destruct (dq_push d) as [d1 c1] eqn:P. destruct (dq_pushes d1 k) as [d2 c2] eqn:Q.
    intros H; inversion H; subst; clear H.
    apply dq_push_spec in P. destruct P as (P1 & P2 & P5 & P3 & P4).
    apply IH in Q; [|lia]. destruct Q as (Q1 & Q2 & Q5 & Q3 & Q4).
    split; [clear - P1 Q1; lia|]. split; [clear - P2 Q2; lia|]. split; [clear - P2 Q2 P5 Q5 T; lia|]. split.
    + apply cnonneg_add; assumption.
    + intros E. unfold node_len in *.
      assert (c1 = c0) as -> by (apply P4; clear - E; lia). assert (c2 = c0) as -> by (apply Q4; rewrite P2; clear - E; lia). reflexivity.
Qed.

Lemma dq_pops_spec k : forall d d' c, dq_pops d k = (d', c) ->
  dq_head d' = dq_head d + Z.of_nat k /\ dq_tail d' = dq_tail d /\ dq_hw d' = dq_hw d /\ cnonneg c /\
  (dq_head d / node_len = (dq_head d + Z.of_nat k) / node_len -> c = c0).
Proof.
  induction k as [|k IH]; intros d d' c; unfold dq_pops; fold dq_pops.
  - intros H; inversion H; subst. split; [lia|]. split; [lia|]. split; [lia|]. split; [apply cnonneg_c0|reflexivity].
  - destruct (dq_pop d) as [d1 c1] eqn:P. destruct (dq_pops d1 k) as [d2 c2] eqn:Q.
    intros H; inversion H; subst; clear H.
    apply dq_pop_spec in P. destruct P as (P1 & P2 & P5 & P3 & P4).
    apply IH in Q. destruct Q as (Q1 & Q2 & Q5 & Q3 & Q4).
    split; [lia|]. split; [lia|]. split; [lia|]. split.
    + apply cnonneg_add; assumption.
    + intros E. unfold node_len in *.
      assert (c1 = c0) as -> by (apply P4; lia). assert (c2 = c0) as -> by (apply Q4; rewrite P1; lia). reflexivity.
Qed.

Lemma dq_pop_backs_spec k : forall d d' c, dq_pop_backs d k = (d', c) ->
  dq_head d' = dq_head d /\ dq_tail d' = dq_tail d - Z.of_nat k /\ dq_hw d' = dq_hw d /\ cnonneg c /\
  ((dq_tail d - Z.of_nat k) / node_len = dq_tail d / node_len -> c = c0).
Proof.
  induction k as [|k IH]; intros d d' c; unfold dq_pop_backs; fold dq_pop_backs.
  - intros H; inversion H; subst. split; [lia|]. split; [lia|]. split; [lia|]. split; [apply cnonneg_c0|reflexivity].
  - destruct (dq_pop_back d) as [d1 c1] eqn:P. destruct (dq_pop_backs d1 k) as [d2 c2] eqn:Q.
    intros H; inversion H; subst; clear H.
    apply dq_pop_back_spec in P. destruct P as (P1 & P2 & P5 & P3 & P4).
    apply IH in Q. destruct Q as (Q1 & Q2 & Q5 & Q3 & Q4).
    split; [lia|]. split; [lia|]. split; [lia|]. split.
    + apply cnonneg_add; assumption.
    + intros E. unfold node_len in *.
      assert (c1 = c0) as -> by (apply P4; lia). assert (c2 = c0) as -> by (apply Q4; rewrite P2; lia). reflexivity.
Qed.

(* ---------- suspend points ---------- *)
Definition sp_wf (s : spt) : Prop :=
  (sp_flag s = true -> 3 < sp_size s) /\ (sp_flag s = false -> sp_size s <= 3).

Lemma sp_wf_empty : sp_wf sp_empty.
Proof. unfold sp_wf, sp_empty, sp_size; cbn. split; [discriminate|]. intros; unfold zlen; cbn; lia. Qed.

Lemma sp_add_spec s h s' c : sp_wf s -> sp_add s h = (s', c) ->
  sp_wf s' /\ sp_hs s' = sp_hs s ++ [h] /\ cnonneg c /\ (sp_size s' <= 3 -> c = c0) /\
  (sp_flag s = false -> sp_size s = 3 -> c = c_alloc 48).
Proof.
  unfold sp_wf, sp_add, sp_size, inline_count. intros [W1 W2].
  pose proof (zlen_app (sp_hs s) [h]) as L. rewrite (zlen_cons h []), zlen_nil in L.
  destruct (sp_flag s) eqn:F.
  - specialize (W1 eq_refl). destruct (zlen (sp_hs s) =? sp_cap s) eqn:E; intros H; inversion H; subst; clear H;
      cbn [sp_flag sp_hs]; rewrite L.
    + split; [split; [lia|discriminate]|]. split; [reflexivity|]. split; [unfold cnonneg; cbn; lia|].
      split; [lia|discriminate].
    + split; [split; [lia|discriminate]|]. split; [reflexivity|]. split; [apply cnonneg_c0|].
      split; [reflexivity|discriminate].
  - specialize (W2 eq_refl). destruct (zlen (sp_hs s) <? 3) eqn:E; intros H; inversion H; subst; clear H;
      cbn [sp_flag sp_hs]; rewrite L.
    + split; [split; [discriminate|lia]|]. split; [reflexivity|]. split; [apply cnonneg_c0|].
      split; [reflexivity|lia].
    + split; [split; [lia|discriminate]|]. split; [reflexivity|]. split; [unfold cnonneg; cbn; lia|].
      split; [lia|]. intros _ E3. rewrite E3. reflexivity.
Qed.

Lemma sp_add_all_spec l : forall s s' c, sp_wf s -> sp_add_all s l = (s', c) ->
  sp_wf s' /\ sp_hs s' = sp_hs s ++ l /\ cnonneg c /\ (sp_size s' <= 3 -> c = c0).
Proof.
  induction l as [|h l IH]; intros s s' c W; unfold sp_add_all; fold sp_add_all.
  - intros H; inversion H; subst. rewrite app_nil_r. split; [exact W|]. split; [reflexivity|]. split; [apply cnonneg_c0|reflexivity].
  - destruct (sp_add s h) as [s1 c1] eqn:A. destruct (sp_add_all s1 l) as [s2 c2] eqn:B.
    intros H; inversion H; subst; clear H.
    destruct (sp_add_spec _ _ _ _ W A) as (W1 & H1 & N1 & Z1 & _).
    destruct (IH _ _ _ W1 B) as (W2 & H2 & N2 & Z2).
    split; [exact W2|]. split; [|split].
    + rewrite H2, H1, <- app_assoc. reflexivity.
    + apply cnonneg_add; assumption.
    + intros S. rewrite Z2 by exact S. rewrite Z1; [reflexivity|].
      unfold sp_size in *. rewrite H2, zlen_app in S. pose proof (zlen_nonneg l). lia.
Qed.

Lemma sp_clear_cost_spec s : sp_wf s -> cnonneg (sp_clear_cost s) /\ (sp_size s <= 3 -> sp_clear_cost s = c0).
Proof.
  unfold sp_wf, sp_clear_cost. intros [W1 W2]. destruct (sp_flag s).
  - specialize (W1 eq_refl). split; [unfold cnonneg; cbn; lia|lia].
  - split; [apply cnonneg_c0|reflexivity].
Qed.

Lemma sp_merge_spec d s d' c : sp_wf d -> sp_wf s -> sp_merge d s = (d', c) ->
  sp_wf d' /\ sp_hs d' = sp_hs d ++ sp_hs s /\ cnonneg c /\ (sp_size d' <= 3 -> c = c0).
Proof.
  intros Wd Ws. unfold sp_merge. destruct (sp_add_all d (sp_hs s)) as [d1 c1] eqn:A.
  intros H; inversion H; subst; clear H.
  destruct (sp_add_all_spec _ _ _ _ Wd A) as (W1 & H1 & N1 & Z1).
  destruct (sp_clear_cost_spec s Ws) as (N2 & Z2).
  split; [exact W1|]. split; [exact H1|]. split.
  - apply cnonneg_add; assumption.
  - intros S. rewrite Z1 by exact S. rewrite Z2; [reflexivity|].
    unfold sp_size in *. rewrite H1, zlen_app in S. pose proof (zlen_nonneg (sp_hs d)). lia.
Qed.

(* the threshold: from an empty suspend point, the first allocation is exactly the 4th handle (one array of 6 pointers) *)
Lemma sp_threshold_le3 l : (length l <= 3)%nat ->
  snd (sp_add_all sp_empty l) = c0 /\ sp_flag (fst (sp_add_all sp_empty l)) = false.
Proof.
  intros L. destruct (sp_add_all sp_empty l) as [s c] eqn:A.
  destruct (sp_add_all_spec _ _ _ _ sp_wf_empty A) as (W & H & N & Z).
  assert (sp_size s <= 3) as S by (unfold sp_size; rewrite H; cbn [sp_hs sp_empty app]; unfold zlen; lia).
  cbn [fst snd]. split; [apply Z; exact S|]. destruct W as [W1 _]. destruct (sp_flag s); [specialize (W1 eq_refl); lia|reflexivity].
Qed.

Lemma sp_threshold_4th a b c0' d :
  snd (sp_add_all sp_empty [a; b; c0']) = c0 /\
  snd (sp_add (fst (sp_add_all sp_empty [a; b; c0'])) d) = c_alloc 48.
Proof. split; reflexivity. Qed.

Lemma sp_add_all_alloc_pos l : forall s, sp_wf s -> sp_flag s = false -> 3 < sp_size s + zlen l ->
  1 <= c_a (snd (sp_add_all s l)).
Proof.
  induction l as [|h l IH]; intros s W F S; unfold sp_add_all; fold sp_add_all.
  - rewrite zlen_nil in S. destruct W as [_ W2]. specialize (W2 F). lia.
  - destruct (sp_add s h) as [s1 c1] eqn:A. destruct (sp_add_all s1 l) as [s2 c2] eqn:B. cbn [snd].
    destruct (sp_add_spec _ _ _ _ W A) as (W1 & H1 & N1 & Z1 & T1).
    destruct (sp_add_all_spec _ _ _ _ W1 B) as (_ & _ & N2 & _).
    rewrite zlen_cons in S.
    destruct (Z.eq_dec (sp_size s) 3) as [E|E].
    + rewrite (T1 F E). unfold cadd, c_alloc; cbn [c_a]. destruct N2. lia.
    + assert (sp_flag s1 = false) as F1.
      { unfold sp_add, inline_count in A. rewrite F in A. destruct W as [_ W2]. specialize (W2 F).
        destruct (sp_size s <? 3) eqn:E3; [|lia]. inversion A; reflexivity. }
      assert (sp_size s1 = sp_size s + 1) as S1.
      { unfold sp_size. rewrite H1, zlen_app, zlen_cons, zlen_nil. lia. }
      specialize (IH s1 W1 F1). rewrite B in IH. cbn [snd] in IH.
      unfold cadd; cbn [c_a]. destruct N1. lia.
Qed.

(* ---------- cost equality ---------- *)
Lemma cost_ext a b : c_a a = c_a b -> c_ab a = c_ab b -> c_f a = c_f b -> c_fb a = c_fb b -> a = b.
Proof. destruct a, b; cbn; intros; subst; reflexivity. Qed.
Ltac cost_eq := apply cost_ext; unfold cadd, c0; cbn [c_a c_ab c_f c_fb]; lia.

(* ---------- the cost of a suspend point depends on handle counts alone ---------- *)
Definition sim (a b : spt) : Prop :=
  sp_size a = sp_size b /\ sp_flag a = sp_flag b /\ (sp_flag a = true -> sp_cap a = sp_cap b).

Lemma sim_refl a : sim a a. Proof. unfold sim; auto. Qed.

Lemma sim_add a b h h' : sim a b ->
  snd (sp_add a h) = snd (sp_add b h') /\ sim (fst (sp_add a h)) (fst (sp_add b h')).
Proof.
  unfold sim, sp_add, sp_size, inline_count. intros (S & F & C).
  pose proof (zlen_app (sp_hs a) [h]) as La. rewrite zlen_cons, zlen_nil in La.
  pose proof (zlen_app (sp_hs b) [h']) as Lb. rewrite zlen_cons, zlen_nil in Lb.
  rewrite <- F. destruct (sp_flag a) eqn:Fa.
  - rewrite <- (C eq_refl), <- S. destruct (zlen (sp_hs a) =? sp_cap a); cbn [fst snd sp_hs sp_flag sp_cap];
      (split; [reflexivity|]); (split; [lia|]); (split; [reflexivity|]); intros _; lia.
  - rewrite <- S. destruct (zlen (sp_hs a) <? 3); cbn [fst snd sp_hs sp_flag sp_cap];
      (split; [reflexivity|]); (split; [lia|]); (split; [reflexivity|]); try discriminate; intros _; lia.
Qed.

Lemma sim_add_all l : forall l' a b, length l = length l' -> sim a b ->
  snd (sp_add_all a l) = snd (sp_add_all b l') /\ sim (fst (sp_add_all a l)) (fst (sp_add_all b l')).
Proof.
  induction l as [|h l IH]; intros [|h' l'] a b L S; try discriminate; unfold sp_add_all; fold sp_add_all.
  - cbn [fst snd]. auto.
  - destruct (sim_add a b h h' S) as (E1 & S1).
    destruct (sp_add a h) as [a1 c1]. destruct (sp_add b h') as [b1 d1]. cbn [fst snd] in E1, S1.
    assert (length l = length l') as L' by (cbn in L; lia).
    destruct (IH l' a1 b1 L' S1) as (E2 & S2).
    destruct (sp_add_all a1 l) as [a2 c2]. destruct (sp_add_all b1 l') as [b2 d2]. cbn [fst snd] in *.
    subst. auto.
Qed.

Lemma sim_clear a b : sim a b -> sp_clear_cost a = sp_clear_cost b.
Proof. unfold sim, sp_clear_cost. intros (S & F & C). rewrite <- F. destruct (sp_flag a); [rewrite (C eq_refl)|]; reflexivity. Qed.

Lemma sp_add_all_app l1 : forall l2 s,
  fst (sp_add_all s (l1 ++ l2)) = fst (sp_add_all (fst (sp_add_all s l1)) l2) /\
  snd (sp_add_all s (l1 ++ l2)) = cadd (snd (sp_add_all s l1)) (snd (sp_add_all (fst (sp_add_all s l1)) l2)).
Proof.
  induction l1 as [|h l1 IH]; intros l2 s; cbn [app].
  - unfold sp_add_all at 2 3 5 6; fold sp_add_all. cbn [fst snd]. split; [reflexivity|]. symmetry. apply cadd_c0_l.
  - assert (forall t, sp_add_all s (h :: t) = let '(s1, c1) := sp_add s h in let '(s2, c2) := sp_add_all s1 t in (s2, cadd c1 c2)) as U
      by reflexivity.
    rewrite !U. clear U. destruct (sp_add s h) as [s1 c1]. destruct (IH l2 s1) as (A & B).
    destruct (sp_add_all s1 (l1 ++ l2)) as [s2 c2]. destruct (sp_add_all s1 l1) as [s3 c3]. cbn [fst snd] in *.
    split; [exact A|]. rewrite B. cost_eq.
Qed.

Lemma mk_sp_plus a b : 0 <= a -> 0 <= b ->
  fst (sp_add_all (mk_sp a) (repeat dummy (n b))) = mk_sp (a + b).
Proof.
  intros A B. unfold mk_sp, n. rewrite Z2Nat.inj_add by assumption. rewrite repeat_app.
  symmetry. apply (sp_add_all_app (repeat dummy (Z.to_nat a)) (repeat dummy (Z.to_nat b)) sp_empty).
Qed.

Lemma mk_sp_wf k : sp_wf (mk_sp k) /\ (0 <= k -> sp_size (mk_sp k) = k).
Proof.
  unfold mk_sp. destruct (sp_add_all sp_empty (repeat dummy (n k))) as [s c] eqn:A. cbn [fst].
  destruct (sp_add_all_spec _ _ _ _ sp_wf_empty A) as (W & H & _). split; [exact W|].
  intros K. unfold sp_size. rewrite H. cbn [sp_hs sp_empty app]. unfold zlen, n. rewrite repeat_length. lia.
Qed.

(* canonical suspend point: well formed and with the capacity of one that grew from empty by single adds *)
Definition sp_can (s : spt) : Prop := sp_wf s /\ sim s (mk_sp (sp_size s)).

Lemma sp_can_empty : sp_can sp_empty.
Proof. split; [apply sp_wf_empty|]. apply sim_refl. Qed.

Lemma add_all_can l s s' c : sp_can s -> sp_add_all s l = (s', c) ->
  sp_can s' /\ sp_size s' = sp_size s + zlen l /\ c = grow_cost (sp_size s) (sp_size s').
Proof.
  intros (W & S) A. destruct (sp_add_all_spec _ _ _ _ W A) as (W' & H & _).
  assert (sp_size s' = sp_size s + zlen l) as Sz by (unfold sp_size; rewrite H, zlen_app; reflexivity).
  pose proof (zlen_nonneg (sp_hs s)) as N0. pose proof (zlen_nonneg l) as N1. fold (sp_size s) in N0.
  assert (length l = length (repeat dummy (n (sp_size s' - sp_size s)))) as L.
  { rewrite repeat_length, Sz. unfold n, zlen. replace (sp_size s + Z.of_nat (length l) - sp_size s) with (Z.of_nat (length l)) by lia.
    rewrite Nat2Z.id. reflexivity. }
  destruct (sim_add_all l _ s (mk_sp (sp_size s)) L S) as (E & S').
  rewrite A in E, S'. cbn [fst snd] in E, S'.
  split; [split; [exact W'|]|split; [exact Sz|exact E]].
  rewrite mk_sp_plus in S' by lia. replace (sp_size s + (sp_size s' - sp_size s)) with (sp_size s') in S' by lia. exact S'.
Qed.

Lemma add_can s h s' c : sp_can s -> sp_add s h = (s', c) ->
  sp_can s' /\ sp_size s' = sp_size s + 1 /\ c = grow_cost (sp_size s) (sp_size s').
Proof.
  intros C A. assert (sp_add_all s [h] = (s', c)) as A'.
  { unfold sp_add_all. rewrite A. rewrite cadd_c0_r. reflexivity. }
  destruct (add_all_can _ _ _ _ C A') as (C' & Sz & E). rewrite zlen_cons, zlen_nil in Sz.
  split; [exact C'|]. split; [lia|exact E].
Qed.

Lemma clear_can s : sp_can s -> sp_clear_cost s = clear_cost (sp_size s).
Proof. intros (_ & S). unfold clear_cost. apply sim_clear. exact S. Qed.

Lemma merge_can d s d' c : sp_can d -> sp_can s -> sp_merge d s = (d', c) ->
  sp_can d' /\ sp_size d' = sp_size d + sp_size s /\
  c = cadd (grow_cost (sp_size d) (sp_size d')) (clear_cost (sp_size s)).
Proof.
  intros Cd Cs. unfold sp_merge. destruct (sp_add_all d (sp_hs s)) as [d1 c1] eqn:A.
  intros H; inversion H; subst; clear H.
  destruct (add_all_can _ _ _ _ Cd A) as (C' & Sz & E).
  split; [exact C'|]. split; [exact Sz|]. rewrite E, (clear_can s Cs). reflexivity.
Qed.

Lemma grow_small a b : 0 <= a -> a <= b -> b <= 3 -> grow_cost a b = c0.
Proof.
  intros A B C. unfold grow_cost. destruct (mk_sp_wf a) as (W & Sz).
  destruct (sp_add_all (mk_sp a) (repeat dummy (n (b - a)))) as [s c] eqn:E. cbn [snd].
  destruct (sp_add_all_spec _ _ _ _ W E) as (_ & H & _ & Z). apply Z.
  unfold sp_size. rewrite H, zlen_app. fold (sp_size (mk_sp a)). rewrite (Sz A).
  unfold zlen, n. rewrite repeat_length. lia.
Qed.

Lemma clear_small k : 0 <= k -> k <= 3 -> clear_cost k = c0.
Proof.
  intros A B. unfold clear_cost. destruct (mk_sp_wf k) as (W & Sz). apply (sp_clear_cost_spec _ W). rewrite (Sz A). exact B.
Qed.

Lemma grow_same a : grow_cost a a = c0.
Proof. unfold grow_cost. replace (a - a) with 0 by lia. reflexivity. Qed.

(* ---------- states ---------- *)
Definition same3 (st st' : state) : Prop := slots st' = slots st /\ rq st' = rq st /\ dq st' = dq st.

Definition Inv (coro : bool) (st : state) : Prop :=
  Forall sp_can (slots st) /\ 0 <= dq_head (dq st) /\ dq_head (dq st) + zlen (rq st) = dq_tail (dq st) /\
  dq_tail (dq st) <= dq_hw (dq st) /\ (coro = false -> rq st = [] /\ dq_tail (dq st) = 0).

Lemma same3_refl st : same3 st st. Proof. unfold same3; auto. Qed.
Lemma same3_trans a b c : same3 a b -> same3 b c -> same3 a c.
Proof. unfold same3. intros (A1 & A2 & A3) (B1 & B2 & B3). rewrite B1, B2, B3. auto. Qed.
Lemma Inv_same3 coro st st' : same3 st st' -> Inv coro st -> Inv coro st'.
Proof. unfold same3, Inv. intros (A1 & A2 & A3). rewrite A1, A2, A3. auto. Qed.

Lemma same3_setf st f x : same3 st (setf st f x). Proof. unfold same3; cbn; auto. Qed.
Lemma same3_setm st f x : same3 st (setm st f x). Proof. unfold same3; cbn; auto. Qed.
Lemma same3_setg st f x : same3 st (setg st f x). Proof. unfold same3; cbn; auto. Qed.
Lemma same3_seth st f x : same3 st (seth st f x). Proof. unfold same3; cbn; auto. Qed.
Lemma same3_setc st f x : same3 st (setc st f x). Proof. unfold same3; cbn; auto. Qed.
Lemma same3_addlive st k : same3 st (addlive st k). Proof. unfold same3; cbn; auto. Qed.
Lemma same3_setk st k x : same3 st (setk st k x). Proof. unfold same3; cbn; auto. Qed.
#[local] Hint Resolve same3_refl same3_setf same3_setm same3_setg same3_seth same3_setc same3_addlive same3_setk : s3.

Lemma same3_release st w : same3 st (release_waiter st w).
Proof. unfold release_waiter. destruct w as [k i]. destruct (k =? 1); [|destruct (k =? 2)]; auto with s3. Qed.
Lemma live_release st w : live (release_waiter st w) = live st.
Proof. unfold release_waiter. destruct w as [k i]. destruct (k =? 1); [|destruct (k =? 2)]; reflexivity. Qed.

Lemma Inv_st0 coro : Inv coro st0.
Proof.
  unfold Inv, st0; cbn [slots dq rq dq_head dq_tail dq_hw dq0]. split; [|repeat split; try lia; reflexivity].
  apply Forall_forall. intros x H. apply repeat_spec in H. subst. apply sp_can_empty.
Qed.

Lemma Forall_set_nth {A} (P : A -> Prop) l i x : Forall P l -> P x -> Forall P (set_nth l i x).
Proof.
  intros H Px. revert i. induction H as [|y l Py Hl IH]; intros [|i]; cbn [set_nth]; constructor; auto.
Qed.

Lemma map_set_nth {A B} (f : A -> B) l i x : map f (set_nth l i x) = set_nth (map f l) i (f x).
Proof. revert i; induction l as [|y l IH]; intros [|i]; cbn [set_nth map]; try reflexivity. rewrite IH. reflexivity. Qed.

Lemma gets_can st s : Forall sp_can (slots st) -> sp_can (gets st s).
Proof.
  intros H. unfold gets. destruct (nth_in_or_default (n s) (slots st) sp_empty) as [I|E].
  - rewrite Forall_forall in H. apply H. exact I.
  - rewrite E. apply sp_can_empty.
Qed.

Definition sizes (st : state) : list Z := map sp_size (slots st).
Lemma sizes_nth st s : nth (n s) (sizes st) 0 = sp_size (gets st s).
Proof. unfold sizes, gets. change 0 with (sp_size sp_empty). apply map_nth. Qed.

Lemma run_item_spec st it st' ev k : run_item st it = (st', ev, k) ->
  same3 st st' /\ 0 <= k /\ live st' = live st - k.
Proof.
  unfold run_item. destruct it as [[k0 w] o].
  destruct (k0 =? 0); [|destruct (k0 =? 1); [|destruct (k0 =? 2)]].
  - intros H; inversion H; subst. split; [auto with s3|]. cbn. lia.
  - intros H; inversion H; subst. split; [eapply same3_trans; [apply same3_setm|apply same3_addlive]|]. cbn. lia.
  - destruct (f_st (getf st o) =? 3); intros H; inversion H; subst; (split; [auto with s3|]); cbn; lia.
  - destruct (m_st (getm st o) =? 0); intros H; inversion H; subst.
    + split; [eapply same3_trans; [apply same3_setm|apply same3_addlive]|]. cbn. lia.
    + split; [auto with s3|]. cbn. lia.
Qed.

Lemma run_items_spec l : forall st st' ev k, run_items st l = (st', ev, k) ->
  same3 st st' /\ 0 <= k /\ live st' = live st - k.
Proof.
  induction l as [|it l IH]; intros st st' ev k; unfold run_items; fold run_items.
  - intros H; inversion H; subst. split; [apply same3_refl|]. lia.
  - destruct (run_item st it) as [[st1 e] k1] eqn:R. destruct (run_items st1 l) as [[st2 es] k2] eqn:Q.
    intros H; inversion H; subst. apply run_item_spec in R. apply IH in Q.
    destruct R as (R1 & R2 & R3). destruct Q as (Q1 & Q2 & Q3).
    split; [eapply same3_trans; eassumption|]. lia.
Qed.

(* the driver suspends and the queue is drained (coroutine mode) *)
Lemma suspend_drain_spec st first pushed st' ev c k : Inv true st -> suspend_drain st first pushed = (st', ev, c, k) ->
  Inv true st' /\ slots st' = slots st /\ dq_hw (dq st) <= dq_hw (dq st') /\ cnonneg c /\ 0 <= k /\
  (dq_hw (dq st') <= 63 -> c = c0) /\ live st' = live st - k.
Proof.
  intros (I1 & I2 & I3 & I4 & _). unfold suspend_drain.
  destruct (dq_pushes (dq st) (length pushed + 1)) as [d1 c1] eqn:P.
  destruct (dq_pops d1 (length (rq st) + length pushed + 1)) as [d2 c2] eqn:Q.
  destruct (run_items (setq st [] d2) (first ++ rq st ++ pushed)) as [[st1 ev1] k1] eqn:R.
  intros H; inversion H; subst; clear H.
  apply dq_pushes_spec in P; [|exact I4]. destruct P as (P1 & P2 & P5 & P3 & P4).
  apply dq_pops_spec in Q. destruct Q as (Q1 & Q2 & Q5 & Q3 & Q4).
  apply run_items_spec in R. destruct R as ((R1 & R2 & R3) & K & Lv). cbn [setq slots rq dq live] in R1, R2, R3, Lv.
  unfold zlen in *. unfold node_len in *.
  split; [|split; [exact R1|split; [|split; [|split; [exact K|split; [|exact Lv]]]]]].
  - unfold Inv. rewrite R1, R2, R3. split; [exact I1|]. cbn [length]. unfold zlen. cbn [length].
    split; [lia|]. split; [lia|]. split; [lia|discriminate].
  - rewrite R3. lia.
  - apply cnonneg_add; assumption.
  - rewrite R3. intros T.
    assert (c1 = c0) as -> by (apply P4; lia). assert (c2 = c0) as -> by (apply Q4; lia). reflexivity.
Qed.

Lemma dispose_spec coro how s st sp st' ev csp cdq k sps : Inv coro st -> sp_can sp ->
  dispose coro how s st sp = (st', ev, csp, cdq, k, sps) ->
  Inv coro st' /\ dq_hw (dq st) <= dq_hw (dq st') /\ (dq_hw (dq st') <= 63 -> cdq = c0) /\
  (coro = false -> cdq = c0) /\ 0 <= k /\ live st' = live st - k /\
  (if how =? 2
   then sps = sp_size (gets st s) + sp_size sp /\
        csp = cadd (grow_cost (sp_size (gets st s)) sps) (clear_cost (sp_size sp)) /\
        sizes st' = upd (sizes st) s sps
   else sps = sp_size sp /\ csp = clear_cost (sp_size sp) /\ slots st' = slots st).
Proof.
  intros I C. unfold dispose. destruct (how =? 2) eqn:H2.
  { destruct (sp_merge (gets st s) sp) as [d1 c] eqn:M. intros H; inversion H; subst; clear H.
    destruct I as (I1 & I2 & I3 & I4 & I5).
    destruct (merge_can _ _ _ _ (gets_can st s I1) C M) as (C1 & Sz & E).
    split; [|split; [cbn; lia|split; [auto|split; [auto|split; [lia|split; [cbn; lia|]]]]]].
    - unfold Inv; cbn [sets slots rq dq]. split; [|auto]. apply Forall_set_nth; assumption.
    - split; [exact Sz|]. split; [exact E|]. unfold sizes; cbn [sets slots]. unfold upd. apply map_set_nth. }
  pose proof (clear_can sp C) as CC.
  destruct coro; cbn [negb].
  2:{ destruct (run_items st (sp_hs sp)) as [[st1 ev1] k1] eqn:R. intros H; inversion H; subst; clear H.
      apply run_items_spec in R. destruct R as (R & K & Lv). pose proof (Inv_same3 _ _ _ R I) as I'. destruct R as (R1 & R2 & R3).
      split; [exact I'|]. rewrite R3. split; [lia|]. split; [auto|]. split; [auto|]. split; [exact K|]. split; [exact Lv|].
      split; [reflexivity|]. split; [exact CC|exact R1]. }
  destruct (how =? 0) eqn:H0.
  { destruct (dq_pushes (dq st) (length (sp_hs sp))) as [d1 c] eqn:P. intros H; inversion H; subst; clear H.
    destruct I as (I1 & I2 & I3 & I4 & I5).
    apply dq_pushes_spec in P; [|exact I4]. destruct P as (P1 & P2 & P5 & P3 & P4).
    unfold node_len in *.
    split; [|split; [cbn [setq dq]; lia|split; [|split; [discriminate|split; [lia|split; [cbn; lia|]]]]]].
    - unfold Inv; cbn [setq slots rq dq]. split; [exact I1|]. rewrite zlen_app. unfold zlen in *.
      split; [lia|]. split; [lia|]. split; [lia|discriminate].
    - cbn [setq dq]. intros T. apply P4. pose proof (zlen_nonneg (rq st)). lia.
    - split; [reflexivity|]. split; [exact CC|reflexivity]. }
  destruct (sp_hs sp) as [|h0 t0] eqn:E.
  { intros H; inversion H; subst; clear H.
    split; [exact I|]. split; [lia|]. split; [auto|]. split; [discriminate|]. split; [lia|]. split; [lia|].
    split; [reflexivity|]. split; [exact CC|reflexivity]. }
  destruct (suspend_drain st [last (h0 :: t0) h0] (removelast (h0 :: t0))) as [[[st1 ev1] c] k1] eqn:D.
  intros H; inversion H; subst; clear H.
  destruct (suspend_drain_spec _ _ _ _ _ _ _ I D) as (I' & S1 & T1 & N1 & K1 & Z1 & Lv).
  split; [exact I'|]. split; [exact T1|]. split; [exact Z1|]. split; [discriminate|]. split; [exact K1|]. split; [exact Lv|].
  split; [reflexivity|]. split; [exact CC|exact S1].
Qed.

(* create_suspend_point around a resolution *)
Lemma csp_wrap_spec coro st sp st' ss c1 c2 : Inv coro st -> sp_can sp -> csp_wrap st sp = (st', ss, c1, c2) ->
  Inv coro st' /\ slots st' = slots st /\ live st' = live st /\ dq_hw (dq st) <= dq_hw (dq st') /\
  sp_can ss /\ sp_size ss = sp_size sp /\
  c1 = cadd (clear_cost (sp_size sp)) (grow_cost 0 (sp_size sp)) /\
  (dq_hw (dq st') <= 63 -> c2 = c0) /\ (coro = false -> sp_size sp <= 63 -> c2 = c0).
Proof.
  intros (I1 & I2 & I3 & I4 & I5) C. unfold csp_wrap.
  destruct (dq_pushes (dq st) (length (sp_hs sp))) as [d1 e1] eqn:P.
  destruct (dq_pop_backs d1 (length (sp_hs sp))) as [d2 e2] eqn:Q.
  destruct (sp_add_all sp_empty (rev (sp_hs sp))) as [s1 e3] eqn:A.
  intros H; inversion H; subst; clear H.
  apply dq_pushes_spec in P; [|exact I4]. destruct P as (P1 & P2 & P5 & P3 & P4).
  apply dq_pop_backs_spec in Q. destruct Q as (Q1 & Q2 & Q5 & Q3 & Q4).
  destruct (add_all_can _ _ _ _ sp_can_empty A) as (C1 & Sz & E).
  assert (sp_size ss = sp_size sp) as Sz'.
  { rewrite Sz. change (sp_size sp_empty) with 0. unfold sp_size, zlen. rewrite rev_length. lia. }
  unfold node_len, sp_size, zlen in *.
  split; [|split; [reflexivity|split; [reflexivity|split; [cbn [setq dq]; lia|split; [exact C1|split; [exact Sz'|split; [|split]]]]]]].
  - unfold Inv; cbn [setq slots rq dq]; unfold zlen. split; [exact I1|]. split; [lia|]. split; [lia|]. split; [lia|].
    intros F. destruct (I5 F). split; [assumption|lia].
  - rewrite (clear_can sp C), E. unfold sp_size, zlen. cbn [sp_hs sp_empty length]. rewrite Sz'. reflexivity.
  - cbn [setq dq]. intros T.
    assert (e1 = c0) as -> by (apply P4; lia). assert (e2 = c0) as -> by (apply Q4; lia). reflexivity.
  - intros F L. destruct (I5 F) as (_ & T0).
    assert (e1 = c0) as -> by (apply P4; lia). assert (e2 = c0) as -> by (apply Q4; lia). reflexivity.
Qed.

(* ---------- resolving: the chain walk ---------- *)
Definition coro_waiters (l : list waiter) : list waiter := filter (fun w => fst w =? 0) l.
Definition witems (f : Z) (l : list waiter) : list item := map (fun w => (0, snd w, f)) (coro_waiters l).

Lemma walk_add_all f out v l : forall st sp st' sp' c cb sy,
  walk f out v st sp l = (st', sp', c, cb, sy) ->
  sp_add_all sp (witems f l) = (sp', c) /\ same3 st st' /\ live st' = live st.
Proof.
  induction l as [|w l IH]; intros st sp st' sp' c cb sy; unfold walk; fold walk.
  - intros H; inversion H; subst. split; [reflexivity|]. split; [apply same3_refl|reflexivity].
  - destruct w as [k i]. unfold witems, coro_waiters. cbn [filter fst]. fold (coro_waiters l). destruct (k =? 0) eqn:K.
    + destruct (sp_add sp (0, i, f)) as [sp1 c1] eqn:A.
      destruct (walk f out v (release_waiter st (k, i)) sp1 l) as [[[[st2 sp2] c2] cb2] sy2] eqn:Q.
      intros H; inversion H; subst; clear H.
      destruct (IH _ _ _ _ _ _ _ Q) as (E & S & Lv).
      cbn [map snd]. unfold sp_add_all; fold sp_add_all. rewrite A. fold (witems f l). rewrite E.
      split; [reflexivity|]. split; [eapply same3_trans; [apply same3_release|exact S]|]. rewrite Lv. apply live_release.
    + destruct (walk f out v (release_waiter st (k, i)) sp l) as [[[[st2 sp2] c2] cb2] sy2] eqn:Q.
      destruct (IH _ _ _ _ _ _ _ Q) as (E & S & Lv). fold (witems f l).
      destruct (k =? 2); intros H; inversion H; subst; clear H;
        (split; [exact E|]; split; [eapply same3_trans; [apply same3_release|exact S]|]; rewrite Lv; apply live_release).
Qed.

Lemma zlen_witems f l : zlen (witems f l) = zlen (coro_waiters l).
Proof. unfold witems, zlen. rewrite map_length. reflexivity. Qed.

(* ---------- one step ---------- *)
Definition frame_ok (heap : bool) (x : op) (o : obs) : Prop :=
  c_a (o_cfr o) = (if heap then frames_of x else 0) /\ 0 <= c_f (o_cfr o) /\ (heap = false -> c_f (o_cfr o) = 0).

Definition step_ok (coro heap : bool) (st : state) (x : op) (st' : state) (o : obs) : Prop :=
  Inv coro st' /\ dq_hw (dq st) <= dq_hw (dq st') /\
  (dq_hw (dq st') <= 63 -> o_cdq o = c0) /\
  (coro = false -> o_sps o <= 63 -> o_cdq o = c0) /\
  ((o = rejected /\ st' = st) \/
   (o_st o = 0 /\ frame_ok heap x o /\
    (heap = true -> c_a (o_cfr o) - c_f (o_cfr o) = live st' - live st) /\
    sp_budget (sizes st) x (o_sps o) = Some (o_csp o, sizes st'))).

Lemma rejected_ok (coro heap : bool) st x : Inv coro st -> step_ok coro heap st x st rejected.
Proof.
  intros I. unfold step_ok, rejected; cbn [o_st o_cdq]. split; [exact I|]. split; [lia|]. split; [auto|]. split; [auto|]. left; auto.
Qed.

Lemma frames_freed_ok (heap : bool) k : 0 <= k ->
  c_a (frames_freed heap k) = 0 /\ 0 <= c_f (frames_freed heap k) /\ (heap = false -> c_f (frames_freed heap k) = 0) /\
  (heap = true -> c_f (frames_freed heap k) = k).
Proof. intros K. unfold frames_freed. destruct heap; cbn [c_a c_f c0]; repeat split; try lia; discriminate. Qed.

Lemma frame_new_freed_ok (heap : bool) k : 0 <= k ->
  c_a (cadd (frame_new heap) (frames_freed heap k)) = (if heap then 1 else 0) /\
  0 <= c_f (cadd (frame_new heap) (frames_freed heap k)) /\
  (heap = false -> c_f (cadd (frame_new heap) (frames_freed heap k)) = 0) /\
  (heap = true -> c_f (cadd (frame_new heap) (frames_freed heap k)) = k).
Proof.
  intros K. unfold frames_freed, frame_new, cadd, c_alloc. destruct heap; cbn [c_a c_f c0]; repeat split; try lia; discriminate.
Qed.

Definition plain_op (x : op) : Prop :=
  match x with FResolve _ _ _ _ _ => False | MUnlock _ _ _ => False | SpFlush _ _ => False | _ => True end.

Lemma budget_plain sl x sps : plain_op x -> sp_budget sl x sps = Some (c0, sl).
Proof. destruct x; cbn; try tauto; reflexivity. Qed.

(* a step that touches no suspend point, no queue; cfr given *)
Lemma simple_ok (coro heap : bool) st x st' res sps cfr ev : Inv coro st -> same3 st st' -> plain_op x ->
  c_a cfr = (if heap then frames_of x else 0) -> 0 <= c_f cfr -> (heap = false -> c_f cfr = 0) ->
  (heap = true -> c_a cfr - c_f cfr = live st' - live st) ->
  step_ok coro heap st x st' (mkObs 0 res sps cfr c0 c0 ev).
Proof.
  intros I S P A B C L. pose proof (Inv_same3 _ _ _ S I) as I'. destruct S as (S1 & S2 & S3).
  unfold step_ok; cbn [o_st o_cdq o_sps o_csp]. split; [exact I'|]. rewrite S3. split; [lia|]. split; [auto|]. split; [auto|].
  right. split; [reflexivity|]. split; [unfold frame_ok; cbn [o_cfr]; auto|]. split; [exact L|].
  unfold sizes. rewrite S1. apply budget_plain. exact P.
Qed.

Lemma c0_frames (heap : bool) x : frames_of x = 0 -> c_a c0 = (if heap then frames_of x else 0).
Proof. intros ->. destruct heap; reflexivity. Qed.

Lemma after_start_spec coro mode st ev0 st' ev c k : Inv coro st -> mode_ok coro mode = true ->
  after_start coro mode st ev0 = (st', ev, c, k) ->
  Inv coro st' /\ slots st' = slots st /\ dq_hw (dq st) <= dq_hw (dq st') /\ 0 <= k /\
  (dq_hw (dq st') <= 63 -> c = c0) /\ (coro = false -> c = c0) /\ live st' = live st - k.
Proof.
  intros I M. unfold after_start. destruct (mode =? 1) eqn:E.
  - assert (coro = true) as -> by (unfold mode_ok in M; destruct coro; [reflexivity|exfalso; lia]).
    destruct (suspend_drain st [] []) as [[[st1 ev1] c1] k1] eqn:D. intros H; inversion H; subst; clear H.
    destruct (suspend_drain_spec _ _ _ _ _ _ _ I D) as (I' & S1 & T1 & N1 & K1 & Z1 & Lv).
    split; [exact I'|]. split; [exact S1|]. split; [exact T1|]. split; [exact K1|]. split; [exact Z1|]. split; [discriminate|exact Lv].
  - intros H; inversion H; subst; clear H. split; [exact I|]. split; [reflexivity|]. split; [lia|]. split; [lia|].
    split; [auto|]. split; [auto|lia].
Qed.

Ltac andb_split := repeat match goal with H : _ && _ = true |- _ => apply andb_prop in H; destruct H end.

(* a step that creates a coroutine, starts it at once and possibly suspends the driver (modes 0, 1) *)
Lemma started_ok (coro heap : bool) st x sta st' mode ev0 ev c k res extra :
  Inv coro st -> same3 st sta -> mode_ok coro mode = true -> frames_of x = 1 -> plain_op x -> 0 <= extra ->
  live sta = live st + 1 - extra ->
  after_start coro mode sta ev0 = (st', ev, c, k) ->
  step_ok coro heap st x st' (mkObs 0 res 0 (cadd (frame_new heap) (frames_freed heap (k + extra))) c0 c ev).
Proof.
  intros I S M F P X La A. pose proof (Inv_same3 _ _ _ S I) as Ia. destruct S as (S1 & S2 & S3).
  destruct (after_start_spec _ _ _ _ _ _ _ _ Ia M A) as (I' & Sl & T & K & Z & Zn & Lv).
  unfold step_ok; cbn [o_st o_cdq o_sps o_csp]. rewrite <- S3. split; [exact I'|]. split; [exact T|]. split; [exact Z|].
  split; [auto|].
  right. split; [reflexivity|]. destruct (frame_new_freed_ok heap (k + extra) ltac:(lia)) as (A1 & A2 & A3 & A4).
  split; [unfold frame_ok; cbn [o_cfr]; rewrite F; auto|]. split.
  - cbn [o_cfr]. intros Hh. rewrite A1, (A4 Hh), Hh. lia.
  - unfold sizes. rewrite Sl, S1. apply budget_plain. exact P.
Qed.

(* a step that creates a coroutine whose start is queued (mode 2, coroutine mode) *)
Lemma deferred_ok (heap : bool) st x it st' c res :
  Inv true st -> frames_of x = 1 -> plain_op x -> defer_start st it = (st', c) ->
  step_ok true heap st x st' (mkObs 0 res 1 (frame_new heap) c0 c []).
Proof.
  intros (I1 & I2 & I3 & I4 & I5) F P. unfold defer_start. destruct (dq_push (dq st)) as [d1 c1] eqn:D.
  intros H; inversion H; subst; clear H. apply dq_push_spec in D. destruct D as (D1 & D2 & D5 & D3 & D4).
  unfold step_ok; cbn [o_st o_cdq o_sps o_csp addlive setq dq slots rq live]. unfold node_len in *.
  split; [|split; [lia|split; [|split; [discriminate|]]]].
  - unfold Inv; cbn [slots rq dq addlive setq]. split; [exact I1|]. rewrite zlen_app. change (zlen [it]) with 1. split; [lia|]. split; [lia|]. split; [lia|discriminate].
  - intros T. apply D4. pose proof (zlen_nonneg (rq st)). lia.
  - right. split; [reflexivity|]. split.
    + unfold frame_ok; cbn [o_cfr]. rewrite F. unfold frame_new, c_alloc. destruct heap; cbn; repeat split; try lia; discriminate.
    + split; [cbn [o_cfr]; intros ->; cbn; lia|]. unfold sizes; cbn [slots]. apply budget_plain. exact P.
Qed.

Lemma clear_cost_0 : clear_cost 0 = c0. Proof. reflexivity. Qed.
Lemma clear_cost_1 : clear_cost 1 = c0. Proof. reflexivity. Qed.
Lemma grow_cost_01 : grow_cost 0 1 = c0. Proof. reflexivity. Qed.

Lemma sp_size_nonneg s : 0 <= sp_size s. Proof. apply zlen_nonneg. Qed.

(* common assembly for the three ops that hand a suspend point to `dispose` *)
Lemma disposed_ok (coro heap : bool) st x sta st' how s sp ev csp0 csp cdq0 cdq k sps res evs :
  Inv coro st -> Inv coro sta -> slots sta = slots st -> live sta = live st -> dq_hw (dq st) <= dq_hw (dq sta) ->
  sp_can sp -> frames_of x = 0 ->
  (dq_hw (dq sta) <= 63 -> cdq0 = c0) -> (coro = false -> sp_size sp <= 63 -> cdq0 = c0) ->
  dispose coro how s sta sp = (st', ev, csp, cdq, k, sps) ->
  ((if how =? 2
    then sps = sp_size (gets st s) + sp_size sp /\
         csp = cadd (grow_cost (sp_size (gets st s)) sps) (clear_cost (sp_size sp)) /\
         sizes st' = upd (sizes st) s sps
    else sps = sp_size sp /\ csp = clear_cost (sp_size sp) /\ sizes st' = sizes st) ->
   sp_budget (sizes st) x sps = Some (cadd csp0 csp, sizes st')) ->
  step_ok coro heap st x st' (mkObs 0 res sps (frames_freed heap k) (cadd csp0 csp) (cadd cdq0 cdq) evs).
Proof.
  intros I Ia Sl Lv Hw C F Z0 Zn D B.
  destruct (dispose_spec _ _ _ _ _ _ _ _ _ _ _ Ia C D) as (I' & T & Z & Zc & K & Lv' & X).
  assert (sp_size sp <= sps) as Le.
  { destruct (how =? 2); destruct X as (-> & _); [pose proof (sp_size_nonneg (gets sta s))|]; lia. }
  unfold step_ok; cbn [o_st o_cdq o_sps o_csp]. split; [exact I'|]. split; [lia|]. split.
  { intros H63. rewrite Z by exact H63. rewrite Z0 by lia. reflexivity. }
  split.
  { intros Fc L63. rewrite (Zc Fc), (Zn Fc) by lia. reflexivity. }
  right. split; [reflexivity|]. destruct (frames_freed_ok heap k K) as (A1 & A2 & A3 & A4).
  split; [unfold frame_ok; cbn [o_cfr]; rewrite F, A1; split; [destruct heap; reflexivity|auto]|].
  split; [cbn [o_cfr]; intros Hh; rewrite A1, (A4 Hh); lia|].
  assert (gets sta s = gets st s) as G by (unfold gets; rewrite Sl; reflexivity).
  assert (sizes sta = sizes st) as Ss by (unfold sizes; rewrite Sl; reflexivity).
  apply B. destruct (how =? 2); [rewrite G, Ss in X; exact X|].
  destruct X as (X1 & X2 & X3). split; [exact X1|]. split; [exact X2|]. unfold sizes. rewrite X3, Sl. reflexivity.
Qed.

Lemma await_coro_ok coro heap st x f w mode : Inv coro st -> frames_of x = 1 -> plain_op x ->
  step_ok coro heap st x (fst (await_coro_step coro heap st f w mode)) (snd (await_coro_step coro heap st f w mode)).
Proof.
  intros I F1 P1. unfold await_coro_step.
    destruct (inr f NF && mode_ok coro mode && ((f_st (getf st f) =? 2) || (f_st (getf st f) =? 3))) eqn:C;
      cbn [fst snd]; [|apply rejected_ok; exact I].
    andb_split. destruct (mode =? 2) eqn:M2.
    { assert (coro = true) as -> by (unfold mode_ok in *; destruct coro; [reflexivity|exfalso; lia]).
      destruct (defer_start st (2, w, f)) as [st1 c] eqn:D. cbn [fst snd].
      exact (deferred_ok heap st x _ st1 c 0 I F1 P1 D). }
    destruct (f_st (getf st f) =? 3).
    + destruct (after_start coro mode st [(w, f_out (getf st f), f_val (getf st f))]) as [[[st1 ev] c] k] eqn:A. cbn [fst snd].
      eapply started_ok; try exact A; try exact F1; try exact P1; auto with s3; cbn; try tauto; lia.
    + match goal with |- context [after_start coro mode ?sa ?e] => destruct (after_start coro mode sa e) as [[[st1 ev] c] k] eqn:A end.
      cbn [fst snd]. replace k with (k + 0) by lia.
      eapply started_ok; try exact A; try exact F1; try exact P1; auto with s3; cbn; try tauto; try lia.
      eapply same3_trans; [apply same3_setf|apply same3_addlive].
Qed.

Theorem step_spec coro heap st x : Inv coro st ->
  step_ok coro heap st x (fst (step coro heap st x)) (snd (step coro heap st x)).
Proof.
  intros I. destruct x; unfold step.
  - (* FNew *)
    match goal with |- context [if ?c then _ else (st, rejected)] => destruct c end; cbn [fst snd]; [|apply rejected_ok; exact I].
    apply simple_ok; auto with s3; try apply c0_frames; cbn; try reflexivity; try lia; intros; lia.
  - (* FGetP *)
    match goal with |- context [if ?c then _ else (st, rejected)] => destruct c end; cbn [fst snd]; [|apply rejected_ok; exact I].
    apply simple_ok; auto with s3; try apply c0_frames; cbn; try reflexivity; try lia; intros; lia.
  - (* FAwaitCoro *) apply await_coro_ok; [exact I|reflexivity|exact Logic.I].
  - (* FAwaitSync *)
    match goal with |- context [if ?c then _ else (st, rejected)] => destruct c end; cbn [fst snd]; [|apply rejected_ok; exact I].
    destruct (f_st (getf st f) =? 3); cbn [fst snd].
    + apply simple_ok; auto with s3; try apply c0_frames; cbn; try reflexivity; try lia; intros; lia.
    + apply simple_ok; try apply c0_frames; cbn; try reflexivity; try lia; auto; try (intros; lia).
      eapply same3_trans; [apply same3_setf|apply same3_seth].
  - (* FAwaitCb *)
    match goal with |- context [if ?c then _ else (st, rejected)] => destruct c end; cbn [fst snd]; [|apply rejected_ok; exact I].
    destruct (f_st (getf st f) =? 3); cbn [fst snd].
    + apply simple_ok; auto with s3; try apply c0_frames; cbn; try reflexivity; try lia; intros; lia.
    + apply simple_ok; try apply c0_frames; cbn; try reflexivity; try lia; auto; try (intros; lia).
      eapply same3_trans; [apply same3_setf|apply same3_setc].
  - (* FAwaitCbA *)
    destruct (inr cap 3); [|cbn [fst snd]; apply rejected_ok; exact I].
    apply await_coro_ok; [exact I|reflexivity|exact Logic.I].
  - (* FResolve *)
    cbv zeta.
    match goal with |- context [if ?c then _ else (st, rejected)] => destruct c end; cbn [fst snd]; [|apply rejected_ok; exact I].
    match goal with |- context [walk ?a ?b ?c ?d ?e ?g] => destruct (walk a b c d e g) as [[[[st2 sp] csp] cb] sy] eqn:W end.
    destruct (walk_add_all _ _ _ _ _ _ _ _ _ _ _ W) as (Aw & Sw & Lw).
    destruct (add_all_can _ _ _ _ sp_can_empty Aw) as (Csp & Szsp & Ecsp).
    change (sp_size sp_empty) with 0 in Szsp, Ecsp.
    assert (same3 st st2) as S2 by (eapply same3_trans; [apply (same3_setf st)|exact Sw]).
    pose proof (Inv_same3 _ _ _ S2 I) as I2. cbn [setf live] in Lw.
    pose proof (sp_size_nonneg sp) as Nsp.
    destruct (how =? how mod 10) eqn:Hcsp.
    + (* plain resolution *)
      match goal with |- context [dispose ?a ?b ?c ?d ?e] => destruct (dispose a b c d e) as [[[[[st3 ev] csp2] cdq] k] sps] eqn:D end.
      cbn [fst snd]. rewrite (cadd_c0_l csp2).
      eapply (disposed_ok coro heap st (FResolve f kind how s v) st2 st3 (how mod 10) s sp ev csp csp2 c0 cdq k sps _ _ I I2);
        try exact D; try (destruct S2 as (? & ? & Q3); first [assumption|rewrite Q3; lia]); auto.
      intros X. cbn [sp_budget]. rewrite Hcsp.
      destruct (how mod 10 =? 2) eqn:H2.
      * destruct X as (X1 & X2 & X3). rewrite sizes_nth.
        replace (sps - sp_size (gets st s)) with (sp_size sp) by lia.
        replace (0 <=? sp_size sp) with true by lia. rewrite X3, X2, Ecsp. first [reflexivity|do 2 f_equal; cost_eq].
      * destruct X as (X1 & X2 & X3). replace (sps - 0) with (sp_size sp) by lia.
        replace (0 <=? sp_size sp) with true by lia. rewrite X3, X2, Ecsp. first [reflexivity|do 2 f_equal; cost_eq].
    + (* inside create_suspend_point *)
      destruct (csp_wrap st2 sp) as [[[st2' ss] csp1] cdq1] eqn:Wr.
      destruct (csp_wrap_spec _ _ _ _ _ _ _ I2 Csp Wr) as (I2' & Sl' & Lv' & Hw' & Css & Szss & E1 & Z1 & Zn1).
      match goal with |- context [dispose ?a ?b ?c ?d ?e] => destruct (dispose a b c d e) as [[[[[st3 ev] csp2] cdq] k] sps] eqn:D end.
      cbn [fst snd].
      replace (cadd csp (cadd csp1 csp2)) with (cadd (cadd csp csp1) csp2) by cost_eq.
      destruct S2 as (Q1 & Q2 & Q3).
      eapply (disposed_ok coro heap st (FResolve f kind how s v) st2' st3 (how mod 10) s ss ev (cadd csp csp1) csp2 cdq1 cdq k sps _ _ I I2');
        try exact D; auto; try congruence; try (rewrite <- Q3; exact Hw'); try (rewrite Szss; exact Zn1).
      intros X. cbn [sp_budget]. rewrite Hcsp. rewrite Szss in X.
      destruct (how mod 10 =? 2) eqn:H2.
      * destruct X as (X1 & X2 & X3). rewrite sizes_nth.
        replace (sps - sp_size (gets st s)) with (sp_size sp) by lia.
        replace (0 <=? sp_size sp) with true by lia. rewrite X3, X2, E1, Ecsp. first [reflexivity|do 2 f_equal; cost_eq].
      * destruct X as (X1 & X2 & X3). replace (sps - 0) with (sp_size sp) by lia.
        replace (0 <=? sp_size sp) with true by lia. rewrite X3, X2, E1, Ecsp. first [reflexivity|do 2 f_equal; cost_eq].
  - (* FDestroy *)
    match goal with |- context [if ?c then _ else (st, rejected)] => destruct c end; cbn [fst snd]; [|apply rejected_ok; exact I].
    apply simple_ok; auto with s3; try apply c0_frames; cbn; try reflexivity; try lia; intros; lia.
  - (* MTry *)
    destruct (inr m NM); cbn [fst snd]; [|apply rejected_ok; exact I].
    destruct (m_st (getm st m) =? 0); cbn [fst snd]; apply simple_ok; auto with s3; try apply c0_frames; cbn; try reflexivity; try lia; intros; lia.
  - (* MLockCoro *)
    destruct (inr m NM && mode_ok coro mode) eqn:C; cbn [fst snd]; [|apply rejected_ok; exact I].
    andb_split. destruct (mode =? 2) eqn:M2.
    { assert (coro = true) as -> by (unfold mode_ok in *; destruct coro; [reflexivity|exfalso; lia]).
      destruct (defer_start st (3, w, m)) as [st1 c] eqn:D. cbn [fst snd].
      exact (deferred_ok heap st (MLockCoro m w mode) _ st1 c 0 I eq_refl Logic.I D). }
    destruct (m_st (getm st m) =? 0).
    + match goal with |- context [after_start coro mode ?sa ?e] => destruct (after_start coro mode sa e) as [[[st1 ev] c] k] eqn:A end.
      cbn [fst snd]. eapply started_ok; try exact A; auto with s3; cbn; try tauto; lia.
    + match goal with |- context [after_start coro mode ?sa ?e] => destruct (after_start coro mode sa e) as [[[st1 ev] c] k] eqn:A end.
      cbn [fst snd]. replace k with (k + 0) by lia.
      eapply started_ok; try exact A; auto with s3; cbn; try tauto; try lia.
      eapply same3_trans; [apply same3_setm|apply same3_addlive].
  - (* MLockSync *)
    match goal with |- context [if ?c then _ else (st, rejected)] => destruct c end; cbn [fst snd]; [|apply rejected_ok; exact I].
    destruct (m_st (getm st m) =? 0); cbn [fst snd].
    + apply simple_ok; auto with s3; try apply c0_frames; cbn; try reflexivity; try lia; intros; lia.
    + apply simple_ok; try apply c0_frames; cbn; try reflexivity; try lia; auto; try (intros; lia).
      eapply same3_trans; [apply same3_setm|apply same3_seth].
  - (* MLockCb *)
    match goal with |- context [if ?c then _ else (st, rejected)] => destruct c end; cbn [fst snd]; [|apply rejected_ok; exact I].
    destruct (m_st (getm st m) =? 0); cbn [fst snd].
    + apply simple_ok; auto with s3; try apply c0_frames; cbn; try reflexivity; try lia; intros; lia.
    + apply simple_ok; try apply c0_frames; cbn; try reflexivity; try lia; auto; try (intros; lia).
      eapply same3_trans; [apply same3_setm|apply same3_setc].
  - (* MUnlock *)
    match goal with |- context [if ?c then _ else (st, rejected)] => destruct c end; cbn [fst snd]; [|apply rejected_ok; exact I].
    assert (forall sta sp st3 ev csp0 csp2 cdq k sps evs, same3 st sta -> live sta = live st -> sp_can sp ->
              (sp_size sp = 0 \/ sp_size sp = 1) -> csp0 = c0 ->
              dispose coro how s sta sp = (st3, ev, csp2, cdq, k, sps) ->
              step_ok coro heap st (MUnlock m how s) st3 (mkObs 0 0 sps (frames_freed heap k) (cadd csp0 csp2) cdq evs)) as Gen.
    { intros sta sp st3 ev csp0 csp2 cdq k sps evs S Lv C Sz E0 D.
      pose proof (Inv_same3 _ _ _ S I) as Ia. destruct S as (Q1 & Q2 & Q3).
      rewrite <- (cadd_c0_l cdq).
      eapply (disposed_ok coro heap st (MUnlock m how s) sta st3 how s sp ev csp0 csp2 c0 cdq k sps _ _ I Ia);
        try exact D; auto; try (rewrite Q3; lia).
      intros X. cbn [sp_budget]. subst csp0. destruct (how =? 2) eqn:H2.
      - destruct X as (X1 & X2 & X3). rewrite sizes_nth.
        replace ((0 <=? sps - sp_size (gets st s)) && (sps - sp_size (gets st s) <=? 1)) with true by lia.
        rewrite X3, X2.
        destruct Sz as [Sz|Sz]; rewrite Sz; [rewrite clear_cost_0|rewrite clear_cost_1]; first [reflexivity|do 2 f_equal; cost_eq].
      - destruct X as (X1 & X2 & X3). replace ((0 <=? sps) && (sps <=? 1)) with true by lia.
        rewrite X3, X2.
        destruct Sz as [Sz|Sz]; rewrite Sz; [rewrite clear_cost_0|rewrite clear_cost_1]; first [reflexivity|do 2 f_equal; cost_eq]. }
    destruct (m_q (getm st m)) as [|w q].
    + match goal with |- context [dispose ?a ?b ?c ?d ?e] => destruct (dispose a b c d e) as [[[[[st3 ev] csp2] cdq] k] sps] eqn:D end.
      cbn [fst snd]. rewrite <- (cadd_c0_l csp2).
      eapply Gen; try exact D; auto with s3. apply sp_can_empty.
    + destruct w as [k0 i]. destruct (k0 =? 0).
      * destruct (sp_add sp_empty (1, i, m)) as [sp csp] eqn:A.
        match goal with |- context [dispose ?a ?b ?c ?d ?e] => destruct (dispose a b c d e) as [[[[[st3 ev] csp2] cdq] k] sps] eqn:D end.
        cbn [fst snd].
        destruct (add_can _ _ _ _ sp_can_empty A) as (C1 & Sz1 & E1). change (sp_size sp_empty) with 0 in Sz1, E1.
        eapply Gen; try exact D; auto.
        -- eapply same3_trans; [apply same3_release|apply same3_setm].
        -- cbn [setm live]. apply live_release.
        -- rewrite E1. replace (sp_size sp) with 1 by lia. apply grow_cost_01.
      * match goal with |- context [dispose ?a ?b ?c ?d ?e] => destruct (dispose a b c d e) as [[[[[st3 ev] csp2] cdq] k] sps] eqn:D end.
        cbn [fst snd]. rewrite <- (cadd_c0_l csp2).
        eapply Gen; try exact D; auto.
        -- eapply same3_trans; [apply same3_release|apply same3_setm].
        -- cbn [setm live]. apply live_release.
        -- apply sp_can_empty.
  - (* GNew *)
    match goal with |- context [if ?c then _ else (st, rejected)] => destruct c end; cbn [fst snd]; [|apply rejected_ok; exact I].
    apply simple_ok; auto; try (cbn; tauto).
    + eapply same3_trans; [apply same3_setg|apply same3_addlive].
    + unfold frame_new. destruct heap; reflexivity.
    + unfold frame_new. destruct heap; cbn; lia.
    + intros ->. reflexivity.
    + intros ->. cbn. lia.
  - (* GNext *)
    match goal with |- context [if ?c then _ else (st, rejected)] => destruct c end; cbn [fst snd]; [|apply rejected_ok; exact I].
    destruct (nth (n g) (gens st) None) as [[[cur k] a]|]; cbn [fst snd]; [|apply rejected_ok; exact I].
    destruct ((6 <=? how) && ((a =? 1) || ((how <? 8) && (k <? cur)))); cbn [fst snd]; [apply rejected_ok; exact I|].
    destruct (how =? 8); [|destruct (cur <? k); [|destruct (cur =? k); [|destruct (how mod 3 =? 1)]]]; cbn [fst snd];
      try (apply rejected_ok; exact I); apply simple_ok; auto with s3; try apply c0_frames; cbn; try reflexivity; try lia; intros; lia.
  - (* GDestroy *)
    destruct (inr g NG); cbn [fst snd]; [|apply rejected_ok; exact I].
    destruct (nth (n g) (gens st) None); cbn [fst snd]; [|apply rejected_ok; exact I].
    destruct (frames_freed_ok heap 1 ltac:(lia)) as (A & B & C & D).
    apply simple_ok; auto; try (cbn; tauto).
    + eapply same3_trans; [apply same3_setg|apply same3_addlive].
    + rewrite A. destruct heap; reflexivity.
    + intros Hh. rewrite A, (D Hh). cbn. lia.
  - (* SpFlush *)
    match goal with |- context [if ?c then _ else (st, rejected)] => destruct c eqn:Cnd end; cbn [fst snd]; [|apply rejected_ok; exact I].
    match goal with |- context [dispose ?a ?b ?c ?d ?e] => destruct (dispose a b c d e) as [[[[[st3 ev] csp2] cdq] k] sps] eqn:D end.
    cbn [fst snd].
    assert (Inv coro (sets st s sp_empty)) as Ia.
    { destruct I as (I1 & I2). unfold Inv; cbn [sets slots rq dq]. split; [|exact I2]. apply Forall_set_nth; [exact I1|apply sp_can_empty]. }
    assert (sp_can (gets st s)) as Cg by (apply gets_can; apply I).
    assert (how =? 2 = false) as H2 by (andb_split; lia).
    destruct (dispose_spec _ _ _ _ _ _ _ _ _ _ _ Ia Cg D) as (I' & T & Z & Zc & K & Lv' & X).
    rewrite H2 in X. destruct X as (X1 & X2 & X3).
    unfold step_ok; cbn [o_st o_cdq o_sps o_csp]. cbn [sets dq live] in T, Lv'.
    split; [exact I'|]. split; [exact T|]. split; [exact Z|]. split; [auto|].
    right. split; [reflexivity|]. destruct (frames_freed_ok heap k K) as (A1 & A2 & A3 & A4).
    split; [unfold frame_ok; cbn [o_cfr]; rewrite A1; split; [destruct heap; reflexivity|auto]|].
    split; [cbn [o_cfr]; intros Hh; rewrite A1, (A4 Hh); lia|].
    cbn [sp_budget]. rewrite X1, X2. unfold sizes at 2. rewrite X3. cbn [sets slots]. unfold upd. rewrite map_set_nth. reflexivity.
  - (* Pause *)
    destruct coro; cbn [fst snd]; [|apply rejected_ok; exact I].
    destruct (suspend_drain st [] []) as [[[st1 ev] c] k] eqn:D. cbn [fst snd].
    destruct (suspend_drain_spec _ _ _ _ _ _ _ I D) as (I' & S1 & T1 & N1 & K1 & Z1 & Lv).
    unfold step_ok; cbn [o_st o_cdq o_sps o_csp]. split; [exact I'|]. split; [exact T1|]. split; [exact Z1|]. split; [discriminate|].
    right. split; [reflexivity|]. destruct (frames_freed_ok heap k K1) as (A1 & A2 & A3 & A4).
    split; [unfold frame_ok; cbn [o_cfr]; rewrite A1; split; [destruct heap; reflexivity|auto]|].
    split; [cbn [o_cfr]; intros Hh; rewrite A1, (A4 Hh); lia|].
    unfold sizes. rewrite S1. reflexivity.
  - (* PMove *)
    match goal with |- context [if ?c then _ else (st, rejected)] => destruct c end; cbn [fst snd]; [|apply rejected_ok; exact I].
    apply simple_ok; auto with s3; try apply c0_frames; cbn; try reflexivity; try lia; intros; lia.
  - (* CfStart *)
    match goal with |- context [if ?c then _ else (st, rejected)] => destruct c end; cbn [fst snd]; [|apply rejected_ok; exact I].
    destruct (mode =? 3); cbn [fst snd]; apply simple_ok; auto with s3; try apply c0_frames; cbn; try reflexivity; try lia; intros; lia.
  - (* CfResolve *)
    match goal with |- context [if ?c then _ else (st, rejected)] => destruct c end; cbn [fst snd]; [|apply rejected_ok; exact I].
    apply simple_ok; auto with s3; try apply c0_frames; cbn; try reflexivity; try lia; intros; lia.
  - (* OBad *) cbn [fst snd]. apply rejected_ok; exact I.
Qed.

(* ---------- runs ---------- *)
Arguments step : simpl never.

Lemma run_facts coro heap l : forall st, Inv coro st ->
  Inv coro (snd (run_from coro heap st l)) /\
  dq_hw (dq st) <= dq_hw (dq (snd (run_from coro heap st l))) /\
  Forall2 (fun x o => exists sa sb, Inv coro sa /\ step_ok coro heap sa x sb o /\
                      dq_hw (dq sb) <= dq_hw (dq (snd (run_from coro heap st l))))
          l (fst (run_from coro heap st l)).
Proof.
  induction l as [|x l IH]; intros st I; cbn [run_from].
  - cbn [fst snd]. split; [exact I|]. split; [lia|constructor].
  - pose proof (step_spec coro heap st x I) as S.
    destruct (step coro heap st x) as [st1 o] eqn:E. cbn [fst snd] in S.
    assert (Inv coro st1) as I1 by apply S.
    destruct (IH st1 I1) as (J1 & J2 & J3).
    destruct (run_from coro heap st1 l) as [os st2] eqn:R. cbn [fst snd] in *.
    split; [exact J1|]. split; [destruct S as (_ & T & _); lia|].
    constructor; [|exact J3]. exists st, st1. split; [exact I|]. split; [exact S|exact J2].
Qed.

Lemma Forall2_impl' {A B} (P Q : A -> B -> Prop) l l' : (forall a b, P a b -> Q a b) -> Forall2 P l l' -> Forall2 Q l l'.
Proof. intros H F. induction F; constructor; auto. Qed.

Lemma clear_le3 k : k <= 3 -> clear_cost k = c0.
Proof.
  intros K. destruct (Z_lt_le_dec k 0) as [N|N]; [|apply clear_small; assumption].
  unfold clear_cost, mk_sp, n. destruct k; try lia. reflexivity.
Qed.

(* with at most three handles in the suspend point of the step, the budget is zero *)
Lemma budget_small st x sps c sl' : sp_budget (sizes st) x sps = Some (c, sl') -> sps <= 3 -> c = c0.
Proof.
  destruct x; cbn [sp_budget]; try (intros H _; inversion H; reflexivity).
  - (* FResolve *)
    intros H L. set (old := if how mod 10 =? 2 then nth (n s) (sizes st) 0 else 0) in *.
    assert (0 <= old) as O by (subst old; destruct (how mod 10 =? 2); [rewrite sizes_nth; apply sp_size_nonneg|lia]).
    destruct (0 <=? sps - old) eqn:K; [|discriminate].
    assert (grow_cost 0 (sps - old) = c0) as G1 by (apply grow_small; lia).
    assert (clear_cost (sps - old) = c0) as G2 by (apply clear_le3; lia).
    assert (grow_cost old sps = c0) as G3 by (apply grow_small; lia).
    rewrite G1, G2, G3 in H. destruct (how =? how mod 10); destruct (how mod 10 =? 2); inversion H; reflexivity.
  - (* MUnlock *)
    intros H L. destruct (how =? 2).
    + destruct ((0 <=? sps - nth (n s) (sizes st) 0) && (sps - nth (n s) (sizes st) 0 <=? 1)) eqn:K; [|discriminate].
      inversion H. apply grow_small; [rewrite sizes_nth; apply sp_size_nonneg|lia|lia].
    + destruct ((0 <=? sps) && (sps <=? 1)); inversion H; reflexivity.
  - (* SpFlush *)
    intros H L. inversion H. apply clear_le3. exact L.
Qed.

(* what the property demands of one accepted step *)
Definition step_clean (heap : bool) (x : op) (o : obs) : Prop :=
  o = rejected \/ (o_st o = 0 /\ (o_sps o <= 3 -> o_other o = c0) /\ frame_ok heap x o).

(* normal mode: every program *)
Theorem zero_alloc_normal heap ops :
  Forall2 (step_clean heap) ops (fst (run_from false heap st0 ops)).
Proof.
  destruct (run_facts false heap ops st0 (Inv_st0 false)) as (_ & _ & F).
  eapply Forall2_impl'; [|exact F]. intros x o (sa & sb & Ia & S & _).
  destruct S as (_ & _ & _ & Zn & [(R & _)|(A & B & _ & Bud)]); [left; exact R|].
  right. split; [exact A|]. split; [|exact B].
  intros L. unfold o_other. rewrite (budget_small _ _ _ _ _ Bud L), (Zn eq_refl) by lia. reflexivity.
Qed.

(* coroutine mode: every program whose ready-queue cursor stays inside the first node (it never reaches position 64) *)
Theorem zero_alloc_below_node_boundary heap ops :
  dq_hw (dq (snd (run_from true heap st0 ops))) <= 63 ->
  Forall2 (step_clean heap) ops (fst (run_from true heap st0 ops)).
Proof.
  intros T. destruct (run_facts true heap ops st0 (Inv_st0 true)) as (_ & _ & F).
  eapply Forall2_impl'; [|exact F]. intros x o (sa & sb & Ia & S & Tb).
  destruct S as (_ & _ & Z & _ & [(R & _)|(A & B & _ & Bud)]); [left; exact R|].
  right. split; [exact A|]. split; [|exact B].
  intros L. unfold o_other. rewrite (budget_small _ _ _ _ _ Bud L), Z by lia. reflexivity.
Qed.

(* ---------- the strict oracle accepts exactly these traces ---------- *)
Lemma ceq_refl c : ceq (mkCost (c_a c) (c_ab c) (c_f c) (c_fb c)) c = true.
Proof. unfold ceq; cbn [c_a c_ab c_f c_fb]. rewrite !Z.eqb_refl. reflexivity. Qed.

Lemma line_ok_step coro heap st x st' o : step_ok coro heap st x st' o -> o_cdq o = c0 ->
  line_ok heap (sizes st) x (encode_obs o) = Some (sizes st').
Proof.
  intros (_ & _ & _ & _ & [(-> & ->)|(A & (D1 & D2 & D3) & _ & Bud)]) Z; [reflexivity|].
  unfold encode_obs, line_ok. rewrite A, Bud. rewrite D1, Z.eqb_refl. cbn [andb].
  replace (0 <=? c_f (o_cfr o)) with true by lia. cbn [andb].
  assert ((heap || (c_f (o_cfr o) =? 0)) = true) as -> by (destruct heap; [reflexivity|rewrite D3 by reflexivity; reflexivity]).
  cbn [andb]. unfold o_other. rewrite Z, cadd_c0_r, ceq_refl. reflexivity.
Qed.

Lemma lines_ok_run coro heap (P : state -> obs -> Prop) l : forall st, Inv coro st ->
  (forall sa x sb o, step_ok coro heap sa x sb o -> P sb o -> o_cdq o = c0) ->
  Forall2 (fun x o => exists sa sb, Inv coro sa /\ step_ok coro heap sa x sb o /\ P sb o) l (fst (run_from coro heap st l)) ->
  lines_ok heap (sizes st) l (map encode_obs (fst (run_from coro heap st l))) = true.
Proof.
  induction l as [|x l IH]; intros st I HP F; cbn [run_from] in *; [reflexivity|].
  pose proof (step_spec coro heap st x I) as S.
  destruct (step coro heap st x) as [st1 o] eqn:E. cbn [fst snd] in S.
  destruct (run_from coro heap st1 l) as [os st2] eqn:R. cbn [fst snd map lines_ok] in *.
  inversion F as [|? ? ? ? (sa & sb & _ & Sab & Pab) F']; subst.
  assert (o_cdq o = c0) as Z.
  { destruct S as (_ & _ & _ & _ & [(-> & _)|_]); [reflexivity|].
    (* the witness states of F are not syntactically st/st1: use the obs-only part of P through HP on the real step *)
    eapply HP; [exact Sab|exact Pab]. }
  rewrite (line_ok_step _ _ _ _ _ _ S Z).
  assert (Inv coro st1) as I1 by apply S.
  specialize (IH st1 I1 HP). rewrite R in IH. cbn [fst] in IH. apply IH. exact F'.
Qed.

Lemma Forall2_and_right {A B} (R : A -> B -> Prop) (Q : B -> Prop) l tr :
  Forall2 R l tr -> Forall Q tr -> Forall2 (fun x o => R x o /\ Q o) l tr.
Proof. intros F. induction F; intros HQ; inversion HQ; subst; constructor; auto. Qed.

Lemma sizes_st0 : sizes st0 = repeat 0 (n NS). Proof. reflexivity. Qed.

(* normal mode: every program whose create_suspend_point calls stay below 64 handles *)
Theorem oracle_normal heap ops :
  Forall (fun o => o_sps o <= 63) (fst (run_from false heap st0 (map decode ops))) ->
  al_oracle heap ops (al_run false heap ops) = true.
Proof.
  intros H. unfold al_oracle, al_run. rewrite <- sizes_st0.
  apply (lines_ok_run false heap (fun _ o => o_sps o <= 63)); [apply Inv_st0| |].
  - intros sa x sb o S L. destruct S as (_ & _ & _ & Zn & _). apply Zn; [reflexivity|exact L].
  - destruct (run_facts false heap (map decode ops) st0 (Inv_st0 false)) as (_ & _ & F).
    pose proof (Forall2_and_right _ _ _ _ F H) as F2.
    eapply Forall2_impl'; [|exact F2]. intros x o ((sa & sb & Ia & S & _) & L). exists sa, sb. auto.
Qed.

Theorem oracle_below_node_boundary heap ops :
  dq_hw (dq (snd (run_from true heap st0 (map decode ops)))) <= 63 ->
  al_oracle heap ops (al_run true heap ops) = true.
Proof.
  intros T. unfold al_oracle, al_run. rewrite <- sizes_st0.
  apply (lines_ok_run true heap (fun sb _ => dq_hw (dq sb) <= 63)); [apply Inv_st0| |].
  - intros sa x sb o S L. destruct S as (_ & _ & Z & _). apply Z. exact L.
  - destruct (run_facts true heap (map decode ops) st0 (Inv_st0 true)) as (_ & _ & F).
    eapply Forall2_impl'; [|exact F]. intros x o (sa & sb & Ia & S & L). exists sa, sb. split; [exact Ia|]. split; [exact S|lia].
Qed.

(* the suspend point cost of every accepted step of every program in every mode is the budget computed from handle
   counts alone: arrays of 6, 12, 24 ... handles from the fourth handle on, nothing else *)
Theorem sp_cost_is_budget coro heap st x : Inv coro st ->
  let r := step coro heap st x in
  o_st (snd r) = 0 -> sp_budget (sizes st) x (o_sps (snd r)) = Some (o_csp (snd r), sizes (fst r)).
Proof.
  intros I r A. subst r. destruct (step_spec coro heap st x I) as (_ & _ & _ & _ & [(R & _)|(_ & _ & _ & B)]).
  - rewrite R in A. discriminate.
  - exact B.
Qed.

(* ---------- allocations = frames; live-frame balance ---------- *)
Fixpoint total_fa (tr : list obs) : Z := match tr with [] => 0 | o :: t => c_a (o_cfr o) + total_fa t end.
Fixpoint total_ff (tr : list obs) : Z := match tr with [] => 0 | o :: t => c_f (o_cfr o) + total_ff t end.
Fixpoint total_other (tr : list obs) : Z := match tr with [] => 0 | o :: t => c_a (o_other o) + total_other t end.
Fixpoint frames_created (ops : list op) (tr : list obs) : Z :=
  match ops, tr with
  | x :: t, o :: u => (if o_st o =? 0 then frames_of x else 0) + frames_created t u
  | _, _ => 0
  end.

(* every mode, every program: frame allocations = coroutines the program created; none under a non-heap storage *)
Theorem alloc_equals_frames coro heap ops :
  total_fa (fst (run_from coro heap st0 ops)) =
  if heap then frames_created ops (fst (run_from coro heap st0 ops)) else 0.
Proof.
  destruct (run_facts coro heap ops st0 (Inv_st0 coro)) as (_ & _ & F).
  induction F as [|x o l tr (sa & sb & _ & S & _) F IH]; cbn [total_fa frames_created]; [destruct heap; reflexivity|].
  rewrite IH. destruct S as (_ & _ & _ & _ & [(-> & _)|(A & (D1 & _) & _)]).
  - cbn. destruct heap; reflexivity.
  - rewrite A, D1. cbn. destruct heap; lia.
Qed.

(* frames allocated - frames freed = coroutines still alive (suspended, queued, not yet started) + live generators:
   `live` is raised exactly where a created coroutine is left unfinished or a generator is created, and lowered exactly
   where a coroutine runs to its end or a generator is destroyed *)
Lemma live_balance_from coro l : forall st, Inv coro st ->
  total_fa (fst (run_from coro true st l)) - total_ff (fst (run_from coro true st l)) =
  live (snd (run_from coro true st l)) - live st.
Proof.
  induction l as [|x l IH]; intros st I; cbn [run_from]; [cbn; lia|].
  pose proof (step_spec coro true st x I) as S.
  destruct (step coro true st x) as [st1 o] eqn:E. cbn [fst snd] in S.
  assert (Inv coro st1) as I1 by apply S. specialize (IH st1 I1).
  destruct (run_from coro true st1 l) as [os st2] eqn:R. cbn [fst snd total_fa total_ff] in *.
  destruct S as (_ & _ & _ & _ & [(-> & ->)|(_ & _ & L & _)]).
  - cbn. lia.
  - specialize (L eq_refl). lia.
Qed.

Theorem live_balance coro ops :
  total_fa (fst (run_from coro true st0 ops)) - total_ff (fst (run_from coro true st0 ops)) =
  live (snd (run_from coro true st0 ops)).
Proof. rewrite (live_balance_from coro ops st0 (Inv_st0 coro)). cbn. lia. Qed.

(* under a non-heap storage no frame is ever allocated or freed *)
Theorem pooled_frames_cost_nothing coro ops :
  total_fa (fst (run_from coro false st0 ops)) = 0 /\ total_ff (fst (run_from coro false st0 ops)) = 0.
Proof.
  destruct (run_facts coro false ops st0 (Inv_st0 coro)) as (_ & _ & F).
  induction F as [|x o l tr (sa & sb & _ & S & _) F (IH1 & IH2)]; cbn [total_fa total_ff]; [split; reflexivity|].
  rewrite IH1, IH2. destruct S as (_ & _ & _ & _ & [(-> & _)|(_ & (D1 & _ & D3) & _)]); [split; reflexivity|].
  rewrite D1, (D3 eq_refl). split; reflexivity.
Qed.

(* in normal mode, with at most three handles per suspend point, the frames are ALL the allocations *)
Theorem normal_allocs_are_frames heap ops :
  Forall (fun o => o_sps o <= 3) (fst (run_from false heap st0 ops)) ->
  total_other (fst (run_from false heap st0 ops)) = 0.
Proof.
  intros H. pose proof (zero_alloc_normal heap ops) as F.
  induction F as [|x o l tr S F IH]; cbn [total_other]; [reflexivity|].
  inversion H; subst. rewrite IH by assumption.
  destruct S as [->|(A & B & _)]; [reflexivity|]. rewrite B by assumption. reflexivity.
Qed.

(* ---------- threshold at program level: resolving a future awaited by k coroutines ---------- *)
Lemma grow_alloc_pos k : 3 < k -> 1 <= c_a (grow_cost 0 k).
Proof.
  intros K. unfold grow_cost. change (mk_sp 0) with sp_empty.
  apply sp_add_all_alloc_pos; [apply sp_wf_empty|reflexivity|].
  change (sp_size sp_empty) with 0. unfold zlen, n. rewrite repeat_length. lia.
Qed.

Lemma clear_nonneg k : cnonneg (clear_cost k).
Proof. unfold clear_cost. apply sp_clear_cost_spec. apply mk_sp_wf. Qed.

(* resolving a future (suspend point discarded) in any reachable state, any mode: the returned suspend point carries
   exactly the coroutines that were waiting; it costs nothing up to three of them and allocates from the fourth on *)
Theorem resolve_threshold coro heap st f kind s v : Inv coro st ->
  let o := snd (step coro heap st (FResolve f kind 0 s v)) in
  o_st o = 0 ->
  o_sps o = zlen (coro_waiters (f_chain (getf st f))) /\
  o_csp o = cadd (grow_cost 0 (o_sps o)) (clear_cost (o_sps o)) /\
  (o_sps o <= 3 -> o_csp o = c0) /\ (3 < o_sps o -> 1 <= c_a (o_csp o)).
Proof.
  intros I o A. subst o.
  pose proof (sp_cost_is_budget coro heap st (FResolve f kind 0 s v) I A) as B.
  assert (o_sps (snd (step coro heap st (FResolve f kind 0 s v))) = zlen (coro_waiters (f_chain (getf st f)))) as Sz.
  { clear B. revert A. unfold step. cbv zeta.
    match goal with |- context [if ?c then _ else (st, rejected)] => destruct c end; cbn [fst snd]; [|cbn; discriminate].
    match goal with |- context [walk ?a ?b ?c ?d ?e ?g] => destruct (walk a b c d e g) as [[[[st2 sp] csp] cb] sy] eqn:W end.
    destruct (walk_add_all _ _ _ _ _ _ _ _ _ _ _ W) as (Aw & Sw & Lw).
    destruct (add_all_can _ _ _ _ sp_can_empty Aw) as (Csp & Szsp & Ecsp).
    change (0 mod 10) with 0. cbn [Z.eqb].
    match goal with |- context [dispose ?a ?b ?c ?d ?e] => destruct (dispose a b c d e) as [[[[[st3 ev] csp2] cdq] k] sps] eqn:D end.
    cbn [fst snd o_sps]. intros _.
    assert (Inv coro st2) as I2 by (eapply Inv_same3; [|exact I]; eapply same3_trans; [apply (same3_setf st)|exact Sw]).
    destruct (dispose_spec _ _ _ _ _ _ _ _ _ _ _ I2 Csp D) as (_ & _ & _ & _ & _ & _ & X). cbn [Z.eqb] in X.
    destruct X as (-> & _). rewrite Szsp, zlen_witems. change (sp_size sp_empty) with 0. lia. }
  cbn [sp_budget] in B. change (0 mod 10) with 0 in B. cbn [Z.eqb] in B.
  set (o := snd (step coro heap st (FResolve f kind 0 s v))) in *.
  rewrite Z.sub_0_r in B. destruct (0 <=? o_sps o) eqn:K; [|discriminate].
  assert (cadd (grow_cost 0 (o_sps o)) (clear_cost (o_sps o)) = o_csp o) as E by (inversion B; reflexivity).
  split; [exact Sz|]. split; [symmetry; exact E|]. split.
  - intros L. rewrite <- E. rewrite grow_small, clear_le3 by lia. reflexivity.
  - intros L. rewrite <- E. unfold cadd; cbn [c_a]. pose proof (grow_alloc_pos _ L). destruct (clear_nonneg (o_sps o)). lia.
Qed.

(* ---------- refutation of the unrestricted statement in coroutine mode ---------- *)
Definition sps_small (tr : list obs) : bool := forallb (fun o => o_sps o <=? 3) tr.
Definition all_accepted (tr : list obs) : bool := forallb (fun o => o_st o =? 0) tr.

Lemma zero_alloc_refuted :
  exists ops, let tr := fst (run_from true true st0 ops) in
    all_accepted tr = true /\ sps_small tr = true /\
    total_fa tr = frames_created ops tr /\ total_fa tr = 64 /\ total_other tr = 1 /\
    al_oracle true (map encode_op ops) (map encode_obs tr) = false.
Proof. exists witness. vm_compute. repeat split; reflexivity. Qed.

Lemma witness_minimal :
  let tr := fst (run_from true true st0 (rounds 63)) in total_other tr = 0 /\ all_accepted tr = true.
Proof. vm_compute. split; reflexivity. Qed.

Lemma reachable_inv coro heap ops : Inv coro (snd (run_from coro heap st0 ops)).
Proof. exact (proj1 (run_facts coro heap ops st0 (Inv_st0 coro))). Qed.
